PROPS["C12"] = prop(
    "exploration",
    "rapid-generated secrets, exhaustive single-bit mutations and attempt histories against reference models ; round 7 (TestC12Basic): stored password hashes damaged behind the authenticator's back - nothing authenticates"
    "(issued-token table, HMAC reference, attempt counter, lower-cased login map); thorough tier: the same generators and oracles also run under Go's native coverage-guided fuzzer (rapid.MakeFuzz, 60 s per target, all cores); concurrent logins: 2-8 goroutines hammer ONE token authenticator for a bounded number of calls with a generated mix of genuine tokens, forgeries carrying a genuine token's signature and issue-then-verify, judged per call by the issued-token table, once in the normal build and once under the Go race detector (a race report kills the worker and counts as a violation)",
    "a case is non-trivial when it has >=1 accepted secret and >=1 refused secret derived from the accepted one "
    "(token: bit flips / truncations / foreign verifier / expiry of an accepted token; api key: mutations of an accepted key; "
    "code: a right guess accepted and a derived wrong or repeated guess refused; basic: a right password accepted and a derived "
    "wrong password or case-variant duplicate refused); distinct = FNV-64 of the case",
    "Real token/code/basic authenticators and checkAPIKey are driven with generated secrets, every single-bit flip and truncation "
    "of each issued token / API key, generated multi-byte mutations, foreign keys, serials and salts, a virtual clock across expiry, "
    "and generated histories of reset-code and password attempts; each answer is compared with a reference model written from the "
    "statement. Exhaustive over single-bit flips and truncations of every issued secret, sampled otherwise. "
    "TestC12TokenConcurrent/TestC12TokenConcurrentRace present genuine and forged tokens (signed fields of one token + signature of another, single-bit changes of the signed fields under the original signature) and issue fresh tokens "
    "from 2-8 goroutines on the one shared authenticator: no forgery may ever be accepted, every genuine or freshly issued token must yield exactly its issued record, tokens issued under load must verify afterwards on the issuer and on a "
    "restarted server; under -race any report of unsynchronised access to the authenticator's key state is a violation (interleavings are sampled from the Go scheduler, 2000/400 calls per goroutine). "
    "TestC12Basic draws a quarter of its passwords 73-90 bytes long (bcrypt's input limit is 72) and attempts which share such a password's first 72 bytes and differ afterwards (one byte changed behind the limit, "
    "cut at the limit, another tail, one character dropped or appended): if AddRecord / UpdateRecord ACCEPTED the long password, every such attempt must be refused (signature authenticated:long-password-prefix); "
    "if it was refused nothing more is demanded.",
    "Trusts the reference models in harness/c12*/c12_test.go, the Go scheduler to produce overlapping calls and the Go race detector (concurrent units; real clock, lifetimes >= 1 h), Go's crypto/hmac (used by the reference too), testing/synctest's virtual "
    "clock and the fake store adapters (PCache / auth records written from the MySQL adapter's SQL). The authenticators are called directly, except in "
    "TestC12WTokenSession, which presents issued, altered, truncated, expired and restricted tokens to a live session of the world engine "
    "({login} wire path, Session.onLogin) and reads the token handed back; authHttpRequest is not driven.",
    "5/C12", "auth-direct",
    [Unit("TestC12Token", "server/auth/token", quick=5000, thorough=60000, shards_quick=4, shards_thorough=16),
     Unit("TestC12TokenConcurrent", "server/auth/token", quick=200, thorough=6000, shards_quick=2, shards_thorough=16, crash_is_violation=True, shrink=5, replay_tries=4),
     Unit("TestC12TokenConcurrentRace", "server/auth/token", race=True, quick=60, thorough=2000, shards_quick=2, shards_thorough=16, crash_is_violation=True, shrink=5, replay_tries=4),
     Unit("TestC12APIKey", "server", quick=5000, thorough=60000, shards_quick=4, shards_thorough=16, fuzz="FuzzC12APIKey", fuzztime=60),
     Unit("TestC12LongPollGate", "server", quick=600, thorough=20000, shards_quick=4, shards_thorough=16),
     Unit("TestC12Code", "server/auth/code", quick=12000, thorough=200000, shards_quick=4, shards_thorough=16),
     Unit("TestC12Basic", "server/auth/basic", quick=12, thorough=300, shards_quick=8, shards_thorough=16),
     Unit("TestC12WTokenSession", "server", quick=1500, thorough=60000, shards_quick=4, shards_thorough=16)],
    ["token serial numbers are generated in 0..65535 (the signed field is 16 bits wide) and expiry stays below 2106 (32-bit seconds)",
     "two configured HMAC keys that pad/hash to the same 64-byte block are the same key (RFC 2104), not a 'foreign key'",
     "the last two seconds of a token's validity are unspecified (one-second field resolution plus the verifier's one-second margin)",
     "a correctly signed API key with algorithm version other than 1 may be refused; if accepted its root flag must be the issued one",
     "reset-code lifetime (expire_in) is not part of the statement: a right guess later than expire_in after the request is unspecified",
     "a password longer than 72 bytes (bcrypt limit) may be refused at creation or at a password change; the model follows the actual answer there, but a long password which was accepted is "
     "the password to its last byte: an attempt sharing only its first 72 bytes is a wrong password",
     "only an attempt that extends a registered password of exactly 72 bytes contains the whole secret; bcrypt ignores the extra bytes and the "
     "case is recorded (class auth:extension-of-72-byte-password) but not judged, by analogy with the extended-token carve-out of DESIGN.md section 4"],
)
