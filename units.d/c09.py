PROPS["C09"] = prop(
    "exploration",
    "rapid-generated note/publish/permission histories; oracles: bounds+monotonicity invariant over consecutive store snapshots, validity model for every note (valid => stored, invalid => no frame, no store change), recipient/field checks for every relayed {info}/{pres}; session 3: notes to unresolvable names, P2P re-invitation, marks shown in the own description equal the stored ones, store latency; after seeded round 6: receipts sent by root on behalf of a member, typing notes relayed through 'me' never reach the typist's own sessions, a note reaching a terminated topic is never answered 'locked'",
    "program = 4-5 sessions (owner, member with a second 'me'-only session, readers/channel readers) + messages + 4-16 ops, half of them notes with seq from {-1,0,1..6,1000} and kinds {read,recv,kp,kpa,kpv,data,bogus}; "
    "non-trivial = >=2 different valid notes by one user on one topic, >=1 invalid note and >=1 relayed notification; distinct = FNV-64 of the program",
    "Every stored and reported mark is checked after every step; every note is classified by an independent validity model and its effects/non-effects are checked at all sessions. Sampled.",
    "Trusts verifmem; the stored received mark is taken as max(recv, read) because a read note writes only the read mark (pinned by TestHandleBroadcastInfoP2P).",
    "5/C09", "world",
    [Unit("TestC09Marks", "server", quick=1200, thorough=60000, shards_quick=8, shards_thorough=16, timeout_quick=300)],
    ["a note to a topic the session is not attached to (other than recv) is answered 409 (pinned by TestDispatchNoteOnNonSubscribedTopic): judged only for 'no effect'"],
)
