PROPS["C06"] = prop(
    "exploration",
    "rapid-generated ownership histories (first subscription asking for O, grants of O by owner and non-owners, acceptance, unsubscribe/evict/delete attempts on the owner, reloads); invariant over consecutive store snapshots: exactly one effective owner, moves only by grant+acceptance; session 3: store failures around the hand-over (a topic left half-written by a failed request is not judged further), ownership handed over twice; after seeded round 6: a second group owned by another user which a root session joins; offers of ownership tracked per (topic, user)",
    "program = 3-5 sessions of 4 users + 3-16 ops from {sub with want incl. O, set given incl. O by anyone on anyone, set own want, leave/unsub, del sub, del topic, set desc/tags, reload, restart}; non-trivial = the owner granted O to another subscriber; distinct = FNV-64 of the program",
    "After every step every live group topic must have exactly one subscription with O in want&given, named by topics.owner; every change of owner is attributed to grant + acceptance. Sampled.",
    "Trusts verifmem; judged on store rows (cache agreement is C08).",
    "5/C06", "world",
    [Unit("TestC06Owner", "server", quick=1200, thorough=60000, shards_quick=8, shards_thorough=16, timeout_quick=300)],
    [],
)
PROPS["C07"] = prop(
    "exploration",
    "same generator as C06; transition validator over consecutive store snapshots attributing every changed (topic,user) row to the acting request and its actor's prior effective mode; plus P2P/me/fnd/sys membership and subscriber-limit invariants; session 3: P2P first grant = the peer's default for the executing level (extra.authlevel), fnd/me of another user by literal name, removal by an actor without effective A; after seeded round 6: strangers naming a P2P topic by its full name, P2P participants whose account defaults differ, root's first subscription to a foreign group; round 7: a member offered ownership who does not accept it cannot raise the own grant",
    "non-trivial = program with >=1 authorised and >=1 refused permission change, or an unsubscribe followed by a re-subscription; distinct = FNV-64 of the program",
    "Every change of a given/want column must be explained by the statement's rules for the actor who sent the request. Sampled.",
    "Trusts verifmem; root-on-behalf-of actions are attributed to the impersonated user as the server does.",
    "5/C07", "world",
    [Unit("TestC07Permissions", "server", quick=1200, thorough=60000, shards_quick=8, shards_thorough=16, timeout_quick=300)],
    [],
)
