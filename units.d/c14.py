PROPS["C14"] = prop(
    "exploration",
    "rapid-generated programs of parallel request batches (sub/leave/unsub/pub/get/del topic/evict/disconnect, slow consumers, idle unloads) issued by concurrent goroutines under the Go race detector; quiescence invariants: every request answered, session.subs <=> topic.sessions, online counters exact, no goroutine left, no deadlock/hang; session 3: connections replaced inside a batch, abandoned long-polling sessions which the registry expires, batches sent at the moment of the idle timer, store latency, deletion of an unloaded P2P topic; TestC14StatusBits: one goroutine per status flag of a topic (paused, read-only, deleted, loaded) writes a generated set/clear sequence through the topic's own methods on real cores, oracle = every flag ends as its own goroutine wrote it last (lost updates between individually atomic accesses, which the race detector cannot see)",
    "program = 4-6 sessions of 3 users + prologue + 2-8 batches (2..n concurrent requests from distinct sessions, generated yields), reconnects, ticks around the idle timeout, slow-consumer floods; "
    "non-trivial = a batch with >=3 concurrent requests touching one topic of which >=1 detaches, disconnects or deletes; distinct = FNV-64 of the program",
    "Schedules are sampled from what the Go runtime produces under generated perturbation; every race-detector report, unanswered request, attachment-table asymmetry, wrong online counter, leaked goroutine, deadlock or hang is a violation.",
    "Interleavings are sampled, not enumerated; white-box reads happen at synctest quiescence; a worker killed by the race detector is recovered from the write-ahead log and replayed.",
    "5/C14", "world-race",
    [Unit("TestC14Races", "server", race=True, quick=250, thorough=12000, shards_quick=8, shards_thorough=16, crash_is_violation=True, timeout_quick=400, timeout_thorough=7200, replay_tries=8),
     Unit("TestC14StatusBits", "server", quick=400, thorough=20000, shards_quick=2, shards_thorough=8, replay_tries=8)],
    ["a deleted topic's sessions are 'told' by {pres gone} on 'me' when the user has a session there; sessions not on 'me' are only detached"],
)
