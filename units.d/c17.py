PROPS["C17"] = prop(
    "exploration",
    "rapid-generated node sets/keys against the placement laws of the hash ring; rapid-generated memberships against the ring-signature gate of "
    "Cluster.Route/TopicMaster; rapid-generated delivery/loss/reorder/partition schedules over the real Cluster election and health-check code "
    "(n = 3..5 Cluster values, real rpc.Client over a harness codec) on a virtual clock (testing/synctest), safety invariants after every event; rapid-generated health checks, vote requests and timer ticks fed to ONE real failover loop whose peers are unreachable (every protocol situation one event away); rapid-generated changes of the live-node list on a running hub with loaded topics (no master kept for a name another node owns, unmoved topics undisturbed); thorough tier: the same generators and oracles also run under Go's native coverage-guided fuzzer (rapid.MakeFuzz, 60 s per target, all cores)",
    "ring unit: non-trivial = at least 3 node names and at least 100 keys; gate unit: at least 3 configured nodes and at least 20 topics; "
    "election unit: non-trivial = a schedule in which at least 2 different nodes started an election and at least 1 message was lost or delivered out of order; "
    "node unit: 1-14 events (health check from any peer with term own-2..own+3 and full or reduced node list, vote request with term own-1..own+3, 30-900 ms of time) on a node that starts leaderless, as a follower or as the established leader; non-trivial = at least 3 different situations met; "
    "rehash unit: 2-5 group topics + me + P2P topics of 4 users loaded on node a of 2-4 configured nodes, 4-16 ops of which 35% change the live list; non-trivial = at least 2 changes, one master moved away and one stayed; "
    "distinct = distinct case data (FNV-64 of the JSON case)",
    "Sampled, not exhaustive: placement laws (order independence, totality, minimal movement on add/remove, signatures differ for different sets) on generated "
    "name sets of 1..9 nodes x replica counts 1..64 x >=100 keys, with the production crc32 hash and with a deliberately weak hash that forces ties; the signature gate "
    "(rejected iff memberships differ) on generated pairs of live lists; election safety (one leader per term, one vote per node and term, monotone terms, strict majority "
    "of delivered grants before leadership), health-check adoption (leader, term; node list and ring signature on the second mismatching check), stale checks ignored, "
    "minority leader answers 502 - checked after every one of up to 200 generated events per schedule. Liveness (a leader is eventually elected) is not judged.",
    "Trusts the Go toolchain, testing/synctest's virtual clock and the harness transport (harness/c17/c17sim_test.go). The real sendHealthChecks visits peers in Go-map order and "
    "Cluster.run selects at random among ready inputs: the simulator executes each health round in name order (the calls of a round are independent) and hands a request to a node "
    "only while its loop is idle, so histories in which a busy loop finds several queued inputs at once are not explored (a schedule that would get there ends early and is counted "
    "in class ended-early-select-race). Health checks queued at a node that is inside its own health round are not judged for adoption. Node restarts (lost state) are outside the statement. "
    "Cluster.TopicProxy carries no ring signature and is not gated by the code; it is not judged. Topic traffic between nodes (proxy/master sessions) is outside this simulator: the rehash unit runs one real hub whose peers are down, so proxies never get a master to talk to and only their shutdown is judged.",
    "5/C17", "cluster-sim",
    [Unit("TestC17Ring", "server/ringhash", quick=6000, thorough=250000, shards_quick=4, shards_thorough=16, fuzz="FuzzC17Ring", fuzztime=60),
     Unit("TestC17Gate", "server", quick=2500, thorough=100000, shards_quick=2, shards_thorough=8),
     Unit("TestC17Election", "server", quick=350, thorough=10000, shards_quick=16, shards_thorough=16, shrink=60,
          timeout_quick=900, timeout_thorough=7200),
     Unit("TestC17Rehash", "server", quick=600, thorough=40000, shards_quick=8, shards_thorough=16, timeout_quick=300),
     Unit("TestC17Node", "server", quick=3000, thorough=150000, shards_quick=8, shards_thorough=16, timeout_quick=300)],
    ["a dropped request or reply reaches the caller as an RPC error and each request gets at most one reply (as net/rpc over TCP guarantees); an RPC error closes that connection and the harness re-establishes it at the next quiescent point",
     "the two-strike rule of Cluster.run (a follower rehashes at the second health check whose ring differs from its own) is accepted as the meaning of 'adopts node list and ring signature'",
     "'can reach no more than half' is counted from the health-check results the transport itself returned to the leader (consecutive failures per peer >= node_fail_after)",
     "ring names and keys are valid UTF-8 (they come from JSON configuration and JSON client messages)"],
)
