TYPES = "server/store/types"

PROPS["C05"] = prop(
    "exploration",
    "exhaustive enumeration of all 256 sets / 65 536 pairs + rapid-generated mode and delta strings against an 8-bit set reference model; rapid-generated permission-change histories on a running server where every {pres what=acs} difference is applied to the stored permissions before the step and compared with the stored permissions after it; thorough tier: the same generators and oracles also run under Go's native coverage-guided fuzzer (rapid.MakeFuzz, 60 s per target, all cores); after seeded round 6: P2P participant invited back after unsubscribing, description of an unloaded topic for a non-default mode, runes which case-fold to mode letters",
    "exhaustive unit: every set and every ordered pair is one case (all non-trivial); string unit: rapid strings <= 8 runes over the mode alphabet, signs, N and junk, "
    "non-trivial = contains a valid letter and one of {N, sign, junk}; distinct = distinct (start, string) by FNV-64; notification unit: program = c06 permission histories (grants, own-mode changes, transfers, evictions, re-subscriptions) with sessions attached to 'me', non-trivial = >=2 notifications in +/- form and >=1 in absolute form judged",
    "All 256 permission sets and all 65 536 (old,new) pairs are enumerated (round trip through text/JSON/SQL forms, Delta/ApplyDelta/ApplyMutation); "
    "generated strings are judged against an independent bit-set model; exhaustive on the finite part, sampled on strings.",
    "Trusts the Go compiler and the reference model in harness/types/c05_test.go; mode strings longer than 8 runes are not generated.",
    "5/C05", "types-pure",
    [Unit("TestC05Exhaustive", TYPES, rapid=False, shards_quick=1, shards_thorough=1),
     Unit("TestC05Strings", TYPES, quick=50000, thorough=1000000, shards_quick=4, shards_thorough=16, fuzz="FuzzC05Strings", fuzztime=60),
     Unit("TestC05AcsNotifications", "server", quick=1000, thorough=40000, shards_quick=8, shards_thorough=16, timeout_quick=300),
     Unit("TestC05ProxyReplay", "server", quick=10000, thorough=400000, shards_quick=4, shards_thorough=16, timeout_quick=300)],
    ["N combined with other letters, and deltas not starting with a sign, are treated as unspecified: only 'an error leaves the target unchanged' is required there"],
)
