TYPES = "server/store/types"

PROPS["C05"] = prop(
    "exploration",
    "exhaustive enumeration of all 256 sets / 65 536 pairs + rapid-generated mode and delta strings against an 8-bit set reference model",
    "exhaustive unit: every set and every ordered pair is one case (all non-trivial); string unit: rapid strings <= 8 runes over the mode alphabet, signs, N and junk, "
    "non-trivial = contains a valid letter and one of {N, sign, junk}; distinct = distinct (start, string) by FNV-64",
    "All 256 permission sets and all 65 536 (old,new) pairs are enumerated (round trip through text/JSON/SQL forms, Delta/ApplyDelta/ApplyMutation); "
    "generated strings are judged against an independent bit-set model; exhaustive on the finite part, sampled on strings.",
    "Trusts the Go compiler and the reference model in harness/types/c05_test.go; mode strings longer than 8 runes are not generated.",
    "5/C05", "types-pure",
    [Unit("TestC05Exhaustive", TYPES, rapid=False, shards_quick=1, shards_thorough=1),
     Unit("TestC05Strings", TYPES, quick=50000, thorough=1000000, shards_quick=4, shards_thorough=16)],
    ["N combined with other letters, and deltas not starting with a sign, are treated as unspecified: only 'an error leaves the target unchanged' is required there"],
)
