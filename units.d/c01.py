PROPS["C01"] = prop(
    "exploration",
    "rapid-generated stateful programs (concurrent publishers, reload, restart, crash-at-write, injected store faults of several error kinds incl. deadline, store latency on the virtual clock so that requests interleave at store-call boundaries, requests sent at the very moment a topic's idle timer fires, protobuf connections) against a per-topic counter model; invariant checked after every step over acks, {data} frames, descriptions and the store; after seeded round 6: video calls in the P2P topic - a message the server writes itself (the outcome of a call) is one number of the sequence like an acknowledged publish; a publish sent at the instant the ring timer fires, hang-ups, a call party dropped for a full send queue",
    "program = session layout + prologue (group/channel, p2p) + 2-14 ops from {pub, parallel pubs, sub/leave, reload, restart, fault(k)+pub, crash(k)+pub, get}; "
    "non-trivial = >=2 accepted publishes from >=2 sessions and at least one of {parallel batch, reload, restart, crash point, injected fault}; distinct = FNV-64 of the program",
    "Generated publish histories on the real hub/topic/session code over the reference store; every acknowledged id must be the next one, every copy and history row must show it, crash points are store-call boundaries. Sampled.",
    "Trusts verifmem (written from the MySQL adapter's SQL) and the counter model in harness/world/c01_test.go; interleavings inside a parallel batch are those the Go scheduler produces.",
    "5/C01", "world",
    [Unit("TestC01Numbering", "server", quick=1200, thorough=60000, shards_quick=8, shards_thorough=16, timeout_quick=300)],
    ["frames emitted after a crash point are treated as never sent", "a crash may burn at most one number (hole), never reuse one"],
)
