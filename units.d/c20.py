_C20_TYPES = "server/store/types"
_C20_MAIN = "server"

PROPS["C20"] = prop(
    "exploration",
    "rapid round-trip + single-field sensitivity sweep over reflection-generated message trees; strict reference decoder for ids; rapid-generated histories on a running server (publishes, permission changes, reload and restart of the P2P topic) with the invariant that every frame shows a P2P topic under the other participant's id; thorough tier: the same generators and oracles also run under Go's native coverage-guided fuzzer (rapid.MakeFuzz, 60 s per target, all cores); string payloads and string fields are drawn from a hostile-text alphabet (all C0 controls, DEL, U+0085, U+2028/2029, U+FEFF, non-BMP incl. unprintable U+E0001/U+10FFFF, escape look-alikes, quotes/backslashes, and - inside 'any' payloads - bytes that are not UTF-8) with the JSON rendering as reference, in both directions (struct-first through pbServSerialize/pbCliSerialize, protobuf-first through pbCliDeserialize/pbServDeserialize with JSON spellings no Go encoder emits)",
    "non-trivial = id strings that differ from a valid encoding in exactly one position (or only in the unused trailing bits), proper p2p pairs, "
    "grp/chn names, messages with >= 3 optional sub-structures present; distinct = distinct generated case by FNV-64 of its JSON",
    "Ids: all 64-bit values with boundary bias through every codec against an independent bit-level encoder/decoder; strings <= 30 bytes offered as ids and "
    "topic names; p2p symmetry/injectivity/decoding on generated pairs. Messages: reflection-generated ClientComMessage/ServerComMessage trees and generated "
    "pbx.ClientMsg through the real converters and the protobuf wire format, compared on the projection both schemas define, plus a sweep that changes every "
    "JSON-tagged leaf on its own and requires the protobuf message and the decoded struct to change. Every 'any' payload (data/pub content, desc public/private/trusted, head values, ctrl params, note/info payload) "
    "and plain string field is also filled with control characters 0x00-0x1f, DEL, C1/line-separator/BOM characters, non-BMP code points, escape look-alikes and (payloads only) invalid UTF-8; the value a gRPC client "
    "decodes from the protobuf bytes with a JSON decoder must equal the value a JSON client decodes, and bytes that are not JSON at all are a violation (class histogram anystr:*/anynested:*/str:* shows what was reached). Sampled, not exhaustive.",
    "Trusts the Go compiler, encoding/json, google.golang.org/protobuf and the reference codecs in harness/types/c20_test.go; fields the protobuf schema does "
    "not define are listed in harness/c20 (c20NotCarried) and reported in the evidence; the transport differential over a live gRPC stream is not part of this unit set.",
    "5/C20", "types-pure + server-pure",
    [Unit("TestC20Uid", _C20_TYPES, quick=100000, thorough=2000000, shards_quick=2, shards_thorough=8),
     Unit("TestC20UidText", _C20_TYPES, quick=100000, thorough=2000000, shards_quick=2, shards_thorough=8, fuzz="FuzzC20UidText", fuzztime=60),
     Unit("TestC20UidText32", _C20_TYPES, quick=50000, thorough=1000000, shards_quick=1, shards_thorough=4),
     Unit("TestC20P2P", _C20_TYPES, quick=100000, thorough=2000000, shards_quick=2, shards_thorough=8, fuzz="FuzzC20P2P", fuzztime=60),
     Unit("TestC20Names", _C20_TYPES, quick=100000, thorough=2000000, shards_quick=2, shards_thorough=8, fuzz="FuzzC20Names", fuzztime=60),
     Unit("TestC20UidGen", _C20_TYPES, quick=5000, thorough=100000, shards_quick=1, shards_thorough=4),
     Unit("TestC20StoreUid", _C20_MAIN, quick=20000, thorough=500000, shards_quick=1, shards_thorough=4),
     Unit("TestC20SweepAll", _C20_MAIN, rapid=False, shards_quick=1, shards_thorough=1, n_quick=3, n_thorough=40),
     Unit("TestC20Client", _C20_MAIN, quick=8000, thorough=100000, shards_quick=4, shards_thorough=16),
     Unit("TestC20Server", _C20_MAIN, quick=8000, thorough=100000, shards_quick=4, shards_thorough=16),
     Unit("TestC20PbClient", _C20_MAIN, quick=6000, thorough=150000, shards_quick=2, shards_thorough=8),
     Unit("TestC20PbServer", _C20_MAIN, quick=6000, thorough=150000, shards_quick=2, shards_thorough=8),
     Unit("TestC20WP2PNames", _C20_MAIN, quick=800, thorough=30000, shards_quick=8, shards_thorough=16, timeout_quick=300),
     ],
    ["a Uid text whose last base64 character differs only in the unused trailing bits is an alternative spelling of the same id (DESIGN.md section 4)",
     "p2p strings whose halves are out of order, equal or zero are never produced by P2PName; how ParseP2P reads them is unspecified",
     "upper- or mixed-case base32 is never produced by String32; ParseUid32 may read it as the id or as zero"],
)
