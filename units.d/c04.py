PROPS["C04"] = prop(
    "exploration",
    "property-based testing (rapid): (1) generated range lists through RangeSorter+Normalize against a covered-id-set model (pure); "
    "(2) generated publish/delete/query histories run on the real hub/topics/sessions over the verifmem store (world engine, synctest bubble) "
    "against an explicit reference model of history and deletion written from the statement and fed only by acknowledged (2xx) requests: "
    "messages (seq, author, content, ts), per-user soft-deleted sets per subscription incarnation, hard-deleted set, delete-transaction counter, log of delete transactions. "
    "Every {get data} answer, {get del} answer and {del msg} outcome is compared with the model; after every step the store snapshot "
    "(messages: deleted marks, erased content; deletion-log rows per user; topic delete counter) is compared with the model; every {data} frame is checked for cross-topic mixing; thorough tier: the same generators and oracles also run under Go's native coverage-guided fuzzer (rapid.MakeFuzz, 60 s per target, all cores); "
    "(3) generated MessageDeleteList (hard/soft) / MessageGetAll / MessageGetDeleted calls on the real MySQL and PostgreSQL adapters against the fake wire servers of C18 (no DBMS): "
    "the statements the adapters emit are judged by evaluating their seqid (delid) predicates (BETWEEN / IN / = >= > < <=, integer literals) and the (low, hi) rows written to dellog "
    "against the covered-id set of the request; the WHERE clauses of the two queries are also evaluated row by row by a small recursive-descent evaluator (comparisons, BETWEEN, IN, IS [NOT] NULL, AND/OR/NOT with SQL precedence and three-valued logic, parentheses, aliases) on a synthetic table "
    "(deletion log: {queried topic, another topic} x {deletedfor 0, the querying user, another user} x delete ids; history: {queried topic, another} x {live, hard-deleted} x {not / soft-deleted for the user} x message ids) and the selected rows compared with the demanded ones "
    "(signatures sql-dellog-query-other-topic / -other-user, sql-history-other-topic / -shows-hard-deleted / -shows-soft-deleted); every generated multi-range delete (and every new statement shape of a single-range one) is additionally run once per statement position k of its fault-free trace with statement k answered by an error: "
    "the call must return the error and no COMMIT may follow the failed statement",
    "pure unit (TestC04Normalize): rapid lists of 0-7 ranges (singles as hi=0 and hi=low+1, overlapping, nested, adjacent), non-trivial = >=3 ranges with an overlap and an adjacency; "
    "world unit (TestC04History): 3-6 sessions of 4 users (owner, member/P2P peer, members or channel readers), one group topic (35% channel) + one P2P topic (70%), 3-9 messages "
    "(3%: 101-104, beyond the store's maximum of 100 per query) + 6-24 drawn ops: {del msg} soft/hard with 1-6 entries (unsorted, duplicated, touching, overlapping, nested, one apart, "
    "hi=0 / hi=low / hi=low+1, up to and beyond the last id, 4% outside the domain: low 0/negative/beyond last, inverted, negative hi, 0-0) followed by {get data} of the requester and of "
    "another user, {get data} with since/before/limit from {absent, 0, negative, 1.., last-1, last, last+1, beyond, inverted, 99/100/101/1000}, {get del} (30% with since/before/limit), "
    "{get data del}, publishes, {set sub user= mode=} by the owner / P2P peer and {set sub mode=} by the user with and without R and D, leave / leave-unsub + re-sub, eviction, reload, restart, tick; "
    "channel readers address the topic as chnXXX (5% of their gets as grpXXX). "
    "non-trivial = >=1 accepted delete listing >=2 entries that overlap or touch, >=1 accepted hard and >=1 accepted soft delete (degraded ones count as soft), and afterwards >=1 {get data} "
    "by an attached reader judged exactly; distinct = FNV-64 of the case; see the class histogram for the share of cases with limit-cut answers, channel readers, non-readers, "
    "queries by a non-deleter, unsub/evict/reload/restart, out-of-domain deletes accepted; "
    "SQL units (TestC04SqlMySQL, TestC04SqlPG): one adapter call per case: hard or soft delete of 1-4 ranges over ids 1..12 (sorted + normalised as the server does, hi=0 = single id, delete id 1..40), "
    "or history / deletion-log query with since, before, limit from {0 (absent), 1, 2, 3, 5, 11, 12, 13, 100, 1000}; non-trivial = delete of >=2 ranges or of one multi-id range, query with both since and before, "
    "every seqid/delid predicate understood by the evaluator (class predicate-not-understood otherwise: not judged; a query whose WHERE clause the row evaluator cannot parse, or that names a column the synthetic rows do not model, is class <op>-rows-not-understood and judged on its seqid/delid predicate alone); "
    "the fault sweep of a delete case (class fault-sweep:judged) adds one run per statement of its fault-free trace (BEGIN, PREPARE, each dellog INSERT, DELETE filemsglinks, UPDATE messages, COMMIT) and does not change what counts as non-trivial",
    "Generated range lists and generated publish/delete/query histories are compared with reference models written from the statement; sampled, not exhaustive. The SQL adapters' statements are judged by evaluating their seqid predicates against the covered-id set, and the WHERE clauses of the history and deletion-log queries row by row on a synthetic table of other topics / other users / hard- and soft-deleted rows (no DBMS is run); a MessageDeleteList with one failing statement (every position, generic statement error) must report the failure and must not be followed by COMMIT (signatures sql-delete-failure-swallowed, sql-delete-committed-after-failure).",
    "Trusts the reference models in harness/types/c04_test.go and harness/world/c04_test.go; store contract = verifmem (written from the MySQL adapter's SQL: newest-first, limit min(opt,100), "
    "unsubscribing drops the user's deletion log). Permissions are read from the store rows before the step and judged only where the loaded topic's cache agrees "
    "(permObs.agreed; a delete accepted under disagreement stops the judging of that topic). Root/obo requests are not generated.",
    "5/C04", "types-pure+world",
    [Unit("TestC04PublishedTimestamps", "server", quick=600, thorough=20000, shards_quick=4, shards_thorough=16, timeout_quick=300),
     Unit("TestC04Normalize", "server/store/types", quick=50000, thorough=1000000, shards_quick=4, shards_thorough=16, fuzz="FuzzC04Normalize", fuzztime=60),
     Unit("TestC04History", "server", quick=1500, thorough=80000, shards_quick=8, shards_thorough=16, timeout_quick=400),
     Unit("TestC04SqlMySQL", "server/db/mysql", quick=1500, thorough=40000, shards_quick=2, shards_thorough=8, tags="mysql"),
     Unit("TestC04SqlPG", "server/db/postgres", quick=1500, thorough=40000, shards_quick=2, shards_thorough=8, tags="postgres")],
    ["ranges are sorted with RangeSorter before Normalize, as both callers do",
     "a delete request with an entry outside 1 <= low <= last id, hi = 0 or hi >= low (or with no entry) may be refused (then: no effect) or accepted (then: the same clipping rule)",
     "when the limit cuts a history answer the newest ids are kept (store contract: ORDER BY seqid DESC LIMIT n); the order of the {data} frames is not judged",
     "{get del} with since/before selects delete transactions since <= id < before; with a limit smaller than the number of listed entries only 'no id that was not deleted for the user' is judged; id 0 in a reported range is ignored (it never exists)",
     "a delete request from a session that is not attached, or from a channel reader, may be refused; only 'refused => no effect' is judged there",
     "unsubscribing (or eviction) ends a subscription incarnation: the user's soft deletions and their log entries are gone after re-subscription (DESIGN.md 3.3)",
     "SQL units: the statement text the fake servers receive is what a DBMS would execute (MySQL: interpolateParams=true, binary COM_STMT_EXECUTE parameters decoded by a recording proxy; PostgreSQL: prefer_simple_protocol=true); "
     "SQL BETWEEN is inclusive at both ends; only the WHERE clause is evaluated (the ON clause of the history query's dellog join is not: the synthetic rows are given as already joined, d.* NULL = no soft deletion of the querying user covers the message); the user's number in dellog.deletedfor is store.DecodeUid of the uid; a deletion-log query with before=1 is read as 'no upper bound' by both adapters "
     "(opts.Before > 1) and is not judged on its upper end, as in the world oracle",
     "SQL units, failing statements: only the generic statement error of the C18 fake servers is injected (one statement per run, never ROLLBACK); a delete acknowledged although a statement failed, or committed after it, "
     "is counted as a C04 violation because the request is then reported as successful while the log / the hidden set cover only a part of the listed ranges; single-range deletes are swept once per statement shape and process"],
)
