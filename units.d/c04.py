PROPS["C04"] = prop(
    "exploration",
    "rapid-generated range lists against a covered-id-set model (pure) + stateful world programs against a reference history/deletion model",
    "pure unit: rapid lists of 0-7 ranges (singles as hi=0 and hi=low+1, overlapping, nested, adjacent), non-trivial = >=3 ranges with an overlap and an adjacency; "
    "world unit: see per-unit class histogram; distinct = FNV-64 of the case",
    "Generated range lists and generated publish/delete/query histories are compared with a reference model written from the statement; sampled, not exhaustive.",
    "Trusts the reference models in harness/types/c04_test.go and harness/world; store contract = verifmem (written from the MySQL adapter's SQL).",
    "5/C04", "types-pure+world",
    [Unit("TestC04Normalize", "server/store/types", quick=50000, thorough=1000000, shards_quick=4, shards_thorough=16),
     Unit("TestC04History", "server", quick=1500, thorough=80000, shards_quick=8, shards_thorough=16, timeout_quick=400)],
    ["ranges are sorted with RangeSorter before Normalize, as both callers do"],
)
