PROPS["C11"] = prop(
    "exploration",
    "rapid-generated request sequences on a fresh connection (handshake variants, independently forged token variants, basic/unknown schemes, validators on/off, suspended/deleted accounts, on-behalf-of) against a (version, user, level) state model; refused requests are diffed against the store; session 3: a working credential validator (requests, mailed restricted tokens, logins answering a confirmation request), an authenticator which reports the account state itself and runs two-stage logins, patch-level version change; after seeded round 6: harness sessions are fed through the long-polling reader (per-session lock); two logins of one session in parallel requests: at most one is accepted",
    "program = 2-12 messages from {hi with 8 version strings, login with 12 token variants / basic / unknown schemes, acc update, 14 request kinds with and without extra.obo, clock ticks}; "
    "non-trivial = the sequence reaches login and contains >=1 request that must be refused and >=1 that is served; distinct = FNV-64 of the program",
    "Every reply code, the session's resulting identity (white-box uid/level) and the store are compared with the state model after every message; published copies are checked at an observer session. Sampled.",
    "Trusts verifmem and the token forger in harness/world/c11_test.go (written from the documented token layout); only the token, basic and anonymous-level paths are exercised, not REST auth.",
    "5/C11", "world",
    [Unit("TestC11SessionState", "server", quick=1500, thorough=60000, shards_quick=8, shards_thorough=16, timeout_quick=300)],
    ["exact error codes are not pinned: refused = ctrl code >= 400"],
)
