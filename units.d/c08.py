PROPS["C08"] = prop(
    "exploration",
    "rapid-generated request histories with injected store faults, unloads and restarts; oracles: white-box cache==store comparison after every step, failed-request=no-store-change diff, reload-differential of desc/sub/tags/del/data answers across a restart; session 3: nested description updates under store failure (direction of the divergence in the signature), read-only flag vs stored state, P2P {del topic} keeps the peer's rows, store latency; after seeded round 6: credentials which become tags (harness validator required of accounts) confirmed and deleted while 'me' is loaded; round 7: tag lists which normalise to something else (duplicates, one-character tags, the clearing tag)",
    "program = 3-4 sessions + prologue (group or channel, p2p, me) + 3-14 ops over every state-changing request kind, 12% preceded by fault(k); "
    "non-trivial = >=2 classes of acknowledged changes and >=1 of {unload, restart, fault, restart-probe}; distinct = FNV-64 of the program",
    "After every step every loaded topic's cached counters, owner, defaults, tags, public/trusted and per-subscriber modes, private, marks are compared with the store rows; a restart probe compares client-visible answers. Sampled.",
    "Trusts verifmem; faults are single failed adapter calls (each adapter call is atomic); white-box reads happen at synctest quiescence.",
    "5/C08", "world",
    [Unit("TestC08CacheStore", "server", quick=1000, thorough=40000, shards_quick=8, shards_thorough=16, timeout_quick=300)],
    ["online/seen/now-timestamps are excluded from the reload-differential projection"],
)
