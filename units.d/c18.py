C18MY = "server/db/mysql"
C18PG = "server/db/postgres"

PROPS["C18"] = prop(
    "fault_enumeration",
    "fault enumeration with rapid-generated scripts against fake MySQL/PostgreSQL wire servers; oracle = transaction-bracket invariant over the statement trace; besides a generic statement error the fake servers fail a statement with the error numbers adapters special-case, with the server-side state change that goes with them (MySQL 1213 deadlock = the server has rolled back and ended the whole transaction, 1205 lock wait timeout = statement only; PostgreSQL 40P01 deadlock, 23503 foreign key, 57014 cancel = aborted transaction block; savepoints tracked by name); rapid-generated account creations through the store mapper (store.Users.Create) over the in-memory adapter with the k-th adapter call failing; oracle = error reported and store unchanged, or no error and everything written",
    "one case = (adapter operation, arguments, result script for its SELECT/UPDATE/DELETE/INSERT answers, fault position k, fault kind in {statement error, "
    "duplicate key on an INSERT, connection drop, MySQL deadlock 1213 / lock wait timeout 1205 on a data-modifying statement, PostgreSQL deadlock 40P01 / foreign-key violation 23503 on a data-modifying statement, PostgreSQL cancel 57014 on a SELECT or data-modifying statement}); every case first runs fault-free to learn the statement count n, so 1 <= k <= n; "
    "non-trivial = k > 1 and at least one data-modifying statement succeeded before statement k; distinct = distinct (operation, arguments, script, k, kind) by FNV-64; "
    "the Enum units enumerate every k and every kind for a fixed scenario list (argument variants x one-at-a-time and pairwise script deviations, deduplicated by the shape of the fault-free trace); "
    "the Stall units (thorough only) stall every position of every default scenario beyond sql_timeout",
    "For every transactional operation of the MySQL and PostgreSQL adapters (UserCreate, UserDelete, UserUpdate, UserUpdateTags, TopicCreate, TopicCreateP2P, TopicShare, "
    "TopicDelete, TopicUpdate, SubsUpdate, SubsDelete, SubsDelForUser, MessageDeleteList, DeviceUpsert, DeviceDelete, CredUpsert, CredDel, FileFinishUpload, "
    "FileDeleteUnused, FileLinkAttachments) the real driver stack (go-sql-driver/database/sql/sqlx, pgx/pgxpool) talks to an in-process fake server that fails "
    "statement k; every position of every enumerated scenario is visited, and rapid draws further (arguments, script, k, kind) combinations. Judged on the trace the "
    "server saw: writes only inside one BEGIN..COMMIT/ROLLBACK bracket on one connection; a bracket containing a failed, not explicitly tolerated statement is never "
    "committed; nil is returned only with exactly one successful COMMIT; no bracket is open when the call returns. "
    "After a MySQL deadlock error the bracket has been ended by the server (rollback of the whole transaction): no data-modifying statement of the operation may be executed afterwards, because it runs in autocommit mode and is committed on its own, and a later COMMIT is a no-op that does not count as the operation's COMMIT. "
    "A failed statement that the adapter undoes with ROLLBACK TO SAVEPOINT still forbids COMMIT and a nil return unless it is the documented tolerated duplicate-key failure; on a nil return every failed statement of the trace must be a tolerated one.",
    "No DBMS is available: atomicity is judged on the transaction bracket the driver emits (the property's observe_at), not on table contents; isolation/locking of a real "
    "server is not modelled. The fake PostgreSQL server models the aborted-transaction state (25P02 until ROLLBACK / ROLLBACK TO SAVEPOINT, COMMIT of an aborted block "
    "answers ROLLBACK); the fake MySQL server keeps the transaction usable after a failed statement, as MySQL does, except after error 1213 where - as InnoDB does for a deadlock victim - the whole transaction is rolled back and the connection is back in autocommit mode (the status flags of the following answers say so). Both fake servers track savepoints by name: ROLLBACK TO / RELEASE of a name that was not established fails (3B001 / 1305) and does not revive an aborted PostgreSQL block. Adapters run with sql_timeout unset (a legal "
    "configuration), so no context cancellation can roll back behind the adapter's back; deadline expiry is only covered by the thorough-tier Stall units. "
    "Of the store-level compositions in store.go account creation (Users.Create = UserCreate + TopicShare + compensating delete; unit TestC18StoreAccount), message-range deletion (Messages.DeleteList = MessageDeleteList + TopicUpdate + SubsUpdate) and group creation (Topics.Create = TopicCreate + TopicShare; unit TestC18StoreOps) are judged on the in-memory adapter; a hard delete whose SQL affects other rows than intended cannot be seen without a DBMS. MongoDB/RethinkDB adapters are not exercised.",
    "5/C18", "sql-fault",
    [Unit("TestC18MySQLEnum", C18MY, rapid=False, tags="mysql", shards_quick=1, shards_thorough=1, n_quick=4000, n_thorough=1000000, timeout_quick=300, timeout_thorough=3600),
     Unit("TestC18PostgresEnum", C18PG, rapid=False, tags="postgres", shards_quick=1, shards_thorough=1, n_quick=4000, n_thorough=1000000, timeout_quick=300, timeout_thorough=3600),
     Unit("TestC18MySQLStall", C18MY, rapid=False, tags="mysql", shards_quick=1, shards_thorough=1, timeout_quick=120, timeout_thorough=1800),
     Unit("TestC18PostgresStall", C18PG, rapid=False, tags="postgres", shards_quick=1, shards_thorough=1, timeout_quick=120, timeout_thorough=1800),
     Unit("TestC18MySQL", C18MY, tags="mysql", quick=1500, thorough=40000, shards_quick=3, shards_thorough=8, timeout_quick=300, timeout_thorough=3600),
     Unit("TestC18Postgres", C18PG, tags="postgres", quick=1500, thorough=40000, shards_quick=3, shards_thorough=8, timeout_quick=300, timeout_thorough=3600),
     Unit("TestC18StoreAccount", "server", quick=4000, thorough=200000, shards_quick=2, shards_thorough=8, timeout_quick=300),
     Unit("TestC18StoreOps", "server", quick=3000, thorough=100000, shards_quick=2, shards_thorough=8, timeout_quick=300)],
    ["a duplicate-key error on INSERT INTO subscriptions is tolerated by createSubscription (turned into an UPDATE; PostgreSQL: after ROLLBACK TO SAVEPOINT) and a "
     "duplicate-key error on INSERT INTO usertags is tolerated by UserUpdateTags without reset (addTags ignoreDups) on MySQL: committing after these is not a violation; "
     "only a real unique violation (MySQL 1062, PostgreSQL 23505) is tolerated there, any other failure of the same INSERT (generic error, deadlock, lock wait timeout, foreign key, cancel, 25P02) is not",
     "MySQL error 1213 means InnoDB has rolled back the victim's whole transaction (documented behaviour); error 1205 rolls back the statement only (innodb_rollback_on_timeout=OFF, the default); "
     "deadlock, lock wait timeout and foreign-key faults are only injected at data-modifying statements, cancel (PostgreSQL) at SELECTs and data-modifying statements",
     "a COMMIT that fails ends the transaction at the server without making it durable (as MySQL and PostgreSQL do); ROLLBACK itself is never failed",
     "a transaction ended by the loss of its connection counts as ended (the server rolls it back), even when the adapter never finishes its client-side transaction object",
     "fault-free runs may legitimately end in ROLLBACK with an error (not found, duplicate, malformed): then no COMMIT may have happened",
     "single-statement operations (AuthAddRecord, AuthUpdRecord, MessageSave, CredConfirm) are included only for 'the failure is reported' and to make panics on the error "
     "path visible as class panic:<op>; they are never counted as non-trivial and a panic alone is not a C18 violation",
     "Stall units (thorough tier only, real time): statement k is answered 1.5 s late with sql_timeout=1; because database/sql and pgx end the transaction from a "
     "watcher goroutine, the server is given up to 10 s of real time after the call returned before 'transaction still open' is judged; when the stalled statement is "
     "the COMMIT itself only 'no open transaction' and 'nil => exactly one COMMIT' are demanded"],
)
