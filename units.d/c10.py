PROPS["C10"] = prop(
    "exploration",
    "rapid-generated multi-session attach/detach/disconnect/mute/invite/evict histories on 'me', P2P and group topics under a virtual clock; oracles: entitlement of every {pres}/{info-on-me} frame against the stored subscription, online-counter invariant after every step, convergence of last-told online state and of the contact table once idle topics are unloaded; session 3: channel-enabled groups, online flags of group subscriber lists, account deletion with the P2P topic in memory, one-sided mute, attach at the moment of the idle timer, store latency; round 7: the only connection on 'me' stops reading and is dropped by the topic - contacts must still be told 'off'",
    "program = 3-6 sessions of 4 users (some saying {hi bkg}), group + up to 4 P2P topics, 4-22 ops (sub/leave me and work topics, disc/reconn, own-mode and grant changes incl. mute/ban, evictions, publishes, notes, desc updates, ticks of 0.6-12 s, restart); "
    "non-trivial = >=2 (observer session, subject) pairs judged at the end and both an 'on' and an 'off' told during the history; distinct = FNV-64 of the program",
    "Every presence frame of every step is checked; counters after every step; convergence once per history after 14 virtual seconds of silence. Sampled.",
    "Trusts verifmem and the harness attachment model (built from wire acks). Pairs on a topic where a {set} was served for a non-attached session are not judged (known C08 divergence). 'upd' to joined subscribers without P is accepted (the server's filter names it as an exception). Single node: cluster proxy sessions are out of reach.",
    "5/C10", "world",
    [Unit("TestC10Presence", "server", quick=1200, thorough=60000, shards_quick=8, shards_thorough=16, timeout_quick=300)],
    [],
)
