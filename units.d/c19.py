_C19_MAIN = "server"

PROPS["C19"] = prop(
    "exploration",
    "rapid-generated query strings against a reference parser written from docs/API.md; normalisation image check for tags; multiset model for reserved-namespace helpers",
    "query unit: strings <= 24 runes over letters, digits, space, tab, comma, quote, colon, @ + . _ - and non-ASCII letters, biased to 2-5 terms, under generated "
    "validator/authenticator configurations; non-trivial = >= 2 terms and one of {comma, quote, rewritable term}; tag units: non-trivial = >= 2 tags with a duplicate, "
    "an invalid tag or more than the count limit / lists carrying reserved-namespace tags; distinct = distinct case by FNV-64 of its JSON",
    "Pure part: parseSearchQuery+rewriteTag are compared as multisets with a reference parser written from docs/API.md and the statement; normalizeTags against the "
    "normalised image of its input in both directions; restrictedTagsEqual/filterRestrictedTags against a multiset model. Sampled, not exhaustive.",
    "Trusts the reference parser in harness/c19 and the validators' PreCheck as the definition of 'looks like an e-mail / phone number'. Inputs whose meaning the "
    "documents leave open (empty quotes, quote after quote, leading/trailing comma, terms that are not valid tags or shorter than 2 runes) are counted, not judged.",
    "5/C19", "server-pure",
    [Unit("TestC19Query", _C19_MAIN, quick=75000, thorough=1250000, shards_quick=4, shards_thorough=16),
     Unit("TestC19NormalizeTags", _C19_MAIN, quick=50000, thorough=1000000, shards_quick=2, shards_thorough=8),
     Unit("TestC19RestrictedTags", _C19_MAIN, quick=50000, thorough=1000000, shards_quick=2, shards_thorough=8),
     Unit("TestC19WTagsAndSearch", _C19_MAIN, quick=1000, thorough=50000, shards_quick=8, shards_thorough=16, timeout_quick=300),
     ],
    ["quoted terms: whether a literal term is also rewritten (e-mail/phone/login) is not stated; both are accepted",
     "fnd.private queries: docs say only the rewritten term is kept, the code keeps original+rewritten; both are accepted and the case is counted (note:private-query-keeps-original)",
     "a term that is not a valid tag (e.g. a:b, a quoted term containing a space) is dropped by the code; the documents do not say what such a query means, so it is not judged",
     "which tags are sacrificed when a list exceeds the count limit is not stated (the code truncates the raw list first and says so)",
     "strings such as 'email:a b' that start with a reserved prefix but are not tags by the documented grammar are not judged by the reserved-namespace model"],
)
