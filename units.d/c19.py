_C19_MAIN = "server"

PROPS["C19"] = prop(
    "exploration",
    "rapid-generated query strings against a reference parser written from docs/API.md; normalisation image check for tags; multiset model for reserved-namespace helpers; ; after seeded round 6 (TestC19WTagsAndSearch): login changes through {acc scheme=basic} - the authenticator's namespace holds exactly the login on record; round 7: accounts created through {acc user=new} with tag lists which need cleaning"
    "world: rapid-generated histories of {set tags} on 'me'/groups (owner, non-owner), {acc tags}, group creation with tags, {set fnd public|private} + {get fnd sub}, "
    "account suspension/deletion and topic deletion under generated reserved/masked/rewriting namespace configurations, judged by a reference model of accounts, topics, tags and "
    "states compared with the store, the cached tags, every {meta tags} and the answer of every search after every step; thorough tier: the same generators and oracles also run under Go's native coverage-guided fuzzer (rapid.MakeFuzz, 60 s per target, all cores)",
    "query unit: strings <= 24 runes over letters, digits, space, tab, comma, quote, colon, @ + . _ - and non-ASCII letters, biased to 2-5 terms, under generated "
    "validator/authenticator configurations; non-trivial = >= 2 terms and one of {comma, quote, rewritable term}; tag units: non-trivial = >= 2 tags with a duplicate, "
    "an invalid tag or more than the count limit / lists carrying reserved-namespace tags; world unit: 4 accounts with tags seeded through the store (e-mail, phone, login, org, geo "
    "namespaces + plain), 2 tagged groups, 8-26 requests; non-trivial = >= 1 accepted tag update on an object that carries reserved tags AND >= 1 refused attempt to add/remove a "
    "reserved tag AND >= 1 fully judged search that either returned results or was refused for a foreign masked term; distinct = distinct case by FNV-64 of its JSON",
    "Pure part: parseSearchQuery+rewriteTag are compared as multisets with a reference parser written from docs/API.md and the statement; normalizeTags against the "
    "normalised image of its input in both directions; restrictedTagsEqual/filterRestrictedTags against a multiset model. World part: reserved tags invariant under every client "
    "request, accepted update = normalised image exactly, refused update = no change, masked terms only if carried, results = visible objects satisfying the query, inactive objects "
    "hidden from non-root, rewriting only under the configuration that indexes the namespace. Sampled, not exhaustive.",
    "Trusts the reference parser in harness/c19 and the validators' PreCheck as the definition of 'looks like an e-mail / phone number'. Inputs whose meaning the "
    "documents leave open (empty quotes, quote after quote, leading/trailing comma, terms that are not valid tags or shorter than 2 runes) are counted, not judged "
    "(world: still checked for 'only visible, matching objects, no foreign masked tag'). World part trusts verifmem's FindUsers/FindTopics (mirror of the MySQL adapter) and "
    "installs the namespace configuration (globals.immutableTagNS/maskedTagNS/validators, basic add_to_tags) the way main.go derives it.",
    "5/C19", "server-pure+world",
    [Unit("TestC19Query", _C19_MAIN, quick=75000, thorough=1250000, shards_quick=4, shards_thorough=16, fuzz="FuzzC19Query", fuzztime=60),
     Unit("TestC19NormalizeTags", _C19_MAIN, quick=50000, thorough=1000000, shards_quick=2, shards_thorough=8, fuzz="FuzzC19NormalizeTags", fuzztime=60),
     Unit("TestC19RestrictedTags", _C19_MAIN, quick=50000, thorough=1000000, shards_quick=2, shards_thorough=8),
     Unit("TestC19WTagsAndSearch", _C19_MAIN, quick=1000, thorough=20000, shards_quick=8, shards_thorough=16, timeout_quick=300),
     ],
    ["quoted terms: whether a literal term is also rewritten (e-mail/phone/login) is not stated; both are accepted",
     "fnd.private queries: docs say only the rewritten term is kept, the code keeps original+rewritten; both are accepted and the case is counted (note:private-query-keeps-original)",
     "a term that is not a valid tag (e.g. a:b, a quoted term containing a space) is dropped by the code; the documents do not say what such a query means, so it is not judged",
     "which tags are sacrificed when a list exceeds the count limit is not stated (the code truncates the raw list first and says so)",
     "strings such as 'email:a b' that start with a reserved prefix but are not tags by the documented grammar are not judged by the reserved-namespace model",
     "world: the null value anywhere in a tag list (within the count limit) means 'clear all'; root is shown suspended and soft-deleted objects (explicit comment in replyGetSub); "
     "the searcher is never listed; an {acc} update carrying only tags is refused (400) by the code - only 'no reserved tag changes, nothing un-normalised is stored' is judged for it",
     "world: whether the owner of a suspended/soft-deleted group may still set its tags is not stated: only the reserved-tag invariant is judged there",
     "world: the acknowledgement of a self-deletion may be lost on the wire (the session is stopped right after the reply is queued); the outcome is then read from the store"],
)
