PROPS["C15"] = prop(
    "exploration",
    "rapid-generated histories of call invitations and call events from several sessions of caller, callee and a third user under a virtual clock; oracle: reference model of the call state machine compared after every step with the messages added to the store, every {info what=call} frame at every session and the topic's call flag; final check that every started call has exactly one ending; session 3: calling configured through initVideoCalls, events addressed by the full p2p name (also by a third user), store failure during acceptance, store latency; after seeded round 6: a party dropped by the topic for a full send queue ends the call as 'disconnected'; the other party of an established call is told about a hang-up also when the final message cannot be saved; round 7: a party leaving for good ({leave unsub}) during a call, the caller not reading while the call is answered",
    "program = 3-5 sessions of 3 users, 2-3 P2P topics + a group, 5-24 ops: invitations (incl. in a group, while busy, with calling not configured), call events {ringing, accept, offer, answer, ice-candidate, hang-up, bogus} naming the current / a finished / a wrong call, leave, disconnect, reconnect, ticks around the 3 s / 8 s timeout, ordinary publishes; "
    "non-trivial = >=1 invitation, >=1 acceptance, >=1 ending and >=1 event that must be ignored; distinct = FNV-64 of the program",
    "Every step is compared with the model (store delta, frames at all sessions, call flag). Sampled.",
    "Trusts verifmem and the harness attachment model. All participants keep default permissions (permission changes during a call are not generated). Restart/crash during a call is outside the property's quantifier and not generated. Single node.",
    "5/C15", "world",
    [Unit("TestC15Calls", "server", quick=1200, thorough=60000, shards_quick=8, shards_thorough=16, timeout_quick=300)],
    ["the acceptance is also announced on 'me' to the callee's own other sessions (so they stop ringing): not counted as a relay to a third session"],
)
