PROPS["C02"] = prop(
    "exploration",
    "rapid-generated permission/attachment histories on the real server; oracle = harness attachment model (from acks only) x stored permissions => exact recipient set, copy fields, order, push recipients; session 3: store latency, attach at the moment of the idle timer, lazy connections; after seeded round 6: a member removal which fails in the store (the member keeps receiving)",
    "program = 3-6 sessions of 4 users (owner/root, members, channel readers, stranger) + 3-14 ops from {pub (noecho, forged sender, on-behalf-of), sub with want, leave/unsub, set want/given, evict, reload, reconnect, suspend}; "
    "non-trivial = an accepted publish whose topic had both an eligible and an ineligible attached session, or two eligible sessions of one user; distinct = FNV-64 of the program",
    "Every accepted publish is checked against the exact set of sessions that must and must not receive it, every copy field and the push receipt. Sampled.",
    "Trusts verifmem and the attachment model in harness/world/attach_test.go; single node (no multiplexed cluster sessions).",
    "5/C02", "world",
    [Unit("TestC02Delivery", "server", quick=1200, thorough=60000, shards_quick=8, shards_thorough=16, timeout_quick=300)],
    ["permissions are read from the store rows at the moment of the publish (cache/store agreement is C08's business)"],
)
PROPS["C03"] = prop(
    "exploration",
    "same generator as C02; oracle = predicted verdict (attached, W in want&given from store rows, topic kind/state) compared both ways with the reply code, plus no-effect diff of store/frames/push on refusal; session 3: no attached session is evicted while only time passes; a publish reaching a terminated topic is answered (lazy connections); after seeded round 6: a publish sent a generated number of virtual microseconds into a slow store's deletion of the topic - accepted with a server time after the one at which the acknowledged deletion began = accepted by a topic which was being deleted",
    "non-trivial = program with >=1 accepted and >=1 refused publish whose refusal reason is a permission or state; distinct = FNV-64 of the program",
    "Accepted iff the statement's conditions hold, both directions; refused publishes are diffed against the store, all sessions' frames and push receipts. Sampled.",
    "Trusts verifmem and the attachment model; 'being deleted' topics are not observable at quiescence and are not judged.",
    "5/C03", "world",
    [Unit("TestC03WriteGate", "server", quick=1200, thorough=60000, shards_quick=8, shards_thorough=16, timeout_quick=300)],
    ["exact error codes are not pinned: refused = ctrl code >= 400"],
)
