PROPS["C13"] = prop(
    "exploration",
    "rapid-generated sequences of hostile client messages (every field over boundary values) and raw bytes against the real hub/topics/sessions in a synctest bubble; oracle: survival + every id answered + bystander served",
    "program = 1-3 sessions in generated auth states + optional ordinary prologue (group, p2p, messages) + 1-12 hostile messages; non-trivial = at least one hostile non-handshake request from a logged-in session; distinct = FNV-64 of the program",
    "Generated hostile protocol traffic is run through the real server code; any panic (any goroutine), unanswered request, accepted garbage or unserved bystander is a violation. Sampled.",
    "Trusts verifmem as the store; websocket/long-poll framing is not exercised (JSON dispatch is); cluster mode off.",
    "5/C13", "world",
    [Unit("TestC13Structured", "server", quick=1500, thorough=60000, shards_quick=8, shards_thorough=16, crash_is_violation=True, timeout_quick=300)],
    ["a request that legitimately terminates its own session (account deletion) may be answered by the termination notice alone"],
)
