PROPS["C13"] = prop(
    "exploration",
    "rapid-generated sequences of hostile client messages (every field over boundary values) and raw bytes against the real hub/topics/sessions in a synctest bubble; oracle: survival + every id answered + bystander served; rapid-generated Drafty documents (spans/keys at and beyond every boundary, wrong JSON types) through drafty.Preview/PlainText which render published content into push notifications, oracle: no panic, well-formed text survives; thorough tier: the same generators and oracles also run under Go's native coverage-guided fuzzer (rapid.MakeFuzz, 60 s per target, all cores); session 3: protobuf connections, cache-managing {get sub ims}, prologue requests must be answered too; after seeded round 6: two connections asking for an unloaded topic from a slow store, a {sub} answered exactly once, a party of a video call which stops reading",
    "program = 1-3 sessions in generated auth states + optional ordinary prologue (group, p2p, messages) + 1-12 hostile messages; non-trivial = at least one hostile non-handshake request from a logged-in session; distinct = FNV-64 of the program; drafty unit: document = text of 0-12 graphemes + 0-4 spans + 0-3 entities, 70% hostile (at/len/key from {0,1,limit-1,limit,limit+1,-1,-5,2^30,2.5,\"3\",null,true}), non-trivial = has at least one span",
    "Generated hostile protocol traffic is run through the real server code; any panic (any goroutine), unanswered request, accepted garbage or unserved bystander is a violation. Sampled.",
    "Trusts verifmem as the store; websocket/long-poll framing is not exercised (JSON dispatch is); cluster mode off.",
    "5/C13", "world",
    [Unit("TestC13Structured", "server", quick=1500, thorough=60000, shards_quick=8, shards_thorough=16, crash_is_violation=True, timeout_quick=300),
     Unit("TestC13Drafty", "server/drafty", quick=20000, thorough=1000000, shards_quick=4, shards_thorough=16, fuzz="FuzzC13Drafty", fuzztime=60)],
    ["a request that legitimately terminates its own session (account deletion) may be answered by the termination notice alone"],
)
