PROPS["C16"] = prop(
    "exploration",
    "rapid-generated HTTP requests, uploads, urls and histories against reference models (request gate, recorded type, link table)",
    "TODO",
    "TODO",
    "TODO",
    "5/C16", "files-http+world",
    [Unit("TestC16Gate", "server", quick=400, thorough=20000, shards_quick=3, shards_thorough=16),
     Unit("TestC16Download", "server", quick=400, thorough=20000, shards_quick=2, shards_thorough=16),
     Unit("TestC16Links", "server", quick=150, thorough=7500, shards_quick=3, shards_thorough=16),
     ],
    [],
)
