_C16_MAIN = "server"

PROPS["C16"] = prop(
    "exploration",
    "rapid-generated HTTP requests (httptest against the real largeFileReceive / largeFileServe and the fs media handler on a scratch directory, in a third of the gate cases behind a redirecting handler), "
    "generated uploads and hostile urls, and generated histories (uploads, publishes with attachment lists, avatar changes, deletions, collection runs on a virtual clock) "
    "against reference models: request gate (which key / credential a request carries, by documented placement order), recorded type and active-content rule, "
    "url reading, and a link table (holder -> listed files). "
    "The gate unit draws per case which media handler is configured: fs, or the harness handler 'vredir' (registered with store.RegisterMediaHandler; delegates to the real fs "
    "handler but, like the s3 handler, answers downloads from Headers() with 307 + Location of a pre-signed url): a request without a valid key or valid credentials must be refused "
    "(401/403/400) and never be answered with a redirect or any Location, an authorised GET/HEAD of an upload gets the 307 with that upload's location. "
    "The histories also hold {set desc} requests which change only the requester's private note yet carry extra.attachments (by the group's owner, by another subscriber who is "
    "subscribed first, on a P2P topic and on 'me'): the model links nothing and unlinks nothing for them. "
    "The histories also hold collection runs whose store transaction fails at commit (verifmem Plan{FailMethod: FileDeleteUnused, AtCommit}: the adapter returns the selected "
    "locations together with the error and keeps the records), as an operation and, in half of the histories, right before the closing run: a failed run removes nothing (every "
    "record, the bytes and the download of every upload are still there) and store.Files.DeleteUnused reports the error. "
    "A third of the publishes meet a store failure at the first call of one of the writes a publish makes (verifmem Plan{FailNth: 1, FailMethod: TopicUpdateOnMessage | MessageSave | "
    "SubsUpdate (the sender's read marks) | FileLinkAttachments}): whatever the reply, a message found in the store afterwards lists its attachments and protects them from every "
    "later collection run, a publish which was refused and stored nothing links nothing (only a failure of the link write itself leaves the uploads 'may or may not be kept')",
    "gate unit: a case is 2-7 requests against one store; non-trivial = at least one request accepted (upload stored or download served) and at least one refused in the same case; "
    "download unit: 1-4 uploads (over HTTP, failed midway, in flight) and 1-10 odd urls; non-trivial = at least one completed upload served byte-exact and at least one request "
    "refused (odd url, failed or in-flight upload); links unit: a history of 4-24 operations followed by a closing collection run (in half of the histories preceded by a run "
    "failing at commit); non-trivial = at some collection run at least one "
    "upload older than the grace period was kept because a living message / topic / user lists it and at least one unlisted upload was collected; "
    "distinct = FNV-64 of the case",
    "The real HTTP handlers, getAPIKey / getHttpAuth / authHttpRequest, checkAPIKey, the token and basic authenticators, the fs media handler, store.Files / store.Messages.Save and "
    "the real hub, topics and sessions ({pub}, {sub new}, {set desc}, {acc}, {del msg|topic|user} with extra.attachments) run on the verifmem store; collection is the statement of "
    "largeFileRunGarbageCollection's loop body on the bubble's clock and, in a quarter of the histories, the loop itself. Every answer, the store's file table, the upload directory "
    "and the download of every upload are compared with the models after each request / collection run. Sampled, not exhaustive.",
    "Trusts the reference models in harness/c16, Go's net/http (multipart parsing, MaxBytesReader, ServeContent, DetectContentType — the reference for the recorded type calls "
    "DetectContentType too), testing/synctest's clock and the verifmem adapter (link table and foreign keys written from the MySQL adapter's SQL; its commit failure of "
    "FileDeleteUnused mimics the SQL adapters' `return locations, tx.Commit()`). The S3 handler (only its redirecting behaviour is imitated by 'vredir') and the SQL "
    "adapters' file methods are not executed. Handlers are called directly (no ServeMux, no gorilla CompressHandler); request targets the HTTP server would reject are skipped.",
    "5/C16", "files-http+world",
    [Unit("TestC16Gate", _C16_MAIN, quick=3000, thorough=37500, shards_quick=4, shards_thorough=16),
     Unit("TestC16Download", _C16_MAIN, quick=2500, thorough=23500, shards_quick=3, shards_thorough=16),
     Unit("TestC16Links", _C16_MAIN, quick=600, thorough=7500, shards_quick=4, shards_thorough=16),
     ],
    ["the statement is one-directional for uploads ('act only on ...'): a valid upload that is refused cleanly (no record, no bytes) is reported under the weaker signature "
     "gate:valid-upload-refused; an empty file is refused by the handler (500) and only counted (class empty-file-refused)",
     "'refuse uploads above the configured size': a file larger than max_size must be refused, a request whose whole body fits must be accepted; a file that fits while the "
     "multipart body does not may be refused (413)",
     "key or credentials carried in a form field are unreadable when the body exceeds the limit; the request is then refused for the key / credentials (403 / 401) rather than for its size",
     "with several credentials the first in the documented order (X-Tinode-Auth, Authorization, query, form, cookie; session id only when none of these is present) decides",
     "an upload without credentials but with topic=newacc (avatar of an account being created) is accepted, as the handler documents",
     "OPTIONS is answered before any check (CORS preflight) and must have no effect",
     "recorded type: the handler sniffs a fixed 512-byte buffer, so content shorter than 512 bytes is sniffed together with zero bytes (short text becomes application/octet-stream "
     "and then takes the client's declared type); both readings are accepted (class type:short-content-sniffed-with-zero-padding)",
     "a url names an upload when its path, lexically cleaned, is <serve path><file id>[<non-id character>...]; a '/' inside the query string may change what the fs handler resolves "
     "(it cleans the whole request target) — such requests must still return nothing but a completed upload, which one is not judged",
     "attachment lists: the three documented spellings (returned url, ./name, name) must link; absolute urls, traversal spellings and urls with a query may or may not; urls of other "
     "directories and urls naming no upload must not protect anything; for avatars the first entry naming an upload is the avatar",
     "{del msg hard} by a user without the D permission (P2P participants) is silently a per-user deletion: the message and its links stay",
     "soft-deleted topics: whether their files stay is not specified (either accepted); the boundary instant updatedat == cut-off is not judged",
     "a {set desc} which changes only the requester's private note is no avatar update: its attachment list neither links nor unlinks anything, whoever sends it",
     "a collection run whose store call fails removes nothing and reports the error; failing runs are issued by the harness directly (store.Files.DeleteUnused), not through the "
     "server's loop, which only logs the error",
     "with a handler that redirects downloads the location handed out is treated like the bytes: it may appear only in the answer to an authorised request; HEAD of a url naming "
     "no upload is then 404 (the fs handler answers HEAD 200 before looking at the url)",
     "server's own collection loop (period randomised 0.75-1.25x): only windows with no other activity are judged, removals must be of unlisted uploads older than the grace period at "
     "the window's end, and unlisted uploads older than grace + 1.25 periods must be gone (block size 0); a run that fires inside an operation cuts the case short"],
)
