package basic

// C12 (login/password part) — a wrong password or unknown login never
// authenticates, and login names are unique regardless of letter case.
//
// The real `basic` authenticator runs over store.Users on a tiny fake adapter that
// holds authentication records with the two unique indexes of the SQL schema
// (auth.uname; auth.userid+scheme), compared byte-for-byte (the weakest store: the
// adapter itself does no case folding).
//
// Oracle: reference map keyed by the lower-case base spelling of a login. Cases
// never lower-case anything: a login is a generated lower-case name plus a mask of
// positions to upper-case (explicit table of simple one-to-one case pairs), so the
// model key is the base name itself.

import (
	"encoding/json"
	"fmt"
	"io"
	"sort"
	"strings"
	"sync"
	"testing"
	"time"
	"unicode/utf8"

	"github.com/tinode/chat/server/auth"
	"github.com/tinode/chat/server/logs"
	adapter "github.com/tinode/chat/server/db"
	"github.com/tinode/chat/server/store"
	"github.com/tinode/chat/server/store/types"
	kit "github.com/tinode/chat/server/zzverifkit"
	"pgregory.net/rapid"
)

// ---- fake adapter: only authentication records ----

type c12AuthRow struct {
	uid     types.Uid
	scheme  string
	unique  string
	lvl     auth.Level
	secret  []byte
	expires time.Time
}

type c12BasicAdp struct {
	adapter.Adapter
	mu   sync.Mutex
	open bool
	rows []c12AuthRow
}

func (a *c12BasicAdp) Open(json.RawMessage) error { a.open = true; return nil }
func (a *c12BasicAdp) Close() error               { a.open = false; return nil }
func (a *c12BasicAdp) IsOpen() bool               { return a.open }
func (a *c12BasicAdp) GetDbVersion() (int, error) { return 113, nil }
func (a *c12BasicAdp) CheckDbVersion() error      { return nil }
func (a *c12BasicAdp) GetName() string            { return "c12basicmem" }
func (a *c12BasicAdp) SetMaxResults(int) error    { return nil }
func (a *c12BasicAdp) Version() int               { return 113 }
func (a *c12BasicAdp) Stats() any                 { return nil }

func (a *c12BasicAdp) AuthGetUniqueRecord(unique string) (types.Uid, auth.Level, []byte, time.Time, error) {
	a.mu.Lock()
	defer a.mu.Unlock()
	for _, r := range a.rows {
		if r.unique == unique {
			return r.uid, r.lvl, append([]byte(nil), r.secret...), r.expires, nil
		}
	}
	return types.ZeroUid, 0, nil, time.Time{}, nil
}

func (a *c12BasicAdp) AuthGetRecord(uid types.Uid, scheme string) (string, auth.Level, []byte, time.Time, error) {
	a.mu.Lock()
	defer a.mu.Unlock()
	for _, r := range a.rows {
		if r.uid == uid && r.scheme == scheme {
			return r.unique, r.lvl, append([]byte(nil), r.secret...), r.expires, nil
		}
	}
	return "", 0, nil, time.Time{}, types.ErrNotFound
}

func (a *c12BasicAdp) AuthAddRecord(uid types.Uid, scheme, unique string, lvl auth.Level, secret []byte, expires time.Time) error {
	a.mu.Lock()
	defer a.mu.Unlock()
	for _, r := range a.rows {
		if r.unique == unique || (r.uid == uid && r.scheme == scheme) {
			return types.ErrDuplicate
		}
	}
	a.rows = append(a.rows, c12AuthRow{uid, scheme, unique, lvl, append([]byte(nil), secret...), expires})
	return nil
}

func (a *c12BasicAdp) AuthUpdRecord(uid types.Uid, scheme, unique string, lvl auth.Level, secret []byte, expires time.Time) error {
	a.mu.Lock()
	defer a.mu.Unlock()
	at := -1
	for i, r := range a.rows {
		if r.uid == uid && r.scheme == scheme {
			at = i
		}
	}
	if at < 0 {
		return types.ErrNotFound
	}
	if unique != "" {
		for i, r := range a.rows {
			if i != at && r.unique == unique {
				return types.ErrDuplicate
			}
		}
		a.rows[at].unique = unique
	}
	a.rows[at].lvl = lvl
	if len(secret) > 0 {
		a.rows[at].secret = append([]byte(nil), secret...)
	}
	if !expires.IsZero() {
		a.rows[at].expires = expires
	}
	return nil
}

func (a *c12BasicAdp) AuthDelScheme(uid types.Uid, scheme string) error {
	a.mu.Lock()
	defer a.mu.Unlock()
	keep := a.rows[:0]
	for _, r := range a.rows {
		if !(r.uid == uid && r.scheme == scheme) {
			keep = append(keep, r)
		}
	}
	a.rows = keep
	return nil
}

var (
	c12BasicStore = &c12BasicAdp{}
	c12BasicOnce  sync.Once
	c12BasicErr   error
)

func c12BasicBoot() error {
	if logs.Warn == nil {
		logs.Init(io.Discard, "stdFlags")
	}
	c12BasicOnce.Do(func() {
		store.RegisterAdapter(c12BasicStore)
		c12BasicErr = store.Store.Open(1, json.RawMessage(`{"uid_key":"la6YsO+bNX/+XIkOqc5Svw==","use_adapter":"c12basicmem"}`))
	})
	return c12BasicErr
}

// ---- case ----

// lower-case letters with a simple one-to-one upper-case partner
const (
	c12Lower = "abcdefghijklmnopqrstuvwxyzéüñджяλω"
	c12Upper = "ABCDEFGHIJKLMNOPQRSTUVWXYZÉÜÑДЖЯΛΩ"
)

var c12UpperOf = func() map[rune]rune {
	m := map[rune]rune{}
	lo, up := []rune(c12Lower), []rune(c12Upper)
	for i := range lo {
		m[lo[i]] = up[i]
	}
	return m
}()

type c12BasicOp struct {
	Op    string `json:"op"`   // add | auth | upd | uniq
	U     int    `json:"u"`    // user index (add, upd)
	Name  int    `json:"name"` // index into Names; -1 = empty login (upd: keep the login)
	Mask  uint32 `json:"mask"` // rune positions to upper-case
	Pw    int    `json:"pw"`   // index into Pws
	PwVar int    `json:"pw_var"`
	PwPos int    `json:"pw_pos"`
}

type c12BasicCase struct {
	Users []uint64     `json:"users"`
	Names []string     `json:"names"` // lower-case base spellings
	Pws   []string     `json:"pws"`
	Ops   []c12BasicOp `json:"ops"`
}

func c12BasicGen(rt *rapid.T) c12BasicCase {
	var c c12BasicCase
	nu := rapid.IntRange(1, 3).Draw(rt, "n_users")
	for i := 0; i < nu; i++ {
		c.Users = append(c.Users, rapid.Uint64Range(1, 1<<61).Draw(rt, "uid")*4+uint64(i))
	}
	edge := []rune(c12Lower + "0123456789")
	inner := []rune(c12Lower + c12Lower + "0123456789_.")
	nn := rapid.IntRange(2, 3).Draw(rt, "n_names")
	for i := 0; i < nn; i++ {
		n := rapid.IntRange(2, 10).Draw(rt, "name_len")
		rs := make([]rune, n)
		for j := range rs {
			if j == 0 || j == n-1 {
				rs[j] = rapid.SampledFrom(edge).Draw(rt, "r")
			} else {
				rs[j] = rapid.SampledFrom(inner).Draw(rt, "r")
			}
		}
		// make sure there is a letter to vary
		if rapid.IntRange(0, 3).Draw(rt, "force_letter") != 0 {
			rs[rapid.IntRange(0, n-1).Draw(rt, "letter_at")] = rapid.SampledFrom([]rune(c12Lower)).Draw(rt, "letter")
		}
		c.Names = append(c.Names, string(rs))
	}
	pwAlpha := []rune("abcXYZ019 :!$%éЖ")
	np := rapid.IntRange(1, 2).Draw(rt, "n_pws")
	for i := 0; i < np; i++ {
		switch rapid.IntRange(0, 7).Draw(rt, "pw_kind") {
		case 0: // exactly at / around the bcrypt limit of 72 bytes
			n := rapid.SampledFrom([]int{71, 72, 72, 73}).Draw(rt, "pw_len")
			c.Pws = append(c.Pws, string(rapid.SliceOfN(rapid.SampledFrom([]rune("abcXYZ019:")), n, n).Draw(rt, "pw")))
		case 1, 2: // longer than bcrypt's 72 bytes (73-90 bytes, one in three with two-byte characters): refused at creation or, if accepted, significant to the last byte
			n := rapid.IntRange(73, 90).Draw(rt, "pw_len")
			alpha := []rune("abcXYZ019:")
			if rapid.IntRange(0, 2).Draw(rt, "pw_wide") == 0 {
				alpha = pwAlpha
			}
			long := ""
			for _, r := range rapid.SliceOfN(rapid.SampledFrom(alpha), n, n).Draw(rt, "pw") {
				if len(long) >= n {
					break
				}
				long += string(r)
			}
			c.Pws = append(c.Pws, long)
		default:
			c.Pws = append(c.Pws, string(rapid.SliceOfN(rapid.SampledFrom(pwAlpha), 3, 12).Draw(rt, "pw")))
		}
	}
	n := rapid.IntRange(4, 10).Draw(rt, "n_ops")
	kinds := []string{"add", "add", "add", "auth", "auth", "auth", "auth", "auth", "upd", "uniq", "damage"}
	// The generator keeps a rough idea of what is registered (assuming every add of a
	// free name for a free user succeeds) only to steer the history towards collisions;
	// the oracle does not use it.
	var regNames, regUsers []int
	has := func(l []int, v int) bool {
		for _, x := range l {
			if x == v {
				return true
			}
		}
		return false
	}
	for i := 0; i < n; i++ {
		op := c12BasicOp{Op: rapid.SampledFrom(kinds).Draw(rt, "op")}
		if i == 0 {
			op.Op = "add"
		}
		op.U = rapid.IntRange(0, nu-1).Draw(rt, "u")
		op.Name = rapid.IntRange(0, nn-1).Draw(rt, "name")
		steer := rapid.IntRange(0, 3).Draw(rt, "steer") != 0
		if rapid.IntRange(0, 1).Draw(rt, "mask_kind") == 0 {
			op.Mask = rapid.Uint32Range(0, 1023).Draw(rt, "mask")
		}
		op.Pw = rapid.IntRange(0, np-1).Draw(rt, "pw")
		switch op.Op {
		case "add":
			if steer {
				// a user without a login; half of the time a name that is already taken
				for k := 0; k < nu; k++ {
					if !has(regUsers, (op.U+k)%nu) {
						op.U = (op.U + k) % nu
						break
					}
				}
				if len(regNames) > 0 && rapid.Bool().Draw(rt, "dup") {
					op.Name = rapid.SampledFrom(regNames).Draw(rt, "dup_name")
				}
			}
			if !has(regNames, op.Name) && !has(regUsers, op.U) {
				regNames, regUsers = append(regNames, op.Name), append(regUsers, op.U)
			}
		case "auth":
			if steer && len(regNames) > 0 {
				op.Name = rapid.SampledFrom(regNames).Draw(rt, "reg_name")
			}
			op.PwVar = rapid.SampledFrom([]int{0, 0, 0, 0, 1, 2, 3, 4, 5, 6, 7, 8, 8, 9, 10}).Draw(rt, "pw_var")
			op.PwPos = rapid.IntRange(0, 80).Draw(rt, "pw_pos")
		case "upd":
			if steer && len(regUsers) > 0 {
				op.U = rapid.SampledFrom(regUsers).Draw(rt, "reg_user")
			}
			if rapid.IntRange(0, 2).Draw(rt, "keep_login") == 0 {
				op.Name = -1
			}
		case "damage":
			if steer && len(regUsers) > 0 {
				op.U = rapid.SampledFrom(regUsers).Draw(rt, "dmg_user")
			}
			op.PwVar = rapid.IntRange(0, 5).Draw(rt, "dmg_kind")
		case "uniq":
			if steer && len(regNames) > 0 && rapid.Bool().Draw(rt, "uniq_taken") {
				op.Name = rapid.SampledFrom(regNames).Draw(rt, "reg_name")
			}
		}
		c.Ops = append(c.Ops, op)
	}
	return c
}

func c12Spell(base string, mask uint32) string {
	rs := []rune(base)
	for i := range rs {
		if i < 32 && mask&(1<<uint(i)) != 0 {
			if u, ok := c12UpperOf[rs[i]]; ok {
				rs[i] = u
			}
		}
	}
	return string(rs)
}

// c12PwVariant derives a password attempt from a base password.
func c12PwVariant(p string, v, pos int) string {
	rs := []rune(p)
	if len(rs) == 0 {
		return p
	}
	i := ((pos % len(rs)) + len(rs)) % len(rs)
	switch v {
	case 1: // letter case of one character changed (or the character replaced)
		r := rs[i]
		switch {
		case r >= 'a' && r <= 'z':
			rs[i] = r - 32
		case r >= 'A' && r <= 'Z':
			rs[i] = r + 32
		default:
			rs[i] = 'q'
		}
		return string(rs)
	case 2:
		return string(rs[:len(rs)-1])
	case 3:
		return p + "x"
	case 4:
		return ""
	case 5:
		if rs[i] == '#' {
			rs[i] = '@'
		} else {
			rs[i] = '#'
		}
		return string(rs)
	case 6:
		return p + ":" + p
	case 8, 9, 10:
		// attempts at a password longer than 72 bytes which share its first 72 bytes and differ afterwards
		if len(p) <= c12BcryptMax {
			return c12PwVariant(p, v-7, pos)
		}
		head, tail := p[:c12BcryptMax], []byte(p[c12BcryptMax:])
		switch v {
		case 8: // same length, one byte behind the limit changed
			k := ((pos % len(tail)) + len(tail)) % len(tail)
			if tail[k] == 'q' {
				tail[k] = 'w'
			} else {
				tail[k] = 'q'
			}
			return head + string(tail)
		case 9: // cut at the limit
			return head
		default: // another tail
			alt := fmt.Sprintf("ZZ%d", pos)
			if alt == string(tail) {
				alt += "!"
			}
			return head + alt
		}
	}
	return p
}

// bcrypt works on at most 72 bytes of input.
const c12BcryptMax = 72

type c12BasicEntry struct {
	uid   uint64
	login   string // base (lower-case) spelling
	spelled string // spelling used at registration
	pw      string
	damaged bool // the stored hash was damaged behind the authenticator's back: nothing authenticates
}

func c12BasicExec(t *testing.T, c c12BasicCase) (o kit.Outcome) {
	if err := c12BasicBoot(); err != nil {
		t.Fatalf("cannot open the store on the fake adapter: %v", err)
	}
	cls := map[string]bool{}
	defer func() {
		if r := recover(); r != nil {
			o.Viol = kit.V("panic", "panic in the basic authenticator: %v", r)
		}
		ks := make([]string, 0, len(cls))
		for k := range cls {
			ks = append(ks, k)
		}
		sort.Strings(ks)
		o.Classes = ks
	}()
	if len(c.Users) == 0 || len(c.Names) == 0 || len(c.Pws) == 0 {
		o.Skip = true
		return o
	}
	for _, u := range c.Users {
		if u == 0 { // the zero Uid means "nobody" throughout the server; not a user
			o.Skip = true
			return o
		}
	}
	c12BasicStore.mu.Lock()
	c12BasicStore.rows = nil
	c12BasicStore.mu.Unlock()
	a := &authenticator{}
	if err := a.Init(json.RawMessage(`{"add_to_tags": true}`), "basic"); err != nil {
		o.Skip = true
		return o
	}
	byLogin := map[string]*c12BasicEntry{}
	byUser := map[uint64]*c12BasicEntry{}
	accepted, refusedDerived := 0, 0
	pwOK := func(p string) bool { return utf8.RuneCountInString(p) >= 3 && len(p) <= 72 }

	for step, op := range c.Ops {
		uid := c.Users[((op.U%len(c.Users))+len(c.Users))%len(c.Users)]
		base, login := "", ""
		if op.Name >= 0 {
			base = c.Names[op.Name%len(c.Names)]
			login = c12Spell(base, op.Mask)
		}
		variant := login != base
		pw := c.Pws[((op.Pw%len(c.Pws))+len(c.Pws))%len(c.Pws)]
		switch op.Op {
		case "add":
			if op.Name < 0 {
				continue
			}
			_, err := a.AddRecord(&auth.Rec{Uid: types.Uid(uid)}, []byte(login+":"+pw), "")
			if e := byLogin[base]; e != nil {
				if err == nil {
					kind := "same-spelling"
					if login != e.spelled {
						kind = "case-variant"
					}
					o.Viol = kit.V("duplicate-login-created:"+kind, "step %d: AddRecord(%q) for uid %d succeeded although login %q is already registered (uid %d)", step, login, uid, e.login, e.uid)
					return o
				}
				cls["add:duplicate:refused"] = true
				if variant {
					cls["add:case-variant-duplicate:refused"] = true
				}
				refusedDerived++
				continue
			}
			if byUser[uid] != nil {
				// second login for one user and scheme: the store's (userid, scheme) index decides
				if err == nil {
					o.Skip = true
					cls["add:second-login-for-user:accepted"] = true
					return o
				}
				cls["add:second-login-for-user:refused"] = true
				continue
			}
			if err != nil {
				if pwOK(pw) {
					o.Viol = kit.V("add-refused", "step %d: AddRecord(%q, password of %d bytes) for a free login failed: %v", step, login, len(pw), err)
					return o
				}
				cls["add:password-too-long:refused"] = true
				continue
			}
			e := &c12BasicEntry{uid: uid, login: base, spelled: login, pw: pw}
			byLogin[base], byUser[uid] = e, e
			cls["add:created"] = true
			if variant {
				cls["add:created-with-upper-case"] = true
			}
			if len(pw) == 72 {
				cls["add:72-byte-password"] = true
			}
			if len(pw) > c12BcryptMax {
				cls["add:password-longer-than-72-bytes:accepted"] = true
			}
		case "auth":
			if op.Name < 0 {
				continue
			}
			// variants 0..6 derive the attempt from the registered password when the login is
			// registered (0 = the right password); 7 = a password of the pool verbatim
			attempt := c12PwVariant(pw, op.PwVar, op.PwPos)
			e := byLogin[base]
			if e != nil && op.PwVar != 7 {
				attempt = c12PwVariant(e.pw, op.PwVar, op.PwPos)
			}
			rec, chal, err := a.Authenticate([]byte(login+":"+attempt), "")
			ok := err == nil
			if ok && (rec == nil || chal != nil) {
				o.Viol = kit.V("accepted-without-record", "step %d: Authenticate(%q) returned no error but rec=%v challenge=%q", step, login, rec, chal)
				return o
			}
			if e != nil && e.damaged {
				if ok {
					o.Viol = kit.V("authenticated:damaged-hash", "step %d: the stored secret of login %q is not a well-formed bcrypt hash, yet Authenticate(%q) succeeded as uid %d", step, e.login, login+":"+attempt, uint64(rec.Uid))
					return o
				}
				cls["auth:damaged-hash:refused"] = true
				continue
			}
			switch {
			case e == nil:
				if ok {
					o.Viol = kit.V("authenticated:unknown-login", "step %d: login %q is not registered but authenticated as uid %d", step, login, uint64(rec.Uid))
					return o
				}
				cls["auth:unknown-login:refused"] = true
			case attempt != e.pw:
				if len(e.pw) == 72 && strings.HasPrefix(attempt, e.pw) {
					cls[fmt.Sprintf("auth:extension-of-72-byte-password:accepted=%v", ok)] = true
					continue
				}
				// A password longer than 72 bytes which was accepted when it was set is the password: an
				// attempt which shares its first 72 bytes and differs afterwards is a wrong password.
				sharesHead := len(e.pw) > c12BcryptMax && len(attempt) >= c12BcryptMax && attempt[:c12BcryptMax] == e.pw[:c12BcryptMax]
				if ok && sharesHead {
					o.Viol = kit.V("authenticated:long-password-prefix", "step %d: login %q, whose password of %d bytes was accepted when it was set, authenticated with a different password of %d bytes "+
						"which shares only its first 72 bytes: attempt %q, the password is %q", step, login, len(e.pw), len(attempt), attempt, e.pw)
					return o
				}
				if ok {
					o.Viol = kit.V("authenticated:wrong-password", "step %d: login %q authenticated with password %q, the password is %q", step, login, attempt, e.pw)
					return o
				}
				cls["auth:wrong-password:refused"] = true
				if sharesHead {
					cls["auth:long-password:attempt-sharing-the-first-72-bytes:refused"] = true
				}
				if attempt == "" {
					cls["auth:empty-password:refused"] = true
				}
				refusedDerived++
			default:
				if !ok {
					o.Viol = kit.V("refused:right-password", "step %d: login %q (registered as %q) with the right password refused: %v", step, login, e.login, err)
					return o
				}
				if uint64(rec.Uid) != e.uid {
					o.Viol = kit.V("authenticated:as-other-user", "step %d: login %q authenticated as uid %d, registered for uid %d", step, login, uint64(rec.Uid), e.uid)
					return o
				}
				accepted++
				cls["auth:right-password:accepted"] = true
				if variant {
					cls["auth:case-variant-login:accepted"] = true
				}
			}
		case "damage":
			// the stored secret of the user's record stops being a well-formed bcrypt hash (a truncated
			// column, an import, a legacy row): from then on no password authenticates that login
			cur := byUser[uid]
			if cur == nil {
				continue
			}
			c12BasicStore.mu.Lock()
			for i := range c12BasicStore.rows {
				r := &c12BasicStore.rows[i]
				if r.uid != types.Uid(uid) || r.scheme != "basic" {
					continue
				}
				kind := op.PwVar
				if len(r.secret) < 8 {
					kind = 0 // (already damaged: nothing left to cut)
				}
				switch kind {
				case 0:
					r.secret = nil
				case 1:
					r.secret = []byte{}
				case 2:
					r.secret = r.secret[:len(r.secret)/2]
				case 3:
					r.secret = append([]byte("$9z$"), r.secret[4:]...)
				case 4:
					r.secret = append([]byte("$2a$99$"), r.secret[7:]...)
				default:
					r.secret = []byte(cur.pw) // the password itself where the hash should be
				}
			}
			c12BasicStore.mu.Unlock()
			cur.damaged = true
			cls["damage:stored-hash"] = true
		case "upd":
			cur := byUser[uid]
			if cur != nil && cur.damaged {
				cur.damaged = false // (whatever happens below, the record is rewritten or stays damaged: not judged further)
				a.UpdateRecord(&auth.Rec{Uid: types.Uid(uid)}, []byte(login+":"+pw), "")
				o.Skip = true
				return o
			}
			_, err := a.UpdateRecord(&auth.Rec{Uid: types.Uid(uid)}, []byte(login+":"+pw), "")
			if cur == nil {
				if err == nil {
					o.Viol = kit.V("update-without-record", "step %d: UpdateRecord(%q) for uid %d, which has no login, succeeded", step, login, uid)
					return o
				}
				cls["upd:no-record:refused"] = true
				continue
			}
			switch {
			case op.Name < 0 || base == cur.login:
				if err != nil {
					if pwOK(pw) {
						o.Viol = kit.V("password-change-refused", "step %d: UpdateRecord(%q) changing only the password of %q failed: %v", step, login, cur.login, err)
						return o
					}
					cls["upd:password-too-long:refused"] = true
					continue
				}
				cur.pw = pw
				cls["upd:password-changed"] = true
				if len(pw) > c12BcryptMax {
					cls["upd:password-longer-than-72-bytes:accepted"] = true
				}
			case byLogin[base] != nil:
				if err == nil {
					o.Viol = kit.V("duplicate-login-created:rename", "step %d: UpdateRecord renamed %q (uid %d) to %q although %q is registered for uid %d",
						step, cur.login, uid, login, base, byLogin[base].uid)
					return o
				}
				cls["upd:rename-to-taken:refused"] = true
				if variant {
					cls["upd:rename-to-taken-case-variant:refused"] = true
				}
				refusedDerived++
			default:
				if err != nil {
					if pwOK(pw) {
						o.Viol = kit.V("rename-refused", "step %d: UpdateRecord renaming %q to the free login %q failed: %v", step, cur.login, login, err)
						return o
					}
					cls["upd:password-too-long:refused"] = true
					continue
				}
				delete(byLogin, cur.login)
				cur.login, cur.spelled, cur.pw = base, login, pw
				byLogin[base] = cur
				cls["upd:renamed"] = true
				if len(pw) > c12BcryptMax {
					cls["upd:password-longer-than-72-bytes:accepted"] = true
				}
			}
		case "uniq":
			if op.Name < 0 {
				continue
			}
			ok, err := a.IsUnique([]byte(login+":"), "")
			if byLogin[base] != nil {
				if ok || err == nil {
					o.Viol = kit.V("taken-login-reported-unique", "step %d: IsUnique(%q) = %v, %v although %q is registered", step, login, ok, err, base)
					return o
				}
				cls["uniq:taken"] = true
			} else {
				if !ok || err != nil {
					o.Viol = kit.V("free-login-reported-taken", "step %d: IsUnique(%q) = %v, %v although no such login is registered", step, login, ok, err)
					return o
				}
				cls["uniq:free"] = true
			}
		default:
			o.Skip = true
			return o
		}
	}
	o.NonTrivial = accepted > 0 && refusedDerived > 0
	return o
}

func TestC12Basic(t *testing.T) {
	kit.Check(t, "C12", "TestC12Basic", c12BasicGen, func(c c12BasicCase) kit.Outcome { return c12BasicExec(t, c) })
}
