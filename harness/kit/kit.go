// Package zzverifkit is the small runtime shared by every /verif harness test.
// It is overlaid into the tinode module at build time (server/zzverifkit) and is
// never part of /repo.
//
// Contract with the driver (/verif/check), all through environment variables:
//
//	VERIF_OUT     directory for this shard's output (stats, violation and WAL files)
//	VERIF_SHARD   shard number (only used to name files)
//	VERIF_REPLAY  when set: path of a replay file; the test runs that single case
//	VERIF_KNOWN   path of known_findings.json (signatures excluded by construction)
//	VERIF_TIER    quick | thorough (informational; case counts come from -rapid.checks
//	              or VERIF_N)
//	VERIF_N       integer scale for non-rapid enumerations
//
// Every executed case is reported through Run.Case (hash, non-trivial?, classes);
// the kit aggregates in-process and writes <out>/stats-<unit>-<shard>.json plus the
// sorted distinct hashes of the non-trivial cases in <out>/hashes-<unit>-<shard>.bin.
package zzverifkit

import (
	"encoding/binary"
	"encoding/json"
	"fmt"
	"hash/fnv"
	"os"
	"path/filepath"
	"sort"
	"strconv"
	"strings"
	"sync"
	"testing"

	"pgregory.net/rapid"
)

// Outcome is what executing + judging one case yields.
type Outcome struct {
	NonTrivial bool
	Classes    []string // free-form labels; the driver prints their distribution
	Viol       *Viol    // nil if the property held on this case
	Skip       bool     // case could not be judged (counted, not a pass, not a failure)
}

// Viol describes one violation.
type Viol struct {
	Sig string // stable signature: kind + minimal distinguishing features
	Msg string // human readable explanation
}

func V(sig, format string, a ...any) *Viol { return &Viol{Sig: sig, Msg: fmt.Sprintf(format, a...)} }

type knownFile struct {
	Known []struct {
		Property  string `json:"property"`
		Signature string `json:"signature"`
		What      string `json:"what"`
	} `json:"known"`
}

// Run aggregates one unit (one Go test function) of one property.
type Run struct {
	mu       sync.Mutex
	Prop     string
	Unit     string
	out      string
	shard    string
	evals    int64
	nontriv  int64
	skipped  int64
	classes  map[string]int64
	hashes   map[uint64]struct{}
	samples  []any
	maxSamp  int
	known    map[string]string // sig -> what
	knownHit map[string]int64
	knownEx  map[string]any
	extra    map[string]any
	violN    int
	knownMsg map[string]string
}

// Begin opens the unit. Call Flush (usually deferred) at the end.
func Begin(prop, unit string) *Run {
	r := &Run{Prop: prop, Unit: unit, out: os.Getenv("VERIF_OUT"), shard: os.Getenv("VERIF_SHARD"),
		classes: map[string]int64{}, hashes: map[uint64]struct{}{}, maxSamp: 4,
		known: map[string]string{}, knownHit: map[string]int64{}, knownEx: map[string]any{}, extra: map[string]any{}}
	if r.out == "" {
		r.out = os.TempDir()
	}
	if r.shard == "" {
		r.shard = "0"
	}
	if kf := os.Getenv("VERIF_KNOWN"); kf != "" {
		if b, err := os.ReadFile(kf); err == nil {
			var k knownFile
			if json.Unmarshal(b, &k) == nil {
				for _, e := range k.Known {
					if e.Property == prop {
						r.known[e.Signature] = e.What
					}
				}
			}
		}
	}
	return r
}

// N returns the enumeration scale requested by the driver (default def).
func N(def int) int {
	if s := os.Getenv("VERIF_N"); s != "" {
		if v, err := strconv.Atoi(s); err == nil && v > 0 {
			return v
		}
	}
	return def
}

func Tier() string {
	if os.Getenv("VERIF_TIER") == "thorough" {
		return "thorough"
	}
	return "quick"
}

// Hash returns a 64-bit FNV hash of the canonical JSON of v.
func Hash(v any) uint64 {
	b, _ := json.Marshal(v)
	return HashBytes(b)
}

func HashBytes(b []byte) uint64 {
	h := fnv.New64a()
	h.Write(b)
	return h.Sum64()
}

func HashString(s string) uint64 { return HashBytes([]byte(s)) }

// Case records one executed case.
func (r *Run) Case(hash uint64, nontrivial bool, classes ...string) {
	r.mu.Lock()
	r.evals++
	if nontrivial {
		r.nontriv++
		r.hashes[hash] = struct{}{}
	}
	for _, c := range classes {
		r.classes[c]++
	}
	r.mu.Unlock()
}

// Skipped counts a case that was generated but could not be judged.
func (r *Run) Skipped(class string) {
	r.mu.Lock()
	r.skipped++
	r.classes["skipped:"+class]++
	r.mu.Unlock()
}

// Sample keeps a few cases verbatim for the evidence file.
func (r *Run) Sample(v any) {
	r.mu.Lock()
	if len(r.samples) < r.maxSamp {
		r.samples = append(r.samples, v)
	}
	r.mu.Unlock()
}

func (r *Run) WantSample() bool {
	r.mu.Lock()
	defer r.mu.Unlock()
	return len(r.samples) < r.maxSamp
}

// Extra stores an arbitrary key in the unit's stats (e.g. "exhaustive": true).
func (r *Run) Extra(k string, v any) {
	r.mu.Lock()
	r.extra[k] = v
	r.mu.Unlock()
}

// IsKnown tells whether a signature is a listed known finding.
func (r *Run) IsKnown(sig string) bool {
	if os.Getenv("VERIF_COLLECT") != "" {
		// development aid: tolerate everything and list the signatures met
		r.mu.Lock()
		if _, ok := r.known[sig]; !ok {
			r.known[sig] = "(collected)"
		}
		r.mu.Unlock()
		return true
	}
	return r.knownKey(sig) != ""
}

// knownKey returns the listed signature matching sig ("" if none). A listed signature ending in
// '*' matches every signature with that prefix (one root cause, several observable fields).
func (r *Run) knownKey(sig string) string {
	if _, ok := r.known[sig]; ok {
		return sig
	}
	for k := range r.known {
		if strings.HasSuffix(k, "*") && strings.HasPrefix(sig, k[:len(k)-1]) {
			return k
		}
	}
	return ""
}

// Violation reports a violation. It returns true when the signature is a listed
// known finding (the caller should then carry on); otherwise the replay file has
// been written and the caller must fail the test.
func (r *Run) Violation(v *Viol, replayCase any) bool {
	r.mu.Lock()
	defer r.mu.Unlock()
	if key := r.knownKey(v.Sig); key != "" {
		r.knownHit[key]++
		if r.knownMsg == nil {
			r.knownMsg = map[string]string{}
		}
		if _, have := r.knownMsg[key]; !have {
			r.knownMsg[key] = v.Msg
		}
		if _, have := r.knownEx[key]; !have {
			r.knownEx[key] = replayCase
		}
		return true
	}
	r.violN++
	doc := map[string]any{"property": r.Prop, "unit": r.Unit, "signature": v.Sig, "message": v.Msg, "case": replayCase}
	b, _ := json.MarshalIndent(doc, "", " ")
	// Overwritten on every failing run: rapid re-runs the minimal case last, so the
	// file that survives is the shrunk one.
	_ = os.WriteFile(filepath.Join(r.out, fmt.Sprintf("viol-%s-%s.json", r.Unit, r.shard)), b, 0o644)
	return false
}

// Flush writes the stats files.
func (r *Run) Flush() {
	r.mu.Lock()
	defer r.mu.Unlock()
	hs := make([]uint64, 0, len(r.hashes))
	for h := range r.hashes {
		hs = append(hs, h)
	}
	sort.Slice(hs, func(i, j int) bool { return hs[i] < hs[j] })
	buf := make([]byte, 8*len(hs))
	for i, h := range hs {
		binary.LittleEndian.PutUint64(buf[8*i:], h)
	}
	_ = os.WriteFile(filepath.Join(r.out, fmt.Sprintf("hashes-%s-%s.bin", r.Unit, r.shard)), buf, 0o644)
	doc := map[string]any{
		"property": r.Prop, "unit": r.Unit, "shard": r.shard,
		"evaluations": r.evals, "nontrivial": r.nontriv, "distinct_nontrivial": len(hs), "skipped": r.skipped,
		"classes": r.classes, "samples": r.samples, "known_hits": r.knownHit, "known_examples": r.knownEx,
		"known_what": r.known, "known_msgs": r.knownMsg, "extra": r.extra, "violations": r.violN,
	}
	b, _ := json.Marshal(doc)
	_ = os.WriteFile(filepath.Join(r.out, fmt.Sprintf("stats-%s-%s.json", r.Unit, r.shard)), b, 0o644)
}

// WAL writes the case about to be executed, so that a case that kills the
// process can be recovered and minimised by the driver.
func (r *Run) WAL(replayCase any) {
	doc := map[string]any{"property": r.Prop, "unit": r.Unit, "signature": "process-death", "message": "worker died while executing this case", "case": replayCase}
	b, _ := json.Marshal(doc)
	_ = os.WriteFile(filepath.Join(r.out, fmt.Sprintf("wal-%s-%s.json", r.Unit, r.shard)), b, 0o644)
}

// ReplayCase loads the "case" member of the replay file named by VERIF_REPLAY
// into dst. ok=false when no replay was requested.
func ReplayCase(unit string, dst any) (ok bool, err error) {
	p := os.Getenv("VERIF_REPLAY")
	if p == "" {
		return false, nil
	}
	b, err := os.ReadFile(p)
	if err != nil {
		return true, err
	}
	var doc struct {
		Unit string          `json:"unit"`
		Case json.RawMessage `json:"case"`
	}
	if err := json.Unmarshal(b, &doc); err != nil {
		return true, err
	}
	if doc.Unit != "" && doc.Unit != unit {
		return true, errOtherUnit
	}
	return true, json.Unmarshal(doc.Case, dst)
}

var errOtherUnit = fmt.Errorf("replay file belongs to another unit")

// IsOtherUnit reports whether ReplayCase refused the file because it was
// recorded by a different test function.
func IsOtherUnit(err error) bool { return err == errOtherUnit }

// Check is the standard shape of a generated check: gen draws a case (plain
// data, JSON-serialisable), exec runs and judges it. In replay mode the case
// comes from the replay file and rapid is bypassed.
func Check[P any](t *testing.T, prop, unit string, gen func(*rapid.T) P, exec func(P) Outcome) {
	r := Begin(prop, unit)
	defer r.Flush()
	CheckRun(t, r, gen, exec)
}

// CheckRun is Check on an already opened Run (so that a test can add Extra keys).
func CheckRun[P any](t *testing.T, r *Run, gen func(*rapid.T) P, exec func(P) Outcome) {
	var rp P
	if ok, err := ReplayCase(r.Unit, &rp); ok {
		if IsOtherUnit(err) {
			t.Skip("replay file is for another unit")
		}
		if err != nil {
			t.Fatalf("cannot load replay: %v", err)
		}
		o := exec(rp)
		r.Case(Hash(rp), o.NonTrivial, o.Classes...)
		if o.Viol != nil {
			if r.Violation(o.Viol, rp) {
				fmt.Printf("REPLAY-KNOWN sig=%s %s\n", o.Viol.Sig, o.Viol.Msg)
				return
			}
			fmt.Printf("REPLAY-VIOLATION sig=%s %s\n", o.Viol.Sig, o.Viol.Msg)
			t.Fatalf("violation %s: %s", o.Viol.Sig, o.Viol.Msg)
		}
		fmt.Printf("REPLAY-OK nontrivial=%v classes=%v\n", o.NonTrivial, o.Classes)
		return
	}
	rapid.Check(t, func(rt *rapid.T) {
		p := gen(rt)
		o := exec(p)
		if o.Skip {
			r.Skipped("exec")
			return
		}
		r.Case(Hash(p), o.NonTrivial, o.Classes...)
		if o.NonTrivial && r.WantSample() {
			r.Sample(p)
		}
		if o.Viol != nil {
			if r.Violation(o.Viol, p) {
				return
			}
			rt.Fatalf("violation %s: %s", o.Viol.Sig, o.Viol.Msg)
		}
	})
}

// FuzzOf runs the same property under Go's coverage-guided fuzzer: the fuzzer's bytes drive
// rapid's generator (rapid.MakeFuzz), so every input is a well-formed case of the property and
// the oracle is the one the rapid unit uses. `unit` is the name of that rapid unit: a failing
// case is written as its ordinary violation file (replayable with ./check <ID> --replay).
// Each fuzz worker is a separate process; counters are appended to a per-process stats file.
func FuzzOf[P any](f *testing.F, prop, unit string, gen func(*rapid.T) P, exec func(P) Outcome) {
	r := Begin(prop, unit)
	f.Add([]byte{})
	f.Add([]byte("\x00\x01\x02\x03\x04\x05\x06\x07\x08\x09\x0a\x0b\x0c\x0d\x0e\x0f"))
	f.Add([]byte("\xff\xff\xff\xff\xff\xff\xff\xff\xff\xff\xff\xff\xff\xff\xff\xff\xff\xff\xff\xff\xff\xff\xff\xff"))
	f.Fuzz(rapid.MakeFuzz(func(rt *rapid.T) {
		p := gen(rt)
		o := exec(p)
		if o.Skip {
			return
		}
		if o.Viol != nil {
			if r.Violation(o.Viol, p) {
				return
			}
			rt.Fatalf("violation %s: %s", o.Viol.Sig, o.Viol.Msg)
		}
	}))
}
