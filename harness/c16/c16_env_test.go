package main

// C16 — out-of-band files are served only to authorised users and kept while referenced.
//
// This file holds what the three C16 units share: a self-contained boot of the store
// (verifmem adapter), the `fs` media handler on a scratch directory, issued and forged API keys
// and tokens, deterministic file contents, the request builder (every placement of key and
// credentials) and the reference models of "which key / credential does the request carry",
// "is this content type active" and "which type is recorded for these bytes".

import (
	"bytes"
	"crypto/hmac"
	"crypto/md5"
	"crypto/sha256"
	"encoding/base64"
	"encoding/binary"
	"encoding/json"
	"fmt"
	"io"
	"mime"
	"mime/multipart"
	"net/http"
	"net/http/httptest"
	"net/textproto"
	"net/url"
	"os"
	"path/filepath"
	"sort"
	"strings"
	"sync"
	"time"

	"golang.org/x/crypto/bcrypt"

	"github.com/tinode/chat/server/auth"
	"github.com/tinode/chat/server/media"
	"github.com/tinode/chat/server/store"
	"github.com/tinode/chat/server/store/types"
	mem "github.com/tinode/chat/server/zzverifmem"
)

const (
	c16StoreCfg = `{"uid_key":"la6YsO+bNX/+XIkOqc5Svw==","max_results":1024,"use_adapter":"verifmem"}`
	// Same value as the world engine's token configuration: the authenticator is a process-wide
	// singleton that can be initialised once.
	c16TokenCfg   = `{"expire_in":1209600,"serial_num":1,"key":"wfaY2RgF2S1OQI/ZlK+LSrp1KB2jwAdGAIHQ7JZn+Kc="}`
	c16TokenKey   = "wfaY2RgF2S1OQI/ZlK+LSrp1KB2jwAdGAIHQ7JZn+Kc="
	c16BasicCfg   = `{"add_to_tags":false,"min_login_length":3,"min_password_length":3}`
	c16Password   = "c16secret"
	c16Boundary   = "c16boundary7MA4YWxkTrZu0gW"
	c16RemoteAddr = "192.0.2.1:4321"
)

var (
	c16Salt     = []byte("c16-api-key-salt-0123456789abcdef")
	c16AltSalt  = []byte("c16-another-salt-0123456789abcde")
	c16Once     sync.Once
	c16PassHash []byte
)

// c16ProcessInit: one-time, process-wide pieces (adapter registration is shared with the world
// engine because the adapter can be registered only once).
func c16ProcessInit() {
	wProcessInit()
	c16Once.Do(func() {
		h, err := bcrypt.GenerateFromPassword([]byte(c16Password), bcrypt.MinCost)
		if err != nil {
			panic(err)
		}
		c16PassHash = h
		store.RegisterMediaHandler(c16RedirName, c16Redir)
	})
}

// ---------------------------------------------------------------- a media handler which redirects downloads

// c16RedirHandler is the second media handler of the harness ("vredir"): the files live where the
// real fs handler puts them (every method is delegated to it), but downloads are answered the way
// the s3 handler answers them: Headers() tells the endpoint to stop with 307 and the Location of a
// "pre-signed" url of the file. The location is a secret of the file: whoever learns it can fetch
// the bytes without talking to the server again.
type c16RedirHandler struct {
	inner media.Handler // the process-wide fs handler, configured by mediaOn
}

const (
	c16RedirName = "vredir"
	c16RedirBase = "https://c16-bucket.example/"
	c16RedirSig  = "?X-Verif-Signature=c16presigned"
)

var c16Redir = &c16RedirHandler{}

// c16RedirLocation is the Location the handler hands out for an upload.
func c16RedirLocation(fid types.Uid) string { return c16RedirBase + fid.String32() + c16RedirSig }

// Init: the inner handler has been configured by the caller (the same configuration text).
func (h *c16RedirHandler) Init(jsconf string) error {
	if h.inner == nil {
		return fmt.Errorf("c16: %s has no fs handler to delegate to", c16RedirName)
	}
	return h.inner.Init(jsconf)
}

func (h *c16RedirHandler) Headers(req *http.Request, serve bool) (http.Header, int, error) {
	headers, status, err := h.inner.Headers(req, serve)
	if err != nil || status != 0 || !serve || (req.Method != http.MethodGet && req.Method != http.MethodHead) {
		// preflight, upload, or a method which is not a download
		return headers, status, err
	}
	fid := h.GetIdFromUrl(req.URL.String())
	if fid.IsZero() {
		return nil, 0, types.ErrNotFound
	}
	fd, err := store.Files.Get(fid.String())
	if err != nil {
		return nil, 0, err
	}
	if fd == nil || fd.Status != types.UploadCompleted {
		return nil, 0, types.ErrNotFound
	}
	return http.Header{
		"Location":      {c16RedirLocation(fid)},
		"Content-Type":  {"application/json; charset=utf-8"},
		"Cache-Control": {"no-cache, no-store, must-revalidate"},
	}, http.StatusTemporaryRedirect, nil
}

func (h *c16RedirHandler) Upload(fdef *types.FileDef, file io.ReadSeeker) (string, int64, error) {
	return h.inner.Upload(fdef, file)
}

func (h *c16RedirHandler) Download(url string) (*types.FileDef, media.ReadSeekCloser, error) {
	return h.inner.Download(url)
}

func (h *c16RedirHandler) Delete(locations []string) error { return h.inner.Delete(locations) }

func (h *c16RedirHandler) GetIdFromUrl(url string) types.Uid { return h.inner.GetIdFromUrl(url) }

// c16InitAuth initialises the token and basic authenticators (idempotent).
func c16InitAuth() {
	tok := store.Store.GetAuthHandler("token")
	if !tok.IsInitialized() {
		if err := tok.Init(json.RawMessage(c16TokenCfg), "token"); err != nil {
			panic(err)
		}
	}
	basic := store.Store.GetAuthHandler("basic")
	if !basic.IsInitialized() {
		if err := basic.Init(json.RawMessage(c16BasicCfg), "basic"); err != nil {
			panic(err)
		}
	}
}

// ---------------------------------------------------------------- issued and forged secrets

func c16APIKey(salt []byte, root bool) []byte {
	d := make([]byte, 8, 24)
	d[0] = 1
	d[1], d[2], d[3], d[4] = 0x2a, 0, 0, 0
	d[5], d[6] = 7, 0
	if root {
		d[7] = 1
	}
	h := hmac.New(md5.New, salt)
	h.Write(d)
	return h.Sum(d)
}

// c16Token forges a token with the documented layout
// [8:UID][4:expires][2:authLevel][2:serial-number][2:feature-bits][32:signature].
func c16Token(key []byte, uid types.Uid, expires time.Time, level auth.Level, serial int) []byte {
	buf := new(bytes.Buffer)
	binary.Write(buf, binary.LittleEndian, uint64(uid))
	binary.Write(buf, binary.LittleEndian, uint32(expires.Unix()))
	binary.Write(buf, binary.LittleEndian, uint16(level))
	binary.Write(buf, binary.LittleEndian, uint16(serial))
	binary.Write(buf, binary.LittleEndian, uint16(0))
	h := hmac.New(sha256.New, key)
	h.Write(buf.Bytes())
	return h.Sum(buf.Bytes())
}

func c16TokKey() []byte {
	k, err := base64.StdEncoding.DecodeString(c16TokenKey)
	if err != nil {
		panic(err)
	}
	return k
}

// ---------------------------------------------------------------- key / credential specs

// Placements of the API key, in the order the server looks for it.
const (
	c16KeyHeader = iota
	c16KeyQuery
	c16KeyForm
	c16KeyCookie
)

// API key kinds.
const (
	c16KeyValid = iota
	c16KeyAbsent
	c16KeyBitFlip
	c16KeyAltSalt
	c16KeyTruncated
	c16KeyGarbage
	c16KeyValidRoot
	c16KeyKinds
)

type c16KeySpec struct {
	Kind  int `json:"kind"`
	Place int `json:"place"`
	Bit   int `json:"bit,omitempty"` // which bit to flip / where to cut
}

func c16KeyText(k c16KeySpec) (text string, valid bool) {
	switch ((k.Kind % c16KeyKinds) + c16KeyKinds) % c16KeyKinds {
	case c16KeyValid:
		return base64.URLEncoding.EncodeToString(c16APIKey(c16Salt, false)), true
	case c16KeyValidRoot:
		return base64.URLEncoding.EncodeToString(c16APIKey(c16Salt, true)), true
	case c16KeyAbsent:
		return "", false
	case c16KeyBitFlip:
		d := c16APIKey(c16Salt, false)
		bit := ((k.Bit % 192) + 192) % 192
		d[bit/8] ^= 1 << (bit % 8)
		return base64.URLEncoding.EncodeToString(d), false
	case c16KeyAltSalt:
		return base64.URLEncoding.EncodeToString(c16APIKey(c16AltSalt, false)), false
	case c16KeyTruncated:
		s := base64.URLEncoding.EncodeToString(c16APIKey(c16Salt, false))
		n := ((k.Bit % 31) + 31) % 31
		return s[:n], false // 0..30 characters
	default:
		return "AQAAAAABAAD_rAp4DJh05a1HAwFT3A6K", false // the key published in the documentation (signed with another salt)
	}
}

// Placements of credentials, in the order the server looks for them; the session id is consulted
// only when no other placement carries a method.
const (
	c16CredXTA = iota
	c16CredAuthz
	c16CredQuery
	c16CredForm
	c16CredCookie
	c16CredPlaces
)

// Credential kinds.
const (
	c16CredToken = iota
	c16CredAbsent
	c16CredTokenBadSig
	c16CredTokenExpired
	c16CredTokenOtherKey
	c16CredTokenShort
	c16CredNotBase64
	c16CredUnknownScheme
	c16CredBasic
	c16CredBasicWrong
	c16CredSidLive
	c16CredSidNoLogin
	c16CredSidUnknown
	c16CredTokenAnon
	c16CredTokenUpper
	c16CredTokenSerial
	c16CredKinds
)

type c16CredSpec struct {
	Kind  int `json:"kind"`
	Place int `json:"place"`          // for sid kinds: 0 = query, otherwise form
	User  int `json:"user,omitempty"` // which pre-seeded user (0 or 1)
	Bit   int `json:"bit,omitempty"`
}

func (c c16CredSpec) kind() int  { return ((c.Kind % c16CredKinds) + c16CredKinds) % c16CredKinds }
func (c c16CredSpec) place() int { return ((c.Place % c16CredPlaces) + c16CredPlaces) % c16CredPlaces }
func (c c16CredSpec) isSid() bool {
	k := c.kind()
	return k == c16CredSidLive || k == c16CredSidNoLogin || k == c16CredSidUnknown
}

// Outcome classes of a credential.
const (
	c16AuthOK    = iota // authenticates a user
	c16AuthNone         // no user, no error (absent, unknown scheme, unknown or anonymous session)
	c16AuthError        // refused with an error (bad signature, expired, malformed)
)

// c16Env is one booted store + media handler + users.
type c16Env struct {
	root     string // scratch root; the upload directory is root/uploads
	dir      string
	serveURL string
	uids     []types.Uid // 0, 1: authenticated users; 2: anonymous-level user
	sessLive *Session
	sessNone *Session
	marker   []byte // content of root/secret.txt, must never be served
	mediaCfg string // configuration text of the media handler
	redirect bool   // the configured handler is "vredir"
}

const (
	c16SidLive    = "c16sidLIVE"
	c16SidNoLogin = "c16sidNOLOGIN"
	c16SidUnknown = "c16sidUNKNOWN"
)

var c16SessOnce sync.Once

// c16Open boots a fresh store outside of a synctest bubble (units Gate and Download).
func c16Open(serveURL string, maxSize int64, gcPeriod time.Duration) *c16Env {
	c16ProcessInit()
	mem.A.Reset()
	if err := store.Store.Open(1, json.RawMessage(c16StoreCfg)); err != nil {
		panic("store open: " + err.Error())
	}
	c16InitAuth()
	c16SessOnce.Do(func() {
		if globals.sessionStore == nil {
			globals.sessionStore = NewSessionStore(idleSessionTimeout + 15*time.Second)
		}
	})
	e := &c16Env{}
	e.mediaOn(serveURL, maxSize, gcPeriod)
	for i := 0; i < 3; i++ {
		u := &types.User{}
		u.Access.Auth = types.ModeCP2P
		u.Access.Anon = types.ModeNone
		u.Public = map[string]any{"fn": fmt.Sprintf("c16user%d", i)}
		if _, err := store.Users.Create(u, nil); err != nil {
			panic("user create: " + err.Error())
		}
		e.uids = append(e.uids, u.Uid())
	}
	for i := 0; i < 2; i++ {
		if err := store.Users.AddAuthRecord(e.uids[i], auth.LevelAuth, "basic", fmt.Sprintf("c16login%d", i), c16PassHash, time.Time{}); err != nil {
			panic("auth record: " + err.Error())
		}
	}
	e.sessLive, _ = globals.sessionStore.NewSession(http.ResponseWriter(httptest.NewRecorder()), c16SidLive)
	e.sessLive.uid = e.uids[0]
	e.sessLive.authLvl = auth.LevelAuth
	e.sessNone, _ = globals.sessionStore.NewSession(http.ResponseWriter(httptest.NewRecorder()), c16SidNoLogin)
	return e
}

// mediaOn configures the fs handler on a new scratch directory and the global limits.
func (e *c16Env) mediaOn(serveURL string, maxSize int64, gcPeriod time.Duration) {
	root, err := os.MkdirTemp(os.Getenv("VERIF_OUT"), "c16-")
	if err != nil {
		panic(err)
	}
	e.root = root
	e.dir = filepath.Join(root, "uploads")
	e.marker = []byte("C16-MARKER-outside-the-upload-directory-d41d8cd98f00b204e9800998ecf8427e")
	if err := os.WriteFile(filepath.Join(root, "secret.txt"), e.marker, 0o644); err != nil {
		panic(err)
	}
	cfg := map[string]any{"upload_dir": e.dir}
	e.serveURL = "/v0/file/s/"
	if serveURL != "" {
		cfg["serve_url"] = serveURL
		e.serveURL = serveURL
	}
	b, _ := json.Marshal(cfg)
	e.mediaCfg, e.redirect = string(b), false
	if err := store.Store.UseMediaHandler("fs", e.mediaCfg); err != nil {
		panic(err)
	}
	globals.apiKeySalt = c16Salt
	globals.maxFileUploadSize = maxSize
	globals.mediaGcPeriod = gcPeriod
	globals.useXForwardedFor = false
}

// useRedirect switches the configured media handler from fs to the redirecting one (same
// directory, same serve url). mediaOn must have been called.
func (e *c16Env) useRedirect() {
	c16Redir.inner = store.Store.GetMediaHandler()
	if c16Redir.inner == media.Handler(c16Redir) {
		panic("c16: useRedirect called twice")
	}
	if err := store.Store.UseMediaHandler(c16RedirName, e.mediaCfg); err != nil {
		panic(err)
	}
	e.redirect = true
}

func (e *c16Env) close() {
	if e.redirect {
		// the handler is process-wide: leave the stock one behind
		store.Store.UseMediaHandler("fs", e.mediaCfg)
		e.redirect = false
	}
	if e.sessLive != nil {
		globals.sessionStore.Delete(e.sessLive)
	}
	if e.sessNone != nil {
		globals.sessionStore.Delete(e.sessNone)
	}
	store.Store.Close()
	e.cleanDir()
}

func (e *c16Env) cleanDir() { os.RemoveAll(e.root) }

// dirList returns the names of the files in the upload directory, sorted.
func (e *c16Env) dirList() []string {
	ents, err := os.ReadDir(e.dir)
	if err != nil {
		return nil
	}
	var out []string
	for _, en := range ents {
		out = append(out, en.Name())
	}
	sort.Strings(out)
	return out
}

// c16FileRows renders the file table of the store as comparable strings.
func c16FileRows() []string {
	snap := mem.A.Snapshot()
	var out []string
	for _, f := range snap.Files {
		out = append(out, fmt.Sprintf("%s|%d|%d|%s|%s|%s", f.ID.String(), f.Status, f.Size, f.MimeType, f.User.String(), f.Location))
	}
	sort.Strings(out)
	return out
}

func c16Diff(before, after []string) (added, removed []string) {
	b := map[string]int{}
	for _, s := range before {
		b[s]++
	}
	for _, s := range after {
		if b[s] > 0 {
			b[s]--
		} else {
			added = append(added, s)
		}
	}
	for s, n := range b {
		for ; n > 0; n-- {
			removed = append(removed, s)
		}
	}
	sort.Strings(removed)
	return
}

// credential resolves a spec to (method, secret text as it travels, outcome class, uid).
// tok(i) returns an issued token of user i.
func (e *c16Env) credential(c c16CredSpec, now time.Time) (method, secret string, class int, uid types.Uid) {
	u := ((c.User % 2) + 2) % 2
	key := c16TokKey()
	far := now.Add(24 * time.Hour)
	enc := func(b []byte) string { return base64.StdEncoding.EncodeToString(b) }
	switch c.kind() {
	case c16CredToken:
		return "token", enc(c16Token(key, e.uids[u], far, auth.LevelAuth, 1)), c16AuthOK, e.uids[u]
	case c16CredTokenUpper:
		return "TOKEN", enc(c16Token(key, e.uids[u], far, auth.LevelAuth, 1)), c16AuthOK, e.uids[u]
	case c16CredTokenAnon:
		return "token", enc(c16Token(key, e.uids[2], far, auth.LevelAnon, 1)), c16AuthOK, e.uids[2]
	case c16CredTokenBadSig:
		t := c16Token(key, e.uids[u], far, auth.LevelAuth, 1)
		bit := ((c.Bit % (len(t) * 8)) + len(t)*8) % (len(t) * 8)
		t[bit/8] ^= 1 << (bit % 8)
		return "token", enc(t), c16AuthError, types.ZeroUid
	case c16CredTokenExpired:
		return "token", enc(c16Token(key, e.uids[u], now.Add(-time.Duration(1+((c.Bit%3600)+3600)%3600)*time.Second), auth.LevelAuth, 1)), c16AuthError, types.ZeroUid
	case c16CredTokenOtherKey:
		other := append([]byte(nil), key...)
		other[0] ^= 0x55
		return "token", enc(c16Token(other, e.uids[u], far, auth.LevelAuth, 1)), c16AuthError, types.ZeroUid
	case c16CredTokenSerial:
		return "token", enc(c16Token(key, e.uids[u], far, auth.LevelAuth, 2)), c16AuthError, types.ZeroUid
	case c16CredTokenShort:
		t := c16Token(key, e.uids[u], far, auth.LevelAuth, 1)
		n := ((c.Bit % len(t)) + len(t)) % len(t) // 0..len-1 bytes kept
		return "token", enc(t[:n]), c16AuthError, types.ZeroUid
	case c16CredNotBase64:
		return "token", "!!not*base64!!", c16AuthError, types.ZeroUid
	case c16CredUnknownScheme:
		return "nosuch", enc(c16Token(key, e.uids[u], far, auth.LevelAuth, 1)), c16AuthNone, types.ZeroUid
	case c16CredBasic:
		return "basic", enc([]byte(fmt.Sprintf("c16login%d:%s", u, c16Password))), c16AuthOK, e.uids[u]
	case c16CredBasicWrong:
		return "basic", enc([]byte(fmt.Sprintf("c16login%d:%sX", u, c16Password))), c16AuthError, types.ZeroUid
	case c16CredSidLive:
		return "", c16SidLive, c16AuthOK, e.uids[0]
	case c16CredSidNoLogin:
		return "", c16SidNoLogin, c16AuthNone, types.ZeroUid
	case c16CredSidUnknown:
		return "", c16SidUnknown, c16AuthNone, types.ZeroUid
	}
	return "", "", c16AuthNone, types.ZeroUid
}

// ---------------------------------------------------------------- file contents

// Content kinds.
const (
	c16KPng = iota
	c16KJpeg
	c16KGif
	c16KPdf
	c16KHtml
	c16KHtmlFragment
	c16KXml
	c16KSvgProlog
	c16KSvgBare
	c16KText
	c16KZero
	c16KBinary
	c16KUtf16
	c16KEmpty
	c16KKinds
)

var c16KindNames = []string{"png", "jpeg", "gif", "pdf", "html", "html-fragment", "xml", "svg+prolog", "svg-bare", "text", "zero", "binary", "utf16", "empty"}

// c16Content builds size bytes of the given kind; the fill is a function of seed only, and every
// content carries its seed so that distinct uploads of one case have distinct bytes.
func c16Content(kind, size, seed int) []byte {
	kind = ((kind % c16KKinds) + c16KKinds) % c16KKinds
	if kind == c16KEmpty || size <= 0 {
		return []byte{}
	}
	var head []byte
	text := false
	switch kind {
	case c16KPng:
		head = []byte("\x89PNG\r\n\x1a\n\x00\x00\x00\rIHDR")
	case c16KJpeg:
		head = []byte("\xff\xd8\xff\xe0\x00\x10JFIF\x00")
	case c16KGif:
		head = []byte("GIF89a\x01\x00\x01\x00")
	case c16KPdf:
		head = []byte("%PDF-1.4\n")
	case c16KHtml:
		head, text = []byte("<!DOCTYPE html><html><body><script>alert(1)</script>"), true
	case c16KHtmlFragment:
		head, text = []byte("  <script>alert(document.cookie)</script>"), true
	case c16KXml:
		head, text = []byte("<?xml version=\"1.0\"?><root>"), true
	case c16KSvgProlog:
		head, text = []byte("<?xml version=\"1.0\"?><svg xmlns=\"http://www.w3.org/2000/svg\" onload=\"alert(1)\">"), true
	case c16KSvgBare:
		head, text = []byte("<svg xmlns=\"http://www.w3.org/2000/svg\" onload=\"alert(1)\">"), true
	case c16KText:
		head, text = []byte("plain text "), true
	case c16KUtf16:
		head = []byte("\xff\xfeh\x00i\x00")
	case c16KZero:
		out := make([]byte, size)
		// the seed goes to the end so that the first 512 bytes stay zero when there is room
		tag := fmt.Sprintf("#%d", seed)
		if size > 512+len(tag) {
			copy(out[size-len(tag):], tag)
		}
		return out
	case c16KBinary:
		head = []byte{0x00, 0x01, 0x02, 0x7f, 0x80, 0xfe}
	}
	out := make([]byte, 0, size)
	out = append(out, head...)
	out = append(out, []byte(fmt.Sprintf("#%d#", seed))...)
	x := uint32(seed)*2654435761 + 12345
	for len(out) < size {
		x = x*1664525 + 1013904223
		b := byte(x >> 24)
		if text {
			b = "abcdefghijklmnopqrstuvwxyz <>/=\"\n0123456789"[int(b)%43]
		}
		out = append(out, b)
	}
	return out[:size]
}

var c16ClientTypes = []string{"", "image/png", "image/svg+xml", "image/svg+xml; charset=utf-8", "text/html", "text/plain", "application/xml",
	"video/mp4", "audio/x-html", "font/xml", "foo/bar", "IMAGE/SVG+XML", "garbage;;;", "application/octet-stream", "image/jpeg; x=\"a b\""}

// c16Sniff is the reference for "the type detected at upload": the type sniffed from the first
// 512 bytes of the content; when that is the catch-all type, the client's type if it is a
// well-formed type of one of the documented families.
//
// padded=true reproduces the server's way of sniffing a fixed 512-byte buffer (content shorter
// than 512 bytes is followed by zero bytes); the two differ only for short textual content.
func c16Sniff(data []byte, clientType string, padded bool) string {
	var probe []byte
	if padded {
		probe = make([]byte, 512)
		copy(probe, data)
	} else {
		probe = data
		if len(probe) > 512 {
			probe = probe[:512]
		}
	}
	m := http.DetectContentType(probe)
	if m != "application/octet-stream" {
		return m
	}
	ct, params, err := mime.ParseMediaType(clientType)
	if err != nil {
		return m
	}
	for _, fam := range []string{"application/", "audio/", "font/", "image/", "text/", "video/"} {
		if strings.HasPrefix(ct, fam) {
			if s := mime.FormatMediaType(ct, params); s != "" {
				return s
			}
			break
		}
	}
	return m
}

// c16Active: must a download of this type be saved rather than displayed?
func c16Active(contentType string) bool {
	t := strings.ToLower(strings.TrimSpace(contentType))
	return strings.Contains(t, "html") || strings.Contains(t, "xml") ||
		strings.HasPrefix(t, "text/") || strings.HasPrefix(t, "application/")
}

// ---------------------------------------------------------------- request builder

type c16Wire struct {
	method   string
	path     string // request target without query
	query    url.Values
	headers  http.Header
	cookies  []*http.Cookie
	fields   [][2]string // multipart value fields, in order
	file     []byte      // nil = no file part
	fileName string
	fileType string // Content-Type of the file part ("" = none)
	raw      []byte // non-multipart body (when not nil, fields and file are ignored)
	wantBody bool   // send a multipart body even without a file part
}

func c16NewWire(method, path string) *c16Wire {
	return &c16Wire{method: method, path: path, query: url.Values{}, headers: http.Header{}}
}

func (w *c16Wire) putKey(text string, place int) {
	if text == "" {
		return
	}
	switch ((place % 4) + 4) % 4 {
	case c16KeyHeader:
		w.headers.Set("X-Tinode-APIKey", text)
	case c16KeyQuery:
		w.query.Set("apikey", text)
	case c16KeyForm:
		w.fields = append(w.fields, [2]string{"apikey", text})
		w.wantBody = true
	case c16KeyCookie:
		w.cookies = append(w.cookies, &http.Cookie{Name: "apikey", Value: text})
	}
}

// putCred places method+secret. The query form uses the URL-safe alphabet, as documented.
func (w *c16Wire) putCred(c c16CredSpec, method, secret string) {
	if c.kind() == c16CredAbsent {
		return
	}
	if c.isSid() {
		if c.Place%2 == 0 {
			w.query.Set("sid", secret)
		} else {
			w.fields = append(w.fields, [2]string{"sid", secret})
			w.wantBody = true
		}
		return
	}
	switch c.place() {
	case c16CredXTA:
		w.headers.Set("X-Tinode-Auth", method+" "+secret)
	case c16CredAuthz:
		w.headers.Set("Authorization", method+" "+secret)
	case c16CredQuery:
		w.query.Set("auth", method)
		w.query.Set("secret", strings.NewReplacer("+", "-", "/", "_").Replace(secret))
	case c16CredForm:
		w.fields = append(w.fields, [2]string{"auth", method}, [2]string{"secret", secret})
		w.wantBody = true
	case c16CredCookie:
		w.cookies = append(w.cookies, &http.Cookie{Name: "auth", Value: method}, &http.Cookie{Name: "secret", Value: secret})
	}
}

// body renders the request body and its content type ("" = no body).
func (w *c16Wire) body() ([]byte, string) {
	if w.raw != nil {
		return w.raw, "application/octet-stream"
	}
	if w.file == nil && !w.wantBody {
		return nil, ""
	}
	var buf bytes.Buffer
	mw := multipart.NewWriter(&buf)
	mw.SetBoundary(c16Boundary)
	for _, f := range w.fields {
		mw.WriteField(f[0], f[1])
	}
	if w.file != nil {
		h := textproto.MIMEHeader{}
		name := w.fileName
		if name == "" {
			name = "blob"
		}
		h.Set("Content-Disposition", `form-data; name="file"; filename="`+name+`"`)
		if w.fileType != "" {
			h.Set("Content-Type", w.fileType)
		}
		pw, _ := mw.CreatePart(h)
		pw.Write(w.file)
	}
	mw.Close()
	return buf.Bytes(), "multipart/form-data; boundary=" + c16Boundary
}

// request builds the *http.Request the way the HTTP server would hand it to the handler.
func (w *c16Wire) request() (*http.Request, int) {
	target := w.path
	if q := w.query.Encode(); q != "" {
		if strings.Contains(target, "?") {
			target += "&" + q
		} else {
			target += "?" + q
		}
	}
	u, err := url.ParseRequestURI(target)
	if err != nil {
		return nil, 0
	}
	body, ctype := w.body()
	var rd io.Reader = http.NoBody
	if body != nil {
		rd = bytes.NewReader(body)
	}
	req, err := http.NewRequest(w.method, "http://c16.example"+"/", rd)
	if err != nil {
		return nil, 0
	}
	req.URL = u
	req.RequestURI = target
	req.RemoteAddr = c16RemoteAddr
	req.Host = "c16.example"
	for k, v := range w.headers {
		req.Header[k] = v
	}
	if ctype != "" {
		req.Header.Set("Content-Type", ctype)
	}
	for _, c := range w.cookies {
		req.AddCookie(c)
	}
	req.ContentLength = int64(len(body))
	return req, len(body)
}

// c16Reply is what came back.
type c16Reply struct {
	code   int
	header http.Header
	body   []byte
	ctrl   *MsgServerCtrl
}

func c16Serve(h func(http.ResponseWriter, *http.Request), req *http.Request) (rep c16Reply, pan any) {
	rec := httptest.NewRecorder()
	func() {
		defer func() {
			if r := recover(); r != nil {
				pan = r
			}
		}()
		h(rec, req)
	}()
	rep.code = rec.Code
	rep.header = rec.Header()
	rep.body = rec.Body.Bytes()
	var m ServerComMessage
	if json.Unmarshal(rep.body, &m) == nil && m.Ctrl != nil {
		rep.ctrl = m.Ctrl
	}
	return
}

func (r c16Reply) url() string {
	if r.ctrl == nil {
		return ""
	}
	if p, ok := r.ctrl.Params.(map[string]any); ok {
		s, _ := p["url"].(string)
		return s
	}
	return ""
}

func (r c16Reply) param(name string) (string, bool) {
	if r.ctrl == nil {
		return "", false
	}
	if p, ok := r.ctrl.Params.(map[string]any); ok {
		s, ok := p[name].(string)
		return s, ok
	}
	return "", false
}

func c16Short(b []byte) string {
	if len(b) > 48 {
		return fmt.Sprintf("%q...(%d bytes)", b[:48], len(b))
	}
	return fmt.Sprintf("%q", b)
}

func c16SortedKeys(m map[string]bool) []string {
	ks := make([]string, 0, len(m))
	for k := range m {
		ks = append(ks, k)
	}
	sort.Strings(ks)
	return ks
}
