package main

// C16 unit 3 — linking and garbage collection, as a stateful model over generated histories.
//
// The real hub, topics and sessions run on the verifmem store inside a synctest bubble (world
// engine helpers wBoot / wInBubble / w.do); uploads and downloads go through the real HTTP
// handlers; publishes, avatar changes, account creation and deletions are client messages on real
// sessions; garbage collection is the statement largeFileRunGarbageCollection executes on every
// tick (store.Files.DeleteUnused(now-1h, blockSize)) on the bubble's virtual clock.
// Histories also hold {set desc} requests which change only the requester's private note while
// carrying an attachment list (by the owner, by another subscriber, on P2P and 'me': nothing is
// linked or unlinked), and collection runs whose store transaction fails at commit (the adapter
// returns the selected locations with the error and keeps the records: nothing may be removed,
// the error must be reported).
//
// Model: a holder (stored message, topic, user) lists files. A file is protected while a living
// holder lists it under one of the documented url forms; it is collectable when nothing lists it
// and it is older than the grace period. After every collection run: no protected file is gone,
// every collectable file is gone (store record, bytes on disk, download), nothing else changed.

import (
	"bytes"
	"encoding/base64"
	"errors"
	"fmt"
	"os"
	"path"
	"path/filepath"
	"sort"
	"strings"
	"testing"
	"testing/synctest"
	"time"

	"github.com/tinode/chat/server/store"
	"github.com/tinode/chat/server/store/types"
	kit "github.com/tinode/chat/server/zzverifkit"
	mem "github.com/tinode/chat/server/zzverifmem"
	"pgregory.net/rapid"
)

// Forms of an attachment reference.
const (
	c16FFull      = iota // the url returned by the upload
	c16FDotSlash         // ./name (documented)
	c16FBare             // name (documented)
	c16FAbsolute         // https://host/v0/file/s/name
	c16FTraversal        // /v0/file/s/../s/name
	c16FDangling         // a well-formed id in the serve directory that names no upload
	c16FMalformed        // not a file url at all
	c16FQuery            // returned url + ?asatt=1
	c16FOtherDir         // /some/other/dir/name: not a file of the serve directory
	c16FForms
)

type c16Ref struct {
	I    int `json:"i"`
	Form int `json:"form,omitempty"`
}

type c16Op struct {
	K    string   `json:"k"`           // up upfail upfault pub newgrp setdesc setpriv acc delacc delmsg deltopic tick gc gcfail
	U    int      `json:"u,omitempty"` // acting user
	T    int      `json:"t,omitempty"` // topic: -1 me, -2 p2p with the next user, >=0 group slot
	F    []c16Ref `json:"f,omitempty"`
	N    int      `json:"n,omitempty"`
	Hard bool     `json:"hard,omitempty"`
	// Fm (pub): the adapter method whose first call fails while the publish is processed
	// (TopicUpdateOnMessage, MessageSave, SubsUpdate = the sender's read marks, FileLinkAttachments); "" = none
	Fm string `json:"fm,omitempty"`
}

type c16Hist struct {
	Users int     `json:"users"`
	Block int     `json:"block"`          // gc block size; 0 = unlimited
	Loop  bool    `json:"loop,omitempty"` // also run the server's own collection loop (period 10 virtual minutes)
	Grpc  []int   `json:"grpc,omitempty"` // users whose connections talk protobuf (-1: the connections which create accounts)
	Ops   []c16Op `json:"ops"`

	// CloseFail: the closing collection run is preceded by one whose store transaction fails at commit
	CloseFail bool `json:"close_fail,omitempty"`
}

func c16GenRefs(rt *rapid.T, max int) []c16Ref {
	n := rapid.IntRange(0, max).Draw(rt, "n_refs")
	var out []c16Ref
	for i := 0; i < n; i++ {
		r := c16Ref{I: rapid.IntRange(0, 7).Draw(rt, "ref_i")}
		if rapid.IntRange(0, 9).Draw(rt, "ref_odd") < 3 {
			r.Form = rapid.IntRange(0, c16FForms-1).Draw(rt, "ref_form")
		} else {
			r.Form = rapid.IntRange(0, 2).Draw(rt, "ref_form")
		}
		out = append(out, r)
	}
	return out
}

func c16HistGen(rt *rapid.T) c16Hist {
	h := c16Hist{Users: rapid.IntRange(2, 3).Draw(rt, "users")}
	if rapid.IntRange(0, 2).Draw(rt, "limited") == 0 {
		h.Block = rapid.IntRange(1, 3).Draw(rt, "block")
	}
	h.Loop = rapid.IntRange(0, 3).Draw(rt, "loop") == 0
	for u := -1; u < h.Users; u++ {
		if rapid.IntRange(0, 3).Draw(rt, "grpc") == 0 {
			h.Grpc = append(h.Grpc, u)
		}
	}
	h.CloseFail = rapid.Bool().Draw(rt, "close_fail")
	n := rapid.IntRange(4, 24).Draw(rt, "n_ops")
	kinds := []string{"up", "up", "up", "up", "pub", "pub", "pub", "pub", "pub", "pub", "newgrp", "setdesc", "setdesc", "acc", "delacc", "delmsg", "delmsg", "deltopic", "tick", "tick", "tick", "gc", "gc", "upfail", "upfault",
		"setpriv", "setpriv", "gcfail"}
	for i := 0; i < n; i++ {
		op := c16Op{K: rapid.SampledFrom(kinds).Draw(rt, "k"), U: rapid.IntRange(0, h.Users-1).Draw(rt, "u")}
		if i < 2 {
			op.K = "up"
		} else if i == 2 {
			op.K = "newgrp"
		}
		switch op.K {
		case "up", "upfail", "upfault":
			op.N = rapid.IntRange(0, 9999).Draw(rt, "n")
		case "pub":
			op.T = rapid.SampledFrom([]int{-2, 0, 0, 1, 2}).Draw(rt, "t")
			op.F = c16GenRefs(rt, 3)
			// a third of the publishes meet a store failure at one of the writes a publish makes
			op.Fm = rapid.SampledFrom([]string{"", "", "", "", "", "", "", "", "SubsUpdate", "SubsUpdate", "TopicUpdateOnMessage", "MessageSave",
				"FileLinkAttachments"}).Draw(rt, "fm")
		case "newgrp", "acc":
			op.F = c16GenRefs(rt, 2)
		case "setdesc":
			op.T = rapid.SampledFrom([]int{-1, -1, 0, 1}).Draw(rt, "t")
			op.F = c16GenRefs(rt, 2)
			// a quarter of the description updates fail in the store: a refused update links nothing
			op.Fm = rapid.SampledFrom([]string{"", "", "", "", "", "", "UserUpdate", "TopicUpdate"}).Draw(rt, "fmdesc")
		case "setpriv":
			// a {set desc} which changes only the requester's private note, yet carries an attachment list.
			// Groups: N odd = sent by another subscriber (subscribed first), N even = by the owner.
			op.T = rapid.SampledFrom([]int{0, 0, 0, 1, -2, -1}).Draw(rt, "t")
			op.N = rapid.IntRange(0, 3).Draw(rt, "n")
			op.F = c16GenRefs(rt, 2)
			if len(op.F) == 0 {
				op.F = []c16Ref{{I: rapid.IntRange(0, 7).Draw(rt, "ref_i")}}
			}
		case "delacc":
			op.N = rapid.IntRange(0, 3).Draw(rt, "n")
		case "delmsg":
			op.T = rapid.SampledFrom([]int{-2, 0, 0, 1, 2}).Draw(rt, "t")
			op.N = rapid.IntRange(0, 7).Draw(rt, "n")
			op.Hard = rapid.IntRange(0, 3).Draw(rt, "hard") != 0
		case "deltopic":
			op.T = rapid.IntRange(0, 2).Draw(rt, "t")
			op.Hard = rapid.IntRange(0, 3).Draw(rt, "hard") != 0
		case "tick":
			op.N = rapid.IntRange(1, 50).Draw(rt, "minutes")
		}
		h.Ops = append(h.Ops, op)
	}
	return h
}

// ---------------------------------------------------------------- model

type c16MFile struct {
	idx  int
	url  string
	name string
	id   types.Uid
	data []byte
	mime string
	at   time.Time // completion time of the upload
	gone bool      // observed (and accepted) as collected
	// noBytes: an upload whose finalisation failed in the store: the record stays 'started', the
	// bytes were cleaned up. It can be neither downloaded nor referred to; it is collectable.
	noBytes bool
}

type c16Holder struct {
	key      string
	strict   map[int]bool // files it lists under a documented form: must be kept while it lives
	loose    map[int]bool // files it may or may not protect (undocumented spelling, unclear replacement)
	dangling bool         // its list also named something that is not an upload
	alive    bool
	soft     bool // soft-deleted: what happens to its files is not specified
}

type c16Model struct {
	files   []*c16MFile
	holders map[string]*c16Holder
	order   []string
}

func (m *c16Model) holder(key string) *c16Holder {
	h := m.holders[key]
	if h == nil {
		h = &c16Holder{key: key, strict: map[int]bool{}, loose: map[int]bool{}, alive: true}
		m.holders[key] = h
		m.order = append(m.order, key)
	}
	return h
}

// strictHeld returns a living holder which lists file i under a documented form (one whose list
// names only uploads, if there is one).
func (m *c16Model) strictHeld(i int) *c16Holder {
	var second *c16Holder
	for _, k := range m.order {
		h := m.holders[k]
		if h.alive && !h.soft && h.strict[i] {
			if !h.dangling {
				return h
			}
			if second == nil {
				second = h
			}
		}
	}
	return second
}

func (m *c16Model) looseHeld(i int) bool {
	for _, k := range m.order {
		h := m.holders[k]
		if !h.alive {
			continue
		}
		if h.loose[i] || (h.soft && h.strict[i]) {
			return true
		}
	}
	return false
}

// c16ResolvedRef is one entry of an attachment list.
type c16ResolvedRef struct {
	url        string
	file       int  // index of the upload it names, -1 none
	documented bool // spelled in a documented form and the upload exists
	dangling   bool // looks like a file of the serve directory but names no (living) upload
	noFile     bool // not a file url: ignored
}

func (m *c16Model) resolve(r c16Ref, serveURL string) c16ResolvedRef {
	form := ((r.Form % c16FForms) + c16FForms) % c16FForms
	if form == c16FMalformed {
		return c16ResolvedRef{url: []string{"???", "", "mailto:someone@example.com"}[((r.I%3)+3)%3], file: -1, noFile: true}
	}
	var refable []*c16MFile
	for _, f := range m.files {
		if !f.noBytes {
			refable = append(refable, f)
		}
	}
	if form == c16FDangling || len(refable) == 0 {
		return c16ResolvedRef{url: serveURL + types.Uid(0x0123456789abcdef+uint64(((r.I%8)+8)%8)).String() + ".bin", file: -1, dangling: true}
	}
	f := refable[((r.I%len(refable))+len(refable))%len(refable)]
	out := c16ResolvedRef{file: f.idx}
	last := path.Base(strings.TrimSuffix(serveURL, "/"))
	switch form {
	case c16FFull:
		out.url, out.documented = f.url, true
	case c16FDotSlash:
		out.url, out.documented = "./"+f.name, true
	case c16FBare:
		out.url, out.documented = f.name, true
	case c16FAbsolute:
		out.url = "https://c16.example" + f.url
	case c16FTraversal:
		out.url = serveURL + "../" + last + "/" + f.name
	case c16FQuery:
		out.url = f.url + "?asatt=1"
	case c16FOtherDir:
		// by the documented reading this names nothing: it neither links nor protects
		return c16ResolvedRef{url: []string{"/v0/file/u/", "/etc/", "/v0/file/", "/v0/file/s/x/"}[((r.I%4)+4)%4] + f.name, file: -1, noFile: true}
	}
	if f.gone {
		// the upload has been collected: whatever the spelling, the entry names nothing now
		out.documented = false
		out.dangling = form != c16FAbsolute
		out.file = -1
	}
	return out
}

// ---------------------------------------------------------------- executor

type c16Run struct {
	w        *wWorld
	e        *c16Env
	m        *c16Model
	h        c16Hist
	tol      func(*kit.Viol) bool
	cls      map[string]bool
	sess     map[int]*wSess
	attached map[string]bool // "<user>:<route>"
	groups   []c16Group
	accs     []*c16Acc
	msgs     map[string][]int // topic key -> accepted seq ids
	ticked   time.Duration
	loop     bool
	period   time.Duration
	lastObs  time.Time
	cutShort bool
	keptLinked, collected int
	gcRuns   int
}

type c16Group struct {
	name  string
	owner int
	dead  bool
}

type c16Acc struct {
	ss   *wSess
	uid  types.Uid
	dead bool
}

func (r *c16Run) isGrpc(u int) bool {
	for _, g := range r.h.Grpc {
		if g == u {
			return true
		}
	}
	return false
}

func (r *c16Run) session(u int) *wSess {
	if ss := r.sess[u]; ss != nil && !ss.isClosed() {
		return ss
	}
	ss := r.w.addSess()
	if r.isGrpc(u) {
		r.w.makeGrpc(ss)
		r.cls["transport:grpc"] = true
	}
	r.w.login(ss, u)
	id := r.w.nextID()
	r.w.do(ss, `{"sub":{"id":"`+id+`","topic":"me"}}`)
	r.sess[u] = ss
	return ss
}

// attach makes sure user u's session is attached to topic `name` (as u spells it).
func (r *c16Run) attach(u int, name string) bool {
	key := fmt.Sprintf("%d:%s", u, name)
	if r.attached[key] {
		return true
	}
	ss := r.session(u)
	id := r.w.nextID()
	fr := r.w.do(ss, `{"sub":{"id":"`+id+`","topic":"`+name+`"}}`)
	c := wCtrlCode(fr, id)
	if c >= 200 && c < 400 {
		r.attached[key] = true
		return true
	}
	return false
}

func (r *c16Run) dropSessions() {
	for _, ss := range r.sess {
		r.w.disconnect(ss)
	}
	for _, a := range r.accs {
		if a.ss != nil {
			r.w.disconnect(a.ss)
			a.ss = nil
		}
	}
	r.sess = map[int]*wSess{}
	r.attached = map[string]bool{}
	r.w.settle()
}

func (r *c16Run) token(u int) string {
	return "token " + base64.StdEncoding.EncodeToString(r.w.users[u].token)
}

func (r *c16Run) get(url string) (c16Reply, any) {
	w := c16NewWire("GET", url)
	w.headers.Set("X-Tinode-APIKey", c16MustKey())
	w.headers.Set("Authorization", r.token(0))
	req, _ := w.request()
	if req == nil {
		return c16Reply{code: -1}, nil
	}
	return c16Serve(largeFileServe, req)
}

func (r *c16Run) refsJSON(refs []c16Ref) (string, []c16ResolvedRef) {
	var urls []string
	var res []c16ResolvedRef
	for _, ref := range refs {
		x := r.m.resolve(ref, r.e.serveURL)
		urls = append(urls, x.url)
		res = append(res, x)
		switch {
		case x.documented:
			r.cls["ref:documented"] = true
		case x.dangling:
			r.cls["ref:dangling"] = true
		case x.noFile:
			r.cls["ref:not-a-file-url"] = true
		default:
			r.cls["ref:other-spelling"] = true
		}
	}
	if len(urls) == 0 {
		return "", nil
	}
	return `,"extra":{"attachments":` + wJSON(urls) + `}`, res
}

// linkAll: a stored message lists all its attachments.
func (r *c16Run) linkAll(h *c16Holder, res []c16ResolvedRef) {
	for _, x := range res {
		switch {
		case x.documented:
			h.strict[x.file] = true
		case x.dangling:
			h.dangling = true
		case x.file >= 0:
			h.loose[x.file] = true
		}
	}
}

// linkAvatar: a topic or user lists one avatar; a new one replaces the old one. Entries which
// name nothing (not a file url, or no such upload) cannot be the avatar and are passed over.
func (r *c16Run) linkAvatar(h *c16Holder, res []c16ResolvedRef) {
	var first *c16ResolvedRef
	for i := range res {
		if res[i].file >= 0 {
			first = &res[i]
			break
		}
	}
	if first == nil {
		return
	}
	if first.documented {
		h.strict, h.loose, h.dangling = map[int]bool{first.file: true}, map[int]bool{}, false
		return
	}
	// The first entry naming an upload does so in an undocumented spelling: whether it counts as
	// "the avatar" is not specified. Everything involved may or may not be protected from now on.
	for i := range h.strict {
		h.loose[i] = true
	}
	h.strict = map[int]bool{}
	for _, x := range res {
		if x.file >= 0 {
			h.loose[x.file] = true
		}
	}
	r.cls["avatar-list:first-upload-named-in-an-undocumented-spelling(unspecified)"] = true
}

func (r *c16Run) topicOf(op c16Op) (name, key string, owner int, ok bool) {
	switch {
	case op.T == -1:
		return "me", "user:" + r.w.users[op.U].uid.String(), op.U, true
	case op.T == -2:
		v := (op.U + 1) % len(r.w.users)
		a, b := op.U, v
		if a > b {
			a, b = b, a
		}
		return r.w.users[v].uid.UserId(), fmt.Sprintf("p2p:%d:%d", a, b), op.U, true
	default:
		if len(r.groups) == 0 {
			return "", "", 0, false
		}
		g := r.groups[((op.T%len(r.groups))+len(r.groups))%len(r.groups)]
		return g.name, "topic:" + g.name, g.owner, !g.dead
	}
}

func (r *c16Run) step(i int, op c16Op) *kit.Viol {
	w := r.w
	switch op.K {
	case "up":
		kind := ((op.N % (c16KKinds - 1)) + c16KKinds - 1) % (c16KKinds - 1)
		data := c16Content(kind, 24+op.N%700, 50000+i)
		wr := c16NewWire("POST", "/v0/file/u/")
		wr.headers.Set("X-Tinode-APIKey", c16MustKey())
		wr.headers.Set("Authorization", r.token(op.U))
		wr.file, wr.fileName, wr.fileType = data, "f", c16ClientTypes[op.N%len(c16ClientTypes)]
		req, _ := wr.request()
		rep, pan := c16Serve(largeFileReceive, req)
		if pan != nil || rep.code != 200 || rep.url() == "" {
			return kit.V("gate:valid-upload-refused", "op %d: a valid upload was answered %d %s (panic %v)", i, rep.code, c16Short(rep.body), pan)
		}
		f := &c16MFile{idx: len(r.m.files), url: rep.url(), name: path.Base(rep.url()), data: data, at: types.TimeNow()}
		f.id = store.Store.GetMediaHandler().GetIdFromUrl(f.url)
		found := false
		for _, row := range c16Rows() {
			if row.ID == f.id {
				found = true
				f.mime = row.MimeType
				if !row.Updated.Equal(f.at) {
					return kit.V("upload:record-time", "op %d: record of %s was updated at %v, the upload completed at %v", i, f.url, row.Updated, f.at)
				}
			}
		}
		if !found {
			return kit.V("gate:url-names-no-record", "op %d: returned url %q names no record", i, f.url)
		}
		r.m.files = append(r.m.files, f)
	case "upfail":
		data := c16Content(c16KBinary, 64+op.N%500, 70000+i)
		fdef := &types.FileDef{ObjHeader: types.ObjHeader{Id: store.Store.GetUidString()}, User: w.users[op.U].uid.String(), MimeType: "application/octet-stream"}
		fdef.InitTimes()
		rd := &c16PausedReader{data: data, cut: op.N % len(data), verdict: make(chan error, 1)}
		rd.verdict <- errors.New("c16: connection lost")
		mh := store.Store.GetMediaHandler()
		if _, _, err := mh.Upload(fdef, rd); err == nil {
			return kit.V("upload:direct-did-not-fail", "op %d: the reader failed but the upload succeeded", i)
		}
		store.Files.FinishUpload(fdef, false, 0)
		r.cls["failed-upload"] = true
		// nothing of it may be left: checked by the directory / record comparison of the next audit
	case "upfault":
		// the store fails while the upload is recorded (1st call) or finalised (2nd call)
		method := []string{"FileStartUpload", "FileFinishUpload"}[op.N%2]
		data := c16Content(c16KBinary, 64+op.N%500, 90000+i)
		wr := c16NewWire("POST", "/v0/file/u/")
		wr.headers.Set("X-Tinode-APIKey", c16MustKey())
		wr.headers.Set("Authorization", r.token(op.U))
		wr.file, wr.fileName = data, "f"
		req, _ := wr.request()
		before := map[types.Uid]bool{}
		for _, row := range c16Rows() {
			before[row.ID] = true
		}
		mem.A.Arm(mem.Plan{FailNth: 1, FailMethod: method})
		rep, pan := c16Serve(largeFileReceive, req)
		mem.A.Disarm()
		if pan != nil {
			v := kit.V("upload:panic-on-store-failure:"+method, "op %d: the store failed in %s and the upload handler panicked: %v", i, method, pan)
			if r.tol(v) {
				// what the aborted request left behind is not modelled: the rest of the history is not judged
				r.cls["listed-finding:"+v.Sig] = true
				r.cutShort = true
				return nil
			}
			return v
		}
		if rep.code < 400 {
			return kit.V("upload:store-failure-answered-ok", "op %d: %s failed but the upload was answered %d %s", i, method, rep.code, c16Short(rep.body))
		}
		for _, row := range c16Rows() {
			if before[row.ID] {
				continue
			}
			if row.Status == types.UploadCompleted {
				return kit.V("upload:store-failure-left-completed-record", "op %d: %s failed, the upload was answered %d, yet record %s is 'completed'", i, method, rep.code, row.ID)
			}
			// an unfinished record: collectable like any unlisted upload, bytes must be gone (audited)
			r.m.files = append(r.m.files, &c16MFile{idx: len(r.m.files), url: r.e.serveURL + row.ID.String(), name: row.ID.String(), id: row.ID,
				at: types.TimeNow(), noBytes: true})
			r.cls["failed-finalisation:record-left-for-collection"] = true
		}
		r.cls["store-failure:"+method] = true
	case "pub":
		name, key, owner, ok := r.topicOf(op)
		if !ok || op.T == -1 {
			return nil
		}
		if op.T >= 0 {
			op.U = owner
		}
		if !r.attach(op.U, name) {
			return nil
		}
		extra, res := r.refsJSON(op.F)
		id := w.nextID()
		content := "c16 message " + fmt.Sprint(i)
		ss := r.session(op.U)
		fired := false
		if op.Fm != "" {
			// the store fails at one of the writes the publish makes (the first call of the method)
			mem.A.Arm(mem.Plan{FailNth: 1, FailMethod: op.Fm})
		}
		fr := w.do(ss, `{"pub":{"id":"`+id+`","topic":"`+name+`","noecho":true,"content":"`+content+`"}`+extra+`}`)
		if op.Fm != "" {
			mem.A.Disarm()
			if fired = mem.A.Fired; fired {
				r.cls["store-failure-at-publish:"+op.Fm] = true
			} else {
				r.cls["store-failure-at-publish:not-delivered"] = true
			}
		}
		c := wCtrl(fr, id)
		accepted := c != nil && c.Code >= 200 && c.Code < 300
		// Whatever the reply: a message which is in the store exists and lists its attachments; a publish
		// which was refused and stored nothing links nothing.
		storedSeq := 0
		for _, row := range mem.A.Snapshot().Msgs {
			if string(row.Content) == wJSON(content) {
				storedSeq = row.SeqId
			}
		}
		if !accepted && storedSeq == 0 {
			if fired {
				r.cls["store-failure-at-publish:refused,nothing-stored"] = true
			}
			return nil
		}
		seq := storedSeq
		if accepted {
			if p, ok := c.Params.(map[string]any); ok {
				if f, ok := p["seq"].(float64); ok && seq == 0 {
					seq = int(f)
				}
			}
			if seq == 0 {
				return kit.V("pub:no-seq", "op %d: accepted publish without a seq: %s", i, wJSON(c))
			}
		}
		if fired && storedSeq > 0 {
			if accepted {
				r.cls["store-failure-at-publish:accepted,message-stored"] = true
			} else {
				r.cls["store-failure-at-publish:refused,message-stored"] = true
			}
		}
		r.msgs[key] = append(r.msgs[key], seq)
		h := r.m.holder(fmt.Sprintf("msg:%s:%d", key, seq))
		if fired && op.Fm == "FileLinkAttachments" {
			// The write which fails is the link itself (the message row is written already): the server
			// logs it and accepts the publish (fix 681276e: refusing here re-issued the seq). Whether the
			// uploads of this message are then protected is not judged: they may or may not be kept.
			for _, x := range res {
				if x.file >= 0 {
					h.loose[x.file] = true
				}
				h.dangling = h.dangling || x.dangling
			}
			r.cls["store-failure-at-publish:FileLinkAttachments:the-link-write-itself-failed(not judged)"] = true
		} else {
			r.linkAll(h, res)
		}
		if len(h.strict) > 0 {
			r.cls["linked:message"] = true
			if fired {
				r.cls["store-failure-at-publish:"+op.Fm+":stored-message-lists-an-upload"] = true
			}
		}
	case "newgrp":
		extra, res := r.refsJSON(op.F)
		id := w.nextID()
		fr := w.do(r.session(op.U), `{"sub":{"id":"`+id+`","topic":"new","set":{"desc":{"public":{"fn":"c16 group `+fmt.Sprint(i)+`"}}}}`+extra+`}`)
		c := wCtrl(fr, id)
		if c == nil || c.Code < 200 || c.Code >= 300 || !strings.HasPrefix(c.Topic, "grp") {
			return nil
		}
		r.groups = append(r.groups, c16Group{name: c.Topic, owner: op.U})
		r.attached[fmt.Sprintf("%d:%s", op.U, c.Topic)] = true
		h := r.m.holder("topic:" + c.Topic)
		r.linkAvatar(h, res)
		if len(h.strict) > 0 {
			r.cls["linked:new-topic-avatar"] = true
		}
	case "setdesc":
		name, key, owner, ok := r.topicOf(op)
		if !ok || op.T == -2 {
			return nil
		}
		if op.T >= 0 {
			op.U = owner
		}
		if !r.attach(op.U, name) {
			return nil
		}
		extra, res := r.refsJSON(op.F)
		photo := ""
		if len(res) > 0 {
			photo = `,"photo":{"ref":` + wJSON(res[0].url) + `}`
		}
		id := w.nextID()
		if op.Fm != "" {
			mem.A.Arm(mem.Plan{FailNth: 1, FailMethod: op.Fm})
		}
		fr := w.do(r.session(op.U), `{"set":{"id":"`+id+`","topic":"`+name+`","desc":{"public":{"fn":"c16 v`+fmt.Sprint(i)+`"`+photo+`}}}`+extra+`}`)
		if op.Fm != "" {
			mem.A.Disarm()
			if mem.A.Fired {
				r.cls["store-failure-at-description-update:"+op.Fm] = true
			}
		}
		c := wCtrl(fr, id)
		if c == nil || c.Code != 200 {
			return nil
		}
		h := r.m.holder(key)
		r.linkAvatar(h, res)
		if len(h.strict) > 0 {
			if op.T == -1 {
				r.cls["linked:account-avatar-update"] = true
			} else {
				r.cls["linked:topic-avatar-update"] = true
			}
		}
	case "setpriv":
		name, key, owner, ok := r.topicOf(op)
		if !ok {
			return nil
		}
		who := "me"
		switch {
		case op.T >= 0 && op.N%2 == 1:
			// another subscriber of the group: attach subscribes (joins) the user if need be
			op.U, who = (owner+1)%len(w.users), "group-subscriber"
		case op.T >= 0:
			op.U, who = owner, "group-owner"
		case op.T == -2:
			who = "p2p"
		}
		if !r.attach(op.U, name) {
			return nil
		}
		extra, res := r.refsJSON(op.F)
		id := w.nextID()
		fr := w.do(r.session(op.U), `{"set":{"id":"`+id+`","topic":"`+name+`","desc":{"private":{"note":"c16 note `+fmt.Sprint(i)+`"}}}`+extra+`}`)
		c := wCtrl(fr, id)
		if c == nil || c.Code != 200 {
			return nil
		}
		// Model: the topic (user) shows the avatar it showed before; the list of a request which does
		// not change the description is no avatar: nothing is linked, nothing is unlinked.
		r.cls["private-only-update:"+who] = true
		names := false
		for _, x := range res {
			names = names || x.file >= 0
		}
		if h := r.m.holders[key]; names && h != nil && h.alive && len(h.strict) > 0 {
			r.cls["private-only-update:list-names-an-upload,holder-has-a-linked-avatar"] = true
		}
	case "acc":
		ss := w.addSess()
		if r.isGrpc(-1) {
			w.makeGrpc(ss)
			r.cls["transport:grpc"] = true
		}
		w.do(ss, `{"hi":{"id":"`+w.nextID()+`","ver":"0.22","ua":"verif/1.0"}}`)
		extra, res := r.refsJSON(op.F)
		id := w.nextID()
		fr := w.do(ss, `{"acc":{"id":"`+id+`","user":"new","scheme":"anonymous","login":true,"desc":{"public":{"fn":"c16 anon `+fmt.Sprint(i)+`"}}}`+extra+`}`)
		c := wCtrl(fr, id)
		if c == nil || c.Code < 200 || c.Code >= 300 {
			return nil
		}
		var uid types.Uid
		if p, ok := c.Params.(map[string]any); ok {
			if s, ok := p["user"].(string); ok {
				uid = types.ParseUserId(s)
			}
		}
		if uid.IsZero() {
			return kit.V("acc:no-user", "op %d: account created without a user id: %s", i, wJSON(c))
		}
		r.accs = append(r.accs, &c16Acc{ss: ss, uid: uid})
		h := r.m.holder("user:" + uid.String())
		r.linkAvatar(h, res)
		if len(h.strict) > 0 {
			r.cls["linked:new-account-avatar"] = true
		}
	case "delacc":
		var live []*c16Acc
		for _, a := range r.accs {
			if !a.dead && a.ss != nil && !a.ss.isClosed() {
				live = append(live, a)
			}
		}
		if len(live) == 0 {
			return nil
		}
		a := live[op.N%len(live)]
		id := w.nextID()
		fr := w.do(a.ss, `{"del":{"id":"`+id+`","what":"user","hard":true}}`)
		if wCtrlCode(fr, id) == 200 {
			a.dead = true
			r.m.holder("user:" + a.uid.String()).alive = false
			r.cls["deleted:account"] = true
		}
	case "delmsg":
		name, key, owner, ok := r.topicOf(op)
		if !ok || op.T == -1 || len(r.msgs[key]) == 0 {
			return nil
		}
		if op.T >= 0 {
			op.U = owner
		}
		if !r.attach(op.U, name) {
			return nil
		}
		seq := r.msgs[key][op.N%len(r.msgs[key])]
		id := w.nextID()
		fr := w.do(r.session(op.U), fmt.Sprintf(`{"del":{"id":"%s","topic":"%s","what":"msg","hard":%v,"delseq":[{"low":%d}]}}`, id, name, op.Hard, seq))
		// A user without the D permission (P2P participants) cannot hard-delete: the server silently
		// deletes for that user only and the message stays. Group owners hold D.
		if wCtrlCode(fr, id) == 200 && op.Hard && op.T >= 0 {
			r.m.holder(fmt.Sprintf("msg:%s:%d", key, seq)).alive = false
			r.cls["deleted:message-hard"] = true
		} else if wCtrlCode(fr, id) == 200 {
			r.cls["deleted:message-for-one-user"] = true
		}
	case "deltopic":
		if len(r.groups) == 0 {
			return nil
		}
		gi := ((op.T % len(r.groups)) + len(r.groups)) % len(r.groups)
		g := &r.groups[gi]
		if g.dead || !r.attach(g.owner, g.name) {
			return nil
		}
		id := w.nextID()
		fr := w.do(r.session(g.owner), fmt.Sprintf(`{"del":{"id":"%s","topic":"%s","what":"topic","hard":%v}}`, id, g.name, op.Hard))
		if wCtrlCode(fr, id) != 200 {
			return nil
		}
		g.dead = true
		for u := range w.users {
			delete(r.attached, fmt.Sprintf("%d:%s", u, g.name))
		}
		for _, k := range r.m.order {
			h := r.m.holders[k]
			if k == "topic:"+g.name || strings.HasPrefix(k, "msg:topic:"+g.name+":") {
				if op.Hard {
					h.alive = false
				} else {
					h.soft = true
				}
			}
		}
		if op.Hard {
			r.cls["deleted:topic-hard"] = true
		} else {
			r.cls["deleted:topic-soft(unspecified)"] = true
		}
	case "tick":
		d := time.Duration(1+((op.N%50)+50)%50) * time.Minute
		if r.ticked+d > 170*time.Minute {
			return nil
		}
		r.ticked += d
		r.sleep(d)
		if r.loop {
			t0 := r.lastObs
			r.lastObs = types.TimeNow()
			return r.observe(fmt.Sprintf("op %d (%v of virtual time with the collection loop running, block size %d)", i, d, r.h.Block), t0, true)
		}
	case "gc":
		return r.collect(i, r.h.Block)
	case "gcfail":
		return r.collectFailing(i, r.h.Block)
	}
	return nil
}

// sleep advances the virtual clock with no session connected (every live session costs a timer
// wake-up per 50 virtual milliseconds).
func (r *c16Run) sleep(d time.Duration) {
	r.dropSessions()
	time.Sleep(d)
	synctest.Wait()
}

// collect runs one garbage collection pass — the statement of largeFileRunGarbageCollection's
// loop body — and judges the outcome.
func (r *c16Run) collect(i int, block int) *kit.Viol {
	m := r.m
	now := time.Now()
	cutoff := types.TimeNow().Add(-time.Hour)
	var mustGo []*c16MFile
	for _, f := range m.files {
		if !f.gone && m.strictHeld(f.idx) == nil && !m.looseHeld(f.idx) && f.at.Before(cutoff) {
			mustGo = append(mustGo, f)
		}
	}
	if err := store.Files.DeleteUnused(now.Add(-time.Hour), block); err != nil {
		return kit.V("gc:error", "op %d: DeleteUnused: %v", i, err)
	}
	r.gcRuns++
	what := fmt.Sprintf("op %d (collection run, block size %d, cut-off %s)", i, block, cutoff.Format("15:04:05.000"))
	return r.judge(what, cutoff, mustGo, block, true)
}

// collectFailing runs one garbage collection pass whose store transaction fails at commit: the
// adapter hands back the locations it selected together with the error and keeps the records (what
// the SQL adapters' `return locations, tx.Commit()` does). A failed run removes nothing — every
// upload still has its record, its bytes and can be downloaded — and reports the error.
func (r *c16Run) collectFailing(i int, block int) *kit.Viol {
	m := r.m
	now := time.Now()
	cutoff := types.TimeNow().Add(-time.Hour)
	collectable := 0
	for _, f := range m.files {
		if !f.gone && !f.noBytes && m.strictHeld(f.idx) == nil && !m.looseHeld(f.idx) && f.at.Before(cutoff) {
			collectable++
		}
	}
	mem.A.Arm(mem.Plan{FailNth: 1, FailMethod: "FileDeleteUnused", AtCommit: true})
	err := store.Files.DeleteUnused(now.Add(-time.Hour), block)
	mem.A.Disarm()
	fired := mem.A.Fired
	what := fmt.Sprintf("op %d (collection run whose store transaction fails at commit, block size %d, cut-off %s, %d collectable upload(s))",
		i, block, cutoff.Format("15:04:05.000"), collectable)
	if !fired {
		return kit.V("gc:run-did-not-ask-the-store", "%s: DeleteUnused returned %v without calling the adapter's FileDeleteUnused", what, err)
	}
	if rem := r.missing(); len(rem) > 0 {
		return kit.V("gc:failed-run-removed-upload", "%s: the run failed (error reported: %v) yet the record of upload %s (%s) is gone", what, err, rem[0].id, rem[0].url)
	}
	if v := r.judge(what, cutoff, nil, 0, true); v != nil {
		if v.Sig == "gc:bytes-lost" || v.Sig == "gc:kept-file-not-served" || v.Sig == "gc:directory-differs" {
			v = kit.V("gc:failed-run-removed-bytes", "%s (error reported by the run: %v)", v.Msg, err)
		}
		return v
	}
	if err == nil {
		return kit.V("gc:failed-run-reported-no-error", "%s: the store failed but DeleteUnused returned nil", what)
	}
	r.gcRuns++
	r.cls["gc-failing-at-commit"] = true
	if collectable > 0 {
		r.cls["gc-failing-at-commit:with-collectable-uploads"] = true
	}
	return nil
}

// observe (loop mode): the server's own collection loop may have fired any number of times in
// the window (t0, now], during which the model did not change.
func (r *c16Run) observe(what string, t0 time.Time, full bool) *kit.Viol {
	m := r.m
	now := types.TimeNow()
	keepAfter := now.Add(-time.Hour)
	var mustGo []*c16MFile
	// the period of the loop is 0.75..1.25 of the configured one: a window of 1.25 periods has
	// seen a run no earlier than 1.25 periods before its end
	if worst := r.period + r.period/4; r.h.Block == 0 && now.Sub(t0) >= worst {
		sure := now.Add(-worst).Add(-time.Hour)
		for _, f := range m.files {
			if !f.gone && m.strictHeld(f.idx) == nil && !m.looseHeld(f.idx) && f.at.Before(sure) {
				mustGo = append(mustGo, f)
			}
		}
		r.cls["loop:window-with-a-certain-run"] = true
	}
	return r.judge(what, keepAfter, mustGo, 0, full)
}

func (r *c16Run) missing() []*c16MFile {
	rows := map[types.Uid]bool{}
	for _, row := range c16Rows() {
		rows[row.ID] = true
	}
	var removed []*c16MFile
	for _, f := range r.m.files {
		if !f.gone && !rows[f.id] {
			removed = append(removed, f)
		}
	}
	return removed
}

// judge compares what is gone with what the model allows and demands:
// no file listed by a living holder and no file completed after keepAfter is gone; every file of
// mustGo is gone (unless a block size stopped the run first); a removed file is gone from store,
// directory and download alike, a kept one is still all there.
func (r *c16Run) judge(what string, keepAfter time.Time, mustGo []*c16MFile, block int, full bool) *kit.Viol {
	m := r.m
	removed := r.missing()
	isIn := func(f *c16MFile, l []*c16MFile) bool {
		for _, x := range l {
			if x == f {
				return true
			}
		}
		return false
	}
	for _, f := range removed {
		var v *kit.Viol
		if h := m.strictHeld(f.idx); h != nil {
			sig := "gc:protected-file-removed:" + strings.SplitN(h.key, ":", 2)[0]
			if h.dangling {
				sig += ":list-names-a-missing-upload-too"
			}
			v = kit.V(sig, "%s: removed upload %s (%s) although %s, which still exists, lists it", what, f.id, f.url, h.key)
			// only the understood cause (a missing upload named in the same list) may be a listed finding
			if h.dangling && r.tol(v) {
				r.cls["listed-finding:"+v.Sig] = true
				continue
			}
			return v
		}
		if f.at.After(keepAfter) {
			return kit.V("gc:young-file-removed", "%s: removed upload %s completed at %s, within the grace period", what, f.id, f.at.Format("15:04:05.000"))
		}
	}
	if block > 0 && len(removed) > block {
		return kit.V("gc:block-size-exceeded", "%s: removed %d uploads", what, len(removed))
	}
	if block <= 0 || len(removed) < block {
		for _, f := range mustGo {
			if !isIn(f, removed) {
				return kit.V("gc:collectable-file-kept", "%s: upload %s (%s) completed at %s is listed by nothing that exists but was not removed", what, f.id, f.url, f.at.Format("15:04:05.000"))
			}
		}
	}
	if full || len(removed) > 0 {
		for _, f := range m.files {
			gone := f.gone || isIn(f, removed)
			_, statErr := os.Stat(filepath.Join(r.e.dir, f.id.String32()))
			rep, pan := r.get(f.url)
			if pan != nil {
				return kit.V("download:panic", "%s: GET %s panicked: %v", what, f.url, pan)
			}
			if gone || f.noBytes {
				if statErr == nil {
					return kit.V("gc:bytes-left-behind", "%s: upload %s was removed from the store (or never finalised) but its bytes are still in the upload directory", what, f.id)
				}
				if rep.code != 404 {
					return kit.V("gc:removed-file-served", "%s: GET %s of a removed (or never finalised) upload answered %d", what, f.url, rep.code)
				}
			} else {
				if statErr != nil {
					return kit.V("gc:bytes-lost", "%s: upload %s is still recorded but its bytes are gone: %v", what, f.id, statErr)
				}
				if rep.code != 200 || !bytes.Equal(rep.body, f.data) || rep.header.Get("Content-Type") != f.mime {
					return kit.V("gc:kept-file-not-served", "%s: GET %s of a kept upload answered %d type %q with %s", what, f.url, rep.code, rep.header.Get("Content-Type"), c16Short(rep.body))
				}
			}
		}
	}
	for _, f := range removed {
		f.gone = true
		r.collected++
		r.cls["collected"] = true
	}
	if full {
		for _, f := range m.files {
			if !f.gone && m.strictHeld(f.idx) != nil && f.at.Before(keepAfter) {
				r.keptLinked++
				r.cls["kept-because-listed"] = true
			}
		}
	}
	return r.audit(what)
}

// audit: the file table and the directory hold exactly the uploads the model knows as present.
func (r *c16Run) audit(what string) *kit.Viol {
	var want, wantBytes []string
	for _, f := range r.m.files {
		if !f.gone {
			want = append(want, f.id.String32())
			if !f.noBytes {
				wantBytes = append(wantBytes, f.id.String32())
			}
		}
	}
	sort.Strings(want)
	var inStore []string
	for _, row := range c16Rows() {
		inStore = append(inStore, row.ID.String32())
	}
	sort.Strings(inStore)
	if a, b := c16Diff(want, inStore); len(a)+len(b) > 0 {
		return kit.V("gc:file-table-differs", "%s: file records %v, expected %v", what, inStore, want)
	}
	have := r.e.dirList()
	if a, b := c16Diff(wantBytes, have); len(a)+len(b) > 0 {
		return kit.V("gc:directory-differs", "%s: upload directory holds %v, expected %v", what, have, wantBytes)
	}
	return nil
}

func c16HistExec(t *testing.T, h c16Hist, tol func(*kit.Viol) bool) (o kit.Outcome) {
	cls := map[string]bool{}
	defer func() { o.Classes = c16SortedKeys(cls) }()
	if len(h.Ops) == 0 {
		o.Skip = true
		return o
	}
	users := h.Users
	if users < 2 {
		users = 2
	}
	if users > 4 {
		users = 4
	}
	c16ProcessInit()
	e := &c16Env{}
	var viol *kit.Viol
	var run *c16Run
	fail := wInBubble(t, func() {
		w := wBoot(wConfig{Users: users})
		e.mediaOn("", 1<<16, time.Minute)
		run = &c16Run{w: w, e: e, m: &c16Model{holders: map[string]*c16Holder{}}, h: h, tol: tol, cls: cls,
			sess: map[int]*wSess{}, attached: map[string]bool{}, msgs: map[string][]int{}}
		if h.Loop {
			run.loop, run.period, run.lastObs = true, 10*time.Minute, types.TimeNow()
			stop := largeFileRunGarbageCollection(run.period, h.Block)
			defer func() { stop <- true }()
			cls["loop:server-collection-loop"] = true
		}
		for i, op := range h.Ops {
			op.U = ((op.U % users) + users) % users
			if op.N < 0 {
				op.N = -op.N
			}
			if run.loop {
				// whatever the loop removed since the last look happened under the current model state
				t0 := run.lastObs
				run.lastObs = types.TimeNow()
				if viol = run.observe(fmt.Sprintf("before op %d (collection loop, block size %d)", i, h.Block), t0, false); viol != nil {
					break
				}
			}
			if viol = run.step(i, op); viol != nil {
				break
			}
			if run.cutShort {
				break
			}
			if run.loop && len(run.missing()) > 0 {
				// the loop fired while the op was being processed: whether it saw the op's links is a
				// matter of scheduling; the rest of the history is not judged
				cls["loop:fired-inside-an-op(case cut short)"] = true
				run.cutShort = true
				break
			}
		}
		if viol == nil && !run.cutShort {
			viol = run.audit("end of history")
		}
		if viol == nil && !run.cutShort && !run.loop {
			// the closing run: everything unlisted is past the grace period now
			run.sleep(61 * time.Minute)
			if h.CloseFail {
				// first a run which fails at commit: it must leave everything for the next one
				viol = run.collectFailing(len(h.Ops), 0)
			}
			if viol == nil {
				viol = run.collect(len(h.Ops), 0)
			}
			if viol == nil {
				viol = run.collect(len(h.Ops)+1, 0)
			}
		}
		if viol == nil && !run.cutShort && run.loop {
			// 1 h of grace + 1.25 periods: a run has certainly seen every unlisted upload as collectable
			t0 := types.TimeNow()
			run.sleep(61*time.Minute + run.period + run.period/4)
			viol = run.observe(fmt.Sprintf("closing window (collection loop, block size %d)", h.Block), t0, true)
		}
		run.dropSessions()
		w.shutdown()
	})
	e.cleanDir()
	if fail != "" {
		o.Skip = true
		cls["bubble-failure"] = true
		fmt.Println("C16 bubble failure (not judged here):", strings.SplitN(fail, "\n", 2)[0])
		return o
	}
	o.Viol = viol
	o.NonTrivial = run != nil && run.keptLinked > 0 && run.collected > 0
	return o
}

func TestC16Links(t *testing.T) {
	r := kit.Begin("C16", "TestC16Links")
	defer r.Flush()
	kit.CheckRun(t, r, c16HistGen, func(h c16Hist) kit.Outcome {
		r.WAL(h)
		return c16HistExec(t, h, func(v *kit.Viol) bool { return r.IsKnown(v.Sig) && r.Violation(v, h) })
	})
}
