package main

// C16 unit 2 — downloads: round trip of every accepted upload (bytes, recorded type, forced
// attachment disposition for active content, byte ranges), uploads that failed or are still in
// flight, and generated hostile urls (other directories, traversal segments, absolute urls, odd
// characters, truncated / extended / altered ids, names of files on disk).

import (
	"bytes"
	"net/url"
	"errors"
	"fmt"
	"io"
	"path"
	"strings"
	"testing"
	"time"

	"github.com/tinode/chat/server/store"
	"github.com/tinode/chat/server/store/types"
	kit "github.com/tinode/chat/server/zzverifkit"
	"pgregory.net/rapid"
)

type c16DlUp struct {
	Kind     int `json:"kind"`
	Size     int `json:"size"`
	Seed     int `json:"seed"`
	ClientCT int `json:"client_ct"`
	Mode     int `json:"mode,omitempty"`  // 0 over HTTP, 1 fails midway, 2 in flight then completes, 3 in flight then fails
	Cut      int `json:"cut,omitempty"`   // bytes delivered before the failure / the pause
	Range    int `json:"range,omitempty"` // >0: also fetch a byte range
	AsAtt    int `json:"asatt,omitempty"`
}

type c16DlGet struct {
	Target int  `json:"target"`
	Prefix int  `json:"prefix"`
	Name   int  `json:"name"`
	Arg    int  `json:"arg"`
	Suffix int  `json:"suffix"`
	Query  int  `json:"query"`
	Head   bool `json:"head,omitempty"`
}

type c16DlCase struct {
	ServeURL int        `json:"serve_url"`
	Ups      []c16DlUp  `json:"ups"`
	Gets     []c16DlGet `json:"gets"`
}

const (
	c16NPrefix = 20
	c16NName   = 15
	c16NSuffix = 12
	c16NQuery  = 5
)

func c16DlGen(rt *rapid.T) c16DlCase {
	var c c16DlCase
	c.ServeURL = rapid.IntRange(0, len(c16ServeURLs)-1).Draw(rt, "serve_url")
	n := rapid.IntRange(1, 4).Draw(rt, "n_ups")
	for i := 0; i < n; i++ {
		u := c16DlUp{Kind: rapid.IntRange(0, c16KKinds-2).Draw(rt, "kind"), Seed: rapid.IntRange(0, 9999).Draw(rt, "seed"),
			ClientCT: rapid.IntRange(0, len(c16ClientTypes)-1).Draw(rt, "client_ct")}
		if rapid.Bool().Draw(rt, "short") {
			u.Size = rapid.IntRange(1, 511).Draw(rt, "size")
		} else {
			u.Size = rapid.IntRange(512, 3000).Draw(rt, "size")
		}
		if rapid.IntRange(0, 4).Draw(rt, "direct") == 0 {
			u.Mode = rapid.IntRange(1, 3).Draw(rt, "mode")
			u.Cut = rapid.IntRange(0, u.Size).Draw(rt, "cut")
		}
		if rapid.IntRange(0, 2).Draw(rt, "range_on") == 0 {
			u.Range = rapid.IntRange(1, 100000).Draw(rt, "range")
		}
		if rapid.IntRange(0, 3).Draw(rt, "asatt_on") == 0 {
			u.AsAtt = rapid.IntRange(1, 3).Draw(rt, "asatt")
		}
		c.Ups = append(c.Ups, u)
	}
	m := rapid.IntRange(1, 10).Draw(rt, "n_gets")
	for i := 0; i < m; i++ {
		g := c16DlGet{Target: rapid.IntRange(0, n-1).Draw(rt, "target"), Arg: rapid.IntRange(0, 999).Draw(rt, "arg"), Head: rapid.IntRange(0, 9).Draw(rt, "head") == 0}
		// most urls differ from the returned one in one place only
		switch rapid.IntRange(0, 3).Draw(rt, "vary") {
		case 0:
			g.Prefix = rapid.IntRange(0, c16NPrefix-1).Draw(rt, "prefix")
		case 1:
			g.Name = rapid.IntRange(0, c16NName-1).Draw(rt, "name")
		case 2:
			g.Suffix = rapid.IntRange(0, c16NSuffix-1).Draw(rt, "suffix")
			g.Query = rapid.IntRange(0, c16NQuery-1).Draw(rt, "query")
		default:
			g.Prefix = rapid.IntRange(0, c16NPrefix-1).Draw(rt, "prefix")
			g.Name = rapid.IntRange(0, c16NName-1).Draw(rt, "name")
			g.Suffix = rapid.IntRange(0, c16NSuffix-1).Draw(rt, "suffix")
			g.Query = rapid.IntRange(0, c16NQuery-1).Draw(rt, "query")
		}
		c.Gets = append(c.Gets, g)
	}
	return c
}

// c16PausedReader delivers data[:cut], then waits for the verdict: nil = deliver the rest, an
// error = fail with it.
type c16PausedReader struct {
	data    []byte
	pos     int
	cut     int
	reached chan struct{}
	verdict chan error
	passed  bool
}

func (r *c16PausedReader) Read(p []byte) (int, error) {
	if !r.passed && r.pos >= r.cut {
		r.passed = true
		if r.reached != nil {
			close(r.reached)
		}
		if err := <-r.verdict; err != nil {
			return 0, err
		}
	}
	if r.pos >= len(r.data) {
		return 0, io.EOF
	}
	end := len(r.data)
	if !r.passed && end > r.cut {
		end = r.cut
	}
	n := copy(p, r.data[r.pos:end])
	r.pos += n
	return n, nil
}

func (r *c16PausedReader) Seek(offset int64, whence int) (int64, error) {
	if whence == io.SeekStart && offset == 0 {
		r.pos = 0
		return 0, nil
	}
	return 0, errors.New("c16: unsupported seek")
}

type c16DlFile struct {
	up        c16DlUp
	data      []byte
	url       string
	id        types.Uid
	mime      string
	completed bool
}

func (e *c16Env) authorisedGet(method, target string, hdr map[string]string) (c16Reply, any, bool) {
	w := c16NewWire(method, target)
	w.headers.Set("X-Tinode-APIKey", c16MustKey())
	_, secret, _, _ := e.credential(c16CredSpec{Kind: c16CredToken}, time.Now())
	w.headers.Set("Authorization", "token "+secret)
	for k, v := range hdr {
		w.headers.Set(k, v)
	}
	req, _ := w.request()
	if req == nil {
		return c16Reply{}, nil, false
	}
	rep, pan := c16Serve(largeFileServe, req)
	return rep, pan, true
}

func c16MustKey() string {
	s, _ := c16KeyText(c16KeySpec{Kind: c16KeyValid})
	return s
}

// c16HostileURL builds the request target for one generated shape.
func c16HostileURL(e *c16Env, g c16DlGet, files []c16DlFile) (string, string) {
	t := files[((g.Target%len(files))+len(files))%len(files)]
	other := files[(((g.Target+1)%len(files))+len(files))%len(files)]
	id := t.id.String()
	s := e.serveURL
	last := path.Base(strings.TrimSuffix(s, "/"))
	const alpha = "ABCDEFGHIJKLMNOPQRSTUVWXYZabcdefghijklmnopqrstuvwxyz0123456789-_"
	var prefix, name, suffix, query string
	switch ((g.Prefix % c16NPrefix) + c16NPrefix) % c16NPrefix {
	case 0:
		prefix = s
	case 1:
		prefix = ""
	case 2:
		prefix = "/"
	case 3:
		prefix = "./"
	case 4:
		prefix = s + "../" + last + "/"
	case 5:
		prefix = s + "./"
	case 6:
		prefix = "/" + s
	case 7:
		prefix = s + "/"
	case 8:
		prefix = "/etc/"
	case 9:
		prefix = path.Dir(strings.TrimSuffix(s, "/")) + "/"
	case 10:
		prefix = s + "../../../../../../"
	case 11:
		prefix = e.dir + "/"
	case 12:
		prefix = "http://evil.example" + s
	case 13:
		prefix = "/x?y=/.." + s
	case 14:
		prefix = "/v0/file/u/"
	case 15:
		prefix = strings.ToUpper(s)
	case 16:
		prefix = s + "%2e%2e/" + last + "/"
	case 17:
		prefix = "/.." + s
	case 18:
		prefix = strings.TrimSuffix(s, "/")
	case 19:
		prefix = strings.ReplaceAll(s, "/", "\\")
	}
	switch ((g.Name % c16NName) + c16NName) % c16NName {
	case 0:
		name = id
	case 1:
		name = t.id.String32()
	case 2:
		name = id[:len(id)-1-g.Arg%(len(id)-1)]
	case 3:
		name = id + string(alpha[g.Arg%64])
	case 4:
		p := g.Arg % len(id)
		name = id[:p] + string(alpha[(strings.IndexByte(alpha, id[p])+1+g.Arg/16%62)%64]) + id[p+1:]
	case 5:
		if g.Arg%2 == 0 {
			name = strings.ToUpper(id)
		} else {
			name = strings.ToLower(id)
		}
	case 6:
		name = ""
	case 7:
		name = ".."
	case 8:
		name = "secret.txt"
	case 9:
		name = "../secret.txt"
	case 10:
		// another spelling of the last character (the unused low bits differ): the same 8 bytes or another id
		p := len(id) - 1
		name = id[:p] + string(alpha[(strings.IndexByte(alpha, id[p])^(1+g.Arg%3))%64])
	case 11:
		for i := 0; i < len(id); i++ {
			name += fmt.Sprintf("%%%02X", id[i])
		}
	case 12:
		name = id + "%00"
	case 13:
		name = id + "/" + other.id.String()
	case 14:
		name = types.Uid(0x1234567890abcdef + uint64(g.Arg)).String()
	}
	switch ((g.Suffix % c16NSuffix) + c16NSuffix) % c16NSuffix {
	case 1:
		suffix = ".jpg"
	case 2:
		suffix = ".html"
	case 3:
		suffix = "/"
	case 4:
		suffix = "/.."
	case 5:
		suffix = "/."
	case 6:
		suffix = "%00.png"
	case 7:
		suffix = ";x=1"
	case 8:
		suffix = "#frag"
	case 9:
		suffix = "."
	case 10:
		suffix = ".."
	case 11:
		suffix = "%20"
	}
	switch ((g.Query % c16NQuery) + c16NQuery) % c16NQuery {
	case 1:
		query = "?asatt=1"
	case 2:
		query = "?x=/../../etc/passwd"
	case 3:
		query = "?" + s + other.id.String()
	case 4:
		query = "?a=b&c=/"
	}
	if strings.Contains(prefix, "?") && query != "" {
		query = "&" + query[1:]
	}
	shape := fmt.Sprintf("p%d.n%d.s%d.q%d", ((g.Prefix%c16NPrefix)+c16NPrefix)%c16NPrefix, ((g.Name%c16NName)+c16NName)%c16NName,
		((g.Suffix%c16NSuffix)+c16NSuffix)%c16NSuffix, ((g.Query%c16NQuery)+c16NQuery)%c16NQuery)
	return prefix + name + suffix + query, shape
}

// c16Names is the reference reading of a download url: (text of the file id, true) when the url's
// path is the serve path followed by a file id and, optionally, a non-id character and more.
func c16Names(target, serveURL string) (string, bool) {
	u, err := url.ParseRequestURI(target)
	if err != nil {
		return "", false
	}
	p := u.EscapedPath()
	dir, base := path.Split(path.Clean(p))
	if dir != serveURL {
		return "", false
	}
	n := 0
	for n < len(base) && (base[n] == '-' || base[n] == '_' || (base[n] >= '0' && base[n] <= '9') || (base[n] >= 'a' && base[n] <= 'z') || (base[n] >= 'A' && base[n] <= 'Z')) {
		n++
	}
	if n == 0 {
		return "", false
	}
	return base[:n], true
}

func c16DlExec(c c16DlCase, tol func(*kit.Viol) bool) (o kit.Outcome) {
	cls := map[string]bool{}
	defer func() { o.Classes = c16SortedKeys(cls) }()
	if len(c.Ups) == 0 {
		o.Skip = true
		return o
	}
	e := c16Open(c16ServeURLs[((c.ServeURL%len(c16ServeURLs))+len(c16ServeURLs))%len(c16ServeURLs)], 1<<16, 0)
	defer e.close()
	mh := store.Store.GetMediaHandler()
	served, refused := 0, 0
	var files []c16DlFile

	// roundTrip fetches f.url with valid key and credentials and judges the reply.
	roundTrip := func(f *c16DlFile, what string) *kit.Viol {
		target := f.url
		asAtt := false
		switch f.up.AsAtt {
		case 1:
			target, asAtt = target+"?asatt=1", true
		case 2:
			target, asAtt = target+"?asatt=true", true
		case 3:
			target += "?asatt=false"
		}
		rep, pan, ok := e.authorisedGet("GET", target, nil)
		if !ok {
			return kit.V("download:returned-url-unparseable", "%s: the url %q returned by the upload is not a valid request target", what, target)
		}
		if pan != nil {
			return kit.V("download:panic", "%s: GET %s panicked: %v", what, target, pan)
		}
		st := c16Stored{url: f.url, id: f.id, data: f.data, mime: f.mime}
		if v := c16JudgeDownload(what, rep, &st, asAtt); v != nil {
			return v
		}
		served++
		fam := f.mime
		if i := strings.IndexAny(fam, ";"); i > 0 {
			fam = fam[:i]
		}
		cls["served:"+fam] = true
		if strings.HasPrefix(strings.ToLower(rep.header.Get("Content-Disposition")), "attachment") {
			cls["disposition:attachment"] = true
		} else {
			cls["disposition:inline"] = true
		}
		if c16Active(f.mime) && !strings.HasPrefix(f.mime, "text/") && !strings.HasPrefix(f.mime, "application/") {
			cls["active-type-outside-text-and-application"] = true
		}
		if f.up.Range > 0 && len(f.data) >= 2 {
			a := f.up.Range % len(f.data)
			b := a + (f.up.Range/7)%(len(f.data)-a)
			rep, pan, _ := e.authorisedGet("GET", f.url, map[string]string{"Range": fmt.Sprintf("bytes=%d-%d", a, b)})
			if pan != nil {
				return kit.V("download:panic", "%s: ranged GET %s panicked: %v", what, f.url, pan)
			}
			if rep.code != 206 || !bytes.Equal(rep.body, f.data[a:b+1]) || rep.header.Get("Content-Type") != f.mime {
				return kit.V("download:range", "%s: GET %s bytes=%d-%d answered %d type %q with %s, expected 206 type %q with %s",
					what, f.url, a, b, rep.code, rep.header.Get("Content-Type"), c16Short(rep.body), f.mime, c16Short(f.data[a:b+1]))
			}
			if c16Active(f.mime) && !strings.HasPrefix(strings.ToLower(rep.header.Get("Content-Disposition")), "attachment") {
				return kit.V("download:active-content-inline", "%s: ranged GET %s of type %q has Content-Disposition %q", what, f.url, f.mime, rep.header.Get("Content-Disposition"))
			}
			cls["range"] = true
		}
		return nil
	}
	// gone: nothing may be left of a failed upload.
	gone := func(f *c16DlFile, what string) *kit.Viol {
		for _, r := range c16Rows() {
			if r.ID == f.id {
				return kit.V("failed-upload:record-left", "%s: the failed upload %s still has a record (status %d)", what, f.id, r.Status)
			}
		}
		for _, n := range e.dirList() {
			if n == f.id.String32() {
				return kit.V("failed-upload:bytes-left", "%s: the failed upload %s left the file %s in the upload directory", what, f.id, n)
			}
		}
		rep, pan, _ := e.authorisedGet("GET", f.url, nil)
		if pan != nil {
			return kit.V("download:panic", "%s: GET %s panicked: %v", what, f.url, pan)
		}
		if rep.code != 404 {
			return kit.V("failed-upload:served", "%s: GET %s of a failed upload answered %d %s", what, f.url, rep.code, c16Short(rep.body))
		}
		refused++
		return nil
	}

	for i, u := range c.Ups {
		size := u.Size
		if size < 1 {
			size = 1
		}
		if size > 60000 {
			size = 60000
		}
		data := c16Content(u.Kind, size, u.Seed+i*10007)
		if len(data) == 0 {
			data = []byte("x")
		}
		clientCT := c16ClientTypes[((u.ClientCT%len(c16ClientTypes))+len(c16ClientTypes))%len(c16ClientTypes)]
		what := fmt.Sprintf("upload %d (%s, %d bytes, client type %q, mode %d)", i, c16KindNames[((u.Kind%c16KKinds)+c16KKinds)%c16KKinds], len(data), clientCT, u.Mode)
		f := c16DlFile{up: u, data: data}
		switch ((u.Mode % 4) + 4) % 4 {
		case 0:
			w := c16NewWire("POST", "/v0/file/u/")
			w.headers.Set("X-Tinode-APIKey", c16MustKey())
			_, secret, _, _ := e.credential(c16CredSpec{Kind: c16CredToken, User: i}, time.Now())
			w.headers.Set("Authorization", "token "+secret)
			w.file, w.fileName, w.fileType = data, "f", clientCT
			req, _ := w.request()
			rep, pan := c16Serve(largeFileReceive, req)
			if pan != nil {
				o.Viol = kit.V("download:panic", "%s: upload panicked: %v", what, pan)
				return o
			}
			if rep.code != 200 || rep.url() == "" {
				o.Viol = kit.V("gate:valid-upload-refused", "%s: a valid upload was answered %d %s", what, rep.code, c16Short(rep.body))
				return o
			}
			f.url = rep.url()
			f.id = mh.GetIdFromUrl(f.url)
			for _, r := range c16Rows() {
				if r.ID == f.id {
					f.mime = r.MimeType
					f.completed = r.Status == types.UploadCompleted
				}
			}
			if f.id.IsZero() || !f.completed {
				o.Viol = kit.V("gate:url-names-no-record", "%s: returned url %q names no completed record", what, f.url)
				return o
			}
			typA, typB := c16Sniff(data, clientCT, false), c16Sniff(data, clientCT, true)
			if typA != typB {
				cls["type:short-content-sniffed-with-zero-padding"] = true
			}
			if f.mime != typA && f.mime != typB {
				o.Viol = kit.V("upload:recorded-type", "%s: recorded type %q, the first 512 bytes sniff as %q (client type %q)", what, f.mime, typA, clientCT)
				return o
			}
			if o.Viol = roundTrip(&f, what); o.Viol != nil {
				return o
			}
		default:
			// the part of largeFileReceive after the form has been parsed, with a reader under the harness's control
			fdef := &types.FileDef{ObjHeader: types.ObjHeader{Id: store.Store.GetUidString()}, User: e.uids[0].String(), MimeType: c16Sniff(data, clientCT, true)}
			fdef.InitTimes()
			f.id = fdef.Uid()
			f.url = e.serveURL + fdef.Id
			f.mime = fdef.MimeType
			cut := ((u.Cut % (len(data) + 1)) + len(data) + 1) % (len(data) + 1)
			rd := &c16PausedReader{data: data, cut: cut, verdict: make(chan error, 1)}
			mode := ((u.Mode % 4) + 4) % 4
			if mode == 1 {
				rd.verdict <- errors.New("c16: connection lost")
			} else {
				rd.reached = make(chan struct{})
			}
			done := make(chan error, 1)
			go func() {
				_, size, err := mh.Upload(fdef, rd)
				if err != nil {
					store.Files.FinishUpload(fdef, false, 0)
					done <- err
					return
				}
				_, err = store.Files.FinishUpload(fdef, true, size)
				done <- err
			}()
			if mode != 1 {
				<-rd.reached
				// in flight: the record exists with status 'started', cut bytes are on disk
				rep, pan, _ := e.authorisedGet("GET", f.url, nil)
				if pan != nil {
					o.Viol = kit.V("download:panic", "%s: GET %s panicked: %v", what, f.url, pan)
					return o
				}
				if rep.code < 400 {
					v := kit.V("download:unfinished-upload-served", "%s: while the upload was in flight (%d of %d bytes written, record status 'started') GET %s answered %d with %s",
						what, cut, len(data), f.url, rep.code, c16Short(rep.body))
					if !tol(v) {
						rd.verdict <- errors.New("c16: aborted")
						<-done
						o.Viol = v
						return o
					}
					cls["listed-finding:download:unfinished-upload-served"] = true
				} else {
					refused++
					cls["in-flight:refused"] = true
				}
				if mode == 2 {
					rd.verdict <- nil
				} else {
					rd.verdict <- errors.New("c16: connection lost")
				}
			}
			err := <-done
			if mode == 2 {
				if err != nil {
					o.Viol = kit.V("upload:direct-failed", "%s: %v", what, err)
					return o
				}
				f.completed = true
				if o.Viol = roundTrip(&f, what); o.Viol != nil {
					return o
				}
				cls["in-flight:then-completed"] = true
			} else {
				if err == nil {
					o.Viol = kit.V("upload:direct-did-not-fail", "%s: the reader failed but the upload succeeded", what)
					return o
				}
				if o.Viol = gone(&f, what); o.Viol != nil {
					return o
				}
				cls["failed-upload"] = true
			}
		}
		files = append(files, f)
	}

	// nothing but the completed uploads is in the store and the directory
	var want []string
	for _, f := range files {
		if f.completed {
			want = append(want, f.id.String32())
		}
	}
	have := e.dirList()
	if add, rem := c16Diff(want, have); len(add) > 0 || len(rem) > 0 {
		o.Viol = kit.V("upload:directory-differs", "upload directory holds %v, completed uploads are %v", have, want)
		return o
	}

	for i, g := range c.Gets {
		target, shape := c16HostileURL(e, g, files)
		method := "GET"
		if g.Head {
			method = "HEAD"
		}
		what := fmt.Sprintf("request %d (%s %q, shape %s)", i, method, target, shape)
		rowsBefore, dirBefore := c16FileRows(), e.dirList()
		rep, pan, ok := e.authorisedGet(method, target, nil)
		if !ok {
			cls["url:not-a-request-target"] = true
			continue
		}
		if pan != nil {
			o.Viol = kit.V("download:panic", "%s: panicked: %v", what, pan)
			return o
		}
		if a, r := c16Diff(rowsBefore, c16FileRows()); len(a)+len(r) > 0 {
			o.Viol = kit.V("download:changed-records", "%s: changed the file records: +%v -%v", what, a, r)
			return o
		}
		if a, r := c16Diff(dirBefore, e.dirList()); len(a)+len(r) > 0 {
			o.Viol = kit.V("download:changed-directory", "%s: changed the upload directory: +%v -%v", what, a, r)
			return o
		}
		if bytes.Contains(rep.body, e.marker) {
			o.Viol = kit.V("download:served-outside-file", "%s: answered %d with the content of a file outside the upload directory", what, rep.code)
			return o
		}
		if g.Head {
			// HEAD is answered before the url is looked at
			if rep.code != 200 || len(rep.body) != 0 {
				o.Viol = kit.V("gate:head-reply", "%s: answered %d with %d body bytes", what, rep.code, len(rep.body))
				return o
			}
			continue
		}
		switch {
		case rep.code == 200:
			// several uploads of one case may hold the same (very short) bytes: any of them may be the one named
			var hit, sameBytes *c16DlFile
			ct := rep.header.Get("Content-Type")
			for k := range files {
				if files[k].completed && bytes.Equal(files[k].data, rep.body) {
					sameBytes = &files[k]
					if files[k].mime == ct {
						hit = &files[k]
					}
				}
			}
			if sameBytes == nil {
				o.Viol = kit.V("download:served-something-else", "%s: answered 200 with %s, which is not a completed upload", what, c16Short(rep.body))
				return o
			}
			if hit == nil {
				o.Viol = kit.V("download:type-differs", "%s: served upload %s with Content-Type %q, recorded %q", what, sameBytes.id, ct, sameBytes.mime)
				return o
			}
			// Which upload does the url name? Reference: the path of the url (query aside), lexically
			// cleaned, must be <serve path><id>[<non-id character>...]; anything else names nothing.
			idText, named := c16Names(target, e.serveURL)
			if i := strings.Index(target, "?"); i >= 0 && strings.Contains(target[i:], "/") {
				// a '/' in the query: whether the query takes part in the resolution is not specified
				cls["odd-url:slash-in-query(unspecified)"] = true
			} else {
				if !named {
					o.Viol = kit.V("download:served-for-url-outside-serve-path", "%s: served upload %s although the url is not <%s><file id>...", what, hit.id, e.serveURL)
					return o
				}
				ok := false
				for k := range files {
					if files[k].completed && bytes.Equal(files[k].data, rep.body) && files[k].mime == ct && types.ParseUid(idText) == files[k].id {
						ok = true
					}
				}
				if !ok {
					o.Viol = kit.V("download:served-another-upload", "%s: the url names %q but upload %s was served", what, idText, hit.id)
					return o
				}
			}
			if c16Active(ct) && !strings.HasPrefix(strings.ToLower(rep.header.Get("Content-Disposition")), "attachment") {
				o.Viol = kit.V("download:active-content-inline", "%s: served %q with Content-Disposition %q", what, ct, rep.header.Get("Content-Disposition"))
				return o
			}
			served++
			cls["odd-url:served-a-completed-upload"] = true
		case rep.code == 404 || rep.code == 400:
			if rep.ctrl == nil {
				o.Viol = kit.V("download:refusal-without-ctrl", "%s: answered %d with %s", what, rep.code, c16Short(rep.body))
				return o
			}
			for k := range files {
				if len(files[k].data) >= 8 && bytes.Contains(rep.body, files[k].data) {
					o.Viol = kit.V("gate:bytes-in-refusal", "%s: answered %d yet carries the bytes of %s", what, rep.code, files[k].url)
					return o
				}
			}
			refused++
			cls["odd-url:refused"] = true
		default:
			o.Viol = kit.V(fmt.Sprintf("download:odd-url-status:%d", rep.code), "%s: answered %d %s", what, rep.code, c16Short(rep.body))
			return o
		}
	}
	o.NonTrivial = served > 0 && refused > 0
	return o
}

func TestC16Download(t *testing.T) {
	r := kit.Begin("C16", "TestC16Download")
	defer r.Flush()
	kit.CheckRun(t, r, c16DlGen, func(c c16DlCase) kit.Outcome {
		return c16DlExec(c, func(v *kit.Viol) bool { return r.IsKnown(v.Sig) && r.Violation(v, c) })
	})
}
