package main

// C16 unit 1 — the HTTP gate of the upload and download endpoints.
//
// A case is a small sequence of requests against one booted store: every request has a generated
// method, API key (kind x placement), credentials (kind x placement, optionally a second
// credential at a lower-priority placement), body (content kind, size around the limit, multipart
// with / without file part, non-multipart) and, for downloads, the url of an earlier accepted
// upload. The reference model decides from the request alone whether it must be accepted; the
// oracle compares status, reply and — through the store snapshot and the directory listing — the
// effects.
//
// Per case the configured media handler is either fs or the harness's redirecting handler
// ("vredir", c16_env_test.go), which answers downloads with 307 + Location the way the s3 handler
// does: a request that must be refused is never answered with a redirect or any Location; an
// authorised GET / HEAD of an upload gets the 307 with the location of that upload.

import (
	"bytes"
	"fmt"
	"os"
	"path/filepath"
	"strings"
	"testing"
	"time"

	"github.com/tinode/chat/server/store"
	"github.com/tinode/chat/server/store/types"
	kit "github.com/tinode/chat/server/zzverifkit"
	mem "github.com/tinode/chat/server/zzverifmem"
	"pgregory.net/rapid"
)

type c16GateReq struct {
	Up       bool         `json:"up"`
	Method   string       `json:"method"`
	Key      c16KeySpec   `json:"key"`
	KeyDecoy bool         `json:"key_decoy,omitempty"` // a refused key at a lower-priority placement
	Cred     c16CredSpec  `json:"cred"`
	Decoy    *c16CredSpec `json:"decoy,omitempty"` // second credential (used only if at lower priority)
	NewAcc   int          `json:"newacc,omitempty"` // 1: topic=newacc in the query, 2: in the form
	Kind     int          `json:"kind"`
	SizeMode int          `json:"size_mode"`
	Delta    int          `json:"delta"`
	Seed     int          `json:"seed"`
	ClientCT int          `json:"client_ct"`
	BodyKind int          `json:"body_kind,omitempty"` // 0 multipart+file, 1 multipart without file part, 2 not multipart
	MsgID    bool         `json:"msg_id,omitempty"`
	Target   int          `json:"target,omitempty"`
	AsAtt    int          `json:"asatt,omitempty"`
}

type c16GateCase struct {
	MaxSize  int          `json:"max_size"` // 0 = no limit
	ServeURL int          `json:"serve_url"`
	Gc       bool         `json:"gc"`
	Handler  int          `json:"handler,omitempty"` // 0: fs; 1: "vredir", which answers downloads with 307 + Location (as the s3 handler does)
	Reqs     []c16GateReq `json:"reqs"`
}

var c16ServeURLs = []string{"", "/files/", "/v0/file/s/", "/m/e/d/i/a/"}
var c16Methods = []string{"GET", "HEAD", "POST", "PUT", "DELETE", "PATCH", "OPTIONS", "TRACE", "CONNECT", "get", "post", "PROPFIND"}

func c16GenKey(rt *rapid.T) c16KeySpec {
	k := c16KeySpec{Place: rapid.IntRange(0, 3).Draw(rt, "key_place")}
	if rapid.IntRange(0, 9).Draw(rt, "key_ok") < 7 {
		k.Kind = rapid.SampledFrom([]int{c16KeyValid, c16KeyValid, c16KeyValid, c16KeyValidRoot}).Draw(rt, "key_kind")
	} else {
		k.Kind = rapid.SampledFrom([]int{c16KeyAbsent, c16KeyBitFlip, c16KeyAltSalt, c16KeyTruncated, c16KeyGarbage}).Draw(rt, "key_kind")
		k.Bit = rapid.IntRange(0, 191).Draw(rt, "key_bit")
	}
	return k
}

var c16ValidCreds = []int{c16CredToken, c16CredToken, c16CredToken, c16CredBasic, c16CredSidLive, c16CredTokenAnon, c16CredTokenUpper}
var c16InvalidCreds = []int{c16CredAbsent, c16CredTokenBadSig, c16CredTokenExpired, c16CredTokenOtherKey, c16CredTokenShort, c16CredNotBase64,
	c16CredUnknownScheme, c16CredBasicWrong, c16CredSidNoLogin, c16CredSidUnknown, c16CredTokenSerial}

func c16GenCred(rt *rapid.T, pValid int) c16CredSpec {
	c := c16CredSpec{Place: rapid.IntRange(0, c16CredPlaces-1).Draw(rt, "cred_place"), User: rapid.IntRange(0, 1).Draw(rt, "cred_user")}
	if rapid.IntRange(0, 99).Draw(rt, "cred_ok") < pValid {
		c.Kind = rapid.SampledFrom(c16ValidCreds).Draw(rt, "cred_kind")
	} else {
		c.Kind = rapid.SampledFrom(c16InvalidCreds).Draw(rt, "cred_kind")
		c.Bit = rapid.IntRange(0, 399).Draw(rt, "cred_bit")
	}
	return c
}

func c16GateGen(rt *rapid.T) c16GateCase {
	var c c16GateCase
	if rapid.IntRange(0, 7).Draw(rt, "unlimited") == 0 {
		c.MaxSize = 0
	} else {
		c.MaxSize = rapid.IntRange(700, 3000).Draw(rt, "max_size")
	}
	c.ServeURL = rapid.IntRange(0, len(c16ServeURLs)-1).Draw(rt, "serve_url")
	c.Gc = rapid.Bool().Draw(rt, "gc")
	if rapid.IntRange(0, 2).Draw(rt, "handler") == 0 {
		c.Handler = 1
	}
	n := rapid.IntRange(2, 7).Draw(rt, "n_reqs")
	for i := 0; i < n; i++ {
		var r c16GateReq
		r.Up = i == 0 || rapid.IntRange(0, 9).Draw(rt, "up") < 6
		if r.Up {
			r.Method = rapid.SampledFrom([]string{"POST", "POST", "POST", "POST", "POST", "PUT", "PUT", "HEAD"}).Draw(rt, "method")
		} else {
			r.Method = rapid.SampledFrom([]string{"GET", "GET", "GET", "GET", "GET", "GET", "HEAD"}).Draw(rt, "method")
		}
		if rapid.IntRange(0, 7).Draw(rt, "odd_method") == 0 {
			r.Method = rapid.SampledFrom(c16Methods).Draw(rt, "method_any")
		}
		r.Key = c16GenKey(rt)
		r.KeyDecoy = rapid.IntRange(0, 5).Draw(rt, "key_decoy") == 0
		r.Cred = c16GenCred(rt, 70)
		if rapid.IntRange(0, 4).Draw(rt, "decoy") == 0 {
			d := c16GenCred(rt, 40)
			r.Decoy = &d
		}
		if rapid.IntRange(0, 9).Draw(rt, "newacc") == 0 {
			r.NewAcc = rapid.IntRange(1, 2).Draw(rt, "newacc_place")
		}
		r.Kind = rapid.IntRange(0, c16KKinds-1).Draw(rt, "kind")
		if r.Kind == c16KEmpty && rapid.Bool().Draw(rt, "less_empty") {
			r.Kind = c16KText
		}
		r.SizeMode = rapid.SampledFrom([]int{0, 0, 0, 0, 1, 1, 2, 3}).Draw(rt, "size_mode")
		r.Delta = rapid.IntRange(-2, 2).Draw(rt, "delta")
		r.Seed = rapid.IntRange(0, 9999).Draw(rt, "seed")
		r.ClientCT = rapid.IntRange(0, len(c16ClientTypes)-1).Draw(rt, "client_ct")
		if rapid.IntRange(0, 11).Draw(rt, "odd_body") == 0 {
			r.BodyKind = rapid.IntRange(1, 2).Draw(rt, "body_kind")
		}
		r.MsgID = rapid.Bool().Draw(rt, "msg_id")
		r.Target = rapid.IntRange(0, 5).Draw(rt, "target")
		if rapid.IntRange(0, 3).Draw(rt, "asatt_on") == 0 {
			r.AsAtt = rapid.IntRange(1, 3).Draw(rt, "asatt")
		}
		c.Reqs = append(c.Reqs, r)
	}
	return c
}

type c16Stored struct {
	url  string
	id   types.Uid
	data []byte
	mime string
	at   time.Time
}

// c16Plan is what the model says about one request.
type c16Plan struct {
	options  bool
	reasons  []string // reasons to refuse
	codes    map[int]bool
	gray     bool // refusing for size is allowed but not required
	headOnly bool
	uid      types.Uid
}

func (p *c16Plan) refuse(reason string, codes ...int) {
	p.reasons = append(p.reasons, reason)
	if p.codes == nil {
		p.codes = map[int]bool{}
	}
	for _, c := range codes {
		p.codes[c] = true
	}
}

// c16Effective: which credential does the request carry, by the documented order of placements?
func c16Effective(e *c16Env, main c16CredSpec, decoy *c16CredSpec, formOK bool, now time.Time) (class int, uid types.Uid, label string) {
	specs := []c16CredSpec{main}
	if decoy != nil {
		specs = append(specs, *decoy)
	}
	best := -1
	bestRank := 1 << 30
	for i, s := range specs {
		if s.kind() == c16CredAbsent {
			continue
		}
		rank := 0
		if s.isSid() {
			if s.Place%2 != 0 && !formOK {
				continue
			}
			rank = 100 + i
		} else {
			if s.place() == c16CredForm && !formOK {
				continue
			}
			rank = s.place()*2 + i
		}
		if rank < bestRank {
			best, bestRank = i, rank
		}
	}
	if best < 0 {
		return c16AuthNone, types.ZeroUid, "none"
	}
	_, _, class, uid = e.credential(specs[best], now)
	return class, uid, fmt.Sprintf("kind%d", specs[best].kind())
}

func c16GateExec(c c16GateCase, tol func(*kit.Viol) bool) (o kit.Outcome) {
	cls := map[string]bool{}
	defer func() { o.Classes = c16SortedKeys(cls) }()
	if len(c.Reqs) == 0 {
		o.Skip = true
		return o
	}
	var gcp time.Duration
	if c.Gc {
		gcp = time.Minute
	}
	limit := int64(c.MaxSize)
	if limit < 0 {
		limit = 0
	}
	e := c16Open(c16ServeURLs[((c.ServeURL%len(c16ServeURLs))+len(c16ServeURLs))%len(c16ServeURLs)], limit, gcp)
	defer e.close()
	redirect := c.Handler%2 != 0
	hname := "fs"
	if redirect {
		hname = c16RedirName
		e.useRedirect()
		cls["handler:redirecting"] = true
	} else {
		cls["handler:fs"] = true
	}

	var stored []c16Stored
	accepted, refused := 0, 0

	for i, r := range c.Reqs {
		now := time.Now()
		keyText, keyValid := c16KeyText(r.Key)
		method, secret, _, _ := e.credential(r.Cred, now)

		// ---- build the request
		var w *c16Wire
		var data []byte
		var target *c16Stored
		clientCT := c16ClientTypes[((r.ClientCT%len(c16ClientTypes))+len(c16ClientTypes))%len(c16ClientTypes)]
		build := func(fileSize int) *c16Wire {
			var w *c16Wire
			if r.Up {
				w = c16NewWire(r.Method, "/v0/file/u/")
			} else {
				path := e.serveURL + "AAAAAAAAAAE.bin"
				if len(stored) > 0 {
					target = &stored[((r.Target%len(stored))+len(stored))%len(stored)]
					path = target.url
				}
				w = c16NewWire(r.Method, path)
				switch r.AsAtt {
				case 1:
					w.query.Set("asatt", "1")
				case 2:
					w.query.Set("asatt", "true")
				case 3:
					w.query.Set("asatt", "0")
				}
			}
			w.putKey(keyText, r.Key.Place)
			if r.KeyDecoy && keyValid && r.Key.Place%4 < c16KeyCookie {
				w.putKey("AQAAAAABAAD_rAp4DJh05a1HAwFT3A6K", c16KeyCookie)
			}
			w.putCred(r.Cred, method, secret)
			if r.Decoy != nil {
				// a second credential never shares a placement with the first
				d := *r.Decoy
				same := (!d.isSid() && !r.Cred.isSid() && d.place() == r.Cred.place()) || (d.isSid() && r.Cred.isSid())
				if !same && d.kind() != c16CredAbsent {
					dm, ds, _, _ := e.credential(d, now)
					w.putCred(d, dm, ds)
				}
			}
			switch r.NewAcc {
			case 1:
				w.query.Set("topic", "newacc")
			case 2:
				w.fields = append(w.fields, [2]string{"topic", "newacc"})
				w.wantBody = true
			}
			if r.Up {
				if r.MsgID {
					w.fields = append(w.fields, [2]string{"id", fmt.Sprintf("c16req%d", i)})
				}
				switch r.BodyKind {
				case 1:
					w.wantBody = true
				case 2:
					w.raw = c16Content(r.Kind, fileSize, r.Seed+i*10007)
				default:
					data = c16Content(r.Kind, fileSize, r.Seed+i*10007)
					w.file = data
					w.fileName = "upload-" + c16KindNames[((r.Kind%c16KKinds)+c16KKinds)%c16KKinds]
					w.fileType = clientCT
				}
			}
			return w
		}
		// decoys which would share a placement are dropped from the model too
		var decoy *c16CredSpec
		if r.Decoy != nil {
			d := *r.Decoy
			same := (!d.isSid() && !r.Cred.isSid() && d.place() == r.Cred.place()) || (d.isSid() && r.Cred.isSid())
			if !same && d.kind() != c16CredAbsent {
				decoy = &d
			}
		}

		fileSize := 1 + ((r.Seed%600)+600)%600
		if r.Up {
			base := limit
			if base == 0 {
				base = 2048
			}
			w0 := build(0)
			_, overhead := w0.request()
			switch ((r.SizeMode % 4) + 4) % 4 {
			case 1:
				fileSize = int(base) - overhead + r.Delta
			case 2:
				fileSize = int(base) + r.Delta
			case 3:
				fileSize = 2*int(base) + ((r.Seed%100)+100)%100
			}
			if fileSize < 1 {
				fileSize = 1
			}
			if ((r.Kind%c16KKinds)+c16KKinds)%c16KKinds == c16KEmpty {
				fileSize = 0
			}
		}
		w = build(fileSize)
		req, bodyLen := w.request()
		if req == nil {
			cls["skipped:url-does-not-parse"] = true
			continue
		}
		hasForm := w.raw == nil && (w.file != nil || w.wantBody)
		formOK := hasForm && (!r.Up || limit == 0 || int64(bodyLen) <= limit)

		// ---- the model
		var plan c16Plan
		implemented := map[string]bool{"GET": !r.Up, "HEAD": true, "POST": r.Up, "PUT": r.Up}
		if r.Method == "OPTIONS" {
			plan.options = true
		} else {
			if !implemented[r.Method] {
				plan.refuse("method", 405)
			}
			keyOK := keyValid && (r.Key.Place%4 != c16KeyForm || formOK)
			if !keyOK {
				plan.refuse("key", 403)
			}
			class, uid, _ := c16Effective(e, r.Cred, decoy, formOK, now)
			plan.uid = uid
			newacc := r.Up && (r.NewAcc == 1 || (r.NewAcc == 2 && formOK))
			switch class {
			case c16AuthError:
				plan.refuse("cred-invalid", 400, 401)
			case c16AuthNone:
				if !newacc {
					plan.refuse("cred-none", 401)
				} else {
					cls["carve-out:newacc-upload-without-credentials"] = true
				}
			}
			if r.Method == "HEAD" && !r.Up && redirect {
				// the redirecting handler looks the file up for HEAD too
				if target == nil {
					plan.refuse("unknown-file", 404)
				}
			} else if r.Method == "HEAD" {
				plan.headOnly = true
			} else if r.Up {
				if limit > 0 && int64(bodyLen) > limit {
					if w.file != nil && int64(len(w.file)) <= limit {
						plan.gray = true
					} else {
						plan.refuse("too-large", 413)
					}
				}
				if w.raw != nil {
					plan.refuse("not-multipart", 400)
				} else if w.file == nil {
					plan.refuse("no-file-part", 400)
				}
			} else if target == nil {
				plan.refuse("unknown-file", 404)
			}
		}

		// ---- run
		rowsBefore, dirBefore := c16FileRows(), e.dirList()
		handler := largeFileServe
		if r.Up {
			handler = largeFileReceive
		}
		rep, pan := c16Serve(handler, req)
		rowsAfter, dirAfter := c16FileRows(), e.dirList()
		addedRows, removedRows := c16Diff(rowsBefore, rowsAfter)
		addedFiles, removedFiles := c16Diff(dirBefore, dirAfter)
		what := fmt.Sprintf("request %d (%s %s, key kind %d at %d, cred kind %d at %d, body %d bytes, limit %d, media handler %s)", i, r.Method, req.RequestURI,
			r.Key.Kind, r.Key.Place%4, r.Cred.kind(), r.Cred.place(), bodyLen, limit, hname)
		if pan != nil {
			o.Viol = kit.V("gate:panic", "%s: handler panicked: %v", what, pan)
			return o
		}
		if len(removedRows) > 0 || len(removedFiles) > 0 {
			o.Viol = kit.V("gate:request-removed-something", "%s: removed rows %v / files %v", what, removedRows, removedFiles)
			return o
		}
		noEffect := func(kind string) *kit.Viol {
			if len(addedRows) > 0 || len(addedFiles) > 0 {
				return kit.V("gate:effect-of-"+kind, "%s: answered %d but left %d new file record(s) %v and %d new file(s) %v in the upload directory",
					what, rep.code, len(addedRows), addedRows, len(addedFiles), addedFiles)
			}
			return nil
		}
		leak := func() *kit.Viol {
			for _, s := range stored {
				if len(s.data) >= 8 && bytes.Contains(rep.body, s.data) {
					return kit.V("gate:bytes-in-refusal", "%s: answered %d yet the reply carries the bytes of %s", what, rep.code, s.url)
				}
			}
			// where the bytes can be fetched from is as good as the bytes
			if loc := rep.header.Get("Location"); loc != "" || bytes.Contains(rep.body, []byte(c16RedirBase)) {
				return kit.V("gate:location-in-refusal", "%s: answered %d yet the reply names a location (Location: %q, body %s)", what, rep.code, loc, c16Short(rep.body))
			}
			return nil
		}

		if plan.options {
			cls["options"] = true
			if rep.code != 204 && rep.code != 200 {
				o.Viol = kit.V("gate:options-status", "%s: preflight answered %d", what, rep.code)
				return o
			}
			if o.Viol = noEffect("preflight"); o.Viol != nil {
				return o
			}
			if o.Viol = leak(); o.Viol != nil {
				return o
			}
			continue
		}

		mustRefuse := len(plan.reasons) > 0
		if !mustRefuse && plan.gray {
			plan.reasons = []string{"size-of-body"}
		}
		isRefusal := rep.code >= 400
		if mustRefuse || (plan.gray && isRefusal && rep.code == 413) {
			if !isRefusal {
				sig := "gate:accepted:" + plan.reasons[0]
				if loc := rep.header.Get("Location"); loc != "" || (rep.code >= 300 && rep.code < 400) {
					sig = "gate:redirected:" + plan.reasons[0]
				}
				o.Viol = kit.V(sig, "%s: must be refused (%s) but was answered %d (Location %q) %s",
					what, strings.Join(plan.reasons, ","), rep.code, rep.header.Get("Location"), c16Short(rep.body))
				if v := noEffect("wrongly-accepted-request"); v != nil {
					o.Viol.Msg += "; " + v.Msg
				}
				return o
			}
			if o.Viol = noEffect("refused-request"); o.Viol != nil {
				return o
			}
			if o.Viol = leak(); o.Viol != nil {
				return o
			}
			okCode := plan.codes[rep.code] || (plan.gray && rep.code == 413)
			if !okCode {
				o.Viol = kit.V(fmt.Sprintf("gate:refusal-code:%s:%d", plan.reasons[0], rep.code), "%s: refused for %s with %d, expected one of %v",
					what, strings.Join(plan.reasons, ","), rep.code, plan.codes)
				return o
			}
			if rep.ctrl == nil {
				o.Viol = kit.V("gate:refusal-without-ctrl", "%s: refused with %d but no {ctrl} body: %s", what, rep.code, c16Short(rep.body))
				return o
			}
			refused++
			cls["refused:"+plan.reasons[0]] = true
			if plan.gray {
				cls["size:file-fits-body-does-not(refused)"] = true
			}
			if r.Key.Place%4 == c16KeyForm && r.Up && !formOK && keyValid {
				cls["form-key-unreadable-in-oversized-body"] = true
			}
			continue
		}

		// Valid key, valid credentials, implemented method, within the limit. The statement is
		// one-directional ("act only on ..."): a refusal is tolerated when it is clean (no effect); it is
		// reported under a weaker signature of its own, except for the empty file, which the upload
		// handler does not take (counted).
		if isRefusal {
			if ve := noEffect("refused-request"); ve != nil {
				o.Viol = ve
				return o
			}
			if ve := leak(); ve != nil {
				o.Viol = ve
				return o
			}
			if r.Up && w.file != nil && len(w.file) == 0 {
				cls[fmt.Sprintf("empty-file-refused:%d", rep.code)] = true
				refused++
				continue
			}
			sig := "gate:valid-upload-refused"
			if !r.Up {
				sig = "gate:valid-download-refused"
			}
			v := kit.V(sig, "%s: carries a valid key and valid credentials, an implemented method and fits the limit, but was answered %d %s",
				what, rep.code, c16Short(rep.body))
			if tol(v) {
				cls["listed-finding:"+sig] = true
				refused++
				continue
			}
			o.Viol = v
			return o
		}
		if redirect && !r.Up {
			// valid key, valid credentials, GET or HEAD of an existing upload: the handler's redirect is passed on
			want := c16RedirLocation(target.id)
			if rep.code != 307 || rep.header.Get("Location") != want {
				o.Viol = kit.V("gate:redirect-reply", "%s: authorised download through the redirecting handler answered %d Location %q %s, expected 307 Location %q",
					what, rep.code, rep.header.Get("Location"), c16Short(rep.body), want)
				return o
			}
			if r.Method == "HEAD" && len(rep.body) != 0 {
				o.Viol = kit.V("gate:head-reply", "%s: HEAD answered %d with %d body bytes", what, rep.code, len(rep.body))
				return o
			}
			if o.Viol = noEffect("redirected-download"); o.Viol != nil {
				return o
			}
			for _, s := range stored {
				if len(s.data) >= 8 && bytes.Contains(rep.body, s.data) {
					o.Viol = kit.V("gate:bytes-in-redirect", "%s: answered %d yet the reply carries the bytes of %s", what, rep.code, s.url)
					return o
				}
			}
			accepted++
			cls["accepted:download-redirected"] = true
			cls["redirected:"+r.Method] = true
			cls[fmt.Sprintf("cred-place:%d", r.Cred.place())] = true
			continue
		}
		if plan.headOnly {
			cls["head"] = true
			if rep.code != 200 || len(rep.body) != 0 {
				o.Viol = kit.V("gate:head-reply", "%s: HEAD answered %d with %d body bytes", what, rep.code, len(rep.body))
				return o
			}
			if o.Viol = noEffect("HEAD"); o.Viol != nil {
				return o
			}
			continue
		}
		if !r.Up {
			// served
			if o.Viol = noEffect("download"); o.Viol != nil {
				return o
			}
			if o.Viol = c16JudgeDownload(what, rep, target, r.AsAtt == 1 || r.AsAtt == 2); o.Viol != nil {
				return o
			}
			accepted++
			cls["accepted:download"] = true
			cls[fmt.Sprintf("cred-place:%d", r.Cred.place())] = true
			continue
		}
		// stored
		if rep.code != 200 || rep.ctrl == nil || rep.ctrl.Code != 200 || rep.url() == "" {
			o.Viol = kit.V("gate:accept-reply", "%s: accepted upload answered %d %s", what, rep.code, c16Short(rep.body))
			return o
		}
		if r.MsgID && rep.ctrl.Id != fmt.Sprintf("c16req%d", i) {
			o.Viol = kit.V("gate:accept-reply-id", "%s: reply id %q, request id %q", what, rep.ctrl.Id, fmt.Sprintf("c16req%d", i))
			return o
		}
		if _, has := rep.param("expires"); has != c.Gc {
			o.Viol = kit.V("gate:expires-param", "%s: 'expires' present=%v, garbage collection configured=%v", what, has, c.Gc)
			return o
		}
		url := rep.url()
		if !strings.HasPrefix(url, e.serveURL) {
			o.Viol = kit.V("gate:url-outside-serve-path", "%s: returned url %q does not start with %q", what, url, e.serveURL)
			return o
		}
		fid := store.Store.GetMediaHandler().GetIdFromUrl(url)
		if len(addedRows) != 1 || len(addedFiles) != 1 {
			o.Viol = kit.V("gate:accept-effects", "%s: accepted upload left %d new record(s) %v and %d new file(s) %v", what, len(addedRows), addedRows, len(addedFiles), addedFiles)
			return o
		}
		var row *c16Row
		for _, f := range c16Rows() {
			if f.ID == fid {
				x := f
				row = &x
			}
		}
		if row == nil || fid.IsZero() {
			o.Viol = kit.V("gate:url-names-no-record", "%s: returned url %q names no file record", what, url)
			return o
		}
		typA, typB := c16Sniff(data, clientCT, false), c16Sniff(data, clientCT, true)
		if typA != typB {
			cls["type:short-content-sniffed-with-zero-padding"] = true
		}
		if row.Status != types.UploadCompleted || row.Size != int64(len(data)) || row.User != plan.uid || (row.MimeType != typA && row.MimeType != typB) {
			o.Viol = kit.V("gate:record-fields", "%s: record %s has status %d size %d user %s type %q; expected completed(%d) %d %s %q",
				what, fid, row.Status, row.Size, row.User, row.MimeType, types.UploadCompleted, len(data), plan.uid, typA)
			return o
		}
		onDisk, err := os.ReadFile(filepath.Join(e.dir, addedFiles[0]))
		if err != nil || !bytes.Equal(onDisk, data) || row.Location != filepath.Join(e.dir, addedFiles[0]) || addedFiles[0] != fid.String32() {
			o.Viol = kit.V("gate:stored-bytes", "%s: file %s (record location %s) holds %s, uploaded %s (err %v)", what, addedFiles[0], row.Location, c16Short(onDisk), c16Short(data), err)
			return o
		}
		stored = append(stored, c16Stored{url: url, id: fid, data: data, mime: row.MimeType, at: now})
		accepted++
		cls["accepted:upload"] = true
		cls[fmt.Sprintf("key-place:%d", r.Key.Place%4)] = true
		cls[fmt.Sprintf("cred-kind:%d", r.Cred.kind())] = true
		if plan.uid.IsZero() {
			cls["accepted:upload-for-signup"] = true
		}
		if limit > 0 && int64(bodyLen) == limit {
			cls["size:body-exactly-at-limit"] = true
		}
	}
	o.NonTrivial = accepted > 0 && refused > 0
	return o
}

type c16Row struct {
	ID       types.Uid
	Status   int
	Size     int64
	MimeType string
	User     types.Uid
	Location string
	Updated  time.Time
}

func c16Rows() []c16Row {
	snap := mem.A.Snapshot()
	var out []c16Row
	for _, f := range snap.Files {
		out = append(out, c16Row{ID: f.ID, Status: f.Status, Size: f.Size, MimeType: f.MimeType, User: f.User, Location: f.Location, Updated: f.UpdatedAt})
	}
	return out
}

// c16JudgeDownload: a served download must be exactly the upload its url names.
func c16JudgeDownload(what string, rep c16Reply, target *c16Stored, asAtt bool) *kit.Viol {
	if target == nil {
		return kit.V("download:served-unknown", "%s: answered %d for a url that names no upload", what, rep.code)
	}
	if rep.code != 200 {
		return kit.V("download:status", "%s: download of %s answered %d %s", what, target.url, rep.code, c16Short(rep.body))
	}
	if !bytes.Equal(rep.body, target.data) {
		return kit.V("download:bytes-differ", "%s: download of %s returned %s, uploaded %s", what, target.url, c16Short(rep.body), c16Short(target.data))
	}
	ct := rep.header.Get("Content-Type")
	if ct != target.mime {
		return kit.V("download:type-differs", "%s: download of %s has Content-Type %q, recorded at upload %q", what, target.url, ct, target.mime)
	}
	disp := strings.ToLower(rep.header.Get("Content-Disposition"))
	if (c16Active(ct) || asAtt) && !strings.HasPrefix(disp, "attachment") {
		sig := "download:active-content-inline"
		if !c16Active(ct) {
			sig = "download:asatt-ignored"
		}
		return kit.V(sig, "%s: download of %s with Content-Type %q (asatt=%v) has Content-Disposition %q, must be 'attachment'", what, target.url, ct, asAtt, disp)
	}
	return nil
}

func TestC16Gate(t *testing.T) {
	r := kit.Begin("C16", "TestC16Gate")
	defer r.Flush()
	kit.CheckRun(t, r, c16GateGen, func(c c16GateCase) kit.Outcome {
		return c16GateExec(c, func(v *kit.Viol) bool { return r.IsKnown(v.Sig) && r.Violation(v, c) })
	})
}
