//go:build mysql
// +build mysql

package mysql

// C18, MySQL side: an in-process fake MySQL server (protocol 4.1 handshake v10, COM_QUERY,
// COM_PING, COM_STMT_PREPARE/EXECUTE/CLOSE, text result sets) on a unix socket in a private
// temp dir. The real go-sql-driver + database/sql + sqlx + adapter code run against it.
// What the server answers is decided by the shared scripted engine (c18Core); failed statements are
// answered with the ERR packet of c18WireErr (1213/40001 for a deadlock victim, whose transaction the
// engine has then ended: the status flags of later answers no longer carry "in transaction").

import (
	"bufio"
	"encoding/binary"
	"fmt"
	"io"
	"log"
	"net"
	"os"
	"path/filepath"
	"sync"
	"testing"
	"time"

	ms "github.com/go-sql-driver/mysql"
	dbi "github.com/tinode/chat/server/db"
	"github.com/tinode/chat/server/store"
)

const c18AdapterName = "mysql"

func c18NewAdapter() dbi.Adapter { return &adapter{} }

func c18CloseAdapter(a dbi.Adapter, leaked bool) {
	// database/sql's Close does not wait for a leaked transaction: it closes idle connections
	// and marks the pool closed.
	a.Close()
}

type c18Srv struct {
	core *c18Core
	dir  string
	sock string
	l    net.Listener
	mu   sync.Mutex
	cs   map[net.Conn]struct{}
	wg   sync.WaitGroup
}

// One private temp dir per test process; every run listens on a fresh socket inside it.
var c18Tmp struct {
	sync.Mutex
	dir string
	n   int
}

func c18NextSock() (string, int, error) {
	c18Tmp.Lock()
	defer c18Tmp.Unlock()
	if c18Tmp.dir == "" {
		d, err := os.MkdirTemp("", "c18my")
		if err != nil {
			return "", 0, err
		}
		c18Tmp.dir = d
	}
	c18Tmp.n++
	return c18Tmp.dir, c18Tmp.n, nil
}

func c18Cleanup() {
	c18Tmp.Lock()
	defer c18Tmp.Unlock()
	if c18Tmp.dir != "" {
		os.RemoveAll(c18Tmp.dir)
		c18Tmp.dir = ""
	}
}

func c18StartServer() (*c18Srv, error) {
	dir, n, err := c18NextSock()
	if err != nil {
		return nil, err
	}
	s := &c18Srv{core: &c18Core{}, dir: dir, sock: filepath.Join(dir, fmt.Sprintf("m%d.sock", n)), cs: map[net.Conn]struct{}{}}
	s.l, err = net.Listen("unix", s.sock)
	if err != nil {
		return nil, err
	}
	s.wg.Add(1)
	go func() {
		defer s.wg.Done()
		for {
			c, err := s.l.Accept()
			if err != nil {
				return
			}
			s.mu.Lock()
			s.cs[c] = struct{}{}
			s.mu.Unlock()
			s.wg.Add(1)
			go func() {
				defer s.wg.Done()
				s.serve(c)
				s.mu.Lock()
				delete(s.cs, c)
				s.mu.Unlock()
			}()
		}
	}()
	return s, nil
}

func (s *c18Srv) config(timeout bool) string {
	to := ""
	if timeout {
		to = `,"sql_timeout":1`
	}
	return fmt.Sprintf(`{"dsn":"u:p@unix(%s)/tinode?parseTime=true&interpolateParams=true"%s}`, s.sock, to)
}

func (s *c18Srv) stop() {
	s.l.Close()
	s.mu.Lock()
	for c := range s.cs {
		c.Close()
	}
	s.mu.Unlock()
	s.wg.Wait()
	os.Remove(s.sock)
}

func c18Wpkt(w io.Writer, seq *byte, p []byte) {
	h := []byte{byte(len(p)), byte(len(p) >> 8), byte(len(p) >> 16), *seq}
	*seq++
	w.Write(append(h, p...))
}

func c18Rpkt(r *bufio.Reader) ([]byte, error) {
	var out []byte
	for {
		h := make([]byte, 4)
		if _, err := io.ReadFull(r, h); err != nil {
			return nil, err
		}
		n := int(h[0]) | int(h[1])<<8 | int(h[2])<<16
		p := make([]byte, n)
		if _, err := io.ReadFull(r, p); err != nil {
			return nil, err
		}
		out = append(out, p...)
		if n < 0xffffff {
			return out, nil
		}
	}
}

func c18Lenenc(n uint64) []byte {
	switch {
	case n < 251:
		return []byte{byte(n)}
	case n < 1<<16:
		return []byte{0xfc, byte(n), byte(n >> 8)}
	case n < 1<<24:
		return []byte{0xfd, byte(n), byte(n >> 8), byte(n >> 16)}
	}
	b := []byte{0xfe}
	return binary.LittleEndian.AppendUint64(b, n)
}

func c18LenStr(s string) []byte { return append(c18Lenenc(uint64(len(s))), s...) }

func c18Status(tx byte) uint16 {
	st := uint16(2) // autocommit
	if tx != 'I' {
		st |= 1 // in transaction
	}
	return st
}

func c18OK(aff int, tx byte) []byte {
	p := []byte{0}
	p = append(p, c18Lenenc(uint64(aff))...)
	p = append(p, c18Lenenc(1)...) // last insert id
	p = binary.LittleEndian.AppendUint16(p, c18Status(tx))
	return append(p, 0, 0)
}

func c18EOF(tx byte) []byte {
	p := []byte{0xfe, 0, 0}
	return binary.LittleEndian.AppendUint16(p, c18Status(tx))
}

func c18Err(code uint16, state, msg string) []byte {
	p := []byte{0xff}
	p = binary.LittleEndian.AppendUint16(p, code)
	p = append(p, '#')
	p = append(p, state...)
	return append(p, msg...)
}

func c18ColDef(name string) []byte {
	p := c18LenStr("def")
	p = append(p, c18LenStr("")...)
	p = append(p, c18LenStr("t")...)
	p = append(p, c18LenStr("t")...)
	p = append(p, c18LenStr(name)...)
	p = append(p, c18LenStr(name)...)
	// fixed part: charset utf8, length 255, type VAR_STRING
	return append(p, 0x0c, 33, 0, 255, 0, 0, 0, 0xfd, 0, 0, 0, 0, 0)
}

func (s *c18Srv) serve(c net.Conn) {
	defer c.Close()
	st := s.core.connOpen()
	defer s.core.connClosed(st)
	r := bufio.NewReader(c)
	seq := byte(0)
	g := []byte{10}
	g = append(g, "5.7.99-c18fake\x00"...)
	g = append(g, byte(st.id), 0, 0, 0)
	g = append(g, "abcdefgh"...)
	g = append(g, 0)
	caps := uint32(1 | 8 | 0x200 | 0x2000 | 0x8000 | 0x80000)
	g = binary.LittleEndian.AppendUint16(g, uint16(caps))
	g = append(g, 33)
	g = append(g, 2, 0)
	g = binary.LittleEndian.AppendUint16(g, uint16(caps>>16))
	g = append(g, 21)
	g = append(g, make([]byte, 10)...)
	g = append(g, "ijklmnopqrst\x00"...)
	g = append(g, "mysql_native_password\x00"...)
	c18Wpkt(c, &seq, g)
	if _, err := c18Rpkt(r); err != nil {
		return
	}
	seq = 2
	c18Wpkt(c, &seq, c18OK(0, 'I'))
	stmts := map[uint32]string{}
	nextID := uint32(0)
	answer := func(rep c18Reply) bool {
		if rep.Stall {
			time.Sleep(c18StallFor)
			defer s.core.stallEnd()
		}
		seq = 1
		switch rep.Res {
		case "drop":
			return false
		case "rows":
			c18Wpkt(c, &seq, c18Lenenc(uint64(len(rep.Cols))))
			for _, col := range rep.Cols {
				c18Wpkt(c, &seq, c18ColDef(col.Name))
			}
			c18Wpkt(c, &seq, c18EOF(rep.Tx))
			for _, row := range rep.Rows {
				var p []byte
				for _, v := range row {
					p = append(p, c18LenStr(v)...)
				}
				c18Wpkt(c, &seq, p)
			}
			c18Wpkt(c, &seq, c18EOF(rep.Tx))
		case "ok":
			c18Wpkt(c, &seq, c18OK(rep.Aff, rep.Tx))
		default:
			// a failed statement: the error number and SQLSTATE a MySQL server sends for this kind of
			// failure (1105 generic, 1062 duplicate key, 1213 deadlock, 1205 lock wait timeout, ...)
			ei := c18WireErr(false, rep.Res)
			c18Wpkt(c, &seq, c18Err(uint16(ei.Code), ei.State, ei.Msg))
		}
		return true
	}
	for {
		p, err := c18Rpkt(r)
		if err != nil || len(p) == 0 {
			return
		}
		switch p[0] {
		case 0x01: // COM_QUIT
			return
		case 0x0e: // COM_PING
			seq = 1
			c18Wpkt(c, &seq, c18OK(0, st.tx))
		case 0x03: // COM_QUERY
			if !answer(s.core.stmt(st, string(p[1:]), 0)) {
				return
			}
		case 0x16: // COM_STMT_PREPARE
			q := string(p[1:])
			rep := s.core.stmt(st, q, 1)
			if rep.Res != "ok" {
				if !answer(rep) {
					return
				}
				continue
			}
			if rep.Stall {
				time.Sleep(c18StallFor)
			}
			nextID++
			stmts[nextID] = q
			np := 0
			for i := 0; i < len(q); i++ {
				if q[i] == '?' {
					np++
				}
			}
			seq = 1
			resp := []byte{0}
			resp = binary.LittleEndian.AppendUint32(resp, nextID)
			resp = binary.LittleEndian.AppendUint16(resp, 0)
			resp = binary.LittleEndian.AppendUint16(resp, uint16(np))
			resp = append(resp, 0, 0, 0)
			c18Wpkt(c, &seq, resp)
			for i := 0; i < np; i++ {
				c18Wpkt(c, &seq, c18ColDef("?"))
			}
			if np > 0 {
				c18Wpkt(c, &seq, c18EOF(st.tx))
			}
			if rep.Stall {
				s.core.stallEnd()
			}
		case 0x17: // COM_STMT_EXECUTE
			id := uint32(0)
			if len(p) >= 5 {
				id = binary.LittleEndian.Uint32(p[1:5])
			}
			q, ok := stmts[id]
			if !ok {
				seq = 1
				c18Wpkt(c, &seq, c18Err(1243, "HY000", "unknown prepared statement"))
				continue
			}
			if !answer(s.core.stmt(st, q, 2)) {
				return
			}
		case 0x19: // COM_STMT_CLOSE: no reply
			if len(p) >= 5 {
				delete(stmts, binary.LittleEndian.Uint32(p[1:5]))
			}
		default:
			seq = 1
			c18Wpkt(c, &seq, c18Err(1047, "08S01", fmt.Sprintf("unsupported command %#x", p[0])))
		}
	}
}

// c18Boot initialises the store's uid generator (unexported, only reachable through
// store.Store.Open) once per process, against a throw-away fake server.
var c18BootOnce sync.Once

func c18Boot() {
	c18BootOnce.Do(func() {
		// the driver logs every broken connection (fault kind "drop") to stderr
		ms.SetLogger(log.New(io.Discard, "", 0))
		srv, err := c18StartServer()
		if err != nil {
			panic(err)
		}
		defer srv.stop()
		cfg := fmt.Sprintf(`{"uid_key":"la6YsO+bNX/+XIkOqc5Svw==","use_adapter":"mysql","adapters":{"mysql":%s}}`, srv.config(false))
		if err := store.Store.Open(1, []byte(cfg)); err != nil {
			panic("c18 boot: store.Open: " + err.Error())
		}
		store.Store.Close()
	})
}

func TestC18MySQL(tt *testing.T)      { c18RapidUnit(tt, "TestC18MySQL") }
func TestC18MySQLEnum(tt *testing.T)  { c18EnumUnit(tt, "TestC18MySQLEnum") }
func TestC18MySQLStall(tt *testing.T) { c18StallUnit(tt, "TestC18MySQLStall") }
func TestC18MySQLShow(tt *testing.T)  { c18ShowUnit(tt) }
