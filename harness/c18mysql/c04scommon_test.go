//go:build mysql || postgres
// +build mysql postgres

package mysql

// C04 — history and deletion ranges, judged on the SQL the MySQL / PostgreSQL adapters emit.
//
// THIS FILE IS SHARED: harness/c18mysql/c04scommon_test.go is the source of truth,
// harness/c18pg/c04scommon_test.go is the same text with the package clause changed
// (sed 's/^package mysql$/package postgres/'), like c18common_test.go.
//
// No DBMS is available, so the adapters run against the fake wire servers of the C18 harness
// (c18StartServer: every statement the adapter sends is recorded with its text). One case =
// one adapter call (MessageDeleteList hard/soft, MessageGetAll, MessageGetDeleted) on a fresh
// fake server without any fault. The oracle then EVALUATES the statements: a small evaluator
// (c04sSelects) decides for every message id of a small domain whether the WHERE clause of a
// statement selects it (seqid BETWEEN a AND b / IN (...) / = >= > < <= with integer literals,
// joined by AND), and the selected set is compared with the set the statement of C04 demands:
//
//	hard delete   UPDATE messages SET deletedat..,delid..  selects exactly the union of [low,hi)
//	              (hi=0: {low}); the DELETE on filemsglinks likewise when it names seqid
//	any delete    the INSERT INTO dellog rows (low,hi), read as half-open [low,hi), cover exactly
//	              that union
//	history       SELECT .. FROM messages selects exactly since <= id < before (0 = absent);
//	              LIMIT = min(opt, adapter maximum)
//	deletion log  SELECT .. FROM dellog selects exactly since <= delid < before
//
// A seqid predicate the evaluator does not understand is reported as class
// "predicate-not-understood" (never a violation, never non-trivial).
//
// Failing statements (c04sFaultSweep): "a delete request ... hides exactly the union" and "the
// deletion log covers exactly the IDs deleted" also speak about a delete that is reported as done
// although one of its statements failed. Every delete case whose fault-free run was judged clean is
// therefore run again once per statement position k of its fault-free trace (BEGIN, PREPARE, every
// dellog INSERT, the DELETE on filemsglinks, the UPDATE on messages, COMMIT), on a fresh server that
// answers statement k with a generic statement error (c18Core.arm(script, k, "err")). Demanded:
//
//	sql-delete-failure-swallowed         MessageDeleteList returns a non-nil error
//	sql-delete-committed-after-failure   no successful COMMIT follows the failed statement on its connection
//
// The sweep of a trace shape (operation + statement classes) that was already swept clean by this
// process with the same number of ranges is not repeated for single-range cases; multi-range cases
// are always swept.
//
// Adapter specific parts (c04s_test.go of each directory): c04sOpenCfg (MySQL: a recording
// proxy in front of the fake server that decodes the binary parameters of COM_STMT_EXECUTE,
// because the dellog INSERT goes through tx.Prepare), c04sDellogTexts.
//
// Development aid: C04S_SHOW=1 prints the statements of every executed case.

import (
	"encoding/json"
	"fmt"
	"os"
	"sort"
	"strconv"
	"strings"
	"sync"
	"testing"
	"time"

	dbi "github.com/tinode/chat/server/db"
	t "github.com/tinode/chat/server/store/types"
	kit "github.com/tinode/chat/server/zzverifkit"
	"pgregory.net/rapid"
)

// ------------------------------------------------------------------ case format

type c04sCase struct {
	Op     string   `json:"op"` // hard | soft | getall | getdel
	Topic  string   `json:"topic"`
	U      uint64   `json:"u"`
	DelId  int      `json:"delId,omitempty"`
	Ranges [][2]int `json:"ranges,omitempty"` // as drawn; sorted + normalised before the call, as the server does
	Since  int      `json:"since,omitempty"`
	Before int      `json:"before,omitempty"`
	Limit  int      `json:"limit,omitempty"`
}

var c04sOptVals = []int{0, 1, 2, 3, 5, 11, 12, 13, 100, 1000}

func c04sGen(rt *rapid.T) c04sCase {
	c := c04sCase{
		Op:    rapid.SampledFrom([]string{"hard", "soft", "getall", "getdel"}).Draw(rt, "op"),
		Topic: rapid.SampledFrom([]string{"grpAbc", "p2pAbcDefGh", "grpZz09"}).Draw(rt, "topic"),
		U:     uint64(rapid.IntRange(1, 9).Draw(rt, "u")),
	}
	switch c.Op {
	case "hard", "soft":
		c.DelId = rapid.IntRange(1, 40).Draw(rt, "delId")
		n := rapid.IntRange(1, 4).Draw(rt, "nranges")
		for i := 0; i < n; i++ {
			lo := rapid.IntRange(1, 12).Draw(rt, "low")
			if rapid.IntRange(0, 2).Draw(rt, "single") == 0 {
				c.Ranges = append(c.Ranges, [2]int{lo, 0})
			} else {
				c.Ranges = append(c.Ranges, [2]int{lo, rapid.IntRange(lo+1, 13).Draw(rt, "hi")})
			}
		}
	default:
		c.Since = rapid.SampledFrom(c04sOptVals).Draw(rt, "since")
		c.Before = rapid.SampledFrom(c04sOptVals).Draw(rt, "before")
		c.Limit = rapid.SampledFrom(c04sOptVals).Draw(rt, "limit")
	}
	return c
}

// c04sNormalized: what the server hands to the adapter (topic.go: sort with RangeSorter, Normalize).
func c04sNormalized(raw [][2]int) []t.Range {
	var rs []t.Range
	for _, r := range raw {
		if r[0] < 1 || (r[1] != 0 && r[1] <= r[0]) {
			continue // replay files only: not a range the server would pass on
		}
		rs = append(rs, t.Range{Low: r[0], Hi: r[1]})
	}
	sort.Sort(t.RangeSorter(rs))
	return []t.Range(t.RangeSorter(rs).Normalize())
}

// ------------------------------------------------------------------ SQL predicate evaluator

type c04sTok struct {
	K byte // w word, n number, o comparison operator, ( ) , s string literal, x anything else
	S string
	Q bool // w only: a quoted identifier (`from`, "from"): never a keyword
}

func c04sLex(sql string) []c04sTok {
	var out []c04sTok
	isW := func(c byte) bool {
		return c == '_' || c == '.' || (c >= '0' && c <= '9') || (c >= 'a' && c <= 'z') || (c >= 'A' && c <= 'Z')
	}
	for i := 0; i < len(sql); {
		c := sql[i]
		switch {
		case c == ' ' || c == '\t' || c == '\n' || c == '\r':
			i++
		case c == '\'':
			// string literal; '' and \' are escapes (PostgreSQL / go-sql-driver interpolation)
			j := i + 1
			for j < len(sql) {
				if sql[j] == '\\' && j+1 < len(sql) {
					j += 2
					continue
				}
				if sql[j] == '\'' {
					if j+1 < len(sql) && sql[j+1] == '\'' {
						j += 2
						continue
					}
					break
				}
				j++
			}
			if j >= len(sql) {
				j = len(sql) - 1
			}
			out = append(out, c04sTok{K: 's', S: sql[i : j+1]})
			i = j + 1
		case c == '`' || c == '"':
			// quoted identifier
			j := strings.IndexByte(sql[i+1:], c)
			if j < 0 {
				out = append(out, c04sTok{K: 'x', S: sql[i:]})
				return out
			}
			out = append(out, c04sTok{K: 'w', S: sql[i+1 : i+1+j], Q: true})
			i += j + 2
		case c >= '0' && c <= '9':
			j := i
			for j < len(sql) && sql[j] >= '0' && sql[j] <= '9' {
				j++
			}
			if j < len(sql) && isW(sql[j]) {
				// 12abc, 1.5, 1e3: not an integer literal
				for j < len(sql) && isW(sql[j]) {
					j++
				}
				out = append(out, c04sTok{K: 'x', S: sql[i:j]})
			} else {
				out = append(out, c04sTok{K: 'n', S: sql[i:j]})
			}
			i = j
		case isW(c):
			j := i
			for j < len(sql) && isW(sql[j]) {
				j++
			}
			out = append(out, c04sTok{K: 'w', S: sql[i:j]})
			i = j
		case c == '(' || c == ')' || c == ',':
			out = append(out, c04sTok{K: c, S: string(c)})
			i++
		case c == '<' || c == '>' || c == '=' || c == '!':
			j := i + 1
			for j < len(sql) && (sql[j] == '<' || sql[j] == '>' || sql[j] == '=') {
				j++
			}
			out = append(out, c04sTok{K: 'o', S: sql[i:j]})
			i = j
		default:
			out = append(out, c04sTok{K: 'x', S: string(c)})
			i++
		}
	}
	return out
}

func (k c04sTok) word(w string) bool { return k.K == 'w' && !k.Q && strings.EqualFold(k.S, w) }

// c04sWhereToks returns the tokens of the (first top-level) WHERE clause, cut at ORDER BY /
// GROUP BY / LIMIT / RETURNING / FOR.
func c04sWhereToks(sql string) ([]c04sTok, bool) {
	toks := c04sLex(sql)
	depth, start := 0, -1
	for i, k := range toks {
		switch {
		case k.K == '(':
			depth++
		case k.K == ')':
			depth--
		case depth == 0 && start < 0 && k.word("WHERE"):
			start = i + 1
		case depth == 0 && start >= 0 && (k.word("ORDER") || k.word("GROUP") || k.word("LIMIT") || k.word("RETURNING") || k.word("FOR") || k.word("HAVING")):
			return toks[start:i], true
		}
	}
	if start < 0 {
		return nil, false
	}
	return toks[start:], true
}

// c04sInt reads an integer literal operand (optionally signed) at toks[i:]; n = tokens used.
func c04sInt(toks []c04sTok, i int) (v, n int, ok bool) {
	neg := false
	j := i
	if j < len(toks) && toks[j].K == 'x' && (toks[j].S == "-" || toks[j].S == "+") {
		neg = toks[j].S == "-"
		j++
	}
	if j >= len(toks) || toks[j].K != 'n' {
		return 0, 0, false
	}
	x, err := strconv.Atoi(toks[j].S)
	if err != nil {
		return 0, 0, false
	}
	if neg {
		x = -x
	}
	return x, j + 1 - i, true
}

type c04sPred struct {
	Kind   string // between | in | cmp
	Op     string
	A, B   int
	List   []int
	Source string
}

func (p c04sPred) sel(id int) bool {
	switch p.Kind {
	case "between": // SQL BETWEEN: both ends inclusive
		return id >= p.A && id <= p.B
	case "in":
		for _, v := range p.List {
			if v == id {
				return true
			}
		}
		return false
	}
	switch p.Op {
	case "=":
		return id == p.A
	case ">=":
		return id >= p.A
	case ">":
		return id > p.A
	case "<":
		return id < p.A
	case "<=":
		return id <= p.A
	}
	return false
}

// c04sPreds extracts the predicates on column col (bare or with a table alias: m.seqid) from the
// WHERE clause of sqlText. known=false: the clause restricts col in a way this evaluator does not
// understand (non-literal operand, OR, NOT, <>, nesting, arithmetic, ...).
func c04sPreds(sqlText, col string) (preds []c04sPred, known bool) {
	toks, ok := c04sWhereToks(sqlText)
	if !ok {
		return nil, true // no WHERE clause at all: nothing restricts the column
	}
	isCol := func(k c04sTok) bool {
		if k.K != 'w' {
			return false
		}
		s := strings.ToLower(k.S)
		return s == col || strings.HasSuffix(s, "."+col)
	}
	// split into conjuncts at depth-0 AND (the AND that belongs to a BETWEEN is not a separator)
	var conj [][]c04sTok
	depth, from, betweens := 0, 0, 0
	for i, k := range toks {
		switch {
		case k.K == '(':
			depth++
		case k.K == ')':
			depth--
		case depth == 0 && k.word("OR"):
			return nil, false
		case depth == 0 && k.word("BETWEEN"):
			betweens++
		case depth == 0 && k.word("AND"):
			if betweens > 0 {
				betweens--
				continue
			}
			conj = append(conj, toks[from:i])
			from = i + 1
		}
	}
	conj = append(conj, toks[from:])
	known = true
	for _, cj := range conj {
		mentions := false
		for _, k := range cj {
			if isCol(k) {
				mentions = true
			}
		}
		if !mentions {
			continue
		}
		var src []string
		for _, k := range cj {
			src = append(src, k.S)
		}
		p := c04sPred{Source: strings.Join(src, " ")}
		good := false
		if isCol(cj[0]) && len(cj) >= 3 {
			switch {
			case cj[1].K == 'o':
				if v, n, ok := c04sInt(cj, 2); ok && 2+n == len(cj) {
					switch cj[1].S {
					case "=", ">=", ">", "<", "<=":
						p.Kind, p.Op, p.A, good = "cmp", cj[1].S, v, true
					}
				}
			case cj[1].word("BETWEEN"):
				if a, n, ok := c04sInt(cj, 2); ok && 2+n < len(cj) && cj[2+n].word("AND") {
					if b, m, ok := c04sInt(cj, 3+n); ok && 3+n+m == len(cj) {
						p.Kind, p.A, p.B, good = "between", a, b, true
					}
				}
			case cj[1].word("IN") && cj[2].K == '(' && cj[len(cj)-1].K == ')':
				i := 3
				good = true
				for i < len(cj)-1 {
					v, n, ok := c04sInt(cj, i)
					if !ok {
						good = false
						break
					}
					p.List = append(p.List, v)
					i += n
					if i < len(cj)-1 {
						if cj[i].K != ',' {
							good = false
							break
						}
						i++
						if i == len(cj)-1 {
							good = false // trailing comma
						}
					}
				}
				if len(p.List) == 0 {
					good = false
				}
				p.Kind = "in"
			}
		}
		if !good {
			return nil, false
		}
		preds = append(preds, p)
	}
	return preds, known
}

// c04sSelectsCol: does the WHERE clause of sqlText select a row whose column col has value id
// (as far as col is concerned)?
func c04sSelectsCol(sqlText, col string, id int) (known bool, selected bool) {
	preds, known := c04sPreds(sqlText, col)
	if !known {
		return false, false
	}
	for _, p := range preds {
		if !p.sel(id) {
			return true, false
		}
	}
	return true, true
}

// c04sSelects evaluates the seqid predicate of a statement for one message id.
func c04sSelects(sqlText string, id int) (known bool, selected bool) {
	return c04sSelectsCol(sqlText, "seqid", id)
}

// c04sLimit reads the literal of a trailing LIMIT clause.
func c04sLimit(sqlText string) (int, bool) {
	toks := c04sLex(sqlText)
	for i := len(toks) - 1; i >= 0; i-- {
		if toks[i].word("LIMIT") {
			if v, n, ok := c04sInt(toks, i+1); ok && i+1+n == len(toks) {
				return v, true
			}
			return 0, false
		}
	}
	return 0, false
}

// c04sInsertRow reads `INSERT INTO tbl(c1,c2,..) VALUES(v1,v2,..)` into a column -> literal map.
func c04sInsertRow(sqlText string) (table string, row map[string]c04sTok, ok bool) {
	toks := c04sLex(sqlText)
	i := 0
	for i < len(toks) && !toks[i].word("INSERT") {
		i++ // "EXECUTE" prefix of the MySQL trace
	}
	if i+3 >= len(toks) || !toks[i+1].word("INTO") || toks[i+2].K != 'w' || toks[i+3].K != '(' {
		return "", nil, false
	}
	table = strings.ToLower(toks[i+2].S)
	i += 4
	var cols []string
	for i < len(toks) && toks[i].K != ')' {
		if toks[i].K == 'w' {
			cols = append(cols, strings.ToLower(toks[i].S))
		} else if toks[i].K != ',' {
			return "", nil, false
		}
		i++
	}
	if i+2 >= len(toks) || !toks[i+1].word("VALUES") || toks[i+2].K != '(' {
		return "", nil, false
	}
	i += 3
	var vals []c04sTok
	for i < len(toks) && toks[i].K != ')' {
		if toks[i].K == ',' {
			i++
			continue
		}
		if v, n, isInt := c04sInt(toks, i); isInt {
			vals = append(vals, c04sTok{K: 'n', S: strconv.Itoa(v)})
			i += n
			continue
		}
		vals = append(vals, toks[i])
		i++
	}
	if i != len(toks)-1 || len(vals) != len(cols) {
		return "", nil, false
	}
	row = map[string]c04sTok{}
	for j, c := range cols {
		row[c] = vals[j]
	}
	return table, row, true
}

// ------------------------------------------------------------------ one run

type c04sRun struct {
	Evs     []c18Ev
	Dellog  []string // literal text of every INSERT INTO dellog the server received
	DlNote  string   // why Dellog cannot be judged ("" = can)
	Err     error
	Panic   string
	Harness string
	MaxMsgs int
}

// c04sDo runs the adapter call of c on a fresh fake server; k > 0: statement k is answered with a
// failure of the given kind (c18Core fault kinds).
func c04sDo(c *c04sCase, ranges []t.Range, k int, kind string) c04sRun {
	c18Boot()
	srv, err := c18StartServer()
	if err != nil {
		return c04sRun{Harness: "server: " + err.Error()}
	}
	defer srv.stop()
	cfg, tap, err := c04sOpenCfg(srv)
	if err != nil {
		return c04sRun{Harness: "tap: " + err.Error()}
	}
	if tap != nil {
		defer tap.stop()
	}
	adp := c18NewAdapter()
	if err := adp.Open(json.RawMessage(cfg)); err != nil {
		return c04sRun{Harness: "open: " + err.Error()}
	}
	res := c04sRun{MaxMsgs: 100}
	if ad, ok := adp.(*adapter); ok && ad.maxMessageResults > 0 {
		res.MaxMsgs = ad.maxMessageResults
	}
	srv.core.arm(c18Script{}, k, kind)
	done := make(chan struct{})
	go func() {
		defer close(done)
		defer func() {
			if p := recover(); p != nil {
				res.Panic = fmt.Sprint(p)
			}
		}()
		res.Err = c04sCall(adp, c, ranges)
	}()
	select {
	case <-done:
	case <-time.After(30 * time.Second): // safety net against a bug in the fake server, not an oracle
		return c04sRun{Harness: "the adapter call did not return within 30 s"}
	}
	res.Evs = srv.core.snapshot()
	res.Dellog, res.DlNote = c04sDellogTexts(res.Evs, tap)
	leaked := false
	for _, tx := range c18Brackets(res.Evs) {
		if tx.end == "" || tx.end == "connclosed" {
			leaked = true
		}
	}
	c18CloseAdapter(adp, leaked)
	return res
}

func c04sCall(adp dbi.Adapter, c *c04sCase, ranges []t.Range) error {
	uid := t.Uid(c.U)
	switch c.Op {
	case "hard", "soft":
		d := &t.DelMessage{Topic: c.Topic, DelId: c.DelId, SeqIdRanges: append([]t.Range(nil), ranges...)}
		if c.Op == "soft" {
			d.DeletedFor = uid.String()
		}
		d.CreatedAt, d.UpdatedAt = c18T0, c18T0
		return adp.MessageDeleteList(c.Topic, d)
	case "getall":
		_, err := adp.MessageGetAll(c.Topic, uid, &t.QueryOpt{Since: c.Since, Before: c.Before, Limit: c.Limit})
		return err
	case "getdel":
		_, err := adp.MessageGetDeleted(c.Topic, uid, &t.QueryOpt{Since: c.Since, Before: c.Before, Limit: c.Limit})
		return err
	}
	return nil
}

// ------------------------------------------------------------------ oracle

// ids 1..20 (deletes draw ids 1..12) plus the neighbourhood of the larger option values
var c04sDomain = func() []int {
	var d []int
	for i := 1; i <= 20; i++ {
		d = append(d, i)
	}
	for _, v := range []int{100, 1000} {
		d = append(d, v-2, v-1, v, v+1, v+2)
	}
	return d
}()

func c04sDiff(got, want func(int) bool, dom []int) (extra, missing []int) {
	for _, id := range dom {
		g, w := got(id), want(id)
		if g && !w {
			extra = append(extra, id)
		}
		if w && !g {
			missing = append(missing, id)
		}
	}
	return
}

func c04sFind(evs []c18Ev, pred func(up string, e c18Ev) bool) []c18Ev {
	var out []c18Ev
	for _, e := range evs {
		if pred(strings.ToUpper(e.Text), e) {
			out = append(out, e)
		}
	}
	return out
}

func c04sRangesStr(rs []t.Range) string {
	var s []string
	for _, r := range rs {
		if r.Hi == 0 {
			s = append(s, strconv.Itoa(r.Low))
		} else {
			s = append(s, fmt.Sprintf("[%d,%d)", r.Low, r.Hi))
		}
	}
	return strings.Join(s, " ")
}

func c04sPredClass(sqlText, col string) string {
	preds, known := c04sPreds(sqlText, col)
	if !known {
		return "?"
	}
	var k []string
	for _, p := range preds {
		if p.Kind == "cmp" {
			k = append(k, p.Op)
		} else {
			k = append(k, p.Kind)
		}
	}
	if len(k) == 0 {
		return "none"
	}
	return strings.Join(k, "+")
}

func c04sExec(c c04sCase) kit.Outcome {
	o := kit.Outcome{Classes: []string{"op:" + c.Op}}
	switch c.Op {
	case "hard", "soft", "getall", "getdel":
	default:
		o.Skip = true
		return o
	}
	ranges := c04sNormalized(c.Ranges)
	if (c.Op == "hard" || c.Op == "soft") && (len(ranges) == 0 || c.DelId < 1) {
		o.Skip = true
		return o
	}
	r := c04sDo(&c, ranges, 0, "")
	if os.Getenv("C04S_SHOW") != "" {
		b, _ := json.Marshal(c)
		fmt.Printf("%s ranges=%s err=%v panic=%q harness=%q\n", b, c04sRangesStr(ranges), r.Err, r.Panic, r.Harness)
		for _, e := range r.Evs {
			fmt.Printf("    c%d %s -> %s\n", e.Conn, e.Text, e.Res)
		}
		for _, d := range r.Dellog {
			fmt.Printf("    dellog row: %s\n", d)
		}
	}
	if r.Harness != "" {
		o.Viol = kit.V("harness:"+c18AdapterName, "harness problem: %s", r.Harness)
		return o
	}
	if r.Panic != "" {
		o.Classes = append(o.Classes, "call-panicked")
		return o
	}
	if r.Err != nil {
		// nothing failed at the server: not expected, but not what C04 is about either
		o.Classes = append(o.Classes, "call-returned-error")
		return o
	}
	what := fmt.Sprintf("%s %s topic=%s user=%d", c18AdapterName, c.Op, c.Topic, c.U)
	understood := true
	notUnderstood := func(stmt string) {
		understood = false
		o.Classes = append(o.Classes, "predicate-not-understood")
		if os.Getenv("C04S_SHOW") != "" {
			fmt.Printf("    NOT UNDERSTOOD: %s\n", stmt)
		}
	}

	switch c.Op {
	case "hard", "soft":
		want := func(id int) bool {
			for _, rg := range ranges {
				if (rg.Hi == 0 && id == rg.Low) || (rg.Hi != 0 && id >= rg.Low && id < rg.Hi) {
					return true
				}
			}
			return false
		}
		var wantIds []int
		for _, id := range c04sDomain {
			if want(id) {
				wantIds = append(wantIds, id)
			}
		}
		o.Classes = append(o.Classes, "ranges:"+strconv.Itoa(len(ranges)))
		what += fmt.Sprintf(" delId=%d ranges=%s (ids %v)", c.DelId, c04sRangesStr(ranges), wantIds)
		upd := c04sFind(r.Evs, func(up string, e c18Ev) bool {
			return e.Cls == "write" && !e.Ins && strings.HasPrefix(up, "UPDATE MESSAGES") && strings.Contains(up, "DELETEDAT")
		})
		del := c04sFind(r.Evs, func(up string, e c18Ev) bool {
			return e.Cls == "write" && !e.Ins && strings.HasPrefix(up, "DELETE") && strings.Contains(up, "FILEMSGLINKS")
		})
		msgDel := c04sFind(r.Evs, func(up string, e c18Ev) bool {
			return e.Cls == "write" && !e.Ins && strings.HasPrefix(up, "DELETE") && strings.Contains(up, "FROM MESSAGES")
		})
		if c.Op == "soft" {
			// a deletion for one user must not touch the message rows themselves
			if len(upd)+len(msgDel) > 0 {
				e := append(upd, msgDel...)[0]
				o.Viol = kit.V("sql-soft-delete-touches-messages", "%s: a soft delete (DeletedFor set) changed the messages table: %s", what, e.Text)
				return o
			}
		} else {
			if len(upd) == 0 {
				o.Viol = kit.V("sql-hard-delete-missing-ids", "%s: the call returned nil but no UPDATE of messages setting deletedat/delid was sent: ids %v are not marked deleted", what, wantIds)
				return o
			}
			for _, e := range upd {
				known, _ := c04sSelects(e.Text, 1)
				if !known {
					notUnderstood(e.Text)
					continue
				}
				o.Classes = append(o.Classes, "hard-update-where:"+c04sPredClass(e.Text, "seqid"))
				extra, missing := c04sDiff(func(id int) bool { _, s := c04sSelects(e.Text, id); return s }, want, c04sDomain)
				if len(extra) > 0 {
					o.Viol = kit.V("sql-hard-delete-extra-ids", "%s: the UPDATE marking messages deleted also selects ids %v, outside the listed ranges: %s", what, extra, e.Text)
					return o
				}
				if len(missing) > 0 {
					o.Viol = kit.V("sql-hard-delete-missing-ids", "%s: the UPDATE marking messages deleted does not select ids %v of the listed ranges: %s", what, missing, e.Text)
					return o
				}
			}
			for _, e := range del {
				preds, known := c04sPreds(e.Text, "seqid")
				if !known {
					notUnderstood(e.Text)
					continue
				}
				if len(preds) == 0 {
					continue // no seqid predicate: not a per-id statement
				}
				extra, missing := c04sDiff(func(id int) bool { _, s := c04sSelects(e.Text, id); return s }, want, c04sDomain)
				if len(extra) > 0 {
					o.Viol = kit.V("sql-hard-delete-extra-ids", "%s: the DELETE of attachment links also selects message ids %v, outside the listed ranges: %s", what, extra, e.Text)
					return o
				}
				if len(missing) > 0 {
					o.Viol = kit.V("sql-hard-delete-missing-ids", "%s: the DELETE of attachment links does not select message ids %v of the listed ranges: %s", what, missing, e.Text)
					return o
				}
			}
		}
		// deletion log rows, both kinds of delete
		if r.DlNote != "" {
			o.Classes = append(o.Classes, "dellog-not-judged:"+r.DlNote)
		} else {
			type row struct{ lo, hi int }
			var rows []row
			rowsOK := true
			for _, txt := range r.Dellog {
				tbl, m, ok := c04sInsertRow(txt)
				lo, hi := m["low"], m["hi"]
				if !ok || tbl != "dellog" || lo.K != 'n' || hi.K != 'n' {
					rowsOK = false
					notUnderstood(txt)
					break
				}
				l, _ := strconv.Atoi(lo.S)
				h, _ := strconv.Atoi(hi.S)
				rows = append(rows, row{l, h})
			}
			if rowsOK {
				o.Classes = append(o.Classes, "dellog-rows-judged")
				covered := func(id int) bool {
					for _, rw := range rows {
						if id >= rw.lo && id < rw.hi {
							return true
						}
					}
					return false
				}
				extra, missing := c04sDiff(covered, want, c04sDomain)
				if len(extra) > 0 {
					o.Viol = kit.V("sql-dellog-extra-ids", "%s: the deletion log rows, read as [low,hi), cover ids %v outside the listed ranges: %s", what, extra, strings.Join(r.Dellog, " ; "))
					return o
				}
				if len(missing) > 0 {
					o.Viol = kit.V("sql-dellog-missing-ids", "%s: the deletion log rows, read as [low,hi), do not cover ids %v of the listed ranges: %s", what, missing, strings.Join(r.Dellog, " ; "))
					return o
				}
			}
		}
		multi := len(ranges) >= 2 || (len(ranges) == 1 && ranges[0].Hi > ranges[0].Low+1)
		o.NonTrivial = understood && multi
		if v := c04sFaultSweep(&c, ranges, r, what, len(ranges) >= 2, &o); v != nil {
			o.Viol = v
			return o
		}

	case "getall", "getdel":
		col, table := "seqid", "MESSAGES"
		sigExtra, sigMissing := "sql-history-extra-ids", "sql-history-missing-ids"
		if c.Op == "getdel" {
			col, table = "delid", "DELLOG"
			sigExtra, sigMissing = "sql-dellog-query-extra", "sql-dellog-query-missing"
		}
		what += fmt.Sprintf(" since=%d before=%d limit=%d", c.Since, c.Before, c.Limit)
		before := c.Before
		if c.Op == "getdel" && before == 1 {
			// Carve-out shared with the world oracle of C04 (harness/world/c04_test.go, `before > 1`):
			// both SQL adapters treat before=1 in a deletion-log query as "no upper bound" (opts.Before > 1),
			// where the half-open reading [since, 1) selects no transaction at all (numbers start at 1).
			// Not judged here; made visible in the class histogram.
			o.Classes = append(o.Classes, "getdel-before=1-read-as-absent")
			before = 0
		}
		want := func(id int) bool { return (c.Since == 0 || id >= c.Since) && (before == 0 || id < before) }
		sel := c04sFind(r.Evs, func(up string, e c18Ev) bool {
			return e.Cls == "read" && strings.Contains(up, "FROM "+table)
		})
		if len(sel) != 1 {
			o.Classes = append(o.Classes, fmt.Sprintf("selects-on-%s:%d", strings.ToLower(table), len(sel)))
			understood = false
		}
		for _, e := range sel {
			known, _ := c04sSelectsCol(e.Text, col, 1)
			if !known {
				notUnderstood(e.Text)
				continue
			}
			o.Classes = append(o.Classes, c.Op+"-where:"+c04sPredClass(e.Text, col))
			extra, missing := c04sDiff(func(id int) bool { _, s := c04sSelectsCol(e.Text, col, id); return s }, want, c04sDomain)
			if len(extra) > 0 {
				o.Viol = kit.V(sigExtra, "%s: the query selects %s values %v outside since <= id < before: %s", what, col, extra, e.Text)
				return o
			}
			if len(missing) > 0 {
				o.Viol = kit.V(sigMissing, "%s: the query does not select %s values %v although since <= id < before: %s", what, col, missing, e.Text)
				return o
			}
			if c.Op == "getall" {
				lim, ok := c04sLimit(e.Text)
				if !ok {
					o.Classes = append(o.Classes, "limit-not-understood")
					understood = false
					continue
				}
				bad := lim < 1 || lim > r.MaxMsgs
				if c.Limit > 0 {
					w := c.Limit
					if r.MaxMsgs < w {
						w = r.MaxMsgs
					}
					bad = lim != w
				}
				if bad {
					o.Viol = kit.V("sql-history-limit", "%s: LIMIT %d; demanded: min(requested limit, adapter maximum %d) (at most the maximum when none is requested): %s", what, lim, r.MaxMsgs, e.Text)
					return o
				}
			}
		}
		o.NonTrivial = understood && c.Since > 0 && c.Before > 0
		if c.Since > 0 && c.Before > 0 && c.Since >= c.Before {
			o.Classes = append(o.Classes, "window-empty")
		}
	}
	return o
}

// c04sSwept: trace shapes whose fault sweep came out clean in this process (see c04sFaultSweep).
var c04sSwept = struct {
	sync.Mutex
	m map[string]bool
}{m: map[string]bool{}}

func c04sShape(c *c04sCase, evs []c18Ev) string {
	var sb strings.Builder
	sb.WriteString(c.Op)
	for _, e := range evs {
		w := strings.Fields(e.Text)
		if len(w) > 2 {
			w = w[:2]
		}
		sb.WriteString(";" + e.Cls + ":" + strings.ToUpper(strings.Join(w, " ")))
	}
	return sb.String()
}

// c04sFaultSweep runs the delete of c once per statement position of its fault-free trace dry.Evs
// with that statement failing, and judges every run: the failure must come back to the caller and
// must not be followed by a COMMIT.
func c04sFaultSweep(c *c04sCase, ranges []t.Range, dry c04sRun, what string, always bool, o *kit.Outcome) *kit.Viol {
	pos := c18Positions(dry.Evs)
	shape := c04sShape(c, dry.Evs)
	if !always {
		c04sSwept.Lock()
		done := c04sSwept.m[shape]
		c04sSwept.Unlock()
		if done {
			o.Classes = append(o.Classes, "fault-sweep:same-shape-swept-before")
			return nil
		}
	}
	for k := 1; k <= len(pos); k++ {
		fr := c04sDo(c, ranges, k, "err")
		if fr.Harness != "" {
			return kit.V("harness:"+c18AdapterName, "harness problem in the run with statement %d failing: %s", k, fr.Harness)
		}
		fi := -1
		for i, e := range fr.Evs {
			if e.Fault {
				fi = i
				break
			}
		}
		if fi < 0 {
			// cannot happen: up to statement k the run is identical to the fault-free one
			o.Classes = append(o.Classes, "fault-sweep:position-not-reached")
			continue
		}
		failed := fr.Evs[fi]
		if os.Getenv("C04S_SHOW") != "" {
			fmt.Printf("    k=%d err=%v panic=%q: %s\n", k, fr.Err, fr.Panic, strings.Join(c18TraceStrings(fr.Evs), " | "))
		}
		if fr.Panic != "" {
			o.Classes = append(o.Classes, "fault-sweep:call-panicked")
			continue
		}
		committed := false
		for _, e := range fr.Evs[fi+1:] {
			if e.Conn == failed.Conn && e.Cls == "commit" && e.Res == "ok" {
				committed = true
			}
		}
		tr := strings.Join(c18TraceStrings(fr.Evs), "\n    ")
		if fr.Err == nil {
			after := "no COMMIT followed"
			if committed {
				after = "the transaction was then COMMITTED: the delete is reported as done and is durable although it is incomplete"
			}
			return kit.V("sql-delete-failure-swallowed", "%s: statement %d of the delete failed (%s) but MessageDeleteList returned nil; %s; statement trace:\n    %s", what, k, failed, after, tr)
		}
		if committed {
			return kit.V("sql-delete-committed-after-failure", "%s: statement %d of the delete failed (%s), MessageDeleteList returned %q, and a COMMIT followed the failed statement: a part of the delete is durable; statement trace:\n    %s", what, k, failed, fr.Err, tr)
		}
	}
	o.Classes = append(o.Classes, "fault-sweep:judged")
	c04sSwept.Lock()
	c04sSwept.m[shape] = true
	c04sSwept.Unlock()
	return nil
}

// c04sSelfCheck pins the evaluator on hand-written statements before it is trusted as an oracle
// (a failure makes the unit inconclusive, not a violation).
func c04sSelfCheck() error {
	type row struct {
		sql   string
		col   string
		known bool
		want  []int // selected ids among 1..8
	}
	rows := []row{
		{"UPDATE messages AS m SET m.deletedAt='x',m.delId=3 WHERE m.topic='grp' AND m.seqid BETWEEN 3 AND 5 AND m.deletedAt IS NULL", "seqid", true, []int{3, 4, 5}},
		{"UPDATE messages AS m SET deletedat= 'x' ,delid= 2  WHERE m.topic= 'g'  AND m.seqid IN ( 1 ,  7 ) AND m.deletedAt IS NULL", "seqid", true, []int{1, 7}},
		{"SELECT a FROM messages AS m LEFT JOIN dellog AS d ON d.topic=m.topic AND m.seqid BETWEEN d.low AND d.hi-1 AND d.deletedfor=5 WHERE m.delid=0 AND m.topic='seqid=1' AND m.seqid BETWEEN 2 AND 2147483647 AND d.deletedfor IS NULL ORDER BY m.seqid DESC LIMIT 24", "seqid", true, []int{2, 3, 4, 5, 6, 7, 8}},
		{"SELECT a FROM messages WHERE topic='t' AND seqid>=2 AND seqid<5", "seqid", true, []int{2, 3, 4}},
		{"SELECT a FROM messages WHERE topic='t' AND seqid>2 AND seqid<=5 LIMIT 3", "seqid", true, []int{3, 4, 5}},
		{"SELECT a FROM messages WHERE seqid=4", "seqid", true, []int{4}},
		{"SELECT a FROM messages WHERE topic='it''s AND seqid=1' AND m.seqid = 6", "seqid", true, []int{6}},
		{"SELECT a FROM messages WHERE topic='t'", "seqid", true, []int{1, 2, 3, 4, 5, 6, 7, 8}},
		{"SELECT a FROM messages", "seqid", true, []int{1, 2, 3, 4, 5, 6, 7, 8}},
		{"SELECT a FROM messages WHERE m.seqid BETWEEN 5 AND 3", "seqid", true, nil},
		{"SELECT a FROM dellog WHERE topic='t' AND delid BETWEEN 2 AND 3 AND (deletedFor=0 OR deletedFor=7) ORDER BY delid LIMIT 5", "delid", true, []int{2, 3}},
		{"SELECT a FROM messages WHERE m.seqid BETWEEN d.low AND d.hi-1", "seqid", false, nil},
		{"SELECT a FROM messages WHERE m.seqid BETWEEN 1 AND 5-1", "seqid", false, nil},
		{"SELECT a FROM messages WHERE m.seqid<>3", "seqid", false, nil},
		{"SELECT a FROM messages WHERE NOT m.seqid=3", "seqid", false, nil},
		{"SELECT a FROM messages WHERE m.seqid NOT IN (3)", "seqid", false, nil},
		{"SELECT a FROM messages WHERE m.seqid=3 OR m.topic='t'", "seqid", false, nil},
		{"SELECT a FROM messages WHERE (m.seqid=3 OR m.seqid=4)", "seqid", false, nil},
		{"SELECT a FROM messages WHERE 3<=m.seqid", "seqid", false, nil},
		{"SELECT a FROM messages WHERE m.seqid IN (SELECT x FROM y)", "seqid", false, nil},
		{"SELECT a FROM messages WHERE m.seqid>=$1", "seqid", false, nil},
		{"SELECT a FROM messages WHERE m.seqid IN (?,?)", "seqid", false, nil},
	}
	for _, rw := range rows {
		var got []int
		known := true
		for id := 1; id <= 8; id++ {
			k, s := c04sSelectsCol(rw.sql, rw.col, id)
			known = known && k
			if k && s {
				got = append(got, id)
			}
		}
		if known != rw.known || (known && fmt.Sprint(got) != fmt.Sprint(rw.want)) {
			return fmt.Errorf("evaluator self-check: %q on %s: known=%v selected=%v, expected known=%v selected=%v", rw.sql, rw.col, known, got, rw.known, rw.want)
		}
	}
	if v, ok := c04sLimit("SELECT a FROM t WHERE x=1 ORDER BY y DESC LIMIT  24 "); !ok || v != 24 {
		return fmt.Errorf("evaluator self-check: LIMIT literal read as %d, %v", v, ok)
	}
	if _, ok := c04sLimit("SELECT a FROM t WHERE x=1 ORDER BY y DESC LIMIT ?"); ok {
		return fmt.Errorf("evaluator self-check: LIMIT ? accepted as a literal")
	}
	tbl, m, ok := c04sInsertRow("EXECUTE INSERT INTO dellog(topic,deletedfor,delid,low,hi) VALUES( 'a,b)' , 0 , 2 , 7 , 11 )")
	if !ok || tbl != "dellog" || m["low"].S != "7" || m["hi"].S != "11" || m["low"].K != 'n' {
		return fmt.Errorf("evaluator self-check: INSERT row read as %v %v %v", tbl, m, ok)
	}
	return nil
}

func c04sUnit(tt *testing.T, unit string) {
	if err := c04sSelfCheck(); err != nil {
		tt.Fatal(err)
	}
	defer c18Cleanup()
	kit.Check(tt, "C04", unit, c04sGen, c04sExec)
}
