#!/bin/sh
# Regenerates harness/c18pg/c18common_test.go from harness/c18mysql/c18common_test.go
# (the adapter-independent part of the C18 check; only the package clause differs).
cd "$(dirname "$0")" && sed 's/^package mysql$/package postgres/' c18common_test.go > ../c18pg/c18common_test.go
