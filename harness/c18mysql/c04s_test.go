//go:build mysql
// +build mysql

package mysql

// C04 on the SQL of the MySQL adapter (see c04scommon_test.go). MySQL specific part:
// messageDeleteList sends the INSERT INTO dellog through tx.Prepare, so its values travel as
// binary parameters of COM_STMT_EXECUTE, which the C18 fake server does not record. c04sTap is a
// byte-forwarding proxy between the driver and the fake server that frames the packets of both
// directions, learns statement id -> (text, parameter count) from the COM_STMT_PREPARE answers and
// decodes the parameters of every COM_STMT_EXECUTE into the statement text ('?' replaced by the
// literal), so that the dellog rows can be judged like the PostgreSQL ones.

import (
	"bufio"
	"encoding/binary"
	"fmt"
	"io"
	"math"
	"net"
	"os"
	"strconv"
	"strings"
	"sync"
	"testing"
)

type c04sTapStmt struct {
	q  string
	np int
}

type c04sTap struct {
	sock, upstream string
	l              net.Listener
	mu             sync.Mutex
	cs             map[net.Conn]struct{}
	execs          []string // every COM_STMT_EXECUTE in arrival order, parameters interpolated
	bad            []string // executes whose parameters could not be decoded
	wg             sync.WaitGroup
}

func c04sStartTap(srv *c18Srv) (*c04sTap, error) {
	tp := &c04sTap{sock: srv.sock + ".tap", upstream: srv.sock, cs: map[net.Conn]struct{}{}}
	var err error
	if tp.l, err = net.Listen("unix", tp.sock); err != nil {
		return nil, err
	}
	tp.wg.Add(1)
	go func() {
		defer tp.wg.Done()
		for {
			c, err := tp.l.Accept()
			if err != nil {
				return
			}
			u, err := net.Dial("unix", tp.upstream)
			if err != nil {
				c.Close()
				continue
			}
			tp.mu.Lock()
			tp.cs[c], tp.cs[u] = struct{}{}, struct{}{}
			tp.mu.Unlock()
			tp.wg.Add(1)
			go func() {
				defer tp.wg.Done()
				tp.pipe(c, u)
				tp.mu.Lock()
				delete(tp.cs, c)
				delete(tp.cs, u)
				tp.mu.Unlock()
			}()
		}
	}()
	return tp, nil
}

func (tp *c04sTap) stop() {
	tp.l.Close()
	tp.mu.Lock()
	for c := range tp.cs {
		c.Close()
	}
	tp.mu.Unlock()
	tp.wg.Wait()
	os.Remove(tp.sock)
}

func (tp *c04sTap) snapshot() (execs, bad []string) {
	tp.mu.Lock()
	defer tp.mu.Unlock()
	return append([]string(nil), tp.execs...), append([]string(nil), tp.bad...)
}

// c04sFrame reads one wire packet: header (3 bytes length, 1 byte sequence number) + payload.
func c04sFrame(r *bufio.Reader) (raw []byte, seq byte, payload []byte, err error) {
	h := make([]byte, 4)
	if _, err = io.ReadFull(r, h); err != nil {
		return
	}
	n := int(h[0]) | int(h[1])<<8 | int(h[2])<<16
	raw = make([]byte, 4+n)
	copy(raw, h)
	if _, err = io.ReadFull(r, raw[4:]); err != nil {
		return
	}
	return raw, h[3], raw[4:], nil
}

func (tp *c04sTap) pipe(client, server net.Conn) {
	defer client.Close()
	defer server.Close()
	var mu sync.Mutex
	pending := "" // text of the COM_STMT_PREPARE whose answer has not arrived yet
	havePending := false
	stmts := map[uint32]c04sTapStmt{}
	done := make(chan struct{})
	go func() { // server -> client
		defer close(done)
		defer client.Close()
		r := bufio.NewReader(server)
		for {
			raw, seq, p, err := c04sFrame(r)
			if err != nil {
				return
			}
			mu.Lock()
			if havePending && seq == 1 {
				if len(p) >= 9 && p[0] == 0 {
					stmts[binary.LittleEndian.Uint32(p[1:5])] = c04sTapStmt{q: pending, np: int(binary.LittleEndian.Uint16(p[7:9]))}
				}
				havePending = false
			}
			mu.Unlock()
			if _, err := client.Write(raw); err != nil {
				return
			}
		}
	}()
	r := bufio.NewReader(client)
	for {
		raw, seq, p, err := c04sFrame(r)
		if err != nil {
			break
		}
		if seq == 0 && len(p) > 0 {
			switch p[0] {
			case 0x16: // COM_STMT_PREPARE
				mu.Lock()
				pending, havePending = string(p[1:]), true
				mu.Unlock()
			case 0x17: // COM_STMT_EXECUTE
				mu.Lock()
				var st c04sTapStmt
				ok := false
				if len(p) >= 5 {
					st, ok = stmts[binary.LittleEndian.Uint32(p[1:5])]
				}
				mu.Unlock()
				txt, good := "", false
				if ok {
					txt, good = c04sDecodeExec(st, p)
				}
				tp.mu.Lock()
				if good {
					tp.execs = append(tp.execs, txt)
				} else {
					tp.execs = append(tp.execs, "")
					tp.bad = append(tp.bad, st.q)
				}
				tp.mu.Unlock()
			case 0x19: // COM_STMT_CLOSE
				if len(p) >= 5 {
					mu.Lock()
					delete(stmts, binary.LittleEndian.Uint32(p[1:5]))
					mu.Unlock()
				}
			}
		}
		if _, err := server.Write(raw); err != nil {
			break
		}
	}
	server.Close()
	<-done
}

// c04sLenenc decodes a length-encoded integer.
func c04sLenenc(p []byte) (v uint64, n int, ok bool) {
	if len(p) == 0 {
		return 0, 0, false
	}
	switch {
	case p[0] < 0xfb:
		return uint64(p[0]), 1, true
	case p[0] == 0xfc && len(p) >= 3:
		return uint64(binary.LittleEndian.Uint16(p[1:3])), 3, true
	case p[0] == 0xfd && len(p) >= 4:
		return uint64(p[1]) | uint64(p[2])<<8 | uint64(p[3])<<16, 4, true
	case p[0] == 0xfe && len(p) >= 9:
		return binary.LittleEndian.Uint64(p[1:9]), 9, true
	}
	return 0, 0, false
}

// c04sDecodeExec renders COM_STMT_EXECUTE payload p of statement st as SQL text with literals.
// Layout: 0x17, stmt id (4), flags (1), iteration count (4), NULL bitmap ((n+7)/8),
// new-params-bound flag (1), n x (type, flags), values in the binary protocol encoding.
func c04sDecodeExec(st c04sTapStmt, p []byte) (string, bool) {
	n := st.np
	if n != strings.Count(st.q, "?") {
		return "", false
	}
	pos := 10
	var lits []string
	if n > 0 {
		nb := (n + 7) / 8
		if len(p) < pos+nb+1 {
			return "", false
		}
		nulls := p[pos : pos+nb]
		pos += nb
		if p[pos] != 1 { // types were sent with an earlier execution: not kept, not needed (database/sql always rebinds)
			return "", false
		}
		pos++
		if len(p) < pos+2*n {
			return "", false
		}
		types := p[pos : pos+2*n]
		pos += 2 * n
		for i := 0; i < n; i++ {
			if nulls[i/8]&(1<<(uint(i)%8)) != 0 {
				lits = append(lits, "NULL")
				continue
			}
			typ, unsigned := types[2*i], types[2*i+1]&0x80 != 0
			fixed := func(k int) ([]byte, bool) {
				if len(p) < pos+k {
					return nil, false
				}
				b := p[pos : pos+k]
				pos += k
				return b, true
			}
			switch typ {
			case 0x06: // NULL
				lits = append(lits, "NULL")
			case 0x01: // TINY
				b, ok := fixed(1)
				if !ok {
					return "", false
				}
				if unsigned {
					lits = append(lits, strconv.Itoa(int(b[0])))
				} else {
					lits = append(lits, strconv.Itoa(int(int8(b[0]))))
				}
			case 0x02: // SHORT
				b, ok := fixed(2)
				if !ok {
					return "", false
				}
				if unsigned {
					lits = append(lits, strconv.Itoa(int(binary.LittleEndian.Uint16(b))))
				} else {
					lits = append(lits, strconv.Itoa(int(int16(binary.LittleEndian.Uint16(b)))))
				}
			case 0x03: // LONG
				b, ok := fixed(4)
				if !ok {
					return "", false
				}
				if unsigned {
					lits = append(lits, strconv.FormatUint(uint64(binary.LittleEndian.Uint32(b)), 10))
				} else {
					lits = append(lits, strconv.Itoa(int(int32(binary.LittleEndian.Uint32(b)))))
				}
			case 0x08: // LONGLONG
				b, ok := fixed(8)
				if !ok {
					return "", false
				}
				if unsigned {
					lits = append(lits, strconv.FormatUint(binary.LittleEndian.Uint64(b), 10))
				} else {
					lits = append(lits, strconv.FormatInt(int64(binary.LittleEndian.Uint64(b)), 10))
				}
			case 0x05: // DOUBLE
				b, ok := fixed(8)
				if !ok {
					return "", false
				}
				lits = append(lits, strconv.FormatFloat(math.Float64frombits(binary.LittleEndian.Uint64(b)), 'g', -1, 64))
			case 0x0f, 0xfc, 0xfd, 0xfe, 0xf9, 0xfa, 0xfb: // VARCHAR, BLOBs, VAR_STRING, STRING
				l, k, ok := c04sLenenc(p[pos:])
				if !ok || len(p) < pos+k+int(l) {
					return "", false
				}
				s := string(p[pos+k : pos+k+int(l)])
				pos += k + int(l)
				lits = append(lits, "'"+strings.ReplaceAll(strings.ReplaceAll(s, `\`, `\\`), "'", "''")+"'")
			default:
				return "", false
			}
		}
		if pos != len(p) {
			return "", false
		}
	}
	var sb strings.Builder
	k := 0
	for i := 0; i < len(st.q); i++ {
		if st.q[i] == '?' {
			sb.WriteString(lits[k])
			k++
			continue
		}
		sb.WriteByte(st.q[i])
	}
	return sb.String(), true
}

// c04sOpenCfg: the adapter configuration for this run; the DSN points at the tap instead of the
// fake server's own socket.
func c04sOpenCfg(srv *c18Srv) (string, *c04sTap, error) {
	tp, err := c04sStartTap(srv)
	if err != nil {
		return "", nil, err
	}
	cfg := srv.config(false)
	if strings.Count(cfg, "unix("+srv.sock+")") != 1 {
		tp.stop()
		return "", nil, fmt.Errorf("unexpected DSN shape: %s", cfg)
	}
	return strings.Replace(cfg, "unix("+srv.sock+")", "unix("+tp.sock+")", 1), tp, nil
}

// c04sDellogTexts returns the literal text of every INSERT INTO dellog the server executed, in
// order. The i-th EXECUTE event of the fake server's trace is the i-th execute seen by the tap.
func c04sDellogTexts(evs []c18Ev, tp *c04sTap) (rows []string, note string) {
	execs, bad := tp.snapshot()
	if len(bad) > 0 {
		return nil, "execute-parameters-not-decoded"
	}
	i := 0
	for _, e := range evs {
		up := strings.ToUpper(e.Text)
		isExec := strings.HasPrefix(up, "EXECUTE ")
		if isExec {
			if i >= len(execs) {
				return nil, "tap-out-of-step"
			}
			txt := execs[i]
			i++
			if e.Cls == "write" && e.Ins && strings.Contains(up, "INTO DELLOG") {
				if e.Res != "ok" {
					return nil, "dellog-insert-failed"
				}
				rows = append(rows, txt)
			}
			continue
		}
		if e.Cls == "write" && e.Ins && strings.Contains(up, "INTO DELLOG") {
			// sent as plain text (COM_QUERY, parameters interpolated by the driver)
			rows = append(rows, e.Text)
		}
	}
	if i != len(execs) {
		return nil, "tap-out-of-step"
	}
	return rows, ""
}

func TestC04SqlMySQL(tt *testing.T) { c04sUnit(tt, "TestC04SqlMySQL") }
