package types

// C05 — access modes obey one algebra in every representation (pure part).
// Oracle: an independent 8-bit set model written from the property statement.

import (
	"encoding/json"
	"strings"
	"testing"

	kit "github.com/tinode/chat/server/zzverifkit"
	"pgregory.net/rapid"
)

const c05Letters = "JRWPASDO"

func c05Canon(m int) string {
	if m == 0 {
		return "N"
	}
	var sb strings.Builder
	for i := 0; i < 8; i++ {
		if m&(1<<i) != 0 {
			sb.WriteByte(c05Letters[i])
		}
	}
	return sb.String()
}

func c05Bit(c byte) int {
	i := strings.IndexByte(c05Letters, c&^0x20) // upper-case ASCII letters
	if i < 0 || !((c >= 'a' && c <= 'z') || (c >= 'A' && c <= 'Z')) {
		return -1
	}
	return 1 << i
}

// TestC05Exhaustive enumerates all 256 sets and all 65 536 ordered pairs.
func TestC05Exhaustive(t *testing.T) {
	r := kit.Begin("C05", "TestC05Exhaustive")
	defer r.Flush()
	fail := func(sig, f string, a ...any) {
		v := kit.V(sig, f, a...)
		if !r.Violation(v, map[string]any{"note": v.Msg}) {
			t.Fatalf("violation %s: %s", v.Sig, v.Msg)
		}
	}
	for m := 0; m < 256; m++ {
		am := AccessMode(m)
		canon := c05Canon(m)
		if am.String() != canon {
			fail("canon-text", "String(%d)=%q want %q", m, am.String(), canon)
		}
		// text, lower-case text, permuted text, JSON, Scan/Value all come back to m
		forms := []string{canon, strings.ToLower(canon)}
		rev := []byte(canon)
		for i, j := 0, len(rev)-1; i < j; i, j = i+1, j-1 {
			rev[i], rev[j] = rev[j], rev[i]
		}
		forms = append(forms, string(rev), canon+canon)
		if m == 0 {
			forms = forms[:2]
		}
		for _, f := range forms {
			for _, start := range []AccessMode{ModeNone, ModeCFull, ModeCPublic} {
				got := start
				if err := got.UnmarshalText([]byte(f)); err != nil || got != am {
					fail("roundtrip-text", "UnmarshalText(%q) onto %v = %v, %v; want %v", f, start, got, err, am)
				}
			}
			pm, err := ParseAcs([]byte(f))
			if err != nil || pm&ModeBitmask != am {
				fail("roundtrip-parse", "ParseAcs(%q)=%v,%v want %v", f, pm, err, am)
			}
		}
		js, err := json.Marshal(am)
		var back AccessMode = ModeCFull
		if err != nil || json.Unmarshal(js, &back) != nil || back != am || string(js) != `"`+canon+`"` {
			fail("roundtrip-json", "JSON %d -> %s -> %v (%v)", m, js, back, err)
		}
		val, err := am.Value()
		var sc AccessMode = ModeCFull
		if err != nil || sc.Scan([]byte(val.(string))) != nil || sc != am {
			fail("roundtrip-sql", "Value/Scan %d -> %v -> %v (%v)", m, val, sc, err)
		}
		// empty string = no change
		keep := am
		if err := keep.UnmarshalText(nil); err != nil || keep != am {
			fail("empty-nochange", "UnmarshalText(\"\") changed %v to %v (%v)", am, keep, err)
		}
		if err := keep.ApplyMutation(""); err != nil || keep != am {
			fail("empty-nochange", "ApplyMutation(\"\") changed %v to %v (%v)", am, keep, err)
		}
		if err := keep.ApplyDelta(""); err != nil || keep != am {
			fail("empty-nochange", "ApplyDelta(\"\") changed %v to %v (%v)", am, keep, err)
		}
		r.Case(uint64(1<<32|m), true, "single")
	}
	for o := 0; o < 256; o++ {
		for n := 0; n < 256; n++ {
			ao, an := AccessMode(o), AccessMode(n)
			d := ao.Delta(an)
			got := ao
			if err := got.ApplyDelta(d); err != nil || got != an {
				fail("delta-apply", "%v.ApplyDelta(%v.Delta(%v)=%q) = %v, %v", ao, ao, an, d, got, err)
			}
			got = ao
			if err := got.ApplyMutation(d); err != nil || got != an {
				fail("delta-mutation", "%v.ApplyMutation(%q) = %v, %v; want %v", ao, d, got, err, an)
			}
			if (d == "") != (o == n) {
				fail("delta-empty", "Delta(%v,%v)=%q", ao, an, d)
			}
			// the delta mentions only bits that differ, each once
			added, removed := 0, 0
			sign := byte(0)
			for i := 0; i < len(d); i++ {
				switch d[i] {
				case '+', '-':
					sign = d[i]
				default:
					b := c05Bit(d[i])
					if b < 0 || sign == 0 {
						fail("delta-form", "Delta(%v,%v)=%q malformed", ao, an, d)
					} else if sign == '+' {
						added |= b
					} else {
						removed |= b
					}
				}
			}
			if added != n&^o || removed != o&^n {
				fail("delta-bits", "Delta(%v,%v)=%q adds %d removes %d", ao, an, d, added, removed)
			}
			// assignment form of the new mode also yields n
			got = ao
			if err := got.ApplyMutation(an.String()); err != nil || got != an {
				fail("assign-mutation", "%v.ApplyMutation(%q) = %v, %v", ao, an.String(), got, err)
			}
			// effective permission helpers agree with set intersection
			if ao.BetterEqual(an) != (o&n == n) || ao.BetterThan(an) != (o&^n != 0) {
				fail("better", "BetterEqual/BetterThan(%v,%v) wrong", ao, an)
			}
			r.Case(uint64(o<<8|n), true, "pair")
		}
	}
	r.Sample(map[string]any{"old": "JRWP", "new": "JRS", "delta": AccessMode(15).Delta(AccessMode(0x23))})
	r.Extra("exhaustive", true)
}

type c05Str struct {
	Start int    `json:"start"`
	S     string `json:"s"`
}

// c05Classify returns: kind ("assign"|"delta"), whether the statement fixes the
// result, the expected error flag and expected value.
func c05Classify(start int, s string) (kind string, specified bool, wantErr bool, want int) {
	hasSign := strings.ContainsAny(s, "+-")
	junk, hasN := false, false
	for i := 0; i < len(s); i++ {
		c := s[i]
		if c == 'N' || c == 'n' {
			hasN = true
		} else if c == '+' || c == '-' {
		} else if c05Bit(c) < 0 {
			junk = true
		}
	}
	if !hasSign {
		kind = "assign"
		switch {
		case junk:
			return kind, true, true, start
		case s == "":
			return kind, true, false, start
		case s == "N" || s == "n":
			return kind, true, false, 0
		case hasN:
			return kind, false, false, 0
		}
		m := 0
		for i := 0; i < len(s); i++ {
			m |= c05Bit(s[i])
		}
		return kind, true, false, m
	}
	kind = "delta"
	if junk {
		return kind, true, true, start
	}
	if hasN || (s[0] != '+' && s[0] != '-') {
		return kind, false, false, 0
	}
	m := start
	var sign byte
	for i := 0; i < len(s); i++ {
		switch s[i] {
		case '+', '-':
			sign = s[i]
		default:
			if sign == '+' {
				m |= c05Bit(s[i])
			} else {
				m &^= c05Bit(s[i])
			}
		}
	}
	return kind, true, false, m
}

func c05GenStr(rt *rapid.T) c05Str {
	alpha := []rune("JRWPASDOjrwpasdoJRWPNn+-")
	// (also letters which Unicode case folding maps onto letters of the alphabet: long s, Kelvin sign,
	// dotless/dotted i, full-width forms)
	junk := []rune("xX?0 ,\"\x00éZ*ſKıİＪｒＷ")
	n := rapid.IntRange(0, 8).Draw(rt, "len")
	withJunk := rapid.IntRange(0, 3).Draw(rt, "junk") == 0
	rs := make([]rune, n)
	for i := range rs {
		if withJunk && rapid.IntRange(0, 3).Draw(rt, "j") == 0 {
			rs[i] = rapid.SampledFrom(junk).Draw(rt, "jr")
		} else {
			rs[i] = rapid.SampledFrom(alpha).Draw(rt, "r")
		}
	}
	return c05Str{Start: rapid.IntRange(0, 255).Draw(rt, "start"), S: string(rs)}
}

func c05ExecStr(c c05Str) kit.Outcome {
	kind, specified, wantErr, want := c05Classify(c.Start, c.S)
	o := kit.Outcome{Classes: []string{kind}}
	hasLetter := false
	for i := 0; i < len(c.S); i++ {
		if c05Bit(c.S[i]) >= 0 {
			hasLetter = true
		}
	}
	o.NonTrivial = hasLetter && (wantErr || strings.ContainsAny(c.S, "Nn+-"))
	if !specified {
		o.Classes = append(o.Classes, "unspecified")
	} else if wantErr {
		o.Classes = append(o.Classes, "must-reject")
	} else {
		o.Classes = append(o.Classes, "must-accept")
	}
	type fn struct {
		name string
		f    func(*AccessMode, string) error
		on   bool
	}
	fns := []fn{
		{"ApplyMutation", func(m *AccessMode, s string) error { return m.ApplyMutation(s) }, true},
		{"UnmarshalText", func(m *AccessMode, s string) error { return m.UnmarshalText([]byte(s)) }, kind == "assign"},
		{"UnmarshalJSON", func(m *AccessMode, s string) error {
			b, _ := json.Marshal(s)
			return json.Unmarshal(b, m)
		}, kind == "assign" && isASCII(c.S)},
		{"Scan", func(m *AccessMode, s string) error { return m.Scan([]byte(s)) }, kind == "assign"},
		{"ApplyDelta", func(m *AccessMode, s string) error { return m.ApplyDelta(s) }, kind == "delta"},
	}
	for _, f := range fns {
		if !f.on {
			continue
		}
		got := AccessMode(c.Start)
		err := f.f(&got, c.S)
		if err != nil && got != AccessMode(c.Start) {
			o.Viol = kit.V("reject-changed-target:"+f.name, "%s(%q) on %v returned error %v but changed the target to %v", f.name, c.S, AccessMode(c.Start), err, got)
			return o
		}
		if !specified {
			// 'N' next to other letters: the statement does not say whether that is an error, but a set
			// has one meaning whatever the order of its letters ("one canonical text form ... letters in
			// any case"): the same letters in reverse order get the same treatment
			if kind == "assign" && !strings.ContainsAny(c.S, "+-") {
				rev := []byte(c.S)
				for i, j := 0, len(rev)-1; i < j; i, j = i+1, j-1 {
					rev[i], rev[j] = rev[j], rev[i]
				}
				got2 := AccessMode(c.Start)
				err2 := f.f(&got2, string(rev))
				if (err == nil) != (err2 == nil) || (err == nil && got != got2) {
					o.Viol = kit.V("order-of-letters-matters:"+f.name, "%s(%q) on %v = %v, %v but %s(%q) = %v, %v: the same letters in another order", f.name, c.S, AccessMode(c.Start), got, err, f.name, string(rev), got2, err2)
					return o
				}
			}
			continue
		}
		if wantErr && err == nil {
			o.Viol = kit.V("junk-accepted:"+f.name, "%s(%q) on %v accepted a string with characters outside the mode alphabet (result %v)", f.name, c.S, AccessMode(c.Start), got)
			return o
		}
		if !wantErr && (err != nil || int(got) != want) {
			o.Viol = kit.V("wrong-result:"+f.name, "%s(%q) on %v = %v, %v; want %v", f.name, c.S, AccessMode(c.Start), got, err, AccessMode(want))
			return o
		}
	}
	return o
}

func isASCII(s string) bool {
	for i := 0; i < len(s); i++ {
		if s[i] >= 0x80 || s[i] < 0x20 {
			return false
		}
	}
	return true
}

func TestC05Strings(t *testing.T) {
	kit.Check(t, "C05", "TestC05Strings", c05GenStr, c05ExecStr)
}

func FuzzC05Strings(f *testing.F) { kit.FuzzOf(f, "C05", "TestC05Strings", c05GenStr, c05ExecStr) }
