package types

// C04 (pure part) — RangeSorter.Normalize must preserve the covered id set.
// A range covers [Low, Hi); Hi == 0 covers {Low}. Callers sort with RangeSorter
// before calling Normalize (topic.go replyDelMsg, store.go GetDeleted).

import (
	"fmt"
	"sort"
	"testing"

	kit "github.com/tinode/chat/server/zzverifkit"
	"pgregory.net/rapid"
)

type c04Ranges struct {
	R [][2]int `json:"r"`
}

func c04Cover(rs []Range) map[int]bool {
	m := map[int]bool{}
	for _, r := range rs {
		if r.Hi == 0 {
			m[r.Low] = true
			continue
		}
		for i := r.Low; i < r.Hi; i++ {
			m[i] = true
		}
	}
	return m
}

func c04Gen(rt *rapid.T) c04Ranges {
	n := rapid.IntRange(0, 7).Draw(rt, "n")
	max := rapid.SampledFrom([]int{6, 12, 30}).Draw(rt, "max")
	out := c04Ranges{}
	for i := 0; i < n; i++ {
		low := rapid.IntRange(1, max).Draw(rt, "low")
		var hi int
		switch rapid.IntRange(0, 5).Draw(rt, "kind") {
		case 0:
			hi = 0 // single id
		case 1:
			hi = low + 1 // single id spelled as a range
		case 2:
			hi = low + 2
		default:
			hi = low + rapid.IntRange(1, 8).Draw(rt, "w")
		}
		out.R = append(out.R, [2]int{low, hi})
	}
	return out
}

func c04Exec(c c04Ranges) kit.Outcome {
	in := make([]Range, len(c.R))
	for i, r := range c.R {
		in[i] = Range{Low: r[0], Hi: r[1]}
	}
	want := c04Cover(in)
	// features for the non-trivial rule
	overlap, adjacent := false, false
	for i := range in {
		for j := range in {
			if i == j {
				continue
			}
			ih, jh := in[i].Hi, in[j].Hi
			if ih == 0 {
				ih = in[i].Low + 1
			}
			if jh == 0 {
				jh = in[j].Low + 1
			}
			if in[i].Low < jh && in[j].Low < ih {
				overlap = true
			}
			if ih == in[j].Low {
				adjacent = true
			}
		}
	}
	o := kit.Outcome{NonTrivial: len(in) >= 3 && overlap && adjacent}
	if overlap {
		o.Classes = append(o.Classes, "overlap")
	}
	if adjacent {
		o.Classes = append(o.Classes, "adjacent")
	}
	work := make([]Range, len(in))
	copy(work, in)
	sort.Sort(RangeSorter(work))
	got := []Range(RangeSorter(work).Normalize())
	gc := c04Cover(got)
	for id := range want {
		if !gc[id] {
			o.Viol = kit.V("normalize-lost-id", "Normalize(%v) = %v loses id %d", c04Fmt(in), c04Fmt(got), id)
			return o
		}
	}
	for id := range gc {
		if !want[id] {
			o.Viol = kit.V("normalize-extra-id", "Normalize(%v) = %v covers id %d which no input range covers", c04Fmt(in), c04Fmt(got), id)
			return o
		}
	}
	for i := 1; i < len(got); i++ {
		if got[i-1].Low > got[i].Low {
			o.Viol = kit.V("normalize-unsorted", "Normalize(%v) = %v is not sorted", c04Fmt(in), c04Fmt(got))
			return o
		}
	}
	for _, r := range got {
		if r.Hi != 0 && r.Hi <= r.Low {
			o.Viol = kit.V("normalize-bad-range", "Normalize(%v) = %v contains an empty or inverted range", c04Fmt(in), c04Fmt(got))
			return o
		}
	}
	return o
}

func c04Fmt(rs []Range) string {
	s := ""
	for _, r := range rs {
		if r.Hi == 0 {
			s += fmt.Sprintf("{%d}", r.Low)
		} else {
			s += fmt.Sprintf("[%d,%d)", r.Low, r.Hi)
		}
	}
	return s
}

func TestC04Normalize(t *testing.T) {
	kit.Check(t, "C04", "TestC04Normalize", c04Gen, c04Exec)
}

// FuzzC04Normalize: the same generator and oracle as TestC04Normalize under Go's coverage-guided fuzzer (thorough tier).
func FuzzC04Normalize(f *testing.F) { kit.FuzzOf(f, "C04", "TestC04Normalize", c04Gen, c04Exec) }
