package types

// C20 — identifiers and topic names mean the same in every encoding (pure part).
//
// Oracles are written from the property statement and the comments in types.go:
//   * textual form of a Uid = unpadded URL-safe base64 of the 8 little-endian bytes (11 chars),
//     base32 form = lower-case unpadded RFC 4648 base32 of the same bytes (13 chars);
//   * an independent strict decoder (fixed length, alphabet check, hand-written bit unpacking)
//     decides which strings are encodings; everything else must parse to ZeroUid;
//   * DESIGN.md section 4 carve-out: a string whose last character differs from the canonical
//     one only in the unused trailing bits is an alternative spelling of the same id.

import (
	"bytes"
	"encoding/json"
	"fmt"
	"strings"
	"testing"

	kit "github.com/tinode/chat/server/zzverifkit"
	"pgregory.net/rapid"
)

const c20B64 = "ABCDEFGHIJKLMNOPQRSTUVWXYZabcdefghijklmnopqrstuvwxyz0123456789-_"
const c20B32 = "abcdefghijklmnopqrstuvwxyz234567"

// c20Enc64 encodes bytes as unpadded URL-safe base64 (independent of encoding/base64).
func c20Enc64(b []byte) string {
	var sb strings.Builder
	acc, nb := uint32(0), 0
	for _, x := range b {
		acc = acc<<8 | uint32(x)
		nb += 8
		for nb >= 6 {
			sb.WriteByte(c20B64[(acc>>(nb-6))&63])
			nb -= 6
		}
	}
	if nb > 0 {
		sb.WriteByte(c20B64[(acc<<(6-nb))&63])
	}
	return sb.String()
}

// c20Dec decodes a string over a 2^bits-letter alphabet into exactly nbytes bytes.
// ok=false: not an encoding. canonical=false: unused trailing bits are not zero.
func c20Dec(s, alphabet string, bits, nchars, nbytes int) (out []byte, ok, canonical bool) {
	if len(s) != nchars {
		return nil, false, false
	}
	acc, nb := uint32(0), 0
	for i := 0; i < len(s); i++ {
		v := strings.IndexByte(alphabet, s[i])
		if v < 0 {
			return nil, false, false
		}
		acc = (acc<<bits | uint32(v)) & 0xffffff
		nb += bits
		if nb >= 8 {
			out = append(out, byte(acc>>(nb-8)))
			nb -= 8
		}
	}
	if len(out) != nbytes {
		return nil, false, false
	}
	return out, true, acc&(1<<nb-1) == 0
}

func c20Enc32(b []byte) string {
	var sb strings.Builder
	acc, nb := uint32(0), 0
	for _, x := range b {
		acc = (acc<<8 | uint32(x)) & 0xffffff
		nb += 8
		for nb >= 5 {
			sb.WriteByte(c20B32[(acc>>(nb-5))&31])
			nb -= 5
		}
	}
	if nb > 0 {
		sb.WriteByte(c20B32[(acc<<(5-nb))&31])
	}
	return sb.String()
}

func c20LE(u uint64) []byte {
	b := make([]byte, 8)
	for i := 0; i < 8; i++ {
		b[i] = byte(u >> (8 * i))
	}
	return b
}

func c20FromLE(b []byte) uint64 {
	var u uint64
	for i := 0; i < 8; i++ {
		u |= uint64(b[i]) << (8 * i)
	}
	return u
}

// c20RefUid: the reference reading of a string offered as a bare base64 id.
func c20RefUid(s string) (u uint64, ok, canonical bool) {
	b, ok, canon := c20Dec(s, c20B64, 6, 11, 8)
	if !ok {
		return 0, false, false
	}
	return c20FromLE(b), true, canon
}

func c20GenU64(rt *rapid.T, label string) uint64 {
	switch rapid.IntRange(0, 9).Draw(rt, label+"k") {
	case 0:
		return rapid.SampledFrom([]uint64{0, 1, 2, 1 << 63, 1<<63 - 1, 1<<63 + 1, ^uint64(0), ^uint64(0) - 1, 0xff, 0x100, 1 << 32, 1<<32 - 1}).Draw(rt, label+"b")
	case 1:
		return uint64(1) << rapid.IntRange(0, 63).Draw(rt, label+"s")
	case 2:
		return ^(uint64(1) << rapid.IntRange(0, 63).Draw(rt, label+"s"))
	case 3: // one non-zero byte
		return uint64(rapid.IntRange(1, 255).Draw(rt, label+"v")) << (8 * rapid.IntRange(0, 7).Draw(rt, label+"p"))
	default:
		return rapid.Uint64().Draw(rt, label)
	}
}

// ---------------------------------------------------------------- Uid value round trips

type c20UidCase struct {
	U uint64 `json:"u"`
}

func c20ExecUid(c c20UidCase) kit.Outcome {
	u := Uid(c.U)
	o := kit.Outcome{NonTrivial: true}
	top := c.U >> 63
	o.Classes = append(o.Classes, fmt.Sprintf("highbit=%d", top))
	want := c20Enc64(c20LE(c.U))
	want32 := c20Enc32(c20LE(c.U))
	bad := func(sig, f string, a ...any) kit.Outcome {
		o.Viol = kit.V(sig, f, a...)
		return o
	}
	if u.IsZero() {
		o.Classes = append(o.Classes, "zero")
		if u.String() != "" || u.UserId() != "" || u.PrefixId("grp") != "" || u.FndName() != "" {
			return bad("zero-not-empty", "zero uid renders as %q/%q/%q", u.String(), u.UserId(), u.PrefixId("grp"))
		}
		if !ParseUid("").IsZero() || !ParseUserId("").IsZero() || !ParseUserId("usr").IsZero() {
			return bad("empty-not-zero", "empty string parses to a non-zero uid")
		}
		js, err := json.Marshal(&u)
		if err != nil || string(js) != `""` {
			return bad("zero-json", "zero uid marshals to %s, %v", js, err)
		}
		back := Uid(0)
		_ = json.Unmarshal(js, &back)
		if !back.IsZero() {
			return bad("zero-json", "%s unmarshals to %d", js, back)
		}
	} else {
		if s := u.String(); s != want || len(s) != 11 {
			return bad("uid-text-form", "Uid(%d).String()=%q want %q", c.U, s, want)
		}
		if got := ParseUid(want); got != u {
			return bad("uid-roundtrip:base64", "ParseUid(%q)=%d want %d", want, got, c.U)
		}
		var t1 Uid
		if mt, err := u.MarshalText(); err != nil || t1.UnmarshalText(mt) != nil || t1 != u {
			return bad("uid-roundtrip:text", "MarshalText/UnmarshalText %d -> %q -> %d", c.U, mt, t1)
		}
		js, err := json.Marshal(&u)
		var j1 Uid
		if err != nil || string(js) != `"`+want+`"` || json.Unmarshal(js, &j1) != nil || j1 != u {
			return bad("uid-roundtrip:json", "JSON %d -> %s -> %d (%v)", c.U, js, j1, err)
		}
		// inside a struct, by value (pointer receiver methods must still be found through the address)
		type wrap struct {
			A *Uid `json:"a"`
			B Uid  `json:"b"`
		}
		w := wrap{A: &u, B: u}
		wjs, err := json.Marshal(&w)
		var w2 wrap
		if err != nil || json.Unmarshal(wjs, &w2) != nil || w2.A == nil || *w2.A != u || w2.B != u {
			return bad("uid-roundtrip:json-struct", "struct JSON %s does not round-trip %d (%v)", wjs, c.U, err)
		}
		if got := u.UserId(); got != "usr"+want || ParseUserId(got) != u {
			return bad("uid-roundtrip:userid", "UserId(%d)=%q -> %d", c.U, got, ParseUserId(got))
		}
		if got := u.PrefixId("grp"); got != "grp"+want {
			return bad("uid-prefix", "PrefixId(grp)=%q want %q", got, "grp"+want)
		}
		if got := u.FndName(); got != "fnd"+want {
			return bad("uid-prefix", "FndName=%q", got)
		}
		var h ObjHeader
		h.SetUid(u)
		h2 := ObjHeader{Id: h.Id}
		if h.Id != want || h.Uid() != u || h2.Uid() != u {
			return bad("uid-roundtrip:header", "ObjHeader %q -> %d", h.Id, h2.Uid())
		}
	}
	// binary and base32 forms are defined for every value including zero
	bin, err := u.MarshalBinary()
	var b1 Uid = 12345
	if err != nil || !bytes.Equal(bin, c20LE(c.U)) || b1.UnmarshalBinary(bin) != nil || b1 != u {
		return bad("uid-roundtrip:binary", "binary %d -> %x -> %d", c.U, bin, b1)
	}
	if s := u.String32(); s != want32 {
		return bad("uid-base32-form", "String32(%d)=%q want %q", c.U, s, want32)
	}
	if got := ParseUid32(u.String32()); got != u {
		return bad("uid-roundtrip:base32", "ParseUid32(Uid(%d).String32()=%q)=%d: the base32 form does not decode back to the identifier", c.U, u.String32(), got)
	}
	return o
}

func TestC20Uid(t *testing.T) {
	kit.Check(t, "C20", "TestC20Uid", func(rt *rapid.T) c20UidCase { return c20UidCase{U: c20GenU64(rt, "u")} }, c20ExecUid)
}

// ---------------------------------------------------------------- strings offered as ids

type c20TextCase struct {
	S string `json:"s"`
	// How the string was derived (diagnostic only; the oracle looks at S alone).
	How string `json:"how"`
}

func c20Mutate(rt *rapid.T, valid string, alphabet string) (string, string) {
	b := []byte(valid)
	switch rapid.IntRange(0, 9).Draw(rt, "mut") {
	case 0:
		return valid, "valid"
	case 1, 2: // exactly one position changed, staying inside the alphabet
		i := rapid.IntRange(0, len(b)-1).Draw(rt, "pos")
		c := alphabet[rapid.IntRange(0, len(alphabet)-1).Draw(rt, "chr")]
		if c == b[i] {
			c = alphabet[(strings.IndexByte(alphabet, c)+1)%len(alphabet)]
		}
		b[i] = c
		return string(b), "one-char-in-alphabet"
	case 3, 4: // exactly one position changed to a byte outside the alphabet
		i := rapid.IntRange(0, len(b)-1).Draw(rt, "pos")
		b[i] = rapid.SampledFrom([]byte("+/=.:, \n\r\x00*~\x80\xff!")).Draw(rt, "junk")
		return string(b), "one-char-outside-alphabet"
	case 5: // one character dropped
		i := rapid.IntRange(0, len(b)-1).Draw(rt, "pos")
		return string(b[:i]) + string(b[i+1:]), "one-char-short"
	case 6: // one character inserted
		i := rapid.IntRange(0, len(b)).Draw(rt, "pos")
		c := alphabet[rapid.IntRange(0, len(alphabet)-1).Draw(rt, "chr")]
		return string(b[:i]) + string(c) + string(b[i:]), "one-char-long"
	case 7: // padded / newline forms that lenient decoders accept
		return valid + rapid.SampledFrom([]string{"=", "\n", "A", "AA", "=="}).Draw(rt, "tail"), "suffix"
	case 8:
		n := rapid.IntRange(0, len(b)).Draw(rt, "cut")
		return string(b[:n]), "truncated"
	default:
		return rapid.StringOfN(rapid.RuneFrom([]rune(alphabet+"+/=: \n")), 0, 30, 30).Draw(rt, "free"), "free"
	}
}

func c20GenText(rt *rapid.T) c20TextCase {
	u := c20GenU64(rt, "u")
	s, how := c20Mutate(rt, c20Enc64(c20LE(u)), c20B64)
	pfx := rapid.SampledFrom([]string{"", "", "usr", "usr", "usr", "USR", "us", "usrr", "grp", "fnd", "usr "}).Draw(rt, "pfx")
	s = pfx + s
	if len(s) > 30 {
		s = s[:30]
	}
	return c20TextCase{S: s, How: how + "/" + pfx}
}

func c20ExecText(c c20TextCase) kit.Outcome {
	o := kit.Outcome{}
	s := c.S
	// bare id
	ru, rok, rcanon := c20RefUid(s)
	switch {
	case !rok:
		o.Classes = append(o.Classes, "bare:not-an-encoding")
	case rcanon:
		o.Classes = append(o.Classes, "bare:canonical")
	default:
		o.Classes = append(o.Classes, "bare:trailing-bit-variant")
	}
	// "differs from a valid encoding in exactly one position"
	o.NonTrivial = strings.HasPrefix(c.How, "one-char") || !rcanon && rok
	wantBare := Uid(0)
	if rok {
		wantBare = Uid(ru)
	}
	check := func(name string, got Uid, want Uid, input string) *kit.Viol {
		if got == want {
			return nil
		}
		if want == 0 {
			return kit.V("invalid-id-accepted:"+name, "%s(%q)=%d (%q): the text is not a valid encoding but decodes to an id", name, input, uint64(got), got.String())
		}
		return kit.V("valid-id-misread:"+name, "%s(%q)=%d want %d", name, input, uint64(got), uint64(want))
	}
	if v := check("ParseUid", ParseUid(s), wantBare, s); v != nil {
		o.Viol = v
		return o
	}
	var ut Uid
	err := ut.UnmarshalText([]byte(s))
	if v := check("UnmarshalText", ut, wantBare, s); v != nil {
		o.Viol = v
		return o
	}
	if (err == nil) != rok {
		o.Viol = kit.V("unmarshal-error-flag", "UnmarshalText(%q) err=%v but reference says valid=%v", s, err, rok)
		return o
	}
	// a failed decode must not disturb the target
	keep := Uid(0xdeadbeef)
	if keep.UnmarshalText([]byte(s)) != nil && keep != 0xdeadbeef {
		o.Viol = kit.V("reject-changed-target", "UnmarshalText(%q) failed but changed the target to %d", s, uint64(keep))
		return o
	}
	js, _ := json.Marshal(s)
	var uj Uid
	_ = json.Unmarshal(js, &uj)
	if v := check("UnmarshalJSON", uj, wantBare, string(js)); v != nil {
		o.Viol = v
		return o
	}
	hdr := ObjHeader{Id: s}
	if v := check("ObjHeader.Uid", hdr.Uid(), wantBare, s); v != nil {
		o.Viol = v
		return o
	}
	// user id
	wantUser := Uid(0)
	if strings.HasPrefix(s, "usr") {
		if u2, ok2, _ := c20RefUid(s[3:]); ok2 {
			wantUser = Uid(u2)
			o.Classes = append(o.Classes, "user:valid")
			if strings.HasPrefix(c.How, "one-char") {
				o.NonTrivial = true
			}
		} else {
			o.Classes = append(o.Classes, "user:bad-body")
		}
	} else {
		o.Classes = append(o.Classes, "user:bad-prefix")
	}
	if v := check("ParseUserId", ParseUserId(s), wantUser, s); v != nil {
		o.Viol = v
		return o
	}
	return o
}

func TestC20UidText(t *testing.T) {
	kit.Check(t, "C20", "TestC20UidText", c20GenText, c20ExecText)
}

// ---------------------------------------------------------------- base32 strings

func c20GenText32(rt *rapid.T) c20TextCase {
	u := c20GenU64(rt, "u")
	valid := c20Enc32(c20LE(u))
	s, how := c20Mutate(rt, valid, c20B32)
	switch rapid.IntRange(0, 5).Draw(rt, "case") {
	case 0:
		s, how = strings.ToUpper(s), how+"/upper"
	case 1: // longer strings whose first 13 characters are a valid encoding
		s, how = s+rapid.SampledFrom([]string{"aaa", "AAA", "aaaaaaaaaaa", "AAAAAAAAAAA"}).Draw(rt, "ext"), how+"/extended"
	}
	if len(s) > 30 {
		s = s[:30]
	}
	return c20TextCase{S: s, How: how}
}

func c20ExecText32(c c20TextCase) kit.Outcome {
	o := kit.Outcome{NonTrivial: strings.HasPrefix(c.How, "one-char")}
	s := c.S
	got := ParseUid32(s)
	if b, ok, canon := c20Dec(s, c20B32, 5, 13, 8); ok {
		// the documented lower-case form (or its trailing-bit variant)
		if canon {
			o.Classes = append(o.Classes, "b32:canonical")
		} else {
			o.Classes = append(o.Classes, "b32:trailing-bit-variant")
		}
		if want := Uid(c20FromLE(b)); got != want {
			o.Viol = kit.V("uid-roundtrip:base32", "ParseUid32(%q)=%d want %d: the lower-case base32 form written by String32 is not read back", s, uint64(got), uint64(want))
		}
		return o
	}
	if b, ok, _ := c20Dec(strings.ToLower(s), c20B32, 5, 13, 8); ok {
		// Upper- or mixed-case spelling of an id: String32 never produces it; neither the statement nor
		// the code comments say whether it is "valid", and it can only be read as that same id.
		// Accept the id or zero.
		o.Classes = append(o.Classes, "b32:case-variant-unspecified")
		if got != 0 && got != Uid(c20FromLE(b)) {
			o.Viol = kit.V("valid-id-misread:ParseUid32", "ParseUid32(%q)=%d want %d or 0", s, uint64(got), c20FromLE(b))
		}
		return o
	}
	if strings.ContainsAny(s, "\r\n") {
		// encoding/base32 skips CR/LF; like the trailing-bit variants these can only be read as the id
		// whose text they decorate, never as another one. Left unjudged.
		stripped := strings.NewReplacer("\r", "", "\n", "").Replace(s)
		if b, ok, _ := c20Dec(strings.ToLower(stripped), c20B32, 5, 13, 8); ok {
			o.Classes = append(o.Classes, "b32:newline-variant-unspecified")
			if got != 0 && got != Uid(c20FromLE(b)) {
				o.Viol = kit.V("valid-id-misread:ParseUid32", "ParseUid32(%q)=%d want %d or 0", s, uint64(got), c20FromLE(b))
			}
			return o
		}
	}
	o.Classes = append(o.Classes, "b32:not-an-encoding")
	if got != 0 {
		o.Viol = kit.V("invalid-id-accepted:ParseUid32", "ParseUid32(%q)=%d (%q): the text is not the 13-character base32 form of any id but decodes to one", s, uint64(got), got.String())
	}
	return o
}

func TestC20UidText32(t *testing.T) {
	kit.Check(t, "C20", "TestC20UidText32", c20GenText32, c20ExecText32)
}

// ---------------------------------------------------------------- p2p names

type c20PairCase struct {
	A uint64 `json:"a"`
	B uint64 `json:"b"`
	C uint64 `json:"c"`
	D uint64 `json:"d"`
}

func c20GenPair(rt *rapid.T) c20PairCase {
	a, b := c20GenU64(rt, "a"), c20GenU64(rt, "b")
	var c, d uint64
	switch rapid.IntRange(0, 5).Draw(rt, "rel") {
	case 0:
		c, d = b, a
	case 1:
		c, d = a, c20GenU64(rt, "d")
	case 2:
		c, d = c20GenU64(rt, "c"), b
	case 3: // neighbours
		c, d = a+1, b
	case 4: // the two halves exchanged bytewise
		c, d = a<<32|a>>32, b
	default:
		c, d = c20GenU64(rt, "c"), c20GenU64(rt, "d")
	}
	return c20PairCase{A: a, B: b, C: c, D: d}
}

func c20RefP2P(a, b uint64) string {
	if a == 0 || b == 0 || a == b {
		return ""
	}
	if a > b {
		a, b = b, a
	}
	return "p2p" + c20Enc64(append(c20LE(a), c20LE(b)...))
}

func c20ExecPair(c c20PairCase) kit.Outcome {
	a, b := Uid(c.A), Uid(c.B)
	o := kit.Outcome{}
	bad := func(sig, f string, x ...any) kit.Outcome {
		o.Viol = kit.V(sig, f, x...)
		return o
	}
	n1, n2 := a.P2PName(b), b.P2PName(a)
	if n1 != n2 {
		return bad("p2p-asymmetric", "Uid(%d).P2PName(%d)=%q but the other way round %q", c.A, c.B, n1, n2)
	}
	want := c20RefP2P(c.A, c.B)
	if n1 != want {
		return bad("p2p-form", "P2PName(%d,%d)=%q want %q", c.A, c.B, n1, want)
	}
	if c.A == 0 || c.B == 0 {
		o.Classes = append(o.Classes, "zero-member")
	} else if c.A == c.B {
		o.Classes = append(o.Classes, "self")
	} else {
		o.Classes = append(o.Classes, "proper-pair")
		o.NonTrivial = true
		lo, hi := a, b
		if lo > hi {
			lo, hi = hi, lo
		}
		u1, u2, err := ParseP2P(n1)
		if err != nil || u1 != lo || u2 != hi {
			return bad("p2p-parse", "ParseP2P(%q)=%d,%d,%v want %d,%d", n1, u1, u2, err, lo, hi)
		}
		fa, ea := P2PNameForUser(a, n1)
		fb, eb := P2PNameForUser(b, n1)
		if ea != nil || eb != nil || fa != b.UserId() || fb != a.UserId() {
			return bad("p2p-other-side", "P2PNameForUser on %q: %d sees %q, %d sees %q (%v,%v)", n1, c.A, fa, c.B, fb, ea, eb)
		}
		if GetTopicCat(n1) != TopicCatP2P {
			return bad("p2p-category", "GetTopicCat(%q)=%v", n1, GetTopicCat(n1))
		}
	}
	// injectivity: another pair has the same name iff it is the same unordered pair
	m := Uid(c.C).P2PName(Uid(c.D))
	samePair := (c.A == c.C && c.B == c.D) || (c.A == c.D && c.B == c.C)
	if n1 != "" && m != "" {
		if samePair {
			o.Classes = append(o.Classes, "second:same-pair")
		} else {
			o.Classes = append(o.Classes, "second:other-pair")
		}
		if (n1 == m) != samePair {
			return bad("p2p-collision", "pairs (%d,%d) and (%d,%d): names %q and %q", c.A, c.B, c.C, c.D, n1, m)
		}
	}
	return o
}

func TestC20P2P(t *testing.T) {
	kit.Check(t, "C20", "TestC20P2P", c20GenPair, c20ExecPair)
}

// ---------------------------------------------------------------- strings offered as topic names

func c20GenName(rt *rapid.T) c20TextCase {
	a, b := c20GenU64(rt, "a"), c20GenU64(rt, "b")
	if a == 0 {
		a = 1
	}
	if b == 0 || b == a {
		if b = a ^ 1; b == 0 {
			b = 2
		}
	}
	if a > b {
		a, b = b, a
	}
	switch rapid.IntRange(0, 3).Draw(rt, "kind") {
	case 0, 1:
		body, how := c20Mutate(rt, c20Enc64(append(c20LE(a), c20LE(b)...)), c20B64)
		pfx := rapid.SampledFrom([]string{"p2p", "p2p", "p2p", "p2p", "P2P", "p2", "p2pp", "usr", "grp", ""}).Draw(rt, "pfx")
		s := pfx + body
		if len(s) > 30 {
			s = s[:30]
		}
		return c20TextCase{S: s, How: how + "/" + pfx}
	default:
		pfx := rapid.SampledFrom([]string{"grp", "chn", "grp", "chn", "nch", "new", "usr", "p2p", "me", "fnd", "sys", "gr", "ch", "GRP", "CHN", "", "grpgrp", "chngrp", "grpchn", " grp"}).Draw(rt, "gpfx")
		body := rapid.StringOfN(rapid.RuneFrom([]rune(c20B64+"grpchn")), 0, 14, 24).Draw(rt, "body")
		s := pfx + body
		if len(s) > 30 {
			s = s[:30]
		}
		return c20TextCase{S: s, How: "grpchn/" + pfx}
	}
}

func c20ExecName(c c20TextCase) kit.Outcome {
	o := kit.Outcome{NonTrivial: strings.HasPrefix(c.How, "one-char")}
	s := c.S
	// --- ParseP2P against the strict reference
	u1, u2, err := ParseP2P(s)
	var ref []byte
	rok := false
	if strings.HasPrefix(s, "p2p") {
		ref, rok, _ = c20Dec(s[3:], c20B64, 6, 22, 16)
	}
	if !rok {
		o.Classes = append(o.Classes, "p2p:not-a-name")
		if err == nil || u1 != 0 || u2 != 0 {
			o.Viol = kit.V("invalid-p2p-accepted", "ParseP2P(%q)=%d,%d,%v: not a p2p name but decoded", s, uint64(u1), uint64(u2), err)
			return o
		}
		if n, e := P2PNameForUser(Uid(1), s); e == nil || n != "" {
			o.Viol = kit.V("invalid-p2p-accepted", "P2PNameForUser(1,%q)=%q,%v", s, n, e)
			return o
		}
	} else {
		r1, r2 := c20FromLE(ref[:8]), c20FromLE(ref[8:])
		if err != nil || uint64(u1) != r1 || uint64(u2) != r2 {
			o.Viol = kit.V("p2p-parse", "ParseP2P(%q)=%d,%d,%v want %d,%d", s, uint64(u1), uint64(u2), err, r1, r2)
			return o
		}
		if r1 != 0 && r2 != 0 && r1 < r2 {
			o.Classes = append(o.Classes, "p2p:well-formed")
			// spelling may be a trailing-bit variant; the canonical name must be what P2PName gives
			if Uid(r1).P2PName(Uid(r2)) != c20RefP2P(r1, r2) {
				o.Viol = kit.V("p2p-form", "P2PName(%d,%d) differs from the reference", r1, r2)
				return o
			}
			fa, ea := P2PNameForUser(Uid(r1), s)
			fb, eb := P2PNameForUser(Uid(r2), s)
			if ea != nil || eb != nil || fa != Uid(r2).UserId() || fb != Uid(r1).UserId() {
				o.Viol = kit.V("p2p-other-side", "P2PNameForUser on %q: %q / %q (%v,%v)", s, fa, fb, ea, eb)
				return o
			}
		} else {
			// halves out of order, equal or zero: P2PName never produces it; unspecified
			o.Classes = append(o.Classes, "p2p:non-canonical-unspecified")
		}
	}
	// --- group / channel spellings
	g2c, c2g := GrpToChn(s), ChnToGrp(s)
	switch {
	case strings.HasPrefix(s, "grp"):
		o.Classes = append(o.Classes, "name:grp")
		o.NonTrivial = true
		if g2c != "chn"+s[3:] || ChnToGrp(g2c) != s || c2g != s {
			o.Viol = kit.V("grp-chn-roundtrip", "GrpToChn(%q)=%q, back %q; ChnToGrp(%q)=%q", s, g2c, ChnToGrp(g2c), s, c2g)
			return o
		}
		if IsChannel(s) || !IsChannel(g2c) {
			o.Viol = kit.V("grp-chn-roundtrip", "IsChannel(%q)=%v IsChannel(%q)=%v", s, IsChannel(s), g2c, IsChannel(g2c))
			return o
		}
	case strings.HasPrefix(s, "chn"):
		o.Classes = append(o.Classes, "name:chn")
		o.NonTrivial = true
		if c2g != "grp"+s[3:] || GrpToChn(c2g) != s || g2c != s {
			o.Viol = kit.V("grp-chn-roundtrip", "ChnToGrp(%q)=%q, back %q; GrpToChn(%q)=%q", s, c2g, GrpToChn(c2g), s, g2c)
			return o
		}
	default:
		o.Classes = append(o.Classes, "name:not-a-group")
		if g2c != "" || c2g != "" {
			o.Viol = kit.V("non-group-converted", "GrpToChn(%q)=%q ChnToGrp(%q)=%q want empty", s, g2c, s, c2g)
			return o
		}
	}
	return o
}

func TestC20Names(t *testing.T) {
	kit.Check(t, "C20", "TestC20Names", c20GenName, c20ExecName)
}

// ---------------------------------------------------------------- UidGenerator (database form)

type c20GenCase struct {
	Key    []byte   `json:"key"`
	Worker int      `json:"worker"`
	Vals   []uint64 `json:"vals"`
	NGet   int      `json:"nget"`
}

func c20GenGen(rt *rapid.T) c20GenCase {
	c := c20GenCase{Key: rapid.SliceOfN(rapid.Byte(), 16, 16).Draw(rt, "key"), Worker: rapid.IntRange(0, 1023).Draw(rt, "worker"),
		NGet: rapid.IntRange(1, 4).Draw(rt, "nget")}
	n := rapid.IntRange(1, 6).Draw(rt, "n")
	for i := 0; i < n; i++ {
		c.Vals = append(c.Vals, c20GenU64(rt, "v"))
	}
	return c
}

func c20ExecGen(c c20GenCase) kit.Outcome {
	o := kit.Outcome{NonTrivial: true}
	var ug UidGenerator
	if err := ug.Init(uint(c.Worker), c.Key); err != nil {
		o.Skip = true
		return o
	}
	for _, v := range c.Vals {
		// numeric (database) form -> Uid -> numeric form
		if got := ug.DecodeUid(ug.EncodeInt64(int64(v))); got != int64(v) {
			o.Viol = kit.V("uidgen-roundtrip:int64", "DecodeUid(EncodeInt64(%d))=%d", int64(v), got)
			return o
		}
		// Uid -> numeric form -> Uid
		if got := ug.EncodeInt64(ug.DecodeUid(Uid(v))); got != Uid(v) {
			o.Viol = kit.V("uidgen-roundtrip:uid", "EncodeInt64(DecodeUid(%d))=%d", v, uint64(got))
			return o
		}
	}
	seen := map[Uid]bool{}
	for i := 0; i < c.NGet; i++ {
		var u Uid
		if i%2 == 0 {
			u = ug.Get()
		} else {
			s := ug.GetStr()
			u = ParseUid(s)
			if u.String() != s {
				o.Viol = kit.V("uidgen-getstr", "GetStr()=%q parses to %d which prints as %q", s, uint64(u), u.String())
				return o
			}
		}
		if u.IsZero() {
			o.Classes = append(o.Classes, "generator-returned-zero")
			continue
		}
		if seen[u] {
			o.Viol = kit.V("uidgen-duplicate", "generator returned %d twice", uint64(u))
			return o
		}
		seen[u] = true
		d := ug.DecodeUid(u)
		if d <= 0 || ug.EncodeInt64(d) != u {
			o.Viol = kit.V("uidgen-roundtrip:generated", "generated %d decodes to %d, re-encodes to %d", uint64(u), d, uint64(ug.EncodeInt64(d)))
			return o
		}
		if ParseUid(u.String()) != u || ParseUserId(u.UserId()) != u {
			o.Viol = kit.V("uid-roundtrip:base64", "generated %d does not survive its text form", uint64(u))
			return o
		}
	}
	o.Classes = append(o.Classes, fmt.Sprintf("generated=%d", len(seen)))
	return o
}

func TestC20UidGen(t *testing.T) {
	kit.Check(t, "C20", "TestC20UidGen", c20GenGen, c20ExecGen)
}

// FuzzC20UidText: the same generator and oracle as TestC20UidText under Go's coverage-guided fuzzer (thorough tier).
func FuzzC20UidText(f *testing.F) { kit.FuzzOf(f, "C20", "TestC20UidText", c20GenText, c20ExecText) }

// FuzzC20Names: the same generator and oracle as TestC20Names under Go's coverage-guided fuzzer (thorough tier).
func FuzzC20Names(f *testing.F) { kit.FuzzOf(f, "C20", "TestC20Names", c20GenName, c20ExecName) }

// FuzzC20P2P: the same generator and oracle as TestC20P2P under Go's coverage-guided fuzzer (thorough tier).
func FuzzC20P2P(f *testing.F) { kit.FuzzOf(f, "C20", "TestC20P2P", c20GenPair, c20ExecPair) }
