package zzverifmem

import (
	"errors"
	"strings"
	"time"

	"github.com/tinode/chat/server/db/common"
	t "github.com/tinode/chat/server/store/types"
)

var errDupKey = errors.New("verifmem: Error 1062: Duplicate entry")
var errFK = errors.New("verifmem: Error 1452: foreign key constraint fails")

func (r *subRow) toSub() t.Subscription {
	var s t.Subscription
	s.CreatedAt, s.UpdatedAt, s.DeletedAt = r.CreatedAt, r.UpdatedAt, tp(r.DeletedAt)
	s.User, s.Topic = r.User.String(), r.Topic
	s.DelId, s.RecvSeqId, s.ReadSeqId = r.DelId, r.RecvSeqId, r.ReadSeqId
	s.ModeWant, s.ModeGiven = r.ModeWant, r.ModeGiven
	s.Private = fromJSON(r.Private)
	return s
}

func (r *topicRow) toTopic() *t.Topic {
	tt := &t.Topic{State: r.State, StateAt: tp(r.StateAt), TouchedAt: r.TouchedAt, UseBt: r.UseBt, Owner: r.Owner.String(),
		Access: r.Access, SeqId: r.SeqId, DelId: r.DelId, Public: fromJSON(r.Public), Trusted: fromJSON(r.Trusted),
		Tags: append(t.StringSlice(nil), r.Tags...)}
	tt.Id = r.Name
	tt.CreatedAt, tt.UpdatedAt = r.CreatedAt, r.UpdatedAt
	return tt
}

func (s *State) nextSeq() int {
	s.AutoInc++
	return int(s.AutoInc)
}

// topicCreate inserts the row; the caller has checked the preconditions.
func (s *State) topicCreate(topic *t.Topic) {
	s.Topics = append(s.Topics, &topicRow{Seq: s.nextSeq(), CreatedAt: topic.CreatedAt, UpdatedAt: topic.UpdatedAt, TouchedAt: topic.TouchedAt,
		State: topic.State, Name: topic.Id, UseBt: topic.UseBt, Owner: t.ParseUid(topic.Owner), Access: topic.Access,
		Public: toJSON(topic.Public), Trusted: toJSON(topic.Trusted), Tags: append([]string(nil), topic.Tags...),
		TagIdx: append([]string(nil), topic.Tags...)})
}

func (a *Adapter) TopicCreate(topic *t.Topic) error {
	a.lock()
	defer a.mu.Unlock()
	if err := a.enter("TopicCreate", true, topic.Id); err != nil {
		return err
	}
	if a.st.topic(topic.Id) != nil {
		return errDupKey
	}
	if dupTags(topic.Tags) {
		return t.ErrDuplicate
	}
	a.st.topicCreate(topic)
	a.wrote()
	return nil
}

// createSubscription mirrors the MySQL helper of the same name.
func (s *State) createSubscription(sub *t.Subscription, undelete bool) {
	uid := t.ParseUid(sub.User)
	row := s.sub(sub.Topic, uid)
	if row == nil {
		s.Subs = append(s.Subs, &subRow{Seq: s.nextSeq(), CreatedAt: sub.CreatedAt, UpdatedAt: sub.UpdatedAt, User: uid, Topic: sub.Topic,
			ModeWant: sub.ModeWant & t.ModeBitmask, ModeGiven: sub.ModeGiven & t.ModeBitmask, Private: toJSON(sub.Private)})
	} else {
		row.CreatedAt, row.UpdatedAt, row.DeletedAt = sub.CreatedAt, sub.UpdatedAt, nil
		row.ModeWant, row.ModeGiven = sub.ModeWant&t.ModeBitmask, sub.ModeGiven&t.ModeBitmask
		row.DelId, row.RecvSeqId, row.ReadSeqId = 0, 0, 0
		if !undelete {
			row.Private = toJSON(sub.Private)
		}
	}
	if (sub.ModeGiven & sub.ModeWant).IsOwner() {
		if tr := s.topic(sub.Topic); tr != nil {
			tr.Owner = uid
		}
	}
}

func (a *Adapter) TopicCreateP2P(initiator, invited *t.Subscription) error {
	a.lock()
	defer a.mu.Unlock()
	if err := a.enter("TopicCreateP2P", true, initiator.Topic); err != nil {
		return err
	}
	s := a.st
	if s.user(t.ParseUid(initiator.User)) == nil || s.user(t.ParseUid(invited.User)) == nil {
		return errFK
	}
	if s.topic(initiator.Topic) != nil {
		return errDupKey
	}
	s.createSubscription(initiator, false)
	s.createSubscription(invited, true)
	topic := &t.Topic{ObjHeader: t.ObjHeader{Id: initiator.Topic}}
	topic.ObjHeader.MergeTimes(&initiator.ObjHeader)
	topic.TouchedAt = initiator.GetTouchedAt()
	s.topicCreate(topic)
	a.wrote()
	return nil
}

func (a *Adapter) TopicGet(topic string) (*t.Topic, error) {
	a.lock()
	defer a.mu.Unlock()
	if err := a.enter("TopicGet", false, topic); err != nil {
		return nil, err
	}
	if r := a.st.topic(topic); r != nil {
		return r.toTopic(), nil
	}
	return nil, nil
}

func (a *Adapter) TopicsForUser(uid t.Uid, keepDeleted bool, opts *t.QueryOpt) ([]t.Subscription, error) {
	a.lock()
	defer a.mu.Unlock()
	if err := a.enter("TopicsForUser", false, uid.String()); err != nil {
		return nil, err
	}
	s := a.st
	limit := 0
	ims := time.Time{}
	if opts != nil {
		if opts.IfModifiedSince == nil {
			if opts.Limit > 0 && opts.Limit < a.maxResults {
				limit = opts.Limit
			} else {
				limit = a.maxResults
			}
		} else {
			ims = *opts.IfModifiedSince
		}
	} else {
		limit = a.maxResults
	}
	type joined struct {
		key string
		sub t.Subscription
	}
	var join []*joined
	find := func(key string) *joined {
		for _, j := range join {
			if j.key == key {
				return j
			}
		}
		return nil
	}
	var topq []string
	var usrq []t.Uid
	n := 0
	for _, r := range s.Subs {
		if r.User != uid || (!keepDeleted && r.DeletedAt != nil) {
			continue
		}
		if opts != nil && opts.Topic != "" && r.Topic != opts.Topic {
			continue
		}
		if limit > 0 && n >= limit {
			break
		}
		n++
		sub := r.toSub()
		sub.User = uid.String()
		tname := r.Topic
		tcat := t.GetTopicCat(tname)
		if tcat == t.TopicCatMe || tcat == t.TopicCatFnd {
			continue
		} else if tcat == t.TopicCatP2P {
			uid1, uid2, _ := t.ParseP2P(tname)
			if uid1 == uid {
				usrq = append(usrq, uid2)
				sub.SetWith(uid2.UserId())
			} else {
				usrq = append(usrq, uid1)
				sub.SetWith(uid1.UserId())
			}
			topq = append(topq, tname)
		} else {
			if tcat == t.TopicCatGrp {
				tname = t.ChnToGrp(tname)
			}
			topq = append(topq, tname)
		}
		if j := find(tname); j != nil {
			j.sub = sub
		} else {
			join = append(join, &joined{tname, sub})
		}
	}
	if len(join) == 0 {
		return nil, nil
	}
	for _, top := range s.Topics {
		if !hasStr(topq, top.Name) || (!keepDeleted && top.State == t.StateDeleted) {
			continue
		}
		if !ims.IsZero() && !top.TouchedAt.After(ims) {
			continue
		}
		j := find(top.Name)
		if j == nil {
			continue
		}
		j.sub.UpdatedAt = common.SelectLatestTime(j.sub.UpdatedAt, top.UpdatedAt)
		j.sub.SetState(top.State)
		j.sub.SetTouchedAt(top.TouchedAt)
		j.sub.SetSeqId(top.SeqId)
		if t.GetTopicCat(j.sub.Topic) == t.TopicCatGrp {
			j.sub.SetPublic(fromJSON(top.Public))
			j.sub.SetTrusted(fromJSON(top.Trusted))
		}
	}
	for _, u := range s.Users {
		found := false
		for _, id := range usrq {
			if id == u.ID {
				found = true
			}
		}
		if !found || (!keepDeleted && u.State == t.StateDeleted) {
			continue
		}
		if j := find(uid.P2PName(u.ID)); j != nil {
			j.sub.UpdatedAt = common.SelectLatestTime(j.sub.UpdatedAt, u.UpdatedAt)
			j.sub.SetState(u.State)
			j.sub.SetPublic(fromJSON(u.Public))
			j.sub.SetTrusted(fromJSON(u.Trusted))
			j.sub.SetDefaultAccess(u.Access.Auth, u.Access.Anon)
			j.sub.SetLastSeenAndUA(tp(u.LastSeen), u.UserAgent)
		}
	}
	subs := make([]t.Subscription, 0, len(join))
	for _, j := range join {
		subs = append(subs, j.sub)
	}
	return common.SelectEarliestUpdatedSubs(subs, opts, a.maxResults), nil
}

func (a *Adapter) UsersForTopic(topic string, keepDeleted bool, opts *t.QueryOpt) ([]t.Subscription, error) {
	a.lock()
	defer a.mu.Unlock()
	if err := a.enter("UsersForTopic", false, topic); err != nil {
		return nil, err
	}
	s := a.st
	tcat := t.GetTopicCat(topic)
	limit := a.maxResults
	var oneUser t.Uid
	if opts != nil {
		oneUser = opts.User
		if opts.Limit > 0 && opts.Limit < limit {
			limit = opts.Limit
		}
	}
	var subs []t.Subscription
	for _, r := range s.Subs {
		if r.Topic != topic {
			continue
		}
		u := s.user(r.User)
		if u == nil {
			continue
		}
		if !keepDeleted {
			if u.State == t.StateDeleted {
				continue
			}
			if tcat != t.TopicCatP2P && r.DeletedAt != nil {
				continue
			}
		}
		if !oneUser.IsZero() && tcat != t.TopicCatP2P && r.User != oneUser {
			continue
		}
		if len(subs) >= limit {
			break
		}
		sub := r.toSub()
		sub.SetPublic(fromJSON(u.Public))
		sub.SetTrusted(fromJSON(u.Trusted))
		ls := time.Time{}
		if u.LastSeen != nil {
			ls = *u.LastSeen
		}
		sub.SetLastSeenAndUA(&ls, u.UserAgent)
		subs = append(subs, sub)
	}
	if tcat == t.TopicCatP2P && len(subs) > 0 {
		if len(subs) == 1 {
			subs[0].SetPublic(nil)
			subs[0].SetTrusted(nil)
			subs[0].SetLastSeenAndUA(nil, "")
		} else {
			tmp := subs[0].GetPublic()
			subs[0].SetPublic(subs[1].GetPublic())
			subs[1].SetPublic(tmp)
			tmp = subs[0].GetTrusted()
			subs[0].SetTrusted(subs[1].GetTrusted())
			subs[1].SetTrusted(tmp)
			lastSeen := subs[0].GetLastSeen()
			userAgent := subs[0].GetUserAgent()
			subs[0].SetLastSeenAndUA(subs[1].GetLastSeen(), subs[1].GetUserAgent())
			subs[1].SetLastSeenAndUA(lastSeen, userAgent)
		}
		if !keepDeleted || !oneUser.IsZero() {
			var xsubs []t.Subscription
			for i := range subs {
				if (subs[i].DeletedAt != nil && !keepDeleted) || (!oneUser.IsZero() && subs[i].Uid() != oneUser) {
					continue
				}
				xsubs = append(xsubs, subs[i])
			}
			subs = xsubs
		}
	}
	return subs, nil
}

func (a *Adapter) OwnTopics(uid t.Uid) ([]string, error) {
	a.lock()
	defer a.mu.Unlock()
	if err := a.enter("OwnTopics", false, uid.String()); err != nil {
		return nil, err
	}
	var names []string
	for _, r := range a.st.Topics {
		if r.Owner == uid && !uid.IsZero() {
			names = append(names, r.Name)
		}
	}
	return names, nil
}

func (a *Adapter) ChannelsForUser(uid t.Uid) ([]string, error) {
	a.lock()
	defer a.mu.Unlock()
	if err := a.enter("ChannelsForUser", false, uid.String()); err != nil {
		return nil, err
	}
	var names []string
	for _, r := range a.st.Subs {
		if r.User == uid && strings.HasPrefix(r.Topic, "chn") && r.ModeWant.IsPresencer() && r.ModeGiven.IsPresencer() && r.DeletedAt == nil {
			names = append(names, r.Topic)
		}
	}
	return names, nil
}

func (a *Adapter) TopicShare(shares []*t.Subscription) error {
	a.mu.Lock()
	defer a.mu.Unlock()
	arg := ""
	for _, sub := range shares {
		arg += sub.Topic + ":" + sub.User + " "
	}
	if err := a.enter("TopicShare", true, arg); err != nil {
		return err
	}
	for _, sub := range shares {
		if a.st.user(t.ParseUid(sub.User)) == nil {
			return errFK
		}
	}
	for _, sub := range shares {
		a.st.createSubscription(sub, true)
	}
	a.wrote()
	return nil
}

func (a *Adapter) TopicDelete(topic string, isChan, hard bool) error {
	a.lock()
	defer a.mu.Unlock()
	if err := a.enter("TopicDelete", true, topic); err != nil {
		return err
	}
	s := a.st
	names := []string{topic}
	if isChan {
		names = append(names, t.GrpToChn(topic))
	}
	if hard {
		s.Subs = filter(s.Subs, func(r *subRow) bool { return !hasStr(names, r.Topic) })
		s.Dellog = filter(s.Dellog, func(r *dellogRow) bool { return r.Topic != topic })
		s.deleteMsgs(func(m *msgRow) bool { return m.Topic == topic })
		s.Links = filter(s.Links, func(l *linkRow) bool { return l.Topic != topic })
		s.Topics = filter(s.Topics, func(r *topicRow) bool { return r.Name != topic })
	} else {
		now := t.TimeNow()
		for _, r := range s.Subs {
			if hasStr(names, r.Topic) {
				r.UpdatedAt, r.DeletedAt = now, tp(&now)
			}
		}
		if tr := s.topic(topic); tr != nil {
			tr.UpdatedAt, tr.TouchedAt, tr.State, tr.StateAt = now, now, t.StateDeleted, tp(&now)
		}
	}
	a.wrote()
	return nil
}

func (a *Adapter) TopicUpdateOnMessage(topic string, msg *t.Message) error {
	a.lock()
	defer a.mu.Unlock()
	if err := a.enter("TopicUpdateOnMessage", true, topic); err != nil {
		return err
	}
	if tr := a.st.topic(topic); tr != nil {
		tr.SeqId, tr.TouchedAt = msg.SeqId, msg.CreatedAt
	}
	a.wrote()
	return nil
}

func (a *Adapter) TopicUpdate(topic string, update map[string]any) error {
	a.lock()
	defer a.mu.Unlock()
	if err := a.enter("TopicUpdate", true, topic+" "+keys(update)); err != nil {
		return err
	}
	if tch, u := update["TouchedAt"], update["UpdatedAt"]; tch == nil && u != nil {
		update["TouchedAt"] = u
	}
	var tags []string
	if val := update["Tags"]; val != nil {
		ss, _ := val.(t.StringSlice)
		tags = []string(ss)
	}
	if tags != nil && dupTags(tags) {
		return t.ErrDuplicate
	}
	tr := a.st.topic(topic)
	if tr == nil {
		if len(tags) > 0 {
			return errFK
		}
		a.wrote()
		return nil
	}
	for k, v := range update {
		switch strings.ToLower(k) {
		case "updatedat":
			tr.UpdatedAt = v.(time.Time)
		case "touchedat":
			tr.TouchedAt = v.(time.Time)
		case "access":
			tr.Access = v.(t.DefaultAccess)
		case "public":
			tr.Public = toJSON(v)
		case "trusted":
			tr.Trusted = toJSON(v)
		case "tags":
			ss, _ := v.(t.StringSlice)
			tr.Tags = append([]string(nil), ss...)
		case "delid":
			tr.DelId = v.(int)
		case "seqid":
			tr.SeqId = v.(int)
		case "state":
			tr.State = v.(t.ObjState)
		case "stateat":
			x := v.(time.Time)
			tr.StateAt = &x
		case "usebt":
			tr.UseBt = v.(bool)
		default:
			panic("verifmem: TopicUpdate: unknown column " + k)
		}
	}
	if tags != nil {
		tr.TagIdx = append([]string(nil), tags...)
	}
	a.wrote()
	return nil
}

func (a *Adapter) TopicOwnerChange(topic string, newOwner t.Uid) error {
	a.lock()
	defer a.mu.Unlock()
	if err := a.enter("TopicOwnerChange", true, topic); err != nil {
		return err
	}
	if tr := a.st.topic(topic); tr != nil {
		tr.Owner = newOwner
	}
	a.wrote()
	return nil
}

func (a *Adapter) SubscriptionGet(topic string, user t.Uid, keepDeleted bool) (*t.Subscription, error) {
	a.lock()
	defer a.mu.Unlock()
	if err := a.enter("SubscriptionGet", false, topic+":"+user.String()); err != nil {
		return nil, err
	}
	r := a.st.sub(topic, user)
	if r == nil || (!keepDeleted && r.DeletedAt != nil) {
		return nil, nil
	}
	sub := r.toSub()
	return &sub, nil
}

func (a *Adapter) SubsForUser(forUser t.Uid) ([]t.Subscription, error) {
	a.lock()
	defer a.mu.Unlock()
	if err := a.enter("SubsForUser", false, forUser.String()); err != nil {
		return nil, err
	}
	var subs []t.Subscription
	for _, r := range a.st.Subs {
		if r.User == forUser && r.DeletedAt == nil {
			sub := r.toSub()
			sub.Private = nil
			subs = append(subs, sub)
		}
	}
	return subs, nil
}

func (a *Adapter) SubsForTopic(topic string, keepDeleted bool, opts *t.QueryOpt) ([]t.Subscription, error) {
	a.lock()
	defer a.mu.Unlock()
	if err := a.enter("SubsForTopic", false, topic); err != nil {
		return nil, err
	}
	limit := a.maxResults
	var one t.Uid
	if opts != nil {
		one = opts.User
		if opts.Limit > 0 && opts.Limit < limit {
			limit = opts.Limit
		}
	}
	var subs []t.Subscription
	for _, r := range a.st.Subs {
		if r.Topic != topic || (!keepDeleted && r.DeletedAt != nil) || (!one.IsZero() && r.User != one) {
			continue
		}
		if len(subs) >= limit {
			break
		}
		subs = append(subs, r.toSub())
	}
	return subs, nil
}

func asMode(v any) t.AccessMode {
	switch m := v.(type) {
	case t.AccessMode:
		return m & t.ModeBitmask
	case string:
		var am t.AccessMode
		am.UnmarshalText([]byte(m))
		return am
	}
	panic("verifmem: mode value of unexpected type")
}

func (a *Adapter) SubsUpdate(topic string, user t.Uid, update map[string]any) error {
	a.lock()
	defer a.mu.Unlock()
	if err := a.enter("SubsUpdate", true, topic+":"+user.String()+" "+keys(update)); err != nil {
		return err
	}
	for _, r := range a.st.Subs {
		if r.Topic != topic || (!user.IsZero() && r.User != user) {
			continue
		}
		for k, v := range update {
			switch strings.ToLower(k) {
			case "updatedat":
				r.UpdatedAt = v.(time.Time)
			case "modewant":
				r.ModeWant = asMode(v)
			case "modegiven":
				r.ModeGiven = asMode(v)
			case "private":
				r.Private = toJSON(v)
			case "recvseqid":
				r.RecvSeqId = v.(int)
			case "readseqid":
				r.ReadSeqId = v.(int)
			case "delid":
				r.DelId = v.(int)
			default:
				panic("verifmem: SubsUpdate: unknown column " + k)
			}
		}
	}
	a.wrote()
	return nil
}

func (a *Adapter) SubsDelete(topic string, user t.Uid) error {
	a.lock()
	defer a.mu.Unlock()
	if err := a.enter("SubsDelete", true, topic+":"+user.String()); err != nil {
		return err
	}
	r := a.st.sub(topic, user)
	if r == nil || r.DeletedAt != nil {
		return t.ErrNotFound
	}
	now := t.TimeNow()
	r.UpdatedAt, r.DeletedAt = now, tp(&now)
	a.st.Dellog = filter(a.st.Dellog, func(d *dellogRow) bool { return !(d.Topic == topic && d.DeletedFor == user) })
	a.wrote()
	return nil
}

// SubsDelForUser is not part of the adapter interface of this tree but some adapters export it.
func (a *Adapter) SubsDelForUser(user t.Uid, hard bool) error {
	a.lock()
	defer a.mu.Unlock()
	if err := a.enter("SubsDelForUser", true, user.String()); err != nil {
		return err
	}
	if hard {
		a.st.Subs = filter(a.st.Subs, func(r *subRow) bool { return r.User != user })
	} else {
		now := t.TimeNow()
		for _, r := range a.st.Subs {
			if r.User == user && r.DeletedAt == nil {
				r.UpdatedAt, r.DeletedAt = now, tp(&now)
			}
		}
	}
	a.wrote()
	return nil
}

// find implements FindUsers / FindTopics matching: at least one tag of every
// non-empty required disjunction present; ordered by the number of matching tags.
func matchTags(have []string, req [][]string, opt []string) (int, bool) {
	all := t.FlattenDoubleSlice(req)
	all = append(all, opt...)
	matches := 0
	for _, tag := range have {
		if hasStr(all, tag) {
			matches++
		}
	}
	if matches == 0 {
		return 0, false
	}
	for _, dis := range req {
		if len(dis) == 0 {
			continue
		}
		ok := false
		for _, tag := range dis {
			if hasStr(have, tag) {
				ok = true
			}
		}
		if !ok {
			return 0, false
		}
	}
	return matches, true
}

func foundTags(tags []string, req [][]string, opt []string) []string {
	all := append(t.FlattenDoubleSlice(req), opt...)
	out := make([]string, 0, 1)
	for _, tag := range tags {
		if hasStr(all, tag) {
			out = append(out, tag)
		}
	}
	return out
}

type scored struct {
	sub     t.Subscription
	matches int
}

func topN(in []scored, n int) []t.Subscription {
	// stable sort by matches desc
	for i := 1; i < len(in); i++ {
		for j := i; j > 0 && in[j-1].matches < in[j].matches; j-- {
			in[j-1], in[j] = in[j], in[j-1]
		}
	}
	var out []t.Subscription
	for i, s := range in {
		if i >= n {
			break
		}
		out = append(out, s.sub)
	}
	return out
}

func (a *Adapter) FindUsers(uid t.Uid, req [][]string, opt []string, activeOnly bool) ([]t.Subscription, error) {
	a.lock()
	defer a.mu.Unlock()
	if err := a.enter("FindUsers", false, ""); err != nil {
		return nil, err
	}
	var res []scored
	for _, u := range a.st.Users {
		if activeOnly && u.State != t.StateOK {
			continue
		}
		m, ok := matchTags(u.TagIdx, req, opt)
		if !ok {
			continue
		}
		var sub t.Subscription
		sub.CreatedAt, sub.UpdatedAt = u.CreatedAt, u.UpdatedAt
		sub.User = u.ID.String()
		sub.SetPublic(fromJSON(u.Public))
		sub.SetTrusted(fromJSON(u.Trusted))
		sub.SetDefaultAccess(u.Access.Auth, u.Access.Anon)
		sub.Private = foundTags(u.Tags, req, opt)
		res = append(res, scored{sub, m})
	}
	out := topN(res, a.maxResults)
	// The callee is skipped after the LIMIT, as in the SQL adapter.
	return filter(out, func(s t.Subscription) bool { return s.User != uid.String() }), nil
}

func (a *Adapter) FindTopics(req [][]string, opt []string, activeOnly bool) ([]t.Subscription, error) {
	a.lock()
	defer a.mu.Unlock()
	if err := a.enter("FindTopics", false, ""); err != nil {
		return nil, err
	}
	var res []scored
	for _, tr := range a.st.Topics {
		if activeOnly && tr.State != t.StateOK {
			continue
		}
		m, ok := matchTags(tr.TagIdx, req, opt)
		if !ok {
			continue
		}
		var sub t.Subscription
		sub.CreatedAt, sub.UpdatedAt = tr.CreatedAt, tr.UpdatedAt
		sub.Topic = tr.Name
		if tr.UseBt {
			sub.Topic = t.GrpToChn(tr.Name)
		}
		sub.SetPublic(fromJSON(tr.Public))
		sub.SetTrusted(fromJSON(tr.Trusted))
		sub.SetDefaultAccess(tr.Access.Auth, tr.Access.Anon)
		sub.Private = foundTags(tr.Tags, req, opt)
		res = append(res, scored{sub, m})
	}
	return topN(res, a.maxResults), nil
}
