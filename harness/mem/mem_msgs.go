package zzverifmem

import (
	"hash/fnv"
	"sort"
	"strconv"
	"strings"
	"time"

	t "github.com/tinode/chat/server/store/types"
)

// ------------------------------------------------------------------ messages

func (a *Adapter) MessageSave(msg *t.Message) error {
	a.lock()
	defer a.mu.Unlock()
	if err := a.enter("MessageSave", true, msg.Topic+"#"+strconv.Itoa(msg.SeqId)); err != nil {
		return err
	}
	s := a.st
	if s.topic(msg.Topic) == nil {
		return errFK
	}
	for _, m := range s.Msgs {
		if m.Topic == msg.Topic && m.SeqId == msg.SeqId {
			return errDupKey
		}
	}
	s.AutoInc++
	id := s.AutoInc
	var head []byte
	if msg.Head != nil {
		head = toJSON(msg.Head)
	} else {
		head = []byte("null")
	}
	s.Msgs = append(s.Msgs, &msgRow{ID: id, CreatedAt: msg.CreatedAt, UpdatedAt: msg.UpdatedAt, SeqId: msg.SeqId, Topic: msg.Topic,
		From: t.ParseUid(msg.From), Head: head, Content: toJSON(msg.Content)})
	msg.SetUid(t.Uid(id))
	a.wrote()
	return nil
}

func (m *msgRow) toMsg() t.Message {
	var out t.Message
	out.CreatedAt, out.UpdatedAt, out.DeletedAt = m.CreatedAt, m.UpdatedAt, tp(m.DeletedAt)
	out.DelId, out.SeqId, out.Topic = m.DelId, m.SeqId, m.Topic
	out.From = m.From.String()
	if m.Head != nil && string(m.Head) != "null" {
		h, _ := fromJSON(m.Head).(map[string]any)
		out.Head = t.MessageHeaders(h)
	}
	out.Content = fromJSON(m.Content)
	return out
}

func (s *State) softDeleted(topic string, forUser t.Uid, seq int) bool {
	for _, d := range s.Dellog {
		if d.Topic == topic && d.DeletedFor == forUser && seq >= d.Low && seq <= d.Hi-1 {
			return true
		}
	}
	return false
}

func (a *Adapter) MessageGetAll(topic string, forUser t.Uid, opts *t.QueryOpt) ([]t.Message, error) {
	a.mu.Lock()
	defer a.mu.Unlock()
	arg := topic + " for " + forUser.String()
	if opts != nil {
		arg += " since=" + strconv.Itoa(opts.Since) + " before=" + strconv.Itoa(opts.Before) + " limit=" + strconv.Itoa(opts.Limit)
	}
	if err := a.enter("MessageGetAll", false, arg); err != nil {
		return nil, err
	}
	limit := a.maxMsgs
	lower, upper := 0, 1<<31-1
	if opts != nil {
		if opts.Since > 0 {
			lower = opts.Since
		}
		if opts.Before > 0 {
			upper = opts.Before - 1
		}
		if opts.Limit > 0 && opts.Limit < limit {
			limit = opts.Limit
		}
	}
	var rows []*msgRow
	for _, m := range a.st.Msgs {
		// The LEFT JOIN on dellog uses deletedfor=<user>; for a zero user that matches
		// the hard-delete log rows (deletedfor=0) as well.
		if m.Topic == topic && m.DelId == 0 && m.SeqId >= lower && m.SeqId <= upper && !a.st.softDeleted(topic, forUser, m.SeqId) {
			rows = append(rows, m)
		}
	}
	sort.SliceStable(rows, func(i, j int) bool { return rows[i].SeqId > rows[j].SeqId })
	msgs := make([]t.Message, 0, limit)
	for i, m := range rows {
		if i >= limit {
			break
		}
		msgs = append(msgs, m.toMsg())
	}
	return msgs, nil
}

func (a *Adapter) MessageGetDeleted(topic string, forUser t.Uid, opts *t.QueryOpt) ([]t.DelMessage, error) {
	a.lock()
	defer a.mu.Unlock()
	if err := a.enter("MessageGetDeleted", false, topic+" for "+forUser.String()); err != nil {
		return nil, err
	}
	limit := a.maxResults
	lower, upper := 0, 1<<31-1
	if opts != nil {
		if opts.Since > 0 {
			lower = opts.Since
		}
		if opts.Before > 1 {
			upper = opts.Before - 1
		}
		if opts.Limit > 0 && opts.Limit < limit {
			limit = opts.Limit
		}
	}
	var rows []*dellogRow
	for _, d := range a.st.Dellog {
		if d.Topic == topic && d.DelId >= lower && d.DelId <= upper && (d.DeletedFor.IsZero() || d.DeletedFor == forUser) {
			rows = append(rows, d)
		}
	}
	sort.SliceStable(rows, func(i, j int) bool { return rows[i].DelId < rows[j].DelId })
	if len(rows) > limit {
		rows = rows[:limit]
	}
	var dmsgs []t.DelMessage
	var dmsg t.DelMessage
	for _, d := range rows {
		if d.DelId != dmsg.DelId {
			if dmsg.DelId > 0 {
				dmsgs = append(dmsgs, dmsg)
			}
			dmsg.DelId = d.DelId
			dmsg.Topic = d.Topic
			dmsg.DeletedFor = d.DeletedFor.String()
			dmsg.SeqIdRanges = nil
		}
		hi := d.Hi
		if hi <= d.Low+1 {
			hi = 0
		}
		dmsg.SeqIdRanges = append(dmsg.SeqIdRanges, t.Range{Low: d.Low, Hi: hi})
	}
	if dmsg.DelId > 0 {
		dmsgs = append(dmsgs, dmsg)
	}
	return dmsgs, nil
}

func (a *Adapter) MessageDeleteList(topic string, toDel *t.DelMessage) error {
	a.mu.Lock()
	defer a.mu.Unlock()
	arg := topic
	if toDel != nil {
		arg += " delid=" + strconv.Itoa(toDel.DelId) + " for=" + toDel.DeletedFor
		for _, r := range toDel.SeqIdRanges {
			arg += " [" + strconv.Itoa(r.Low) + "," + strconv.Itoa(r.Hi) + ")"
		}
	}
	if err := a.enter("MessageDeleteList", true, arg); err != nil {
		return err
	}
	s := a.st
	if toDel == nil {
		s.Dellog = filter(s.Dellog, func(d *dellogRow) bool { return d.Topic != topic })
		s.deleteMsgs(func(m *msgRow) bool { return m.Topic == topic })
		a.wrote()
		return nil
	}
	if s.topic(topic) == nil {
		return errFK
	}
	forUser := t.ParseUid(toDel.DeletedFor)
	for _, rng := range toDel.SeqIdRanges {
		hi := rng.Hi
		if hi == 0 {
			hi = rng.Low + 1
		}
		s.Dellog = append(s.Dellog, &dellogRow{Topic: topic, DeletedFor: forUser, DelId: toDel.DelId, Low: rng.Low, Hi: hi})
	}
	if toDel.DeletedFor == "" {
		now := t.TimeNow()
		in := func(seq int) bool {
			for _, r := range toDel.SeqIdRanges {
				if r.Hi == 0 {
					if seq == r.Low {
						return true
					}
				} else if seq >= r.Low && seq < r.Hi {
					return true
				}
			}
			return false
		}
		gone := map[int64]bool{}
		for _, m := range s.Msgs {
			if m.Topic == topic && m.DeletedAt == nil && in(m.SeqId) {
				gone[m.ID] = true
				m.DeletedAt, m.DelId, m.Head, m.Content = tp(&now), toDel.DelId, nil, nil
			}
		}
		s.Links = filter(s.Links, func(l *linkRow) bool { return l.MsgID == 0 || !gone[l.MsgID] })
	}
	a.wrote()
	return nil
}

// ------------------------------------------------------------------ devices

func deviceHasher(deviceID string) string {
	hasher := fnv.New64()
	hasher.Write([]byte(deviceID))
	return strconv.FormatUint(uint64(hasher.Sum64()), 16)
}

func (a *Adapter) DeviceUpsert(uid t.Uid, def *t.DeviceDef) error {
	a.lock()
	defer a.mu.Unlock()
	if err := a.enter("DeviceUpsert", true, def.DeviceId); err != nil {
		return err
	}
	if a.st.user(uid) == nil {
		return errFK
	}
	hash := deviceHasher(def.DeviceId)
	a.st.Devices = filter(a.st.Devices, func(d *deviceRow) bool { return d.Hash != hash })
	a.st.Devices = append(a.st.Devices, &deviceRow{User: uid, Hash: hash, DeviceId: def.DeviceId, Platform: def.Platform, LastSeen: def.LastSeen, Lang: def.Lang})
	a.wrote()
	return nil
}

func (a *Adapter) DeviceGetAll(uids ...t.Uid) (map[t.Uid][]t.DeviceDef, int, error) {
	a.lock()
	defer a.mu.Unlock()
	if err := a.enter("DeviceGetAll", false, ""); err != nil {
		return nil, 0, err
	}
	result := make(map[t.Uid][]t.DeviceDef)
	count := 0
	for _, d := range a.st.Devices {
		for _, uid := range uids {
			if uid == d.User {
				result[uid] = append(result[uid], t.DeviceDef{DeviceId: d.DeviceId, Platform: d.Platform, LastSeen: d.LastSeen, Lang: d.Lang})
				count++
				break
			}
		}
	}
	return result, count, nil
}

func (a *Adapter) DeviceDelete(uid t.Uid, deviceID string) error {
	a.lock()
	defer a.mu.Unlock()
	if err := a.enter("DeviceDelete", true, deviceID); err != nil {
		return err
	}
	n := len(a.st.Devices)
	if deviceID == "" {
		a.st.Devices = filter(a.st.Devices, func(d *deviceRow) bool { return d.User != uid })
	} else {
		h := deviceHasher(deviceID)
		a.st.Devices = filter(a.st.Devices, func(d *deviceRow) bool { return !(d.User == uid && d.Hash == h) })
	}
	if n == len(a.st.Devices) {
		return t.ErrNotFound
	}
	a.wrote()
	return nil
}

// ------------------------------------------------------------------ credentials

func (a *Adapter) CredUpsert(cred *t.Credential) (bool, error) {
	a.lock()
	defer a.mu.Unlock()
	if err := a.enter("CredUpsert", true, cred.Method+":"+cred.Value); err != nil {
		return false, err
	}
	s := a.st
	uid := t.ParseUid(cred.User)
	now := t.TimeNow()
	synth := cred.Method + ":" + cred.Value
	bySynth := func(x string) *credRow {
		for _, c := range s.Creds {
			if c.Synthetic == x {
				return c
			}
		}
		return nil
	}
	if !cred.Done {
		if bySynth(synth) != nil {
			return false, t.ErrDuplicate
		}
		synth = cred.User + ":" + synth
		if s.user(uid) == nil && bySynth(synth) == nil {
			return true, errFK
		}
		for _, c := range s.Creds {
			if c.User == uid && c.Method == cred.Method && !c.Done {
				c.DeletedAt = tp(&now)
			}
		}
		if c := bySynth(synth); c != nil {
			c.UpdatedAt, c.DeletedAt, c.Resp, c.Done = cred.UpdatedAt, nil, cred.Resp, false
			a.wrote()
			return false, nil
		}
	} else {
		if bySynth(synth) != nil {
			return true, t.ErrDuplicate
		}
		if s.user(uid) == nil {
			return true, errFK
		}
		unconf := cred.User + ":" + synth
		s.Creds = filter(s.Creds, func(c *credRow) bool { return c.Synthetic != unconf })
	}
	s.Creds = append(s.Creds, &credRow{CreatedAt: cred.CreatedAt, UpdatedAt: cred.UpdatedAt, Method: cred.Method, Value: cred.Value,
		Synthetic: synth, User: uid, Resp: cred.Resp, Done: cred.Done})
	a.wrote()
	return true, nil
}

func (a *Adapter) CredDel(uid t.Uid, method, value string) error {
	a.lock()
	defer a.mu.Unlock()
	if err := a.enter("CredDel", true, method+":"+value); err != nil {
		return err
	}
	s := a.st
	n := len(s.Creds)
	if method == "" {
		s.Creds = filter(s.Creds, func(c *credRow) bool { return c.User != uid })
		if len(s.Creds) == n {
			return t.ErrNotFound
		}
		a.wrote()
		return nil
	}
	match := func(c *credRow) bool {
		return c.User == uid && c.Method == method && (value == "" || c.Value == value)
	}
	s.Creds = filter(s.Creds, func(c *credRow) bool { return !(match(c) && (c.Done || c.Retries == 0)) })
	if len(s.Creds) < n {
		a.wrote()
		return nil
	}
	// Case 2.2 of the SQL adapter: the soft-delete UPDATE is always followed by
	// ErrNotFound, which rolls the transaction back: no effect.
	return t.ErrNotFound
}

func (a *Adapter) CredConfirm(uid t.Uid, method string) error {
	a.lock()
	defer a.mu.Unlock()
	if err := a.enter("CredConfirm", true, method); err != nil {
		return err
	}
	var rows []*credRow
	for _, c := range a.st.Creds {
		if c.User == uid && c.Method == method && c.DeletedAt == nil && !c.Done {
			rows = append(rows, c)
		}
	}
	if len(rows) == 0 {
		return t.ErrNotFound
	}
	for _, r := range rows {
		ns := r.Method + ":" + r.Value
		for _, c := range a.st.Creds {
			if c != r && c.Synthetic == ns {
				return t.ErrDuplicate
			}
		}
	}
	now := t.TimeNow()
	for _, r := range rows {
		r.UpdatedAt, r.Done, r.Synthetic = now, true, r.Method+":"+r.Value
	}
	a.wrote()
	return nil
}

func (a *Adapter) CredFail(uid t.Uid, method string) error {
	a.lock()
	defer a.mu.Unlock()
	if err := a.enter("CredFail", true, method); err != nil {
		return err
	}
	now := t.TimeNow()
	for _, c := range a.st.Creds {
		if c.User == uid && c.Method == method && !c.Done {
			c.UpdatedAt = now
			c.Retries++
		}
	}
	a.wrote()
	return nil
}

func (c *credRow) toCred() t.Credential {
	var out t.Credential
	out.CreatedAt, out.UpdatedAt = c.CreatedAt, c.UpdatedAt
	out.User, out.Method, out.Value, out.Resp, out.Done, out.Retries = c.User.String(), c.Method, c.Value, c.Resp, c.Done, c.Retries
	return out
}

func (a *Adapter) CredGetActive(uid t.Uid, method string) (*t.Credential, error) {
	a.lock()
	defer a.mu.Unlock()
	if err := a.enter("CredGetActive", false, method); err != nil {
		return nil, err
	}
	for _, c := range a.st.Creds {
		if c.User == uid && c.DeletedAt == nil && c.Method == method && !c.Done {
			out := c.toCred()
			return &out, nil
		}
	}
	return nil, nil
}

func (a *Adapter) CredGetAll(uid t.Uid, method string, validatedOnly bool) ([]t.Credential, error) {
	a.lock()
	defer a.mu.Unlock()
	if err := a.enter("CredGetAll", false, method); err != nil {
		return nil, err
	}
	var out []t.Credential
	for _, c := range a.st.Creds {
		if c.User == uid && c.DeletedAt == nil && (method == "" || c.Method == method) && (!validatedOnly || c.Done) {
			out = append(out, c.toCred())
		}
	}
	return out, nil
}

// ------------------------------------------------------------------ files

func (s *State) file(id t.Uid) *fileRow {
	for _, f := range s.Files {
		if f.ID == id {
			return f
		}
	}
	return nil
}

func (a *Adapter) FileStartUpload(fd *t.FileDef) error {
	a.lock()
	defer a.mu.Unlock()
	if err := a.enter("FileStartUpload", true, fd.Id); err != nil {
		return err
	}
	if a.st.file(fd.Uid()) != nil {
		return errDupKey
	}
	a.st.Files = append(a.st.Files, &fileRow{ID: fd.Uid(), CreatedAt: fd.CreatedAt, UpdatedAt: fd.UpdatedAt, User: t.ParseUid(fd.User),
		Status: fd.Status, MimeType: fd.MimeType, Size: fd.Size, Location: fd.Location})
	a.wrote()
	return nil
}

func (a *Adapter) FileFinishUpload(fd *t.FileDef, success bool, size int64) (*t.FileDef, error) {
	a.lock()
	defer a.mu.Unlock()
	if err := a.enter("FileFinishUpload", true, fd.Id); err != nil {
		return nil, err
	}
	now := t.TimeNow()
	if success {
		if f := a.st.file(fd.Uid()); f != nil {
			f.UpdatedAt, f.Status, f.Size = now, t.UploadCompleted, size
		}
		fd.Status = t.UploadCompleted
		fd.Size = size
	} else {
		id := fd.Uid()
		a.st.Files = filter(a.st.Files, func(f *fileRow) bool { return f.ID != id })
		a.st.Links = filter(a.st.Links, func(l *linkRow) bool { return l.File != id })
		fd.Status = t.UploadFailed
		fd.Size = 0
	}
	fd.UpdatedAt = now
	a.wrote()
	return fd, nil
}

func (a *Adapter) FileGet(fid string) (*t.FileDef, error) {
	a.mu.Lock()
	defer a.mu.Unlock()
	id := t.ParseUid(fid)
	if id.IsZero() {
		return nil, t.ErrMalformed
	}
	if err := a.enter("FileGet", false, fid); err != nil {
		return nil, err
	}
	f := a.st.file(id)
	if f == nil {
		return nil, nil
	}
	var fd t.FileDef
	fd.SetUid(f.ID)
	fd.CreatedAt, fd.UpdatedAt = f.CreatedAt, f.UpdatedAt
	fd.User, fd.Status, fd.MimeType, fd.Size, fd.Location = f.User.String(), f.Status, f.MimeType, f.Size, f.Location
	return &fd, nil
}

func (a *Adapter) FileDeleteUnused(olderThan time.Time, limit int) ([]string, error) {
	a.lock()
	defer a.mu.Unlock()
	failed := a.enter("FileDeleteUnused", true, "")
	if failed != nil && !a.plan.AtCommit {
		return nil, failed
	}
	s := a.st
	var locations []string
	gone := map[t.Uid]bool{}
	for _, f := range s.Files {
		linked := false
		for _, l := range s.Links {
			if l.File == f.ID {
				linked = true
				break
			}
		}
		if linked || (!olderThan.IsZero() && !f.UpdatedAt.Before(olderThan)) {
			continue
		}
		if limit > 0 && len(gone) >= limit {
			break
		}
		gone[f.ID] = true
		if f.Location != "" {
			locations = append(locations, f.Location)
		}
	}
	if failed != nil {
		// Plan.AtCommit: the SQL adapters end with `return locations, tx.Commit()`: when the commit
		// fails the records stay (rolled back) and the caller still gets the selected locations
		return locations, failed
	}
	s.Files = filter(s.Files, func(f *fileRow) bool { return !gone[f.ID] })
	a.wrote()
	return locations, nil
}

func (a *Adapter) FileLinkAttachments(topic string, userId, msgId t.Uid, fids []string) error {
	a.lock()
	defer a.mu.Unlock()
	if len(fids) == 0 || (topic == "" && msgId.IsZero() && userId.IsZero()) {
		return t.ErrMalformed
	}
	if err := a.enter("FileLinkAttachments", true, topic+" "+userId.String()+" "+strings.Join(fids, ",")); err != nil {
		return err
	}
	s := a.st
	if msgId.IsZero() {
		fids = fids[0:1]
	}
	var ids []t.Uid
	for _, fid := range fids {
		id := t.ParseUid(fid)
		if id.IsZero() {
			return t.ErrMalformed
		}
		ids = append(ids, id)
	}
	// Foreign keys.
	for _, id := range ids {
		if s.file(id) == nil {
			return errFK
		}
	}
	if !msgId.IsZero() {
		found := false
		for _, m := range s.Msgs {
			if m.ID == int64(msgId) {
				found = true
			}
		}
		if !found {
			return errFK
		}
	} else if topic != "" {
		if s.topic(topic) == nil {
			return errFK
		}
		s.Links = filter(s.Links, func(l *linkRow) bool { return l.Topic != topic })
	} else {
		if s.user(userId) == nil {
			return errFK
		}
		s.Links = filter(s.Links, func(l *linkRow) bool { return l.User != userId })
	}
	for _, id := range ids {
		l := &linkRow{File: id}
		if !msgId.IsZero() {
			l.MsgID = int64(msgId)
		} else if topic != "" {
			l.Topic = topic
		} else {
			l.User = userId
		}
		s.Links = append(s.Links, l)
	}
	a.wrote()
	return nil
}

// ------------------------------------------------------------------ persistent cache

func (a *Adapter) PCacheGet(key string) (string, error) {
	a.lock()
	defer a.mu.Unlock()
	if err := a.enter("PCacheGet", false, key); err != nil {
		return "", err
	}
	for _, kv := range a.st.KV {
		if kv.Key == key {
			return kv.Value, nil
		}
	}
	return "", t.ErrNotFound
}

func (a *Adapter) PCacheUpsert(key string, value string, failOnDuplicate bool) error {
	a.lock()
	defer a.mu.Unlock()
	if strings.Contains(key, "%") {
		return t.ErrMalformed
	}
	if err := a.enter("PCacheUpsert", true, key); err != nil {
		return err
	}
	for _, kv := range a.st.KV {
		if kv.Key == key {
			if failOnDuplicate {
				return t.ErrDuplicate
			}
			kv.CreatedAt, kv.Value = t.TimeNow(), value
			a.wrote()
			return nil
		}
	}
	a.st.KV = append(a.st.KV, &kvRow{Key: key, CreatedAt: t.TimeNow(), Value: value})
	a.wrote()
	return nil
}

func (a *Adapter) PCacheDelete(key string) error {
	a.lock()
	defer a.mu.Unlock()
	if err := a.enter("PCacheDelete", true, key); err != nil {
		return err
	}
	a.st.KV = filter(a.st.KV, func(kv *kvRow) bool { return kv.Key != key })
	a.wrote()
	return nil
}

func (a *Adapter) PCacheExpire(keyPrefix string, olderThan time.Time) error {
	a.lock()
	defer a.mu.Unlock()
	if keyPrefix == "" {
		return t.ErrMalformed
	}
	if err := a.enter("PCacheExpire", true, keyPrefix); err != nil {
		return err
	}
	a.st.KV = filter(a.st.KV, func(kv *kvRow) bool { return !(strings.HasPrefix(kv.Key, keyPrefix) && kv.CreatedAt.Before(olderThan)) })
	a.wrote()
	return nil
}
