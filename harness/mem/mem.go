// Package zzverifmem is the reference in-memory store adapter used by the /verif
// world engine. It is written against the MySQL adapter's SQL as the contract
// (same uniqueness constraints, soft-delete/undelete behaviour, range and limit
// semantics) and is overlaid into the module at build time; it is never part of
// /repo. Every adapter call is atomic: a call that fails has no effect.
package zzverifmem

import (
	"encoding/json"
	"errors"
	"sort"
	"strings"
	"sync"
	"sync/atomic"
	"time"

	"github.com/tinode/chat/server/auth"
	t "github.com/tinode/chat/server/store/types"
)

const (
	Name                  = "verifmem"
	adpVersion            = 113
	defaultMaxResults     = 1024
	defaultMaxMsgResults  = 100
)

// ErrInjected is returned by a call selected by the fault plan.
var ErrInjected = errors.New("verifmem: injected store failure")

type userRow struct {
	ID        t.Uid
	CreatedAt time.Time
	UpdatedAt time.Time
	State     t.ObjState
	StateAt   *time.Time
	Access    t.DefaultAccess
	LastSeen  *time.Time
	UserAgent string
	Public    []byte
	Trusted   []byte
	Tags      []string // users.tags column
	TagIdx    []string // usertags table
}

type authRow struct {
	Uname   string
	User    t.Uid
	Scheme  string
	Level   auth.Level
	Secret  []byte
	Expires time.Time
}

type topicRow struct {
	Seq       int // insertion order
	CreatedAt time.Time
	UpdatedAt time.Time
	State     t.ObjState
	StateAt   *time.Time
	TouchedAt time.Time
	Name      string
	UseBt     bool
	Owner     t.Uid
	Access    t.DefaultAccess
	SeqId     int
	DelId     int
	Public    []byte
	Trusted   []byte
	Tags      []string
	TagIdx    []string
}

type subRow struct {
	Seq       int
	CreatedAt time.Time
	UpdatedAt time.Time
	DeletedAt *time.Time
	User      t.Uid
	Topic     string
	DelId     int
	RecvSeqId int
	ReadSeqId int
	ModeWant  t.AccessMode
	ModeGiven t.AccessMode
	Private   []byte
}

type msgRow struct {
	ID        int64
	CreatedAt time.Time
	UpdatedAt time.Time
	DeletedAt *time.Time
	DelId     int
	SeqId     int
	Topic     string
	From      t.Uid
	Head      []byte
	Content   []byte
}

type dellogRow struct {
	Topic      string
	DeletedFor t.Uid
	DelId      int
	Low, Hi    int
}

type deviceRow struct {
	User     t.Uid
	Hash     string
	DeviceId string
	Platform string
	LastSeen time.Time
	Lang     string
}

type credRow struct {
	CreatedAt time.Time
	UpdatedAt time.Time
	DeletedAt *time.Time
	Method    string
	Value     string
	Synthetic string
	User      t.Uid
	Resp      string
	Done      bool
	Retries   int
}

type fileRow struct {
	ID        t.Uid
	CreatedAt time.Time
	UpdatedAt time.Time
	User      t.Uid
	Status    int
	MimeType  string
	Size      int64
	Location  string
}

type linkRow struct {
	File  t.Uid
	MsgID int64
	Topic string
	User  t.Uid
}

type kvRow struct {
	Key       string
	CreatedAt time.Time
	Value     string
}

// State is the whole database. All slices are in insertion order.
type State struct {
	Users   []*userRow
	Auth    []*authRow
	Topics  []*topicRow
	Subs    []*subRow
	Msgs    []*msgRow
	Dellog  []*dellogRow
	Devices []*deviceRow
	Creds   []*credRow
	Files   []*fileRow
	Links   []*linkRow
	KV      []*kvRow
	AutoInc int64
}

func newState() *State {
	s := &State{}
	now := t.TimeNow()
	s.Topics = append(s.Topics, &topicRow{Seq: 1, CreatedAt: now, UpdatedAt: now, TouchedAt: now, Name: "sys",
		Public: []byte(`{"fn": "System"}`)})
	s.AutoInc = 1
	return s
}

// Clone returns a deep copy (byte slices are treated as immutable and shared).
func (s *State) Clone() *State {
	c := &State{AutoInc: s.AutoInc}
	for _, r := range s.Users {
		x := *r
		x.Tags = append([]string(nil), r.Tags...)
		x.TagIdx = append([]string(nil), r.TagIdx...)
		c.Users = append(c.Users, &x)
	}
	for _, r := range s.Auth {
		x := *r
		c.Auth = append(c.Auth, &x)
	}
	for _, r := range s.Topics {
		x := *r
		x.Tags = append([]string(nil), r.Tags...)
		x.TagIdx = append([]string(nil), r.TagIdx...)
		c.Topics = append(c.Topics, &x)
	}
	for _, r := range s.Subs {
		x := *r
		c.Subs = append(c.Subs, &x)
	}
	for _, r := range s.Msgs {
		x := *r
		c.Msgs = append(c.Msgs, &x)
	}
	for _, r := range s.Dellog {
		x := *r
		c.Dellog = append(c.Dellog, &x)
	}
	for _, r := range s.Devices {
		x := *r
		c.Devices = append(c.Devices, &x)
	}
	for _, r := range s.Creds {
		x := *r
		c.Creds = append(c.Creds, &x)
	}
	for _, r := range s.Files {
		x := *r
		c.Files = append(c.Files, &x)
	}
	for _, r := range s.Links {
		x := *r
		c.Links = append(c.Links, &x)
	}
	for _, r := range s.KV {
		x := *r
		c.KV = append(c.KV, &x)
	}
	return c
}

// Call is one logged adapter call.
type Call struct {
	N      int    `json:"n"`
	Method string `json:"m"`
	Write  bool   `json:"w,omitempty"`
	Args   string `json:"a,omitempty"`
	Err    string `json:"e,omitempty"`
}

// Plan selects calls to fail / a crash point. Counting starts when the plan is armed.
type Plan struct {
	FailNth    int    // fail the n-th call (1-based) counted from arming; 0 = off
	FailMethod string // if set, fail the FailNth-th call of this method only
	FailErr    error  // error to return (default ErrInjected)
	CrashAfter int    // snapshot the state after the n-th *write* call; 0 = off
	AtCommit   bool   // the failure strikes at the commit of the call's transaction: FileDeleteUnused then hands back its result together with the error
}

// Adapter implements adapter.Adapter.
type Adapter struct {
	mu         sync.Mutex
	open       bool
	st         *State
	maxResults int
	maxMsgs    int

	plan      Plan
	armed     bool
	nCalls    int
	nMethod   int
	nWrites   int
	Fired     bool   // the plan's failure was delivered
	FiredMethod string // the adapter method which was failed
	CrashSnap *State // state right after the CrashAfter-th write
	trace     bool
	calls     []Call
}

// Store latency: every adapter call first sleeps latPat[n % len] microseconds (n = number of the
// call), outside the lock. Inside a synctest bubble the sleep is virtual: it costs nothing but lets
// every other goroutine run up to its own next blocking point, so concurrent requests interleave at
// store-call boundaries the way they do over a real database connection. Sleeping reports the
// number of calls asleep so that the harness can tell "quiescent" from "waiting for the store".
var (
	latPat   atomic.Pointer[[]int]
	latN     atomic.Int64
	sleeping atomic.Int32
)

// SetLatency installs the pattern (nil or empty = no latency).
func SetLatency(pat []int) {
	if len(pat) == 0 {
		latPat.Store(nil)
		return
	}
	p := append([]int(nil), pat...)
	latN.Store(0)
	latPat.Store(&p)
}

// Sleeping returns the number of adapter calls which are waiting out their latency.
func Sleeping() int { return int(sleeping.Load()) }

func (a *Adapter) lock() {
	if p := latPat.Load(); p != nil {
		n := latN.Add(1)
		if d := (*p)[int(n)%len(*p)]; d > 0 {
			sleeping.Add(1)
			time.Sleep(time.Duration(d) * time.Microsecond)
			sleeping.Add(-1)
		}
	}
	a.mu.Lock()
}

// A is the process-wide instance registered with the store.
var A = &Adapter{}

func (a *Adapter) Reset() {
	a.mu.Lock()
	defer a.mu.Unlock()
	a.st = newState()
	a.plan, a.armed, a.nCalls, a.nMethod, a.nWrites, a.Fired, a.CrashSnap = Plan{}, false, 0, 0, 0, false, nil
	a.calls = nil
	a.trace = false
}

// Snapshot returns a deep copy of the current database.
func (a *Adapter) Snapshot() *State {
	a.mu.Lock()
	defer a.mu.Unlock()
	return a.st.Clone()
}

// Restore replaces the database with (a copy of) s.
func (a *Adapter) Restore(s *State) {
	a.mu.Lock()
	defer a.mu.Unlock()
	a.st = s.Clone()
}

// Arm installs a fault plan and restarts call counting.
func (a *Adapter) Arm(p Plan) {
	a.mu.Lock()
	defer a.mu.Unlock()
	a.plan, a.armed, a.nCalls, a.nMethod, a.nWrites, a.Fired, a.CrashSnap = p, true, 0, 0, 0, false, nil
}

// Disarm removes the plan and returns (calls, writes) counted since Arm.
func (a *Adapter) Disarm() (int, int) {
	a.mu.Lock()
	defer a.mu.Unlock()
	a.armed = false
	a.plan = Plan{}
	return a.nCalls, a.nWrites
}

// TopicCounters returns the stored message and delete counters of a topic.
func (a *Adapter) TopicCounters(name string) (seq, del int, ok bool) {
	a.mu.Lock()
	defer a.mu.Unlock()
	if r := a.st.topic(name); r != nil {
		return r.SeqId, r.DelId, true
	}
	return 0, 0, false
}

// Trace switches call logging on/off and returns the log collected so far.
func (a *Adapter) Trace(on bool) []Call {
	a.mu.Lock()
	defer a.mu.Unlock()
	out := a.calls
	a.calls = nil
	a.trace = on
	return out
}

// enter is called (with the lock held) at the top of every adapter method.
func (a *Adapter) enter(method string, write bool, args string) error {
	var err error
	if a.armed {
		a.nCalls++
		hit := false
		if a.plan.FailNth > 0 {
			if a.plan.FailMethod == "" {
				hit = a.nCalls == a.plan.FailNth
			} else if a.plan.FailMethod == method {
				a.nMethod++
				hit = a.nMethod == a.plan.FailNth
			}
		}
		if hit && !a.Fired {
			a.Fired = true
			a.FiredMethod = method
			err = a.plan.FailErr
			if err == nil {
				err = ErrInjected
			}
		}
	}
	if a.trace {
		c := Call{N: len(a.calls) + 1, Method: method, Write: write, Args: args}
		if err != nil {
			c.Err = err.Error()
		}
		a.calls = append(a.calls, c)
	}
	return err
}

// wrote is called (with the lock held) after a successful mutation.
func (a *Adapter) wrote() {
	if a.armed {
		a.nWrites++
		if a.plan.CrashAfter > 0 && a.nWrites == a.plan.CrashAfter && a.CrashSnap == nil {
			a.CrashSnap = a.st.Clone()
		}
	}
}

func toJSON(src any) []byte {
	if src == nil {
		return nil
	}
	b, _ := json.Marshal(src)
	return b
}

func fromJSON(b []byte) any {
	if b == nil {
		return nil
	}
	var out any
	json.Unmarshal(b, &out)
	return out
}

func tp(x *time.Time) *time.Time {
	if x == nil {
		return nil
	}
	y := *x
	return &y
}

// ------------------------------------------------------------------ general

func (a *Adapter) Open(json.RawMessage) error {
	a.mu.Lock()
	defer a.mu.Unlock()
	if a.open {
		return errors.New("verifmem adapter is already connected")
	}
	if a.st == nil {
		a.st = newState()
	}
	if a.maxResults <= 0 {
		a.maxResults = defaultMaxResults
	}
	a.maxMsgs = defaultMaxMsgResults
	a.open = true
	return nil
}

func (a *Adapter) Close() error {
	a.mu.Lock()
	defer a.mu.Unlock()
	a.open = false
	return nil
}

func (a *Adapter) IsOpen() bool {
	a.mu.Lock()
	defer a.mu.Unlock()
	return a.open
}
func (a *Adapter) GetDbVersion() (int, error) { return adpVersion, nil }
func (a *Adapter) CheckDbVersion() error      { return nil }
func (a *Adapter) GetName() string            { return Name }
func (a *Adapter) SetMaxResults(val int) error {
	a.mu.Lock()
	defer a.mu.Unlock()
	if val <= 0 {
		a.maxResults = defaultMaxResults
	} else {
		a.maxResults = val
	}
	return nil
}
func (a *Adapter) CreateDb(reset bool) error { a.Reset(); return nil }
func (a *Adapter) UpgradeDb() error          { return nil }
func (a *Adapter) Version() int              { return adpVersion }
func (a *Adapter) Stats() any                { return nil }

// ------------------------------------------------------------------ lookups (lock held)

func (s *State) user(uid t.Uid) *userRow {
	for _, u := range s.Users {
		if u.ID == uid {
			return u
		}
	}
	return nil
}

func (s *State) topic(name string) *topicRow {
	for _, r := range s.Topics {
		if r.Name == name {
			return r
		}
	}
	return nil
}

func (s *State) sub(topic string, uid t.Uid) *subRow {
	for _, r := range s.Subs {
		if r.Topic == topic && r.User == uid {
			return r
		}
	}
	return nil
}

func hasStr(list []string, s string) bool {
	for _, x := range list {
		if x == s {
			return true
		}
	}
	return false
}

func dupTags(tags []string) bool {
	for i := range tags {
		for j := i + 1; j < len(tags); j++ {
			if tags[i] == tags[j] {
				return true
			}
		}
	}
	return false
}

func (u *userRow) toUser() *t.User {
	out := &t.User{State: u.State, StateAt: tp(u.StateAt), Access: u.Access, LastSeen: tp(u.LastSeen), UserAgent: u.UserAgent,
		Public: fromJSON(u.Public), Trusted: fromJSON(u.Trusted), Tags: append(t.StringSlice(nil), u.Tags...)}
	out.SetUid(u.ID)
	out.CreatedAt, out.UpdatedAt = u.CreatedAt, u.UpdatedAt
	return out
}

// ------------------------------------------------------------------ users

func (a *Adapter) UserCreate(user *t.User) error {
	a.lock()
	defer a.mu.Unlock()
	if err := a.enter("UserCreate", true, user.Id); err != nil {
		return err
	}
	if a.st.user(user.Uid()) != nil {
		return t.ErrDuplicate
	}
	if dupTags(user.Tags) {
		return t.ErrDuplicate
	}
	a.st.Users = append(a.st.Users, &userRow{ID: user.Uid(), CreatedAt: user.CreatedAt, UpdatedAt: user.UpdatedAt, State: user.State,
		Access: user.Access, Public: toJSON(user.Public), Trusted: toJSON(user.Trusted),
		Tags: append([]string(nil), user.Tags...), TagIdx: append([]string(nil), user.Tags...)})
	a.wrote()
	return nil
}

func (a *Adapter) UserGet(uid t.Uid) (*t.User, error) {
	a.lock()
	defer a.mu.Unlock()
	if err := a.enter("UserGet", false, uid.String()); err != nil {
		return nil, err
	}
	u := a.st.user(uid)
	if u == nil || u.State == t.StateDeleted {
		return nil, nil
	}
	return u.toUser(), nil
}

func (a *Adapter) UserGetAll(ids ...t.Uid) ([]t.User, error) {
	a.lock()
	defer a.mu.Unlock()
	if err := a.enter("UserGetAll", false, ""); err != nil {
		return nil, err
	}
	users := []t.User{}
	for _, u := range a.st.Users {
		if u.State == t.StateDeleted {
			continue
		}
		for _, id := range ids {
			if id == u.ID {
				users = append(users, *u.toUser())
				break
			}
		}
	}
	return users, nil
}

func (s *State) deleteTopicRows(name string) {
	s.Subs = filter(s.Subs, func(r *subRow) bool { return r.Topic != name })
	s.Dellog = filter(s.Dellog, func(r *dellogRow) bool { return r.Topic != name })
	s.deleteMsgs(func(m *msgRow) bool { return m.Topic == name })
	s.Links = filter(s.Links, func(l *linkRow) bool { return l.Topic != name })
	s.Topics = filter(s.Topics, func(r *topicRow) bool { return r.Name != name })
}

func (s *State) deleteMsgs(match func(*msgRow) bool) {
	gone := map[int64]bool{}
	s.Msgs = filter(s.Msgs, func(m *msgRow) bool {
		if match(m) {
			gone[m.ID] = true
			return false
		}
		return true
	})
	if len(gone) > 0 {
		s.Links = filter(s.Links, func(l *linkRow) bool { return l.MsgID == 0 || !gone[l.MsgID] })
	}
}

func filter[T any](in []T, keep func(T) bool) []T {
	out := in[:0:0]
	for _, x := range in {
		if keep(x) {
			out = append(out, x)
		}
	}
	return out
}

func (a *Adapter) UserDelete(uid t.Uid, hard bool) error {
	a.lock()
	defer a.mu.Unlock()
	if err := a.enter("UserDelete", true, uid.String()); err != nil {
		return err
	}
	s := a.st
	now := t.TimeNow()
	if hard {
		s.Devices = filter(s.Devices, func(d *deviceRow) bool { return d.User != uid })
		s.Subs = filter(s.Subs, func(r *subRow) bool { return r.User != uid })
		s.Dellog = filter(s.Dellog, func(r *dellogRow) bool { return r.DeletedFor != uid })
		var owned []string
		for _, tr := range s.Topics {
			if tr.Owner == uid {
				owned = append(owned, tr.Name)
			}
		}
		for _, name := range owned {
			s.deleteTopicRows(name)
		}
		s.Auth = filter(s.Auth, func(r *authRow) bool { return r.User != uid })
		s.Creds = filter(s.Creds, func(r *credRow) bool { return r.User != uid })
		s.Links = filter(s.Links, func(l *linkRow) bool { return l.User != uid })
		s.Users = filter(s.Users, func(u *userRow) bool { return u.ID != uid })
	} else {
		for _, r := range s.Subs {
			if r.User == uid && r.DeletedAt == nil {
				r.UpdatedAt, r.DeletedAt = now, tp(&now)
			}
		}
		for _, tr := range s.Topics {
			if tr.Owner == uid {
				for _, r := range s.Subs {
					if r.Topic == tr.Name {
						r.UpdatedAt, r.DeletedAt = now, tp(&now)
					}
				}
				tr.UpdatedAt, tr.TouchedAt, tr.State, tr.StateAt = now, now, t.StateDeleted, tp(&now)
			}
		}
		for _, r := range s.Subs {
			if r.User != uid {
				continue
			}
			if tr := s.topic(r.Topic); tr != nil && tr.Owner.IsZero() {
				tr.UpdatedAt, tr.TouchedAt, tr.State, tr.StateAt = now, now, t.StateDeleted, tp(&now)
			}
			if strings.HasPrefix(r.Topic, "p2p") {
				for _, r2 := range s.Subs {
					if r2.Topic == r.Topic {
						r2.UpdatedAt, r2.DeletedAt = now, tp(&now)
					}
				}
			}
		}
		if u := s.user(uid); u != nil {
			u.UpdatedAt, u.State, u.StateAt = now, t.StateDeleted, tp(&now)
		}
	}
	a.wrote()
	return nil
}

func (a *Adapter) UserUpdate(uid t.Uid, update map[string]any) error {
	a.lock()
	defer a.mu.Unlock()
	if err := a.enter("UserUpdate", true, uid.String()+" "+keys(update)); err != nil {
		return err
	}
	s := a.st
	u := s.user(uid)
	var tags []string
	if val := update["Tags"]; val != nil {
		ss, _ := val.(t.StringSlice)
		tags = []string(ss)
	}
	if tags != nil && dupTags(tags) {
		return t.ErrDuplicate
	}
	if st, ok := update["State"]; ok {
		if _, ok := st.(t.ObjState); !ok {
			return t.ErrMalformed
		}
	}
	if u != nil {
		for k, v := range update {
			switch strings.ToLower(k) {
			case "updatedat":
				u.UpdatedAt = v.(time.Time)
			case "lastseen":
				x := v.(time.Time)
				u.LastSeen = &x
			case "useragent":
				u.UserAgent = v.(string)
			case "state":
				u.State = v.(t.ObjState)
			case "stateat":
				x := v.(time.Time)
				u.StateAt = &x
			case "access":
				u.Access = v.(t.DefaultAccess)
			case "public":
				u.Public = toJSON(v)
			case "trusted":
				u.Trusted = toJSON(v)
			case "tags":
				ss, _ := v.(t.StringSlice)
				u.Tags = append([]string(nil), ss...)
			default:
				panic("verifmem: UserUpdate: unknown column " + k)
			}
		}
		if tags != nil {
			u.TagIdx = append([]string(nil), tags...)
		}
	}
	if st, ok := update["State"]; ok {
		state := st.(t.ObjState)
		now, _ := update["StateAt"].(time.Time)
		if now.IsZero() {
			now = t.TimeNow()
		}
		for _, tr := range s.Topics {
			if tr.State == t.StateDeleted {
				continue
			}
			if tr.Owner == uid {
				tr.State, tr.StateAt = state, tp(&now)
			} else if tr.Owner.IsZero() && s.sub(tr.Name, uid) != nil {
				tr.State, tr.StateAt = state, tp(&now)
			}
		}
	}
	a.wrote()
	return nil
}

func keys(m map[string]any) string {
	ks := make([]string, 0, len(m))
	for k := range m {
		ks = append(ks, k)
	}
	sort.Strings(ks)
	return strings.Join(ks, ",")
}

func (a *Adapter) UserUpdateTags(uid t.Uid, add, remove, reset []string) ([]string, error) {
	a.lock()
	defer a.mu.Unlock()
	if err := a.enter("UserUpdateTags", true, uid.String()); err != nil {
		return nil, err
	}
	u := a.st.user(uid)
	var cur []string
	if u != nil {
		cur = append(cur, u.TagIdx...)
	}
	if reset != nil {
		if dupTags(reset) {
			return nil, t.ErrDuplicate
		}
		cur = append([]string(nil), reset...)
	} else {
		for _, tag := range add {
			if !hasStr(cur, tag) {
				cur = append(cur, tag)
			}
		}
		cur = filter(cur, func(x string) bool { return !hasStr(remove, x) })
	}
	if u == nil {
		// FOREIGN KEY(userid) on usertags: inserting tags for a missing user fails.
		if len(cur) > 0 {
			return nil, errors.New("verifmem: foreign key violation: no such user")
		}
		return nil, nil
	}
	u.TagIdx = cur
	u.Tags = append([]string(nil), cur...)
	a.wrote()
	return append([]string(nil), cur...), nil
}

func (a *Adapter) UserGetByCred(method, value string) (t.Uid, error) {
	a.lock()
	defer a.mu.Unlock()
	if err := a.enter("UserGetByCred", false, method+":"+value); err != nil {
		return t.ZeroUid, err
	}
	for _, c := range a.st.Creds {
		if c.Synthetic == method+":"+value {
			return c.User, nil
		}
	}
	return t.ZeroUid, nil
}

func (a *Adapter) UserUnreadCount(ids ...t.Uid) (map[t.Uid]int, error) {
	a.mu.Lock()
	defer a.mu.Unlock()
	counts := make(map[t.Uid]int, len(ids))
	for _, id := range ids {
		counts[id] = 0
	}
	if err := a.enter("UserUnreadCount", false, ""); err != nil {
		return counts, err
	}
	for _, r := range a.st.Subs {
		if _, ok := counts[r.User]; !ok || r.DeletedAt != nil || !r.ModeWant.IsReader() || !r.ModeGiven.IsReader() {
			continue
		}
		if tr := a.st.topic(r.Topic); tr != nil && tr.State != t.StateDeleted {
			counts[r.User] += tr.SeqId - r.ReadSeqId
		}
	}
	return counts, nil
}

func (a *Adapter) UserGetUnvalidated(lastUpdatedBefore time.Time, limit int) ([]t.Uid, error) {
	a.lock()
	defer a.mu.Unlock()
	if err := a.enter("UserGetUnvalidated", false, ""); err != nil {
		return nil, err
	}
	var cands []*userRow
	for _, u := range a.st.Users {
		if u.LastSeen != nil || !u.UpdatedAt.Before(lastUpdatedBefore) {
			continue
		}
		done := 0
		for _, c := range a.st.Creds {
			if c.User == u.ID && c.Done {
				done++
			}
		}
		if done == 0 {
			cands = append(cands, u)
		}
	}
	sort.SliceStable(cands, func(i, j int) bool { return cands[i].UpdatedAt.Before(cands[j].UpdatedAt) })
	var out []t.Uid
	for i, u := range cands {
		if i >= limit {
			break
		}
		out = append(out, u.ID)
	}
	return out, nil
}

// ------------------------------------------------------------------ auth records

func (a *Adapter) AuthAddRecord(uid t.Uid, scheme, unique string, authLvl auth.Level, secret []byte, expires time.Time) error {
	a.lock()
	defer a.mu.Unlock()
	if err := a.enter("AuthAddRecord", true, unique); err != nil {
		return err
	}
	for _, r := range a.st.Auth {
		if r.Uname == unique || (r.User == uid && r.Scheme == scheme) {
			return t.ErrDuplicate
		}
	}
	a.st.Auth = append(a.st.Auth, &authRow{Uname: unique, User: uid, Scheme: scheme, Level: authLvl, Secret: append([]byte(nil), secret...), Expires: expires})
	a.wrote()
	return nil
}

func (a *Adapter) AuthDelScheme(user t.Uid, scheme string) error {
	a.lock()
	defer a.mu.Unlock()
	if err := a.enter("AuthDelScheme", true, scheme); err != nil {
		return err
	}
	a.st.Auth = filter(a.st.Auth, func(r *authRow) bool { return !(r.User == user && r.Scheme == scheme) })
	a.wrote()
	return nil
}

func (a *Adapter) AuthDelAllRecords(user t.Uid) (int, error) {
	a.lock()
	defer a.mu.Unlock()
	if err := a.enter("AuthDelAllRecords", true, ""); err != nil {
		return 0, err
	}
	n := len(a.st.Auth)
	a.st.Auth = filter(a.st.Auth, func(r *authRow) bool { return r.User != user })
	a.wrote()
	return n - len(a.st.Auth), nil
}

func (a *Adapter) AuthUpdRecord(uid t.Uid, scheme, unique string, authLvl auth.Level, secret []byte, expires time.Time) error {
	a.lock()
	defer a.mu.Unlock()
	if err := a.enter("AuthUpdRecord", true, unique); err != nil {
		return err
	}
	var row *authRow
	for _, r := range a.st.Auth {
		if r.User == uid && r.Scheme == scheme {
			row = r
		}
	}
	if row == nil {
		return t.ErrNotFound
	}
	if unique != "" {
		for _, r := range a.st.Auth {
			if r != row && r.Uname == unique {
				return t.ErrDuplicate
			}
		}
		row.Uname = unique
	}
	row.Level = authLvl
	if len(secret) > 0 {
		row.Secret = append([]byte(nil), secret...)
	}
	if !expires.IsZero() {
		row.Expires = expires
	}
	a.wrote()
	return nil
}

func (a *Adapter) AuthGetRecord(uid t.Uid, scheme string) (string, auth.Level, []byte, time.Time, error) {
	a.lock()
	defer a.mu.Unlock()
	if err := a.enter("AuthGetRecord", false, scheme); err != nil {
		return "", 0, nil, time.Time{}, err
	}
	for _, r := range a.st.Auth {
		if r.User == uid && r.Scheme == scheme {
			return r.Uname, r.Level, append([]byte(nil), r.Secret...), r.Expires, nil
		}
	}
	return "", 0, nil, time.Time{}, t.ErrNotFound
}

func (a *Adapter) AuthGetUniqueRecord(unique string) (t.Uid, auth.Level, []byte, time.Time, error) {
	a.lock()
	defer a.mu.Unlock()
	if err := a.enter("AuthGetUniqueRecord", false, unique); err != nil {
		return t.ZeroUid, 0, nil, time.Time{}, err
	}
	for _, r := range a.st.Auth {
		if r.Uname == unique {
			return r.User, r.Level, append([]byte(nil), r.Secret...), r.Expires, nil
		}
	}
	return t.ZeroUid, 0, nil, time.Time{}, nil
}
