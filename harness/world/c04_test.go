package main

// C04 (world level) — history shows exactly what was published and not deleted; deletion is exact.
//
// Generated histories over one group topic (sometimes a channel), one P2P topic and 3-4 users with
// several sessions: publishes, {del what=msg} with generated range lists (soft and hard, by users
// with and without D / R), permission changes, unsubscribe/resubscribe, eviction, reload, restart,
// {get what=data} with since/before/limit combinations and {get what=del}.
//
// Oracle: a reference model written from the property statement (c04Topic), fed only by
// acknowledged requests (2xx replies): messages (seq, author, content, ts), per-user soft-deleted
// sets (per subscription incarnation), the hard-deleted set, the delete-transaction counter and
// the log of delete transactions. Every {get data}, {get del} and {del msg} is judged against the
// model; after every step the store (verifmem snapshot) is compared with the model.

import (
	"fmt"
	"os"
	"sort"
	"strings"
	"testing"
	"time"

	"github.com/tinode/chat/server/store/types"
	kit "github.com/tinode/chat/server/zzverifkit"
	mem "github.com/tinode/chat/server/zzverifmem"
	"pgregory.net/rapid"
)

// ---------------------------------------------------------------- generator

// The store's configured maximum number of messages per history query (MySQL adapter default,
// mirrored by verifmem: defaultMaxMessageResults).
const c04MaxMsgs = 100

var c04Layouts = [][]int{{0, 1, 2}, {0, 0, 1, 2}, {0, 1, 1, 2}, {0, 1, 2, 3}, {0, 0, 1, 1, 2, 3}, {0, 1, 2, 2, 3}}

var c04GrpGiven = []string{"JRWPSD", "JRWPSD", "JRWPSD", "JRWPS", "JWPS", "JWPSD", "JRWPD", "JRPD"}
var c04GrpWant = []string{"JRWPSD", "JRWPSD", "JRWPSD", "JRWPS", "JWPS", "JWPSD", "JRWPD"}
var c04OwnerWant = []string{"JRWPASDO", "JRWPASDO", "JWPASDO", "JRWPASO", "JWPASO"}
var c04P2PModes = []string{"JRWPAD", "JRWPAD", "JRWPAD", "JRWPA", "JWPA", "JWPAD"}

// rapid's integer generators favour small values heavily (IntRange(0,99) is below 10 in 40% of
// the draws), which would turn a "4%" branch into a 30% one: percentages, choices and ids are
// drawn from ten fair bits instead. All bits false (what shrinking aims at) = the first choice /
// the branch not taken.
func c04Bits(rt *rapid.T, label string) int {
	v := 0
	for _, b := range rapid.SliceOfN(rapid.Bool(), 10, 10).Draw(rt, label) {
		v <<= 1
		if b {
			v |= 1
		}
	}
	return v
}

func c04Pct(rt *rapid.T, p int) bool { return (1023-c04Bits(rt, "pct"))*100/1024 < p }

func c04Int(rt *rapid.T, lo, hi int, label string) int {
	if hi <= lo {
		return lo
	}
	return lo + c04Bits(rt, label)*(hi-lo+1)/1024
}

func c04Pick[T any](rt *rapid.T, pool []T, label string) T { return pool[c04Int(rt, 0, len(pool)-1, label)] }

// c04Ranges draws a list of delete ranges for a topic whose last message id is about `last`.
func c04Ranges(rt *rapid.T, last int) [][2]int {
	if last < 1 {
		last = 1
	}
	n := c04Pick(rt, []int{1, 1, 2, 2, 2, 3, 3, 4, 5, 6}, "nranges")
	var out [][2]int
	for i := 0; i < n; i++ {
		var r [2]int
		if i > 0 && c04Pct(rt, 55) {
			// related to an earlier entry: duplicate, touching, overlapping, nested, one apart
			p := out[c04Int(rt, 0, i-1, "prev")]
			pl, ph := p[0], p[1]
			if ph <= pl {
				ph = pl + 1
			}
			k := c04Int(rt, 0, 3, "len")
			switch c04Pick(rt, []string{"dup", "touch", "touch", "touchlow", "overlap", "nested", "gap1", "touch1"}, "rel") {
			case "dup":
				r = p
			case "touch":
				r = [2]int{ph, ph + k}
			case "touch1":
				r = [2]int{ph, 0}
			case "touchlow":
				r = [2]int{pl - 1 - k, pl}
			case "overlap":
				r = [2]int{ph - 1, ph + k}
			case "nested":
				r = [2]int{pl, ph - 1}
			case "gap1":
				r = [2]int{ph + 1, ph + 1 + k}
			}
		} else {
			low := c04Int(rt, 1, last, "low")
			switch c04Pick(rt, []string{"single0", "single0", "hi=low", "hi=low+1", "span", "span", "span", "tolast", "beyond", "beyond", "far"}, "shape") {
			case "single0":
				r = [2]int{low, 0}
			case "hi=low":
				r = [2]int{low, low}
			case "hi=low+1":
				r = [2]int{low, low + 1}
			case "span":
				r = [2]int{low, low + c04Int(rt, 2, 5, "len")}
			case "tolast":
				r = [2]int{low, last}
			case "beyond":
				r = [2]int{low, last + c04Int(rt, 1, 3, "over")}
			case "far":
				r = [2]int{low, 100000}
			}
		}
		// keep most entries inside the domain 1 <= low <= last, hi = 0 or hi >= low
		if !c04Pct(rt, 4) {
			if r[0] < 1 {
				r[0] = 1
			}
			if r[0] > last {
				r[0] = last
			}
			if r[1] != 0 && r[1] < r[0] {
				r[1] = 0
			}
		} else {
			switch c04Pick(rt, []string{"low0", "low0", "lowneg", "lowbeyond", "inverted", "hineg", "zero"}, "bad") {
			case "low0":
				r = [2]int{0, c04Int(rt, 1, last+1, "hi")}
			case "lowneg":
				r = [2]int{-1, 2}
			case "lowbeyond":
				r = [2]int{last + c04Int(rt, 1, 3, "over"), 0}
			case "inverted":
				r = [2]int{c04Int(rt, 2, last+1, "low"), 1}
			case "hineg":
				r = [2]int{1, -1}
			case "zero":
				r = [2]int{0, 0}
			}
		}
		out = append(out, r)
	}
	return out
}

func c04Gen(rt *rapid.T) wProg {
	p := wProg{}
	p.Cfg = wConfig{Users: 4, NoPush: true}
	p.Sess = append([]int(nil), c04Pick(rt, c04Layouts, "layout")...)
	for k := range p.Sess {
		if c04Pct(rt, 20) {
			p.Cfg.Grpc = append(p.Cfg.Grpc, k) // this connection talks protobuf
		}
	}
	isChan := c04Pct(rt, 35)
	// user 0 logged in at root level: some of its history queries are made on behalf of another user
	p.Cfg.Root = c04Pct(rt, 25)
	reader := map[int]bool{}
	if isChan {
		reader[2] = c04Pct(rt, 65)
		reader[3] = c04Pct(rt, 65)
	}
	kind := "new"
	if isChan {
		kind = "nch"
	}
	isGrpc := func(s int) bool {
		for _, g := range p.Cfg.Grpc {
			if g == s {
				return true
			}
		}
		return false
	}
	firstOf := func(u int) int {
		for s, x := range p.Sess {
			if x == u {
				return s
			}
		}
		return -1
	}
	grpRef := func(s int) string {
		if reader[p.Sess[s]] {
			return "c0"
		}
		return "g0"
	}
	p.Ops = append(p.Ops, wOp{K: "sub", S: 0, T: kind})
	invited := map[int]bool{}
	for s := 1; s < len(p.Sess); s++ {
		u := p.Sess[s]
		if u == 0 {
			if c04Pct(rt, 88) {
				p.Ops = append(p.Ops, wOp{K: "sub", S: s, T: "g0"})
			}
			continue
		}
		if s != firstOf(u) && !c04Pct(rt, 85) {
			continue
		}
		want := ""
		if !reader[u] {
			want = c04Pick(rt, []string{"", "", "JRWPSD", "JRWPS"}, "want")
			if isChan && !invited[u] {
				// a channel lets nobody but readers in by default: the owner invites full members
				invited[u] = true
				p.Ops = append(p.Ops, wOp{K: "set", S: 0, T: "g0", A: "given", U: u, B: c04Pick(rt, []string{"JRWPS", "JRWPSD"}, "invite")})
			}
		}
		p.Ops = append(p.Ops, wOp{K: "sub", S: s, T: grpRef(s), A: want})
	}
	if c04Pct(rt, 55) {
		// a member who may hard-delete
		u := c04Pick(rt, []int{1, 1, 2}, "deleter")
		if !reader[u] && firstOf(u) >= 0 {
			p.Ops = append(p.Ops, wOp{K: "set", S: 0, T: "g0", A: "given", U: u, B: "JRWPSD"}, wOp{K: "set", S: firstOf(u), T: "g0", A: "mode", B: "JRWPSD"})
		}
	}
	hasP2P := c04Pct(rt, 70)
	if hasP2P {
		p.Ops = append(p.Ops, wOp{K: "sub", S: 0, T: "p1", A: c04Pick(rt, []string{"", "JRWPAD"}, "want")})
		for s := 1; s < len(p.Sess); s++ {
			if p.Sess[s] == 1 && c04Pct(rt, 85) {
				p.Ops = append(p.Ops, wOp{K: "sub", S: s, T: "p0", A: c04Pick(rt, []string{"", "JRWPAD"}, "want")})
			}
		}
		if p.Sess[1] == 0 && c04Pct(rt, 70) {
			p.Ops = append(p.Ops, wOp{K: "sub", S: 1, T: "p1"})
		}
	}
	// approximate number of messages per topic, to aim ranges and bounds at the interesting ids
	cnt := map[string]int{}
	topicKey := func(ref string) string {
		if ref == "p0" || ref == "p1" {
			return "p"
		}
		return "g"
	}
	topicFor := func(s int) string {
		u := p.Sess[s]
		if hasP2P && u <= 1 && c04Pct(rt, 35) {
			if u == 0 {
				return "p1"
			}
			return "p0"
		}
		return grpRef(s)
	}
	writerSess := func() int {
		// sessions of users 0 and 1 (full subscribers)
		var pool []int
		for s, u := range p.Sess {
			if u <= 1 {
				pool = append(pool, s)
			}
		}
		return c04Pick(rt, pool, "wsess")
	}
	pub := func(s int, ref string) {
		p.Ops = append(p.Ops, wOp{K: "pub", S: s, T: ref, F: c04Pct(rt, 25)})
		cnt[topicKey(ref)]++
	}
	ng := c04Int(rt, 3, 9, "npub")
	if c04Pct(rt, 3) {
		// more messages than the configured maximum of one history query
		ng = c04MaxMsgs + c04Int(rt, 1, 4, "bulk")
	}
	for i := 0; i < ng; i++ {
		pub(writerSess(), "g0")
	}
	if hasP2P {
		for i, n := 0, c04Int(rt, 2, 6, "npubp"); i < n; i++ {
			s := writerSess()
			if p.Sess[s] == 0 {
				pub(s, "p1")
			} else {
				pub(s, "p0")
			}
		}
	}
	getData := func(s int, ref string) wOp {
		last := cnt[topicKey(ref)]
		op := wOp{K: "get", S: s, T: ref, A: "data"}
		op.N = c04Pick(rt, []int{0, 0, 0, 0, -1, 1, 2, 3, last - 2, last - 1, last, last + 1, last + 5}, "since")
		op.M = c04Pick(rt, []int{0, 0, 0, 0, -2, 1, 2, 3, 4, last - 1, last, last + 1, last + 2, 1000}, "before")
		op.L = c04Pick(rt, []int{0, 0, 0, 0, -1, 1, 2, 3, 5, 99, 100, 101, 1000}, "limit")
		return op
	}
	attachAll := func(pct int) {
		for s := range p.Sess {
			if c04Pct(rt, pct) {
				p.Ops = append(p.Ops, wOp{K: "sub", S: s, T: grpRef(s)})
			}
			if hasP2P && p.Sess[s] <= 1 && c04Pct(rt, pct) {
				ref := "p1"
				if p.Sess[s] == 1 {
					ref = "p0"
				}
				p.Ops = append(p.Ops, wOp{K: "sub", S: s, T: ref})
			}
		}
	}
	n := c04Int(rt, 6, 24, "nops")
	for i := 0; i < n; i++ {
		s := c04Int(rt, 0, len(p.Sess)-1, "s")
		ref := topicFor(s)
		switch x := c04Int(rt, 0, 99, "opk"); {
		case x < 30:
			if reader[p.Sess[s]] && c04Pct(rt, 80) {
				s = writerSess()
				ref = topicFor(s)
			}
			p.Ops = append(p.Ops, wOp{K: "del", S: s, T: ref, A: "msg", F: c04Pct(rt, 50), R: c04Ranges(rt, cnt[topicKey(ref)])})
			if c04Pct(rt, 65) {
				p.Ops = append(p.Ops, getData(s, ref))
			}
			if c04Pct(rt, 55) {
				// somebody else looks at the same topic
				o := c04Int(rt, 0, len(p.Sess)-1, "other")
				oref := grpRef(o)
				if topicKey(ref) == "p" {
					if p.Sess[o] > 1 {
						o = firstOf(1 - p.Sess[s])
					}
					oref = "p1"
					if o >= 0 && p.Sess[o] == 1 {
						oref = "p0"
					}
				}
				if o >= 0 {
					p.Ops = append(p.Ops, getData(o, oref))
				}
			}
		case x < 52:
			op := getData(s, ref)
			if op.T == "c0" && c04Pct(rt, 5) {
				op.T = "g0" // a channel reader spelling the topic as grpXXX
			}
			if p.Cfg.Root && p.Sess[s] == 0 && op.T == "g0" && c04Pct(rt, 50) {
				if u := c04Int(rt, 1, 3, "obo"); !reader[u] {
					op.Obo = u + 1
				}
			}
			p.Ops = append(p.Ops, op)
		case x < 61:
			op := wOp{K: "get", S: s, T: ref, A: "del"}
			if p.Cfg.Root && p.Sess[s] == 0 && op.T == "g0" && c04Pct(rt, 40) {
				if u := c04Int(rt, 1, 3, "obo"); !reader[u] {
					op.Obo = u + 1
				}
			}
			// (the protobuf schema has no options for the deletion-log query: a gRPC client cannot send them)
			if c04Pct(rt, 30) && !isGrpc(s) {
				op.N = c04Pick(rt, []int{0, 0, 1, 2, 3, 50}, "dsince")
				op.M = c04Pick(rt, []int{0, 0, 2, 3, 4, 50}, "dbefore")
				op.L = c04Pick(rt, []int{0, 0, 1, 2, 50}, "dlimit")
			}
			p.Ops = append(p.Ops, op)
		case x < 64:
			op := getData(s, ref)
			op.A = "data del"
			op.N, op.M = 0, 0
			if isGrpc(s) {
				op.L = 0
			}
			p.Ops = append(p.Ops, op)
		case x < 72:
			pub(s, ref)
		case x < 74:
			// the store fails when asked to delete; the next delete is accepted
			if reader[p.Sess[s]] {
				s = writerSess()
				ref = topicFor(s)
			}
			last := cnt[topicKey(ref)]
			p.Ops = append(p.Ops, wOp{K: "fault", N: 1, A: "MessageDeleteList"},
				wOp{K: "del", S: s, T: ref, A: "msg", F: c04Pct(rt, 50), R: c04Ranges(rt, last)},
				wOp{K: "del", S: s, T: ref, A: "msg", F: c04Pct(rt, 50), R: c04Ranges(rt, last)},
				wOp{K: "get", S: s, T: ref, A: "data del"})
		case x < 80:
			if hasP2P && c04Pct(rt, 30) {
				if c04Pct(rt, 50) {
					p.Ops = append(p.Ops, wOp{K: "set", S: 0, T: "p1", A: "given", U: 1, B: c04Pick(rt, c04P2PModes, "given")})
				} else if firstOf(1) >= 0 {
					p.Ops = append(p.Ops, wOp{K: "set", S: firstOf(1), T: "p0", A: "given", U: 0, B: c04Pick(rt, c04P2PModes, "given")})
				}
			} else {
				p.Ops = append(p.Ops, wOp{K: "set", S: 0, T: "g0", A: "given", U: c04Int(rt, 1, 3, "target"), B: c04Pick(rt, c04GrpGiven, "given")})
			}
		case x < 86:
			switch {
			case ref == "p0" || ref == "p1":
				p.Ops = append(p.Ops, wOp{K: "set", S: s, T: ref, A: "mode", B: c04Pick(rt, c04P2PModes, "want")})
			case p.Sess[s] == 0:
				p.Ops = append(p.Ops, wOp{K: "set", S: s, T: ref, A: "mode", B: c04Pick(rt, c04OwnerWant, "want")})
			case !reader[p.Sess[s]]:
				p.Ops = append(p.Ops, wOp{K: "set", S: s, T: ref, A: "mode", B: c04Pick(rt, c04GrpWant, "want")})
			}
		case x < 91:
			unsub := c04Pct(rt, 60)
			if unsub && ref == "p1" {
				unsub = false // user 0 keeps the P2P topic alive
			}
			p.Ops = append(p.Ops, wOp{K: "leave", S: s, T: ref, F: unsub})
			if c04Pct(rt, 75) {
				sub := wOp{K: "sub", S: s, T: ref}
				if c04Pct(rt, 45) {
					// a combined {sub get="data del"}: history and deletion log with options of their own
					last := cnt[topicKey(ref)]
					sub.B = c04Pick(rt, []string{"data", "del", "data del", "data del", "desc data del"}, "subget")
					sub.G = map[string][3]int{}
					if c04Pct(rt, 70) {
						sub.G["data"] = [3]int{c04Pick(rt, []int{0, 0, 1, 2, 3, last - 1, last}, "since"), c04Pick(rt, []int{0, 0, 2, 3, last, last + 1}, "before"), c04Pick(rt, []int{0, 0, 1, 2, 5, 100}, "limit")}
					}
					if c04Pct(rt, 40) && !isGrpc(s) {
						sub.G["del"] = [3]int{c04Pick(rt, []int{0, 0, 1, 2, 3, 50}, "dsince"), c04Pick(rt, []int{0, 0, 2, 3, 4, 50}, "dbefore"), c04Pick(rt, []int{0, 0, 1, 2, 50}, "dlimit")}
					}
				}
				p.Ops = append(p.Ops, sub)
			}
		case x < 93:
			p.Ops = append(p.Ops, wOp{K: "sub", S: s, T: ref})
		case x < 96:
			p.Ops = append(p.Ops, wOp{K: "reload", T: c04Pick(rt, []string{"g0", "g0", "p1"}, "rt")})
		case x < 98:
			p.Ops = append(p.Ops, wOp{K: "restart"})
			attachAll(90)
		case x < 99:
			u := c04Int(rt, 1, 3, "evict")
			p.Ops = append(p.Ops, wOp{K: "del", S: 0, T: "g0", A: "sub", U: u})
			if t := firstOf(u); t >= 0 && c04Pct(rt, 75) {
				p.Ops = append(p.Ops, wOp{K: "sub", S: t, T: grpRef(t)})
			}
		default:
			p.Ops = append(p.Ops, wOp{K: "tick", N: c04Pick(rt, []int{50, 1000, 5500}, "ms")})
		}
	}
	return p
}

// ---------------------------------------------------------------- reference model

type c04Msg struct {
	seq     int
	author  int // user index
	content string
	ts      time.Time
}

// c04Tx is one acknowledged delete transaction.
type c04Tx struct {
	id      int
	forUser int // -1: hard (for everyone)
	ids     map[int]bool
	entries int // number of entries in the request: upper bound of the number of log rows
}

type c04Topic struct {
	route   string
	msgs    map[int]*c04Msg
	last    int
	hard    map[int]bool
	soft    map[int]map[int]bool // user index -> ids soft-deleted in the current subscription incarnation
	delID   int
	log     []c04Tx
	tainted string // non-empty: the model lost track (reason); the topic is no longer judged
	// P2P only: users who unsubscribed, and those of them the peer has invited back since. Violations
	// met by such a user carry the prefix "p2p-reinvited:" (the loaded topic used to forget how that
	// user names it: fixed by a257e4a, replay replays/C04/p2p-reinvited-peer-topic-name-empty.json)
	left, reinvited map[int]bool
}

func (tp *c04Topic) softOf(u int) map[int]bool {
	if tp.soft[u] == nil {
		tp.soft[u] = map[int]bool{}
	}
	return tp.soft[u]
}

// endIncarnation: the user's subscription ended; soft deletions and their log entries are gone.
func (tp *c04Topic) endIncarnation(u int) {
	delete(tp.soft, u)
	if tp.left == nil {
		tp.left, tp.reinvited = map[int]bool{}, map[int]bool{}
	}
	tp.left[u] = true
	var keep []c04Tx
	for _, tx := range tp.log {
		if tx.forUser != u {
			keep = append(keep, tx)
		}
	}
	tp.log = keep
}

// c04Clip is the statement's reading of one entry: [low, hi) clipped to existing ids, no upper
// bound or hi == low meaning the single id low.
func c04Clip(r [2]int, last int, into map[int]bool) {
	low, hi := r[0], r[1]
	if hi == 0 || hi == low {
		hi = low + 1
	}
	if low < 1 {
		low = 1
	}
	if hi > last+1 {
		hi = last + 1
	}
	for id := low; id < hi; id++ {
		into[id] = true
	}
}

func c04InDomain(rs [][2]int, last int) bool {
	if len(rs) == 0 {
		return false
	}
	for _, r := range rs {
		if r[0] < 1 || r[0] > last || !(r[1] == 0 || r[1] >= r[0]) {
			return false
		}
	}
	return true
}

// c04Touching: the list has two entries (at different positions) which overlap or touch.
func c04Touching(rs [][2]int) bool {
	norm := func(r [2]int) (int, int) {
		if r[1] == 0 || r[1] == r[0] {
			return r[0], r[0] + 1
		}
		return r[0], r[1]
	}
	for i := range rs {
		for j := i + 1; j < len(rs); j++ {
			a, b := norm(rs[i])
			c, d := norm(rs[j])
			if a <= d && c <= b {
				return true
			}
		}
	}
	return false
}

// answer is the model's reply to {get data since before limit} by user u: ids, newest first.
func (tp *c04Topic) answer(u, since, before, limit int) []int {
	return tp.eligible(u, since, before, c04Cap(limit))
}

// c04Cap: never more than the requested or the configured maximum count.
func c04Cap(limit int) int {
	if limit > 0 && limit < c04MaxMsgs {
		return limit
	}
	return c04MaxMsgs
}

// eligible: the newest max ids in [since, before) which are neither hard-deleted nor soft-deleted by u.
func (tp *c04Topic) eligible(u, since, before, max int) []int {
	var out []int
	for id := tp.last; id >= 1 && len(out) < max; id-- {
		if tp.msgs[id] == nil || tp.hard[id] || tp.soft[u][id] {
			continue
		}
		if since > 0 && id < since {
			continue
		}
		if before > 0 && id >= before {
			continue
		}
		out = append(out, id)
	}
	return out
}

func c04Ids(m map[int]bool) []int {
	var out []int
	for k, v := range m {
		if v {
			out = append(out, k)
		}
	}
	sort.Ints(out)
	return out
}

func c04Diff(a, b map[int]bool) (onlyA, onlyB []int) {
	for k, v := range a {
		if v && !b[k] {
			onlyA = append(onlyA, k)
		}
	}
	for k, v := range b {
		if v && !a[k] {
			onlyB = append(onlyB, k)
		}
	}
	sort.Ints(onlyA)
	sort.Ints(onlyB)
	return
}

// ---------------------------------------------------------------- observer

var c04Debug = os.Getenv("VERIF_TRACE") != ""

type c04Obs struct {
	*permObs
	known  func(*kit.Viol) bool
	topics map[string]*c04Topic

	multi, hard, soft, degraded, refused int
	getJudged, getAfter, getCut, getOther int
	getDelJudged, disagreeN               int
	classes                               map[string]bool
	// who deleted (requester user index) on which route, for "another user looks" statistics
	deleters map[string]map[int]bool
}

func newC04Obs() *c04Obs {
	return &c04Obs{permObs: newPermObs(), topics: map[string]*c04Topic{}, classes: map[string]bool{}, deleters: map[string]map[int]bool{}}
}

func (o *c04Obs) rep(v *kit.Viol) *kit.Viol {
	if v != nil && o.known != nil && o.known(v) {
		return nil
	}
	return v
}

func (o *c04Obs) topic(route string) *c04Topic {
	if !strings.HasPrefix(route, "grp") && !strings.HasPrefix(route, "p2p") {
		return nil
	}
	tp := o.topics[route]
	if tp == nil {
		tp = &c04Topic{route: route, msgs: map[int]*c04Msg{}, hard: map[int]bool{}, soft: map[int]map[int]bool{}}
		o.topics[route] = tp
	}
	return tp
}

func c04ParamInt(c *MsgServerCtrl, key string) (int, bool) {
	if c == nil {
		return 0, false
	}
	m, ok := c.Params.(map[string]any)
	if !ok {
		return 0, false
	}
	switch v := m[key].(type) {
	case float64:
		return int(v), true
	case int:
		return v, true
	}
	return 0, false
}

// nameFor: how the user attached as `at` must see the topic named in server frames.
func c04NameFor(w *wWorld, route string, at wAtt) string {
	if strings.HasPrefix(route, "p2p") {
		u1, u2, err := types.ParseP2P(route)
		if err != nil {
			return route
		}
		if w.users[at.User].uid == u1 {
			return u2.UserId()
		}
		return u1.UserId()
	}
	if at.Chan {
		return types.GrpToChn(route)
	}
	return route
}

func (o *c04Obs) After(w *wWorld, st *wStep) *kit.Viol {
	defer o.att.update(w, st)
	o.noteTaint(st) // a {set} behind the loaded topic's back: cache/store disagreement is excused there
	post := mem.A.Snapshot()
	switch st.Op.K {
	case "reload":
		o.classes["reload"] = true
	case "restart":
		o.classes["restart"] = true
		for _, tp := range o.topics {
			tp.reinvited = map[int]bool{}
		}
	}
	if !st.Skipped && st.User >= 0 && (st.Op.Obo == 0 || st.Op.K == "get") {
		switch st.Op.K {
		case "pub":
			o.learnPub(w, st)
		case "leave":
			if st.Op.F && st.ok() {
				if tp := o.topic(st.Route); tp != nil {
					tp.endIncarnation(st.User)
					o.classes["unsub"] = true
				}
			}
		case "set":
			if tp := o.topics[st.Route]; tp != nil && st.Op.A == "given" && st.ok() && strings.HasPrefix(st.Route, "p2p") && tp.left[st.Op.U] && st.Op.U != st.User {
				tp.reinvited[st.Op.U] = true
				o.classes["p2p-peer-invited-back"] = true
			}
		case "sub":
			if tp := o.topics[st.Route]; tp != nil && st.ok() {
				delete(tp.left, st.User)
			}
			// the get part of a combined {sub}: judged like the same {get} from the now attached session
			if _, was := o.preAtt[st.Sess][st.Route]; !was && st.ok() && st.Op.B != "" && st.Op.Obo == 0 && st.NewGrp < 0 {
				tmp := newWAttach()
				for s, m := range o.att.att {
					tmp.att[s] = map[string]wAtt{}
					for r, a := range m {
						tmp.att[s][r] = a
					}
				}
				tmp.update(w, st)
				if at, now := tmp.get(st.Sess, st.Route); now {
					if o.preAtt[st.Sess] == nil {
						o.preAtt[st.Sess] = map[string]wAtt{}
					}
					o.preAtt[st.Sess][st.Route] = at
					// the permissions the get part is served with are those the subscription has just set
					savedPre, savedLive := o.pre, o.preLive
					o.pre, o.preLive = post, w.liveTopics()
					o.classes["sub-with-get"] = true
					var v *kit.Viol
					for _, what := range strings.Fields(st.Op.B) {
						switch what {
						case "data":
							v = o.judgeGetData(w, st)
						case "del":
							v = o.judgeGetDel(w, st)
						}
						if v != nil {
							break
						}
					}
					delete(o.preAtt[st.Sess], st.Route)
					o.pre, o.preLive = savedPre, savedLive
					if v != nil {
						return v
					}
				}
			}
		case "del":
			switch st.Op.A {
			case "sub":
				if st.ok() && st.Op.U >= 0 && st.Op.U < len(w.users) {
					if tp := o.topic(st.Route); tp != nil {
						tp.endIncarnation(st.Op.U)
						o.classes["evict"] = true
					}
				}
			case "msg":
				if v := o.judgeDel(w, st); v != nil {
					return v
				}
			}
		case "get":
			for _, what := range strings.Fields(st.Op.A) {
				var v *kit.Viol
				switch what {
				case "data":
					v = o.judgeGetData(w, st)
				case "del":
					v = o.judgeGetDel(w, st)
				}
				if v != nil {
					return v
				}
			}
		}
	}
	if v := o.isolation(w, st); v != nil {
		return v
	}
	return o.storeCheck(w, post, st)
}

func (o *c04Obs) learnPub(w *wWorld, st *wStep) {
	if !st.ok() {
		return
	}
	tp := o.topic(st.Route)
	if tp == nil || tp.tainted != "" {
		return
	}
	c := st.reply()
	seq, ok := c04ParamInt(c, "seq")
	if !ok || seq != tp.last+1 {
		// numbering is C01's business; this model needs gap-free ids
		tp.tainted = fmt.Sprintf("publish acknowledged as #%d after #%d", seq, tp.last)
		return
	}
	tp.msgs[seq] = &c04Msg{seq: seq, author: st.User, content: st.Token, ts: c.Timestamp}
	tp.last = seq
}

// perms returns the requester's effective mode before the step (false: cache and store disagree).
func (o *c04Obs) perms(w *wWorld, st *wStep, chanReader bool) (mode types.AccessMode, ok bool) {
	mode, subscribed, ok := o.agreed(st.Route, w.users[st.User].uid, chanReader)
	if !ok {
		o.disagreeN++
		o.classes["perm-disagree"] = true
		return 0, false
	}
	if !subscribed {
		mode = types.ModeNone
	}
	return mode, true
}

// ---- {del what=msg}

func (o *c04Obs) judgeDel(w *wWorld, st *wStep) *kit.Viol {
	tp := o.topic(st.Route)
	if tp == nil || tp.tainted != "" {
		return nil
	}
	at, attached := o.preAtt[st.Sess][st.Route]
	acked := st.ok()
	mode, ok := o.perms(w, st, attached && at.Chan)
	if !ok {
		if acked {
			tp.tainted = "delete accepted while the topic's cache and the store disagreed on the requester's mode"
		}
		return nil
	}
	canR, canD := mode.IsReader(), mode.IsDeleter()
	if c04Debug {
		fmt.Printf("  C04 del: user=%d attached=%v chan=%v mode=%v acked=%v live=%+v\n", st.User, attached, at.Chan, mode, acked, o.preLive[st.Route] != nil)
		if lt := o.preLive[st.Route]; lt != nil {
			fmt.Printf("  C04 cache: %+v\n", lt.PerUser[w.users[st.User].uid])
		}
	}
	inDomain := c04InDomain(st.Op.R, tp.last)
	wantHard := st.Op.F
	if !acked {
		o.refused++
		if st.Fired {
			// the store failed: refusing is right, and the refused request must leave no trace (storeCheck)
			o.classes["delete-failed-in-store"] = true
			return nil
		}
		// must it have been accepted?
		if attached && !at.Chan && inDomain && st.code() >= 400 && ((wantHard && canD) || canR) {
			return o.rep(kit.V("valid-delete-refused", "user %d (mode %v, attached) sent %s with every entry inside 1..%d and was answered %d", st.User, mode, st.Req, tp.last, st.code()))
		}
		return nil
	}
	if !canR && !canD {
		return o.rep(kit.V("delete-accepted-without-permission", "user %d with mode %v (neither R nor D) sent %s and was answered %d", st.User, mode, st.Req, st.code()))
	}
	hard := wantHard && canD
	if !hard && !canR {
		// D without R asking for a soft deletion: the statement requires R (used to be accepted: fixed by 2a31f65)
		if v := o.rep(kit.V("soft-delete-without-R", "user %d with mode %v (D but no R) sent the soft delete %s and was answered %d: soft deletion requires read permission", st.User, mode, st.Req, st.code())); v != nil {
			return v
		}
	}
	ids := map[int]bool{}
	for _, r := range st.Op.R {
		c04Clip(r, tp.last, ids)
	}
	got, has := c04ParamInt(st.reply(), "del")
	if !has || got != tp.delID+1 {
		return o.rep(kit.V("delete-transaction-number", "accepted %s was assigned delete transaction %d (present=%v), the previous one on %s was %d", st.Req, got, has, st.Route, tp.delID))
	}
	tp.delID++
	tx := c04Tx{id: tp.delID, forUser: st.User, ids: ids, entries: len(st.Op.R)}
	if hard {
		tx.forUser = -1
		for id := range ids {
			tp.hard[id] = true
		}
		o.hard++
	} else {
		s := tp.softOf(st.User)
		for id := range ids {
			s[id] = true
		}
		o.soft++
		if wantHard {
			o.degraded++
			o.classes["hard-degraded-to-soft"] = true
		}
	}
	tp.log = append(tp.log, tx)
	if len(st.Op.R) >= 2 && c04Touching(st.Op.R) {
		o.multi++
	}
	if !inDomain {
		o.classes["out-of-domain-delete-accepted"] = true
	}
	if o.deleters[st.Route] == nil {
		o.deleters[st.Route] = map[int]bool{}
	}
	o.deleters[st.Route][st.User] = true
	return nil
}

// ---- {get what=data}

func (o *c04Obs) judgeGetData(w *wWorld, st *wStep) *kit.Viol {
	var frames []*MsgServerData
	for _, f := range st.Frames[st.Sess] {
		if f.Data != nil {
			frames = append(frames, f.Data)
		}
	}
	for sess, fr := range st.Frames {
		if sess == st.Sess {
			continue
		}
		for _, f := range fr {
			if f.Data != nil {
				return o.rep(kit.V("history-to-other-session", "%s by session %d produced %s at session %d", st.Req, st.Sess, wJSON(f), sess))
			}
		}
	}
	tp := o.topic(st.Route)
	if tp == nil {
		return nil
	}
	at, attached := o.preAtt[st.Sess][st.Route]
	if !attached {
		if len(frames) > 0 {
			return o.rep(kit.V("history-to-detached-session", "session %d is not attached to %s and received %d {data} frames for %s", st.Sess, st.Route, len(frames), st.Req))
		}
		return nil
	}
	mode, ok := o.perms(w, st, at.Chan)
	if !ok || tp.tainted != "" {
		return nil
	}
	// prefixes name the situation, they excuse nothing: a channel reader spelling the topic grpXXX
	// (the author used to be disclosed there: fixed by 954eedd), a re-invited P2P participant
	pfx := ""
	if at.Chan != strings.HasPrefix(st.Name, "chn") {
		pfx = "chan-reader-addressing:"
	}
	u := at.User
	if st.Op.Obo > 0 {
		u = st.User // a root session asking on behalf of another user gets that user's view
		o.classes["get-on-behalf"] = true
	}
	if tp.reinvited[u] {
		pfx = "p2p-reinvited:"
	}
	if !mode.IsReader() {
		if len(frames) > 0 {
			return o.rep(kit.V(pfx+"history-without-R", "user %d with mode %v (no R) sent %s and received %d {data} frames", u, mode, st.Req, len(frames)))
		}
		o.classes["get-without-R"] = true
		return nil
	}
	since, before, limit := wOptsOf(&st.Op, "data")
	want := tp.answer(u, since, before, limit)
	all := tp.eligible(u, since, before, 1<<30)
	wantSet := map[int]bool{}
	for _, id := range want {
		wantSet[id] = true
	}
	name := c04NameFor(w, st.Route, at)
	gotSet := map[int]bool{}
	for _, d := range frames {
		if gotSet[d.SeqId] {
			return o.rep(kit.V(pfx+"history-duplicate", "%s returned message #%d twice", st.Req, d.SeqId))
		}
		gotSet[d.SeqId] = true
		if d.Topic != name {
			return o.rep(kit.V(pfx+"history-wrong-topic-name", "%s by user %d returned {data} naming topic %q, the user knows the topic as %q", st.Req, u, d.Topic, name))
		}
		m := tp.msgs[d.SeqId]
		content, _ := d.Content.(string)
		if m == nil || content != m.content {
			if other := o.ownerOf(content); other != "" && other != st.Route {
				return o.rep(kit.V(pfx+"history-cross-topic", "%s on %s returned #%d with content %q which was published on %s", st.Req, st.Route, d.SeqId, content, other))
			}
			if m == nil {
				return o.rep(kit.V(pfx+"history-unknown-message", "%s returned #%d (%v), no such message was acknowledged on %s (last is #%d)", st.Req, d.SeqId, d.Content, st.Route, tp.last))
			}
			return o.rep(kit.V(pfx+"history-content-altered", "%s returned #%d with content %v, it was published as %q", st.Req, d.SeqId, d.Content, m.content))
		}
		if !wantSet[d.SeqId] {
			switch {
			case tp.hard[d.SeqId]:
				return o.rep(kit.V(pfx+"history-shows-hard-deleted", "%s by user %d returned #%d which was hard-deleted", st.Req, u, d.SeqId))
			case tp.soft[u][d.SeqId]:
				return o.rep(kit.V(pfx+"history-shows-own-soft-deleted", "%s by user %d returned #%d which that user soft-deleted (own soft-deleted ids: %v)", st.Req, u, d.SeqId, c04Ids(tp.soft[u])))
			case (since > 0 && d.SeqId < since) || (before > 0 && d.SeqId >= before):
				return o.rep(kit.V(pfx+"history-outside-range", "%s returned #%d which is outside [since, before)", st.Req, d.SeqId))
			default:
				return o.rep(kit.V(pfx+"history-over-limit", "%s returned #%d; the newest min(limit, %d) eligible ids are %v", st.Req, d.SeqId, c04MaxMsgs, want))
			}
		}
		wantFrom := w.users[m.author].uid.UserId()
		if at.Chan {
			wantFrom = ""
		}
		if d.From != wantFrom {
			sig := "history-author-altered"
			if at.Chan {
				sig = "history-author-shown-to-channel-reader"
			}
			return o.rep(kit.V(pfx+sig, "%s by user %d (channel reader: %v) returned #%d with from=%q, expected %q", st.Req, u, at.Chan, d.SeqId, d.From, wantFrom))
		}
		if !m.ts.IsZero() && !d.Timestamp.Equal(m.ts) {
			return o.rep(kit.V(pfx+"history-timestamp-altered", "%s returned #%d with ts %v, it was published at %v", st.Req, d.SeqId, d.Timestamp, m.ts))
		}
	}
	if len(frames) > len(want) {
		return o.rep(kit.V(pfx+"history-over-limit", "%s returned %d messages, at most %d were due", st.Req, len(frames), len(want)))
	}
	for _, id := range want {
		if !gotSet[id] {
			sig := "history-message-missing"
			for ou, s := range tp.soft {
				if ou != u && s[id] {
					sig = "history-hides-other-users-soft-deleted"
				}
			}
			return o.rep(kit.V(pfx+sig, "%s by user %d returned ids %v, expected %v (hard-deleted %v, own soft-deleted %v): #%d is missing", st.Req, u, c04Ids(gotSet), want, c04Ids(tp.hard), c04Ids(tp.soft[u]), id))
		}
	}
	if c := st.reply(); c != nil {
		if cnt, has := c04ParamInt(c, "count"); has && cnt != len(frames) {
			return o.rep(kit.V(pfx+"history-count-mismatch", "%s was closed with count=%d after %d {data} frames", st.Req, cnt, len(frames)))
		}
	}
	o.getJudged++
	if at.Chan != strings.HasPrefix(st.Name, "chn") {
		o.classes["chan-reader-addressed-as-grp"] = true
	}
	if tp.reinvited[u] {
		o.classes["get-by-reinvited-p2p-peer"] = true
	}
	if len(want) < len(all) {
		o.getCut++
		o.classes["get-limit-cut"] = true
		if limit <= 0 || limit > c04MaxMsgs {
			o.classes["get-cut-by-configured-max"] = true
		}
	}
	if (since > 0 && before > 0 && since >= before) || since > tp.last {
		o.classes["get-empty-window"] = true
	}
	if at.Chan {
		o.classes["get-by-channel-reader"] = true
	}
	if o.multi > 0 && o.hard > 0 && o.soft > 0 {
		o.getAfter++
		if d := o.deleters[st.Route]; len(d) > 0 && !d[u] {
			o.getOther++
		}
	}
	return nil
}

// ownerOf: route of the topic on which content was published ("" unknown).
func (o *c04Obs) ownerOf(content string) string {
	if content == "" {
		return ""
	}
	for route, tp := range o.topics {
		for _, m := range tp.msgs {
			if m.content == content {
				return route
			}
		}
	}
	return ""
}

// ---- {get what=del}

func (o *c04Obs) judgeGetDel(w *wWorld, st *wStep) *kit.Viol {
	var metas []*MsgServerMeta
	for _, f := range st.Frames[st.Sess] {
		if f.Meta != nil && f.Meta.Del != nil {
			metas = append(metas, f.Meta)
		}
	}
	tp := o.topic(st.Route)
	if tp == nil {
		return nil
	}
	at, attached := o.preAtt[st.Sess][st.Route]
	if !attached {
		if len(metas) > 0 {
			return o.rep(kit.V("deletion-log-to-detached-session", "session %d is not attached to %s and received %s", st.Sess, st.Route, wJSON(metas[0])))
		}
		return nil
	}
	mode, ok := o.perms(w, st, at.Chan)
	if !ok || tp.tainted != "" {
		return nil
	}
	pfx := ""
	if at.Chan != strings.HasPrefix(st.Name, "chn") {
		pfx = "chan-reader-addressing:"
	}
	u := at.User
	if st.Op.Obo > 0 {
		u = st.User
		o.classes["get-on-behalf"] = true
	}
	if tp.reinvited[u] {
		pfx = "p2p-reinvited:"
	}
	since, before, limit := wOptsOf(&st.Op, "del")
	expect := map[int]bool{}
	rows := 0
	for _, tx := range tp.log {
		if tx.forUser != -1 && tx.forUser != u {
			continue
		}
		if since > 0 && tx.id < since {
			continue
		}
		if before > 1 && tx.id >= before {
			continue
		}
		rows += tx.entries
		for id := range tx.ids {
			expect[id] = true
		}
	}
	got := map[int]bool{}
	name := c04NameFor(w, st.Route, at)
	for _, m := range metas {
		if m.Topic != name {
			return o.rep(kit.V(pfx+"deletion-log-wrong-topic-name", "%s by user %d returned {meta del} naming topic %q, the user knows the topic as %q", st.Req, u, m.Topic, name))
		}
		if m.Del.DelId < 1 || m.Del.DelId > tp.delID {
			return o.rep(kit.V(pfx+"deletion-log-transaction-number", "%s returned clear=%d, delete transactions acknowledged on %s so far: %d", st.Req, m.Del.DelId, st.Route, tp.delID))
		}
		for _, r := range m.Del.DelSeq {
			lo, hi := r.LowId, r.HiId
			if hi == 0 {
				hi = lo + 1
			}
			if lo < 1 {
				lo = 1 // id 0 never exists: not an id deleted for anybody
			}
			if hi > tp.last+64 {
				hi = tp.last + 64
			}
			for id := lo; id < hi; id++ {
				got[id] = true
			}
		}
	}
	extra, missing := c04Diff(got, expect)
	if len(extra) > 0 {
		return o.rep(kit.V(pfx+"deletion-log-extra-ids", "%s by user %d reported %s which covers ids %v never deleted for that user (deleted for the user in the requested window: %v)", st.Req, u, wJSON(metas), extra, c04Ids(expect)))
	}
	exact := mode.IsReader() && (limit <= 0 || limit >= rows) && before != 1
	if exact && len(missing) > 0 {
		return o.rep(kit.V(pfx+"deletion-log-missing-ids", "%s by user %d reported ids %v; deleted for that user: %v (hard %v, own soft %v): %v missing", st.Req, u, c04Ids(got), c04Ids(expect), c04Ids(tp.hard), c04Ids(tp.soft[u]), missing))
	}
	if exact {
		o.getDelJudged++
		if len(expect) > 0 {
			o.classes["get-del-nonempty"] = true
		}
	}
	return nil
}

// ---- cross-topic isolation of every {data} frame, whatever the step

func (o *c04Obs) isolation(w *wWorld, st *wStep) *kit.Viol {
	for sess, frames := range st.Frames {
		if sess >= len(w.sess) || w.sess[sess] == nil {
			continue
		}
		su := w.sess[sess].user
		for _, f := range frames {
			if f.Data == nil {
				continue
			}
			route := w.routeOfName(f.Data.Topic, su)
			tp := o.topics[route]
			content, _ := f.Data.Content.(string)
			if tp == nil || tp.tainted != "" || content == "" {
				continue
			}
			if m := tp.msgs[f.Data.SeqId]; m == nil || m.content != content {
				if other := o.ownerOf(content); other != "" && other != route {
					return o.rep(kit.V("data-cross-topic", "session %d received %s: the content was published on %s, the frame names %s", sess, wJSON(f), other, route))
				}
			}
		}
	}
	return nil
}

// ---- the store against the model, after every step

func (o *c04Obs) storeCheck(w *wWorld, post *mem.State, st *wStep) *kit.Viol {
	routes := make([]string, 0, len(o.topics))
	for r := range o.topics {
		routes = append(routes, r)
	}
	sort.Strings(routes)
	after := st.Op.K
	if st.Op.K == "del" || st.Op.K == "get" || st.Op.K == "set" {
		after += " " + st.Op.A
	}
	for _, route := range routes {
		tp := o.topics[route]
		if tp.tainted != "" {
			continue
		}
		found := false
		delID := 0
		for _, tr := range post.Topics {
			if tr.Name == route {
				found, delID = true, tr.DelId
			}
		}
		if !found {
			tp.tainted = "topic row is gone"
			continue
		}
		if delID != tp.delID {
			return o.rep(kit.V("store-delete-counter", "after %s: topic %s stores delete transaction counter %d, %d delete requests were acknowledged", after, route, delID, tp.delID))
		}
		rows := map[int]int{}
		for i, m := range post.Msgs {
			if m.Topic != route {
				continue
			}
			if _, dup := rows[m.SeqId]; dup {
				return o.rep(kit.V("store-duplicate-message", "after %s: store holds two messages %s#%d", after, route, m.SeqId))
			}
			rows[m.SeqId] = i
			if tp.msgs[m.SeqId] == nil {
				return o.rep(kit.V("store-unknown-message", "after %s: store holds %s#%d which was never acknowledged (last acknowledged #%d)", after, route, m.SeqId, tp.last))
			}
		}
		for seq := 1; seq <= tp.last; seq++ {
			m := tp.msgs[seq]
			i, ok := rows[seq]
			if !ok {
				return o.rep(kit.V("store-message-missing", "after %s: acknowledged message %s#%d is not in the store", after, route, seq))
			}
			row := post.Msgs[i]
			gone := row.DelId != 0 || row.DeletedAt != nil
			erased := row.Content == nil || string(row.Content) == "null"
			switch {
			case gone && !tp.hard[seq]:
				return o.rep(kit.V("store-hard-deleted-outside-union", "after %s (%s): %s#%d is marked deleted for everyone in the store (delid %d) but no accepted hard delete covers it; hard-deleted per model: %v", after, st.Req, route, seq, row.DelId, c04Ids(tp.hard)))
			case !gone && tp.hard[seq]:
				return o.rep(kit.V("store-hard-delete-missing", "after %s (%s): %s#%d was covered by an accepted hard delete but is still live in the store; hard-deleted per model: %v", after, st.Req, route, seq, c04Ids(tp.hard)))
			case gone && !erased:
				return o.rep(kit.V("store-hard-deleted-content-kept", "after %s: %s#%d is hard-deleted but still holds content %s", after, route, seq, row.Content))
			case !gone && (string(row.Content) != wJSON(m.content) || row.From != w.users[m.author].uid || (!m.ts.IsZero() && !row.CreatedAt.Equal(m.ts))): // (a {ctrl} read over gRPC carries no timestamp: the schema has none)
				return o.rep(kit.V("store-message-altered", "after %s (%s): %s#%d is stored as content=%s from=%v ts=%v; published as %q by user %d at %v", after, st.Req, route, seq, row.Content, row.From, row.CreatedAt, m.content, m.author, m.ts))
			}
		}
		// deletion log rows
		cover := map[types.Uid]map[int]bool{}
		for _, d := range post.Dellog {
			if d.Topic != route {
				continue
			}
			if cover[d.DeletedFor] == nil {
				cover[d.DeletedFor] = map[int]bool{}
			}
			if d.Hi-1 > tp.last {
				return o.rep(kit.V("store-log-beyond-last-id", "after %s (%s): deletion log row [%d,%d) of transaction %d on %s reaches beyond the last message #%d: a later message would be born deleted", after, st.Req, d.Low, d.Hi, d.DelId, route, tp.last))
			}
			for id := d.Low; id < d.Hi; id++ {
				if id >= 1 {
					cover[d.DeletedFor][id] = true
				}
			}
			if !d.DeletedFor.IsZero() && w.userIdx(d.DeletedFor) < 0 {
				return o.rep(kit.V("store-log-unknown-user", "after %s: deletion log row of %s names user %v", after, route, d.DeletedFor))
			}
		}
		if extra, missing := c04Diff(cover[types.ZeroUid], tp.hard); len(extra)+len(missing) > 0 {
			return o.rep(kit.V("store-hard-log-mismatch", "after %s (%s): the deletion log of %s lists %v as deleted for everyone, accepted hard deletes cover %v (extra %v, missing %v)", after, st.Req, route, c04Ids(cover[types.ZeroUid]), c04Ids(tp.hard), extra, missing))
		}
		for u := range w.users {
			have := cover[w.users[u].uid]
			if have == nil {
				have = map[int]bool{}
			}
			want := tp.soft[u]
			if want == nil {
				want = map[int]bool{}
			}
			if extra, missing := c04Diff(have, want); len(extra)+len(missing) > 0 {
				sig := "store-soft-deleted-missing"
				if len(extra) > 0 {
					sig = "store-soft-deleted-outside-union"
				}
				return o.rep(kit.V(sig, "after %s (%s): the store hides %v of %s from user %d, the accepted soft deletes of that user's current subscription cover %v (extra %v, missing %v)", after, st.Req, c04Ids(have), route, u, c04Ids(want), extra, missing))
			}
		}
	}
	return nil
}

// ---------------------------------------------------------------- exec / test

func c04Exec(t *testing.T, r *kit.Run) func(wProg) kit.Outcome {
	return func(p wProg) kit.Outcome {
		r.WAL(p)
		obs := newC04Obs()
		obs.known = func(v *kit.Viol) bool { return r.IsKnown(v.Sig) && r.Violation(v, p) }
		var res wRunResult
		fail := wInBubble(t, func() { res = wExec(&p, obs, nil) })
		o := kit.Outcome{}
		// non-trivial: an accepted delete listing >= 2 entries that overlap or touch, an accepted hard
		// and an accepted soft delete, and afterwards a history query judged exactly.
		o.NonTrivial = obs.multi >= 1 && obs.hard >= 1 && obs.soft >= 1 && obs.getAfter >= 1
		add := func(on bool, c string) {
			if on {
				o.Classes = append(o.Classes, c)
			}
		}
		add(obs.multi > 0, "multi-range-delete")
		add(obs.hard > 0, "hard-delete")
		add(obs.soft > 0, "soft-delete")
		add(obs.refused > 0, "delete-refused")
		add(obs.getJudged > 0, "get-data-judged")
		add(obs.getAfter > 0, "get-data-after-deletes")
		add(obs.getOther > 0, "get-data-by-non-deleter-after-deletes")
		add(obs.getDelJudged > 0, "get-del-judged")
		for c := range obs.classes {
			o.Classes = append(o.Classes, c)
		}
		for _, tp := range obs.topics {
			if tp.tainted != "" {
				add(true, "model-lost-track")
			}
		}
		sort.Strings(o.Classes)
		if fail != "" && res.Viol == nil {
			o.Skip = true
			fmt.Println("C04 bubble failure (not judged here):", firstLine(fail))
			return o
		}
		o.Viol = res.Viol
		return o
	}
}

func TestC04History(t *testing.T) {
	r := kit.Begin("C04", "TestC04History")
	defer r.Flush()
	kit.CheckRun(t, r, c04Gen, c04Exec(t, r))
}
