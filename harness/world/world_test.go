package main

// World engine: the real hub, topics, sessions, user cache and authenticators run
// in-process on the verifmem reference store, inside one testing/synctest bubble
// per case (virtual clock, exact quiescence). See /verif/DESIGN.md section 3.3.

import (
	"bytes"
	"container/list"
	"encoding/json"
	"fmt"
	"io"
	"net/http"
	"net/http/httptest"
	"os"
	"path/filepath"
	"reflect"
	"runtime"
	"runtime/debug"
	"sort"
	"strings"
	"sync"
	"sync/atomic"
	"testing"
	"testing/synctest"
	"time"

	"github.com/tinode/chat/server/auth"
	"github.com/tinode/chat/pbx"
	"github.com/tinode/chat/server/logs"
	"github.com/tinode/chat/server/push"
	"github.com/tinode/chat/server/store"
	"github.com/tinode/chat/server/store/types"
	"google.golang.org/protobuf/proto"
	mem "github.com/tinode/chat/server/zzverifmem"
)

// ---------------------------------------------------------------- process-wide one-time setup

var (
	wOnce     sync.Once
	wBooted   bool
	wVirt     = 30 * 365 * 24 * time.Hour // offset slept at the start of each bubble; grows per case
	wTap      = &wPushTap{}
	wHubProto *Hub
)

type wPushTap struct {
	mu    sync.Mutex
	ready bool
	ch    chan *push.Receipt
	chn   chan *push.ChannelReq
}

func (p *wPushTap) Init(json.RawMessage) (bool, error) { return true, nil }
func (p *wPushTap) IsReady() bool                      { p.mu.Lock(); defer p.mu.Unlock(); return p.ready }
func (p *wPushTap) Push() chan<- *push.Receipt         { p.mu.Lock(); defer p.mu.Unlock(); return p.ch }
func (p *wPushTap) Channel() chan<- *push.ChannelReq   { p.mu.Lock(); defer p.mu.Unlock(); return p.chn }
func (p *wPushTap) Stop()                              {}
func (p *wPushTap) reset(on bool) {
	p.mu.Lock()
	p.ready = on
	p.ch = make(chan *push.Receipt, 4096)
	p.chn = make(chan *push.ChannelReq, 4096)
	p.mu.Unlock()
}
func (p *wPushTap) drain() []*push.Receipt {
	p.mu.Lock()
	ch, chn := p.ch, p.chn
	p.mu.Unlock()
	var out []*push.Receipt
	for {
		select {
		case r := <-ch:
			out = append(out, r)
			continue
		case <-chn:
			continue
		default:
		}
		return out
	}
}

func wProcessInit() {
	wOnce.Do(func() {
		if os.Getenv("VERIF_LOGS") == "" {
			logs.Init(io.Discard, "stdFlags")
		}
		store.RegisterAdapter(mem.A)
		push.Register("veriftap", wTap)
	})
}

// ---------------------------------------------------------------- configuration of one world

type wConfig struct {
	Users      int   `json:"users"`           // number of pre-seeded ordinary users (auth level)
	Root       bool  `json:"root,omitempty"`  // user 0 logs in at root level
	MaxSubs    int   `json:"maxsubs,omitempty"`
	NoPush     bool  `json:"nopush,omitempty"`
	Vmail      int   `json:"vmail,omitempty"` // the harness validator (validator_test.go): 1 configured, 2 confirmed addresses become tags, 3 also required of authenticated accounts
	Calls      bool  `json:"calls,omitempty"`
	CallTimeout int  `json:"calltimeout,omitempty"`
	CallsOffIce bool `json:"callsoffice,omitempty"` // calls are not enabled but the config lists ICE servers
	Anon       []int `json:"anon,omitempty"` // indices of users that log in at anonymous level
	Media      bool  `json:"media,omitempty"` // configure the fs media handler (sticky per process)
	Bkg        []int `json:"bkg,omitempty"`   // session slots which say {hi bkg=true}
	// Grpc: session slots which talk protobuf: every request goes JSON -> ClientComMessage ->
	// pbCliSerialize -> wire -> pbCliDeserialize -> dispatch (what the gRPC endpoint does), every
	// server message pbServSerialize -> wire -> pbServDeserialize before the oracles see it.
	Grpc []int `json:"grpc,omitempty"`
	// Lat: store latency pattern in (virtual) microseconds: the n-th adapter call of the case sleeps
	// Lat[n % len] before it runs, so requests issued together interleave at store-call boundaries
	// (mem.SetLatency). Empty = the store answers instantly.
	Lat []int `json:"lat,omitempty"`
}

var wMediaOn bool

func wEnsureMedia() {
	if wMediaOn {
		return
	}
	dir, err := os.MkdirTemp(os.Getenv("VERIF_OUT"), "uploads")
	if err != nil {
		panic(err)
	}
	if err := store.Store.UseMediaHandler("fs", `{"upload_dir":"`+dir+`"}`); err != nil {
		panic(err)
	}
	globals.maxFileUploadSize = 1 << 16
	wMediaOn = true
}

type wUser struct {
	uid   types.Uid
	level auth.Level
	token []byte
}

type wSess struct {
	idx     int
	s       *Session
	user    int // -1 = not logged in
	frames  []*ServerComMessage
	nSeen   int
	done    chan struct{}
	grpc    bool // protobuf transport (wConfig.Grpc)
	closed  bool // cleanUp has been called (by harness or after server-side stop)
	stopped bool // write loop has exited
	pause   atomic.Bool
	needClean atomic.Bool // server stopped the session: cleanUp is due on the dispatching goroutine
	lazy      atomic.Bool // "lazy": the write loop gets round to detach notices 20 ms late (a busy connection)
	abandoned atomic.Bool // the client stopped polling ("abandon"): the harness no longer refreshes lastTouched
	mu      sync.Mutex
}

type wWorld struct {
	cfg     wConfig
	users   []*wUser
	sess    []*wSess
	groups  []string // created group topics by slot, "" = slot not created
	isChan  []bool
	reqN    int
	tokAuth auth.AuthHandler
	panicked any
	watchdog *time.Timer
	noteSeq  func(route string, sel int) int // symbolic seq of a {note} (op.M): set by the C15 observer
	emptyAt  map[string]time.Time            // route -> when the request which detached its last session was sent
	lastSend time.Time
	callAt   time.Time // when the latest call invitation was sent
	files    []string                        // urls of uploads made by "upload" ops
	fileLocs []string                        // where their bytes are, removed at shutdown
}

const wStoreCfg = `{"uid_key":"la6YsO+bNX/+XIkOqc5Svw==","max_results":1024,"use_adapter":"verifmem"}`
const wTokenCfg = `{"expire_in":1209600,"serial_num":1,"key":"wfaY2RgF2S1OQI/ZlK+LSrp1KB2jwAdGAIHQ7JZn+Kc="}`

func wNewHub() *Hub {
	if !wBooted {
		wBooted = true
		globals.sessionStore = NewSessionStore(idleSessionTimeout + 15*time.Second)
		h := newHub()
		wHubProto = h
		return h
	}
	p := wHubProto
	h := &Hub{
		topics:     &sync.Map{},
		routeCli:   make(chan *ClientComMessage, cap(p.routeCli)),
		routeSrv:   make(chan *ServerComMessage, cap(p.routeSrv)),
		join:       make(chan *ClientComMessage, cap(p.join)),
		unreg:      make(chan *topicUnreg, cap(p.unreg)),
		rehash:     make(chan bool, cap(p.rehash)),
		meta:       make(chan *ClientComMessage, cap(p.meta)),
		userStatus: make(chan *userStatusReq, cap(p.userStatus)),
		shutdown:   make(chan chan<- bool, cap(p.shutdown)),
	}
	go h.run()
	h.join <- &ClientComMessage{RcptTo: "sys", Original: "sys"}
	return h
}

// wSelfTest fails loudly (exit 2 in the driver: the test panics with this text) if Hub or
// SessionStore grew fields the hand-built copies do not initialise.
func wSelfTest() {
	want := map[string]bool{"topics": true, "numTopics": true, "routeCli": true, "meta": true, "routeSrv": true, "join": true,
		"unreg": true, "userStatus": true, "rehash": true, "shutdown": true}
	ht := reflect.TypeOf(Hub{})
	for i := 0; i < ht.NumField(); i++ {
		if !want[ht.Field(i).Name] {
			panic("VERIF-HARNESS-MISMATCH: Hub has an unknown field " + ht.Field(i).Name)
		}
	}
	st := reflect.TypeOf(SessionStore{})
	wantS := map[string]bool{"lock": true, "lru": true, "lifeTime": true, "sessCache": true}
	for i := 0; i < st.NumField(); i++ {
		if !wantS[st.Field(i).Name] {
			panic("VERIF-HARNESS-MISMATCH: SessionStore has an unknown field " + st.Field(i).Name)
		}
	}
}

func wBoot(cfg wConfig) *wWorld {
	wProcessInit()
	wSelfTest()
	// Each bubble starts at 2000-01-01: move past the previous case so that process-global id
	// generators never see time go backwards (but stay well below 2106, where 32-bit expiry
	// timestamps of tokens wrap).
	wVirt += wLastElapsed + 2*time.Second
	time.Sleep(wVirt)
	wCaseStart = time.Now()
	mem.SetLatency(nil)
	mem.A.Reset()
	if err := store.Store.Open(1, json.RawMessage(wStoreCfg)); err != nil {
		panic("store open: " + err.Error())
	}
	w := &wWorld{cfg: cfg}
	wCur = w
	// Watchdog on the virtual clock: a case needs minutes of virtual time; if hours pass, the
	// bubble's root goroutine is blocked for good (e.g. cleanUp waiting on in-flight request
	// bookkeeping) while timers keep the bubble busy. Dump the goroutines and leave: the driver
	// finds the case in the write-ahead log.
	w.watchdog = time.AfterFunc(5*time.Hour, func() {
		buf := make([]byte, 1<<20)
		n := runtime.Stack(buf, true)
		fmt.Fprintf(os.Stderr, "VERIF-HANG: virtual clock ran 5h past the start of the case; goroutines:\n%s\n", buf[:n])
		os.Exit(3)
	})
	w.tokAuth = store.Store.GetAuthHandler("token")
	if !w.tokAuth.IsInitialized() {
		if err := w.tokAuth.Init(json.RawMessage(wTokenCfg), "token"); err != nil {
			panic(err)
		}
	}
	globals.cluster = nil
	globals.maxSubscriberCount = 32
	if cfg.MaxSubs > 0 {
		globals.maxSubscriberCount = cfg.MaxSubs
	}
	globals.maxTagCount = 16
	globals.maxMessageSize = 1 << 18
	globals.defaultCountryCode = "US"
	globals.shuttingDown = false
	globals.validators = nil
	globals.authValidators = nil
	globals.validatorClientConfig = nil
	if cfg.Vmail > 0 {
		wUseValidator(false, cfg.Vmail >= 2)
	}
	if cfg.Vmail == 3 {
		// ... and authenticated accounts must have one (without a required method {set cred resp=} confirms nothing)
		globals.authValidators = map[auth.Level][]string{auth.LevelAuth: {wValidatorName}}
	}
	globals.immutableTagNS = map[string]bool{}
	globals.maskedTagNS = map[string]bool{}
	globals.permanentAccounts = false
	globals.iceServers = nil
	globals.callEstablishmentTimeout = 0
	// through the server's own reading of the "webrtc" section of its config file: calling is
	// configured iff 'enabled' is set (the stock config lists ICE servers and leaves it off)
	if cfg.Calls || cfg.CallsOffIce {
		to := 30
		if cfg.CallTimeout > 0 {
			to = cfg.CallTimeout
		}
		js := fmt.Sprintf(`{"enabled":%v,"call_establishment_timeout":%d,"ice_servers":[{"urls":["stun:example.org"]}]}`, cfg.Calls, to)
		if err := initVideoCalls(json.RawMessage(js)); err != nil {
			panic("initVideoCalls: " + err.Error())
		}
	}
	if cfg.Media {
		wEnsureMedia()
	}
	wTap.reset(!cfg.NoPush)
	usersInit()
	if wBooted {
		globals.sessionStore = wNewSessionStore()
	}
	globals.hub = wNewHub()
	synctest.Wait()

	for i := 0; i < cfg.Users; i++ {
		u := &types.User{}
		// the defaults replyCreateUser assigns to a new account
		u.Access.Auth = types.ModeCP2P
		u.Access.Anon = types.ModeNone
		u.Public = map[string]any{"fn": fmt.Sprintf("user%d", i)}
		if _, err := store.Users.Create(u, nil); err != nil {
			panic("user create: " + err.Error())
		}
		if cfg.Vmail == 3 {
			// every account starts with a confirmed address of a domain the validator accepts no new ones from
			store.Users.UpsertCred(&types.Credential{User: u.Uid().String(), Method: wValidatorName, Value: fmt.Sprintf("u%d@example.com", i), Done: true})
		}
		lvl := auth.LevelAuth
		if i == 0 && cfg.Root {
			lvl = auth.LevelRoot
		}
		for _, a := range cfg.Anon {
			if a == i {
				lvl = auth.LevelAnon
			}
		}
		tok, _, err := w.tokAuth.GenSecret(&auth.Rec{Uid: u.Uid(), AuthLevel: lvl})
		if err != nil {
			panic(err)
		}
		w.users = append(w.users, &wUser{uid: u.Uid(), level: lvl, token: tok})
		time.Sleep(time.Millisecond)
	}
	mem.SetLatency(cfg.Lat)
	return w
}

// shutdown closes every session, stops hub and user cache. The bubble must then end clean.
func (w *wWorld) shutdown() {
	defer func() { wLastElapsed = time.Since(wCaseStart) }()
	for _, loc := range w.fileLocs {
		os.Remove(loc)
	}
	defer w.watchdog.Stop()
	for _, ss := range w.sess {
		w.disconnect(ss)
	}
	w.settle()
	w.stopHub()
	store.Store.Close()
}

func (w *wWorld) stopHub() {
	hd := make(chan bool)
	globals.hub.shutdown <- hd
	<-hd
	usersShutdown()
	// terminated topics linger for a few (virtual) seconds to reject stragglers
	time.Sleep(idleMasterTopicTimeout + time.Second)
	wQuiesce()
}

// restart simulates a process restart on the same database: all sessions are dropped,
// the hub and all topics are stopped, and a new hub is started.
func (w *wWorld) restart() {
	for _, ss := range w.sess {
		w.disconnect(ss)
	}
	w.settle()
	w.stopHub()
	w.sess = nil
	usersInit()
	globals.sessionStore = wNewSessionStore()
	globals.hub = wNewHub()
	w.settle()
}

// sweep performs the cleanUp of sessions the server has terminated (main goroutine only).
func (w *wWorld) sweep() bool {
	did := false
	for _, ss := range w.sess {
		if ss != nil && ss.needClean.CompareAndSwap(true, false) {
			ss.s.cleanUp(false)
			did = true
		}
	}
	return did
}

func (w *wWorld) settle() {
	time.Sleep(time.Millisecond)
	wQuiesce()
	if w.sweep() {
		time.Sleep(time.Millisecond)
		wQuiesce()
	}
}

// wQuiesce waits until every goroutine of the bubble is blocked on something other than the
// store's (virtual) latency: synctest.Wait alone returns while a request sleeps inside an adapter call.
func wQuiesce() {
	synctest.Wait()
	for n := 0; mem.Sleeping() > 0; n++ {
		if n > 1_000_000 {
			panic("VERIF-HARNESS: store calls never finish")
		}
		time.Sleep(5 * time.Microsecond)
		synctest.Wait()
	}
}

// tick advances the virtual clock in steps short enough that live long-poll sessions keep
// "polling" (lastTouched refreshed), as a real client would.
func (w *wWorld) tick(d time.Duration) {
	for d > 0 {
		step := d
		if step > 20*time.Second {
			step = 20 * time.Second
		}
		time.Sleep(step)
		wQuiesce()
		if w.sweep() {
			wQuiesce()
		}
		d -= step
		now := time.Now()
		for _, ss := range w.sess {
			if !ss.isClosed() && !ss.abandoned.Load() {
				wTouch(ss.s, now)
			}
		}
	}
}

// ---------------------------------------------------------------- sessions

func (w *wWorld) connect() *wSess {
	// LPOLL-proto session driven directly with JSON; its lastTouched is refreshed on every
	// request so that the long-poll expiry in SessionStore never fires for a live harness session.
	s, _ := globals.sessionStore.NewSession(http.ResponseWriter(httptest.NewRecorder()), "")
	ss := &wSess{idx: -1, s: s, user: -1, done: make(chan struct{})}
	go ss.loop()
	return ss
}

// addSess connects a session and gives it the next free slot.
func (w *wWorld) addSess() *wSess {
	ss := w.connect()
	ss.idx = len(w.sess)
	w.sess = append(w.sess, ss)
	return ss
}

func wNewSessionStore() *SessionStore {
	return &SessionStore{lru: list.New(), lifeTime: idleSessionTimeout + 15*time.Second, sessCache: make(map[string]*Session)}
}

func (ss *wSess) record(m any) {
	ss.mu.Lock()
	defer ss.mu.Unlock()
	switch v := m.(type) {
	case *ServerComMessage:
		ss.frames = append(ss.frames, wCopyMsg(ss.viaPb(v)))
	case []*ServerComMessage:
		for _, x := range v {
			ss.frames = append(ss.frames, wCopyMsg(ss.viaPb(x)))
		}
	case []byte:
		var x ServerComMessage
		if json.Unmarshal(v, &x) == nil {
			ss.frames = append(ss.frames, &x)
		}
	}
}

// viaPb: what the session's write loop does for a gRPC connection (Session.serialize ->
// pbServSerialize), then over the wire and back into the shape client libraries read
// (pbServDeserialize). Other connections get the message as it is.
func (ss *wSess) viaPb(m *ServerComMessage) *ServerComMessage {
	if !ss.grpc || m == nil {
		return m
	}
	_, data := ss.s.serialize(m)
	pm, ok := data.(*pbx.ServerMsg)
	if !ok || pm == nil {
		return m
	}
	b, err := proto.Marshal(pm)
	if err != nil {
		panic("protobuf server message does not marshal: " + err.Error())
	}
	var back pbx.ServerMsg
	if err := proto.Unmarshal(b, &back); err != nil {
		panic("protobuf server message does not parse back: " + err.Error())
	}
	if out := pbServDeserialize(&back); out != nil {
		return out
	}
	return m
}

// wCopyMsg renders the message as the wire would show it and parses it back.
func wCopyMsg(m *ServerComMessage) *ServerComMessage {
	b, err := json.Marshal(m)
	if err != nil {
		panic("server message does not serialise: " + err.Error())
	}
	var x ServerComMessage
	if err := json.Unmarshal(b, &x); err != nil {
		panic("server message does not parse back: " + err.Error() + " " + string(b))
	}
	return &x
}

func (ss *wSess) loop() {
	s := ss.s
	defer func() {
		ss.mu.Lock()
		ss.stopped = true
		ss.mu.Unlock()
		close(ss.done)
	}()
	for {
		if ss.pause.Load() {
			select {
			case m := <-s.stop:
				ss.onStop(m)
				return
			case tp := <-s.detach:
				s.delSub(tp)
			case <-time.After(50 * time.Millisecond):
			}
			continue
		}
		if ss.lazy.Load() {
			// a write loop which is busy writing takes what is queued for it in no particular order: here
			// the detach notices of its topics wait 20 ms while messages and requests go on
			select {
			case m, ok := <-s.send:
				if !ok {
					return
				}
				ss.record(m)
			case m := <-s.stop:
				ss.onStop(m)
				return
			case <-time.After(20 * time.Millisecond):
				for n := len(s.detach); n > 0; n-- {
					s.delSub(<-s.detach)
				}
			}
			continue
		}
		select {
		case m, ok := <-s.send:
			if !ok {
				return
			}
			ss.record(m)
		case <-s.bkgTimer.C:
			if s.background {
				s.background = false
				s.onBackgroundTimer()
			}
		case m := <-s.stop:
			ss.onStop(m)
			return
		case tp := <-s.detach:
			s.delSub(tp)
		case <-time.After(50 * time.Millisecond):
			// re-check the pause flag
		}
	}
}

func (ss *wSess) onStop(m any) {
	if m == nil {
		// Either the harness disconnected (closed already set) or the server expired the session.
		ss.mu.Lock()
		ss.closed = true
		ss.mu.Unlock()
		return
	}
	{
		ss.record(m)
		// Server-initiated termination: the real read loop would now fail and clean up.
		ss.mu.Lock()
		already := ss.closed
		ss.closed = true
		ss.mu.Unlock()
		if !already {
			// The real read loop (the goroutine which also dispatches this session's requests) would
			// now fail and clean up: leave it to the harness's dispatching goroutine (wWorld.sweep).
			ss.needClean.Store(true)
		}
	}
}

func (w *wWorld) disconnect(ss *wSess) {
	ss.mu.Lock()
	already := ss.closed
	ss.closed = true
	ss.mu.Unlock()
	if already {
		if ss.needClean.CompareAndSwap(true, false) {
			ss.s.cleanUp(false)
		}
		return
	}
	ss.pause.Store(false)
	ss.s.cleanUp(false)
	<-ss.done
}

func (ss *wSess) isClosed() bool {
	ss.mu.Lock()
	defer ss.mu.Unlock()
	return ss.closed
}

// sendRaw dispatches bytes as the network read loop would. No settle.
func (ss *wSess) sendRaw(raw []byte) {
	if ss.isClosed() || ss.abandoned.Load() {
		return
	}
	wTouch(ss.s, time.Now())
	if ss.grpc {
		// the client's side (building the protobuf message) is not the server's business: if it cannot
		// be built the request goes as JSON; what the server does with the bytes (pbCliDeserialize,
		// dispatch) runs unprotected, as in grpcNodeServer.MessageLoop
		if b := wClientPb(raw); b != nil {
			var back pbx.ClientMsg
			if proto.Unmarshal(b, &back) == nil {
				ss.s.dispatch(pbCliDeserialize(&back))
				return
			}
		}
	}
	if ss.s.proto == LPOLL && int64(len(raw)) <= globals.maxMessageSize {
		// the long-polling endpoint's reader (the requests of one such session may arrive in parallel
		// HTTP requests; the reader takes the session's lock around the dispatch)
		ss.s.readOnce(httptest.NewRecorder(), httptest.NewRequest(http.MethodPost, "/v0/channels/lp", bytes.NewReader(raw)))
		return
	}
	ss.s.dispatchRaw(raw)
}

func (w *wWorld) do(ss *wSess, js string) []*ServerComMessage {
	ss.sendRaw([]byte(js))
	w.settle()
	return ss.fresh()
}

// fresh returns frames received since the last call.
func (ss *wSess) fresh() []*ServerComMessage {
	ss.mu.Lock()
	defer ss.mu.Unlock()
	out := ss.frames[ss.nSeen:]
	ss.nSeen = len(ss.frames)
	return out
}

func (w *wWorld) nextID() string {
	w.reqN++
	return fmt.Sprintf("r%d", w.reqN)
}

func wJSON(v any) string {
	b, err := json.Marshal(v)
	if err != nil {
		panic(err)
	}
	return string(b)
}

// hi + token login for user u on session ss; returns the login ctrl code.
func (w *wWorld) login(ss *wSess, u int) int {
	bkg := ""
	for _, slot := range w.cfg.Bkg {
		if slot == ss.idx {
			bkg = `,"bkg":true`
		}
	}
	w.do(ss, `{"hi":{"id":"`+w.nextID()+`","ver":"0.22","ua":"verif/1.0"`+bkg+`}}`)
	id := w.nextID()
	fr := w.do(ss, `{"login":{"id":"`+id+`","scheme":"token","secret":`+wJSON(w.users[u].token)+`}}`)
	code := wCtrlCode(fr, id)
	if code >= 200 && code < 300 {
		ss.user = u
	}
	return code
}

func wCtrlCode(frames []*ServerComMessage, id string) int {
	for _, f := range frames {
		if f.Ctrl != nil && f.Ctrl.Id == id {
			return f.Ctrl.Code
		}
	}
	return 0
}

func wCtrl(frames []*ServerComMessage, id string) *MsgServerCtrl {
	for _, f := range frames {
		if f.Ctrl != nil && f.Ctrl.Id == id {
			return f.Ctrl
		}
	}
	return nil
}

// ---------------------------------------------------------------- topic references

// resolve turns a symbolic topic reference into the name user `u` would send.
//   me, fnd, sys, new, nch        as is
//   g<k>   group slot k as grpXXX ("" if the slot has not been created)
//   c<k>   group slot k spelled chnXXX
//   p<k>   p2p with user k, spelled usrXXX
//   P<k>   p2p with user k, spelled p2pXXX (full name)
//   raw:<s> literal
func (w *wWorld) resolve(ref string, u int) string {
	switch {
	case ref == "me" || ref == "fnd" || ref == "sys" || ref == "new" || ref == "nch":
		return ref
	case strings.HasPrefix(ref, "raw:"):
		return ref[4:]
	case len(ref) >= 2 && (ref[0] == 'g' || ref[0] == 'c'):
		k := wAtoi(ref[1:])
		if k < 0 || k >= len(w.groups) || w.groups[k] == "" {
			return ""
		}
		if ref[0] == 'c' {
			return types.GrpToChn(w.groups[k])
		}
		return w.groups[k]
	case len(ref) == 2 && ref[0] == 'F':
		// the routable name of user k's search topic (fndXXX), whoever sends it
		k := int(ref[1] - '0')
		if k < 0 || k >= len(w.users) {
			return ""
		}
		return w.users[k].uid.FndName()
	case len(ref) == 2 && ref[0] == 'M':
		// the routable name of user k's 'me' topic (usrXXX) - the same text as the P2P spelling p<k>
		k := int(ref[1] - '0')
		if k < 0 || k >= len(w.users) {
			return ""
		}
		return w.users[k].uid.UserId()
	case len(ref) == 3 && ref[0] == 'Q':
		// the full p2pXXX name of the topic between users i and j, whoever sends it
		i, j := int(ref[1]-'0'), int(ref[2]-'0')
		if i < 0 || j < 0 || i >= len(w.users) || j >= len(w.users) || i == j {
			return ""
		}
		return w.users[i].uid.P2PName(w.users[j].uid)
	case len(ref) >= 2 && (ref[0] == 'p' || ref[0] == 'P'):
		k := wAtoi(ref[1:])
		if k < 0 || k >= len(w.users) {
			return ""
		}
		if ref[0] == 'p' {
			return w.users[k].uid.UserId()
		}
		if u < 0 || u >= len(w.users) || u == k {
			return ""
		}
		return w.users[u].uid.P2PName(w.users[k].uid)
	}
	return ""
}

func wAtoi(s string) int {
	n := 0
	if s == "" {
		return -1
	}
	for _, c := range s {
		if c < '0' || c > '9' {
			return -1
		}
		n = n*10 + int(c-'0')
	}
	return n
}

// routable returns the server-side (hub) name of the topic for ref as seen by user u.
func (w *wWorld) routable(ref string, u int) string {
	name := w.resolve(ref, u)
	switch {
	case name == "":
		return ""
	case name == "me":
		if u >= 0 {
			return w.users[u].uid.UserId()
		}
	case name == "fnd":
		if u >= 0 {
			return w.users[u].uid.FndName()
		}
	case strings.HasPrefix(name, "usr"):
		if u >= 0 {
			return w.users[u].uid.P2PName(types.ParseUserId(name))
		}
	case strings.HasPrefix(name, "chn"):
		return types.ChnToGrp(name)
	}
	return name
}

func (w *wWorld) userIdx(uid types.Uid) int {
	for i, u := range w.users {
		if u.uid == uid {
			return i
		}
	}
	return -1
}

// ---------------------------------------------------------------- white-box snapshot

type wTopicSnap struct {
	Name     string
	Cat      types.TopicCat
	LastID   int
	DelID    int
	Owner    types.Uid
	IsChan   bool
	Status   int32
	PerUser  map[types.Uid]perUserData
	Sessions map[string]perSessionData // by sid
	HasCall  bool
	Tags     []string
	Public   any
	Trusted  any
	AccessAuth, AccessAnon types.AccessMode
	PerSubs  map[string]perSubsData
	Loaded   bool
}

// wSnapPerSubs: copy the contact tables of 'me' topics too (C10 only: timers write them with no
// happens-before edge from the harness, which the race-detector build of C14 would report).
var wSnapPerSubs bool

// liveTopics reads hub state; call only at quiescence.
func (w *wWorld) liveTopics() map[string]*wTopicSnap {
	out := map[string]*wTopicSnap{}
	globals.hub.topics.Range(func(k, v any) bool {
		t := v.(*Topic)
		ts := &wTopicSnap{Name: t.name, Cat: t.cat, LastID: t.lastID, DelID: t.delID, Owner: t.owner, IsChan: t.isChan,
			Status: atomic.LoadInt32(&t.status), PerUser: map[types.Uid]perUserData{}, Sessions: map[string]perSessionData{},
			HasCall: t.currentCall != nil, Tags: append([]string(nil), t.tags...), Public: t.public, Trusted: t.trusted,
			AccessAuth: t.accessAuth, AccessAnon: t.accessAnon}
		for u, p := range t.perUser {
			ts.PerUser[u] = p
		}
		for s, p := range t.sessions {
			ts.Sessions[s.sid] = p
		}
		ts.PerSubs = map[string]perSubsData{}
		if wSnapPerSubs {
			for k, v := range t.perSubs {
				ts.PerSubs[k] = v
			}
		}
		ts.Loaded = t.isLoaded()
		out[k.(string)] = ts
		return true
	})
	return out
}

func (ss *wSess) subNames() []string {
	ss.s.subsLock.RLock()
	defer ss.s.subsLock.RUnlock()
	var out []string
	for k := range ss.s.subs {
		out = append(out, k)
	}
	sort.Strings(out)
	return out
}

// ---------------------------------------------------------------- running a case in a bubble

// wInBubble runs fn inside a synctest bubble. A panic of the bubble's root goroutine (the
// goroutine that calls dispatch, as a network read loop would) is recorded; the world is then
// torn down as far as possible so that the bubble can end. synctest's own complaints (deadlock,
// goroutines left behind) surface as a panic of synctest.Test in the caller and are recorded too.
func wInBubble(t *testing.T, fn func()) (failure string) {
	if os.Getenv("VERIF_SLOW") != "" {
		t0 := time.Now()
		defer func() {
			if d := time.Since(t0); d > 2*time.Second {
				ms, _ := filepath.Glob(filepath.Join(os.Getenv("VERIF_OUT"), "wal-*.json"))
				for _, m := range ms {
					b, _ := os.ReadFile(m)
					out := fmt.Sprintf("%s/slowcase-%d-%d.json", os.Getenv("VERIF_SLOW"), os.Getpid(), time.Now().UnixNano()%100000)
					os.WriteFile(out, b, 0o644)
					fmt.Printf("SLOWCASE %v %s\n", d, out)
				}
			}
		}()
	}
	defer func() {
		if r := recover(); r != nil && failure == "" {
			failure = fmt.Sprintf("bubble: %v", r)
		}
	}()
	synctest.Test(t, func(t *testing.T) {
		defer func() {
			if r := recover(); r != nil {
				failure = fmt.Sprintf("panic: %v\n%s", r, wTrimStack(debug.Stack()))
				wEmergencyStop()
			}
		}()
		fn()
	})
	return failure
}

var wCur *wWorld
var wCaseStart time.Time
var wLastElapsed time.Duration

// wEmergencyStop makes every goroutine that runs on timers exit, without waiting for anything.
func wEmergencyStop() {
	defer func() { recover() }()
	mem.SetLatency(nil)
	w := wCur
	if w != nil {
		if w.watchdog != nil {
			w.watchdog.Stop()
		}
		for _, ss := range w.sess {
			if ss == nil {
				continue
			}
			ss.mu.Lock()
			ss.closed = true
			ss.mu.Unlock()
			select {
			case ss.s.stop <- nil:
			default:
			}
		}
	}
	if h := globals.hub; h != nil {
		go func() {
			hd := make(chan bool, 1)
			select {
			case h.shutdown <- hd:
			case <-time.After(time.Second):
			}
		}()
	}
	select {
	case globals.usersUpdate <- nil:
	default:
	}
	time.Sleep(2 * time.Second)
	wLastElapsed = time.Since(wCaseStart) + time.Hour
	func() {
		defer func() { recover() }()
		store.Store.Close()
	}()
}

func wTrimStack(b []byte) string {
	s := string(b)
	if len(s) > 3000 {
		s = s[:3000]
	}
	return s
}

// wTouch refreshes a long-polling session's time of last use the way SessionStore.Get does on every
// poll: under the registry's lock (NewSession reads it there when it expires idle sessions).
func wTouch(s *Session, now time.Time) {
	st := globals.sessionStore
	st.lock.Lock()
	if s.proto == LPOLL && s.lpTracker != nil {
		if _, live := st.sessCache[s.sid]; live {
			st.lru.MoveToFront(s.lpTracker)
		}
	}
	s.lastTouched = now
	st.lock.Unlock()
}

// wClientPb renders a JSON request as the protobuf bytes a gRPC client would send (nil if it cannot).
func wClientPb(raw []byte) (out []byte) {
	defer func() {
		if recover() != nil {
			out = nil
		}
	}()
	var msg ClientComMessage
	if json.Unmarshal(raw, &msg) != nil {
		return nil
	}
	// (a protobuf ClientMsg holds one request: a JSON text with several is not expressible)
	kinds := 0
	for _, set := range []bool{msg.Hi != nil, msg.Acc != nil, msg.Login != nil, msg.Sub != nil, msg.Leave != nil, msg.Pub != nil, msg.Get != nil, msg.Set != nil, msg.Del != nil, msg.Note != nil} {
		if set {
			kinds++
		}
	}
	if kinds != 1 {
		return nil
	}
	pkt := pbCliSerialize(&msg)
	if pkt == nil {
		return nil
	}
	if pkt.Extra != nil && msg.Extra != nil {
		// a gRPC client fills extra.auth_level itself; pbCliSerialize (the server's own use: plugins,
		// cluster) takes it from the level the dispatcher has resolved, which is not set here
		pkt.Extra.AuthLevel = pbx.AuthLevel(pbx.AuthLevel_value[strings.ToUpper(msg.Extra.AuthLevel)])
	}
	b, err := proto.Marshal(pkt)
	if err != nil {
		return nil
	}
	return b
}
