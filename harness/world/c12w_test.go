package main

// C12 (running server) - what a login token yields at a live session: a token this server issued
// for (user, level, feature flags) authenticates the connection as exactly that user at exactly
// that level - unless it carries the restricted (no-login) flag, in which case the connection stays
// unauthenticated - and the token handed back by the {login} reply is issued for the same user,
// level and flags (plus "validated"); an altered, truncated or expired token is refused and leaves
// the connection unauthenticated. The pure units (harness/c12token) judge the authenticator alone;
// this one judges Session.login/onLogin on top of it.

import (
	"encoding/base64"
	"encoding/binary"
	"fmt"
	"testing"
	"time"

	"github.com/tinode/chat/server/auth"
	kit "github.com/tinode/chat/server/zzverifkit"
	"pgregory.net/rapid"
)

type c12wCase struct {
	U        int    `json:"u"`        // account
	Level    int    `json:"level"`    // level the token is issued for
	Features int    `json:"features"` // feature flags the token is issued with
	Mut      string `json:"mut"`      // "", "flip", "cut", "expired"
	Pos      int    `json:"pos"`      // bit to flip / bytes to keep
	Again    bool   `json:"again"`    // log in once more with the token handed back
	Grpc     bool   `json:"grpc"`
}

func c12wGen(rt *rapid.T) c12wCase {
	c := c12wCase{U: gInt(rt, 0, 3, "u"), Again: gPct(rt, 70), Grpc: gPct(rt, 20)}
	c.Level = gPick(rt, []int{int(auth.LevelAnon), int(auth.LevelAuth), int(auth.LevelAuth), int(auth.LevelRoot)}, "level")
	switch x := gInt(rt, 0, 99, "fk"); {
	case x < 30:
		c.Features = 0
	case x < 45:
		c.Features = int(auth.FeatureValidated)
	case x < 70:
		c.Features = int(auth.FeatureNoLogin)
	case x < 85:
		c.Features = int(auth.FeatureNoLogin | auth.FeatureValidated)
	default:
		c.Features = gBits(rt, 16, "fbits")
	}
	switch x := gInt(rt, 0, 99, "mk"); {
	case x < 60:
	case x < 75:
		c.Mut, c.Pos = "flip", gInt(rt, 0, 50*8-1, "bit")
	case x < 88:
		c.Mut, c.Pos = "cut", gInt(rt, 0, 49, "keep")
	default:
		c.Mut = "expired"
	}
	return c
}

func c12wParamsToken(c *MsgServerCtrl) []byte {
	if c == nil {
		return nil
	}
	m, _ := c.Params.(map[string]any)
	switch t := m["token"].(type) {
	case []byte:
		return t
	case string:
		b, _ := base64.StdEncoding.DecodeString(t)
		return b
	}
	return nil
}

func c12wExec(t *testing.T, r *kit.Run) func(c12wCase) kit.Outcome {
	return func(c c12wCase) kit.Outcome {
		r.WAL(c)
		o := kit.Outcome{NonTrivial: true}
		var viol *kit.Viol
		fail := wInBubble(t, func() {
			cfg := wConfig{Users: 4, NoPush: true}
			if c.Grpc {
				cfg.Grpc = []int{0}
			}
			w := wBoot(cfg)
			defer w.shutdown()
			ss := w.openSlot(0, -1) // handshake only
			lifetime := time.Hour
			if c.Mut == "expired" {
				lifetime = 3 * time.Second
			}
			tok, _, err := w.tokAuth.GenSecret(&auth.Rec{Uid: w.users[c.U].uid, AuthLevel: auth.Level(c.Level), Features: auth.Feature(c.Features), Lifetime: auth.Duration(lifetime)})
			if err != nil {
				panic(err)
			}
			presented := append([]byte(nil), tok...)
			switch c.Mut {
			case "flip":
				presented[c.Pos/8] ^= 1 << (c.Pos % 8)
			case "cut":
				presented = presented[:c.Pos]
			case "expired":
				w.tick(6 * time.Second)
			}
			valid := c.Mut == ""
			o.Classes = append(o.Classes, "mut:"+c.Mut)
			restricted := auth.Feature(c.Features)&auth.FeatureNoLogin != 0
			if restricted {
				o.Classes = append(o.Classes, "restricted")
			}
			login := func(secret []byte) *MsgServerCtrl {
				id := w.nextID()
				return wCtrl(w.do(ss, `{"login":{"id":"`+id+`","scheme":"token","secret":`+wJSON(secret)+`}}`), id)
			}
			served := func() bool {
				id := w.nextID()
				for _, f := range w.do(ss, `{"get":{"id":"`+id+`","topic":"me","what":"desc"}}`) {
					if f.Meta != nil && f.Meta.Id == id {
						return true
					}
				}
				return false
			}
			desc := fmt.Sprintf("token issued for user %d level %d features %#x, mutation %q", c.U, c.Level, c.Features, c.Mut)
			reply := login(presented)
			if reply == nil {
				viol = kit.V("login-unanswered", "%s: {login} got no reply", desc)
				return
			}
			ok := reply.Code >= 200 && reply.Code < 300
			wantAuth := valid && !restricted
			isAuth := !ss.s.uid.IsZero()
			switch {
			case !valid && (ok || isAuth):
				viol = kit.V("refusable-token-accepted:"+c.Mut, "%s: answered %d, connection authenticated as %q", desc, reply.Code, ss.s.uid.UserId())
			case valid && !ok:
				viol = kit.V("issued-token-refused", "%s: answered %d %s", desc, reply.Code, reply.Text)
			case isAuth != wantAuth:
				viol = kit.V(fmt.Sprintf("session-authenticated=%v:restricted=%v", isAuth, restricted), "%s: answered %d, connection authenticated as %q", desc, reply.Code, ss.s.uid.UserId())
			case isAuth && (ss.s.uid != w.users[c.U].uid || ss.s.authLvl != auth.Level(c.Level)):
				viol = kit.V("token-yields-other-identity", "%s: the connection is user %s at level %v", desc, ss.s.uid.UserId(), ss.s.authLvl)
			case served() != wantAuth:
				viol = kit.V(fmt.Sprintf("served=%v:restricted=%v", !wantAuth, restricted), "%s: {get me desc} after the login was served=%v", desc, !wantAuth)
			}
			if viol != nil || !valid {
				return
			}
			// the token handed back: same user, level and flags (plus "validated")
			back := c12wParamsToken(reply)
			if len(back) < 18 {
				viol = kit.V("no-token-handed-back", "%s: the reply carries no token: %s", desc, wJSON(reply))
				return
			}
			bu := binary.LittleEndian.Uint64(back[:8])
			bl := binary.LittleEndian.Uint16(back[12:14])
			bf := binary.LittleEndian.Uint16(back[16:18])
			if bu != uint64(w.users[c.U].uid) || int(bl) != c.Level || int(bf) != c.Features|int(auth.FeatureValidated) {
				viol = kit.V("handed-back-token-differs", "%s: the token handed back is for user %#x level %d features %#x", desc, bu, bl, bf)
				return
			}
			if !c.Again {
				return
			}
			o.Classes = append(o.Classes, "second-login")
			reply2 := login(back)
			isAuth2 := !ss.s.uid.IsZero()
			switch {
			case reply2 == nil:
				viol = kit.V("login-unanswered", "%s: second {login} got no reply", desc)
			case wantAuth && (reply2.Code < 400 || ss.s.uid != w.users[c.U].uid):
				viol = kit.V("second-login-accepted", "%s: a second login on the authenticated connection was answered %d (user now %s)", desc, reply2.Code, ss.s.uid.UserId())
			case !wantAuth && isAuth2:
				viol = kit.V("restricted-token-chain-authenticated", "%s: logging in with the token handed back for a restricted token authenticated the connection as %s (reply %d)", desc, ss.s.uid.UserId(), reply2.Code)
			case !wantAuth && served():
				viol = kit.V("restricted-token-chain-served", "%s: after two restricted logins {get me desc} was served", desc)
			}
		})
		if fail != "" && viol == nil {
			o.Skip = true
			fmt.Println("C12W bubble failure (not judged here):", firstLine(fail))
			return o
		}
		o.Viol = viol
		return o
	}
}

func TestC12WTokenSession(t *testing.T) {
	r := kit.Begin("C12", "TestC12WTokenSession")
	defer r.Flush()
	kit.CheckRun(t, r, c12wGen, c12wExec(t, r))
}
