package main

// C05 (notification path) — every {pres what=acs} carries a textual permission difference which,
// applied to the permissions the stored subscription had before the step, yields exactly the
// permissions it has after the step: a party tracking permissions from notifications ends up
// with what the authoritative topic holds.

import (
	"fmt"
	"sort"
	"strings"
	"testing"

	"github.com/tinode/chat/server/store/types"
	kit "github.com/tinode/chat/server/zzverifkit"
	mem "github.com/tinode/chat/server/zzverifmem"
	"pgregory.net/rapid"
)

func c05wGen(rt *rapid.T) wProg {
	p := c06Gen(rt)
	var pre []wOp
	for s := range p.Sess {
		if gPct(rt, 80) {
			pre = append(pre, wOp{K: "sub", S: s, T: "me"})
		}
	}
	// the prologue of c06Gen creates the group first: keep it first, then the 'me' attachments
	p.Ops = append(append([]wOp{p.Ops[0]}, pre...), p.Ops[1:]...)
	// a member narrows the requested mode below the granted one, and messages flow
	if gPct(rt, 40) {
		s := gInt(rt, 1, len(p.Sess)-1, "narrow")
		at := gInt(rt, 1, len(p.Ops), "at")
		ins := []wOp{{K: "sub", S: s, T: "g0"}, {K: "set", S: s, T: "g0", A: "mode", B: gPick(rt, []string{"JWP", "JP", "JW"}, "narrowed")},
			{K: "sub", S: 0, T: "g0"}, {K: "pub", S: 0, T: "g0"}, {K: "set", S: s, T: "g0", A: "mode", B: "JRWP"}, {K: "pub", S: 0, T: "g0"}}
		p.Ops = append(p.Ops[:at], append(ins, p.Ops[at:]...)...)
	}
	// an administrator whose grant was lowered below his unchanged request asks for the same mode again:
	// the self-grant raises 'given' only
	if gPct(rt, 30) {
		adm := gInt(rt, 1, 2, "adm")
		hs := -1
		for k := 1; k < len(p.Sess); k++ {
			if p.Sess[k] == adm {
				hs = k
				break
			}
		}
		if hs > 0 {
			at := gInt(rt, 1, len(p.Ops), "at3")
			ins := []wOp{{K: "sub", S: 0, T: "g0"}, {K: "set", S: 0, T: "g0", A: "given", U: adm, B: "JRWPAS"}, {K: "sub", S: hs, T: "g0", A: "JRWPAS"},
				{K: "set", S: 0, T: "g0", A: "given", U: adm, B: gPick(rt, []string{"JRWPA", "JRWA"}, "lowered")}, {K: "set", S: hs, T: "g0", A: "mode", B: "JRWPAS"}}
			p.Ops = append(p.Ops[:at], append(ins, p.Ops[at:]...)...)
		}
	}
	// a P2P topic with user 3 (nobody else talks to user 3) created with a default access whose auth part is empty, junk or valid
	if gPct(rt, 25) {
		creator := gInt(rt, 1, 2, "p2pcreator")
		for k := 1; k < len(p.Sess); k++ {
			if p.Sess[k] == creator {
				at := gInt(rt, 1, len(p.Ops), "at4")
				ins := []wOp{{K: "sub", S: k, T: "p3", H: map[string]any{"defacs": map[string]any{"auth": gPick(rt, []string{"", "", "JRWX", "J?", "JRWP", "N"}, "p2pauth"), "anon": gPick(rt, []string{"N", "", "JR"}, "p2panon")}}}}
				p.Ops = append(p.Ops[:at], append(ins, p.Ops[at:]...)...)
				break
			}
		}
	}
	// P2P: a participant unsubscribes and is invited back by the peer while the topic stays loaded: what
	// the invitation announces is the new subscription's modes, not a difference to a subscription which is gone
	if gPct(rt, 25) {
		a, b := -1, -1
		for k, u := range p.Sess {
			if u == 0 && a < 0 {
				a = k
			}
			if u == 1 && b < 0 {
				b = k
			}
		}
		if a >= 0 && b >= 0 {
			if gPct(rt, 50) {
				a, b = b, a
			}
			ta, tb := fmt.Sprintf("p%d", p.Sess[b]), fmt.Sprintf("p%d", p.Sess[a])
			at := gInt(rt, 1, len(p.Ops), "at5")
			ins := []wOp{{K: "sub", S: a, T: ta}, {K: "sub", S: b, T: tb, A: gPick(rt, []string{"", "JRWA", "JRWPA"}, "bwant")}, {K: "leave", S: b, T: tb, F: true},
				{K: "set", S: a, T: ta, A: "given", U: p.Sess[b], B: gPick(rt, []string{"", "JRWPA", "JRWA", "JRPA"}, "reinvite")}, {K: "sub", S: b, T: tb}, {K: "get", S: b, T: tb, A: "desc"}}
			p.Ops = append(p.Ops[:at], append(ins, p.Ops[at:]...)...)
		}
	}
	// a subscriber whose mode is not the default one asks for the description of a topic which is not loaded
	if gPct(rt, 30) {
		s := gInt(rt, 0, len(p.Sess)-1, "offdesc")
		var ins []wOp
		for k := range p.Sess {
			ins = append(ins, wOp{K: "leave", S: k, T: "g0"})
		}
		ins = append(ins, wOp{K: "tick", N: 5000}, wOp{K: "get", S: s, T: "g0", A: "desc"})
		if p.Sess[s] <= 1 {
			for k := range p.Sess {
				ins = append(ins, wOp{K: "leave", S: k, T: fmt.Sprintf("p%d", 1-min(p.Sess[k], 1))})
			}
			ins = append(ins, wOp{K: "tick", N: 5000}, wOp{K: "get", S: s, T: fmt.Sprintf("p%d", 1-p.Sess[s]), A: "desc"})
		}
		p.Ops = append(p.Ops, ins...)
	}
	// default access changed one side at a time: the side left out (or sent empty) stays as it was
	if gPct(rt, 45) {
		at := gInt(rt, 1, len(p.Ops), "at2")
		var ins []wOp
		for i, n := 0, gInt(rt, 1, 3, "ndef"); i < n; i++ {
			s := gInt(rt, 0, len(p.Sess)-1, "defs")
			t := gPick(rt, []string{"me", "me", "g0"}, "deft")
			if t == "g0" {
				s = 0
			}
			ins = append(ins, wOp{K: "sub", S: s, T: t}, wOp{K: "set", S: s, T: t, A: "defacs", B: gPick(rt, []string{"JRWPA", "JRWPAS", "JRW", "N", "JRWPS", "jrwp", "JXQ"}, "defval"),
				H: map[string]any{"side": gPick(rt, []string{"auth", "anon", "auth+empty", "anon+empty"}, "side")}},
				wOp{K: "get", S: s, T: t, A: "desc"})
		}
		p.Ops = append(p.Ops[:at], append(ins, p.Ops[at:]...)...)
	}
	return p
}

// c05wDefacs returns the stored default access of a 'me' (users row) or group (topics row) topic.
func c05wDefacs(st *mem.State, route string) (types.DefaultAccess, bool) {
	if strings.HasPrefix(route, "usr") {
		uid := types.ParseUserId(route)
		for _, u := range st.Users {
			if u.ID == uid {
				return u.Access, true
			}
		}
		return types.DefaultAccess{}, false
	}
	for _, tr := range st.Topics {
		if tr.Name == route {
			return tr.Access, true
		}
	}
	return types.DefaultAccess{}, false
}

func (o *c05wObs) Before(w *wWorld, op *wOp) {
	o.permObs.Before(w, op)
	o.preNames = map[int][]string{}
	for slot, ss := range w.sess {
		if ss != nil && !ss.isClosed() {
			o.preNames[slot] = ss.subNames()
		}
	}
}

type c05wObs struct {
	*permObs
	preNames map[int][]string // topics each session was attached to before the step
	judged, deltas, absolutes int
	known func(*kit.Viol) bool
}

type c05wKey struct {
	sess int
	row  subKey
}

func k2frames(m map[c05wKey][]*MsgServerPres, k c05wKey) []*MsgServerPres { return m[k] }

func c05wApply(old types.AccessMode, had bool, s string) (types.AccessMode, error) {
	if s == "" {
		if !had {
			return types.ModeNone, nil
		}
		return old, nil
	}
	if strings.ContainsAny(s, "+-") {
		m := old
		if !had {
			m = types.ModeNone
		}
		err := m.ApplyDelta(s)
		return m, err
	}
	m, err := types.ParseAcs([]byte(s))
	return m, err
}

func (o *c05wObs) After(w *wWorld, st *wStep) *kit.Viol {
	defer o.att.update(w, st)
	defer o.noteTaint(st)
	if st.Op.K == "par" || st.Op.K == "restart" || st.Crashed {
		return nil
	}
	post := mem.A.Snapshot()
	// Wherever the server spells out all three of want, given and mode, mode is their intersection.
	for sess, frames := range st.Frames {
		for _, f := range frames {
			var all []*MsgAccessMode
			switch {
			case f.Ctrl != nil:
				if m, ok := f.Ctrl.Params.(map[string]any); ok {
					if a, ok := m["acs"].(map[string]any); ok {
						w3, _ := a["want"].(string)
						g3, _ := a["given"].(string)
						m3, _ := a["mode"].(string)
						all = append(all, &MsgAccessMode{Want: w3, Given: g3, Mode: m3})
					}
				}
			case f.Meta != nil:
				if f.Meta.Desc != nil && f.Meta.Desc.Acs != nil {
					all = append(all, f.Meta.Desc.Acs)
				}
				for i := range f.Meta.Sub {
					if f.Meta.Sub[i].Acs.Mode != "" {
						all = append(all, &f.Meta.Sub[i].Acs)
					}
				}
			}
			for _, a := range all {
				if a.Want == "" || a.Given == "" || a.Mode == "" {
					continue
				}
				want, e1 := types.ParseAcs([]byte(a.Want))
				given, e2 := types.ParseAcs([]byte(a.Given))
				mode, e3 := types.ParseAcs([]byte(a.Mode))
				if e1 != nil || e2 != nil || e3 != nil {
					return kit.V("acs-text-unparsable", "session %d received %s: a permission set which does not parse", sess, wJSON(f))
				}
				o.features["acs-triple"] = true
				if mode&types.ModeBitmask != want&given&types.ModeBitmask {
					return kit.V("mode-not-intersection", "session %d received %s after %s: mode %q is not the intersection of want %q and given %q", sess, wJSON(f), st.Req, a.Mode, a.Want, a.Given)
				}
			}
		}
	}
	// A P2P topic created with set.desc.defacs whose auth part is empty or unparsable: "no change" /
	// "rejected and target unchanged" - the other participant is granted the initiator's own default, as without it.
	if dv, _ := st.Op.H["defacs"].(map[string]any); st.Op.K == "sub" && dv != nil && !st.Skipped && st.ok() && st.User >= 0 && strings.HasPrefix(st.Route, "p2p") {
		authText, _ := dv["auth"].(string)
		if _, err := types.ParseAcs([]byte(authText)); authText == "" || err != nil {
			self := w.users[st.User].uid
			peerHad := false
			for _, r := range o.pre.Subs {
				if r.Topic == st.Route && r.User != self {
					peerHad = true
				}
			}
			var dflt types.AccessMode
			for _, u := range o.pre.Users {
				if u.ID == self {
					dflt = u.Access.Auth
				}
			}
			for _, r := range post.Subs {
				if r.Topic == st.Route && r.User != self && !peerHad && r.DeletedAt == nil {
					wantGiven := dflt&types.ModeCP2P | types.ModeApprove
					o.features["p2p-defacs-no-change"] = true
					if r.ModeGiven != wantGiven {
						return kit.V("defacs-empty-or-invalid-changed-grant", "%s created the P2P topic with defacs.auth=%q (empty or unparsable: no change): the other participant was granted %v, the initiator's default gives %v", st.Req, authText, r.ModeGiven, wantGiven)
					}
				}
			}
		}
	}
	if side, _ := st.Op.H["side"].(string); st.Op.K == "set" && st.Op.A == "defacs" && side != "" && !st.Skipped {
		before, ok1 := c05wDefacs(o.pre, st.Route)
		after, ok2 := c05wDefacs(post, st.Route)
		if ok1 && ok2 {
			named, other, otherWas, otherIs := "auth", "anon", before.Anon, after.Anon
			if strings.HasPrefix(side, "anon") {
				named, other, otherWas, otherIs = "anon", "auth", before.Auth, after.Auth
			}
			if otherWas != otherIs {
				return kit.V("defacs-empty-side-changed", "%s (answered %d) names only the %s default: the %s default of %s changed from %v to %v although an empty string means no change", st.Req, st.code(), named, other, st.Route, otherWas, otherIs)
			}
			if !st.ok() && before != after {
				return kit.V("refused-defacs-changed", "%s was answered %d and changed the default access of %s from %v/%v to %v/%v", st.Req, st.code(), st.Route, before.Auth, before.Anon, after.Auth, after.Anon)
			}
			o.features["defacs-one-side"] = true
		}
	}
	pre, now := subRows(o.pre), subRows(post)
	// A user's own accepted change of an existing subscription is announced to the user's other
	// sessions which sit on 'me' only (Topic.notifySubChange): without it they keep the old permissions.
	if (st.Op.K == "set" && st.Op.A == "mode" || st.Op.K == "sub" && st.Op.A != "") && !st.Skipped && st.ok() && st.Op.Obo == 0 && st.User >= 0 &&
		(strings.HasPrefix(st.Route, "grp") || strings.HasPrefix(st.Route, "p2p")) && !strings.HasPrefix(st.Name, "chn") && !o.tainted[st.Route] {
		self := w.users[st.User].uid
		a, hadA := pre[subKey{st.Route, self}]
		b, hasB := now[subKey{st.Route, self}]
		agree := true
		if _, attached := o.preAtt[st.Sess][st.Route]; !attached && st.Op.K == "set" {
			agree = false // served by the store path behind the loaded topic's back (listed C08 finding), announced differently
		} else if lt := o.preLive[st.Route]; lt != nil {
			pud, ok := lt.PerUser[self]
			agree = agree && ok && !pud.deleted && !pud.isChan && pud.modeWant == a.want && pud.modeGiven == a.given
		} else {
			agree = false // the topic is loaded by this request: what it announces on loading is another matter
		}
		if hadA && hasB && !a.deleted && !b.deleted && agree && (a.want != b.want || a.given != b.given) &&
			(a.want & a.given).IsPresencer() && (b.want & b.given).IsJoiner() {
			meRoute := self.UserId()
			for x, ss := range w.sess {
				if x == st.Sess || ss == nil || ss.isClosed() || ss.user != st.User {
					continue
				}
				if _, on := o.preAtt[x][meRoute]; !on || ss.s.getSub(meRoute) == nil {
					continue
				}
				if _, onTopic := o.preAtt[x][st.Route]; onTopic || ss.s.getSub(st.Route) != nil {
					continue
				}
				told := false
				for _, f := range st.Frames[x] {
					if f.Pres != nil && f.Pres.What == "acs" && f.Pres.Topic == "me" && w.routeOfName(f.Pres.Src, st.User) == st.Route {
						told = true
					}
				}
				if !told {
					return kit.V("own-permission-change-not-announced", "user %d changed the own subscription on %s from %v/%v to %v/%v with %s (answered %d); the user's session %d, attached to 'me' only, was sent no {pres what=acs} and keeps the old permissions",
						st.User, st.Route, a.want, a.given, b.want, b.given, st.Req, st.code(), x)
				}
				o.features["own-change-announced"] = true
			}
		}
	}
	acc := map[c05wKey][]*MsgServerPres{}
	var order []c05wKey
	sessions := make([]int, 0, len(st.Frames))
	for s := range st.Frames {
		sessions = append(sessions, s)
	}
	sort.Ints(sessions)
	for _, sess := range sessions {
		if sess >= len(w.sess) || w.sess[sess] == nil || w.sess[sess].user < 0 {
			continue
		}
		u := w.sess[sess].user
		self := w.users[u].uid
		if st.Op.K == "pub" && !st.Skipped && st.code() == 202 && w.users[u].level < 30 && !o.tainted[st.Route] {
			// behaviour follows want AND given, never one of them alone
			for _, f := range st.Frames[sess] {
				if f.Data == nil || f.Data.Content != st.Token {
					continue
				}
				row := st.Route
				if at, ok := o.preAtt[sess][st.Route]; ok && at.Chan {
					continue
				}
				if a, ok := pre[subKey{row, self}]; ok && !a.deleted && !(a.want & a.given).IsReader() && (a.want.IsReader() || a.given.IsReader()) {
					if b, ok := now[subKey{row, self}]; ok && b == a {
						return kit.V("acted-on-one-side-of-the-mode", "session %d of user %d received the copy of %s on %s although want/given are %v/%v: the effective permission is their intersection", sess, u, st.Token, row, a.want, a.given)
					}
				}
			}
		}
		for _, f := range st.Frames[sess] {
			p := f.Pres
			if p == nil || p.What != "acs" {
				continue
			}
			if p.Acs == nil {
				// a permission-change notice which carries no difference: the recipient changes nothing
				p = &MsgServerPres{Topic: p.Topic, Src: p.Src, What: p.What, AcsTarget: p.AcsTarget, AcsActor: p.AcsActor, Acs: &MsgAccessMode{}}
			}
			var route string
			target := self
			if p.Topic == "me" || p.Topic == "fnd" {
				// a root session attached to somebody else's 'me' / 'fnd' is told about that user's subscriptions
				foreign := false
				for _, r := range append(w.sess[sess].subNames(), o.preNames[sess]...) {
					if (strings.HasPrefix(r, "usr") && r != self.UserId()) || (strings.HasPrefix(r, "fnd") && r != self.FndName()) {
						foreign = true
					}
				}
				if foreign || st.Op.Obo > 0 && (st.Op.T == "me" || st.Op.T == "fnd") {
					continue
				}
			}
			if p.Topic == "me" {
				route = w.routeOfName(p.Src, u)
				if p.AcsTarget != "" {
					target = types.ParseUserId(p.AcsTarget)
				}
			} else {
				route = w.routeOfName(p.Topic, u)
				if strings.HasPrefix(p.Src, "usr") {
					target = types.ParseUserId(p.Src)
				} else if p.AcsTarget != "" {
					target = types.ParseUserId(p.AcsTarget)
				}
			}
			if route == "" || target.IsZero() || o.tainted[chnToGrpOr(route)] {
				continue
			}
			row := subKey{route, target}
			k := c05wKey{sess, row}
			if _, seen := acc[k]; !seen {
				order = append(order, k)
			}
			acc[k] = append(acc[k], p)
		}
	}
	for _, k := range order {
		row, route, target := k.row, k.row.topic, k.row.user
		a, hadA := pre[row]
		b, hasB := now[row]
		if hadA && a.deleted {
			hadA = false
		}
		w1, g1 := types.ModeNone, types.ModeNone
		if hasB && !b.deleted {
			w1, g1 = b.want, b.given
		}
		// cache and store must agree on the old values, otherwise the delta is relative to something else (C08)
		if lt := o.preLive[chnToGrpOr(route)]; lt != nil {
			if pud, ok := lt.PerUser[target]; ok && !pud.deleted && hadA && (pud.modeWant != a.want || pud.modeGiven != a.given) {
				continue
			}
		}
		// the recipient applies the differences of this step one after another
		curW, curG, have := a.want, a.given, hadA
		var texts []string
		blind := false // a +/- difference applied while the recipient holds nothing
		for _, p := range k2frames(acc, k) {
			texts = append(texts, p.Acs.Want+"/"+p.Acs.Given)
			if !have && strings.ContainsAny(p.Acs.Want+p.Acs.Given, "+-") {
				blind = true
			}
			nw, errW := c05wApply(curW, have, p.Acs.Want)
			ng, errG := c05wApply(curG, have, p.Acs.Given)
			if errW != nil || errG != nil {
				return kit.V("acs-delta-unparsable", "{pres acs dacs=%s/%s} at session %d about user %d on %s: %v %v", p.Acs.Want, p.Acs.Given, k.sess, w.userIdx(target), route, errW, errG)
			}
			curW, curG, have = nw, ng, true
			if strings.ContainsAny(p.Acs.Want+p.Acs.Given, "+-") {
				o.deltas++
			} else {
				o.absolutes++
			}
		}
		o.judged++
		if curW&types.ModeBitmask != w1&types.ModeBitmask || curG&types.ModeBitmask != g1&types.ModeBitmask {
			desc := fmt.Sprintf("session %d was sent dacs %v about user %d on %s during %s: the subscription was %v/%v (present=%v) and is %v/%v, the differences applied in order give %v/%v",
				k.sess, texts, w.userIdx(target), route, st.Op.K, a.want, a.given, hadA, w1, g1, curW, curG)
			sig := "acs-differences-do-not-add-up"
			if blind {
				sig = "delta-for-unannounced-subscription:" + route[:3] + ":" + st.Op.K
			}
			v := kit.V(sig, "%s", desc)
			if o.known != nil && o.known(v) {
				continue
			}
			return v
		}
	}
	return nil
}

func c05wExec(t *testing.T, r *kit.Run) func(wProg) kit.Outcome {
	return func(p wProg) kit.Outcome {
		r.WAL(p)
		obs := &c05wObs{permObs: newPermObs()}
		obs.known = func(v *kit.Viol) bool { return r.IsKnown(v.Sig) && r.Violation(v, p) }
		var res wRunResult
		fail := wInBubble(t, func() { res = wExec(&p, obs, nil) })
		o := kit.Outcome{NonTrivial: obs.deltas >= 2 && obs.absolutes >= 1}
		if obs.deltas > 0 {
			o.Classes = append(o.Classes, "delta-form")
		}
		if obs.absolutes > 0 {
			o.Classes = append(o.Classes, "absolute-form")
		}
		if len(obs.tainted) > 0 {
			o.Classes = append(o.Classes, "offline-set(not judged)")
		}
		if fail != "" && res.Viol == nil {
			o.Skip = true
			fmt.Println("C05 bubble failure (not judged here):", firstLine(fail))
			return o
		}
		o.Viol = res.Viol
		return o
	}
}

func TestC05AcsNotifications(t *testing.T) {
	r := kit.Begin("C05", "TestC05AcsNotifications")
	defer r.Flush()
	kit.CheckRun(t, r, c05wGen, c05wExec(t, r))
}
