package main

// C05 (notification path) — every {pres what=acs} carries a textual permission difference which,
// applied to the permissions the stored subscription had before the step, yields exactly the
// permissions it has after the step: a party tracking permissions from notifications ends up
// with what the authoritative topic holds.

import (
	"fmt"
	"sort"
	"strings"
	"testing"

	"github.com/tinode/chat/server/store/types"
	kit "github.com/tinode/chat/server/zzverifkit"
	mem "github.com/tinode/chat/server/zzverifmem"
	"pgregory.net/rapid"
)

func c05wGen(rt *rapid.T) wProg {
	p := c06Gen(rt)
	var pre []wOp
	for s := range p.Sess {
		if gPct(rt, 80) {
			pre = append(pre, wOp{K: "sub", S: s, T: "me"})
		}
	}
	// the prologue of c06Gen creates the group first: keep it first, then the 'me' attachments
	p.Ops = append(append([]wOp{p.Ops[0]}, pre...), p.Ops[1:]...)
	// a member narrows the requested mode below the granted one, and messages flow
	if gPct(rt, 40) {
		s := gInt(rt, 1, len(p.Sess)-1, "narrow")
		at := gInt(rt, 1, len(p.Ops), "at")
		ins := []wOp{{K: "sub", S: s, T: "g0"}, {K: "set", S: s, T: "g0", A: "mode", B: gPick(rt, []string{"JWP", "JP", "JW"}, "narrowed")},
			{K: "sub", S: 0, T: "g0"}, {K: "pub", S: 0, T: "g0"}, {K: "set", S: s, T: "g0", A: "mode", B: "JRWP"}, {K: "pub", S: 0, T: "g0"}}
		p.Ops = append(p.Ops[:at], append(ins, p.Ops[at:]...)...)
	}
	return p
}

type c05wObs struct {
	*permObs
	judged, deltas, absolutes int
	known func(*kit.Viol) bool
}

type c05wKey struct {
	sess int
	row  subKey
}

func k2frames(m map[c05wKey][]*MsgServerPres, k c05wKey) []*MsgServerPres { return m[k] }

func c05wApply(old types.AccessMode, had bool, s string) (types.AccessMode, error) {
	if s == "" {
		if !had {
			return types.ModeNone, nil
		}
		return old, nil
	}
	if strings.ContainsAny(s, "+-") {
		m := old
		if !had {
			m = types.ModeNone
		}
		err := m.ApplyDelta(s)
		return m, err
	}
	m, err := types.ParseAcs([]byte(s))
	return m, err
}

func (o *c05wObs) After(w *wWorld, st *wStep) *kit.Viol {
	defer o.att.update(w, st)
	defer o.noteTaint(st)
	if st.Op.K == "par" || st.Op.K == "restart" || st.Crashed {
		return nil
	}
	post := mem.A.Snapshot()
	pre, now := subRows(o.pre), subRows(post)
	acc := map[c05wKey][]*MsgServerPres{}
	var order []c05wKey
	sessions := make([]int, 0, len(st.Frames))
	for s := range st.Frames {
		sessions = append(sessions, s)
	}
	sort.Ints(sessions)
	for _, sess := range sessions {
		if sess >= len(w.sess) || w.sess[sess] == nil || w.sess[sess].user < 0 {
			continue
		}
		u := w.sess[sess].user
		self := w.users[u].uid
		if st.Op.K == "pub" && !st.Skipped && st.code() == 202 && w.users[u].level < 30 && !o.tainted[st.Route] {
			// behaviour follows want AND given, never one of them alone
			for _, f := range st.Frames[sess] {
				if f.Data == nil || f.Data.Content != st.Token {
					continue
				}
				row := st.Route
				if at, ok := o.preAtt[sess][st.Route]; ok && at.Chan {
					continue
				}
				if a, ok := pre[subKey{row, self}]; ok && !a.deleted && !(a.want & a.given).IsReader() && (a.want.IsReader() || a.given.IsReader()) {
					if b, ok := now[subKey{row, self}]; ok && b == a {
						return kit.V("acted-on-one-side-of-the-mode", "session %d of user %d received the copy of %s on %s although want/given are %v/%v: the effective permission is their intersection", sess, u, st.Token, row, a.want, a.given)
					}
				}
			}
		}
		for _, f := range st.Frames[sess] {
			p := f.Pres
			if p == nil || p.What != "acs" {
				continue
			}
			if p.Acs == nil {
				// a permission-change notice which carries no difference: the recipient changes nothing
				p = &MsgServerPres{Topic: p.Topic, Src: p.Src, What: p.What, AcsTarget: p.AcsTarget, AcsActor: p.AcsActor, Acs: &MsgAccessMode{}}
			}
			var route string
			target := self
			if p.Topic == "me" {
				route = w.routeOfName(p.Src, u)
				if p.AcsTarget != "" {
					target = types.ParseUserId(p.AcsTarget)
				}
			} else {
				route = w.routeOfName(p.Topic, u)
				if strings.HasPrefix(p.Src, "usr") {
					target = types.ParseUserId(p.Src)
				} else if p.AcsTarget != "" {
					target = types.ParseUserId(p.AcsTarget)
				}
			}
			if route == "" || target.IsZero() || o.tainted[chnToGrpOr(route)] {
				continue
			}
			row := subKey{route, target}
			k := c05wKey{sess, row}
			if _, seen := acc[k]; !seen {
				order = append(order, k)
			}
			acc[k] = append(acc[k], p)
		}
	}
	for _, k := range order {
		row, route, target := k.row, k.row.topic, k.row.user
		a, hadA := pre[row]
		b, hasB := now[row]
		if hadA && a.deleted {
			hadA = false
		}
		w1, g1 := types.ModeNone, types.ModeNone
		if hasB && !b.deleted {
			w1, g1 = b.want, b.given
		}
		// cache and store must agree on the old values, otherwise the delta is relative to something else (C08)
		if lt := o.preLive[chnToGrpOr(route)]; lt != nil {
			if pud, ok := lt.PerUser[target]; ok && !pud.deleted && hadA && (pud.modeWant != a.want || pud.modeGiven != a.given) {
				continue
			}
		}
		// the recipient applies the differences of this step one after another
		curW, curG, have := a.want, a.given, hadA
		var texts []string
		blind := false // a +/- difference applied while the recipient holds nothing
		for _, p := range k2frames(acc, k) {
			texts = append(texts, p.Acs.Want+"/"+p.Acs.Given)
			if !have && strings.ContainsAny(p.Acs.Want+p.Acs.Given, "+-") {
				blind = true
			}
			nw, errW := c05wApply(curW, have, p.Acs.Want)
			ng, errG := c05wApply(curG, have, p.Acs.Given)
			if errW != nil || errG != nil {
				return kit.V("acs-delta-unparsable", "{pres acs dacs=%s/%s} at session %d about user %d on %s: %v %v", p.Acs.Want, p.Acs.Given, k.sess, w.userIdx(target), route, errW, errG)
			}
			curW, curG, have = nw, ng, true
			if strings.ContainsAny(p.Acs.Want+p.Acs.Given, "+-") {
				o.deltas++
			} else {
				o.absolutes++
			}
		}
		o.judged++
		if curW&types.ModeBitmask != w1&types.ModeBitmask || curG&types.ModeBitmask != g1&types.ModeBitmask {
			desc := fmt.Sprintf("session %d was sent dacs %v about user %d on %s during %s: the subscription was %v/%v (present=%v) and is %v/%v, the differences applied in order give %v/%v",
				k.sess, texts, w.userIdx(target), route, st.Op.K, a.want, a.given, hadA, w1, g1, curW, curG)
			sig := "acs-differences-do-not-add-up"
			if blind {
				sig = "delta-for-unannounced-subscription:" + route[:3]
			}
			v := kit.V(sig, "%s", desc)
			if o.known != nil && o.known(v) {
				continue
			}
			return v
		}
	}
	return nil
}

func c05wExec(t *testing.T, r *kit.Run) func(wProg) kit.Outcome {
	return func(p wProg) kit.Outcome {
		r.WAL(p)
		obs := &c05wObs{permObs: newPermObs()}
		obs.known = func(v *kit.Viol) bool { return r.IsKnown(v.Sig) && r.Violation(v, p) }
		var res wRunResult
		fail := wInBubble(t, func() { res = wExec(&p, obs, nil) })
		o := kit.Outcome{NonTrivial: obs.deltas >= 2 && obs.absolutes >= 1}
		if obs.deltas > 0 {
			o.Classes = append(o.Classes, "delta-form")
		}
		if obs.absolutes > 0 {
			o.Classes = append(o.Classes, "absolute-form")
		}
		if len(obs.tainted) > 0 {
			o.Classes = append(o.Classes, "offline-set(not judged)")
		}
		if fail != "" {
			o.Skip = true
			fmt.Println("C05 bubble failure (not judged here):", firstLine(fail))
			return o
		}
		o.Viol = res.Viol
		return o
	}
}

func TestC05AcsNotifications(t *testing.T) {
	r := kit.Begin("C05", "TestC05AcsNotifications")
	defer r.Flush()
	kit.CheckRun(t, r, c05wGen, c05wExec(t, r))
}
