package main

// wAttach: the harness's own model of which session is attached to which topic, built only
// from what the wire showed (2xx replies to sub/leave, eviction notices, disconnects).

import (
	"strings"

	"github.com/tinode/chat/server/store/types"
	mem "github.com/tinode/chat/server/zzverifmem"
)

type wAtt struct {
	User int  // user the session is attached on behalf of
	Chan bool // attached as a channel reader (chnXXX)
	Name string // topic name as the session addresses it
}

type wAttach struct {
	att map[int]map[string]wAtt // session slot -> route -> attachment
}

func newWAttach() *wAttach { return &wAttach{att: map[int]map[string]wAtt{}} }

func (a *wAttach) get(sess int, route string) (wAtt, bool) {
	x, ok := a.att[sess][route]
	return x, ok
}

func (a *wAttach) drop(sess int, route string) {
	delete(a.att[sess], route)
}

func (a *wAttach) dropSession(sess int) { delete(a.att, sess) }

func (a *wAttach) dropRoute(route string) {
	for _, m := range a.att {
		delete(m, route)
	}
}

func (a *wAttach) sessionsOn(route string) []int {
	var out []int
	for s, m := range a.att {
		if _, ok := m[route]; ok {
			out = append(out, s)
		}
	}
	return out
}

// routeOfName maps a topic name as user u sees it to the routable name.
func (w *wWorld) routeOfName(name string, u int) string {
	switch {
	case name == "me" && u >= 0:
		return w.users[u].uid.UserId()
	case name == "fnd" && u >= 0:
		return w.users[u].uid.FndName()
	case strings.HasPrefix(name, "usr") && u >= 0:
		return w.users[u].uid.P2PName(types.ParseUserId(name))
	case strings.HasPrefix(name, "chn"):
		return types.ChnToGrp(name)
	}
	return name
}

func wAcsMode(c *MsgServerCtrl) (string, bool) {
	if c == nil {
		return "", false
	}
	m, ok := c.Params.(map[string]any)
	if !ok {
		return "", false
	}
	acs, ok := m["acs"].(map[string]any)
	if !ok {
		return "", false
	}
	mode, ok := acs["mode"].(string)
	return mode, ok
}

// update digests one executed step.
// syncPaused: a connection which has stopped reading is dropped by a topic once its queue is full (it
// cannot be told); the model learns it from the topic's own list of sessions.
func (a *wAttach) syncPaused(w *wWorld) {
	for sess, m := range a.att {
		if sess < 0 || sess >= len(w.sess) || w.sess[sess] == nil || !w.sess[sess].pause.Load() {
			continue
		}
		live := w.liveTopics()
		for route := range m {
			lt := live[route]
			if lt == nil {
				delete(m, route) // (a topic with a session attached is never unloaded)
				continue
			}
			if _, listed := lt.Sessions[w.sess[sess].s.sid]; !listed {
				delete(m, route)
			}
		}
	}
}

func (a *wAttach) update(w *wWorld, st *wStep) {
	a.syncPaused(w)
	steps := []*wStep{st}
	if st.Op.K == "par" {
		steps = st.Sub
	}
	switch st.Op.K {
	case "restart":
		a.att = map[int]map[string]wAtt{}
		return
	case "disc", "reconn":
		a.dropSession(st.Op.S)
		return
	}
	if st.Crashed {
		a.att = map[int]map[string]wAtt{}
		return
	}
	if st.Op.K == "reload" && !st.Skipped {
		// every attached session left and subscribed again: it stays attached iff the second {sub}
		// succeeded and the user's stored effective mode still includes J
		snap := mem.A.Snapshot()
		for _, sess := range a.sessionsOn(st.Route) {
			at := a.att[sess][st.Route]
			row := st.Route
			if at.Chan {
				row = types.GrpToChn(st.Route)
			}
			var last *MsgServerCtrl
			for _, f := range st.Frames[sess] {
				if f.Ctrl != nil && f.Ctrl.Id != "" {
					last = f.Ctrl
				}
			}
			if last == nil {
				continue // this session took no part in the reload
			}
			m, live := effective(snap, row, w.users[at.User].uid)
			if last.Code >= 400 || !live || !m.IsJoiner() {
				a.drop(sess, st.Route)
			}
		}
	}
	for _, d := range st.Died {
		a.dropSession(d)
	}
	for _, s := range steps {
		if s.Skipped {
			continue
		}
		c := wCtrl(st.Frames[s.Sess], s.ReqID)
		ok := c != nil && c.Code >= 200 && c.Code < 300
		switch s.Op.K {
		case "sub":
			if !ok {
				continue
			}
			route := s.Route
			name := s.Name
			if s.NewGrp >= 0 {
				route = w.groups[s.NewGrp]
				name = route
			}
			if mode, has := wAcsMode(c); has && !strings.ContainsAny(mode, "Jj") {
				// Subscribed without the J permission: not attached.
				continue
			}
			isChan := strings.HasPrefix(name, "chn")
			if s.User >= 0 && s.Route != "sys" {
				snap := mem.A.Snapshot()
				if !isChan && strings.HasPrefix(route, "grp") {
					// A user whose only subscription is a channel reader's one stays a channel reader
					// whichever spelling the session used to attach.
					_, full := effective(snap, route, w.users[s.User].uid)
					_, rdr := effective(snap, types.GrpToChn(route), w.users[s.User].uid)
					isChan = !full && rdr
				}
				// A 2xx reply that reports no mode change: the session is attached iff the user's stored
				// effective mode includes J (a self-banned user repeating {sub} is acknowledged, not attached).
				row := route
				if isChan {
					row = types.GrpToChn(route)
				}
				if m, ok := effective(snap, row, w.users[s.User].uid); ok && !m.IsJoiner() {
					continue
				}
			}
			if a.att[s.Sess] == nil {
				a.att[s.Sess] = map[string]wAtt{}
			}
			if _, already := a.att[s.Sess][route]; !already {
				a.att[s.Sess][route] = wAtt{User: s.User, Chan: isChan, Name: name}
			}
		case "leave":
			// (304 "not joined": the server says the session is not attached - whatever the model made of
			// an earlier reply on a route where cache and store disagreed)
			if at, has := a.att[s.Sess][s.Route]; ok || (c != nil && c.Code == 304 && has && at.User == s.User) {
				a.drop(s.Sess, s.Route)
			}
		case "del":
			if ok && s.Op.A == "topic" {
				a.dropRoute(s.Route)
			}
		}
	}
	// Eviction / termination notices seen by any session.
	for sess, frames := range st.Frames {
		if sess >= len(w.sess) || w.sess[sess] == nil {
			continue
		}
		for _, f := range frames {
			if f.Ctrl != nil && f.Ctrl.Code == 205 && f.Ctrl.Topic != "" {
				for route, at := range a.att[sess] {
					if w.routeOfName(f.Ctrl.Topic, at.User) == route || f.Ctrl.Topic == at.Name {
						a.drop(sess, route)
					}
				}
			}
			if f.Pres != nil && f.Pres.What == "gone" {
				// topic deleted or subscription removed: sessions attached to it are detached
				// The notice arrives on some 'me' topic the session is attached to (its own, or another
				// user's when a root session attached on behalf of that user): it concerns the attachment
				// only if that attachment's user has really lost the subscription.
				snap := mem.A.Snapshot()
				for route, at := range a.att[sess] {
					if f.Pres.Topic == "me" && (w.routeOfName(f.Pres.Src, at.User) == route) {
						row := route
						if at.Chan {
							row = types.GrpToChn(route)
						}
						if _, live := effective(snap, row, w.users[at.User].uid); !live {
							a.drop(sess, route)
						}
					}
				}
			}
		}
	}
}
