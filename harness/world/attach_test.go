package main

// wAttach: the harness's own model of which session is attached to which topic, built only
// from what the wire showed (2xx replies to sub/leave, eviction notices, disconnects).

import (
	"strings"

	"github.com/tinode/chat/server/store/types"
	mem "github.com/tinode/chat/server/zzverifmem"
)

type wAtt struct {
	User int  // user the session is attached on behalf of
	Chan bool // attached as a channel reader (chnXXX)
	Name string // topic name as the session addresses it
}

type wAttach struct {
	att map[int]map[string]wAtt // session slot -> route -> attachment
}

func newWAttach() *wAttach { return &wAttach{att: map[int]map[string]wAtt{}} }

func (a *wAttach) get(sess int, route string) (wAtt, bool) {
	x, ok := a.att[sess][route]
	return x, ok
}

func (a *wAttach) drop(sess int, route string) {
	delete(a.att[sess], route)
}

func (a *wAttach) dropSession(sess int) { delete(a.att, sess) }

func (a *wAttach) dropRoute(route string) {
	for _, m := range a.att {
		delete(m, route)
	}
}

func (a *wAttach) sessionsOn(route string) []int {
	var out []int
	for s, m := range a.att {
		if _, ok := m[route]; ok {
			out = append(out, s)
		}
	}
	return out
}

// routeOfName maps a topic name as user u sees it to the routable name.
func (w *wWorld) routeOfName(name string, u int) string {
	switch {
	case name == "me" && u >= 0:
		return w.users[u].uid.UserId()
	case name == "fnd" && u >= 0:
		return w.users[u].uid.FndName()
	case strings.HasPrefix(name, "usr") && u >= 0:
		return w.users[u].uid.P2PName(types.ParseUserId(name))
	case strings.HasPrefix(name, "chn"):
		return types.ChnToGrp(name)
	}
	return name
}

func wAcsMode(c *MsgServerCtrl) (string, bool) {
	if c == nil {
		return "", false
	}
	m, ok := c.Params.(map[string]any)
	if !ok {
		return "", false
	}
	acs, ok := m["acs"].(map[string]any)
	if !ok {
		return "", false
	}
	mode, ok := acs["mode"].(string)
	return mode, ok
}

// update digests one executed step.
func (a *wAttach) update(w *wWorld, st *wStep) {
	steps := []*wStep{st}
	if st.Op.K == "par" {
		steps = st.Sub
	}
	switch st.Op.K {
	case "restart":
		a.att = map[int]map[string]wAtt{}
		return
	case "disc", "reconn":
		a.dropSession(st.Op.S)
		return
	}
	if st.Crashed {
		a.att = map[int]map[string]wAtt{}
		return
	}
	for _, d := range st.Died {
		a.dropSession(d)
	}
	for _, s := range steps {
		if s.Skipped {
			continue
		}
		c := wCtrl(st.Frames[s.Sess], s.ReqID)
		ok := c != nil && c.Code >= 200 && c.Code < 300
		switch s.Op.K {
		case "sub":
			if !ok {
				continue
			}
			route := s.Route
			name := s.Name
			if s.NewGrp >= 0 {
				route = w.groups[s.NewGrp]
				name = route
			}
			if mode, has := wAcsMode(c); has && !strings.ContainsAny(mode, "Jj") {
				// Subscribed without the J permission: not attached.
				continue
			}
			if s.User >= 0 && s.Route != "sys" {
				// A 2xx reply that reports no mode change: the session is attached iff the user's stored
				// effective mode includes J (a self-banned user repeating {sub} is acknowledged, not attached).
				row := route
				if strings.HasPrefix(name, "chn") {
					row = name
				}
				if m, ok := effective(mem.A.Snapshot(), row, w.users[s.User].uid); ok && !m.IsJoiner() {
					continue
				}
			}
			if a.att[s.Sess] == nil {
				a.att[s.Sess] = map[string]wAtt{}
			}
			if _, already := a.att[s.Sess][route]; !already {
				a.att[s.Sess][route] = wAtt{User: s.User, Chan: strings.HasPrefix(name, "chn"), Name: name}
			}
		case "leave":
			if ok {
				a.drop(s.Sess, s.Route)
			}
		case "del":
			if ok && s.Op.A == "topic" {
				a.dropRoute(s.Route)
			}
		}
	}
	// Eviction / termination notices seen by any session.
	for sess, frames := range st.Frames {
		if sess >= len(w.sess) || w.sess[sess] == nil {
			continue
		}
		for _, f := range frames {
			if f.Ctrl != nil && f.Ctrl.Code == 205 && f.Ctrl.Topic != "" {
				for route, at := range a.att[sess] {
					if w.routeOfName(f.Ctrl.Topic, at.User) == route || f.Ctrl.Topic == at.Name {
						a.drop(sess, route)
					}
				}
			}
			if f.Pres != nil && f.Pres.What == "gone" {
				// topic deleted or subscription removed: sessions attached to it are detached
				for route, at := range a.att[sess] {
					if f.Pres.Topic == "me" && (w.routeOfName(f.Pres.Src, at.User) == route) {
						a.drop(sess, route)
					}
				}
			}
		}
	}
}
