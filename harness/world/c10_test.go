package main

// C10 — presence converges to the truth and never leaks.
//
// Three oracles over one generated history of attach/detach/disconnect, muting, invitations,
// evictions, publishes and virtual-time ticks:
//   (1) entitlement: every {pres} (and {info} forwarded on 'me') frame that reaches a session is
//       checked against the stored subscription of the recipient: strangers, removed and banned
//       users get nothing; on/off/msg/read/recv/upd/del/ua need P (acs/gone/term do not);
//   (2) counters: after every step, in every loaded topic the cached online counter of each user
//       equals the number of that user's attached foreground sessions (never negative);
//   (3) convergence: after the history the clock runs until idle topics are unloaded; then what
//       each attached 'me' session was last told about each P2P partner / group (by {pres on|off}
//       or by the online flag of {meta sub}) must equal the truth, and so must the contact table.

import (
	"fmt"
	"os"
	"sort"
	"strings"
	"testing"
	"time"

	"github.com/tinode/chat/server/store/types"
	kit "github.com/tinode/chat/server/zzverifkit"
	mem "github.com/tinode/chat/server/zzverifmem"
	"pgregory.net/rapid"
)

func c10Gen(rt *rapid.T) wProg {
	p := wProg{}
	p.Cfg = wConfig{Users: 4, NoPush: true, Root: gPct(rt, 25)}
	p.Sess = append([]int(nil), gPick(rt, [][]int{{0, 1, 2}, {0, 0, 1, 2}, {0, 1, 1, 2}, {0, 0, 1, 1, 2, 3}, {0, 1, 2, 3}, {0, 1, 1, 2, 2}}, "layout")...)
	for s := 1; s < len(p.Sess); s++ {
		if gPct(rt, 15) {
			p.Cfg.Bkg = append(p.Cfg.Bkg, s)
		}
	}
	gGrpc(rt, &p, 15)
	gLat(rt, &p, 25)
	first := map[int]int{} // user -> first session slot
	for s, u := range p.Sess {
		if _, ok := first[u]; !ok {
			first[u] = s
		}
	}
	has := func(u int) bool { _, ok := first[u]; return ok }
	// group g0 owned by user 0; members
	// (sometimes channel-enabled: its ordinary subscribers are told on/off like those of any group)
	p.Ops = append(p.Ops, wOp{K: "sub", S: 0, T: gPick(rt, []string{"new", "new", "new", "nch"}, "grpkind")})
	for u := 1; u < 4; u++ {
		if has(u) && gPct(rt, 75) {
			p.Ops = append(p.Ops, wOp{K: "sub", S: first[u], T: "g0"})
		}
	}
	// P2P topics among users 0..2 (user 3 mostly stays a stranger)
	pairs := [][2]int{{0, 1}, {0, 2}, {1, 2}, {0, 3}}
	for _, pr := range pairs {
		if !has(pr[0]) || !has(pr[1]) {
			continue
		}
		pct := 80
		if pr[1] == 3 {
			pct = 20
		}
		if gPct(rt, pct) {
			p.Ops = append(p.Ops, wOp{K: "sub", S: first[pr[0]], T: fmt.Sprintf("p%d", pr[1])})
			if gPct(rt, 85) {
				p.Ops = append(p.Ops, wOp{K: "sub", S: first[pr[1]], T: fmt.Sprintf("p%d", pr[0])})
			}
		}
	}
	p.Ops = append(p.Ops, wOp{K: "pub", S: 0, T: "g0"}, wOp{K: "pub", S: 0, T: "g0"})
	// most sessions leave the work topics and sit on 'me'
	for s := range p.Sess {
		if gPct(rt, 50) {
			p.Ops = append(p.Ops, wOp{K: "leave", S: s, T: "g0"})
		}
		if gPct(rt, 70) {
			p.Ops = append(p.Ops, wOp{K: "sub", S: s, T: "me", B: "sub"})
		}
	}
	topicFor := func(s int) string {
		u := p.Sess[s]
		pool := []string{"g0", "g0", "me"}
		for v := 0; v < 4; v++ {
			if v != u && v < 3 {
				pool = append(pool, fmt.Sprintf("p%d", v))
			}
		}
		return gPick(rt, pool, "topic")
	}
	n := gInt(rt, 4, 22, "nops")
	for i := 0; i < n; i++ {
		s := gInt(rt, 0, len(p.Sess)-1, "s")
		switch y := gInt(rt, 0, 99, "hist"); {
		case y < 4:
			// everybody leaves the group; while it idles towards unloading a member who is not attached
			// bans himself with a {sub}; the group must still go offline
			for k := range p.Sess {
				p.Ops = append(p.Ops, wOp{K: "leave", S: k, T: "g0"})
			}
			m := gInt(rt, 1, 2, "selfban")
			if has(m) {
				p.Ops = append(p.Ops, wOp{K: "tick", N: gPick(rt, []int{600, 1500}, "idle")},
					wOp{K: "sub", S: first[m], T: "g0", A: gPick(rt, []string{"RWP", "N", "RWP"}, "nojoin")}, wOp{K: "tick", N: 12000})
			}
		case y < 7:
			// everybody leaves the group; somebody attaches at the very moment its idle timer fires (the
			// topic says 'off' and is on its way out), goes away again or stays
			for k := range p.Sess {
				p.Ops = append(p.Ops, wOp{K: "leave", S: k, T: "g0"})
			}
			p.Ops = append([]wOp{{K: "lat"}}, p.Ops...)
			p.Cfg.Lat = nil
			m := gInt(rt, 0, len(p.Sess)-1, "atwho")
			p.Ops = append(p.Ops, wOp{K: "sub", S: m, T: "g0", At: "g0", AtUs: gPick(rt, []int{0, 0, 1}, "atus")})
			if gPct(rt, 50) {
				p.Ops = append(p.Ops, wOp{K: "sub", S: m, T: "g0"})
			}
			if gPct(rt, 50) {
				p.Ops = append(p.Ops, wOp{K: "leave", S: m, T: "g0"})
			}
		case y < 10:
			// a P2P topic is created muted by one side while both sit on 'me'; later it is un-muted
			// and the creator goes away and comes back
			a, b := 2, 1
			if has(3) {
				a, b = 3, 0
			}
			if has(a) && has(b) {
				p.Ops = append(p.Ops, wOp{K: "sub", S: first[a], T: "me", B: "sub"}, wOp{K: "sub", S: first[b], T: "me", B: "sub"},
					wOp{K: "sub", S: first[a], T: fmt.Sprintf("p%d", b), A: "JRWA"},
					wOp{K: "set", S: first[a], T: fmt.Sprintf("p%d", b), A: "mode", B: "JRWPA"}, wOp{K: "leave", S: first[a], T: fmt.Sprintf("p%d", b)})
				for k, u := range p.Sess {
					if u == a {
						p.Ops = append(p.Ops, wOp{K: "disc", S: k})
					}
				}
				p.Ops = append(p.Ops, wOp{K: "tick", N: 6000}, wOp{K: "reconn", S: first[a]}, wOp{K: "sub", S: first[a], T: "me", B: "sub"}, wOp{K: "tick", N: 600})
			}
		}
		switch x := gInt(rt, 0, 99, "opk"); {
		case x < 4 && p.Cfg.Root:
			// the root session (user 0) attaches to the group on behalf of a member and goes away again
			m := gInt(rt, 1, 2, "member")
			p.Ops = append(p.Ops, wOp{K: "leave", S: 0, T: "g0"}, wOp{K: "sub", S: 0, T: "g0", Obo: m + 1})
			if gPct(rt, 50) {
				p.Ops = append(p.Ops, wOp{K: "tick", N: 600})
			}
			if gPct(rt, 50) {
				p.Ops = append(p.Ops, wOp{K: "leave", S: 0, T: "g0", Obo: m + 1})
			} else {
				p.Ops = append(p.Ops, wOp{K: "reconn", S: 0}, wOp{K: "sub", S: 0, T: "me", B: "sub"})
			}
			p.Ops = append(p.Ops, wOp{K: "sub", S: first[m], T: "g0"})
		case x < 14:
			p.Ops = append(p.Ops, wOp{K: "sub", S: s, T: "me", B: gPick(rt, []string{"sub", "sub", "sub", ""}, "get")})
		case x < 20:
			p.Ops = append(p.Ops, wOp{K: "leave", S: s, T: "me"})
		case x < 30:
			p.Ops = append(p.Ops, wOp{K: "sub", S: s, T: topicFor(s)})
		case x < 38:
			p.Ops = append(p.Ops, wOp{K: "leave", S: s, T: topicFor(s), F: gPct(rt, 25)})
		case x < 45:
			p.Ops = append(p.Ops, wOp{K: "disc", S: s})
		case x < 53:
			p.Ops = append(p.Ops, wOp{K: "reconn", S: s})
			if gPct(rt, 70) {
				p.Ops = append(p.Ops, wOp{K: "sub", S: s, T: "me", B: "sub"})
			}
		case x < 61:
			// mute / unmute / self-ban own subscription
			t := topicFor(s)
			if t == "me" {
				t = "g0"
			}
			modes := []string{"JRWP", "JRW", "JRWP", "JRW", "N"}
			if strings.HasPrefix(t, "p") {
				modes = []string{"JRWPA", "JRWA", "JRWPA", "JRWA", "N"}
			}
			p.Ops = append(p.Ops, wOp{K: "set", S: s, T: t, A: "mode", B: gPick(rt, modes, "want")})
		case x < 67:
			// owner changes a member's grant (mute from above, ban, restore, invite)
			p.Ops = append(p.Ops, wOp{K: "set", S: 0, T: "g0", A: "given", U: gInt(rt, 1, 3, "tgt"), B: gPick(rt, []string{"JRWPS", "JRW", "N", "JRWP"}, "given")})
		case x < 70:
			p.Ops = append(p.Ops, wOp{K: "del", S: 0, T: "g0", A: "sub", U: gInt(rt, 1, 3, "tgt")})
		case x < 73:
			p.Ops = append(p.Ops, wOp{K: "pub", S: s, T: topicFor(s)})
		case x < 79:
			what := gPick(rt, []string{"read", "recv", "kp"}, "what")
			seq := gInt(rt, 1, 2, "seq")
			if what == "kp" {
				seq = 0
			}
			p.Ops = append(p.Ops, wOp{K: "sub", S: s, T: "g0"}, wOp{K: "note", S: s, T: "g0", A: what, N: seq})
		case x < 82:
			p.Ops = append(p.Ops, wOp{K: "set", S: s, T: gPick(rt, []string{"g0", "me"}, "dt"), A: "public", H: map[string]any{"fn": fmt.Sprintf("n%d", i)}})
		case x < 84:
			p.Ops = append(p.Ops, wOp{K: "del", S: s, T: topicFor(s), A: "msg", F: gPct(rt, 50), R: [][2]int{{1, 0}}})
		case x >= 84 && x < 87:
			// an account is deleted (by its user, or by the root user) while its P2P topics may be in memory
			victim := gInt(rt, 1, 2, "victim")
			by := 0
			if !p.Cfg.Root || gPct(rt, 50) {
				if vs, ok := first[victim]; ok {
					by = vs
				}
			}
			for k, u := range p.Sess {
				if u != victim && gPct(rt, 60) {
					p.Ops = append(p.Ops, wOp{K: "sub", S: k, T: "me", B: "sub"})
				}
				if u != victim && u <= 2 && gPct(rt, 50) {
					p.Ops = append(p.Ops, wOp{K: "sub", S: k, T: fmt.Sprintf("p%d", victim)})
				}
			}
			p.Ops = append(p.Ops, wOp{K: "del", S: by, A: "user", U: victim, F: gPct(rt, 50)})
		case x < 95:
			p.Ops = append(p.Ops, wOp{K: "tick", N: gPick(rt, []int{600, 1500, 4500, 6000, 12000}, "ms")})
		case x < 96:
			p.Ops = append(p.Ops, wOp{K: "get", S: s, T: "me", A: "sub"})
		case x < 97:
			// the subscriber list of the group, by an attached member (who may have muted the group)
			p.Ops = append(p.Ops, wOp{K: "sub", S: s, T: "g0"}, wOp{K: "get", S: s, T: "g0", A: "sub"})
		case x < 98:
			p.Ops = append(p.Ops, wOp{K: "del", S: 0, T: "g0", A: "topic"})
		default:
			p.Ops = append(p.Ops, wOp{K: "restart"})
		}
	}
	if gPct(rt, 8) && has(1) && has(0) {
		// user 1's only connection sits on 'me' and stops reading while a peer keeps writing to their P2P
		// topic: 'me' drops the connection when its queue is full; with nobody left on it 'me' is unloaded
		// and the user's contacts are told 'off'
		x := first[1]
		for s, u := range p.Sess {
			if u == 1 && s != x {
				p.Ops = append(p.Ops, wOp{K: "disc", S: s})
			}
		}
		p.Ops = append(p.Ops, wOp{K: "sub", S: x, T: "me", B: "sub"}, wOp{K: "leave", S: x, T: "g0"}, wOp{K: "leave", S: x, T: "p0"}, wOp{K: "leave", S: x, T: "p2"},
			wOp{K: "sub", S: first[0], T: "p1"}, wOp{K: "sub", S: first[0], T: "me", B: "sub"}, wOp{K: "pause", S: x}, wOp{K: "flood", S: first[0], T: "p1", N: 200}, wOp{K: "tick", N: 7000})
	}
	return p
}

// (counter of judged online flags in group subscriber lists is c10Obs.onlineFlags)
type c10Told struct {
	online bool
	how    string
}

type c10Obs struct {
	att     *wAttach
	pre     *mem.State
	preLive map[string]*wTopicSnap
	preAtt  map[int]map[string]wAtt
	// told[session][src] = what the session attached to 'me' was last told about src
	told    map[int]map[string]c10Told
	tainted map[string]bool // routes where a {set} was served for a non-attached session (C08 matter)
	known   func(*kit.Viol) bool

	presSeen, judgedPairs, onTold, offTold, bkgSeen, muted, onlineFlags int
	accountDeleted map[int]bool // users whose {del what=user} was acknowledged
	goneExpected   map[[2]int]bool // (survivor, deleted user): their P2P topic was loaded when the account was deleted
}

func (o *c10Obs) Before(w *wWorld, op *wOp) {
	o.pre = mem.A.Snapshot()
	o.preLive = w.liveTopics()
	o.preAtt = map[int]map[string]wAtt{}
	for s, m := range o.att.att {
		o.preAtt[s] = map[string]wAtt{}
		for k, v := range m {
			o.preAtt[s][k] = v
		}
	}
}

// rowMode returns the stored want&given of user uid for the relation named src as seen by uid.
func c10Row(st *mem.State, w *wWorld, u int, src string) (mode types.AccessMode, live, everExisted bool) {
	uid := w.users[u].uid
	row := src
	if strings.HasPrefix(src, "usr") {
		row = uid.P2PName(types.ParseUserId(src))
	}
	for _, r := range st.Subs {
		if r.Topic == row && r.User == uid {
			if r.DeletedAt != nil {
				return 0, false, true
			}
			return r.ModeWant & r.ModeGiven, true, true
		}
	}
	return 0, false, false
}

func (o *c10Obs) cacheDisagrees(w *wWorld, live map[string]*wTopicSnap, st *mem.State, u int, src string) bool {
	uid := w.users[u].uid
	route := src
	if strings.HasPrefix(src, "usr") {
		route = uid.P2PName(types.ParseUserId(src))
	}
	route = chnToGrpOr(route)
	if o.tainted[route] {
		return true
	}
	// Only a listed cause (see tainted) excuses a disagreement: everywhere else the stored,
	// acknowledged permissions are the truth.
	return false
}

func (o *c10Obs) After(w *wWorld, st *wStep) *kit.Viol {
	post := mem.A.Snapshot()
	postLive := w.liveTopics()
	// (the reply to {del what=user} may not reach a session which deletes its own account - it is
	// terminated by that very request: the store tells whether the account went)
	if st.Op.K == "del" && st.Op.A == "user" && !st.Skipped && st.Op.U >= 0 && st.Op.U < len(w.users) && userState(o.pre, w.users[st.Op.U].uid) == types.StateOK &&
		userState(post, w.users[st.Op.U].uid) != types.StateOK {
		if o.accountDeleted == nil {
			o.accountDeleted = map[int]bool{}
		}
		o.accountDeleted[st.Op.U] = true
		// the P2P topics of that account which were in memory: their other participants are told 'gone'
		// (for a topic which is not loaded nobody is told anything: the statement speaks of partners, and
		// after the deletion there is no partnership left - not judged)
		for name, lt := range o.preLive {
			if u1, u2, err := types.ParseP2P(name); err == nil && lt.Status&(topicStatusPaused|topicStatusMarkedDeleted) == 0 && len(lt.PerUser) == 2 {
				for _, pr := range [][2]types.Uid{{u1, u2}, {u2, u1}} {
					if pr[0] == w.users[st.Op.U].uid {
						if o.goneExpected == nil {
							o.goneExpected = map[[2]int]bool{}
						}
						o.goneExpected[[2]int{w.userIdx(pr[1]), st.Op.U}] = true
						// ... each on every session which sits on 'me', naming the deleted account (not
						// the recipient) as the topic which is gone
						surv := w.userIdx(pr[1])
						if _, live, _ := c10Row(o.pre, w, surv, w.users[st.Op.U].uid.UserId()); surv >= 0 && live && !o.tainted[name] {
							for sess, ss := range w.sess {
								if ss == nil || ss.user != surv || ss.isClosed() {
									continue
								}
								if _, onMe := o.preAtt[sess][w.users[surv].uid.UserId()]; !onMe {
									continue
								}
								got := false
								for _, f := range st.Frames[sess] {
									if f.Pres != nil && f.Pres.Topic == "me" && f.Pres.What == "gone" && f.Pres.Src == w.users[st.Op.U].uid.UserId() {
										got = true
									}
								}
								if !got {
									sig := "p2p-gone-notice-missing"
									if me := o.preLive[w.users[surv].uid.UserId()]; me != nil && wSnapPerSubs {
										if _, known := me.PerSubs[w.users[st.Op.U].uid.UserId()]; !known {
											// the survivor's loaded 'me' topic does not hold the deleted account as a contact
											// at all (it drops notices from sources it does not know): a different defect
											sig += ":contact-unknown-to-me"
										}
									}
									v := kit.V(sig, "account of user %d was deleted while the P2P topic %s was in memory; session %d of the other participant (user %d), attached to 'me', was not told {pres what=gone src=%s}: it received %s", st.Op.U, name, sess, surv, w.users[st.Op.U].uid.UserId(), wFramesStr(st.Frames[sess]))
									if sig != "p2p-gone-notice-missing" && o.known != nil && o.known(v) {
										continue
									}
									return v
								}
							}
						}
					}
				}
			}
		}
	}
	// a {set} by a session which is not attached is applied to the store behind the loaded topic's back
	if st.Op.K == "set" && !st.Skipped && st.Route != "" {
		if _, attached := o.preAtt[st.Sess][st.Route]; !attached {
			o.tainted[st.Route] = true
		}
	}
	// P2P: a participant who had unsubscribed is subscribed again by the mere loading of the topic
	// for the other participant (listed C08 finding reload-differs:p2p-unsubscribed-peer-resubscribed-on-load):
	// no request of that user, no presence handshake - pairs on that topic are not judged.
	for _, r := range post.Subs {
		if !strings.HasPrefix(r.Topic, "p2p") || r.DeletedAt != nil {
			continue
		}
		for _, q := range o.pre.Subs {
			if q.Topic == r.Topic && q.User == r.User && q.DeletedAt != nil {
				actor := -1
				if st.User >= 0 {
					actor = st.User
				}
				invited := st.Op.K == "set" && st.Op.A == "given"
				if (actor < 0 || w.users[actor].uid != r.User) && !invited {
					o.tainted[r.Topic] = true
				}
			}
		}
	}
	o.att.update(w, st)
	switch st.Op.K {
	case "restart":
		o.told = map[int]map[string]c10Told{}
	case "disc", "reconn":
		delete(o.told, st.Op.S)
	}
	if st.Crashed {
		o.told = map[int]map[string]c10Told{}
	}
	for _, d := range st.Died {
		delete(o.told, d)
	}

	// the session which itself unsubscribed (or deleted the topic) is not sent "gone": it knows
	if (st.Op.K == "leave" && st.Op.F || st.Op.K == "del" && st.Op.A == "topic") && st.ok() && st.Name != "" {
		delete(o.told[st.Sess], st.Name)
	}
	sessions := make([]int, 0, len(st.Frames))
	for s := range st.Frames {
		sessions = append(sessions, s)
	}
	sort.Ints(sessions)
	for _, sess := range sessions {
		if sess >= len(w.sess) || w.sess[sess] == nil {
			continue
		}
		u := w.sess[sess].user
		if u < 0 {
			// the session may have been logged in when the frame was sent (reconn): use the slot's user
			continue
		}
		meRoute := w.users[u].uid.UserId()
		_, onMePre := o.preAtt[sess][meRoute]
		_, onMePost := o.att.att[sess][meRoute]
		for _, f := range st.Frames[sess] {
			switch {
			case f.Pres != nil:
				o.presSeen++
				if v := o.judgePres(w, st, post, postLive, sess, u, f.Pres, onMePre || onMePost); v != nil {
					return v
				}
				if f.Pres.Topic == "me" && (f.Pres.What == "on" || f.Pres.What == "off") && onMePost {
					if o.told[sess] == nil {
						o.told[sess] = map[string]c10Told{}
					}
					o.told[sess][f.Pres.Src] = c10Told{f.Pres.What == "on", "pres"}
					if f.Pres.What == "on" {
						o.onTold++
					} else {
						o.offTold++
					}
				}
				if f.Pres.Topic == "me" && f.Pres.What == "gone" {
					delete(o.told[sess], f.Pres.Src)
				}
			case f.Info != nil && f.Info.Topic == "me":
				mode, live, _ := c10Row(o.pre, w, u, f.Info.Src)
				mode2, live2, _ := c10Row(post, w, u, f.Info.Src)
				if !(live && mode.IsPresencer() && mode.IsReader()) && !(live2 && mode2.IsPresencer() && mode2.IsReader()) &&
					!o.cacheDisagrees(w, o.preLive, o.pre, u, f.Info.Src) {
					return kit.V("info-on-me-to-unentitled", "{info %s src=%s} on 'me' reached session %d of user %d whose mode there is %v/%v (live %v/%v): needs P and R", f.Info.What, f.Info.Src, sess, u, mode, mode2, live, live2)
				}
			case f.Meta != nil && strings.HasPrefix(f.Meta.Topic, "grp") && sess == st.Sess && st.Op.K == "get" && !st.Skipped && st.Op.Obo == 0 && f.Meta.Id == st.ReqID && len(f.Meta.Sub) > 0:
				// the subscriber list of a group, asked for by an attached member: who is online is presence
				// information - shown to a requester whose effective mode includes P, and then truthfully
				// (the member has attached sessions), and to nobody else
				route := f.Meta.Topic
				lt := o.preLive[route]
				if _, attached := o.att.att[sess][route]; !attached || lt == nil || o.tainted[route] {
					break
				}
				rmode, rlive, _ := c10Row(o.pre, w, u, route)
				if !rlive || o.cacheDisagrees(w, o.preLive, o.pre, u, route) {
					break
				}
				for _, ms := range f.Meta.Sub {
					m := w.userIdx(types.ParseUserId(ms.User))
					if m < 0 || ms.DeletedAt != nil {
						continue
					}
					pud, known := lt.PerUser[w.users[m].uid]
					if !known || pud.deleted || pud.isChan {
						continue
					}
					truth := pud.online > 0
					switch {
					case !rmode.IsPresencer() && ms.Online:
						return kit.V("online-flag-shown-without-P", "{meta sub} of %s told user %d (effective mode %v, no P) that user %d is online", route, u, rmode, m)
					case rmode.IsPresencer() && ms.Online != truth:
						return kit.V("online-flag-wrong", "{meta sub} of %s told user %d (mode %v) that user %d is online=%v; the member has %d attached sessions", route, u, rmode, m, ms.Online, pud.online)
					}
					o.onlineFlags++
				}
			case f.Meta != nil && f.Meta.Topic == "me" && onMePost:
				for _, ms := range f.Meta.Sub {
					if ms.Topic == "" || ms.DeletedAt != nil {
						continue
					}
					if o.told[sess] == nil {
						o.told[sess] = map[string]c10Told{}
					}
					o.told[sess][ms.Topic] = c10Told{ms.Online, "meta"}
				}
			}
		}
		if !onMePost {
			delete(o.told, sess)
		}
	}
	for s := range o.told {
		if s < len(w.sess) && w.sess[s] != nil {
			if u := w.sess[s].user; u >= 0 {
				if _, on := o.att.att[s][w.users[u].uid.UserId()]; on {
					continue
				}
			}
		}
		delete(o.told, s)
	}
	return o.counters(w, postLive)
}

var c10NeedsP = map[string]bool{"on": true, "off": true, "msg": true, "read": true, "recv": true, "del": true, "ua": true, "kp": true, "upd": true}

func (o *c10Obs) judgePres(w *wWorld, st *wStep, post *mem.State, postLive map[string]*wTopicSnap, sess, u int, p *MsgServerPres, onMe bool) *kit.Viol {
	desc := func() string { return fmt.Sprintf("{pres topic=%s src=%s what=%s} at session %d (user %d) during %s", p.Topic, p.Src, p.What, sess, u, st.Op.K) }
	src := p.Src
	if p.Topic == "me" {
		if !onMe {
			return kit.V("pres-on-me-to-detached", "%s: the session is not attached to 'me'", desc())
		}
		if !(strings.HasPrefix(src, "usr") || strings.HasPrefix(src, "grp") || strings.HasPrefix(src, "chn")) {
			return nil
		}
		if src == w.users[u].uid.UserId() {
			return nil // about the user's own account
		}
	} else {
		// presence inside a topic the session is attached to
		route := w.routeOfName(p.Topic, u)
		if o.tainted[route] {
			return nil // the attachment model follows the store, the server its stale cache (C08)
		}
		_, a1 := o.preAtt[sess][route]
		_, a2 := o.att.att[sess][route]
		if !a1 && !a2 {
			return kit.V("pres-in-topic-to-detached", "%s: the session is not attached to %s", desc(), route)
		}
		src = p.Topic
	}
	m1, live1, ever1 := c10Row(o.pre, w, u, src)
	m2, live2, ever2 := c10Row(post, w, u, src)
	if !ever1 && !ever2 {
		return kit.V("pres-to-stranger", "%s: the user never had a subscription there", desc())
	}
	if o.cacheDisagrees(w, o.preLive, o.pre, u, src) || o.cacheDisagrees(w, postLive, post, u, src) {
		return nil
	}
	if !live1 && !live2 {
		if p.What == "gone" && st.Op.K == "del" && st.Op.A == "user" && p.Topic == "me" {
			// an account is deleted while one of its P2P topics is in memory: the other participant is
			// told 'gone' even when that participant had unsubscribed long ago (listed finding)
			if v := kit.V("pres-to-removed:gone-after-account-deletion", "%s: the user had unsubscribed from that P2P topic before; the topic was still in memory when the other participant's account was deleted", desc()); o.known == nil || !o.known(v) {
				return v
			}
			return nil
		}
		return kit.V("pres-to-removed", "%s: the user's subscription there was removed before this step", desc())
	}
	if c10NeedsP[p.What] {
		okP := (live1 && m1.IsPresencer()) || (live2 && m2.IsPresencer())
		if p.What == "upd" {
			// the server's filter lets topic-description updates through to every joined subscriber
			okP = okP || (live1 && m1.IsJoiner()) || (live2 && m2.IsJoiner())
		}
		if !okP {
			if !(live1 && m1.IsPresencer()) {
				o.muted++
			}
			return kit.V("pres-without-P:"+p.What, "%s: the user's effective mode there is %v before / %v after the step, no P", desc(), m1, m2)
		}
	}
	return nil
}

// counters: cached online counter == number of attached foreground sessions of that user.
func (o *c10Obs) counters(w *wWorld, live map[string]*wTopicSnap) *kit.Viol {
	bkg := map[string]bool{}
	for _, ss := range w.sess {
		if ss != nil && !ss.isClosed() {
			bkg[ss.s.sid] = ss.s.background
			if ss.s.background {
				o.bkgSeen++
			}
		}
	}
	names := make([]string, 0, len(live))
	for n := range live {
		names = append(names, n)
	}
	sort.Strings(names)
	for _, n := range names {
		lt := live[n]
		cnt := map[types.Uid]int{}
		for sid, psd := range lt.Sessions {
			if !bkg[sid] {
				cnt[psd.uid]++
			}
		}
		for uid, pud := range lt.PerUser {
			if pud.online < 0 {
				return kit.V("online-counter-negative", "topic %s: online counter of user %d is %d", n, w.userIdx(uid), pud.online)
			}
			if pud.online != cnt[uid] {
				return kit.V("online-counter-wrong", "topic %s: online counter of user %d is %d, the user has %d attached foreground sessions there", n, w.userIdx(uid), pud.online, cnt[uid])
			}
		}
	}
	return nil
}

func (o *c10Obs) Final(w *wWorld) *kit.Viol {
	o.att.syncPaused(w)
	// let background sessions come to the foreground and idle topics unload
	w.tick(7 * time.Second)
	w.tick(7 * time.Second)
	live := w.liveTopics()
	st := mem.A.Snapshot()
	// frames produced by the ticks update what sessions were told
	for sess, ss := range w.sess {
		if ss == nil || ss.isClosed() || ss.user < 0 {
			continue
		}
		_, onMe := o.att.att[sess][w.users[ss.user].uid.UserId()]
		for _, f := range ss.fresh() {
			if f.Pres != nil && f.Pres.Topic == "me" && (f.Pres.What == "on" || f.Pres.What == "off") && onMe {
				if o.told[sess] == nil {
					o.told[sess] = map[string]c10Told{}
				}
				o.told[sess][f.Pres.Src] = c10Told{f.Pres.What == "on", "pres"}
			}
		}
	}
	if v := o.counters(w, live); v != nil {
		return v
	}
	// truth
	userOnline := map[int]bool{}
	for sess, ss := range w.sess {
		if ss == nil || ss.isClosed() || ss.user < 0 || ss.s.background {
			continue
		}
		if _, on := o.att.att[sess][w.users[ss.user].uid.UserId()]; on {
			userOnline[ss.user] = true
		}
	}
	grpOnline := func(name string) bool {
		lt := live[name]
		return lt != nil && len(lt.Sessions) > 0
	}
	for a := range w.users {
		me := live[w.users[a].uid.UserId()]
		var obsSessions []int
		for sess, ss := range w.sess {
			if ss != nil && !ss.isClosed() && ss.user == a && !ss.pause.Load() { // (a connection which does not read has not been told anything)
				if _, on := o.att.att[sess][w.users[a].uid.UserId()]; on {
					obsSessions = append(obsSessions, sess)
				}
			}
		}
		// P2P partners
		for b := range w.users {
			if a == b {
				continue
			}
			src := w.users[b].uid.UserId()
			if bs := userState(st, w.users[b].uid); (bs == types.StateDeleted || bs == types.StateUndefined) && o.accountDeleted[b] && !o.accountDeleted[a] && o.goneExpected[[2]int{a, b}] {
				// b's account was deleted: the P2P topic with b is gone for a, and a was told so
				if me != nil && me.Loaded {
					if psd, ok := me.PerSubs[src]; ok && psd.enabled && psd.online {
						return kit.V("contact-of-deleted-account-still-listed", "settled: 'me' of user %d still holds user %d, whose account was deleted, as a contact (online=%v): the surviving participant was never told that the P2P topic is gone", a, b, psd.online)
					}
				}
				for _, sess := range obsSessions {
					if t, ok := o.told[sess][src]; ok && t.online {
						return kit.V("deleted-account-last-told-online", "settled: session %d of user %d was last told (%s) that user %d is online; that account was deleted and the session was never told 'gone'", sess, a, t.how, b)
					}
				}
				continue
			}
			ma, la, _ := c10Row(st, w, a, src)
			mb, lb, _ := c10Row(st, w, b, w.users[a].uid.UserId())
			if !la || !lb || o.cacheDisagrees(w, live, st, a, src) {
				continue
			}
			both := ma.IsPresencer() && mb.IsPresencer()
			truth := userOnline[b]
			if me != nil && me.Loaded {
				if psd, ok := me.PerSubs[src]; ok {
					if both && psd.enabled && psd.online != truth {
						return kit.V("contact-table-wrong:p2p", "settled: 'me' of user %d holds user %d as online=%v, in truth online=%v (P on both sides)", a, b, psd.online, truth)
					}
					if !ma.IsPresencer() && psd.online {
						return kit.V("contact-table-online-without-P", "settled: 'me' of user %d holds user %d as online although user %d has no P in that P2P topic", a, b, a)
					}
				}
			}
			if !both {
				// one side has muted the other: whether 'on' is said at all is not the statement's subject,
				// but a partner who WAS told 'on' and holds P is not left believing it after the user has
				// gone (the 'off' of an unloading 'me' topic goes to every contact)
				if ma.IsPresencer() && !truth {
					for _, sess := range obsSessions {
						if t, ok := o.told[sess][src]; ok && t.online && t.how == "pres" {
							return kit.V("p2p-told-online-never-offline:one-sided-mute", "settled: session %d of user %d (P held) was last told {pres on} about user %d, who has muted that topic and is gone now: no 'off' was sent", sess, a, b)
						}
					}
				}
				continue
			}
			for _, sess := range obsSessions {
				if t, ok := o.told[sess][src]; ok {
					o.judgedPairs++
					if t.online != truth {
						return kit.V("p2p-presence-not-converged:"+t.how, "settled: session %d of user %d was last told (%s) that user %d is online=%v, in truth online=%v", sess, a, t.how, b, t.online, truth)
					}
				}
			}
		}
		// groups
		for _, g := range w.groups {
			if g == "" {
				continue
			}
			mg, lg, _ := c10Row(st, w, a, g)
			if !lg || !mg.IsPresencer() || o.cacheDisagrees(w, live, st, a, g) {
				continue
			}
			if ts, ok := topicState(st, g); !ok || ts == types.StateDeleted {
				continue
			}
			truth := grpOnline(g)
			if me != nil && me.Loaded {
				if psd, ok := me.PerSubs[g]; ok && psd.enabled && psd.online != truth {
					return kit.V("contact-table-wrong:grp", "settled: 'me' of user %d holds %s as online=%v, in truth it has attached sessions=%v", a, g, psd.online, truth)
				}
			}
			for _, sess := range obsSessions {
				if t, ok := o.told[sess][g]; ok {
					o.judgedPairs++
					if t.online != truth {
						return kit.V("grp-presence-not-converged:"+t.how, "settled: session %d of user %d was last told (%s) that %s is online=%v, in truth it has attached sessions=%v", sess, a, t.how, g, t.online, truth)
					}
				}
			}
		}
	}
	return nil
}

func c10Exec(t *testing.T, r *kit.Run) func(wProg) kit.Outcome {
	return func(p wProg) kit.Outcome {
		r.WAL(p)
		wSnapPerSubs = true
		obs := &c10Obs{att: newWAttach(), told: map[int]map[string]c10Told{}, tainted: map[string]bool{}}
		obs.known = func(v *kit.Viol) bool { return r.IsKnown(v.Sig) && r.Violation(v, p) }
		var res wRunResult
		fail := wInBubble(t, func() { res = wExec(&p, obs, nil) })
		o := kit.Outcome{NonTrivial: obs.judgedPairs >= 2 && obs.onTold >= 1 && obs.offTold >= 1}
		if obs.judgedPairs > 0 {
			o.Classes = append(o.Classes, "pairs-judged")
		}
		if obs.onTold > 0 && obs.offTold > 0 {
			o.Classes = append(o.Classes, "on-and-off")
		}
		if obs.bkgSeen > 0 {
			o.Classes = append(o.Classes, "background-session")
		}
		if len(obs.tainted) > 0 {
			o.Classes = append(o.Classes, "offline-set(not judged)")
		}
		if fail != "" && res.Viol == nil {
			o.Skip = true
			fmt.Println("C10 bubble failure (not judged here):", firstLine(fail)); if os.Getenv("VERIF_DUMPFAIL") != "" { fmt.Println("FAILCASE " + wJSON(p)) }
			return o
		}
		o.Viol = res.Viol
		return o
	}
}

func TestC10Presence(t *testing.T) {
	r := kit.Begin("C10", "TestC10Presence")
	defer r.Flush()
	kit.CheckRun(t, r, c10Gen, c10Exec(t, r))
}
