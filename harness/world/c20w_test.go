package main

// C20 (running server) — a peer-to-peer topic is shown to each participant under the OTHER
// participant's id, in every frame kind and also after the topic was unloaded and loaded back or
// the server restarted: no frame at a participant's session names the topic by the recipient's
// own id, and every usrXXX topic name a session sees is the id of the peer of a P2P topic the
// session's user takes part in (or a name the session itself used in the request of that step).

import (
	"fmt"
	"strings"
	"testing"
	"time"

	"github.com/tinode/chat/server/store/types"
	kit "github.com/tinode/chat/server/zzverifkit"
	mem "github.com/tinode/chat/server/zzverifmem"
	"pgregory.net/rapid"
)

func c20wGen(rt *rapid.T) wProg {
	p := c02Gen(rt)
	// more reloads and restarts of the P2P topic than the delivery check needs
	extra := gInt(rt, 1, 3, "extra")
	for i := 0; i < extra; i++ {
		at := gInt(rt, 1, len(p.Ops), "at")
		var ins []wOp
		if gPct(rt, 70) {
			ins = []wOp{{K: "reload", T: "p1"}}
		} else {
			ins = []wOp{{K: "restart"}}
			for s := range p.Sess {
				if p.Sess[s] <= 1 {
					ins = append(ins, wOp{K: "sub", S: s, T: fmt.Sprintf("p%d", 1-p.Sess[s])})
				}
			}
		}
		for s := range p.Sess {
			if p.Sess[s] <= 1 && gPct(rt, 60) {
				ins = append(ins, wOp{K: "pub", S: s, T: fmt.Sprintf("p%d", 1-p.Sess[s])})
			}
		}
		p.Ops = append(p.Ops[:at], append(ins, p.Ops[at:]...)...)
	}
	if gPct(rt, 45) {
		// a call between users 0 and 1: the events relayed to either party name the topic too
		p.Cfg.Calls, p.Cfg.CallTimeout = true, 30
		a, b := -1, -1
		for s, u := range p.Sess {
			if u == 0 && a < 0 {
				a = s
			}
			if u == 1 && b < 0 {
				b = s
			}
		}
		if a >= 0 && b >= 0 {
			if gPct(rt, 50) {
				a, b = b, a
			}
			ta, tb := fmt.Sprintf("p%d", 1-p.Sess[a]), fmt.Sprintf("p%d", 1-p.Sess[b])
			ins := []wOp{{K: "sub", S: a, T: ta}, {K: "sub", S: b, T: tb},
				{K: "pub", S: a, T: ta, A: "call", H: map[string]any{"webrtc": "started", "mime": c15Mime}}}
			if gPct(rt, 70) {
				ins = append(ins, wOp{K: "note", S: b, T: tb, A: "call", B: "ringing", M: 1})
			}
			if gPct(rt, 70) {
				ins = append(ins, wOp{K: "note", S: b, T: tb, A: "call", B: "accept", M: 1},
					wOp{K: "note", S: a, T: ta, A: "call", B: "offer", M: 1, H: map[string]any{"sdp": "x"}},
					wOp{K: "note", S: b, T: tb, A: "call", B: "answer", M: 1, H: map[string]any{"sdp": "y"}})
			}
			ins = append(ins, wOp{K: "note", S: gPick(rt, []int{a, b}, "hang"), T: gPick(rt, []string{"Q01"}, "hn"), A: "call", B: "hang-up", M: 1})
			at := gInt(rt, 1, len(p.Ops), "callat")
			p.Ops = append(p.Ops[:at], append(ins, p.Ops[at:]...)...)
		}
	}
	return p
}

type c20wSub struct {
	Topic     string
	User      types.Uid
	DeletedAt *time.Time
}

type c20wObs struct {
	wNopObs
	frames, reloads int
	preMsgs         int
	preSubs         []c20wSub // subscriptions before the step
}

func (o *c20wObs) Before(w *wWorld, op *wOp) {
	if w.noteSeq == nil {
		// a call event names the invitation: the latest message of the topic
		w.noteSeq = func(route string, sel int) int {
			seq, _, _ := mem.A.TopicCounters(route)
			return seq
		}
	}
	snap := mem.A.Snapshot()
	o.preMsgs = len(snap.Msgs)
	o.preSubs = nil
	for _, r := range snap.Subs {
		o.preSubs = append(o.preSubs, c20wSub{r.Topic, r.User, r.DeletedAt})
	}
}

func (o *c20wObs) After(w *wWorld, st *wStep) *kit.Viol {
	if st.Op.K == "reload" && st.Reloaded || st.Op.K == "restart" {
		o.reloads++
	}
	// usrXXX names the P2P topic of the user the request is executed as (also on behalf of another
	// user) and XXX: an accepted publish is stored in exactly that topic
	if st.Op.K == "pub" && !st.Skipped && st.code() == 202 && strings.HasPrefix(st.Name, "usr") && st.User >= 0 {
		want := w.users[st.User].uid.P2PName(types.ParseUserId(st.Name))
		msgs := mem.A.Snapshot().Msgs
		if len(msgs) == o.preMsgs+1 {
			if got := msgs[len(msgs)-1].Topic; got != want {
				return kit.V("p2p-name-resolved-for-wrong-user", "publish to %s executed as user %d (session of user %d) was stored in %s, the P2P topic of these two users is %s", st.Name, st.User, st.Login, got, want)
			}
		}
	}
	for sess, frames := range st.Frames {
		if sess >= len(w.sess) || w.sess[sess] == nil {
			continue
		}
		u := w.sess[sess].user
		if u < 0 || w.users[u].level >= 30 { // root sessions may act for others: names are relative to that user
			continue
		}
		self := w.users[u].uid
		for _, f := range frames {
			var names []string
			switch {
			case f.Ctrl != nil:
				names = append(names, f.Ctrl.Topic)
			case f.Data != nil:
				names = append(names, f.Data.Topic)
			case f.Pres != nil:
				names = append(names, f.Pres.Topic)
				if f.Pres.Topic == "me" {
					names = append(names, f.Pres.Src)
				}
			case f.Info != nil:
				names = append(names, f.Info.Topic)
				if f.Info.Topic == "me" {
					names = append(names, f.Info.Src)
				}
			case f.Meta != nil:
				names = append(names, f.Meta.Topic)
			}
			for _, n := range names {
				if (strings.HasPrefix(n, "grp") || strings.HasPrefix(n, "chn")) && (f.Data != nil || (f.Pres != nil && f.Pres.Topic != "me")) {
					// a channel-enabled group is grpXXX to its subscribers and chnXXX to its readers, whoever
					// caused the topic to be loaded and under whichever spelling
					asGrp, asChn := false, false
					for _, r := range o.preSubs {
						if r.User == self && r.DeletedAt == nil {
							asGrp = asGrp || r.Topic == types.ChnToGrp(n) || (strings.HasPrefix(n, "grp") && r.Topic == n)
							asChn = asChn || r.Topic == types.GrpToChn(n) || (strings.HasPrefix(n, "chn") && r.Topic == n)
						}
					}
					o.frames++
					if asGrp && !asChn && strings.HasPrefix(n, "chn") {
						return kit.V("group-shown-under-channel-name", "session %d of user %d, a subscriber of the group, received %s: a subscriber knows the topic by its grpXXX name", sess, u, wJSON(f))
					}
					if asChn && !asGrp && strings.HasPrefix(n, "grp") {
						return kit.V("channel-shown-under-group-name", "session %d of user %d, a reader of the channel, received %s: a reader knows the topic by its chnXXX name", sess, u, wJSON(f))
					}
					continue
				}
				if !strings.HasPrefix(n, "usr") {
					continue
				}
				o.frames++
				if sess == st.Sess && strings.Contains(st.Req, `"`+n+`"`) && f.Ctrl != nil {
					continue // reply echoing the name the request itself used
				}
				if n == self.UserId() {
					return kit.V("p2p-topic-shown-under-own-id", "session %d of user %d received %s: a P2P topic must be shown under the other participant's id", sess, u, wJSON(f))
				}
				peer := types.ParseUserId(n)
				if w.userIdx(peer) < 0 {
					return kit.V("p2p-topic-shown-under-unknown-id", "session %d of user %d received %s: %s is nobody's id", sess, u, wJSON(f), n)
				}
			}
		}
	}
	return nil
}

func c20wExec(t *testing.T, r *kit.Run) func(wProg) kit.Outcome {
	return func(p wProg) kit.Outcome {
		r.WAL(p)
		obs := &c20wObs{}
		var res wRunResult
		fail := wInBubble(t, func() { res = wExec(&p, obs, nil) })
		o := kit.Outcome{NonTrivial: obs.frames >= 4 && obs.reloads >= 1}
		if obs.reloads > 0 {
			o.Classes = append(o.Classes, "reloaded")
		}
		if fail != "" && res.Viol == nil {
			o.Skip = true
			fmt.Println("C20 bubble failure (not judged here):", firstLine(fail))
			return o
		}
		o.Viol = res.Viol
		return o
	}
}

func TestC20WP2PNames(t *testing.T) {
	r := kit.Begin("C20", "TestC20WP2PNames")
	defer r.Flush()
	kit.CheckRun(t, r, c20wGen, c20wExec(t, r))
}
