package main

// C09 — read/received marks only move forward and stay within bounds; notes are relayed only
// to entitled sessions; invalid notes are dropped without any reply or side effect.

import (
	"fmt"
	"strings"
	"testing"

	"github.com/tinode/chat/server/store/types"
	kit "github.com/tinode/chat/server/zzverifkit"
	mem "github.com/tinode/chat/server/zzverifmem"
	"pgregory.net/rapid"
)

func c09Gen(rt *rapid.T) wProg {
	p := wProg{}
	p.Cfg = wConfig{Users: 4, Root: gPct(rt, 30)}
	// user 1 has two sessions: the second one mostly sits on 'me' only and observes {pres}
	p.Sess = append([]int(nil), gPick(rt, [][]int{{0, 1, 1, 2}, {0, 1, 1, 2, 3}, {0, 0, 1, 1, 2}}, "layout")...)
	gGrpc(rt, &p, 20)
	gLat(rt, &p, 25)
	isChan := gPct(rt, 35)
	kind := "new"
	if isChan {
		kind = "nch"
	}
	p.Ops = append(p.Ops, wOp{K: "sub", S: 0, T: kind})
	grpRef := func(s int) string {
		if isChan && p.Sess[s] >= 2 && gPct(rt, 70) {
			return "c0"
		}
		return "g0"
	}
	first1 := true
	for s := 1; s < len(p.Sess); s++ {
		if p.Sess[s] == 1 && !first1 {
			p.Ops = append(p.Ops, wOp{K: "sub", S: s, T: "me"})
			continue
		}
		if p.Sess[s] == 1 {
			first1 = false
		}
		if gPct(rt, 85) {
			p.Ops = append(p.Ops, wOp{K: "sub", S: s, T: grpRef(s), A: gPick(rt, []string{"", "", "JRWP", "JRP", "JWP", "JRWPS"}, "want")})
		}
	}
	if !isChan {
		// let user 1 in as a full member of a plain group
	} else {
		p.Ops = append(p.Ops, wOp{K: "set", S: 0, T: "g0", A: "given", U: 1, B: "JRWPS"}, wOp{K: "sub", S: 1, T: "g0"})
	}
	if gPct(rt, 50) {
		p.Ops = append(p.Ops, wOp{K: "sub", S: 0, T: "p1"}, wOp{K: "sub", S: 1, T: "p0"})
	}
	topicFor := func(s int) string {
		u := p.Sess[s]
		pool := []string{grpRef(s), grpRef(s), "g0"}
		if u == 0 {
			pool = append(pool, "p1")
		}
		if u == 1 {
			pool = append(pool, "p0")
		}
		return gPick(rt, pool, "topic")
	}
	// a few messages first
	for i, n := 0, gInt(rt, 1, 4, "npub"); i < n; i++ {
		p.Ops = append(p.Ops, wOp{K: "pub", S: 0, T: "g0"})
	}
	n := gInt(rt, 4, 16, "nops")
	for i := 0; i < n; i++ {
		s := gInt(rt, 0, len(p.Sess)-1, "s")
		switch x := gInt(rt, 0, 99, "opk"); {
		case x < 3:
			// a writer who cannot read publishes, is given R later and sends a read note
			if p.Sess[s] >= 1 {
				p.Ops = append(p.Ops, wOp{K: "sub", S: s, T: "g0", A: "JWP"}, wOp{K: "set", S: s, T: "g0", A: "mode", B: "JWP"}, wOp{K: "pub", S: s, T: "g0"},
					wOp{K: "get", S: s, T: "g0", A: "desc"}, wOp{K: "set", S: s, T: "g0", A: "mode", B: "JRWP"}, wOp{K: "note", S: s, T: "g0", A: gPick(rt, []string{"read", "recv"}, "w3"), N: gInt(rt, 1, 3, "seq3")})
			}
		case x < 6:
			// the root session leaves and attaches again on behalf of user 1, who then types in a session of his own
			if p.Cfg.Root {
				// (root's own marks are ahead of what he will report on behalf of user 1)
				p.Ops = append(p.Ops, wOp{K: "sub", S: 0, T: "g0"}, wOp{K: "pub", S: 0, T: "g0"}, wOp{K: "pub", S: 0, T: "g0"}, wOp{K: "note", S: 0, T: "g0", A: "recv", N: 3}, wOp{K: "note", S: 0, T: "g0", A: "read", N: 3})
				p.Ops = append(p.Ops, wOp{K: "leave", S: 0, T: "g0"}, wOp{K: "sub", S: 0, T: "g0", Obo: 2})
				for k := range p.Sess {
					if p.Sess[k] == 1 {
						p.Ops = append(p.Ops, wOp{K: "sub", S: k, T: "g0"}, wOp{K: "note", S: k, T: "g0", A: "kp"}, wOp{K: "note", S: k, T: "g0", A: "read", N: 1})
						break
					}
				}
				p.Ops = append(p.Ops, wOp{K: "note", S: 0, T: "g0", A: "kp", Obo: 2}, wOp{K: "note", S: 0, T: "g0", A: gPick(rt, []string{"read", "recv"}, "obowhat"), N: gInt(rt, 1, 3, "oboseq"), Obo: 2},
					wOp{K: "get", S: 0, T: "g0", A: "sub"})
			}
		case x < 8:
			// P2P: a participant with marks unsubscribes, is invited back by the peer while the topic stays
			// loaded, subscribes and looks at the description: the new subscription starts from zero
			a, b := -1, -1
			for k, u := range p.Sess {
				if u == 0 && a < 0 {
					a = k
				}
				if u == 1 && b < 0 {
					b = k
				}
			}
			if a >= 0 && b >= 0 {
				if gPct(rt, 50) {
					a, b = b, a
				}
				ta, tb := fmt.Sprintf("p%d", p.Sess[b]), fmt.Sprintf("p%d", p.Sess[a])
				p.Ops = append(p.Ops, wOp{K: "sub", S: a, T: ta}, wOp{K: "sub", S: b, T: tb}, wOp{K: "pub", S: a, T: ta}, wOp{K: "pub", S: a, T: ta}, wOp{K: "pub", S: a, T: ta},
					wOp{K: "note", S: b, T: tb, A: "recv", N: 3}, wOp{K: "note", S: b, T: tb, A: "read", N: 2}, wOp{K: "leave", S: b, T: tb, F: true},
					wOp{K: "set", S: a, T: ta, A: "given", U: p.Sess[b], B: gPick(rt, []string{"JRWPA", ""}, "reinv")}, wOp{K: "sub", S: b, T: tb},
					wOp{K: "get", S: b, T: tb, A: "desc"}, wOp{K: "note", S: b, T: tb, A: "read", N: gInt(rt, 1, 2, "rn")}, wOp{K: "get", S: a, T: ta, A: "sub"})
			}
		case x < 12:
			// a reader working through the messages: receipts in ascending order, then a stale one
			t := topicFor(s)
			k := gInt(rt, 1, 2, "from")
			p.Ops = append(p.Ops, wOp{K: "sub", S: s, T: t}, wOp{K: "note", S: s, T: t, A: "recv", N: k}, wOp{K: "note", S: s, T: t, A: "read", N: k},
				wOp{K: "note", S: s, T: t, A: gPick(rt, []string{"read", "recv"}, "w2"), N: k + 1}, wOp{K: "note", S: s, T: t, A: "read", N: gPick(rt, []int{k, k - 1, 1000}, "stale")})
		case x < 62:
			what := gPick(rt, []string{"read", "read", "read", "recv", "recv", "recv", "kp", "kpa", "kpv", "data", "bogus", ""}, "what")
			if len(p.Cfg.Grpc) > 0 && (what == "kpa" || what == "kpv") {
				what = "kp" // the protobuf schema's note kinds do not include the audio/video variants
			}
			seq := gPick(rt, []int{-1, 0, 1, 1, 1, 2, 2, 2, 3, 3, 4, 5, 6, 1000}, "seq")
			if strings.HasPrefix(what, "kp") && gPct(rt, 80) {
				seq = 0
			}
			nop := wOp{K: "note", S: s, T: topicFor(s), A: what, N: seq}
			if gPct(rt, 7) {
				// a name which cannot be resolved: an ill-formed user id, the sender's own id
				nop.T = gPick(rt, []string{"raw:usr", "raw:usr!!!", "raw:usrAAAAAAAAAAA", fmt.Sprintf("p%d", p.Sess[s])}, "badname")
			}
			p.Ops = append(p.Ops, nop)
		case x < 68:
			p.Ops = append(p.Ops, wOp{K: "pub", S: s, T: topicFor(s)})
		case x < 70:
			p.Ops = append(p.Ops, wOp{K: "set", S: s, T: topicFor(s), A: "mode", B: gPick(rt, []string{"JRWP", "JWP", "JRP", "JRWPS"}, "want")})
		case x < 75:
			p.Ops = append(p.Ops, wOp{K: "set", S: 0, T: "g0", A: "given", U: gInt(rt, 1, 3, "tgt"), B: gPick(rt, []string{"JRWPS", "JWP", "JRP"}, "given")})
		case x < 77:
			p.Ops = append(p.Ops, wOp{K: "leave", S: s, T: topicFor(s), F: gPct(rt, 40)})
		case x < 80:
			// unsubscribe, then keep sending notes from the now detached session (recv is routed by the hub)
			t := topicFor(s)
			if u := p.Sess[s]; u <= 1 && gPct(rt, 60) {
				// the P2P topic, with a fresh message from the peer (who stays attached)
				t = fmt.Sprintf("p%d", 1-u)
				ps := 0
				if u == 0 {
					for k, x := range p.Sess {
						if x == 1 {
							ps = k
							break
						}
					}
				}
				p.Ops = append(p.Ops, wOp{K: "sub", S: s, T: t}, wOp{K: "sub", S: ps, T: fmt.Sprintf("p%d", u)}, wOp{K: "pub", S: ps, T: fmt.Sprintf("p%d", u)})
			}
			p.Ops = append(p.Ops, wOp{K: "leave", S: s, T: t, F: true},
				wOp{K: "note", S: s, T: t, A: gPick(rt, []string{"recv", "recv", "read"}, "what"), N: gInt(rt, 1, 4, "seq")})
		case x < 82:
			// a busy connection has not yet got round to the notice that its topic is gone (deleted by the owner)
			// when it sends notes: they reach a topic which has terminated, and notes are never answered
			if k := gInt(rt, 1, len(p.Sess)-1, "busy"); true {
				p.Ops = append(p.Ops, wOp{K: "sub", S: k, T: "g0"}, wOp{K: "lazy", S: k}, wOp{K: "del", S: 0, T: "g0", A: "topic", F: gPct(rt, 50)},
					wOp{K: "note", S: k, T: "g0", A: gPick(rt, []string{"kp", "read", "recv"}, "lazywhat"), N: 1}, wOp{K: "tick", N: 50}, wOp{K: "lazy", S: k, F: true})
			}
		case x < 86:
			p.Ops = append(p.Ops, wOp{K: "sub", S: s, T: topicFor(s)})
		case x < 90:
			p.Ops = append(p.Ops, wOp{K: "reload", T: gPick(rt, []string{"g0", "g0", "p1"}, "rt")})
		case x < 94:
			p.Ops = append(p.Ops, wOp{K: "get", S: s, T: topicFor(s), A: gPick(rt, []string{"desc", "sub", "desc sub"}, "what")})
		case x < 97:
			lo := gInt(rt, 1, 3, "lo")
			p.Ops = append(p.Ops, wOp{K: "del", S: s, T: topicFor(s), A: "msg", F: gPct(rt, 50), R: [][2]int{{lo, 0}}})
		default:
			p.Ops = append(p.Ops, wOp{K: "restart"})
		}
	}
	return p
}

type markRow struct {
	read, recv int
	deleted    bool
	created    int64
	want, given types.AccessMode
}

func markRows(st *mem.State) map[subKey]markRow {
	out := map[subKey]markRow{}
	for _, r := range st.Subs {
		out[subKey{r.Topic, r.User}] = markRow{r.ReadSeqId, r.RecvSeqId, r.DeletedAt != nil, r.CreatedAt.UnixNano(), r.ModeWant, r.ModeGiven}
	}
	return out
}

func effRecv(m markRow) int {
	if m.read > m.recv {
		return m.read
	}
	return m.recv
}

func topicSeq(st *mem.State, name string) int {
	for _, tr := range st.Topics {
		if tr.Name == name {
			return tr.SeqId
		}
	}
	return 0
}

type c09Obs struct {
	tainted map[string]bool
	known      func(*kit.Viol) bool
	att        *wAttach
	pre        *mem.State
	preAtt     map[int]map[string]wAtt
	preLive    map[string]*wTopicSnap
	valid      map[string]bool // user|topic -> kinds of valid notes seen
	validKinds map[string]map[string]bool
	invalid    int
	relayed    int
	badName    int // notes addressed to names which cannot be resolved
}

func (o *c09Obs) Before(w *wWorld, op *wOp) {
	o.pre = mem.A.Snapshot()
	o.preLive = w.liveTopics()
	for r := range o.tainted {
		if o.preLive[r] == nil {
			delete(o.tainted, r) // unloaded: the next load reads the store
		}
	}
	o.preAtt = map[int]map[string]wAtt{}
	for s, m := range o.att.att {
		o.preAtt[s] = map[string]wAtt{}
		for r, a := range m {
			o.preAtt[s][r] = a
		}
	}
}

func (o *c09Obs) Final(w *wWorld) *kit.Viol { return nil }

func (o *c09Obs) rep(v *kit.Viol) *kit.Viol {
	if v != nil && o.known != nil && o.known(v) {
		return nil
	}
	return v
}

// cacheAgrees: the loaded topic's cached marks and modes of uid equal the stored ones (else C08's business).
// cacheAgreesModes: the loaded topic knows the user as a subscriber, as the store does (marks are what is being judged).
func (o *c09Obs) cacheAgreesModes(route string, uid types.Uid) bool {
	lt := o.preLive[route]
	if lt == nil {
		return true
	}
	pud, ok := lt.PerUser[uid]
	return ok && !pud.deleted
}

func (o *c09Obs) cacheAgrees(route, row string, uid types.Uid) bool {
	lt := o.preLive[route]
	if lt == nil {
		return true
	}
	pud, ok := lt.PerUser[uid]
	r, rok := markRows(o.pre)[subKey{row, uid}]
	if ok && pud.deleted {
		ok = false
	}
	if rok && r.deleted {
		rok = false
	}
	// A disagreement between the loaded topic and the store is excused only where a listed cause
	// explains it: a {set} served for a non-attached session on this topic (offline-set-while-loaded)
	// or a channel reader's record (marks are not cached for readers, pinned by the repository's tests).
	// Everywhere else the stored, acknowledged state is the truth and the note is judged against it.
	excused := o.tainted[route] || (ok && pud.isChan)
	if ok != rok {
		return !excused
	}
	if !ok {
		return true
	}
	if pud.modeWant != r.want || pud.modeGiven != r.given {
		return !excused
	}
	if pud.readID == r.read && max(pud.recvID, pud.readID) == effRecv(r) {
		return true
	}
	return !excused
}

func (o *c09Obs) After(w *wWorld, st *wStep) *kit.Viol {
	defer o.att.update(w, st)
	if st.Op.K == "set" && !st.Skipped && st.Route != "" {
		if _, attached := o.preAtt[st.Sess][st.Route]; !attached && o.preLive[st.Route] != nil {
			o.tainted[st.Route] = true
		}
	}
	if st.Op.K == "restart" || st.Crashed {
		o.tainted = map[string]bool{}
	}
	post := mem.A.Snapshot()
	pre, now := markRows(o.pre), markRows(post)
	// ---- bounds and monotonicity of every stored subscription, after every step
	for k, b := range now {
		if strings.HasPrefix(k.topic, "usr") || strings.HasPrefix(k.topic, "fnd") || b.deleted {
			continue
		}
		last := topicSeq(post, chnToGrpOr(k.topic))
		if b.read < 0 || b.recv < 0 || b.read > last || b.recv > last {
			if v := o.rep(kit.V("mark-out-of-bounds", "subscription of user %d on %s has read=%d recv=%d, latest message id is %d (after %s %s)", w.userIdx(k.user), k.topic, b.read, b.recv, last, st.Op.K, st.Req)); v != nil {
				return v
			}
		}
		if a, ok := pre[k]; ok && !a.deleted && a.created == b.created {
			if b.read < a.read || effRecv(b) < effRecv(a) {
				tag := ""
				if strings.HasPrefix(k.topic, "chn") {
					tag = ":chan-reader"
				}
				if v := o.rep(kit.V("mark-decreased"+tag, "marks of user %d on %s went from read=%d recv=%d to read=%d recv=%d (after %s %s)", w.userIdx(k.user), k.topic, a.read, effRecv(a), b.read, effRecv(b), st.Op.K, st.Req)); v != nil {
					return v
				}
			}
		}
	}
	// ---- reported marks: 0 <= read <= recv <= seq wherever they are shown
	for sess, frames := range st.Frames {
		for _, f := range frames {
			if f.Meta == nil {
				continue
			}
			if d := f.Meta.Desc; d != nil && (d.ReadSeqId != 0 || d.RecvSeqId != 0) {
				if d.ReadSeqId < 0 || d.ReadSeqId > d.RecvSeqId || d.RecvSeqId > d.SeqId {
					return kit.V("reported-marks-disordered:desc", "session %d was shown {meta desc} of %s with read=%d recv=%d seq=%d", sess, f.Meta.Topic, d.ReadSeqId, d.RecvSeqId, d.SeqId)
				}
			}
			// what a user is shown about the own subscription is what is stored ("in every place they
			// are reported and stored"): judged for P2P topics and groups, for the session which asked
			if d := f.Meta.Desc; d != nil && sess == st.Sess && st.Op.K == "get" && st.Op.Obo == 0 && !st.Skipped && st.User >= 0 && f.Meta.Id == st.ReqID &&
				(strings.HasPrefix(st.Route, "p2p") || strings.HasPrefix(st.Route, "grp")) && !o.tainted[st.Route] {
				if at, attached := o.preAtt[sess][st.Route]; attached && !at.Chan && !strings.HasPrefix(st.Name, "chn") {
					// (a subscriber without R is not shown marks at all)
					if row, ok := now[subKey{st.Route, w.users[st.User].uid}]; ok && !row.deleted && (row.want&row.given).IsReader() && o.cacheAgreesModes(st.Route, w.users[st.User].uid) {
						if d.ReadSeqId != row.read || d.RecvSeqId != effRecv(row) {
							return o.rep(kit.V("reported-marks-differ-from-stored", "user %d was shown {meta desc} of %s with read=%d recv=%d; the stored subscription has read=%d recv=%d", st.User, st.Route, d.ReadSeqId, d.RecvSeqId, row.read, effRecv(row)))
						}
					}
				}
			}
			for _, s := range f.Meta.Sub {
				if s.ReadSeqId < 0 || s.ReadSeqId > s.RecvSeqId {
					return kit.V("reported-marks-disordered:sub", "session %d was shown {meta sub} of %s listing %s%s with read=%d recv=%d", sess, f.Meta.Topic, s.User, s.Topic, s.ReadSeqId, s.RecvSeqId)
				}
				if s.SeqId > 0 && s.RecvSeqId > s.SeqId {
					return kit.V("reported-marks-disordered:sub-seq", "session %d was shown {meta sub} of %s listing %s%s with recv=%d seq=%d", sess, f.Meta.Topic, s.User, s.Topic, s.RecvSeqId, s.SeqId)
				}
			}
		}
	}
	if st.Op.K != "note" || st.Skipped || st.User < 0 {
		return nil
	}
	// ---- a note whose topic name cannot be resolved (ill-formed user id, the sender's own id):
	// nothing to attach to, so the 409 of the pinned test does not apply: dropped without any reply
	if strings.HasPrefix(st.Name, "usr") {
		if peer := types.ParseUserId(st.Name); peer.IsZero() || peer == w.users[st.User].uid {
			o.invalid++
			o.badName++
			for sess, frames := range st.Frames {
				for _, f := range frames {
					return kit.V("unresolvable-note-answered", "note %s names a topic which cannot exist (%q); it must be dropped silently but session %d received %s", st.Req, st.Name, sess, wJSON(f))
				}
			}
			return nil
		}
	}
	// ---- the note itself
	uid := w.users[st.User].uid
	route := st.Route
	at, attached := o.preAtt[st.Sess][route]
	what, seq := st.Op.A, st.Op.N
	row := route
	asChanName := strings.HasPrefix(st.Name, "chn")
	if attached && at.Chan {
		row = types.GrpToChn(route)
	}
	// A reader who spells the topic grpXXX is served as a reader (channelAccess); a normal subscriber
	// who spells it chnXXX is still taken for a reader by the note path.
	misaddressed := attached && !at.Chan && asChanName
	if !misaddressed && !o.cacheAgrees(route, row, uid) {
		return nil
	}
	if !attached && asChanName {
		return nil
	}
	m, subscribed := pre[subKey{row, uid}]
	if subscribed && m.deleted {
		subscribed = false
	}
	mode := m.want & m.given
	last := topicSeq(o.pre, route)
	suspended := false
	if ts, ok := topicState(o.pre, route); ok && ts != types.StateOK {
		suspended = true
	}
	valid := false
	switch what {
	case "kp", "kpa", "kpv":
		valid = attached && seq == 0 && subscribed && mode.IsWriter() && !suspended
	case "read":
		valid = attached && seq > 0 && seq <= last && subscribed && mode.IsReader() && seq > m.read
	case "recv":
		valid = seq > 0 && seq <= last && subscribed && mode.IsReader() && seq > effRecv(m)
		if !attached && o.preLive[route] == nil {
			valid = false // topic not loaded: the note is dropped
		}
	}
	if misaddressed {
		// a normal subscriber addressing the topic as chnXXX: wrong channel addressing
		valid = false
	}
	if !attached && what != "recv" {
		// answered 409 'attach first' (pinned by TestDispatchNoteOnNonSubscribedTopic): only "no effect" is judged
		valid = false
	}
	key := fmt.Sprintf("%d|%s", st.User, route)
	b := now[subKey{row, uid}]
	if valid {
		if o.validKinds[key] == nil {
			o.validKinds[key] = map[string]bool{}
		}
		o.validKinds[key][what+fmt.Sprint(seq)] = true
		switch what {
		case "read":
			if b.read != seq {
				return o.rep(kit.V("valid-read-not-stored", "valid read note #%d by user %d on %s left the stored read mark at %d (was %d)", seq, st.User, row, b.read, m.read))
			}
		case "recv":
			if effRecv(b) != seq {
				return o.rep(kit.V("valid-recv-not-stored", "valid recv note #%d by user %d on %s left the stored recv mark at %d (was %d)", seq, st.User, row, effRecv(b), effRecv(m)))
			}
		}
	} else {
		o.invalid++
		// no store change at all for this subscription
		if subscribed && (b.read != m.read || effRecv(b) != effRecv(m)) {
			sig := "invalid-note-moved-marks:" + what
			if misaddressed {
				sig = "chan-reader-addressing:" + sig
			}
			return o.rep(kit.V(sig, "invalid note %s by user %d on %s (attached=%v mode=%v last=%d marks %d/%d) changed the stored marks to %d/%d", st.Req, st.User, row, attached, mode, last, m.read, m.recv, b.read, b.recv))
		}
	}
	// ---- relays
	for sess, frames := range st.Frames {
		for _, f := range frames {
			isReceipt := f.Pres != nil && (f.Pres.What == "read" || f.Pres.What == "recv")
			if f.Info == nil && !isReceipt {
				if f.Ctrl != nil && sess == st.Sess && attached {
					return kit.V("note-answered", "note %s was answered with {ctrl %d}", st.Req, f.Ctrl.Code)
				}
				// (a session which is not attached may be told 'attach first'; 'locked' is what a topic
				// which has terminated says to requests, and it never says it to notes)
				if f.Ctrl != nil && sess == st.Sess && f.Ctrl.Code == 503 && f.Ctrl.Text == "locked" {
					return kit.V("note-answered:locked", "note %s reached a topic which had terminated and was answered with %s", st.Req, wJSON(f))
				}
				continue
			}
			if !valid {
				sig := "invalid-note-relayed:" + what
				if misaddressed {
					sig = "chan-reader-addressing:" + sig
				}
				return o.rep(kit.V(sig, "invalid note %s by user %d (attached=%v subscribed=%v mode=%v last=%d marks %d/%d) produced %s at session %d", st.Req, st.User, attached, subscribed, mode, last, m.read, m.recv, wJSON(f), sess))
			}
			o.relayed++
			if sess == st.Sess {
				return kit.V("note-echoed-to-origin", "note %s came back to the originating session %d as %s", st.Req, sess, wJSON(f))
			}
			ratt, rAttached := o.preAtt[sess][route]
			ruser := w.sess[sess].user
			if f.Pres != nil {
				// receipt on 'me' for the user's own other sessions
				if ruser != st.User {
					return kit.V("receipt-pres-to-other-user", "{pres %s} for user %d's note reached session %d of user %d", f.Pres.What, st.User, sess, ruser)
				}
				if f.Pres.SeqId != seq {
					return kit.V("receipt-pres-wrong-seq", "{pres %s seq=%d} for note #%d", f.Pres.What, f.Pres.SeqId, seq)
				}
				continue
			}
			info := f.Info
			if info.From != uid.UserId() {
				return kit.V("info-wrong-sender", "{info} for note of user %d names from=%q", st.User, info.From)
			}
			if info.What != what || (what != "kp" && what != "kpa" && what != "kpv" && info.SeqId != seq) {
				return kit.V("info-altered", "{info} %s does not match note %s", wJSON(info), st.Req)
			}
			if info.Topic == "me" {
				// offline relay through the recipient's 'me'
				if ruser < 0 || w.routeOfName(info.Src, ruser) != route {
					return kit.V("info-wrong-topic", "{info} on 'me' at session %d names src=%q which is not how user %d addresses %s", sess, info.Src, ruser, route)
				}
				if what == "kp" && ruser == st.User {
					return kit.V("kp-to-own-session", "typing note of user %d reached another session (%d) of the same user through 'me'", st.User, sess)
				}
				rm, rok := pre[subKey{route, w.users[ruser].uid}]
				if !rok || rm.deleted || !(rm.want & rm.given).IsReader() || !(rm.want & rm.given).IsPresencer() {
					if o.cacheAgrees(route, route, w.users[ruser].uid) {
						return kit.V("info-leaked:me", "{info %s} of %s reached session %d of user %d on 'me' who is not a subscriber with R and P (row: %+v)", what, route, sess, ruser, rm)
					}
				}
				continue
			}
			if !rAttached {
				return kit.V("info-to-detached", "{info %s} reached session %d which is not attached to %s", what, sess, route)
			}
			if ratt.Chan {
				return kit.V("info-to-channel-reader", "{info %s} reached session %d attached as a channel reader", what, sess)
			}
			rm, rok := pre[subKey{route, w.users[ratt.User].uid}]
			if (!rok || rm.deleted || !(rm.want & rm.given).IsReader()) && o.cacheAgrees(route, route, w.users[ratt.User].uid) {
				return kit.V("info-to-non-reader", "{info %s} reached session %d of user %d who has no R on %s", what, sess, ratt.User, route)
			}
			if (what == "kp") && ratt.User == st.User {
				return kit.V("kp-to-own-session", "typing note of user %d reached another session (%d) of the same user", st.User, sess)
			}
			wantTopic := route
			if strings.HasPrefix(route, "p2p") {
				u1, u2, _ := types.ParseP2P(route)
				if w.users[ratt.User].uid == u1 {
					wantTopic = u2.UserId()
				} else {
					wantTopic = u1.UserId()
				}
			}
			if info.Topic != wantTopic {
				return kit.V("info-wrong-topic", "{info} at session %d (user %d) names topic %q, the recipient addresses it as %q", sess, ratt.User, info.Topic, wantTopic)
			}
		}
	}
	return nil
}

func c09Exec(t *testing.T, r *kit.Run) func(wProg) kit.Outcome {
	return func(p wProg) kit.Outcome {
		r.WAL(p)
		obs := &c09Obs{att: newWAttach(), validKinds: map[string]map[string]bool{}, tainted: map[string]bool{}}
		obs.known = func(v *kit.Viol) bool { return r.IsKnown(v.Sig) && r.Violation(v, p) }
		var res wRunResult
		fail := wInBubble(t, func() { res = wExec(&p, obs, nil) })
		two := false
		for _, kinds := range obs.validKinds {
			if len(kinds) >= 2 {
				two = true
			}
		}
		o := kit.Outcome{NonTrivial: two && obs.invalid >= 1 && obs.relayed >= 1}
		if obs.relayed > 0 {
			o.Classes = append(o.Classes, "relayed")
		}
		if two {
			o.Classes = append(o.Classes, "two-valid-notes")
		}
		if obs.badName > 0 {
			o.Classes = append(o.Classes, "note-to-unresolvable-name")
		}
		if fail != "" && res.Viol == nil {
			o.Skip = true
			fmt.Println("C09 bubble failure (not judged here):", firstLine(fail))
			return o
		}
		o.Viol = res.Viol
		return o
	}
}

func TestC09Marks(t *testing.T) {
	r := kit.Begin("C09", "TestC09Marks")
	defer r.Flush()
	kit.CheckRun(t, r, c09Gen, c09Exec(t, r))
}

func chnToGrpOr(name string) string {
	if g := types.ChnToGrp(name); g != "" {
		return g
	}
	return name
}
