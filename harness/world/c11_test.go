package main

// C11 — sessions can only act within their handshake and authentication state.
// One session under test (slot 1) starts from a fresh connection and sends a generated
// sequence; slot 0 (user 1, attached to the group) observes what is published.

import (
	"bytes"
	"crypto/hmac"
	"crypto/sha256"
	"encoding/base64"
	"encoding/binary"
	"encoding/json"
	"fmt"
	"strings"
	"testing"
	"time"

	"github.com/tinode/chat/server/auth"
	"github.com/tinode/chat/server/store"
	"github.com/tinode/chat/server/store/types"
	kit "github.com/tinode/chat/server/zzverifkit"
	mem "github.com/tinode/chat/server/zzverifmem"
	"golang.org/x/crypto/bcrypt"
	"pgregory.net/rapid"
)

var c11BcryptHash []byte

const c11Password = "secret12"

// c11Token builds a token independently of the authenticator (layout from auth_token.go's
// comment: [8:uid][4:expires][2:level][2:serial][2:features][32:hmac-sha256]).
func (w *wWorld) c11Token(u int, variant string) []byte {
	var cfg struct {
		Key    []byte `json:"key"`
		Serial int    `json:"serial_num"`
	}
	json.Unmarshal([]byte(wTokenCfg), &cfg)
	uid := uint64(0x1234)
	lvl := uint16(auth.LevelAuth)
	if u >= 0 && u < len(w.users) {
		uid = uint64(w.users[u].uid)
		lvl = uint16(w.users[u].level)
	}
	expires := uint32(time.Now().Add(time.Hour).Unix())
	serial := uint16(cfg.Serial)
	features := uint16(0)
	key := cfg.Key
	switch variant {
	case "expired":
		expires = uint32(time.Now().Add(-time.Minute).Unix())
	case "expiring": // valid for 3 seconds
		expires = uint32(time.Now().Add(3 * time.Second).Unix())
	case "serial":
		serial++
	case "nologin":
		features = uint16(auth.FeatureNoLogin)
	case "foreignkey":
		key = append([]byte("x"), key...)
	case "rootclaim":
		lvl = uint16(auth.LevelRoot)
		key = append([]byte("y"), key...)
	}
	buf := new(bytes.Buffer)
	binary.Write(buf, binary.LittleEndian, uid)
	binary.Write(buf, binary.LittleEndian, expires)
	binary.Write(buf, binary.LittleEndian, lvl)
	binary.Write(buf, binary.LittleEndian, serial)
	binary.Write(buf, binary.LittleEndian, features)
	h := hmac.New(sha256.New, key)
	h.Write(buf.Bytes())
	out := append(buf.Bytes(), h.Sum(nil)...)
	switch variant {
	case "badsig":
		out[len(out)-1] ^= 1
	case "short":
		out = out[:30]
	case "levelup":
		out[12] = byte(auth.LevelRoot) // claims root without re-signing
	}
	return out
}

type c11Prog struct {
	wProg
	Validators bool   `json:"validators,omitempty"` // a validated e-mail is required at auth level
	State2     string `json:"state2,omitempty"`     // state of user 2: "", "susp", "del"
}

func c11Gen(rt *rapid.T) c11Prog {
	p := c11Prog{}
	p.Cfg = wConfig{Users: 4, Root: true, Anon: []int{3}}
	p.Validators = gPct(rt, 35)
	p.State2 = gPick(rt, []string{"", "susp", "susp", "del"}, "state2")
	p.Sess = []int{1, -2}
	p.Ops = append(p.Ops, wOp{K: "sub", S: 0, T: "new"}, wOp{K: "sub", S: 0, T: "me"})
	reqs := func() wOp {
		op := gPick(rt, []wOp{
			{K: "sub", T: "me"}, {K: "sub", T: "g0"}, {K: "sub", T: "p0"}, {K: "pub", T: "g0"}, {K: "pub", T: "sys"},
			{K: "get", T: "me", A: "desc"}, {K: "get", T: "g0", A: "desc sub"}, {K: "get", T: "g0", A: "desc"}, {K: "get", T: "g0", A: "sub"}, {K: "get", T: "g0", A: "data"}, {K: "set", T: "me", A: "public", B: "x"},
			{K: "set", T: "g0", A: "private", B: "y"}, {K: "leave", T: "g0"}, {K: "del", T: "g0", A: "msg", R: [][2]int{{1, 0}}},
			{K: "note", T: "g0", A: "read", N: 1}, {K: "note", T: "g0", A: "kp"}, {K: "del", A: "user", U: 2},
		}, "req")
		op.S = 1
		if op.K == "pub" && gPct(rt, 50) {
			op.H = map[string]any{"sender": gPick(rt, []string{"$u1", "usrAAAAAAAAAAE", "x"}, "fake"), "mime": "text/plain"}
		}
		if gPct(rt, 25) {
			op.Obo = gInt(rt, 1, 3, "obo")
		}
		return op
	}
	// Often start from a plain handshake and a valid login, so that the authenticated state is
	// reached and the rest of the program is judged there; the other programs probe the early states.
	if gPct(rt, 55) {
		p.Ops = append(p.Ops, wOp{K: "hi", S: 1, A: "0.22"})
		if gPct(rt, 65) {
			p.Ops = append(p.Ops, wOp{K: "login", S: 1, A: "token", U: gInt(rt, 0, 3, "u0"), B: "valid"})
		}
	}
	n := gInt(rt, 2, 12, "nops")
	for i := 0; i < n; i++ {
		switch x := gInt(rt, 0, 99, "opk"); {
		case x < 18:
			p.Ops = append(p.Ops, wOp{K: "hi", S: 1, A: gPick(rt, []string{"0.22", "0.22", "0.22", "0.21", "0.15", "abc", "", "99", "0.22.1", "0.22.7", "0.22.1"}, "ver")})
		case x < 42:
			var op wOp
			if gPct(rt, 75) {
				op = wOp{K: "login", S: 1, A: "token", U: gInt(rt, 0, 3, "u"),
					B: gPick(rt, []string{"valid", "valid", "valid", "expired", "expiring", "serial", "nologin", "badsig", "short", "foreignkey", "levelup", "rootclaim"}, "variant")}
			} else if gPct(rt, 60) {
				op = wOp{K: "login", S: 1, A: "basic", B: gPick(rt, []string{"alice1:" + c11Password, "alice1:wrongpass", "ALICE1:" + c11Password, "nobody:" + c11Password, "alice2:" + c11Password, "alice1:"}, "basic")}
			} else if gPct(rt, 50) {
				// an authenticator which reports the account's state itself and may ask for a second stage
				ru := gInt(rt, 0, 1, "ru")
				op = wOp{K: "login", S: 1, A: wRestName, B: fmt.Sprintf("%d:%s:%s", ru, gPick(rt, []string{"ok", "ok", "susp", "del"}, "rstate"), gPick(rt, []string{"0", "0", "1"}, "rch"))}
			} else {
				op = wOp{K: "login", S: 1, A: gPick(rt, []string{"nosuch", "", "anon", "code"}, "scheme"), B: "x"}
			}
			if op.A == "basic" && strings.HasPrefix(op.B, "alice2:") && gPct(rt, 60) {
				// the login answers the pending confirmation request, with the right or a wrong code
				op.X = []string{wValidatorName + ":|" + gPick(rt, []string{"000000", "000000", wValidatorCode, "12345", ""}, "lcode")}
			}
			p.Ops = append(p.Ops, op)
			if op.A == wRestName && strings.HasSuffix(op.B, ":1") {
				// between the stages nothing is allowed yet; then (mostly) the challenge is answered
				if gPct(rt, 60) {
					p.Ops = append(p.Ops, wOp{K: "get", S: 1, T: "me", A: "desc"})
				}
				if gPct(rt, 70) {
					p.Ops = append(p.Ops, wOp{K: "login", S: 1, A: wRestName, B: op.B + ":resp"})
				}
			}
			if op.A == "token" && op.B == "nologin" && gPct(rt, 60) {
				// the reply to a restricted token carries a token again: it is as restricted as the first
				p.Ops = append(p.Ops, wOp{K: "login", S: 1, A: "token", B: "returned"})
			}
			if op.A == "basic" && gPct(rt, 40) {
				// the client logs in again with whatever token the reply carried (also a 300 "validate credentials" reply carries one)
				p.Ops = append(p.Ops, wOp{K: "login", S: 1, A: "token", B: "returned"})
			}
			if gPct(rt, 70) {
				p.Ops = append(p.Ops, wOp{K: "get", S: 1, T: "me", A: "desc"})
			}
		case x < 47:
			p.Ops = append(p.Ops, wOp{K: "tick", N: gPick(rt, []int{100, 4000}, "ms")})
		case x < 52:
			p.Ops = append(p.Ops, wOp{K: "acc", S: 1, U: gInt(rt, 0, 2, "u"), A: gPick(rt, []string{"susp", "ok", ""}, "st")})
		case x < 54:
			// the store fails while the credentials of the account are looked up during a login
			p.Ops = append(p.Ops, wOp{K: "fault", N: 1, A: "CredGetAll"},
				wOp{K: "login", S: 1, A: "basic", B: gPick(rt, []string{"alice1:" + c11Password, "alice2:" + c11Password}, "basic2")})
			if gPct(rt, 50) {
				p.Ops = append(p.Ops, wOp{K: "login", S: 1, A: "token", B: "returned"})
			}
			if gPct(rt, 70) {
				p.Ops = append(p.Ops, wOp{K: "get", S: 1, T: "me", A: "desc"})
			}
		case x < 56:
			// create a new account, mostly asking to be logged in as that account right away
			acc := wOp{K: "acc", S: 1, B: "new", A: fmt.Sprintf("newbie%d:%s", i, c11Password), F: gPct(rt, 75)}
			if gPct(rt, 70) {
				// with an address to be validated: no response can be given yet (sometimes a made-up one is)
				acc.X = []string{fmt.Sprintf("%s:newbie%d@vmail.test%s", wValidatorName, i, gPick(rt, []string{"", "", "", "|123456", "|000000"}, "resp"))}
			}
			p.Ops = append(p.Ops, acc)
			if gPct(rt, 50) {
				// the link in the confirmation message carries a temporary token: it must not log anybody in
				p.Ops = append(p.Ops, wOp{K: "login", S: 1, A: "token", B: "mailed", U: gInt(rt, 0, 3, "um")})
				if gPct(rt, 60) {
					p.Ops = append(p.Ops, wOp{K: "login", S: 1, A: "token", B: "returned"})
				}
				p.Ops = append(p.Ops, wOp{K: "get", S: 1, T: "me", A: "desc"})
			}
		default:
			p.Ops = append(p.Ops, reqs())
		}
	}
	if gPct(rt, 10) {
		// long polling: two logins of one session arrive in parallel HTTP requests, the slow one (a password
		// to hash) first: a session logs in at most once
		p.Ops = append(p.Ops, wOp{K: "hi", S: 1, A: "0.22"}, wOp{K: "par", Par: []wOp{
			{K: "login", S: 1, A: "basic", B: "alice1:" + c11Password},
			{K: "login", S: 1, A: "token", U: gPick(rt, []int{0, 2, 3}, "paru"), B: "valid", L: gInt(rt, 0, 3, "pary")}}})
	}
	return p
}

type c11Obs struct {
	p        *c11Prog
	setup    bool
	ver      bool
	verStr   string
	uid      int // -1 = not authenticated
	expireAt time.Time
	pre      map[string]string
	refused  int
	served   int
	reached  bool
	cred2Done bool // user 2 has confirmed the address (a login carried the right code)
	cred2Fails int // wrong codes so far
	retTok   bool // a login used the token handed out by an earlier login reply
	retRestricted bool // the token handed out last answered a login with a restricted (no-login) token
	unknown  bool // the session created an account and logged in as it: the model does not follow further
}

func (o *c11Obs) doSetup(w *wWorld) {
	o.setup = true
	o.uid = -1
	globals.authValidators = nil
	if o.p.Validators {
		wUseValidator(true, false)
		globals.authValidators = map[auth.Level][]string{auth.LevelAuth: {wValidatorName}}
		// users 0 and 1 have a validated address, user 2 does not
		for _, u := range []int{0, 1} {
			store.Users.UpsertCred(&types.Credential{User: w.users[u].uid.String(), Method: wValidatorName, Value: fmt.Sprintf("u%d@example.com", u), Done: true})
		}
		// user 2's address is waiting for its confirmation code
		store.Users.UpsertCred(&types.Credential{User: w.users[2].uid.String(), Method: wValidatorName, Value: "u2@" + wValidatorDomain, Resp: wValidatorCode})
	}
	wUseRestAuth()
	basic := store.Store.GetAuthHandler("basic")
	if !basic.IsInitialized() {
		if err := basic.Init(json.RawMessage(`{"add_to_tags":false,"min_login_length":3,"min_password_length":3}`), "basic"); err != nil {
			panic(err)
		}
	}
	if c11BcryptHash == nil {
		c11BcryptHash, _ = bcrypt.GenerateFromPassword([]byte(c11Password), bcrypt.MinCost)
	}
	store.Users.AddAuthRecord(w.users[1].uid, auth.LevelAuth, "basic", "alice1", c11BcryptHash, time.Time{})
	store.Users.AddAuthRecord(w.users[2].uid, auth.LevelAuth, "basic", "alice2", c11BcryptHash, time.Time{})
	switch o.p.State2 {
	case "susp":
		store.Users.UpdateState(w.users[2].uid, types.StateSuspended)
	case "del":
		store.Users.Delete(w.users[2].uid, false)
	}
}

func (o *c11Obs) Before(w *wWorld, op *wOp) {
	if !o.setup {
		o.doSetup(w)
	}
	o.pre = c08StoreDigest(mem.A.Snapshot())
}

func (o *c11Obs) Final(w *wWorld) *kit.Viol { return nil }

// userOK: may user u log in at all?
func (o *c11Obs) userOK(u int) (ok bool, needCred bool) {
	if u == 2 && o.p.State2 != "" {
		return false, false
	}
	if o.p.Validators && u == 2 && !o.cred2Done {
		return false, true
	}
	return true, false
}

func (o *c11Obs) After(w *wWorld, st *wStep) *kit.Viol {
	if st.Op.K == "par" && !o.unknown {
		var okd []string
		for _, s := range st.Sub {
			if c := s.reply(); s.Op.K == "login" && s.Sess == 1 && c != nil && c.Code >= 200 && c.Code < 300 {
				okd = append(okd, fmt.Sprintf("%s -> %d %v", s.Req, c.Code, c.Params))
			}
		}
		if len(okd) > 1 {
			return kit.V("two-logins-accepted-on-one-session", "requests of one long-polling session sent in parallel: %d logins were accepted (%v); the session is now %s", len(okd), okd, w.sess[1].s.uid.UserId())
		}
		o.unknown = true // (which of the two won is the scheduler's choice: the model does not follow further)
		return nil
	}
	if st.Sess != 1 || st.Skipped || o.unknown {
		return nil
	}
	if st.Op.K == "acc" && st.Op.B == "new" {
		code := st.code()
		uidNow := w.sess[1].s.uid
		switch {
		case !o.ver:
			if code < 400 || !uidNow.IsZero() {
				return kit.V("request-before-handshake:acc", "{acc new} before {hi} was answered %d", code)
			}
		case o.uid >= 0 && st.Op.F:
			// a session logs in at most once: creating an account with login=true on an authenticated session
			if code < 400 || uidNow != w.users[o.uid].uid {
				return kit.V("second-login-via-acc-new", "{acc user=new login=true} on a session authenticated as user %d was answered %d; the session is now %s", o.uid, code, uidNow.UserId())
			}
			o.refused++
		case o.uid >= 0:
			if uidNow != w.users[o.uid].uid {
				return kit.V("second-login-via-acc-new", "{acc user=new} without login changed the session's user to %s", uidNow.UserId())
			}
		default:
			if !uidNow.IsZero() {
				if !st.Op.F {
					return kit.V("acc-new-logged-in-unasked", "{acc user=new} without login=true authenticated the session as %s", uidNow.UserId())
				}
				if o.p.Validators {
					// a validated address is required at this level and none can be validated at creation
					return kit.V("acc-new-logged-in-without-validated-credential", "%s was answered %d and authenticated the session as %s although the required credential has not been validated", st.Req, code, uidNow.UserId())
				}
				o.unknown = true
			}
		}
		return nil
	}
	if st.Op.K == "tick" {
		return nil
	}
	c := st.reply()
	if c == nil {
		// replies sent before the handler runs (bad on-behalf-of, malformed) carry no id
		for _, f := range st.Frames[1] {
			if f.Ctrl != nil && f.Ctrl.Id == "" {
				c = f.Ctrl
			}
		}
	}
	code := 0
	if c != nil {
		code = c.Code
	}
	ok2xx := code >= 200 && code < 300
	post := c08StoreDigest(mem.A.Snapshot())
	changed := diffDigest(o.pre, post)
	ss := w.sess[1]
	// white-box cross-check of the model
	defer func() {
		ss.user = o.uid
	}()
	frames := st.Frames[1]
	switch st.Op.K {
	case "hi":
		v := parseVersion(st.Op.A)
		switch {
		case !o.ver && v != 0 && versionCompare(v, minSupportedVersionValue) >= 0:
			if !ok2xx {
				return kit.V("hi-refused", "first {hi ver=%q} was answered %d", st.Op.A, code)
			}
			o.ver, o.verStr = true, st.Op.A
		case !o.ver:
			if ok2xx {
				return kit.V("bad-version-accepted", "{hi ver=%q} was accepted (%d)", st.Op.A, code)
			}
		case st.Op.A == "" || parseVersion(st.Op.A) == parseVersion(o.verStr):
			// repeated handshake with the same version: fine either way
		default:
			if code < 400 {
				return kit.V("version-changed-after-handshake", "{hi ver=%q} after a handshake with %q was answered %d", st.Op.A, o.verStr, code)
			}
			if ss.s.ver != parseVersion(o.verStr) {
				return kit.V("version-changed-after-handshake", "session version changed to %d", ss.s.ver)
			}
		}
		return nil
	case "login":
		if !o.ver {
			if code < 400 || !ss.s.uid.IsZero() {
				return kit.V("login-before-handshake", "{login} before {hi} was answered %d (session uid %v)", code, ss.s.uid)
			}
			o.refused++
			return nil
		}
		if st.Fired && o.uid < 0 && o.ver {
			// the store failed inside this login (the fault plan names the credential look-up): it must not succeed
			if code < 400 || !ss.s.uid.IsZero() {
				return kit.V("login-succeeded-although-store-failed", "{login %s %s} was answered %d and left the session authenticated as %s although the look-up of the account's credentials failed", st.Op.A, st.Op.B, code, ss.s.uid.UserId())
			}
			o.refused++
			return nil
		}
		if o.uid >= 0 {
			if code < 400 {
				return kit.V("second-login-accepted", "a second {login} on an authenticated session was answered %d", code)
			}
			if ss.s.uid != w.users[o.uid].uid {
				return kit.V("second-login-changed-user", "a second {login} changed the session's user")
			}
			o.refused++
			return nil
		}
		want := -1
		switch st.Op.A {
		case "token":
			if st.Op.B == "returned" {
				// whose token it is is read from the request; it authenticates iff that account may log in
				var req struct {
					Login struct {
						Secret []byte `json:"secret"`
					} `json:"login"`
				}
				json.Unmarshal([]byte(st.Req), &req)
				if len(req.Login.Secret) >= 18 {
					u := w.userIdx(types.Uid(binary.LittleEndian.Uint64(req.Login.Secret[:8])))
					// a token marked "not for logging in" (handed out in reply to such a token) never authenticates
					noLogin := auth.Feature(binary.LittleEndian.Uint16(req.Login.Secret[16:18]))&auth.FeatureNoLogin != 0 || o.retRestricted
					if okUser, _ := o.userOK(u); u >= 0 && okUser && !noLogin {
						want = u
					}
					o.retTok = true
				}
				break
			}
			if st.Op.B == "mailed" {
				break // a restricted token: never authenticates
			}
			sameAsValid := st.Op.B == "valid" || st.Op.B == "expiring" ||
				(st.Op.B == "levelup" && st.Op.U >= 0 && st.Op.U < len(w.users) && w.users[st.Op.U].level == auth.LevelRoot)
			if okUser, _ := o.userOK(st.Op.U); okUser && sameAsValid {
				want = st.Op.U
			}
		case wRestName:
			// authenticates iff the authenticator reports the account as fine and no challenge is outstanding
			if f := strings.Split(st.Op.B, ":"); len(f) >= 3 && f[1] == "ok" && (f[2] == "0" || len(f) >= 4) {
				want = wAtoi(f[0])
			}
		case "basic":
			login := strings.SplitN(st.Op.B, ":", 2)
			if len(login) == 2 && login[1] == c11Password {
				for u, name := range map[int]string{1: "alice1", 2: "alice2"} {
					okUser, needCred := o.userOK(u)
					if needCred && strings.EqualFold(login[0], name) && len(st.Op.X) > 0 {
						switch {
						case strings.HasSuffix(st.Op.X[0], "|"+wValidatorCode) && o.cred2Fails <= wValidatorMaxRetries:
							// the login carries the right confirmation code: the address is validated on the spot
							okUser = true
							o.cred2Done = true
						case !strings.HasSuffix(st.Op.X[0], "|"):
							o.cred2Fails++ // a wrong code: counted by the validator
						}
					}
					if okUser && strings.EqualFold(login[0], name) {
						want = u
					}
				}
			}
		}
		if c != nil {
			if m, ok := c.Params.(map[string]any); ok && m["token"] != nil {
				// restricted in, restricted out
				presented := st.Op.A == "token" && (st.Op.B == "nologin" || st.Op.B == "mailed" || (st.Op.B == "returned" && o.retRestricted))
				o.retRestricted = presented
			}
		}
		got := w.userIdx(ss.s.uid)
		if ss.s.uid.IsZero() {
			got = -1
		}
		if got != want {
			if want < 0 {
				return kit.V("failed-login-authenticated:"+st.Op.A+":"+st.Op.B, "{login %s %s user=%d} (validators=%v, state of user 2=%q) left the session authenticated as user %d (reply %d)", st.Op.A, st.Op.B, st.Op.U, o.p.Validators, o.p.State2, got, code)
			}
			return kit.V("valid-login-refused", "{login %s %s user=%d} answered %d, session user %d, expected %d", st.Op.A, st.Op.B, st.Op.U, code, got, want)
		}
		if want >= 0 {
			if !ok2xx {
				return kit.V("valid-login-refused", "valid login answered %d", code)
			}
			if ss.s.authLvl != w.users[want].level {
				return kit.V("login-wrong-level", "logged in as user %d at level %v, the account's level is %v", want, ss.s.authLvl, w.users[want].level)
			}
			o.uid = want
		} else {
			o.refused++
			if changed != "" && st.Op.A != "basic" {
				return kit.V("failed-login-changed-store", "failed login changed the store: %s", changed)
			}
		}
		return nil
	}
	// every other request kind
	isNote := st.Op.K == "note"
	if isNote && st.Op.Obo > 0 && (o.uid < 0 || w.users[o.uid].level != auth.LevelRoot) {
		// extra.obo from a session that is not root is refused by the dispatcher before it looks at
		// the message kind: the 403 is about the impersonation attempt. Only "no effect" is judged.
		if changed != "" {
			return kit.V("obo-note-by-non-root", "note on behalf of another user from a non-root session changed the store: %s", changed)
		}
		for _, f := range frames {
			if f.Ctrl == nil || f.Ctrl.Code < 400 {
				return kit.V("obo-note-by-non-root", "note on behalf of another user from a non-root session produced %s", wJSON(f))
			}
		}
		return nil
	}
	switch {
	case !o.ver:
		if isNote {
			if len(frames) > 0 || changed != "" {
				return kit.V("note-before-handshake", "{note} before {hi} produced %s / %s", wFramesStr(frames), changed)
			}
			return nil
		}
		if code < 400 || changed != "" {
			return kit.V("request-before-handshake:"+st.Op.K, "%s before {hi} was answered %d (store: %s)", st.Req, code, changed)
		}
		o.refused++
		return nil
	case o.uid < 0 && st.Op.K != "acc":
		if isNote {
			if len(frames) > 0 || changed != "" {
				return kit.V("note-before-login", "{note} before login produced %s / %s", wFramesStr(frames), changed)
			}
			return nil
		}
		if code < 400 || changed != "" {
			return kit.V("request-before-login:"+st.Op.K, "%s before login was answered %d (store: %s)", st.Req, code, changed)
		}
		for _, f := range frames {
			if f.Ctrl == nil {
				return kit.V("request-before-login-served:"+st.Op.K, "%s before login was answered %d and also produced %s", st.Req, code, wJSON(f))
			}
		}
		o.refused++
		return nil
	case o.uid < 0 && st.Op.K == "acc":
		// {acc} updating an existing account from an unauthenticated session must be refused
		if code < 400 || changed != "" {
			return kit.V("acc-update-before-login", "%s before login was answered %d (store: %s)", st.Req, code, changed)
		}
		o.refused++
		return nil
	}
	o.reached = true
	// authenticated: on-behalf-of only for root
	isRoot := w.users[o.uid].level == auth.LevelRoot
	if st.Op.Obo > 0 && !isRoot {
		if isNote {
			if len(frames) > 0 || changed != "" {
				return kit.V("obo-note-by-non-root", "note on behalf of another user from a non-root session had effects")
			}
			return nil
		}
		if code < 400 || changed != "" {
			return kit.V("obo-by-non-root:"+st.Op.K, "%s from user %d (not root) was answered %d (store: %s)", st.Req, o.uid, code, changed)
		}
		o.refused++
		return nil
	}
	if st.Op.K == "acc" && !isRoot && st.Op.U != o.uid {
		if code < 400 || changed != "" {
			return kit.V("acc-other-user-by-non-root", "%s from user %d (not root) was answered %d (store: %s)", st.Req, o.uid, code, changed)
		}
		o.refused++
		return nil
	}
	if st.Op.K == "del" && st.Op.A == "user" && !isRoot && st.Op.U != o.uid {
		if code < 400 || changed != "" {
			return kit.V("del-other-user-by-non-root", "%s from user %d (not root) was answered %d (store: %s)", st.Req, o.uid, code, changed)
		}
		o.refused++
		return nil
	}
	if ok2xx {
		o.served++
	} else {
		for _, f := range frames {
			if f.Meta != nil && f.Meta.Id == st.ReqID {
				o.served++
				break
			}
		}
	}
	// published messages carry server-chosen author and sender
	if st.Op.K == "pub" && code == 202 {
		author := o.uid
		if st.Op.Obo > 0 {
			author = st.Op.Obo - 1
		}
		for _, f := range st.Frames[0] {
			if f.Data == nil || f.Data.Content != st.Token {
				continue
			}
			if f.Data.From != w.users[author].uid.UserId() {
				return kit.V("author-not-session-user", "message published by user %d (obo %d) was delivered with from=%q", o.uid, st.Op.Obo-1, f.Data.From)
			}
			sender, has := f.Data.Head["sender"]
			if st.Op.Obo > 0 && author != o.uid {
				if sender != w.users[o.uid].uid.UserId() {
					return kit.V("sender-header-wrong", "message published on behalf of user %d carries sender=%v, the real session user is %s", st.Op.Obo-1, sender, w.users[o.uid].uid.UserId())
				}
			} else if has {
				return kit.V("client-sender-header-kept", "client-supplied head.sender=%v was delivered", sender)
			}
		}
	}
	return nil
}

func c11Exec(t *testing.T, r *kit.Run) func(c11Prog) kit.Outcome {
	return func(p c11Prog) kit.Outcome {
		r.WAL(p)
		obs := &c11Obs{p: &p}
		var res wRunResult
		fail := wInBubble(t, func() { res = wExec(&p.wProg, obs, nil) })
		o := kit.Outcome{NonTrivial: obs.reached && obs.refused >= 1 && obs.served >= 1}
		if p.Validators {
			o.Classes = append(o.Classes, "validators")
		}
		if obs.reached {
			o.Classes = append(o.Classes, "reached-login")
		}
		if obs.retTok {
			o.Classes = append(o.Classes, "login-with-returned-token")
		}
		if fail != "" && res.Viol == nil {
			o.Skip = true
			fmt.Println("C11 bubble failure (not judged here):", firstLine(fail))
			return o
		}
		o.Viol = res.Viol
		return o
	}
}

func TestC11SessionState(t *testing.T) {
	r := kit.Begin("C11", "TestC11SessionState")
	defer r.Flush()
	kit.CheckRun(t, r, c11Gen, c11Exec(t, r))
}

var _ = base64.StdEncoding
