package main

// C18 (store mappers) — creating an account with its built-in subscriptions and tags is one
// operation for its caller (store.Users.Create: adapter UserCreate, then the 'me' and 'fnd'
// subscriptions through adapter TopicShare, with a compensating hard delete when the second step
// fails). The adapter-level units (harness/c18mysql, harness/c18pg) judge each adapter call on
// its own; this unit judges the composition above them with the in-memory adapter, which fails
// the k-th adapter call of the operation.
//
// Oracle: when a call failed, Users.Create returns an error and the store holds exactly what it
// held before (no account row, no subscription, no tag index entry); when no call failed, it
// returns the account and the store holds the row, both subscriptions and the tag index.

import (
	"encoding/json"
	"fmt"
	"sort"
	"sync"
	"testing"

	"github.com/tinode/chat/server/store"
	"github.com/tinode/chat/server/store/types"
	kit "github.com/tinode/chat/server/zzverifkit"
	mem "github.com/tinode/chat/server/zzverifmem"
	"pgregory.net/rapid"
)

type c18wCase struct {
	Pre     int      `json:"pre"`  // accounts which exist already
	Tags    []string `json:"tags"` // tags of the new account
	Public  bool     `json:"public"`
	Private bool     `json:"private"`
	Nth     int      `json:"nth"`    // 0 = no failure, k = the k-th adapter call fails
	Method  string   `json:"method"` // if set, the Nth call of this adapter method fails
}

func c18wGen(rt *rapid.T) c18wCase {
	c := c18wCase{Pre: gInt(rt, 0, 2, "pre"), Public: gPct(rt, 60), Private: gPct(rt, 40)}
	// callers hand over normalised tag lists (no duplicates)
	seen := map[string]bool{}
	for i, n := 0, gInt(rt, 0, 3, "ntags"); i < n; i++ {
		if tg := gPick(rt, []string{"alpha", "beta", "email:a@x.co", "tel:+14155550000", "basic:newbie", "gamma"}, "tag"); !seen[tg] {
			seen[tg] = true
			c.Tags = append(c.Tags, tg)
		}
	}
	switch x := gInt(rt, 0, 9, "how"); {
	case x < 2:
	case x < 6:
		c.Nth = gInt(rt, 1, 4, "nth")
	default:
		c.Nth = 1
		c.Method = gPick(rt, []string{"UserCreate", "TopicShare", "TopicShare", "UserDelete"}, "method")
	}
	return c
}

var c18wOnce sync.Once

func c18wDigest() string {
	s := mem.A.Snapshot()
	var rows []string
	for _, u := range s.Users {
		tags := append([]string(nil), u.Tags...)
		idx := append([]string(nil), u.TagIdx...)
		sort.Strings(tags)
		sort.Strings(idx)
		rows = append(rows, fmt.Sprintf("user %s state=%v tags=%v idx=%v", u.ID.UserId(), u.State, tags, idx))
	}
	for _, r := range s.Subs {
		rows = append(rows, fmt.Sprintf("sub %s %s deleted=%v", r.Topic, r.User.UserId(), r.DeletedAt != nil))
	}
	for _, t := range s.Topics {
		rows = append(rows, "topic "+t.Name)
	}
	for _, a := range s.Auth {
		rows = append(rows, "auth "+a.Uname)
	}
	for _, c := range s.Creds {
		rows = append(rows, "cred "+c.Method+":"+c.Value)
	}
	sort.Strings(rows)
	b, _ := json.Marshal(rows)
	return string(b)
}

func c18wExec(r *kit.Run) func(c18wCase) kit.Outcome {
	return func(c c18wCase) kit.Outcome {
		r.WAL(c)
		c18wOnce.Do(func() {
			wProcessInit()
			if err := store.Store.Open(1, json.RawMessage(wStoreCfg)); err != nil {
				panic("store open: " + err.Error())
			}
		})
		mem.A.Reset()
		for i := 0; i < c.Pre; i++ {
			u := &types.User{Tags: []string{fmt.Sprintf("old%d", i)}}
			if _, err := store.Users.Create(u, nil); err != nil {
				panic("c18w set-up: " + err.Error())
			}
		}
		before := c18wDigest()
		user := &types.User{Tags: append([]string(nil), c.Tags...)}
		user.Access.Auth, user.Access.Anon = types.ModeCP2P, types.ModeNone
		if c.Public {
			user.Public = map[string]any{"fn": "new"}
		}
		var private any
		if c.Private {
			private = map[string]any{"note": "x"}
		}
		mem.A.Arm(mem.Plan{FailNth: c.Nth, FailMethod: c.Method})
		got, err := store.Users.Create(user, private)
		fired := mem.A.Fired
		mem.A.Disarm()
		after := c18wDigest()
		o := kit.Outcome{NonTrivial: fired}
		switch {
		case fired:
			o.Classes = append(o.Classes, "a-call-failed")
			if err == nil {
				o.Viol = kit.V("swallowed-error:Users.Create", "adapter call %d (%s) failed inside store.Users.Create, which returned no error (user=%v)", c.Nth, c.Method, got != nil)
			} else if after != before {
				o.Viol = kit.V("partial-write:Users.Create", "adapter call %d (%s) failed inside store.Users.Create (error %v); the store changed from %s to %s", c.Nth, c.Method, err, before, after)
			}
		default:
			o.Classes = append(o.Classes, "no-failure")
			if err != nil || got == nil {
				o.Viol = kit.V("create-failed-without-fault", "store.Users.Create failed with %v although no adapter call failed", err)
				break
			}
			s := mem.A.Snapshot()
			subs := 0
			for _, r := range s.Subs {
				if r.User == got.Uid() && r.DeletedAt == nil && (r.Topic == got.Uid().UserId() || r.Topic == got.Uid().FndName()) {
					subs++
				}
			}
			found := false
			for _, u := range s.Users {
				if u.ID == got.Uid() {
					found = true
					want := map[string]bool{}
					for _, tg := range c.Tags {
						want[tg] = true
					}
					have := map[string]bool{}
					for _, tg := range u.TagIdx {
						have[tg] = true
					}
					if len(want) != len(have) {
						o.Viol = kit.V("incomplete-account:tags", "account created with tags %v has tag index %v", c.Tags, u.TagIdx)
					}
				}
			}
			if !found || subs != 2 {
				o.Viol = kit.V("incomplete-account", "store.Users.Create succeeded: account row present=%v, built-in subscriptions=%d (want 2)", found, subs)
			}
		}
		return o
	}
}

func TestC18StoreAccount(t *testing.T) {
	r := kit.Begin("C18", "TestC18StoreAccount")
	defer r.Flush()
	kit.CheckRun(t, r, c18wGen, c18wExec(r))
}

// ---------------------------------------------------------------- other compositions of the store mappers
//
// store.Messages.DeleteList = adapter MessageDeleteList (messages + deletion log), TopicUpdate (the
// topic's delete-transaction number), SubsUpdate (the subscriptions' delete numbers);
// store.Topics.Create = adapter TopicCreate + TopicShare (the owner's subscription).
// Same oracle as above: a failed adapter call is reported to the caller, and then the store holds
// what it held before; without a failure the operation takes full effect.

type c18oCase struct {
	Op     string   `json:"op"` // dellist | newtopic
	Hard   bool     `json:"hard,omitempty"`
	Msgs   int      `json:"msgs"`
	Ranges [][2]int `json:"ranges,omitempty"`
	Nth    int      `json:"nth"`
	Method string   `json:"method,omitempty"`
}

func c18oGen(rt *rapid.T) c18oCase {
	c := c18oCase{Op: gPick(rt, []string{"dellist", "dellist", "newtopic"}, "op"), Hard: gPct(rt, 50), Msgs: gInt(rt, 2, 6, "msgs")}
	for i, n := 0, gInt(rt, 1, 3, "nr"); i < n; i++ {
		lo := gInt(rt, 1, c.Msgs, "lo")
		c.Ranges = append(c.Ranges, [2]int{lo, gPick(rt, []int{0, lo + 1, lo + 2}, "hi")})
	}
	switch x := gInt(rt, 0, 9, "how"); {
	case x < 2:
	case x < 6:
		c.Nth = gInt(rt, 1, 3, "nth")
	default:
		c.Nth = 1
		if c.Op == "dellist" {
			c.Method = gPick(rt, []string{"MessageDeleteList", "TopicUpdate", "SubsUpdate", "SubsUpdate"}, "method")
		} else {
			c.Method = gPick(rt, []string{"TopicCreate", "TopicShare"}, "method")
		}
	}
	return c
}

func c18oDigest() string {
	s := mem.A.Snapshot()
	var rows []string
	for _, t := range s.Topics {
		rows = append(rows, fmt.Sprintf("topic %s seq=%d del=%d owner=%s", t.Name, t.SeqId, t.DelId, t.Owner.UserId()))
	}
	for _, r := range s.Subs {
		rows = append(rows, fmt.Sprintf("sub %s %s del=%d deleted=%v", r.Topic, r.User.UserId(), r.DelId, r.DeletedAt != nil))
	}
	for _, m := range s.Msgs {
		rows = append(rows, fmt.Sprintf("msg %s#%d delid=%d content=%s", m.Topic, m.SeqId, m.DelId, string(m.Content)))
	}
	for _, d := range s.Dellog {
		rows = append(rows, fmt.Sprintf("dellog %s #%d for=%s %d..%d", d.Topic, d.DelId, d.DeletedFor.UserId(), d.Low, d.Hi))
	}
	sort.Strings(rows)
	b, _ := json.Marshal(rows)
	return string(b)
}

func c18oExec(r *kit.Run) func(c18oCase) kit.Outcome {
	return func(c c18oCase) kit.Outcome {
		r.WAL(c)
		c18wOnce.Do(func() {
			wProcessInit()
			if err := store.Store.Open(1, json.RawMessage(wStoreCfg)); err != nil {
				panic("store open: " + err.Error())
			}
		})
		mem.A.Reset()
		must := func(err error) {
			if err != nil {
				panic("c18o set-up: " + err.Error())
			}
		}
		var uids []types.Uid
		for i := 0; i < 2; i++ {
			u := &types.User{}
			_, err := store.Users.Create(u, nil)
			must(err)
			uids = append(uids, u.Uid())
		}
		name := "grpC18oStoreOps"
		if c.Op == "dellist" {
			must(store.Topics.Create(&types.Topic{ObjHeader: types.ObjHeader{Id: name}, Access: types.DefaultAccess{Auth: types.ModeCPublic}}, uids[0], nil))
			must(store.Subs.Create(&types.Subscription{User: uids[1].String(), Topic: name, ModeWant: types.ModeCPublic, ModeGiven: types.ModeCPublic}))
			for i := 1; i <= c.Msgs; i++ {
				m := &types.Message{SeqId: i, Topic: name, From: uids[0].String(), Content: fmt.Sprintf("m%d", i)}
				m.InitTimes()
				err, _ := store.Messages.Save(m, nil, false)
				must(err)
			}
		}
		before := c18oDigest()
		var rs []types.Range
		for _, x := range c.Ranges {
			rs = append(rs, types.Range{Low: x[0], Hi: x[1]})
		}
		sort.Sort(types.RangeSorter(rs))
		rs = types.RangeSorter(rs).Normalize()
		mem.A.Arm(mem.Plan{FailNth: c.Nth, FailMethod: c.Method})
		var err error
		op := ""
		switch c.Op {
		case "dellist":
			op = "Messages.DeleteList"
			forUser := uids[1]
			if c.Hard {
				forUser = types.ZeroUid
			}
			err = store.Messages.DeleteList(name, 1, forUser, rs)
		default:
			op = "Topics.Create"
			err = store.Topics.Create(&types.Topic{ObjHeader: types.ObjHeader{Id: name}, Access: types.DefaultAccess{Auth: types.ModeCPublic}}, uids[0], map[string]any{"note": "x"})
		}
		fired, failedMethod := mem.A.Fired, mem.A.FiredMethod
		mem.A.Disarm()
		after := c18oDigest()
		o := kit.Outcome{NonTrivial: fired, Classes: []string{op}}
		switch {
		case fired:
			o.Classes = append(o.Classes, "a-call-failed")
			if err == nil {
				o.Viol = kit.V("swallowed-error:"+op+":"+failedMethod, "adapter call %s failed inside store.%s, which returned no error", failedMethod, op)
			} else if after != before {
				o.Viol = kit.V("partial-write:"+op+":"+failedMethod, "adapter call %s failed inside store.%s (error reported: %v) after earlier calls of the same operation had been written: the store changed from %s to %s", failedMethod, op, err, before, after)
			}
		default:
			o.Classes = append(o.Classes, "no-failure")
			if err != nil {
				o.Viol = kit.V("failed-without-fault:"+op, "store.%s failed with %v although no adapter call failed", op, err)
			} else if after == before {
				o.Viol = kit.V("no-effect:"+op, "store.%s reported success and changed nothing", op)
			}
		}
		return o
	}
}

func TestC18StoreOps(t *testing.T) {
	r := kit.Begin("C18", "TestC18StoreOps")
	defer r.Flush()
	kit.CheckRun(t, r, c18oGen, c18oExec(r))
}
