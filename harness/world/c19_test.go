package main

// C19 (world part) — tags and search on a running server.
//
// A generated history of {set tags} on 'me' and on group topics (owner / non-owner), {acc tags},
// group creation with tags, {set fnd desc public|private=<query>} + {get fnd what=sub}, account
// suspension / deletion and topic deletion runs against the real hub/topics/sessions under a
// generated configuration of reserved (immutable), masked and rewriting namespaces. The oracle is
// a reference model of accounts, group topics, their tags and states, advanced only by what the
// server acknowledged; after every step it is compared with the store (tags, tag index, state of
// every account and group topic), with the topics' cached tags, with every {meta tags} and with
// the {meta sub} / {ctrl} answer of every search.
//
// Clauses decided here:
//   (a) the set of reserved-namespace tags of an account / topic never changes by a client request;
//       an accepted update stores exactly the normalised image of the request, a refused one nothing;
//   (b) a query using a masked-namespace term (as written or after rewriting) the searcher does not
//       carry is refused; otherwise the result is exactly the set of visible accounts / topics whose
//       tags satisfy the query (whitespace = AND, comma = OR, OR binds tighter);
//   (c) ordinary users never see suspended or deleted accounts / topics; root sees what the store holds;
//   (d) e-mail / phone / login look-alikes are rewritten only under the configuration that indexes them
//       (the configuration is installed by the observer, the engine needs no change).
//
// The query grammar, rewriting and tag syntax references are the ones of the pure harness
// (harness/c19: c19RefParse, c19Accept, c19NormOne, c19NSOf), which compiles into this package.

import (
	"fmt"
	"reflect"
	"sort"
	"strings"
	"time"
	"testing"

	"github.com/tinode/chat/server/auth"
	"github.com/tinode/chat/server/store"
	"github.com/tinode/chat/server/store/types"
	kit "github.com/tinode/chat/server/zzverifkit"
	mem "github.com/tinode/chat/server/zzverifmem"
	"pgregory.net/rapid"
)

const c19wArm = "c19w-arm"       // marker (tick op): from here on the namespace configuration is in force
const c19wAccLogin = "c19w-acc-login" // marker (raw op): {acc user=self scheme=basic secret=newlogin:password}; X[0] is the new login
const c19wAccNew = "c19w-acc-new" // marker (raw op): {acc user=new tags=X}: a new account created with tags
const c19wAccTags = "c19w-acc"   // marker (raw op): {acc user=self tags=X}
const c19wNewGrp = "c19w-newgrp" // marker (raw op): {sub new set.tags=X}
const c19wCred = "c19w-cred"     // marker (raw op): {set me cred={meth=email resp=...}} confirming the pending e-mail
const c19wCredReq = "c19w-credreq" // marker (raw op): {set me cred={meth=vmail val=...}}: a new credential, no response yet
const c19wMaxTags = 16           // wBoot: globals.maxTagCount

type c19wNS struct {
	Email  int      `json:"email"`            // 0 no validator, 1 validator without add_to_tags, 2 with add_to_tags
	Tel    int      `json:"tel"`              // same
	Vmail  int      `json:"vmail,omitempty"`  // same for the harness's working validator (validator_test.go): new credentials can be requested
	Login  bool     `json:"login,omitempty"`  // basic authenticator add_to_tags
	Extra  []string `json:"extra,omitempty"`  // further immutable namespaces (as declared by a REST authenticator)
	Masked []string `json:"masked,omitempty"` // masked_tags
	// a validated e-mail is required at auth level: every account has a validated credential
	// u<i>@x.co and a pending one pend<i>@x.co (response 123456) which {set cred} may confirm
	Cred bool `json:"cred,omitempty"`
}

type c19wProg struct {
	wProg
	NS   c19wNS     `json:"ns"`
	Seed [][]string `json:"seed"` // account tags written through the store before the first request, as authenticators/validators do
}

func (ns c19wNS) immutable() map[string]bool {
	out := map[string]bool{}
	if ns.Email == 2 {
		out["email"] = true
	}
	if ns.Tel == 2 {
		out["tel"] = true
	}
	if ns.Vmail == 2 {
		out[wValidatorName] = true
	}
	if ns.Login {
		out["basic"] = true
	}
	for _, e := range ns.Extra {
		out[e] = true
	}
	return out
}

func (ns c19wNS) masked() map[string]bool {
	out := map[string]bool{}
	for _, e := range ns.Masked {
		out[e] = true
	}
	return out
}

// ---------------------------------------------------------------- generator

var c19wPlain = []string{"flowers", "travel", "puppies", "мир", "東京", "new_york", "x.y", "bob", "alice", "kittens"}
var c19wLogins = []string{"root0", "bob", "alice", "carol"}
var c19wOrgs = []string{"org:acme", "org:acme", "org:globex", "org:globex"}

func c19wUserNSTags(i int) map[string]string {
	return map[string]string{
		"email": fmt.Sprintf("email:u%d@x.co", i),
		"tel":   fmt.Sprintf("tel:+1415555267%d", i),
		"basic": "basic:" + c19wLogins[i%len(c19wLogins)],
		"org":   c19wOrgs[i%len(c19wOrgs)],
		"geo":   fmt.Sprintf("geo:9q8y%d", i%2),
	}
}

var c19wNSOrder = []string{"email", "tel", "basic", "org", "geo"}

func c19wFilterNS(tags []string, ns map[string]bool) []string {
	var out []string
	for _, tg := range tags {
		if n, prefixed, _ := c19NSOf(tg); prefixed && ns[n] {
			out = append(out, tg)
		}
	}
	return out
}

func c19wVary(rt *rapid.T, s string) string {
	switch gInt(rt, 0, 11, "vary") {
	case 0:
		return strings.ToUpper(s)
	case 1:
		return " " + s
	case 2:
		return s + " \t"
	case 3:
		return strings.ToUpper(s[:1]) + s[1:]
	}
	return s
}

// c19wGenTags draws the tag list of an update for a target whose reserved tags are rs.
func c19wGenTags(rt *rapid.T, rs []string, foreign []string) []string {
	var out []string
	keep := func() { out = append(out, rs...) }
	switch gPick(rt, []string{"keep", "drop", "add", "keep", "null", "respell", "keep", "none", "replace", "keep", "keep"}, "tmode") {
	case "keep":
		keep()
	case "drop": // drop one reserved tag
		keep()
		if len(out) > 0 {
			k := gInt(rt, 0, len(out)-1, "drop")
			out = append(out[:k:k], out[k+1:]...)
		}
	case "add": // add a namespaced tag which the target does not have
		keep()
		out = append(out, gPick(rt, foreign, "foreign"))
	case "respell": // same reserved tags spelled differently
		for _, r := range rs {
			out = append(out, gPick(rt, []string{strings.ToUpper(r), " " + r, r + " ", strings.ToUpper(r[:1]) + r[1:], r}, "respell"))
		}
	case "none": // none of the reserved tags
	case "null": // the null value: clear all
		if gPct(rt, 40) {
			keep()
		}
		out = append(out, gPick(rt, []string{"␡", "␡", " ␡ "}, "null"))
	case "replace": // replace the value of a reserved tag
		keep()
		if len(out) > 0 {
			k := gInt(rt, 0, len(out)-1, "repl")
			out[k] = gPick(rt, foreign, "foreign")
		}
	}
	n := gInt(rt, 0, 4, "nplain")
	for i := 0; i < n; i++ {
		switch x := gInt(rt, 0, 99, "pk"); {
		case x < 60:
			out = append(out, c19wVary(rt, gPick(rt, c19wPlain, "plain")))
		case x < 70 && len(out) > 0: // duplicate, maybe in another case
			d := out[gInt(rt, 0, len(out)-1, "dup")]
			if gPct(rt, 50) {
				d = strings.ToUpper(d) + " "
			}
			out = append(out, d)
		case x < 90:
			out = append(out, gPick(rt, []string{"a", "", "  ", "#hash", "-dash", "_u", "@at", ".dot", "!x", strings.Repeat("z", 97), strings.Repeat("é", 96),
				strings.Repeat("東", 97), "МИР", "Ünï", "9lives", "x1", "new york", "ß", "ab"}, "odd"))
		default:
			out = append(out, gPick(rt, foreign, "foreign"))
		}
	}
	if gInt(rt, 0, 39, "many") == 23 { // more than the count limit
		for i := 0; i < 18; i++ {
			out = append(out, fmt.Sprintf("t%02d", i))
		}
	}
	// order must not matter
	if len(out) > 1 && gPct(rt, 50) {
		k := gInt(rt, 1, len(out)-1, "rot")
		out = append(append([]string(nil), out[k:]...), out[:k]...)
	}
	if out == nil {
		out = []string{}
	}
	return out
}

func c19wGen(rt *rapid.T) c19wProg {
	p := c19wProg{}
	p.Cfg = wConfig{Users: 4, Root: gPct(rt, 75), NoPush: true}
	if gPct(rt, 30) {
		p.Cfg.Anon = []int{3} // user 3 is logged in at the anonymous level: an ordinary user all the same
	}
	p.NS = c19wNS{
		Email: gPick(rt, []int{0, 1, 2, 2, 2}, "email"),
		Tel:   gPick(rt, []int{0, 1, 2, 2}, "tel"),
		Login: gPct(rt, 55),
		Vmail: gPick(rt, []int{0, 1, 2, 2}, "vmail"),
	}
	if gPct(rt, 50) {
		p.NS.Extra = []string{"org"}
	}
	p.NS.Cred = p.NS.Email > 0 && gPct(rt, 50)
	for _, n := range []string{"email", "tel", "org", "geo"} {
		if gPct(rt, 45) {
			p.NS.Masked = append(p.NS.Masked, n)
		}
	}
	imm := p.NS.immutable()
	p.Sess = append([]int(nil), gPick(rt, [][]int{{0, 1, 2, 3}, {0, 1, 2, 3}, {0, 1, 2, 3, 1}}, "layout")...)
	gGrpc(rt, &p.wProg, 15)

	// account tags as the authenticator / validators would have written them
	var foreign []string
	for i := 0; i < p.Cfg.Users; i++ {
		var tags []string
		nst := c19wUserNSTags(i)
		for _, n := range c19wNSOrder {
			foreign = append(foreign, nst[n])
			if gPct(rt, 65) {
				tags = append(tags, nst[n])
			}
		}
		for k, n := 0, gInt(rt, 0, 3, "nseed"); k < n; k++ {
			tg := gPick(rt, c19wPlain, "seedplain")
			dup := false
			for _, x := range tags {
				dup = dup || x == tg
			}
			if !dup {
				tags = append(tags, tg)
			}
		}
		if tags == nil {
			tags = []string{}
		}
		p.Seed = append(p.Seed, tags)
	}
	grpNS := [][]string{{"email:g0@x.co", "org:acme", "geo:9q8y0", "tel:+14155552680"}, {"email:g1@x.co", "org:globex", "geo:9q8y1", "basic:grp1"}}
	for _, g := range grpNS {
		foreign = append(foreign, g...)
	}
	foreign = append(foreign, "email:new@x.co", "tel:+14155550000", "basic:zed", "org:evil", "geo:u4pr", "rest:x1")

	// ---- set-up phase (no namespace is reserved yet): everybody attaches to 'me' and 'fnd';
	// users 1 and 2 create a group each and tag it.
	for s := range p.Sess {
		p.Ops = append(p.Ops, wOp{K: "sub", S: s, T: "me"}, wOp{K: "sub", S: s, T: "fnd"})
	}
	grpTags := [][]string{nil, nil}
	owners := []int{1, 2}
	for k := 0; k < 2; k++ {
		kind := "new"
		if gPct(rt, 30) {
			kind = "nch"
		}
		p.Ops = append(p.Ops, wOp{K: "sub", S: owners[k], T: kind})
		var tags []string
		for _, tg := range grpNS[k] {
			if gPct(rt, 50) {
				tags = append(tags, tg)
			}
		}
		for j, n := 0, gInt(rt, 0, 2, "ngrp"); j < n; j++ {
			tg := gPick(rt, c19wPlain, "grpplain")
			dup := false
			for _, x := range tags {
				dup = dup || x == tg
			}
			if !dup {
				tags = append(tags, tg)
			}
		}
		grpTags[k] = tags
		if len(tags) > 0 {
			p.Ops = append(p.Ops, wOp{K: "set", S: owners[k], T: fmt.Sprintf("g%d", k), A: "tags", X: tags})
		}
	}
	if gPct(rt, 70) { // user 3 becomes a member (not the owner) of g0
		p.Ops = append(p.Ops, wOp{K: "set", S: 1, T: "g0", A: "given", U: 3, B: "JRWPS"}, wOp{K: "sub", S: 3, T: "g0"})
	}
	if gPct(rt, 40) {
		p.Ops = append(p.Ops, wOp{K: "set", S: 2, T: "g1", A: "given", U: 1, B: "JRWPAS"}, wOp{K: "sub", S: 1, T: "g1"})
	}
	p.Ops = append(p.Ops, wOp{K: "tick", N: 1, A: c19wArm})

	resUser := func(u int) []string { return c19wFilterNS(p.Seed[u], imm) }
	resGrp := func(k int) []string { return c19wFilterNS(grpTags[k], imm) }
	sessOf := func(u int) []int {
		var out []int
		for s, x := range p.Sess {
			if x == u {
				out = append(out, s)
			}
		}
		return out
	}

	// ---- queries
	term := func(u int) string {
		var t string
		switch x := gInt(rt, 0, 99, "tk"); {
		case x < 34:
			t = gPick(rt, c19wPlain, "qplain")
		case x < 48: // a namespaced tag the searcher was given
			t = c19wUserNSTags(u)[gPick(rt, c19wNSOrder, "ownns")]
		case x < 66: // somebody else's
			if gPct(rt, 30) {
				t = gPick(rt, grpNS[gInt(rt, 0, 1, "qg")], "grpns")
			} else {
				t = c19wUserNSTags(gInt(rt, 0, 3, "other"))[gPick(rt, c19wNSOrder, "otherns")]
			}
		case x < 92: // look-alikes subject to rewriting
			j := gInt(rt, 0, 3, "whose")
			if gPct(rt, 35) {
				j = u
			}
			t = gPick(rt, []string{fmt.Sprintf("u%d@x.co", j), fmt.Sprintf("u%d@x.co", j), fmt.Sprintf("+1415555267%d", j), fmt.Sprintf("415555267%d", j),
				c19wLogins[j], "g0@x.co", "+14155552680"}, "alike")
		default:
			t = gPick(rt, []string{"a", "a:b", "#x", "ab_c:x", "email:", "nosuchtag", "u9@x.co"}, "qodd")
		}
		if gPct(rt, 10) {
			t = strings.ToUpper(t)
		}
		if gPct(rt, 9) {
			t = `"` + t + `"`
		}
		return t
	}
	query := func(u int) string {
		n := gPick(rt, []int{1, 1, 2, 2, 2, 3, 3, 4}, "nterms")
		var sb strings.Builder
		for i := 0; i < n; i++ {
			if i > 0 {
				sb.WriteString(gPick(rt, []string{" ", ",", " ", ", ", " ", ",", "  ", " ", "\t", ",", " , ", " ", ", ", ",,", " ,", " ", ",", " ", ",", " "}, "sep"))
			}
			sb.WriteString(term(u))
		}
		q := sb.String()
		if gInt(rt, 0, 39, "mangle") == 17 {
			q = gPick(rt, []string{`"` + q, q + ",", q + `"`, "," + q}, "how")
		}
		return q
	}

	// probe: somebody else looks for the object which has just been suspended / deleted / reinstated
	probe := func(tags []string, notUser int) {
		if len(tags) == 0 || !gPct(rt, 75) {
			return
		}
		var cands []int
		for s, u := range p.Sess {
			if u != notUser {
				cands = append(cands, s)
			}
		}
		s := gPick(rt, cands, "prober")
		q := gPick(rt, tags, "probetag")
		if gPct(rt, 30) {
			q += gPick(rt, []string{",", ", ", " "}, "probesep") + gPick(rt, c19wPlain, "probeplain")
		}
		p.Ops = append(p.Ops, wOp{K: "set", S: s, T: "fnd", H: map[string]any{"public": q}}, wOp{K: "get", S: s, T: "fnd", A: "sub"})
	}
	deadUser := map[int]bool{}
	n := gInt(rt, 8, 26, "nops")
	for i := 0; i < n; i++ {
		s := gInt(rt, 0, len(p.Sess)-1, "s")
		u := p.Sess[s]
		switch x := gInt(rt, 0, 99, "opk"); {
		case x >= 28 && x < 60 && gPct(rt, 6):
			// a new account is created with a tag list which needs cleaning (and, past the limit, hides a reserved tag)
			tags := c19wGenTags(rt, nil, foreign)
			switch gInt(rt, 0, 3, "dirty") {
			case 0:
				tags = append(tags, "dup", "DUP", "x", "#hash", " padded ")
			case 1:
				for k := 0; k < 16; k++ {
					tags = append(tags, fmt.Sprintf("filler%02d", k))
				}
				tags = append(tags, gPick(rt, foreign, "hidden"))
			case 2:
				tags = append([]string{"plain", "plain"}, tags...)
			}
			raw := wJSON(map[string]any{"acc": map[string]any{"id": "$id", "user": "new", "scheme": "basic", "secret": fmt.Sprintf("$b64:newacc%d:secret%d", i, i), "tags": tags}})
			p.Ops = append(p.Ops, wOp{K: "raw", S: s, A: raw, B: c19wAccNew})
		case p.NS.Login && u >= 0 && u < len(c19wLogins) && x < 40 && gPct(rt, 6):
			// the account changes its login (or only the password): the authenticator replaces the tag it maintains
			nl := gPick(rt, []string{fmt.Sprintf("fresh%da", u), fmt.Sprintf("fresh%db", u), c19wLogins[u], c19wLogins[(u+1)%len(c19wLogins)], ""}, "newlogin")
			raw := wJSON(map[string]any{"acc": map[string]any{"id": "$id", "user": "$self", "scheme": "basic", "secret": "$b64:" + nl + ":password" + fmt.Sprint(i)}})
			p.Ops = append(p.Ops, wOp{K: "raw", S: s, A: raw, B: c19wAccLogin, X: []string{nl}}, wOp{K: "get", S: s, T: "me", A: "tags"})
		case x < 28: // search
			q := query(u)
			if gPct(rt, 78) {
				p.Ops = append(p.Ops, wOp{K: "set", S: s, T: "fnd", H: map[string]any{"public": q}})
			} else {
				p.Ops = append(p.Ops, wOp{K: "set", S: s, T: "fnd", H: map[string]any{"public": "␡", "private": q}})
			}
			if gPct(rt, 8) {
				// the store fails to read the searcher's own account while the query is checked
				p.Ops = append(p.Ops, wOp{K: "fault", N: 1, A: "UserGet"})
			}
			p.Ops = append(p.Ops, wOp{K: "get", S: s, T: "fnd", A: "sub"})
		case x < 53: // account tags
			p.Ops = append(p.Ops, wOp{K: "set", S: s, T: "me", A: "tags", X: c19wGenTags(rt, resUser(u), foreign)})
		case x < 67: // group tags, by the owner or by somebody else
			k := gInt(rt, 0, 1, "grp")
			by := owners[k]
			if gPct(rt, 30) {
				by = s
			}
			p.Ops = append(p.Ops, wOp{K: "set", S: by, T: fmt.Sprintf("g%d", k), A: "tags", X: c19wGenTags(rt, resGrp(k), foreign)})
		case x < 70: // {acc} update carrying tags
			raw := wJSON(map[string]any{"acc": map[string]any{"id": "$id", "user": "$self", "tags": c19wGenTags(rt, resUser(u), foreign)}})
			p.Ops = append(p.Ops, wOp{K: "raw", S: s, A: raw, B: c19wAccTags})
		case x < 74: // a new group created with tags
			tags := c19wGenTags(rt, nil, foreign)
			raw := wJSON(map[string]any{"sub": map[string]any{"id": "$id", "topic": "new", "set": map[string]any{"tags": tags}}})
			p.Ops = append(p.Ops, wOp{K: "raw", S: s, A: raw, B: c19wNewGrp, X: tags})
		case x < 78:
			if p.NS.Vmail > 0 && gPct(rt, 45) {
				// a new address is put up for validation (no response can be given yet), then tags are updated
				raw := wJSON(map[string]any{"set": map[string]any{"id": "$id", "topic": "me", "cred": map[string]any{"meth": wValidatorName, "val": fmt.Sprintf("fresh%d@vmail.test", u)}}})
				p.Ops = append(p.Ops, wOp{K: "raw", S: s, A: raw, B: c19wCredReq})
				if gPct(rt, 50) {
					p.Ops = append(p.Ops, wOp{K: "set", S: s, T: "me", A: "tags", X: c19wGenTags(rt, resUser(u), foreign)})
				}
				break
			}
			if p.NS.Cred && gPct(rt, 60) {
				// the pending e-mail is confirmed (sometimes with a wrong response), then the account's tags are updated
				resp := gPick(rt, []string{"123456", "123456", "123456", "000000"}, "resp")
				raw := wJSON(map[string]any{"set": map[string]any{"id": "$id", "topic": "me", "cred": map[string]any{"meth": "email", "resp": resp}}})
				p.Ops = append(p.Ops, wOp{K: "raw", S: s, A: raw, B: c19wCred})
				if gPct(rt, 70) {
					p.Ops = append(p.Ops, wOp{K: "set", S: s, T: "me", A: "tags", X: c19wGenTags(rt, resUser(u), foreign)})
				}
				break
			}
			p.Ops = append(p.Ops, wOp{K: "get", S: s, T: gPick(rt, []string{"me", "me", "g0", "g1"}, "tagsof"), A: "tags"})
		case x < 88: // suspension / reinstatement, mostly by user 0 (root in most cases)
			tgt := gInt(rt, 1, 3, "tgt")
			by := 0
			if gPct(rt, 15) {
				by = s
			}
			status := gPick(rt, []string{"susp", "ok", "susp"}, "status")
			if deadUser[tgt] {
				break
			}
			p.Ops = append(p.Ops, wOp{K: "acc", S: by, U: tgt, A: status})
			probe(p.Seed[tgt], tgt)
			if status == "susp" && gPct(rt, 35) { // ... and back
				status = "ok"
				p.Ops = append(p.Ops, wOp{K: "acc", S: 0, U: tgt, A: status})
				probe(p.Seed[tgt], tgt)
			}
			if status == "ok" {
				for _, ts := range sessOf(tgt) {
					p.Ops = append(p.Ops, wOp{K: "reconn", S: ts}, wOp{K: "sub", S: ts, T: "me"}, wOp{K: "sub", S: ts, T: "fnd"})
				}
			}
		case x < 91: // account deletion
			tgt := gInt(rt, 1, 3, "deltgt")
			by := 0
			if gPct(rt, 30) {
				by = sessOf(tgt)[0]
			}
			if deadUser[tgt] {
				break
			}
			deadUser[tgt] = true
			p.Ops = append(p.Ops, wOp{K: "del", S: by, A: "user", U: tgt, F: gPct(rt, 25)})
			probe(p.Seed[tgt], tgt)
		case x < 95: // topic deletion
			k := gInt(rt, 0, 1, "delgrp")
			by := owners[k]
			if gPct(rt, 20) {
				by = s
			}
			p.Ops = append(p.Ops, wOp{K: "del", S: by, T: fmt.Sprintf("g%d", k), A: "topic", F: gPct(rt, 25)})
			probe(grpTags[k], -1)
		case x < 97:
			p.Ops = append(p.Ops, wOp{K: "restart"})
			for ts := range p.Sess {
				p.Ops = append(p.Ops, wOp{K: "sub", S: ts, T: "me"}, wOp{K: "sub", S: ts, T: "fnd"})
			}
			p.Ops = append(p.Ops, wOp{K: "sub", S: owners[0], T: "g0"}, wOp{K: "sub", S: owners[1], T: "g1"})
		case x < 99:
			p.Ops = append(p.Ops, wOp{K: "leave", S: s, T: gPick(rt, []string{"fnd", "me", "g0"}, "leave")})
		default:
			p.Ops = append(p.Ops, wOp{K: "sub", S: s, T: gPick(rt, []string{"fnd", "me", "g0", "g1"}, "resub")})
		}
	}
	return p
}

// ---------------------------------------------------------------- reference model

const (
	c19wOK = iota
	c19wSusp
	c19wDel  // soft-deleted
	c19wGone // hard-deleted: no row
)

func c19wStateName(s int) string { return []string{"ok", "suspended", "deleted", "gone"}[s] }

func c19wStateOf(s types.ObjState) int {
	switch s {
	case types.StateOK:
		return c19wOK
	case types.StateSuspended:
		return c19wSusp
	case types.StateDeleted:
		return c19wDel
	}
	return -1
}

type c19wObj struct {
	tags  map[string]bool
	state int
	owner int    // groups: index of the owning user
	name  string // groups: grpXXX
	chn   bool
}

func c19wSet(tags []string) map[string]bool {
	out := map[string]bool{}
	for _, tg := range tags {
		out[tg] = true
	}
	return out
}

func c19wList(m map[string]bool) []string {
	out := make([]string, 0, len(m))
	for k := range m {
		out = append(out, k)
	}
	sort.Strings(out)
	return out
}

func c19wSameSet(a, b map[string]bool) bool {
	if len(a) != len(b) {
		return false
	}
	for k := range a {
		if !b[k] {
			return false
		}
	}
	return true
}

// c19wNormalise is the reference image of a requested tag list: every valid tag trimmed and
// lower-cased, without duplicates. clear: the list carries the null value. exact=false when the
// list is longer than the count limit (which tags are sacrificed is not specified).
func c19wNormalise(req []string) (img map[string]bool, clear, exact, open bool) {
	img = map[string]bool{}
	exact = len(req) <= c19wMaxTags
	for _, s := range req {
		n, ok := c19NormOne(s)
		if n == nullValue {
			clear = true
			continue
		}
		if ok {
			img[n] = true
			if _, _, spec := c19NSOf(n); !spec {
				open = true
			}
		}
	}
	return
}

type c19wObs struct {
	p      *c19wProg
	known  func(*kit.Viol) bool
	setup  bool
	armed  bool
	users  []*c19wObj
	groups []*c19wObj // by creation order; slots of w.groups first, then groups created by raw requests
	pub    map[int]string
	priv   map[int]string
	// statistics
	acceptedWithReserved int
	refusedReserved      int
	judgedFound          int
	judgedSearches       int
	maskedRefused        int
	maskedAllowed        int
	rewritten            int
	hiddenFromUser       int
	classes              map[string]bool
	preSubs              map[int]map[string]bool // session slot -> routable names of the topics it was attached to before the step
	logins               map[int]string          // user -> login on record with the basic authenticator
	newAccounts          []types.Uid             // accounts created by generated {acc user=new} requests
	staleMe              map[int]bool            // user -> the loaded 'me' topic has not heard of a login change (listed finding)
}

func (o *c19wObs) class(c string) { o.classes[c] = true }

func (o *c19wObs) imm() map[string]bool {
	if !o.armed {
		return map[string]bool{}
	}
	return o.p.NS.immutable()
}

func (o *c19wObs) reserved(tags map[string]bool) map[string]bool {
	return c19wSet(c19wFilterNS(c19wList(tags), o.imm()))
}

func (o *c19wObs) rep(v *kit.Viol) *kit.Viol {
	if v != nil && o.known != nil && o.known(v) {
		return nil
	}
	return v
}

func c19wBasic(on bool) {
	v := reflect.ValueOf(c19Store.GetAuthHandler("basic")).Elem()
	// name set = "initialised"; always, so that a case does not depend on the cases run before it
	c19SetUnexported(v, "name", "basic")
	c19SetUnexported(v, "minLoginLength", 2)
	c19SetUnexported(v, "addToTags", on)
}

func c19wDisarm() {
	c19wBasic(false)
	globals.validators = nil
	globals.authValidators = nil
	globals.immutableTagNS = map[string]bool{}
	globals.maskedTagNS = map[string]bool{}
}

func (o *c19wObs) doSetup(w *wWorld) {
	o.setup = true
	c19wDisarm()
	for i, tags := range o.p.Seed {
		if i >= len(w.users) {
			break
		}
		if _, err := store.Users.UpdateTags(w.users[i].uid, nil, nil, append([]string{}, tags...)); err != nil {
			panic("c19w: seeding tags: " + err.Error())
		}
		o.users = append(o.users, &c19wObj{tags: c19wSet(tags), state: c19wOK})
		if o.p.NS.Login && i < len(c19wLogins) {
			// the login the seeded tag stands for (the password hash is never used: sessions hold tokens)
			if o.logins == nil {
				o.logins = map[int]string{}
			}
			if err := store.Users.AddAuthRecord(w.users[i].uid, auth.LevelAuth, "basic", c19wLogins[i], []byte("$2a$10$notahashnotahashnotahashnotahashnotahashnotahashnotaha"), time.Time{}); err != nil {
				panic("c19w: seeding logins: " + err.Error())
			}
			o.logins[i] = c19wLogins[i]
		}
		if o.p.NS.Cred && o.p.NS.Email > 0 {
			for _, c := range []types.Credential{
				{User: w.users[i].uid.String(), Method: "email", Value: fmt.Sprintf("u%d@x.co", i), Done: true},
				{User: w.users[i].uid.String(), Method: "email", Value: fmt.Sprintf("pend%d@x.co", i), Resp: "123456"}} {
				c := c
				c.CreatedAt, c.UpdatedAt = types.TimeNow(), types.TimeNow()
				if _, err := store.Users.UpsertCred(&c); err != nil {
					panic("c19w: seeding credentials: " + err.Error())
				}
			}
		}
	}
	for len(o.users) < len(w.users) {
		o.users = append(o.users, &c19wObj{tags: map[string]bool{}, state: c19wOK})
	}
}

// arm installs the namespace configuration the way main.go derives it from the configuration file.
func (o *c19wObs) arm() {
	o.armed = true
	ns := o.p.NS
	globals.validators = map[string]credValidator{}
	if ns.Email > 0 {
		globals.validators["email"] = credValidator{addToTags: ns.Email == 2}
	}
	if ns.Tel > 0 {
		globals.validators["tel"] = credValidator{addToTags: ns.Tel == 2}
	}
	if ns.Vmail > 0 {
		wUseValidator(false, ns.Vmail == 2)
	}
	if ns.Cred && ns.Email > 0 {
		globals.authValidators = map[auth.Level][]string{auth.LevelAuth: {"email"}}
	}
	c19wBasic(ns.Login)
	globals.immutableTagNS = ns.immutable()
	globals.maskedTagNS = ns.masked()
}

func (o *c19wObs) Before(w *wWorld, op *wOp) {
	if !o.setup {
		o.doSetup(w)
	}
	o.preSubs = map[int]map[string]bool{}
	for k, ss := range w.sess {
		if ss != nil && !ss.isClosed() {
			o.preSubs[k] = c19wSet(ss.subNames())
		}
	}
	if op.K == "tick" && op.A == c19wArm {
		o.arm()
	}
}

func (o *c19wObs) Final(w *wWorld) *kit.Viol { return nil }

func (o *c19wObs) groupByName(name string) *c19wObj {
	for _, g := range o.groups {
		if g.name == name {
			return g
		}
	}
	return nil
}

func (o *c19wObs) isRootSess(w *wWorld, sess int) bool {
	return sess >= 0 && sess < len(w.sess) && w.sess[sess].user == 0 && o.p.Cfg.Root
}

// ownedFollow applies an account state to the group topics the account owns.
func (o *c19wObs) ownedFollow(u int, state int) {
	for _, g := range o.groups {
		if g.owner != u || g.state == c19wGone {
			continue
		}
		switch {
		case state == c19wGone:
			g.state = c19wGone
		case g.state == c19wDel:
			// a deleted topic stays deleted
		default:
			g.state = state
		}
	}
}

func c19wTagErr(tg string) string {
	n, ok := c19NormOne(tg)
	if n != tg {
		return "is not trimmed and lower-cased"
	}
	if !ok {
		return "does not start with a letter or digit or is not within the length limits"
	}
	return ""
}

// judgeTags decides one tag update request. old: the target's tags before; requested: the list
// sent; legit: the requester was entitled to update this target; stored: the target's tags now.
func (o *c19wObs) judgeTags(what string, st *wStep, old map[string]bool, requested []string, legit bool, code int, stored map[string]bool) (*kit.Viol, map[string]bool) {
	img, clear, exact, open := c19wNormalise(requested)
	if clear && exact {
		img = map[string]bool{}
	}
	accepted := code >= 200 && code < 300
	changed := !c19wSameSet(old, stored)
	resOld, resNew := o.reserved(old), o.reserved(stored)
	desc := fmt.Sprintf("%s: request %s answered %d; tags before %q, after %q; reserved namespaces %v", what, st.Req, code, c19wList(old), c19wList(stored), c19wList(o.imm()))
	// (1) the reserved tags never change, whatever the request and the answer
	if !c19wSameSet(resOld, resNew) {
		kind := "removed"
		for k := range resNew {
			if !resOld[k] {
				kind = "added"
			}
		}
		if clear {
			kind += ":by-clear"
		}
		return kit.V("reserved-tags-changed:"+kind, "a client request changed the tags in reserved namespaces from %q to %q. %s", c19wList(resOld), c19wList(resNew), desc), stored
	}
	// (2) whatever is stored is normalised and within the count limit
	if changed {
		for tg := range stored {
			if e := c19wTagErr(tg); e != "" {
				return kit.V("stored-tag-not-normalised", "stored tag %q %s. %s", tg, e, desc), stored
			}
		}
		if len(stored) > c19wMaxTags {
			return kit.V("stored-tags-over-count", "%d tags stored, the limit is %d. %s", len(stored), c19wMaxTags, desc), stored
		}
	}
	// (3) a refused request changes nothing
	if !accepted && changed {
		return kit.V("refused-update-changed-tags", "the request was not acknowledged but the tags changed. %s", desc), stored
	}
	if !legit {
		if accepted || changed {
			return kit.V("tags-updated-by-unentitled", "the requester is not entitled to set these tags, yet the request was acknowledged (changed=%v). %s", changed, desc), stored
		}
		return nil, old
	}
	if open {
		// a string like "email:a b": the documents do not say whether it is a tag of the namespace
		o.class("tags:open-namespace-syntax")
		return nil, stored
	}
	if !exact {
		o.class("tags:over-count-limit")
		if changed {
			for tg := range stored {
				if !img[tg] {
					return kit.V("stored-tag-invented", "stored tag %q is not the normal form of any requested tag. %s", tg, desc), stored
				}
			}
		}
		return nil, stored
	}
	resImg := o.reserved(img)
	switch {
	case !clear && len(img) == 0:
		// nothing usable in the request: nothing to do
		o.class("tags:nothing-valid")
		if accepted || changed {
			return kit.V("empty-update-acknowledged", "the request carries no valid tag and no null value, yet it was acknowledged as a change. %s", desc), stored
		}
		return nil, old
	case !c19wSameSet(resImg, resOld):
		o.refusedReserved++
		if clear {
			o.class("tags:clear-refused")
		}
		if accepted {
			// the stored reserved set is intact (checked above), yet the server claims to have done it
			return kit.V("reserved-mutation-acknowledged", "the request adds or removes reserved tags (%q vs %q) and was acknowledged. %s", c19wList(resImg), c19wList(resOld), desc), stored
		}
		return nil, old
	case c19wSameSet(img, old):
		o.class("tags:no-change")
		return nil, old
	}
	// a legitimate change: must be accepted and stored exactly
	if !accepted {
		return kit.V("legit-update-refused", "the request keeps the reserved tags and changes the others, it should be accepted (want %q). %s", c19wList(img), desc), stored
	}
	if !c19wSameSet(img, stored) {
		return kit.V("stored-tags-differ", "accepted update stored %q, the normalised request is %q. %s", c19wList(stored), c19wList(img), desc), stored
	}
	if len(resOld) > 0 {
		o.acceptedWithReserved++
	}
	if clear {
		o.class("tags:cleared")
	}
	o.class("tags:accepted")
	return nil, img
}

func c19wUserRow(snap *mem.State, uid types.Uid) (tags, idx []string, state types.ObjState, ok bool) {
	for _, u := range snap.Users {
		if u.ID == uid {
			return u.Tags, u.TagIdx, u.State, true
		}
	}
	return nil, nil, 0, false
}

func c19wTopicRow(snap *mem.State, name string) (tags, idx []string, state types.ObjState, useBt bool, ok bool) {
	for _, tr := range snap.Topics {
		if tr.Name == name {
			return tr.Tags, tr.TagIdx, tr.State, tr.UseBt, true
		}
	}
	return nil, nil, 0, false, false
}

func (o *c19wObs) After(w *wWorld, st *wStep) *kit.Viol {
	v := o.after(w, st)
	// the public query lives as long as the session's attachment to 'fnd'
	for s := range o.pub {
		ok := false
		if s < len(w.sess) && w.sess[s] != nil && !w.sess[s].isClosed() && w.sess[s].user >= 0 {
			ok = w.sess[s].s.getSub(w.users[w.sess[s].user].uid.FndName()) != nil
		}
		if !ok {
			delete(o.pub, s)
		}
	}
	if st.Op.K == "restart" || st.Crashed {
		o.pub = map[int]string{}
	}
	return v
}

func (o *c19wObs) after(w *wWorld, st *wStep) *kit.Viol {
	snap := mem.A.Snapshot()
	for i := range o.staleMe {
		if lt := w.liveTopics()[w.users[i].uid.UserId()]; lt == nil || !lt.Loaded {
			delete(o.staleMe, i) // 'me' was unloaded: the next load reads the store
		}
	}
	// groups created through the engine's bookkeeping
	if st.NewGrp >= 0 && st.User >= 0 {
		o.groups = append(o.groups, &c19wObj{tags: map[string]bool{}, state: c19wOK, owner: st.User, name: w.groups[st.NewGrp], chn: w.isChan[st.NewGrp]})
	}
	code := st.code()
	acked := code >= 200 && code < 300
	attached := false
	if st.Route != "" {
		attached = o.preSubs[st.Sess][st.Route]
	}
	actorOK := st.User >= 0 && st.User < len(o.users) && o.users[st.User].state == c19wOK

	switch {
	case st.Skipped:
	case st.Op.K == "set" && st.Op.A == "tags":
		requested := st.Op.X
		if strings.HasPrefix(st.Route, "usr") && st.User >= 0 {
			u := o.users[st.User]
			tags, _, _, ok := c19wUserRow(snap, w.users[st.User].uid)
			if !ok {
				break
			}
			if o.staleMe[st.User] {
				// the gate compares the request with tags the topic cached before a login change: not judged further
				o.class("set-tags-after-login-change(not judged)")
				u.tags = c19wSet(tags)
				break
			}
			v, next := o.judgeTags(fmt.Sprintf("account tags of user %d", st.User), st, u.tags, requested, attached && actorOK, code, c19wSet(tags))
			u.tags = next
			if v = o.rep(v); v != nil {
				return v
			}
		} else if g := o.groupByName(st.Route); g != nil && g.state != c19wGone {
			tags, _, _, _, ok := c19wTopicRow(snap, g.name)
			if !ok {
				break
			}
			legit := attached && actorOK && g.owner == st.User && g.state == c19wOK
			if attached && actorOK && g.owner == st.User && g.state != c19wOK {
				// the owner of a suspended / deleted topic: not specified whether tags may still be set
				o.class("tags:owner-of-inactive-topic")
				nv := c19wSet(tags)
				if !c19wSameSet(o.reserved(nv), o.reserved(g.tags)) {
					return o.rep(kit.V("reserved-tags-changed:inactive-topic", "tags of %s in reserved namespaces changed from %q to %q by %s", g.name, c19wList(o.reserved(g.tags)), c19wList(o.reserved(nv)), st.Req))
				}
				g.tags = nv
				break
			}
			v, next := o.judgeTags(fmt.Sprintf("tags of %s (owner: user %d, requester: user %d)", g.name, g.owner, st.User), st, g.tags, requested, legit, code, c19wSet(tags))
			g.tags = next
			if v = o.rep(v); v != nil {
				return v
			}
		}
	case st.Op.K == "raw" && st.Op.B == c19wAccNew:
		// whatever the answer: an account which exists afterwards and did not before has stored tags which
		// are normalised, within the limit, and carry nothing in a reserved namespace but the login the
		// authenticator itself adds
		known := map[types.Uid]bool{}
		for _, u := range w.users {
			known[u.uid] = true
		}
		for _, u := range o.newAccounts {
			known[u] = true
		}
		for _, ur := range snap.Users {
			if known[ur.ID] {
				continue
			}
			o.newAccounts = append(o.newAccounts, ur.ID)
			o.class("account-created-with-tags")
			if len(ur.Tags) > c19wMaxTags+1 {
				return o.rep(kit.V("stored-tags-over-count:new-account", "%s created an account with %d tags %q, the limit is %d", st.Req, len(ur.Tags), ur.Tags, c19wMaxTags))
			}
			seen := map[string]bool{}
			for _, tg := range ur.Tags {
				if e := c19wTagErr(tg); e != "" {
					return o.rep(kit.V("stored-tag-not-normalised:new-account", "%s created an account with tag %q which %s (all: %q)", st.Req, tg, e, ur.Tags))
				}
				if seen[tg] {
					return o.rep(kit.V("stored-tag-not-normalised:new-account", "%s created an account with tag %q twice (all: %q)", st.Req, tg, ur.Tags))
				}
				seen[tg] = true
			}
			for _, tg := range c19wFilterNS(ur.Tags, o.imm()) {
				if !strings.HasPrefix(tg, "basic:newacc") {
					return o.rep(kit.V("reserved-tags-at-creation:new-account", "%s created an account with tag %q in a reserved namespace %v (all: %q)", st.Req, tg, c19wList(o.imm()), ur.Tags))
				}
			}
		}
	case st.Op.K == "raw" && st.Op.B == c19wAccLogin:
		// the authenticator maintains exactly one tag per account in its namespace: the login on record
		if st.Login >= 0 && len(st.Op.X) == 1 {
			u := o.users[st.Login]
			if tags, _, _, ok := c19wUserRow(snap, w.users[st.Login].uid); ok {
				stored := c19wSet(tags)
				want := map[string]bool{}
				for tg := range u.tags {
					want[tg] = true
				}
				old, nl := o.logins[st.Login], st.Op.X[0]
				if nl == "" {
					nl = old
				}
				if acked {
					delete(want, "basic:"+old)
					want["basic:"+nl] = true
					o.class("login-changed:" + map[bool]string{true: "password-only", false: "new-login"}[nl == old])
				} else {
					o.class("login-change-refused")
				}
				if !c19wSameSet(stored, want) {
					sig := "login-change-tags"
					if !acked {
						sig = "refused-update-changed-tags:login"
					}
					return o.rep(kit.V(sig, "{acc} %s (login on record %q) answered %d: tags of user %d went from %q to %q, expected %q", st.Req, old, code, st.Login, c19wList(u.tags), c19wList(stored), c19wList(want)))
				}
				if acked {
					o.logins[st.Login] = nl
					if lt := w.liveTopics()[w.users[st.Login].uid.UserId()]; lt != nil && lt.Loaded && !c19wSameSet(stored, u.tags) {
						if o.staleMe == nil {
							o.staleMe = map[int]bool{}
						}
						o.staleMe[st.Login] = true
					}
				}
				u.tags = stored
			}
		}
	case st.Op.K == "raw" && st.Op.B == c19wAccTags:
		// {acc} of an existing account cannot carry a tag update: whatever the answer, at most a
		// legitimate change may result
		if st.Login >= 0 {
			u := o.users[st.Login]
			if tags, _, _, ok := c19wUserRow(snap, w.users[st.Login].uid); ok {
				stored := c19wSet(tags)
				if !c19wSameSet(o.reserved(stored), o.reserved(u.tags)) {
					return o.rep(kit.V("reserved-tags-changed:acc", "{acc} %s changed the reserved tags of user %d from %q to %q", st.Req, st.Login, c19wList(o.reserved(u.tags)), c19wList(o.reserved(stored))))
				}
				if !c19wSameSet(stored, u.tags) {
					if !acked {
						return o.rep(kit.V("refused-update-changed-tags:acc", "{acc} %s answered %d changed the tags of user %d from %q to %q", st.Req, code, st.Login, c19wList(u.tags), c19wList(stored)))
					}
					for tg := range stored {
						if e := c19wTagErr(tg); e != "" {
							return o.rep(kit.V("stored-tag-not-normalised:acc", "{acc} %s stored tag %q which %s", st.Req, tg, e))
						}
					}
					u.tags = stored
				}
				o.class("acc-with-tags")
			}
		}
	case st.Op.K == "raw" && st.Op.B == c19wCred:
		// a confirmed credential is a change made by the validator: the account gains the tag of
		// the confirmed e-mail when the validator is configured to index it, nothing else changes
		if st.Login >= 0 {
			u := o.users[st.Login]
			if tags, _, _, ok := c19wUserRow(snap, w.users[st.Login].uid); ok {
				stored := c19wSet(tags)
				if !c19wSameSet(stored, u.tags) {
					want := c19wSet(c19wList(u.tags))
					want[fmt.Sprintf("email:pend%d@x.co", st.Login)] = true
					if !acked || !o.armed || o.p.NS.Email != 2 || !c19wSameSet(stored, want) {
						return o.rep(kit.V("tags-changed-by-credential-request", "%s answered %d changed the tags of user %d from %q to %q (validator indexes e-mail: %v)", st.Req, code, st.Login, c19wList(u.tags), c19wList(stored), o.p.NS.Email == 2))
					}
					u.tags = stored
					o.class("credential-confirmed-tag-added")
				}
			}
		}
	case st.Op.K == "raw" && st.Op.B == c19wCredReq:
		// a credential which is merely requested is nobody's validated address: the account's tags
		// (the validator's reserved namespace included) stay as they are
		if st.Login >= 0 {
			u := o.users[st.Login]
			if tags, _, _, ok := c19wUserRow(snap, w.users[st.Login].uid); ok {
				if stored := c19wSet(tags); !c19wSameSet(stored, u.tags) {
					return o.rep(kit.V("tags-changed-by-credential-request", "%s answered %d changed the tags of user %d from %q to %q although the credential has not been validated (validator indexes addresses: %v)", st.Req, code, st.Login, c19wList(u.tags), c19wList(stored), o.p.NS.Vmail == 2))
				}
				o.class("credential-requested")
			}
		}
	case st.Op.K == "raw" && st.Op.B == c19wNewGrp:
		c := st.reply()
		img, clear, exact, open := c19wNormalise(st.Op.X)
		full := img
		if clear && exact {
			img = map[string]bool{}
		}
		resImg := o.reserved(img)
		if c != nil && c.Code >= 200 && c.Code < 300 && strings.HasPrefix(c.Topic, "grp") {
			tags, _, _, _, ok := c19wTopicRow(snap, c.Topic)
			if !ok {
				return kit.V("created-topic-not-stored", "%s was acknowledged as %s which is not in the store", st.Req, c.Topic)
			}
			g := &c19wObj{tags: c19wSet(tags), state: c19wOK, owner: st.Login, name: c.Topic}
			o.groups = append(o.groups, g)
			if res := o.reserved(g.tags); len(res) > 0 {
				return o.rep(kit.V("reserved-tags-at-creation", "topic %s was created by a client with tags %q in reserved namespaces %v: %s", c.Topic, c19wList(res), c19wList(o.imm()), st.Req))
			}
			for tg := range g.tags {
				if e := c19wTagErr(tg); e != "" {
					return o.rep(kit.V("stored-tag-not-normalised:creation", "topic %s created with tag %q which %s: %s", c.Topic, tg, e, st.Req))
				}
				if !full[tg] {
					return o.rep(kit.V("stored-tag-invented:creation", "topic %s created with tag %q which is not the normal form of any requested tag: %s", c.Topic, tg, st.Req))
				}
			}
			if exact && !open && len(resImg) == 0 && !c19wSameSet(img, g.tags) {
				return o.rep(kit.V("stored-tags-differ:creation", "topic %s created with tags %q, the normalised request is %q: %s", c.Topic, c19wList(g.tags), c19wList(img), st.Req))
			}
			o.class("group-created-with-tags")
		} else if st.Login >= 0 && exact && !open {
			if len(resImg) == 0 && actorOK && c != nil {
				return o.rep(kit.V("legit-creation-refused", "%s carries no reserved tag and was answered %d", st.Req, c.Code))
			}
			if len(resImg) > 0 {
				o.refusedReserved++
				o.class("group-creation-refused")
			}
		}
	case st.Op.K == "acc" && st.Op.A != "":
		if acked && st.Op.U >= 0 && st.Op.U < len(o.users) {
			u := o.users[st.Op.U]
			want := map[string]int{"ok": c19wOK, "susp": c19wSusp}[st.Op.A]
			if u.state == c19wOK || u.state == c19wSusp {
				u.state = want
				o.ownedFollow(st.Op.U, want)
				o.class("account-" + c19wStateName(want))
			}
		}
	case st.Op.K == "del" && st.Op.A == "user":
		if code == 0 && st.Op.U == st.Login && st.Op.U >= 0 && o.users[st.Op.U].state != c19wGone {
			// Self-deletion: the session is stopped right after the reply is queued and the writer may
			// see the stop first; the acknowledgement is then lost on the wire. Take the outcome from the store.
			_, _, state, ok := c19wUserRow(snap, w.users[st.Op.U].uid)
			switch {
			case !ok:
				o.users[st.Op.U].state = c19wGone
				o.ownedFollow(st.Op.U, c19wGone)
			case state == types.StateDeleted:
				o.users[st.Op.U].state = c19wDel
				o.ownedFollow(st.Op.U, c19wDel)
			}
			o.class("self-deletion-reply-lost")
			break
		}
		if acked && st.Op.U >= 0 && st.Op.U < len(o.users) {
			tgt := st.Op.U
			state := c19wDel
			if st.Op.F {
				state = c19wGone
			}
			o.users[tgt].state = state
			o.ownedFollow(tgt, state)
			o.class("account-" + c19wStateName(state))
		}
	case st.Op.K == "del" && st.Op.A == "topic":
		if g := o.groupByName(st.Route); g != nil && acked && g.owner == st.User && g.state != c19wGone {
			if st.Op.F {
				g.state = c19wGone
			} else {
				g.state = c19wDel
			}
			o.class("topic-" + c19wStateName(g.state))
		}
	case st.Op.K == "set" && st.Route != "" && strings.HasPrefix(st.Route, "fnd"):
		if acked && st.User >= 0 {
			if q, ok := st.Op.H["public"].(string); ok {
				if q == nullValue {
					delete(o.pub, st.Sess)
				} else {
					o.pub[st.Sess] = q
				}
			}
			if q, ok := st.Op.H["private"].(string); ok {
				if q == nullValue {
					delete(o.priv, st.User)
				} else {
					o.priv[st.User] = q
				}
			}
		}
	}

	// ---- the model and the store agree on every account and every group topic
	for i, u := range o.users {
		tags, idx, state, ok := c19wUserRow(snap, w.users[i].uid)
		if u.state == c19wGone {
			if ok {
				return o.rep(kit.V("model-store:account-still-there", "user %d was hard-deleted (acknowledged) but still has a row in the store (after %s %s)", i, st.Op.K, st.Req))
			}
			continue
		}
		if !ok {
			return o.rep(kit.V("model-store:account-missing", "user %d (%s in the model) has no row in the store (after %s %s)", i, c19wStateName(u.state), st.Op.K, st.Req))
		}
		if c19wStateOf(state) != u.state {
			return o.rep(kit.V("model-store:account-state", "user %d is %s in the model, state %v in the store (after %s %s)", i, c19wStateName(u.state), state, st.Op.K, st.Req))
		}
		if !c19wSameSet(c19wSet(tags), u.tags) || len(tags) != len(u.tags) {
			return o.rep(kit.V("model-store:account-tags", "user %d: tags %q in the store, %q in the model (after %s %s)", i, tags, c19wList(u.tags), st.Op.K, st.Req))
		}
		if !c19wSameSet(c19wSet(idx), u.tags) || len(idx) != len(u.tags) {
			return o.rep(kit.V("model-store:account-tag-index", "user %d: tag index %q, tags %q (after %s %s)", i, idx, c19wList(u.tags), st.Op.K, st.Req))
		}
	}
	nGrp := 0
	for _, tr := range snap.Topics {
		if strings.HasPrefix(tr.Name, "grp") {
			nGrp++
			if o.groupByName(tr.Name) == nil {
				return o.rep(kit.V("model-store:unknown-topic", "the store holds %s (tags %q) whose creation was never acknowledged (after %s %s)", tr.Name, tr.Tags, st.Op.K, st.Req))
			}
		}
	}
	for _, g := range o.groups {
		tags, idx, state, _, ok := c19wTopicRow(snap, g.name)
		if g.state == c19wGone {
			if ok {
				return o.rep(kit.V("model-store:topic-still-there", "%s was hard-deleted (acknowledged) but still has a row in the store (after %s %s)", g.name, st.Op.K, st.Req))
			}
			continue
		}
		if !ok {
			return o.rep(kit.V("model-store:topic-missing", "%s (%s in the model) has no row in the store (after %s %s)", g.name, c19wStateName(g.state), st.Op.K, st.Req))
		}
		if c19wStateOf(state) != g.state {
			return o.rep(kit.V("model-store:topic-state", "%s is %s in the model, state %v in the store (after %s %s)", g.name, c19wStateName(g.state), state, st.Op.K, st.Req))
		}
		if !c19wSameSet(c19wSet(tags), g.tags) || len(tags) != len(g.tags) {
			return o.rep(kit.V("model-store:topic-tags", "%s: tags %q in the store, %q in the model (after %s %s)", g.name, tags, c19wList(g.tags), st.Op.K, st.Req))
		}
		if !c19wSameSet(c19wSet(idx), g.tags) || len(idx) != len(g.tags) {
			return o.rep(kit.V("model-store:topic-tag-index", "%s: tag index %q, tags %q (after %s %s)", g.name, idx, c19wList(g.tags), st.Op.K, st.Req))
		}
	}
	// ---- the tags cached by loaded topics are the stored ones (the reserved-namespace gate reads the cache)
	for route, lt := range w.liveTopics() {
		if !lt.Loaded {
			continue
		}
		var want map[string]bool
		if strings.HasPrefix(route, "usr") {
			if i := w.userIdx(types.ParseUserId(route)); i >= 0 && o.users[i].state != c19wGone {
				want = o.users[i].tags
			}
		} else if g := o.groupByName(route); g != nil && g.state == c19wOK {
			want = g.tags
		}
		if i := w.userIdx(types.ParseUserId(route)); strings.HasPrefix(route, "usr") && i >= 0 && o.staleMe[i] {
			if want != nil && !c19wSameSet(c19wSet(lt.Tags), want) {
				if v := o.rep(kit.V("cached-tags-differ:after-login-change", "loaded topic %s caches tags %q, stored %q: the account's login was changed by {acc} and the topic was not told (after %s %s)", route, lt.Tags, c19wList(want), st.Op.K, st.Req)); v != nil {
					return v
				}
			} else {
				delete(o.staleMe, i)
			}
			continue
		}
		if want != nil && !c19wSameSet(c19wSet(lt.Tags), want) {
			return o.rep(kit.V("cached-tags-differ", "loaded topic %s caches tags %q, stored %q (after %s %s)", route, lt.Tags, c19wList(want), st.Op.K, st.Req))
		}
	}
	// ---- {meta tags}
	if st.Op.K == "get" && st.Op.A == "tags" && !st.Skipped && st.User >= 0 {
		var want map[string]bool
		entitled := false
		if strings.HasPrefix(st.Route, "usr") {
			want, entitled = o.users[st.User].tags, attached && actorOK
		} else if g := o.groupByName(st.Route); g != nil {
			want, entitled = g.tags, attached && actorOK && g.owner == st.User && g.state == c19wOK
		}
		for _, f := range st.Frames[st.Sess] {
			if f.Meta == nil || f.Meta.Id != st.ReqID || f.Meta.Tags == nil {
				continue
			}
			if !entitled {
				if g := o.groupByName(st.Route); g != nil && g.owner == st.User {
					continue // owner of an inactive topic: not judged
				}
				return o.rep(kit.V("tags-shown-to-unentitled", "{meta tags=%q} of %s sent to user %d who is not its owner / not attached", f.Meta.Tags, st.Route, st.User))
			}
			if strings.HasPrefix(st.Route, "usr") && o.staleMe[st.User] {
				continue
			}
			if !c19wSameSet(c19wSet(f.Meta.Tags), want) || len(f.Meta.Tags) != len(want) {
				return o.rep(kit.V("meta-tags-differ", "{meta tags=%q} of %s, stored tags are %q", f.Meta.Tags, st.Route, c19wList(want)))
			}
			o.class("meta-tags-checked")
		}
	}
	// ---- search
	if st.Op.K == "get" && st.Op.A == "sub" && strings.HasPrefix(st.Route, "fnd") && !st.Skipped {
		if v := o.rep(o.judgeSearch(w, st, attached && actorOK)); v != nil {
			return v
		}
	}
	return nil
}

// ---------------------------------------------------------------- search oracle

type c19wTermAlt struct {
	alts     [][]string // acceptable alternative-lists for the term
	optional bool
}

func c19wNSIn(s string, ns map[string]bool) bool {
	n, prefixed, _ := c19NSOf(s)
	return prefixed && ns[n]
}

// visible: may the searcher be shown an object in this state?
func c19wVisible(state int, root bool) bool {
	if state == c19wGone {
		return false
	}
	return root || state == c19wOK
}

func (o *c19wObs) judgeSearch(w *wWorld, st *wStep, healthy bool) *kit.Viol {
	// what the server answered
	var found map[string]any // name -> private (matched tags)
	var meta bool
	for _, f := range st.Frames[st.Sess] {
		if f.Meta != nil && f.Meta.Id == st.ReqID && f.Meta.Sub != nil {
			meta = true
			if found == nil {
				found = map[string]any{}
			}
			for _, s := range f.Meta.Sub {
				name := s.User
				if s.Topic != "" {
					name = s.Topic
				}
				if _, dup := found[name]; dup {
					return kit.V("search-duplicate-result", "%s listed twice in the results of %s", name, st.Req)
				}
				isNew := false
				for _, nu := range o.newAccounts {
					isNew = isNew || nu.UserId() == name
				}
				if isNew {
					// an account created by a generated {acc user=new}: its tags are judged at creation, it is not part of the search model
					o.class("search-lists-generated-account(not judged)")
					continue
				}
				found[name] = s.Private
			}
		}
	}
	code := st.code()
	user := st.User
	query, public := "", false
	if user >= 0 {
		if q, ok := o.pub[st.Sess]; ok {
			query, public = q, true
		} else {
			query = o.priv[user]
		}
	}
	desc := func() string {
		kind := "private"
		if public {
			kind = "public"
		}
		carried := []string{}
		if user >= 0 {
			carried = c19wList(o.users[user].tags)
		}
		return fmt.Sprintf("search by user %d (root=%v, tags %q) with the %s query %q under %+v", user, o.isRootSess(w, st.Sess), carried, kind, query, o.p.NS)
	}
	if !healthy || user < 0 || query == "" {
		if user >= 0 {
			// a session which is not attached to 'fnd' is shown the user's own subscription to it
			delete(found, w.users[user].uid.UserId())
		}
		if meta && len(found) > 0 {
			return kit.V("search-without-query-or-attachment", "%s: the session is not attached to 'fnd' / has no query, yet %d results came back", desc(), len(found))
		}
		o.class("search:not-in-position")
		return nil
	}
	root := o.isRootSess(w, st.Sess)
	me := o.users[user]

	// objects by the name a result would carry
	type cand struct {
		name  string
		tags  map[string]bool
		state int
	}
	var all []cand
	for i, u := range o.users {
		if i != user {
			all = append(all, cand{w.users[i].uid.UserId(), u.tags, u.state})
		}
	}
	for _, g := range o.groups {
		name := g.name
		if g.chn {
			name = types.GrpToChn(g.name)
		}
		all = append(all, cand{name, g.tags, g.state})
	}
	byName := map[string]cand{}
	for _, c := range all {
		byName[c.name] = c
	}

	ref := c19RefParse(query)
	cfg := c19Cfg{Email: o.p.NS.Email, Tel: o.p.NS.Tel, Login: o.p.NS.Login, WithLogin: public, Country: "US"}
	var terms []c19wTermAlt
	unspec := ref.Unspec
	everyAlt := map[string]bool{} // every string any interpretation may hand to the store
	if ref.Err == "" {
		for _, t := range ref.Terms {
			alts, rw, us := c19Accept(t, cfg)
			if us != "" {
				if unspec == "" {
					unspec = us
				}
				everyAlt[strings.ToLower(t.Text)] = true
				continue
			}
			if rw != "" {
				o.rewritten++
				o.class("search:rewrites-" + rw)
			}
			for _, a := range alts {
				for _, s := range a {
					everyAlt[s] = true
				}
			}
			terms = append(terms, c19wTermAlt{alts: alts, optional: t.Optional})
		}
	}

	// ---- safety, whatever the query means: only visible objects, only through tags the query names,
	// never through a masked tag the searcher does not carry
	masked := o.p.NS.masked()
	for name, priv := range found {
		c, ok := byName[name]
		if !ok {
			if name == w.users[user].uid.UserId() {
				return kit.V("search-found-self", "%s: the searcher is listed in the results", desc())
			}
			isNew := false
			for _, nu := range o.newAccounts {
				isNew = isNew || nu.UserId() == name
			}
			if isNew {
				continue // an account created by a generated {acc user=new}: its tags are judged at creation, it is not part of the search model
			}
			return kit.V("search-found-unknown", "%s: result %s is not an account or group topic known to the model", desc(), name)
		}
		if !c19wVisible(c.state, root) {
			return kit.V("search-shows-inactive:"+c19wStateName(c.state), "%s: result %s is %s", desc(), name, c19wStateName(c.state))
		}
		hit := false
		for a := range everyAlt {
			hit = hit || c.tags[a]
		}
		if !hit {
			return kit.V("search-found-nonmatching", "%s: result %s has tags %q, none of which the query names", desc(), name, c19wList(c.tags))
		}
		if list, ok := priv.([]any); ok {
			for _, x := range list {
				s, _ := x.(string)
				if !c.tags[s] || !everyAlt[s] {
					return kit.V("search-reveals-tag", "%s: result %s is reported as matched by %q which is not both one of its tags %q and a term of the query", desc(), name, s, c19wList(c.tags))
				}
				if c19wNSIn(s, masked) && !me.tags[s] {
					return kit.V("masked-term-accepted:matched", "%s: result %s was found through the masked tag %q which the searcher does not carry", desc(), name, s)
				}
			}
		}
	}

	if st.Fired {
		// the store failed while the search was prepared: an error reply is right; what must not happen
		// is an answer to a query naming a masked tag the searcher does not carry
		o.class("search:store-failed")
		for _, t := range terms {
			every := len(t.alts) > 0
			for _, alt := range t.alts {
				bad := false
				for _, s := range alt {
					bad = bad || (c19wNSIn(s, masked) && !me.tags[s])
				}
				every = every && bad
			}
			if every && meta && len(found) > 0 {
				return kit.V("masked-term-accepted:store-failed", "%s: the store failed during the request, and %d results came back although the query names a masked tag the searcher does not carry", desc(), len(found))
			}
		}
		return nil
	}
	if ref.Err != "" {
		o.class("search:malformed")
		if meta || (code >= 200 && code < 300) {
			return kit.V("malformed-query-answered", "%s: the query is malformed (%s) but was answered %d with %d results", desc(), ref.Err, code, len(found))
		}
		return nil
	}
	if unspec != "" {
		o.class("search:unspecified:" + unspec)
		return nil
	}
	if len(terms) == 0 {
		o.class("search:no-terms")
		return nil
	}

	// ---- exact: the answer must be the one of some acceptable interpretation of the terms
	type outcome struct {
		refuse bool
		strict map[string]bool
		loose  map[string]bool
		viaOwn bool
		hidden int
	}
	var outs []outcome
	choice := make([]int, len(terms))
	for {
		var oc outcome
		for k, t := range terms {
			for _, s := range t.alts[choice[k]] {
				if c19wNSIn(s, masked) {
					if me.tags[s] {
						oc.viaOwn = true
					} else {
						oc.refuse = true
					}
				}
			}
		}
		if !oc.refuse {
			oc.strict, oc.loose = map[string]bool{}, map[string]bool{}
			for _, c := range all {
				allReq, anyOpt, nOpt, nReq := true, false, 0, 0
				for k, t := range terms {
					m := false
					for _, s := range t.alts[choice[k]] {
						m = m || c.tags[s]
					}
					if t.optional {
						nOpt++
						anyOpt = anyOpt || m
					} else {
						nReq++
						allReq = allReq && m
					}
				}
				// documented: AND of the required terms AND (OR of the comma group)
				strict := allReq && (nOpt == 0 || anyOpt)
				// as implemented: the comma group only ranks once there is a required term
				loose := (nReq > 0 && allReq) || (nReq == 0 && anyOpt)
				if !c19wVisible(c.state, root) {
					if strict && c.state != c19wGone {
						oc.hidden++
					}
					continue
				}
				if strict {
					oc.strict[c.name] = true
				}
				if loose {
					oc.loose[c.name] = true
				}
			}
		}
		outs = append(outs, oc)
		k := 0
		for ; k < len(terms); k++ {
			choice[k]++
			if choice[k] < len(terms[k].alts) {
				break
			}
			choice[k] = 0
		}
		if k == len(terms) {
			break
		}
	}
	names := func(m map[string]any) map[string]bool {
		out := map[string]bool{}
		for k := range m {
			out[k] = true
		}
		return out
	}
	refused := !meta && code >= 400 && code < 500
	got := names(found)
	mayRefuse, mustRefuse, viaOwn := false, true, false
	for _, oc := range outs {
		mayRefuse = mayRefuse || oc.refuse
		mustRefuse = mustRefuse && oc.refuse
		viaOwn = viaOwn || oc.viaOwn
	}
	o.judgedSearches++
	if mustRefuse {
		o.class("search:masked-foreign-term")
		if !refused {
			pos := "and"
			for _, t := range terms {
				for _, a := range t.alts {
					for _, s := range a {
						if c19wNSIn(s, masked) && !me.tags[s] && t.optional {
							pos = "or"
						}
					}
				}
			}
			return kit.V("masked-term-accepted:"+pos, "%s: the query uses a masked-namespace term the searcher does not carry and must be refused; answered %d with results %q", desc(), code, c19wList(got))
		}
		o.maskedRefused++
		return nil
	}
	if refused {
		if mayRefuse {
			return nil
		}
		if code == 403 && viaOwn {
			return kit.V("masked-own-term-refused", "%s: every masked-namespace term of the query is a tag the searcher carries, yet the search was refused (%d)", desc(), code)
		}
		return kit.V("valid-search-refused", "%s: the query is well-formed and uses no foreign masked term, yet it was refused (%d)", desc(), code)
	}
	if code >= 500 || (!meta && code == 0) {
		return kit.V("search-failed", "%s: answered %d", desc(), code)
	}
	if viaOwn {
		o.maskedAllowed++
		o.class("search:masked-own-term")
	}
	orIgnored := false
	for _, oc := range outs {
		if oc.refuse {
			continue
		}
		if c19wSameSet(oc.strict, got) {
			if len(got) > 0 {
				o.judgedFound++
			}
			if oc.hidden > 0 {
				o.hiddenFromUser++
				o.class("search:inactive-object-hidden")
			}
			return nil
		}
		if c19wSameSet(oc.loose, got) {
			orIgnored = true
		}
	}
	var want []string
	for _, oc := range outs {
		if !oc.refuse {
			want = append(want, fmt.Sprintf("%q", c19wList(oc.strict)))
		}
	}
	if orIgnored {
		return kit.V("or-group-not-enforced", "%s: results %q include objects which carry the required terms but none of the comma-separated (OR) terms; documented meaning is AND(required) AND OR(comma group): want %s", desc(), c19wList(got), strings.Join(want, " or "))
	}
	return kit.V("search-results-differ", "%s: results %q (answer %d), want %s", desc(), c19wList(got), code, strings.Join(want, " or "))
}

// ---------------------------------------------------------------- test

func c19wExec(t *testing.T, r *kit.Run) func(c19wProg) kit.Outcome {
	return func(p c19wProg) kit.Outcome {
		r.WAL(p)
		obs := &c19wObs{p: &p, pub: map[int]string{}, priv: map[int]string{}, classes: map[string]bool{}}
		obs.known = func(v *kit.Viol) bool { return r.IsKnown(v.Sig) && r.Violation(v, p) }
		var res wRunResult
		defer c19wDisarm()
		fail := wInBubble(t, func() { res = wExec(&p.wProg, obs, nil) })
		o := kit.Outcome{NonTrivial: obs.acceptedWithReserved >= 1 && obs.refusedReserved >= 1 && obs.judgedSearches >= 1 && (obs.judgedFound >= 1 || obs.maskedRefused >= 1)}
		for c := range obs.classes {
			o.Classes = append(o.Classes, c)
		}
		sort.Strings(o.Classes)
		if obs.acceptedWithReserved > 0 {
			o.Classes = append(o.Classes, "accepted-update-keeping-reserved")
		}
		if obs.refusedReserved > 0 {
			o.Classes = append(o.Classes, "reserved-mutation-refused")
		}
		if obs.judgedFound > 0 {
			o.Classes = append(o.Classes, "search-judged-with-results")
		}
		if obs.maskedRefused > 0 {
			o.Classes = append(o.Classes, "masked-search-refused")
		}
		if fail != "" && res.Viol == nil {
			o.Skip = true
			fmt.Println("C19W bubble failure (not judged here):", firstLine(fail))
			return o
		}
		o.Viol = res.Viol
		return o
	}
}

func TestC19WTagsAndSearch(t *testing.T) {
	r := kit.Begin("C19", "TestC19WTagsAndSearch")
	defer r.Flush()
	kit.CheckRun(t, r, c19wGen, c19wExec(t, r))
}
