package main

// C06 — a group topic has exactly one owner at all times; ownership moves only by transfer.
// C07 — permissions change only through authorised requests; bans and limits stick; P2P,
//        me/fnd/sys membership rules.
// Oracles work on consecutive store snapshots (before/after every step) and reply codes.

import (
	"fmt"
	"sort"
	"strings"
	"testing"

	"github.com/tinode/chat/server/auth"
	"github.com/tinode/chat/server/store/types"
	kit "github.com/tinode/chat/server/zzverifkit"
	mem "github.com/tinode/chat/server/zzverifmem"
	"pgregory.net/rapid"
)

var gOwnWant = []string{"", "JRWPS", "JRWPASDO", "O", "JRWPSO", "N", "JRWP", "JRWPAS", "RWP", "JRWPASD"}
var gOwnGiven = []string{"", "JRWPS", "JRWPASDO", "JRWPAS", "JRWPASD", "RWP", "N", "JRWPSO", "JRP", "O"}

func c06Gen(rt *rapid.T) wProg {
	p := wProg{}
	p.Cfg = wConfig{Users: 4, Root: gPct(rt, 15)}
	if gPct(rt, 35) {
		p.Cfg.MaxSubs = 3
	}
	if gPct(rt, 20) {
		p.Cfg.Anon = []int{3}
	}
	p.Sess = append([]int(nil), gPick(rt, [][]int{{0, 1, 2}, {0, 1, 2, 3}, {0, 0, 1, 2}, {0, 1, 1, 2, 3}}, "layout")...)
	gGrpc(rt, &p, 20)
	gLat(rt, &p, 25)
	kind := "new"
	if gPct(rt, 25) {
		kind = "nch"
	}
	// the creator may name the own mode in the creating request (with or without O)
	create := wOp{K: "sub", S: 0, T: kind, A: gPick(rt, []string{"", "", "", "", "", "", "", "", "", "JRWPS", "JP", "JRWPASDO", "RWP"}, "cmode")}
	if gPct(rt, 15) {
		// the topic is created with default access in the same request: valid, asking for O, or half invalid
		create.H = map[string]any{"defacs": map[string]any{"auth": gPick(rt, []string{"JRWPS", "JRWPSO", "JRWPSO", "JRWPASDO", "jrwp"}, "cauth"),
			"anon": gPick(rt, []string{"N", "", "JRO", "XYZ", "XYZ", "J?"}, "canon")}}
	}
	p.Ops = append(p.Ops, create)
	for s := 1; s < len(p.Sess); s++ {
		if gPct(rt, 65) {
			p.Ops = append(p.Ops, wOp{K: "sub", S: s, T: "g0", A: gPick(rt, gOwnWant, "want")})
		}
	}
	if gPct(rt, 20) {
		// the two P2P participants' account defaults differ: the initiator's grant comes from the other one's
		for s := 0; s < len(p.Sess); s++ {
			if p.Sess[s] == 1 || (p.Sess[s] == 0 && gPct(rt, 30)) {
				p.Ops = append(p.Ops, wOp{K: "sub", S: s, T: "me"}, wOp{K: "set", S: s, T: "me", A: "defacs", B: gPick(rt, []string{"JRW", "JW", "JRWP", "JRA", "N"}, "medef")})
				if p.Sess[s] == 1 {
					break
				}
			}
		}
	}
	if gPct(rt, 45) {
		p.Ops = append(p.Ops, wOp{K: "sub", S: 0, T: "p1"})
		if gPct(rt, 70) {
			for s := 1; s < len(p.Sess); s++ {
				if p.Sess[s] == 1 {
					p.Ops = append(p.Ops, wOp{K: "sub", S: s, T: "p0"})
					break
				}
			}
		}
	}
	topicFor := func(s int) string {
		u := p.Sess[s]
		pool := []string{"g0", "g0", "g0", "g0"}
		switch u {
		case 0:
			pool = append(pool, "p1", "me")
		case 1:
			pool = append(pool, "p0", "me")
		default:
			pool = append(pool, "P01", "p0", "sys", "me", "fnd", "Q01")
		}
		return gPick(rt, pool, "topic")
	}
	n := gInt(rt, 3, 16, "nops")
	for i := 0; i < n; i++ {
		s := gInt(rt, 0, len(p.Sess)-1, "s")
		sessOfUser := func(u int) int {
			for hs := 1; hs < len(p.Sess); hs++ {
				if p.Sess[hs] == u {
					return hs
				}
			}
			return -1
		}
		if i == 0 && len(p.Cfg.Anon) > 0 && gPct(rt, 50) {
			// the owner opens the group to anonymous users, with a default that asks for too much; the anonymous user joins
			p.Ops = append(p.Ops, wOp{K: "set", S: 0, T: "g0", A: "defacs", B: gPick(rt, []string{"JRWPO", "JRWP", "JRWPASDO"}, "anondef"), H: map[string]any{"side": "anon"}})
			if hs := sessOfUser(3); hs > 0 {
				p.Ops = append(p.Ops, wOp{K: "sub", S: hs, T: "g0"})
			}
		}
		if i == 1 && gPct(rt, 12) {
			// first contact with user 3 through a P2P topic created with an explicit default access
			k := gInt(rt, 1, len(p.Sess)-1, "p2pcreator")
			if p.Sess[k] != 3 {
				p.Ops = append(p.Ops, wOp{K: "sub", S: k, T: "p3", H: map[string]any{"defacs": map[string]any{"auth": gPick(rt, []string{"JRWSDO", "JRWPASDO", "JRW", "JRWPA"}, "p2pdef"), "anon": "N"}}})
			}
		}
		if i == 3 && gPct(rt, 10) {
			// user 0 sits on the own search topic; somebody else names that topic literally
			k := gInt(rt, 1, len(p.Sess)-1, "fndvisitor")
			p.Ops = append(p.Ops, wOp{K: "sub", S: 0, T: "fnd"}, wOp{K: "sub", S: k, T: "F0"}, wOp{K: "sub", S: k, T: "M0"})
		}
		if i == 4 && gPct(rt, 12) {
			// a member who was offered approver rights and never accepted them (A in given only) removes another member
			m := gInt(rt, 1, 2, "offered")
			if hs := sessOfUser(m); hs > 0 {
				p.Ops = append(p.Ops, wOp{K: "sub", S: hs, T: "g0", A: "JRWPS"}, wOp{K: "set", S: 0, T: "g0", A: "given", U: m, B: gPick(rt, []string{"JRWPAS", "JRWPASD", "JRWPASDO"}, "offer")},
					wOp{K: "del", S: hs, T: "g0", A: "sub", U: 3 - m})
			}
		}
		if i == 2 && p.Cfg.Root && gPct(rt, 30) {
			// the root session starts a P2P topic on behalf of a user, at that user's (lower) level
			x := gInt(rt, 1, 3, "p2pobo")
			y := 1 + (x+gInt(rt, 0, 1, "p2ppeer"))%3
			if y != x {
				p.Ops = append(p.Ops, wOp{K: "sub", S: 0, T: fmt.Sprintf("p%d", y), Obo: x + 1, Lvl: gPick(rt, []string{"anon", "anon", "auth", ""}, "obolvl")})
			}
		}
		if i == 1 && p.Cfg.Root && gPct(rt, 40) {
			// somebody else's group: the root session joins it for the first time, on the topic's terms
			if hs := sessOfUser(gInt(rt, 1, 2, "g1owner")); hs > 0 {
				mk := wOp{K: "sub", S: hs, T: "new"}
				if gPct(rt, 40) {
					mk.H = map[string]any{"defacs": map[string]any{"auth": gPick(rt, []string{"JRWPS", "JRW", "N"}, "g1auth"), "anon": "N"}}
				}
				p.Ops = append(p.Ops, mk, wOp{K: "sub", S: 0, T: "g1", A: gPick(rt, []string{"", "", "JRWPASDO", "JRWPS"}, "rootwant")}, wOp{K: "get", S: hs, T: "g1", A: "sub"})
			}
		}
		if i == 2 && p.Cfg.Root && gPct(rt, 40) {
			// the root session asks for somebody else's 'me' / 'fnd'
			p.Ops = append(p.Ops, wOp{K: "sub", S: 0, T: gPick(rt, []string{"me", "me", "fnd"}, "selft"), Obo: gInt(rt, 2, 3, "selfobo")})
		}
		if i == 0 && p.Cfg.MaxSubs > 0 && gPct(rt, 50) {
			// the group (channel-enabled or not) lets every authenticated user join: everybody tries,
			// under the group name, until the limit is reached
			p.Ops = append(p.Ops, wOp{K: "set", S: 0, T: "g0", A: "defacs", B: "JRWPS"})
			for hs := 1; hs < len(p.Sess); hs++ {
				p.Ops = append(p.Ops, wOp{K: "sub", S: hs, T: "g0", A: gPick(rt, []string{"", "JRWPS", "JRWP"}, "joinwant")})
			}
		}
		switch x := gInt(rt, 0, 99, "opk"); {
		case x < 20 && gPct(rt, 12):
			// a member who was offered ownership does not accept it but asks for other bits beyond the grant
			adm := gInt(rt, 1, 2, "offeredraise")
			if hs := sessOfUser(adm); hs > 0 {
				p.Ops = append(p.Ops, wOp{K: "sub", S: hs, T: "g0", A: "JRWPS"}, wOp{K: "set", S: 0, T: "g0", A: "given", U: adm, B: gPick(rt, []string{"JRWPSO", "JRWPO"}, "offer2")},
					wOp{K: "set", S: hs, T: "g0", A: "mode", B: gPick(rt, []string{"JRWPASD", "JRWPAS", "JRWPSD"}, "raise2")},
					wOp{K: "set", S: hs, T: "g0", A: "given", U: 3 - adm, B: "N"})
			}
		case x < 3:
			// a grant of exactly "N", the subscription removed, the user comes back
			tgt := gInt(rt, 1, 2, "banned")
			if hs := sessOfUser(tgt); hs > 0 {
				p.Ops = append(p.Ops, wOp{K: "set", S: 0, T: "g0", A: "given", U: tgt, B: "N"})
				if gPct(rt, 60) {
					p.Ops = append(p.Ops, wOp{K: "del", S: 0, T: "g0", A: "sub", U: tgt})
				} else {
					p.Ops = append(p.Ops, wOp{K: "leave", S: hs, T: "g0", F: true})
				}
				p.Ops = append(p.Ops, wOp{K: "sub", S: hs, T: "g0", A: gPick(rt, []string{"", "JRWPS"}, "want")})
			}
		case x < 6:
			// a second administrator (A and S, not O) tries his hand at the owner's grant
			adm := gInt(rt, 1, 2, "admin")
			if hs := sessOfUser(adm); hs > 0 {
				p.Ops = append(p.Ops, wOp{K: "set", S: 0, T: "g0", A: "given", U: adm, B: "JRWPASD"},
					wOp{K: "sub", S: hs, T: "g0", A: "JRWPASD"},
					wOp{K: "set", S: hs, T: "g0", A: "given", U: 0, B: gPick(rt, []string{"JRWPASD", "JRWPAS", "JRWP", "N", "RWPASDO"}, "demote")})
			}
		case x < 7:
			// an approver (A, no D, no S) raises own grant asking for D together with a bit he lacks
			adm := gInt(rt, 1, 2, "approver")
			if hs := sessOfUser(adm); hs > 0 {
				p.Ops = append(p.Ops, wOp{K: "set", S: 0, T: "g0", A: "given", U: adm, B: "JRWPA"}, wOp{K: "sub", S: hs, T: "g0", A: "JRWPA"},
					wOp{K: "set", S: hs, T: "g0", A: "mode", B: gPick(rt, []string{"JRWPASD", "JRWPAD", "JRWPASDO"}, "raise")})
			}
		case x < 9:
			// an heir who was offered ownership (not yet accepted, or accepted) hands O on to a third user
			heir := gInt(rt, 1, 2, "heir")
			third := 3 - heir
			if hs := sessOfUser(heir); hs > 0 {
				p.Ops = append(p.Ops, wOp{K: "set", S: 0, T: "g0", A: "given", U: heir, B: "JRWPASDO"}, wOp{K: "sub", S: hs, T: "g0", A: gPick(rt, []string{"JRWPASD", "JRWPASD", "JRWPASDO"}, "hw")},
					wOp{K: "set", S: hs, T: "g0", A: "given", U: third, B: gPick(rt, []string{"JRWPASDO", "O", "JRWPSO"}, "onward")})
			}
		case x < 11:
			// ownership handed over twice: owner -> heir (accepted), heir -> a third user or back (accepted);
			// sometimes the topic is loaded again in between or afterwards
			heir := gInt(rt, 1, 2, "heir1")
			next := gPick(rt, []int{0, 3 - heir}, "heir2")
			hs, ns := sessOfUser(heir), 0
			if next != 0 {
				ns = sessOfUser(next)
			}
			if hs > 0 && ns >= 0 {
				acc := func(k int) wOp {
					if gPct(rt, 50) {
						return wOp{K: "set", S: k, T: "g0", A: "mode", B: "JRWPASDO"}
					}
					return wOp{K: "sub", S: k, T: "g0", A: "JRWPASDO"}
				}
				p.Ops = append(p.Ops, wOp{K: "sub", S: hs, T: "g0"}, wOp{K: "set", S: 0, T: "g0", A: "given", U: heir, B: "JRWPASDO"}, acc(hs))
				if gPct(rt, 25) {
					p.Ops = append(p.Ops, wOp{K: "reload", T: "g0"})
				}
				p.Ops = append(p.Ops, wOp{K: "sub", S: ns, T: "g0"}, wOp{K: "set", S: hs, T: "g0", A: "given", U: next, B: "JRWPASDO"}, acc(ns))
				if gPct(rt, 40) {
					p.Ops = append(p.Ops, wOp{K: gPick(rt, []string{"reload", "restart"}, "after2"), T: "g0"})
				}
			}
		case x < 13:
			// ownership transfer attempt: grant by the (original) owner, optionally accepted
			tgt := gInt(rt, 1, 2, "heir")
			if gPct(rt, 30) {
				// the store fails while the grant (or, below, the acceptance) is written
				p.Ops = append(p.Ops, wOp{K: "fault", N: gInt(rt, 1, 3, "fk"), A: gPick(rt, []string{"", "SubsUpdate", "SubsUpdate"}, "fm")})
			}
			p.Ops = append(p.Ops, wOp{K: "set", S: 0, T: "g0", A: "given", U: tgt, B: gPick(rt, []string{"JRWPASDO", "JRWPSO", "O"}, "grant")})
			if gPct(rt, 15) {
				p.Ops = append(p.Ops, wOp{K: "fault", N: gInt(rt, 1, 3, "fk2"), A: gPick(rt, []string{"", "SubsUpdate", "TopicOwnerChange"}, "fm2")})
			}
			if gPct(rt, 70) {
				for hs := 1; hs < len(p.Sess); hs++ {
					if p.Sess[hs] == tgt {
						acc := gPick(rt, []string{"JRWPASDO", "JRWPSO"}, "accept")
						if gPct(rt, 50) {
							p.Ops = append(p.Ops, wOp{K: "set", S: hs, T: "g0", A: "mode", B: acc})
						} else {
							p.Ops = append(p.Ops, wOp{K: "sub", S: hs, T: "g0", A: acc})
						}
						break
					}
				}
			}
		case x < 19:
			p.Ops = append(p.Ops, wOp{K: "sub", S: s, T: topicFor(s), A: gPick(rt, gOwnWant, "want")})
		case x < 38:
			p.Ops = append(p.Ops, wOp{K: "set", S: s, T: gPick(rt, []string{"g0", "g0", "g0", "p1", "p0", "me"}, "t"), A: "given",
				U: gInt(rt, 0, 3, "target"), B: gPick(rt, gOwnGiven, "given")})
		case x < 52:
			p.Ops = append(p.Ops, wOp{K: "set", S: s, T: topicFor(s), A: "mode", B: gPick(rt, gOwnWant[1:], "want")})
		case x < 60:
			lt := topicFor(s)
			if kind == "nch" && lt == "g0" && gPct(rt, 40) {
				lt = "c0" // the channel spelling of the group, by subscribers and by the owner too
			}
			p.Ops = append(p.Ops, wOp{K: "leave", S: s, T: lt, F: gPct(rt, 70)})
		case x < 68:
			p.Ops = append(p.Ops, wOp{K: "del", S: s, T: "g0", A: "sub", U: gInt(rt, 0, 3, "target")})
		case x < 73:
			p.Ops = append(p.Ops, wOp{K: "del", S: s, T: gPick(rt, []string{"g0", "g0", "p1", "p0"}, "t"), A: "topic", F: gPct(rt, 50)})
		case x < 82:
			p.Ops = append(p.Ops, wOp{K: "set", S: s, T: gPick(rt, []string{"g0", "g0", "g0", "me"}, "dt"), A: gPick(rt, []string{"public", "defacs", "trusted", "tags"}, "what"),
				B: gPick(rt, []string{"x", "JRWPS", "JRWPASDO", "JRWPAS"}, "val"), X: []string{"alpha", "beta"}})
		case x < 88:
			p.Ops = append(p.Ops, wOp{K: "reload", T: gPick(rt, []string{"g0", "g0", "p1"}, "rt")})
		case x < 91:
			p.Ops = append(p.Ops, wOp{K: "disc", S: s}, wOp{K: "reconn", S: s})
		case x < 94:
			p.Ops = append(p.Ops, wOp{K: "restart"})
		case x < 97:
			p.Ops = append(p.Ops, wOp{K: "pub", S: s, T: topicFor(s)})
		default:
			p.Ops = append(p.Ops, wOp{K: "tick", N: gPick(rt, []int{50, 5500}, "ms")})
		}
	}
	return p
}

type subKey struct {
	topic string
	user  types.Uid
}

type subVal struct {
	want, given types.AccessMode
	deleted     bool
}

func subRows(st *mem.State) map[subKey]subVal {
	out := map[subKey]subVal{}
	for _, r := range st.Subs {
		out[subKey{r.Topic, r.User}] = subVal{r.ModeWant, r.ModeGiven, r.DeletedAt != nil}
	}
	return out
}

func storeOwners(st *mem.State, topic string) []types.Uid {
	var out []types.Uid
	for _, r := range st.Subs {
		if r.Topic == topic && r.DeletedAt == nil && (r.ModeWant & r.ModeGiven).IsOwner() {
			out = append(out, r.User)
		}
	}
	sort.Slice(out, func(i, j int) bool { return out[i] < out[j] })
	return out
}

// ---------------------------------------------------------------- C06

type c06Obs struct {
	known     func(*kit.Viol) bool
	pre       *mem.State
	transfers int
	pending   int
	grants    map[subKey]bool // users whose given ∋ O was written by a step of the then-owner
	owner     map[string]types.Uid
	// faultTaint: topics whose ownership rows were left half-written by a request during which the
	// store failed (the hand-over makes several store writes): what a failed request leaves behind is
	// C08's subject (and C06 does not quantify over store failures); such a topic is not judged further.
	// A failed request which leaves the rows intact does not taint: what later fault-free requests do
	// with whatever it left in memory is judged.
	faultTaint map[string]bool
}

func (o *c06Obs) Before(w *wWorld, op *wOp) { o.pre = mem.A.Snapshot() }
func (o *c06Obs) Final(w *wWorld) *kit.Viol  { return nil }

func (o *c06Obs) After(w *wWorld, st *wStep) *kit.Viol {
	post := mem.A.Snapshot()
	actor := types.ZeroUid
	if st.User >= 0 {
		actor = w.users[st.User].uid
	}
	for _, tr := range post.Topics {
		if !strings.HasPrefix(tr.Name, "grp") || tr.State == types.StateDeleted {
			continue
		}
		name := tr.Name
		owners := storeOwners(post, name)
		if o.faultTaint[name] {
			continue
		}
		if st.Fired && (len(owners) != 1 || tr.Owner != owners[0]) {
			if o.faultTaint == nil {
				o.faultTaint = map[string]bool{}
			}
			o.faultTaint[name] = true
			continue
		}
		if len(owners) != 1 {
			var who []string
			for _, u := range owners {
				who = append(who, fmt.Sprintf("user %d", w.userIdx(u)))
			}
			sig := "no-owner"
			if len(owners) > 1 {
				sig = "two-owners"
			}
			v := kit.V(sig, "group topic %s has %d effective owners %v after step %d (%s %s)", name, len(owners), who, st.I, st.Op.K, st.Req)
			if o.known != nil && o.known(v) {
				continue
			}
			return v
		}
		if tr.Owner != owners[0] {
			return kit.V("owner-column-mismatch", "topic %s: the subscription holding O belongs to user %d but topics.owner names user %d (after %s)", name, w.userIdx(owners[0]), w.userIdx(tr.Owner), st.Req)
		}
		prevOwner, had := o.owner[name]
		if !had {
			o.owner[name] = owners[0]
			continue
		}
		if owners[0] != prevOwner {
			// Ownership moved: only when the new owner accepts (sets own want ∋ O) a grant the previous owner made.
			newOwner := owners[0]
			if actor != newOwner {
				return kit.V("ownership-moved-by-other", "ownership of %s moved from user %d to user %d by a request of user %d: %s", name, w.userIdx(prevOwner), w.userIdx(newOwner), st.User, st.Req)
			}
			if !o.grants[subKey{name, newOwner}] {
				return kit.V("ownership-taken-without-grant", "user %d became owner of %s although the owner never granted O: %s", w.userIdx(newOwner), name, st.Req)
			}
			o.owner[name] = newOwner
			o.transfers++
			// grants made by the then-owner to other subscribers stay valid until revoked
			delete(o.grants, subKey{name, newOwner})
			continue
		}
		// The owner's row must not lose O or J (given) or be deleted by somebody else's request.
		pre, post2 := subRows(o.pre)[subKey{name, prevOwner}], subRows(post)[subKey{name, prevOwner}]
		if actor != prevOwner && !st.Skipped && st.Op.K != "reload" && st.Op.K != "restart" {
			if pre.given.IsOwner() && !pre.deleted && (!post2.given.IsOwner() || (pre.given.IsJoiner() && !post2.given.IsJoiner()) || post2.deleted) {
				return kit.V("owner-demoted-by-other", "owner (user %d) of %s lost O/J or the subscription by a request of user %d: %s", w.userIdx(prevOwner), name, st.User, st.Req)
			}
		}
		// A grant is gone when the grantee's given no longer holds O.
		for k, v := range subRows(post) {
			// (an unsubscribed or evicted user keeps the stored grant: re-subscribing restores it, C07)
			if k.topic == name && o.grants[k] && !v.given.IsOwner() {
				delete(o.grants, k)
			}
		}
		// Track grants of O made by the owner.
		if actor == prevOwner {
			for k, v := range subRows(post) {
				if pr := subRows(o.pre)[k]; k.topic == name && k.user != prevOwner && v.given.IsOwner() && !pr.given.IsOwner() {
					o.grants[k] = true
					o.pending++
				}
			}
		} else {
			for k, v := range subRows(post) {
				if pr := subRows(o.pre)[k]; k.topic == name && k.user != prevOwner && v.given.IsOwner() && !pr.given.IsOwner() {
					return kit.V("O-granted-by-non-owner", "user %d got O in given on %s by a request of user %d who is not the owner: %s", w.userIdx(k.user), name, st.User, st.Req)
				}
			}
		}
	}
	// A topic existing before must not disappear (or be marked deleted) by a non-owner's request.
	for _, tr := range o.pre.Topics {
		if !strings.HasPrefix(tr.Name, "grp") || tr.State == types.StateDeleted {
			continue
		}
		gone := true
		for _, t2 := range post.Topics {
			if t2.Name == tr.Name && t2.State != types.StateDeleted {
				gone = false
			}
		}
		if gone && actor != tr.Owner && !o.faultTaint[tr.Name] {
			return kit.V("topic-deleted-by-non-owner", "group topic %s was deleted by a request of user %d who is not the owner: %s", tr.Name, st.User, st.Req)
		}
		if gone {
			delete(o.owner, tr.Name)
		}
	}
	// Only the owner changes public/trusted/default access/tags.
	if st.Op.K == "set" && !st.Skipped && (st.Op.A == "public" || st.Op.A == "trusted" || st.Op.A == "defacs" || st.Op.A == "tags") && strings.HasPrefix(st.Route, "grp") {
		var before, after string
		var owner types.Uid
		for _, tr := range o.pre.Topics {
			if tr.Name == st.Route {
				before = fmt.Sprintf("%s|%s|%v/%v|%v", canonJSON(tr.Public), canonJSON(tr.Trusted), tr.Access.Auth, tr.Access.Anon, tr.Tags)
				owner = tr.Owner
			}
		}
		for _, tr := range post.Topics {
			if tr.Name == st.Route {
				after = fmt.Sprintf("%s|%s|%v/%v|%v", canonJSON(tr.Public), canonJSON(tr.Trusted), tr.Access.Auth, tr.Access.Anon, tr.Tags)
			}
		}
		if o.faultTaint[st.Route] {
			return nil
		}
		if before != "" && before != after && actor != owner {
			return kit.V("description-changed-by-non-owner", "user %d (not the owner) changed the description/tags of %s: %s => %s by %s", st.User, st.Route, before, after, st.Req)
		}
		if c := st.reply(); c != nil && c.Code >= 200 && c.Code < 300 && actor != owner && before != "" {
			return kit.V("description-change-accepted-from-non-owner", "user %d (not the owner) got %d for %s", st.User, c.Code, st.Req)
		}
	}
	return nil
}

func c06Exec(t *testing.T, r *kit.Run) func(wProg) kit.Outcome {
	return func(p wProg) kit.Outcome {
		r.WAL(p)
		obs := &c06Obs{grants: map[subKey]bool{}, owner: map[string]types.Uid{}}
		obs.known = func(v *kit.Viol) bool { return r.IsKnown(v.Sig) && r.Violation(v, p) }
		var res wRunResult
		fail := wInBubble(t, func() { res = wExec(&p, obs, nil) })
		o := kit.Outcome{NonTrivial: obs.pending > 0}
		if obs.transfers > 0 {
			o.Classes = append(o.Classes, "transfer-completed")
		}
		if obs.pending > 0 {
			o.Classes = append(o.Classes, "O-granted")
		}
		if fail != "" && res.Viol == nil {
			o.Skip = true
			fmt.Println("C06 bubble failure (not judged here):", firstLine(fail))
			return o
		}
		o.Viol = res.Viol
		return o
	}
}

func TestC06Owner(t *testing.T) {
	r := kit.Begin("C06", "TestC06Owner")
	defer r.Flush()
	kit.CheckRun(t, r, c06Gen, c06Exec(t, r))
}

// ---------------------------------------------------------------- C07

type c07Obs struct {
	faultTaint map[string]bool // topics in which a request changed rows while the store was failing: not judged further (C08's subject)
	tainted map[string]bool
	preAtt  map[int]map[string]bool
	known      func(*kit.Viol) bool
	preLive    map[string]*wTopicSnap
	disagree   int
	pre        *mem.State
	att        *wAttach
	authorised int
	refused    int
	resub      int
}

func (o *c07Obs) Before(w *wWorld, op *wOp) {
	o.pre = mem.A.Snapshot()
	o.preLive = w.liveTopics()
	if o.tainted == nil {
		o.tainted = map[string]bool{}
	}
	for r := range o.tainted {
		if o.preLive[r] == nil {
			delete(o.tainted, r) // unloaded: the next load reads the store
		}
	}
	o.preAtt = map[int]map[string]bool{}
	for s, m := range o.att.att {
		o.preAtt[s] = map[string]bool{}
		for r := range m {
			o.preAtt[s][r] = true
		}
	}
}

// noteTaint: a {set} served for a session which is not attached to the loaded topic updates the
// store behind the cache's back (listed C08 finding); only there a cache/store disagreement is excused.
func (o *c07Obs) noteTaint(st *wStep) {
	if st.Op.K == "set" && !st.Skipped && st.Route != "" && !o.preAtt[st.Sess][st.Route] && o.preLive[st.Route] != nil {
		o.tainted[st.Route] = true
	}
	if st.Op.K == "restart" || st.Crashed {
		o.tainted = map[string]bool{}
	}
}

// stale: the loaded topic's cached modes of this row differed from the stored ones before the step
// (a C08 matter): what the request then writes is computed from the cache and is not judged here.
func (o *c07Obs) stale(topic string, uid types.Uid, a subVal, hadA bool) bool {
	lt := o.preLive[types.ChnToGrp(topic)]
	if lt == nil {
		lt = o.preLive[topic]
	}
	if lt == nil {
		return false
	}
	pud, ok := lt.PerUser[uid]
	if ok && pud.deleted {
		ok = false
	}
	live := hadA && !a.deleted
	if ok != live || (ok && (pud.modeWant != a.want || pud.modeGiven != a.given)) {
		if o.tainted[types.ChnToGrp(topic)] || o.tainted[topic] || (ok && pud.isChan) {
			o.disagree++
			return true
		}
	}
	return false
}
func (o *c07Obs) Final(w *wWorld) *kit.Viol  { return nil }

func topicDefault(st *mem.State, topic string, lvl auth.Level) (types.AccessMode, bool) {
	for _, tr := range st.Topics {
		if tr.Name == topic {
			if lvl == auth.LevelAnon {
				return tr.Access.Anon, true
			}
			return tr.Access.Auth, true
		}
	}
	return 0, false
}

func (o *c07Obs) After(w *wWorld, st *wStep) *kit.Viol {
	defer o.att.update(w, st)
	defer o.noteTaint(st)
	post := mem.A.Snapshot()
	pre, now := subRows(o.pre), subRows(post)
	actor := types.ZeroUid
	actorLvl := auth.LevelNone
	if st.User >= 0 {
		actor = w.users[st.User].uid
		actorLvl = w.users[st.User].level
	}
	isRequest := !st.Skipped && (st.Op.K == "sub" || st.Op.K == "set" || st.Op.K == "leave" || st.Op.K == "del" || st.Op.K == "pub" || st.Op.K == "get" || st.Op.K == "note")
	c := st.reply()
	okReply := c != nil && c.Code >= 200 && c.Code < 300

	keys := map[subKey]bool{}
	for k := range pre {
		keys[k] = true
	}
	for k := range now {
		keys[k] = true
	}
	for k := range keys {
		a, hadA := pre[k]
		b, hasB := now[k]
		if hadA && hasB && a == b {
			continue
		}
		if o.stale(k.topic, k.user, a, hadA) {
			continue
		}
		topic := k.topic
		grpTopic := types.ChnToGrp(topic)
		if grpTopic == "" {
			grpTopic = topic
		}
		if st.Fired {
			if o.faultTaint == nil {
				o.faultTaint = map[string]bool{}
			}
			o.faultTaint[grpTopic] = true
		}
		if o.faultTaint[grpTopic] {
			continue
		}
		target := k.user
		tgt := w.userIdx(target)
		if !isRequest {
			// reload / restart / tick / disconnect must not change any subscription modes
			if hadA && hasB && (a.want != b.want || a.given != b.given || a.deleted != b.deleted) && st.Op.K != "reload" {
				return kit.V("modes-changed-without-request", "subscription of user %d on %s changed from %v/%v to %v/%v during %s", tgt, topic, a.want, a.given, b.want, b.given, st.Op.K)
			}
			continue
		}
		switch {
		case strings.HasPrefix(topic, "usr"), strings.HasPrefix(topic, "fnd"):
			// me / fnd: rows only for the topic's own user
			ownerOf := types.ParseUserId("usr" + topic[3:])
			if target != ownerOf && hasB && !b.deleted {
				return kit.V("foreign-user-on-self-topic", "user %d has a subscription on %s which belongs to user %d (by %s)", tgt, topic, w.userIdx(ownerOf), st.Req)
			}
			continue
		case topic == "sys":
			if hasB && !b.deleted && (!hadA || a.deleted) && w.users[tgt].level != auth.LevelRoot {
				return kit.V("non-root-on-sys", "user %d (not root) got a subscription on sys by %s", tgt, st.Req)
			}
			continue
		case strings.HasPrefix(topic, "p2p"):
			u1, u2, _ := types.ParseP2P(topic)
			if target != u1 && target != u2 {
				return kit.V("p2p-third-participant", "user %d has a subscription on %s, a P2P topic of users %d and %d (by %s)", tgt, topic, w.userIdx(u1), w.userIdx(u2), st.Req)
			}
			if hasB && !b.deleted {
				// N ("no access": the peer's default refuses the contact) is the one value without A.
				if b.want&^types.ModeCP2P != 0 || b.given&^types.ModeCP2P != 0 || (!b.given.IsApprover() && b.given != types.ModeNone) || (!b.want.IsApprover() && b.want != types.ModeNone) {
					return kit.V("p2p-mode-out-of-range", "P2P subscription of user %d on %s has want/given %v/%v: must stay within JRWPA and keep A (by %s)", tgt, topic, b.want, b.given, st.Req)
				}
			}
		}
		// ---- given changes
		givenBefore := types.ModeNone
		if hadA {
			givenBefore = a.given
		}
		newRow := !hadA || (a.deleted && hasB && !b.deleted)
		if hasB && (!hadA || a.given != b.given) && !strings.HasPrefix(topic, "chn") {
			actorRow, actorSub := pre[subKey{grpTopic, actor}]
			if actor != target && o.stale(grpTopic, actor, actorRow, actorSub) {
				continue // the actor's own cached mode is stale (C08): its rights are not judged here
			}
			actorMode := actorRow.want & actorRow.given
			if !actorSub || actorRow.deleted {
				actorMode = 0
			}
			switch {
			case actor == target && newRow:
				// first subscription: topic default for the actor's level, or the previous grant
				def, _ := topicDefault(o.pre, grpTopic, actorLvl)
				if strings.HasPrefix(topic, "p2p") {
					// P2P: the requester's grant comes from the peer's default access for the level the request
					// is executed at (the session's, or what a root session names in extra.authlevel), cut
					// down to the P2P range, plus A. Judged for rows which did not exist at all.
					if !hadA {
						execLvl := actorLvl
						if st.Op.Obo > 0 && st.Login >= 0 {
							// (a request on behalf of somebody which names no level is executed at 'auth')
							execLvl = auth.LevelAuth
							switch st.Op.Lvl {
							case "anon":
								execLvl = auth.LevelAnon
							case "root":
								execLvl = auth.LevelRoot
							}
						}
						u1, u2, _ := types.ParseP2P(topic)
						peer := u1
						if peer == target {
							peer = u2
						}
						for _, ur := range o.pre.Users {
							if ur.ID == peer {
								want := selectAccessMode(execLvl, ur.Access.Anon, ur.Access.Auth, types.ModeCP2P)&types.ModeCP2P | types.ModeApprove
								if b.given != want {
									return kit.V("p2p-first-grant-not-peer-default", "user %d (request executed at level %v) started the P2P topic %s and got given %v; the peer's default access for that level is %v/%v (anon/auth), i.e. %v: %s", tgt, execLvl, topic, b.given, ur.Access.Anon, ur.Access.Auth, want, st.Req)
								}
							}
						}
					}
					break
				}
				if hadA && a.deleted {
					o.resub++
					if b.given != a.given {
						return kit.V("resubscribe-lost-previous-grant", "user %d subscribed again to %s and got given %v, the previous grant was %v (default %v): %s", tgt, topic, b.given, a.given, def, st.Req)
					}
				} else if actorLvl == auth.LevelRoot && st.Op.Obo == 0 && !(st.NewGrp >= 0) && !w.isNewGroupOwner(post, topic, target) {
					// root is not subject to the topic's default access; ownership still comes from the owner only
					if b.given.IsOwner() {
						return kit.V("O-granted-by-non-owner", "root user %d subscribed to %s, a group owned by somebody else, and got given %v: %s", tgt, topic, b.given, st.Req)
					}
				} else if b.given != def && !(st.NewGrp >= 0) && !w.isNewGroupOwner(post, topic, target) {
					return kit.V("first-grant-not-default", "user %d subscribed to %s and got given %v, the topic default for the level is %v: %s", tgt, topic, b.given, def, st.Req)
				}
				o.authorised++
			case actor == target:
				// own request on an existing row: only an admin (A or O in given) may raise own grant, never by O (unless owner) or D
				added := b.given &^ a.given
				if !(a.given.IsAdmin()) || added&types.ModeOwner != 0 && !a.given.IsOwner() {
					return kit.V("self-raised-grant", "user %d changed own given on %s from %v to %v by %s", tgt, topic, a.given, b.given, st.Req)
				}
				if added != 0 && a.given.IsOwner() && !a.want.IsOwner() && !b.want.IsOwner() {
					// ownership offered and not (being) accepted: the offer is not yet an administrator's grant
					return kit.V("self-raised-grant:offered-not-accepted", "user %d, who was offered O and has not accepted it (want %v -> %v), changed own given on %s from %v to %v by %s", tgt, a.want, b.want, topic, a.given, b.given, st.Req)
				}
				if added&types.ModeDelete != 0 && !a.given.IsOwner() {
					return kit.V("self-raised-grant-D", "admin user %d gave himself D on %s (%v -> %v) by %s", tgt, topic, a.given, b.given, st.Req)
				}
				if b.given&^a.given == 0 && b.given != a.given && !o.isTransferLoser(pre, now, topic, target) {
					return kit.V("self-lowered-grant", "user %d lowered own given on %s from %v to %v by %s", tgt, topic, a.given, b.given, st.Req)
				}
				o.authorised++
			case strings.HasPrefix(topic, "p2p") && newRow:
				// first contact (or re-contact after one side unsubscribed): the requester's {sub} creates
				// or re-creates the peer's row with the requester's default access; range-checked above.
			default:
				// somebody else's request
				if o.isTransferLoser(pre, now, topic, target) && b.given == a.given&^types.ModeOwner {
					break // previous owner loses O at the moment the new owner accepts
				}
				if !actorMode.IsSharer() {
					return kit.V("grant-changed-by-unauthorised", "user %d (effective mode %v on %s) changed given of user %d from %v to %v: %s", st.User, actorMode, grpTopic, tgt, givenBefore, b.given, st.Req)
				}
				if !actorMode.IsAdmin() {
					// a sharer can merely invite with default access
					def, _ := topicDefault(o.pre, grpTopic, auth.LevelAuth)
					if !newRow || b.given != def|types.ModeJoin {
						return kit.V("sharer-set-explicit-grant", "sharer user %d (mode %v) set given of user %d on %s to %v (default+J is %v): %s", st.User, actorMode, tgt, topic, b.given, def|types.ModeJoin, st.Req)
					}
				}
				if b.given.IsOwner() && !givenBefore.IsOwner() && !actorMode.IsOwner() {
					return kit.V("O-granted-by-non-owner", "user %d (mode %v) granted O to user %d on %s: %s", st.User, actorMode, tgt, topic, st.Req)
				}
				o.authorised++
			}
		}
		// ---- removal by somebody else: {del what=sub} takes effective approve (or owner) permission
		if hadA && hasB && !a.deleted && b.deleted && actor != target && st.Op.K == "del" && st.Op.A == "sub" && strings.HasPrefix(topic, "grp") {
			actorRow, actorSub := pre[subKey{grpTopic, actor}]
			if !(actor != target && o.stale(grpTopic, actor, actorRow, actorSub)) {
				actorMode := actorRow.want & actorRow.given
				if !actorSub || actorRow.deleted {
					actorMode = 0
				}
				if !actorMode.IsAdmin() {
					return kit.V("subscription-removed-by-unauthorised", "user %d (effective mode %v on %s: want %v, given %v) removed the subscription of user %d: %s", st.User, actorMode, grpTopic, actorRow.want, actorRow.given, tgt, st.Req)
				}
				o.authorised++
			}
		}
		// ---- want changes
		if hasB && hadA && !newRow && a.want != b.want && actor != target {
			if !(o.isTransferLoser(pre, now, topic, target) && b.want == a.want&^types.ModeOwner) {
				return kit.V("want-changed-by-other", "want of user %d on %s changed from %v to %v by a request of user %d: %s", tgt, topic, a.want, b.want, st.User, st.Req)
			}
		}
	}
	// subscriber limit on groups
	limit := globals.maxSubscriberCount
	count := map[string]int{}
	for k, v := range now {
		if strings.HasPrefix(k.topic, "grp") && !v.deleted {
			count[k.topic]++
		}
	}
	for topic, n := range count {
		preN := 0
		for k, v := range pre {
			if k.topic == topic && !v.deleted {
				preN++
			}
		}
		if n > limit && n > preN {
			return kit.V("subscriber-limit-exceeded", "group %s has %d subscribers, the configured limit is %d (after %s)", topic, n, limit, st.Req)
		}
	}
	// a user whose grant lacks J cannot attach
	if st.Op.K == "sub" && !st.Skipped && okReply && st.User >= 0 {
		row := st.Route
		if strings.HasPrefix(st.Name, "chn") {
			row = st.Name
		}
		if v, ok := now[subKey{row, actor}]; ok && !v.deleted && !v.given.IsJoiner() {
			if _, attached := o.attachedNow(w, st); attached {
				return kit.V("attached-without-J-in-given", "user %d attached to %s although given is %v: %s", st.User, st.Route, v.given, st.Req)
			}
		}
	}
	if c != nil && c.Code >= 400 && isRequest && (st.Op.K == "set" || st.Op.K == "sub" || st.Op.K == "del" || st.Op.K == "leave") {
		o.refused++
	}
	return nil
}

func (o *c07Obs) attachedNow(w *wWorld, st *wStep) (wAtt, bool) {
	if !w.sessOK(st.Sess) {
		return wAtt{}, false
	}
	if w.sess[st.Sess].s.getSub(st.Route) == nil {
		return wAtt{}, false
	}
	return wAtt{}, true
}

// isTransferLoser: target held effective O before and another user holds it now.
func (o *c07Obs) isTransferLoser(pre, now map[subKey]subVal, topic string, target types.Uid) bool {
	a := pre[subKey{topic, target}]
	if !(a.want & a.given).IsOwner() {
		return false
	}
	for k, v := range now {
		if k.topic == topic && k.user != target && !v.deleted && (v.want&v.given).IsOwner() {
			return true
		}
	}
	return false
}

func (w *wWorld) isNewGroupOwner(st *mem.State, topic string, uid types.Uid) bool {
	for _, tr := range st.Topics {
		if tr.Name == topic && tr.Owner == uid {
			return true
		}
	}
	return false
}

func c07Exec(t *testing.T, r *kit.Run) func(wProg) kit.Outcome {
	return func(p wProg) kit.Outcome {
		r.WAL(p)
		obs := &c07Obs{att: newWAttach()}
		obs.known = func(v *kit.Viol) bool { return r.IsKnown(v.Sig) && r.Violation(v, p) }
		var res wRunResult
		fail := wInBubble(t, func() { res = wExec(&p, obs, nil) })
		o := kit.Outcome{NonTrivial: (obs.authorised > 0 && obs.refused > 0) || obs.resub > 0}
		if obs.resub > 0 {
			o.Classes = append(o.Classes, "unsub-resub")
		}
		if p.Cfg.MaxSubs > 0 {
			o.Classes = append(o.Classes, "low-subscriber-limit")
		}
		if fail != "" && res.Viol == nil {
			o.Skip = true
			fmt.Println("C07 bubble failure (not judged here):", firstLine(fail))
			return o
		}
		o.Viol = res.Viol
		return o
	}
}

func TestC07Permissions(t *testing.T) {
	r := kit.Begin("C07", "TestC07Permissions")
	defer r.Flush()
	kit.CheckRun(t, r, c06Gen, c07Exec(t, r))
}
