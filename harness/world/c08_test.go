package main

// C08 — the live topic state and the stored state never diverge.
//  (1) cache = store at every quiescent point for every loaded topic;
//  (2) reload-differential: answers to desc/sub/tags/del/data queries are the same before and
//      after a restart on the same store;
//  (3) a request that failed (injected store fault, error reply) changes neither the store nor
//      the cache; an acknowledged change is in the store when it is acknowledged.

import (
	"encoding/json"
	"fmt"
	"sort"
	"strings"
	"testing"

	"github.com/tinode/chat/server/store/types"
	kit "github.com/tinode/chat/server/zzverifkit"
	mem "github.com/tinode/chat/server/zzverifmem"
	"pgregory.net/rapid"
)

const c08OfflineSet = "c08-offline-set" // marker (raw op): {set desc.private sub.mode} on the unloaded group; X = [private value, mode]

func c08Gen(rt *rapid.T) wProg {
	p := wProg{}
	p.Cfg = wConfig{Users: 4, Root: gPct(rt, 40)}
	p.Sess = append([]int(nil), gPick(rt, [][]int{{0, 1, 2}, {0, 0, 1, 2}, {0, 1, 1, 2}, {0, 1, 2, 3}}, "layout")...)
	gGrpc(rt, &p, 15)
	gLat(rt, &p, 25)
	if gPct(rt, 30) {
		p.Cfg.Vmail = gPick(rt, []int{1, 2, 3, 3, 3}, "vmail")
	}
	isChan := gPct(rt, 30)
	kind := "new"
	if isChan {
		kind = "nch"
	}
	p.Ops = append(p.Ops, wOp{K: "sub", S: 0, T: kind})
	grpRef := func(s int) string {
		if isChan && p.Sess[s] != 0 && gPct(rt, 50) {
			return "c0"
		}
		return "g0"
	}
	for s := 1; s < len(p.Sess); s++ {
		if gPct(rt, 75) {
			p.Ops = append(p.Ops, wOp{K: "sub", S: s, T: grpRef(s), A: gPick(rt, gWantModes, "want")})
		}
	}
	if gPct(rt, 60) {
		p.Ops = append(p.Ops, wOp{K: "sub", S: 0, T: "p1"})
		for s := 1; s < len(p.Sess); s++ {
			if p.Sess[s] == 1 && gPct(rt, 80) {
				p.Ops = append(p.Ops, wOp{K: "sub", S: s, T: "p0"})
			}
		}
	}
	if gPct(rt, 40) {
		p.Ops = append(p.Ops, wOp{K: "sub", S: 0, T: "me"})
	}
	topicFor := func(s int) string {
		u := p.Sess[s]
		pool := []string{grpRef(s), "g0", "g0"}
		if u == 0 {
			pool = append(pool, "p1", "me")
			if p.Cfg.Root {
				pool = append(pool, "sys")
			}
		}
		if u == 1 {
			pool = append(pool, "p0", "me")
		}
		return gPick(rt, pool, "topic")
	}
	anyOp := func() wOp {
		s := gInt(rt, 0, len(p.Sess)-1, "s")
		switch x := gInt(rt, 0, 99, "opk"); {
		case x < 18:
			return wOp{K: "pub", S: s, T: topicFor(s)}
		case x < 27:
			return wOp{K: "sub", S: s, T: topicFor(s), A: gPick(rt, gWantModes, "want")}
		case x < 34:
			return wOp{K: "leave", S: s, T: topicFor(s), F: gPct(rt, 40)}
		case x < 41:
			return wOp{K: "set", S: s, T: topicFor(s), A: "mode", B: gPick(rt, gWantModes[2:], "want")}
		case x < 50:
			actor := s
			if gPct(rt, 70) {
				actor = 0
			}
			return wOp{K: "set", S: actor, T: gPick(rt, []string{"g0", "g0", "p1"}, "t"), A: "given",
				U: gInt(rt, 1, 3, "target"), B: gPick(rt, gGivenModes, "given")}
		case x < 54:
			return wOp{K: "del", S: 0, T: "g0", A: "sub", U: gInt(rt, 1, 3, "target")}
		case x < 61:
			return wOp{K: "set", S: s, T: topicFor(s), A: gPick(rt, []string{"public", "private", "private", "defacs", "trusted"}, "what"),
				B: gPick(rt, []string{"a", "b", "JRWPS", "JRW", "␡"}, "val")}
		case x < 63:
			// one request changing a topic-level and a per-user field: two store writes
			v := gPick(rt, []string{"a", "b", "c"}, "val")
			if gPct(rt, 50) {
				// nested objects (a vCard with a photo): an update replaces what is inside an existing one
				return wOp{K: "set", S: s, T: topicFor(s), A: "desc", H: map[string]any{"public": map[string]any{"fn": "n", "photo": map[string]any{"data": v, "type": "png"}},
					"private": map[string]any{"c": map[string]any{"k": v}}}}
			}
			return wOp{K: "set", S: s, T: topicFor(s), A: "desc", H: map[string]any{"public": map[string]any{"fn": v}, "private": map[string]any{"c": v}}}
		case x < 68:
			return wOp{K: "set", S: s, T: topicFor(s), A: "tags", X: gPick(rt, [][]string{{"alpha"}, {"alpha", "beta"}, {}, {"gamma", "Delta "}, {"alpha", "ALPHA", "x", "#hash", "beta"}, {"beta", "beta", "b"}, {"\u2421"}}, "tags")}
		case x < 76:
			lo := gInt(rt, 1, 4, "lo")
			return wOp{K: "del", S: s, T: topicFor(s), A: "msg", F: gPct(rt, 50), R: [][2]int{{lo, gPick(rt, []int{0, lo + 1, lo + 2, lo + 3}, "hi")}}}
		case x < 84:
			return wOp{K: "note", S: s, T: topicFor(s), A: gPick(rt, []string{"read", "recv"}, "what"), N: gInt(rt, 1, 4, "seq")}
		case x < 87:
			return wOp{K: "get", S: s, T: topicFor(s), A: gPick(rt, []string{"desc", "sub", "data", "del", "tags"}, "what")}
		case x < 88:
			return wOp{K: "del", S: 0, T: "g0", A: "topic", F: gPct(rt, 50)}
		case x < 89:
			// a participant deletes "the topic" of a P2P conversation: the own subscription goes, the peer's stays
			if u := p.Sess[s]; u <= 1 {
				return wOp{K: "del", S: s, T: fmt.Sprintf("p%d", 1-u), A: "topic", F: gPct(rt, 50)}
			}
			return wOp{K: "del", S: 0, T: "p1", A: "topic"}
		default:
			return wOp{K: "pub", S: s, T: topicFor(s)}
		}
	}
	n := gInt(rt, 3, 14, "nops")
	for i := 0; i < n; i++ {
		switch x := gInt(rt, 0, 99, "ctl"); {
		case x < 4:
			// self-ban, then come back without naming a mode (the server picks one)
			s := gInt(rt, 1, len(p.Sess)-1, "s")
			p.Ops = append(p.Ops, wOp{K: "set", S: s, T: "g0", A: "mode", B: "N"})
			if gPct(rt, 50) {
				p.Ops = append(p.Ops, wOp{K: "sub", S: s, T: "g0"})
			} else {
				p.Ops = append(p.Ops, wOp{K: "set", S: s, T: "g0", A: "mode", B: ""})
			}
		case x < 6:
			// ownership handed over (offer + acceptance), then the topic is loaded again
			heir := gInt(rt, 1, 2, "heir2")
			for hs := 1; hs < len(p.Sess); hs++ {
				if p.Sess[hs] == heir {
					p.Ops = append(p.Ops, wOp{K: "set", S: 0, T: "g0", A: "given", U: heir, B: "JRWPASDO"}, wOp{K: "sub", S: hs, T: "g0"},
						wOp{K: "set", S: hs, T: "g0", A: "mode", B: "JRWPASDO"}, wOp{K: gPick(rt, []string{"reload", "restart"}, "how2"), T: "g0"},
						wOp{K: "get", S: 0, T: "g0", A: "desc"}, wOp{K: "get", S: hs, T: "g0", A: "sub"})
					break
				}
			}
		case x < 8:
			// ownership offered but not (yet) accepted, then the topic is loaded again
			p.Ops = append(p.Ops, wOp{K: "set", S: 0, T: "g0", A: "given", U: gInt(rt, 1, 2, "heir"), B: gPick(rt, []string{"JRWPASDO", "JRWPSO"}, "grant")},
				wOp{K: gPick(rt, []string{"reload", "restart"}, "how"), T: "g0"})
			p.Ops = append(p.Ops, wOp{K: "get", S: 0, T: "g0", A: "tags"}, wOp{K: "set", S: 0, T: "g0", A: "tags", X: []string{"alpha"}})
		case x < 10 && p.Cfg.Vmail > 0 && gPct(rt, 60):
			// an address is put up for validation, confirmed (it becomes a tag), then removed again, all while 'me' is loaded
			s := gInt(rt, 0, len(p.Sess)-1, "s")
			val := fmt.Sprintf("c8s%d@%s", s, wValidatorDomain)
			cred := func(m map[string]any) string {
				return wJSON(map[string]any{"set": map[string]any{"id": "$id", "topic": "me", "cred": m}})
			}
			p.Ops = append(p.Ops, wOp{K: "sub", S: s, T: "me"}, wOp{K: "set", S: s, T: "me", A: "tags", X: gPick(rt, [][]string{{"alpha"}, {"alpha", "beta"}, {}}, "mtags")},
				wOp{K: "raw", S: s, A: cred(map[string]any{"meth": wValidatorName, "val": val})},
				wOp{K: "raw", S: s, A: cred(map[string]any{"meth": wValidatorName, "resp": gPick(rt, []string{wValidatorCode, wValidatorCode, "000000"}, "resp8")})},
				wOp{K: "get", S: s, T: "me", A: "tags"},
				wOp{K: "raw", S: s, A: wJSON(map[string]any{"del": map[string]any{"id": "$id", "topic": "me", "what": "cred", "cred": map[string]any{"meth": wValidatorName, "val": val}}})},
				wOp{K: "get", S: s, T: "me", A: "tags"})
		case x < 12 && gPct(rt, 35):
			// everybody leaves, the group is unloaded; a member then changes the private comment and the
			// requested mode in one request, which the hub serves from the store
			s := gInt(rt, 1, len(p.Sess)-1, "offs")
			var ins []wOp
			ins = append(ins, wOp{K: "sub", S: s, T: "g0"})
			for k := range p.Sess {
				ins = append(ins, wOp{K: "leave", S: k, T: "g0"}, wOp{K: "leave", S: k, T: "c0"})
			}
			v, m := gPick(rt, []string{"oa", "ob"}, "offv"), gPick(rt, []string{"JRP", "JRWP", "JR"}, "offm")
			ins = append(ins, wOp{K: "tick", N: 5500}, wOp{K: "raw", S: s, B: c08OfflineSet, X: []string{v, m},
				A: wJSON(map[string]any{"set": map[string]any{"id": "$id", "topic": "$g0", "desc": map[string]any{"private": map[string]any{"c": v}}, "sub": map[string]any{"mode": m}}})},
				wOp{K: "sub", S: s, T: "g0"}, wOp{K: "get", S: s, T: "g0", A: "desc"})
			p.Ops = append(p.Ops, ins...)
		case x < 10:
			// a store failure in the middle of a request which makes two writes
			s := gInt(rt, 0, len(p.Sess)-1, "s")
			v := gPick(rt, []string{"a", "b", "c"}, "val")
			p.Ops = append(p.Ops, wOp{K: "fault", N: gInt(rt, 1, 2, "k")},
				wOp{K: "set", S: s, T: gPick(rt, []string{"g0", "g0", "me"}, "dt"), A: "desc", H: map[string]any{"public": map[string]any{"fn": v}, "private": map[string]any{"c": v}}})
		case x < 11:
			// a vCard with a photo is set; the next update of what is inside the photo fails in the store:
			// the request is refused and the description stays what it was, in memory too
			s := gInt(rt, 0, len(p.Sess)-1, "s")
			dt := gPick(rt, []string{"g0", "g0", "me"}, "ndt")
			if dt == "g0" {
				s = 0
			}
			field := gPick(rt, []string{"public", "public", "private"}, "nfield")
			p.Ops = append(p.Ops, wOp{K: "sub", S: s, T: dt}, wOp{K: "set", S: s, T: dt, A: "desc", H: map[string]any{field: map[string]any{"fn": "n", "photo": map[string]any{"data": "a", "type": "png"}}}},
				wOp{K: "fault", N: 1}, wOp{K: "set", S: s, T: dt, A: "desc", H: map[string]any{field: map[string]any{"photo": map[string]any{"data": gPick(rt, []string{"b", "c"}, "nval")}}}},
				wOp{K: "get", S: s, T: dt, A: "desc"})
		case x < 13:
			// P2P with read/received marks and private notes on both sides; one participant unsubscribes,
			// the topic is unloaded and loaded back by the returning participant (one subscription missing)
			s1 := -1
			for hs := 1; hs < len(p.Sess); hs++ {
				if p.Sess[hs] == 1 {
					s1 = hs
					break
				}
			}
			if s1 > 0 {
				leaver, lt := 0, "p1"
				if gPct(rt, 50) {
					leaver, lt = s1, "p0"
				}
				p.Ops = append(p.Ops, wOp{K: "sub", S: 0, T: "p1"}, wOp{K: "sub", S: s1, T: "p0"}, wOp{K: "pub", S: 0, T: "p1"}, wOp{K: "pub", S: s1, T: "p0"}, wOp{K: "pub", S: 0, T: "p1"},
					wOp{K: "note", S: s1, T: "p0", A: "read", N: gInt(rt, 1, 3, "r1")}, wOp{K: "note", S: 0, T: "p1", A: gPick(rt, []string{"read", "recv"}, "w0"), N: gInt(rt, 1, 3, "r0")},
					wOp{K: "set", S: s1, T: "p0", A: "private", B: "n1"}, wOp{K: "set", S: 0, T: "p1", A: "private", B: "n0"},
					wOp{K: "leave", S: leaver, T: lt, F: true}, wOp{K: "reload", T: "p1"}, wOp{K: "sub", S: leaver, T: lt},
					wOp{K: "get", S: 0, T: "p1", A: "desc sub"}, wOp{K: "get", S: s1, T: "p0", A: "desc sub"})
			}
		case x < 16 && p.Cfg.Root:
			// the root session changes a member's private note and own mode on the member's behalf
			tgt := gInt(rt, 1, 2, "obotgt")
			p.Ops = append(p.Ops, wOp{K: "sub", S: 0, T: "g0"}, wOp{K: "set", S: 0, T: "g0", A: "private", B: gPick(rt, []string{"ra", "rb"}, "oboval"), Obo: tgt + 1},
				wOp{K: "set", S: 0, T: "g0", A: "mode", B: gPick(rt, []string{"JRWP", "JRW", "JRWPS"}, "obomode"), Obo: tgt + 1}, wOp{K: "get", S: 0, T: "g0", A: "sub"})
		case x < 19 && p.Cfg.Root:
			// the root user suspends or reinstates an account while that account's topics (the group
			// it owns, its P2P topics - whichever side of the name its id is on) may be in memory
			tgt := gInt(rt, 0, 2, "susptgt")
			p.Ops = append(p.Ops, wOp{K: "acc", S: 0, U: tgt, A: gPick(rt, []string{"susp", "susp", "ok"}, "status")})
			if gPct(rt, 50) {
				p.Ops = append(p.Ops, anyOp(), wOp{K: "acc", S: 0, U: tgt, A: gPick(rt, []string{"ok", "ok", "susp"}, "status2")})
			}
		case x < 72:
			p.Ops = append(p.Ops, anyOp())
		case x < 84:
			p.Ops = append(p.Ops, wOp{K: "fault", N: gInt(rt, 1, 6, "k")}, anyOp())
		case x < 90:
			p.Ops = append(p.Ops, wOp{K: "reload", T: gPick(rt, []string{"g0", "g0", "p1"}, "rt")})
		case x < 94:
			p.Ops = append(p.Ops, wOp{K: "restart"})
		case x < 97:
			s := gInt(rt, 0, len(p.Sess)-1, "s")
			p.Ops = append(p.Ops, wOp{K: "disc", S: s}, wOp{K: "reconn", S: s})
		default:
			p.Ops = append(p.Ops, wOp{K: "tick", N: gPick(rt, []int{50, 1000, 5500}, "ms")})
		}
	}
	return p
}

func canonJSON(b []byte) string {
	if b == nil {
		return "null"
	}
	var v any
	if json.Unmarshal(b, &v) != nil {
		return string(b)
	}
	out, _ := json.Marshal(v)
	return string(out)
}

func canonAny(v any) string {
	b, err := json.Marshal(v)
	if err != nil {
		return fmt.Sprint(v)
	}
	return canonJSON(b)
}

func sortedCopy(in []string) []string {
	out := append([]string(nil), in...)
	sort.Strings(out)
	return out
}

// c08Compare checks relation (1) for every loaded topic. It returns the first disagreement.
type c08Div struct {
	key string
	v   *kit.Viol
}

func c08Compare(w *wWorld) []c08Div {
	var divs []c08Div
	add := func(key string, v *kit.Viol) { divs = append(divs, c08Div{key, v}) }
	var c08Skip bool
	_ = c08Skip
	sigField := func(sig string) string {
		p := strings.Split(sig, ":")
		if len(p) > 1 {
			return p[1]
		}
		return sig
	}

	snap := mem.A.Snapshot()
	live := w.liveTopics()
	names := make([]string, 0, len(live))
	for n := range live {
		names = append(names, n)
	}
	sort.Strings(names)
	for _, name := range names {
		lt := live[name]
		who := ""
		if lt.Status&(topicStatusPaused|topicStatusMarkedDeleted) != 0 || lt.Status&topicStatusLoaded == 0 && lt.Cat != types.TopicCatFnd {
			// still initialising or on its way out
			if lt.Status&topicStatusLoaded == 0 && lt.Cat != types.TopicCatSys {
				// "loaded" is only set by the first subscription; fully initialised topics are compared anyway
			}
		}
		if lt.Status&(topicStatusPaused|topicStatusMarkedDeleted) != 0 {
			continue
		}
		var trow *struct {
			seq, del   int
			owner      types.Uid
			auth, anon types.AccessMode
			tags       []string
			pub, tru   []byte
		}
		switch lt.Cat {
		case types.TopicCatGrp, types.TopicCatP2P, types.TopicCatSys:
			for _, r := range snap.Topics {
				if r.Name == name {
					trow = &struct {
						seq, del   int
						owner      types.Uid
						auth, anon types.AccessMode
						tags       []string
						pub, tru   []byte
					}{r.SeqId, r.DelId, r.Owner, r.Access.Auth, r.Access.Anon, r.Tags, r.Public, r.Trusted}
				}
			}
			if trow == nil {
				add(name+"|"+who+"|"+sigField("cache-without-row:"+catName(lt.Cat)), kit.V("cache-without-row:"+catName(lt.Cat), "topic %s is loaded but has no topic row in the store", name))
				c08Skip = true
			}
			if lt.LastID != trow.seq {
				add(name+"|"+who+"|"+sigField("diverged:lastID:"+catName(lt.Cat)), kit.V("diverged:lastID:"+catName(lt.Cat), "topic %s: cached last message id %d, stored %d", name, lt.LastID, trow.seq))
				c08Skip = true
			}
			if lt.DelID != trow.del && lt.Cat != types.TopicCatSys {
				dir := "cache-behind"
				if lt.DelID > trow.del {
					dir = "cache-ahead"
				}
				add(name+"|"+who+"|"+sigField("diverged:delID:"+dir+":"+catName(lt.Cat)), kit.V("diverged:delID:"+dir+":"+catName(lt.Cat), "topic %s: cached delete id %d, stored %d", name, lt.DelID, trow.del))
				c08Skip = true
			}
			// a suspended topic (its owner's / a participant's account was suspended) is read-only in
			// memory exactly as long as the store says 'suspended': a reload would make it so
			if lt.Cat != types.TopicCatSys {
				for _, r := range snap.Topics {
					if r.Name == name {
						if ro, susp := lt.Status&topicStatusReadOnly != 0, r.State == types.StateSuspended; ro != susp {
							add(name+"|"+who+"|"+sigField("diverged:read-only:"+catName(lt.Cat)), kit.V("diverged:read-only:"+catName(lt.Cat), "topic %s: read-only in memory = %v, stored state suspended = %v", name, ro, susp))
							c08Skip = true
						}
					}
				}
			}
			if lt.Cat == types.TopicCatSys && lt.DelID != trow.del {
				add(name+"|"+who+"|"+sigField("diverged:delID:sys"), kit.V("diverged:delID:sys", "topic sys: cached delete id %d, stored %d", lt.DelID, trow.del))
				c08Skip = true
			}
		case types.TopicCatMe:
			uid := types.ParseUserId(name)
			for _, u := range snap.Users {
				if u.ID == uid {
					trow = &struct {
						seq, del   int
						owner      types.Uid
						auth, anon types.AccessMode
						tags       []string
						pub, tru   []byte
					}{0, 0, types.ZeroUid, u.Access.Auth, u.Access.Anon, u.Tags, u.Public, u.Trusted}
				}
			}
			if trow == nil {
				add(name+"|"+who+"|"+sigField("cache-without-row:me"), kit.V("cache-without-row:me", "topic %s is loaded but the user row is gone", name))
				c08Skip = true
			}
		default:
			continue
		}
		if lt.Cat == types.TopicCatGrp {
			if lt.Owner != trow.owner {
				add(name+"|"+who+"|"+sigField("diverged:owner"), kit.V("diverged:owner", "topic %s: cached owner %s, stored owner %s", name, lt.Owner.UserId(), trow.owner.UserId()))
				c08Skip = true
			}
		}
		if lt.Cat == types.TopicCatGrp || lt.Cat == types.TopicCatMe {
			if lt.AccessAuth != trow.auth || lt.AccessAnon != trow.anon {
				add(name+"|"+who+"|"+sigField("diverged:defacs:"+catName(lt.Cat)), kit.V("diverged:defacs:"+catName(lt.Cat), "topic %s: cached default access %v/%v, stored %v/%v", name, lt.AccessAuth, lt.AccessAnon, trow.auth, trow.anon))
				c08Skip = true
			}
			if fmt.Sprint(sortedCopy(lt.Tags)) != fmt.Sprint(sortedCopy(trow.tags)) {
				add(name+"|"+who+"|"+sigField("diverged:tags:"+catName(lt.Cat)), kit.V("diverged:tags:"+catName(lt.Cat), "topic %s: cached tags %v, stored %v", name, lt.Tags, trow.tags))
				c08Skip = true
			}
			if canonAny(lt.Public) != canonJSON(trow.pub) {
				add(name+"|"+who+"|"+sigField("diverged:public:"+catName(lt.Cat)), kit.V("diverged:public:"+catName(lt.Cat), "topic %s: cached public %s, stored %s", name, canonAny(lt.Public), canonJSON(trow.pub)))
				c08Skip = true
			}
			if canonAny(lt.Trusted) != canonJSON(trow.tru) {
				add(name+"|"+who+"|"+sigField("diverged:trusted:"+catName(lt.Cat)), kit.V("diverged:trusted:"+catName(lt.Cat), "topic %s: cached trusted %s, stored %s", name, canonAny(lt.Trusted), canonJSON(trow.tru)))
				c08Skip = true
			}
		}
		// subscribers
		type row struct {
			want, given types.AccessMode
			priv        []byte
			read, recv  int
			del         int
			deleted     bool
		}
		rows := map[types.Uid]row{}
		chanRows := map[types.Uid]row{}
		for _, r := range snap.Subs {
			rr := row{r.ModeWant, r.ModeGiven, r.Private, r.ReadSeqId, r.RecvSeqId, r.DelId, r.DeletedAt != nil}
			if r.Topic == name {
				rows[r.User] = rr
			} else if lt.Cat == types.TopicCatGrp && r.Topic == types.GrpToChn(name) {
				chanRows[r.User] = rr
			}
		}
		uids := make([]types.Uid, 0, len(lt.PerUser))
		for uid := range lt.PerUser {
			uids = append(uids, uid)
		}
		sort.Slice(uids, func(i, j int) bool { return uids[i] < uids[j] })
		for _, uid := range uids {
			pud := lt.PerUser[uid]
			who = fmt.Sprintf("user %d", w.userIdx(uid))
			src := rows
			kindTag := catName(lt.Cat)
			if cr, has := chanRows[uid]; has && !cr.deleted {
				// the user is (also) a channel reader: the topic keeps one cache entry per user and
				// mixes up the chnXXX and grpXXX rows (see DESIGN.md, known findings)
				kindTag = "chan-reader"
			}
			if pud.isChan {
				src = chanRows
			}
			r, ok := src[uid]
			if pud.deleted {
				if ok && !r.deleted {
					add(name+"|"+who+"|"+sigField("diverged:sub-deleted-flag:"+kindTag), kit.V("diverged:sub-deleted-flag:"+kindTag, "topic %s: %s is cached as unsubscribed but the stored subscription is live", name, who))
					c08Skip = true
				}
				continue
			}
			if !ok || r.deleted {
				if pud.isChan {
					// a channel reader's cache entry exists only while attached; the row must exist
				}
				add(name+"|"+who+"|"+sigField("diverged:sub-missing-in-store:"+kindTag), kit.V("diverged:sub-missing-in-store:"+kindTag, "topic %s: %s is a cached subscriber (want %v given %v) but has no live stored subscription", name, who, pud.modeWant, pud.modeGiven))
				c08Skip = true
			}
			if pud.modeWant != r.want || pud.modeGiven != r.given {
				add(name+"|"+who+"|"+sigField("diverged:sub-mode:"+kindTag), kit.V("diverged:sub-mode:"+kindTag, "topic %s: %s cached want/given %v/%v, stored %v/%v", name, who, pud.modeWant, pud.modeGiven, r.want, r.given))
				c08Skip = true
			}
			if pud.isChan {
				continue // marks and private of channel readers are not cached by design
			}
			if canonAny(pud.private) != canonJSON(r.priv) {
				add(name+"|"+who+"|"+sigField("diverged:sub-private:"+kindTag), kit.V("diverged:sub-private:"+kindTag, "topic %s: %s cached private %s, stored %s", name, who, canonAny(pud.private), canonJSON(r.priv)))
				c08Skip = true
			}
			if lt.Cat != types.TopicCatMe {
				// A read note moves the cached received mark up to the read mark but writes only the read
				// mark to the store (pinned by TestHandleBroadcastInfoP2P): the effective stored received
				// mark is max(recv, read).
				effRecv := r.recv
				if r.read > effRecv {
					effRecv = r.read
				}
				if pud.readID != r.read || max(pud.recvID, pud.readID) != effRecv {
					add(name+"|"+who+"|"+sigField("diverged:sub-marks:"+kindTag), kit.V("diverged:sub-marks:"+kindTag, "topic %s: %s cached read/recv %d/%d, stored %d/%d", name, who, pud.readID, pud.recvID, r.read, r.recv))
					c08Skip = true
				}
				if pud.delID != r.del {
					add(name+"|"+who+"|"+sigField("diverged:sub-delID:"+kindTag), kit.V("diverged:sub-delID:"+kindTag, "topic %s: %s cached delete id %d, stored %d", name, who, pud.delID, r.del))
					c08Skip = true
				}
			}
		}
		if lt.Cat == types.TopicCatGrp || lt.Cat == types.TopicCatP2P {
			for uid, r := range rows {
				if r.deleted {
					continue
				}
				if pud, ok := lt.PerUser[uid]; !ok || pud.deleted || pud.isChan {
					tag := catName(lt.Cat)
					who = fmt.Sprintf("user %d", w.userIdx(uid))
					if cr, has := chanRows[uid]; has && !cr.deleted {
						tag = "chan-reader"
					}
					add(name+"|"+who+"|"+sigField("diverged:sub-missing-in-cache:"+tag), kit.V("diverged:sub-missing-in-cache:"+tag, "topic %s: user %d has a live stored subscription (want %v given %v) which the loaded topic does not know", name, w.userIdx(uid), r.want, r.given))
					c08Skip = true
				}
			}
		}
	}
	return divs
}

func catName(c types.TopicCat) string {
	switch c {
	case types.TopicCatMe:
		return "me"
	case types.TopicCatFnd:
		return "fnd"
	case types.TopicCatP2P:
		return "p2p"
	case types.TopicCatGrp:
		return "grp"
	case types.TopicCatSys:
		return "sys"
	}
	return "?"
}

// c08StoreDigest renders the durable part of the store for "no change" comparison.
func c08StoreDigest(s *mem.State) map[string]string {
	d := map[string]string{}
	for _, r := range s.Topics {
		d["topic/"+r.Name] = fmt.Sprintf("state=%v owner=%v acs=%v/%v seq=%d del=%d pub=%s tru=%s tags=%v usebt=%v", r.State, r.Owner, r.Access.Auth, r.Access.Anon, r.SeqId, r.DelId, canonJSON(r.Public), canonJSON(r.Trusted), r.Tags, r.UseBt)
	}
	for _, r := range s.Subs {
		d["sub/"+r.Topic+"/"+r.User.String()] = fmt.Sprintf("deleted=%v want=%v given=%v priv=%s read=%d recv=%d del=%d", r.DeletedAt != nil, r.ModeWant, r.ModeGiven, canonJSON(r.Private), r.ReadSeqId, r.RecvSeqId, r.DelId)
	}
	for _, m := range s.Msgs {
		d[fmt.Sprintf("msg/%s/%d", m.Topic, m.SeqId)] = fmt.Sprintf("del=%d content=%s head=%s", m.DelId, canonJSON(m.Content), canonJSON(m.Head))
	}
	for i, l := range s.Dellog {
		d[fmt.Sprintf("dellog/%s/%d/%d", l.Topic, l.DelId, i)] = fmt.Sprintf("for=%v [%d,%d)", l.DeletedFor, l.Low, l.Hi)
	}
	for _, u := range s.Users {
		d["user/"+u.ID.String()] = fmt.Sprintf("state=%v acs=%v/%v pub=%s tru=%s tags=%v", u.State, u.Access.Auth, u.Access.Anon, canonJSON(u.Public), canonJSON(u.Trusted), u.Tags)
	}
	return d
}

func diffDigest(a, b map[string]string) string {
	var out []string
	for k, v := range a {
		if bv, ok := b[k]; !ok {
			out = append(out, "- "+k+" "+v)
		} else if bv != v {
			out = append(out, "~ "+k+": "+v+" => "+bv)
		}
	}
	for k, v := range b {
		if _, ok := a[k]; !ok {
			out = append(out, "+ "+k+" "+v)
		}
	}
	sort.Strings(out)
	if len(out) > 6 {
		out = append(out[:6], "...")
	}
	return strings.Join(out, "; ")
}

type c08Obs struct {
	preLoaded map[string]bool // topics in memory before the step
	preLive   map[string]*wTopicSnap
	anyFault  bool // a store failure was delivered earlier in the history
	preStore *mem.State
	tolerated map[string]bool
	known    func(*kit.Viol) bool
	pre      map[string]string
	changes  map[string]bool
	features map[string]bool
	steps    int
}

func (o *c08Obs) Before(w *wWorld, op *wOp) {
	o.preStore = mem.A.Snapshot()
	o.pre = c08StoreDigest(o.preStore)
	o.preLoaded = map[string]bool{}
	o.preLive = w.liveTopics()
	for name := range o.preLive {
		o.preLoaded[name] = true
	}
}

func (o *c08Obs) report(v *kit.Viol) *kit.Viol {
	if v == nil {
		return nil
	}
	if o.known != nil && o.known(v) {
		return nil
	}
	return v
}

func opShape(op *wOp) string {
	s := op.K
	if op.K == "set" || op.K == "del" || op.K == "note" || op.K == "get" {
		s += "-" + op.A
	}
	if op.K == "leave" && op.F {
		s += "-unsub"
	}
	if op.K == "del" && op.F {
		s += "-hard"
	}
	return s
}

func (o *c08Obs) After(w *wWorld, st *wStep) *kit.Viol {
	o.steps++
	if st.Op.K == "raw" && st.Op.B == c08OfflineSet && !st.Skipped && !st.Fired && len(st.Op.X) == 2 && st.User >= 0 {
		// a {set} which carries a private comment and a requested mode, served from the store because the
		// topic is not loaded: once acknowledged, both are in the store
		if c := st.reply(); c != nil && c.Code == 200 && w.liveTopics()[w.groups[0]] == nil {
			for _, r := range mem.A.Snapshot().Subs {
				if r.Topic == w.groups[0] && r.User == w.users[st.User].uid && r.DeletedAt == nil {
					o.features["offline-set-two-fields"] = true
					var priv map[string]any
					json.Unmarshal(r.Private, &priv) // (an object is merged into what is there: only the key sent is demanded)
					if priv["c"] != st.Op.X[0] || r.ModeWant.String() != st.Op.X[1] {
						return kit.V("acknowledged-offline-set-not-stored", "%s was answered 200; the stored subscription has private %s and want %v", st.Req, canonJSON(r.Private), r.ModeWant)
					}
				}
			}
		}
	}
	defer func() {
		if st.Fired || st.Crashed {
			o.anyFault = true
		}
	}()
	switch st.Op.K {
	case "reload":
		if st.Reloaded {
			o.features["unload"] = true
		}
	case "restart":
		o.features["restart"] = true
	}
	c := st.reply()
	if c != nil && c.Code >= 200 && c.Code < 300 && st.Op.K == "del" && st.Op.A == "topic" && strings.HasPrefix(st.Route, "p2p") && !st.Skipped && st.User >= 0 && o.preStore != nil {
		// {del what=topic} on a P2P topic by one participant while the other one is still subscribed
		// removes the requester's subscription only - whether the topic happened to be in memory,
		// with whichever sessions attached, or not: the peer's subscription and the messages stay
		u1, u2, _ := types.ParseP2P(st.Route)
		peer := u1
		if peer == w.users[st.User].uid {
			peer = u2
		}
		// (judged where the loaded topic, if any, knew both subscriptions as the store does, and no store
		// failure has left anything half-done: those divergences have their own signatures)
		agree := !o.anyFault && !st.Fired
		if lt := o.preLive[st.Route]; lt != nil {
			for _, u := range []types.Uid{u1, u2} {
				if pud, ok := lt.PerUser[u]; !ok || pud.deleted {
					agree = false
				}
			}
		}
		if _, _, del, ok := wStoreSub(o.preStore, st.Route, w.users[st.User].uid); !ok || del {
			agree = false
		}
		if _, _, del, ok := wStoreSub(o.preStore, st.Route, peer); ok && !del && agree {
			post := mem.A.Snapshot()
			if _, _, del2, ok2 := wStoreSub(post, st.Route, peer); !ok2 || del2 {
				return kit.V("p2p-del-topic-removed-peer-subscription", "%s by user %d removed the subscription of the other participant (user %d), who had not left the P2P topic (topic loaded before the request: %v)", st.Req, st.User, w.userIdx(peer), o.preLoaded[st.Route])
			}
			n0, n1 := 0, 0
			for _, m := range o.preStore.Msgs {
				if m.Topic == st.Route {
					n0++
				}
			}
			for _, m := range post.Msgs {
				if m.Topic == st.Route {
					n1++
				}
			}
			if n1 < n0 {
				return kit.V("p2p-del-topic-removed-messages", "%s by user %d removed %d of the %d stored messages although the other participant is still subscribed", st.Req, st.User, n0-n1, n0)
			}
		}
	}
	if c != nil && c.Code >= 200 && c.Code < 300 {
		switch st.Op.K {
		case "pub":
			o.changes["message"] = true
		case "set":
			o.changes["set-"+st.Op.A] = true
			if st.Op.T == "me" && strings.Contains(st.Req, `"trusted"`) {
				o.changes["me-trusted"] = true
			}
			if st.Op.T == "me" && strings.Contains(st.Req, `"public"`) {
				o.changes["me-public"] = true
			}
		case "del":
			o.changes["del-"+st.Op.A] = true
		case "sub", "leave":
			o.changes["subscription"] = true
		}
	}
	if st.Fired && st.Op.K == "set" && st.Op.T == "me" && !st.Skipped {
		// a request cut short by a store failure may have stored its first write (listed finding after-fault:set-desc)
		if strings.Contains(st.Req, `"trusted"`) {
			o.changes["me-trusted"] = true
		}
		if strings.Contains(st.Req, `"public"`) {
			o.changes["me-public"] = true
		}
	}
	// (3) a failed request changes nothing
	if st.Fired {
		o.features["fault"] = true
		failed := c != nil && c.Code >= 400
		if st.ReqID == "" {
			failed = false
		}
		if failed {
			post := c08StoreDigest(mem.A.Snapshot())
			if d := diffDigest(o.pre, post); d != "" {
				tr := mem.A.Trace(false)
				_ = tr
				if v := o.report(kit.V("after-fault:"+opShape(&st.Op)+":refused:failed-request-changed-store:"+topicKind(st.Route), "request %s was answered %d %s after an injected store failure but the store changed: %s", st.Req, c.Code, c.Text, d)); v != nil {
					return v
				}
			}
		}
	}
	// a failed request must not change what the session may do afterwards
	for slot, ss := range w.sess {
		if ss != nil && !ss.isClosed() && ss.user >= 0 && ss.s.uid.IsZero() {
			ss.user = -1
			v := kit.V("after-fault:"+opShape(&st.Op)+":session-logged-out", "session %d was silently logged out by request %s (answered %d): later requests get 401 while the client was never told", slot, st.Req, st.code())
			if !st.Fired {
				v.Sig = "session-logged-out:" + opShape(&st.Op)
			}
			if o.known == nil || !o.known(v) {
				return v
			}
		}
	}
	// (1) cache = store
	seen := map[string]bool{}
	for _, d := range c08Compare(w) {
		seen[d.key] = true
		if o.tolerated[d.key] {
			continue // a listed known finding that has not healed yet
		}
		v := d.v
		v.Msg += fmt.Sprintf(" (after step %d: %s %s)", st.I, st.Op.K, st.Req)
		offlineSet := st.Op.K == "set" && !st.Skipped && w.sessOK(st.Sess) && w.sess[st.Sess].s.getSub(st.Route) == nil
		switch {
		case strings.HasSuffix(v.Sig, ":chan-reader") && !offlineSet && !st.Fired:
			v.Sig = "chan-reader:" + v.Sig
		case strings.HasPrefix(v.Sig, "diverged:sub-private:") && !st.Skipped && (!st.Fired || st.ok()) && strings.Contains(d.key, st.Route) &&
			(((st.Op.K == "sub" || (st.Op.K == "set" && st.Op.A == "mode")) && c08WasDeleted(o.preStore, st.Route, w, st.User)) || (st.Op.K == "set" && st.Op.A == "given" && c08WasDeleted(o.preStore, st.Route, w, st.Op.U)) ||
				(strings.HasPrefix(st.Route, "p2p") && c08Resurrected(o.preStore, mem.A.Snapshot(), st.Route, d.key))):
			// re-subscription: the adapter keeps the private value of the soft-deleted row (undelete),
			// the topic caches the value of the request (none)
			v.Sig = "resubscribe-private-resurrected:" + topicKind(st.Route)
		case st.Fired:
			// how the request was answered is part of the root cause: a refused request whose first
			// write persisted is one thing, an acknowledged request which was not stored another
			ack := "refused"
			if st.ok() {
				ack = "acked"
			} else if st.reply() == nil {
				ack = "unanswered"
			}
			dir := ""
			if opShape(&st.Op) == "set-desc" && ack == "refused" && strings.HasPrefix(v.Sig, "diverged:") {
				// which side moved? A refused {set desc} whose first write got through leaves the STORE ahead of
				// the cache (the listed two-writes finding); a store which is as it was means the CACHE was
				// changed by a request that failed - another defect
				if diffDigest(o.pre, c08StoreDigest(mem.A.Snapshot())) != "" {
					dir = "store-ahead:"
				} else {
					dir = "cache-ahead:"
				}
			}
			v.Sig = "after-fault:" + opShape(&st.Op) + ":" + ack + ":" + dir + v.Sig
		case st.Op.K == "set" && !st.Skipped && w.sessOK(st.Sess) && w.sess[st.Sess].s.getSub(st.Route) == nil:
			// {set} from a session that is not attached is served from the store path even when
			// the topic is loaded (hub.meta -> replyOfflineTopicSetSub)
			v.Sig = "offline-set-while-loaded:" + v.Sig
		}
		if o.known != nil && o.known(v) {
			o.tolerated[d.key] = true
			continue
		}
		return v
	}
	for k := range o.tolerated {
		if !seen[k] {
			delete(o.tolerated, k)
		}
	}
	return nil
}

// c08WasDeleted: user u had a soft-deleted subscription row on route before the step.
// c08Resurrected: the subscription the divergence is about was soft-deleted before the step and is
// live after it (a P2P topic loaded by one participant re-creates the other one's subscription:
// listed finding reload-differs:p2p-unsubscribed-peer-resubscribed-on-load).
func c08Resurrected(pre, post *mem.State, route, key string) bool {
	if pre == nil || post == nil {
		return false
	}
	for _, a := range pre.Subs {
		if a.Topic != route || a.DeletedAt == nil {
			continue
		}
		for _, b := range post.Subs {
			if b.Topic == route && b.User == a.User && b.DeletedAt == nil {
				return true
			}
		}
	}
	return false
}

func c08WasDeleted(st *mem.State, route string, w *wWorld, u int) bool {
	if st == nil || u < 0 || u >= len(w.users) {
		return false
	}
	for _, r := range st.Subs {
		if r.Topic == route && r.User == w.users[u].uid {
			return r.DeletedAt != nil
		}
	}
	return false
}

func topicKind(route string) string {
	if len(route) >= 3 {
		return route[:3]
	}
	return route
}

// ---- (2) reload-differential at the end of the program

type c08Answers map[string]string

func c08Probe(w *wWorld) c08Answers {
	out := c08Answers{}
	for slot, ss := range w.sess {
		if ss == nil || ss.isClosed() || ss.user < 0 {
			continue
		}
		for _, route := range ss.subNames() {
			name := route
			isChanSub := false
			if lt := w.liveTopics()[route]; lt != nil {
				if psd, ok := lt.Sessions[ss.s.sid]; ok && psd.isChanSub {
					isChanSub = true
				}
			}
			switch {
			case strings.HasPrefix(route, "usr"):
				name = "me"
			case strings.HasPrefix(route, "fnd"):
				continue
			case strings.HasPrefix(route, "p2p"):
				u1, u2, _ := types.ParseP2P(route)
				if u1 == w.users[ss.user].uid {
					name = u2.UserId()
				} else {
					name = u1.UserId()
				}
			case isChanSub:
				name = types.GrpToChn(route)
			}
			id := w.nextID()
			fr := w.do(ss, `{"get":{"id":"`+id+`","topic":"`+name+`","what":"desc sub tags del data"}}`)
			out[fmt.Sprintf("%d|%s|%s", slot, route, name)] = c08Project(fr, id)
		}
	}
	return out
}

// c08Project keeps the comparable part of the answers (no "online", "seen", "now" timestamps).
func c08Project(frames []*ServerComMessage, id string) string {
	var parts []string
	for _, f := range frames {
		switch {
		case f.Meta != nil && f.Meta.Id == id:
			if d := f.Meta.Desc; d != nil {
				acs := ""
				if d.Acs != nil {
					acs = d.Acs.Want + "/" + d.Acs.Given + "/" + d.Acs.Mode
				}
				def := ""
				if d.DefaultAcs != nil {
					def = d.DefaultAcs.Auth + "/" + d.DefaultAcs.Anon
				}
				parts = append(parts, fmt.Sprintf("desc acs=%s defacs=%s seq=%d read=%d recv=%d clear=%d public=%s trusted=%s private=%s chan=%v",
					acs, def, d.SeqId, d.ReadSeqId, d.RecvSeqId, d.DelId, canonAny(d.Public), canonAny(d.Trusted), canonAny(d.Private), d.IsChan))
			}
			if len(f.Meta.Sub) > 0 {
				var subs []string
				for _, s := range f.Meta.Sub {
					subs = append(subs, fmt.Sprintf("{user=%s topic=%s acs=%s/%s/%s read=%d recv=%d clear=%d seq=%d public=%s trusted=%s private=%s}",
						s.User, s.Topic, s.Acs.Want, s.Acs.Given, s.Acs.Mode, s.ReadSeqId, s.RecvSeqId, s.DelId, s.SeqId, canonAny(s.Public), canonAny(s.Trusted), canonAny(s.Private)))
				}
				sort.Strings(subs)
				parts = append(parts, "sub "+strings.Join(subs, ","))
			}
			if f.Meta.Tags != nil {
				parts = append(parts, fmt.Sprintf("tags %v", sortedCopy(f.Meta.Tags)))
			}
			if f.Meta.Del != nil {
				parts = append(parts, fmt.Sprintf("del clear=%d %v", f.Meta.Del.DelId, f.Meta.Del.DelSeq))
			}
		case f.Data != nil:
			parts = append(parts, fmt.Sprintf("data #%d from=%s head=%s content=%s", f.Data.SeqId, f.Data.From, canonAny(f.Data.Head), canonAny(f.Data.Content)))
		}
	}
	sort.Strings(parts)
	return strings.Join(parts, "\n")
}

func (o *c08Obs) Final(w *wWorld) *kit.Viol {
	if len(o.tolerated) > 0 {
		// A listed known divergence is still in effect: the reload probe would only re-discover it.
		o.features["probe-skipped(known divergence active)"] = true
		return nil
	}
	before := c08Probe(w)
	if len(before) == 0 {
		return nil
	}
	// remember who was attached where and how
	type att struct {
		slot        int
		route, name string
	}
	var atts []att
	keys := make([]string, 0, len(before))
	for k := range before {
		keys = append(keys, k)
	}
	sort.Strings(keys)
	for _, k := range keys {
		p := strings.SplitN(k, "|", 3)
		atts = append(atts, att{wAtoi(p[0]), p[1], p[2]})
	}
	users := map[int]int{}
	for slot, ss := range w.sess {
		if ss != nil {
			users[slot] = ss.user
		}
	}
	preStore := mem.A.Snapshot()
	w.restart()
	for slot, u := range users {
		w.openSlot(slot, u)
	}
	after := c08Answers{}
	for _, a := range atts {
		ss := w.sess[a.slot]
		id := w.nextID()
		req := `{"sub":{"id":"` + id + `","topic":"` + a.name + `"}}`
		if want := wantOf(before[fmt.Sprintf("%d|%s|%s", a.slot, a.route, a.name)]); want != "" && !strings.Contains(want, "J") {
			// A plain {sub} would lift the user's self-ban and change the state under comparison.
			req = `{"sub":{"id":"` + id + `","topic":"` + a.name + `","set":{"sub":{"mode":"` + want + `"}}}}`
		}
		fr := w.do(ss, req)
		if code := wCtrlCode(fr, id); code < 200 || code >= 300 {
			after[fmt.Sprintf("%d|%s|%s", a.slot, a.route, a.name)] = fmt.Sprintf("re-attach refused with %d", code)
		}
	}
	for _, a := range atts {
		k := fmt.Sprintf("%d|%s|%s", a.slot, a.route, a.name)
		if _, bad := after[k]; bad {
			continue
		}
		id := w.nextID()
		fr := w.do(w.sess[a.slot], `{"get":{"id":"`+id+`","topic":"`+a.name+`","what":"desc sub tags del data"}}`)
		after[k] = c08Project(fr, id)
	}
	o.features["restart-probe"] = true
	resurrected := ""
	postStore := mem.A.Snapshot()
	for _, r := range postStore.Subs {
		if strings.HasPrefix(r.Topic, "p2p") && r.DeletedAt == nil {
			for _, pr := range preStore.Subs {
				if pr.Topic == r.Topic && pr.User == r.User && pr.DeletedAt != nil {
					resurrected = fmt.Sprintf("user %d had unsubscribed from %s before the restart and is subscribed again after it", w.userIdx(r.User), r.Topic)
				}
			}
		}
	}
	for _, k := range keys {
		if before[k] != after[k] {
			bl, al := strings.Split(before[k], "\n"), strings.Split(after[k], "\n")
			what, field, diffField := "", "answers", ""
			for i := 0; i < len(bl) || i < len(al); i++ {
				var b, a string
				if i < len(bl) {
					b = bl[i]
				}
				if i < len(al) {
					a = al[i]
				}
				if a != b {
					what = fmt.Sprintf("in memory: %s | after restart: %s", b, a)
					field = firstWord(b + a)
					diffField = firstDiffToken(b, a)
					break
				}
			}
			parts := strings.SplitN(k, "|", 3)
			sig := "reload-differs:" + field + ":" + topicKind(parts[1]) + ":" + diffField
			isReader := strings.HasPrefix(parts[2], "chn")
			if slot := wAtoi(parts[0]); slot >= 0 && users[slot] >= 0 {
				for _, r := range preStore.Subs {
					if r.Topic == types.GrpToChn(parts[1]) && r.User == w.users[users[slot]].uid && r.DeletedAt == nil {
						isReader = true
					}
				}
			}
			if isReader {
				sig = "chan-reader:" + sig
			}
			if sig == "reload-differs:desc:p2p:public" || sig == "reload-differs:desc:p2p:trusted" {
				// The listed finding is about a value changed on 'me' while the P2P topic is loaded;
				// a difference with no such change in the history is something else.
				if !o.changes["me-"+diffField] {
					sig += ":no-change-on-me"
				}
			}
			if resurrected != "" {
				// initTopicP2P re-creates the subscription of a participant who had unsubscribed as soon
				// as the other participant attaches to the reloaded topic; while the topic stays in
				// memory the participant stays unsubscribed.
				sig = "reload-differs:p2p-unsubscribed-peer-resubscribed-on-load"
				what += " [" + resurrected + "]"
			}
			return o.report(kit.V(sig, "session %s got different answers before and after a restart on the same store: %s", k, what))
		}
	}
	return nil
}

func firstWord(s string) string {
	if i := strings.IndexByte(s, ' '); i > 0 {
		return s[:i]
	}
	return s
}

func c08Exec(t *testing.T, r *kit.Run) func(wProg) kit.Outcome {
	return func(p wProg) kit.Outcome {
		r.WAL(p)
		obs := &c08Obs{changes: map[string]bool{}, features: map[string]bool{}, tolerated: map[string]bool{}}
		obs.known = func(v *kit.Viol) bool { return r.IsKnown(v.Sig) && r.Violation(v, p) }
		var res wRunResult
		fail := wInBubble(t, func() { res = wExec(&p, obs, nil) })
		o := kit.Outcome{NonTrivial: len(obs.changes) >= 2 && len(obs.features) >= 1}
		for f := range obs.features {
			o.Classes = append(o.Classes, f)
		}
		sort.Strings(o.Classes)
		if fail != "" && res.Viol == nil {
			o.Skip = true
			fmt.Println("C08 bubble failure (not judged here):", firstLine(fail))
			return o
		}
		o.Viol = res.Viol
		return o
	}
}

func TestC08CacheStore(t *testing.T) {
	r := kit.Begin("C08", "TestC08CacheStore")
	defer r.Flush()
	kit.CheckRun(t, r, c08Gen, c08Exec(t, r))
}

// firstDiffToken names the first key=value token that differs between two projected lines.
func firstDiffToken(a, b string) string {
	at, bt := strings.Fields(a), strings.Fields(b)
	for i := 0; i < len(at) && i < len(bt); i++ {
		if at[i] != bt[i] {
			if j := strings.IndexByte(at[i], '='); j > 0 {
				return strings.Trim(at[i][:j], "{,")
			}
			return "item"
		}
	}
	return "count"
}

// wantOf extracts the requester's own want mode from a projected desc line.
func wantOf(proj string) string {
	i := strings.Index(proj, "desc acs=")
	if i < 0 {
		return ""
	}
	rest := proj[i+len("desc acs="):]
	if j := strings.IndexByte(rest, '/'); j >= 0 {
		return rest[:j]
	}
	return ""
}
