package main

// C02 — each accepted message reaches exactly the attached readers, once, unaltered.
// C03 — only users with effective write permission can add a message; a refused publish has
//        no effect. Both use the same generator of permission histories.

import (
	"fmt"
	"reflect"
	"sort"
	"strings"
	"testing"

	"github.com/tinode/chat/server/auth"
	"github.com/tinode/chat/server/store/types"
	kit "github.com/tinode/chat/server/zzverifkit"
	mem "github.com/tinode/chat/server/zzverifmem"
	"pgregory.net/rapid"
)

var gWantModes = []string{"", "", "JRWPS", "JRWP", "JWP", "JRP", "JRW", "JR", "RWP", "N", "JRWPASD"}
var gGivenModes = []string{"", "JRWPS", "JRWP", "JWP", "JRP", "JRW", "RWP", "N", "JRWPAS", "JRWPASD"}

// c02Gen: users 0 (owner, optionally root), 1, 2 members/readers, 3 stranger.
func c02Gen(rt *rapid.T) wProg {
	p := wProg{}
	p.Cfg = wConfig{Users: 4, Root: gPct(rt, 35), Media: true}
	gLat(rt, &p, 25)
	p.Sess = append([]int(nil), gPick(rt, [][]int{{0, 1, 2}, {0, 0, 1, 2}, {0, 1, 1, 2}, {0, 1, 2, 3}, {0, 0, 1, 1, 2, 3}, {0, 1, 2, 2, 3}}, "layout")...)
	// some connections talk protobuf (the gRPC endpoint's conversion both ways)
	for k := range p.Sess {
		if gPct(rt, 20) {
			p.Cfg.Grpc = append(p.Cfg.Grpc, k)
		}
	}
	isChan := gPct(rt, 35)
	kind := "new"
	if isChan {
		kind = "nch"
	}
	// the creator may restrict the own mode in the creating request
	p.Ops = append(p.Ops, wOp{K: "sub", S: 0, T: kind, A: gPick(rt, []string{"", "", "", "", "", "", "JRPASDO", "JRPSO", "JWPASDO"}, "cmode")})
	grpRef := func(s int) string {
		if isChan && p.Sess[s] != 0 && gPct(rt, 60) {
			return "c0"
		}
		return "g0"
	}
	for s := 1; s < len(p.Sess); s++ {
		if gPct(rt, 75) {
			p.Ops = append(p.Ops, wOp{K: "sub", S: s, T: grpRef(s), A: gPick(rt, gWantModes, "want")})
		}
	}
	if gPct(rt, 55) {
		p.Ops = append(p.Ops, wOp{K: "sub", S: 0, T: "p1"})
		for s := 1; s < len(p.Sess); s++ {
			if p.Sess[s] == 1 && gPct(rt, 80) {
				p.Ops = append(p.Ops, wOp{K: "sub", S: s, T: "p0"})
			}
		}
	}
	topicFor := func(s int) string {
		u := p.Sess[s]
		pool := []string{grpRef(s), grpRef(s), "g0"}
		if u == 0 {
			pool = append(pool, "p1")
			if p.Cfg.Root {
				pool = append(pool, "sys")
			}
		}
		if u == 1 {
			pool = append(pool, "p0")
		}
		if gPct(rt, 6) {
			pool = []string{"me", "fnd", "p2", "sys"}
		}
		return gPick(rt, pool, "topic")
	}
	n := gInt(rt, 3, 14, "nops")
	for i := 0; i < n; i++ {
		s := gInt(rt, 0, len(p.Sess)-1, "s")
		switch x := gInt(rt, 0, 99, "opk"); {
		case x < 40:
			op := wOp{K: "pub", S: s, T: topicFor(s), F: gPct(rt, 20)}
			if gPct(rt, 30) {
				op.H = map[string]any{}
				if gPct(rt, 60) {
					op.H["mime"] = "text/x-drafty"
				}
				if gPct(rt, 50) {
					op.H["sender"] = gPick(rt, []string{"usrAAAAAAAAAAE", "x", "$owner"}, "fake")
				}
				if gPct(rt, 30) {
					op.H["priority"] = 1
				}
			}
			if p.Cfg.Root && p.Sess[s] == 0 && gPct(rt, 25) {
				op.Obo = gPick(rt, []int{2, 3}, "obo")
			}
			p.Ops = append(p.Ops, op)
		case x < 50:
			op := wOp{K: "sub", S: s, T: topicFor(s), A: gPick(rt, gWantModes, "want")}
			if p.Cfg.Root && p.Sess[s] == 0 && gPct(rt, 20) {
				op.Obo = gPick(rt, []int{2, 3}, "obo")
			}
			p.Ops = append(p.Ops, op)
		case x < 58:
			p.Ops = append(p.Ops, wOp{K: "leave", S: s, T: topicFor(s), F: gPct(rt, 35)})
		case x < 66:
			p.Ops = append(p.Ops, wOp{K: "set", S: s, T: topicFor(s), A: "mode", B: gPick(rt, gWantModes[2:], "want")})
		case x < 78:
			// mostly the owner manages others
			actor := s
			if gPct(rt, 75) {
				actor = 0
			}
			p.Ops = append(p.Ops, wOp{K: "set", S: actor, T: gPick(rt, []string{"g0", "g0", "g0", "p1"}, "t"), A: "given",
				U: gInt(rt, 1, 3, "target"), B: gPick(rt, gGivenModes, "given")})
		case x < 83:
			actor := s
			if gPct(rt, 75) {
				actor = 0
			}
			p.Ops = append(p.Ops, wOp{K: "del", S: actor, T: "g0", A: "sub", U: gInt(rt, 1, 3, "target")})
		case x < 84:
			// a busy connection has not yet got round to the notice that its topic is gone (deleted by the
			// owner) when it publishes: the request reaches a topic which has terminated and must be answered
			k := gInt(rt, 1, len(p.Sess)-1, "busy")
			p.Ops = append(p.Ops, wOp{K: "sub", S: k, T: grpRef(k)}, wOp{K: "lazy", S: k}, wOp{K: "del", S: 0, T: "g0", A: "topic", F: gPct(rt, 50)},
				wOp{K: "pub", S: k, T: grpRef(k)}, wOp{K: "tick", N: 50}, wOp{K: "lazy", S: k, F: true}, wOp{K: "pub", S: k, T: grpRef(k)})
		case x < 85:
			// everybody leaves the group; a session attaches again at the very moment the idle timer of the
			// topic fires; then somebody else attaches and publishes: a session which was told it is
			// attached gets the message
			for k := range p.Sess {
				p.Ops = append(p.Ops, wOp{K: "leave", S: k, T: grpRef(k)})
			}
			a := gInt(rt, 0, len(p.Sess)-1, "a")
			b := (a + 1 + gInt(rt, 0, len(p.Sess)-2, "b")) % len(p.Sess)
			p.Ops = append([]wOp{{K: "lat"}}, p.Ops...) // the store answers at once: the timer's moment is known exactly
			p.Cfg.Lat = nil
			p.Ops = append(p.Ops, wOp{K: "sub", S: a, T: grpRef(a), At: "g0", AtUs: gPick(rt, []int{0, 0, 0, 1}, "atus")},
				wOp{K: "sub", S: b, T: grpRef(b)}, wOp{K: "pub", S: b, T: grpRef(b)}, wOp{K: "pub", S: a, T: grpRef(a)})
		case x < 88:
			p.Ops = append(p.Ops, wOp{K: "reload", T: gPick(rt, []string{"g0", "g0", "p1"}, "rt")})
		case x < 91:
			p.Ops = append(p.Ops, wOp{K: "disc", S: s}, wOp{K: "reconn", S: s})
		case x < 94:
			if p.Cfg.Root {
				p.Ops = append(p.Ops, wOp{K: "acc", S: 0, U: gInt(rt, 0, 2, "target"), A: gPick(rt, []string{"susp", "susp", "ok"}, "state")})
			}
		case x < 97:
			p.Ops = append(p.Ops, wOp{K: "tick", N: gPick(rt, []int{50, 1000, 5500}, "ms")})
		default:
			p.Ops = append(p.Ops, wOp{K: "get", S: s, T: topicFor(s), A: "data"})
		}
		// ---- multi-step histories
		switch y := gInt(rt, 0, 99, "hist"); {
		case y < 4 && isChan:
			// the channel is unloaded and loaded back by a reader's chnXXX {sub}, the subscribers follow
			for k := range p.Sess {
				p.Ops = append(p.Ops, wOp{K: "leave", S: k, T: "g0"}, wOp{K: "leave", S: k, T: "c0"})
			}
			p.Ops = append(p.Ops, wOp{K: "tick", N: 4600})
			for k := len(p.Sess) - 1; k >= 1; k-- {
				p.Ops = append(p.Ops, wOp{K: "sub", S: k, T: "c0"})
			}
			p.Ops = append(p.Ops, wOp{K: "sub", S: 0, T: "g0"}, wOp{K: "pub", S: 0, T: "g0"})
			for k := 1; k < len(p.Sess); k++ {
				if p.Sess[k] == 1 {
					p.Ops = append(p.Ops, wOp{K: "pub", S: k, T: "g0"})
					break
				}
			}
		case y >= 92:
			// a publish with an uploaded attachment while the store fails at one of its writes
			fm := gPick(rt, []string{"", "FileLinkAttachments", "FileLinkAttachments", "SubsUpdate", "MessageSave"}, "m")
			fk := 1
			if fm == "" {
				fk = gInt(rt, 1, 4, "k")
			}
			p.Ops = append(p.Ops, wOp{K: "upload", S: s}, wOp{K: "sub", S: s, T: "g0"}, wOp{K: "fault", N: fk, A: fm},
				wOp{K: "pub", S: s, T: "g0", X: []string{"$file0"}}, wOp{K: "pub", S: s, T: "g0"})
		case y >= 8 && y < 12:
			// P2P: one participant unsubscribes and is invited back by the other while the topic stays
			// loaded, attaches again, both publish
			s1 := -1
			for k := range p.Sess {
				if p.Sess[k] == 1 {
					s1 = k
					break
				}
			}
			if s1 > 0 {
				p.Ops = append(p.Ops, wOp{K: "sub", S: 0, T: "p1"}, wOp{K: "sub", S: s1, T: "p0"}, wOp{K: "leave", S: s1, T: "p0", F: true},
					wOp{K: "set", S: 0, T: "p1", A: "given", U: 1, B: gPick(rt, []string{"JRWPA", "JRWPA", "JRWA", ""}, "reinvite")},
					wOp{K: "sub", S: s1, T: "p0"}, wOp{K: "pub", S: 0, T: "p1"}, wOp{K: "pub", S: s1, T: "p0"})
			}
		case y >= 12 && y < 16 && isChan:
			// a channel none of whose full subscribers holds both R and P: the push goes to the channel address only
			p.Ops = append(p.Ops, wOp{K: "sub", S: 0, T: "g0"}, wOp{K: "set", S: 0, T: "g0", A: "mode", B: gPick(rt, []string{"JRWASDO", "JWPASDO"}, "ownmode")})
			for u := 1; u <= 3; u++ {
				p.Ops = append(p.Ops, wOp{K: "set", S: 0, T: "g0", A: "given", U: u, B: gPick(rt, []string{"JRW", "JWP", "JRW", "N"}, "nopush")})
			}
			p.Ops = append(p.Ops, wOp{K: "pub", S: 0, T: "g0"})
		case y >= 16 && y < 21 && p.Cfg.Root:
			// the root session leaves and attaches again on behalf of a member who may not read (or may)
			tgt := gInt(rt, 1, 2, "obotgt")
			p.Ops = append(p.Ops, wOp{K: "sub", S: 0, T: "g0"}, wOp{K: "set", S: 0, T: "g0", A: "given", U: tgt, B: gPick(rt, []string{"JWP", "JWP", "JRWP", "JWPS"}, "obogiven")},
				wOp{K: "leave", S: 0, T: "g0"}, wOp{K: "sub", S: 0, T: "g0", Obo: tgt + 1}, wOp{K: "pub", S: 0, T: "g0", Obo: tgt + 1})
			for k := 1; k < len(p.Sess); k++ {
				if p.Sess[k] != tgt && gPct(rt, 60) {
					p.Ops = append(p.Ops, wOp{K: "pub", S: k, T: "g0"})
				}
			}
		case y >= 21 && y < 25:
			// a member without W asks for it, the store fails at that very update, the member publishes
			if k := gInt(rt, 1, len(p.Sess)-1, "nowriter"); p.Sess[k] != 0 {
				p.Ops = append(p.Ops, wOp{K: "sub", S: k, T: "g0", A: gPick(rt, []string{"JRP", "JRP", "JR"}, "now")}, wOp{K: "fault", N: 1, A: "SubsUpdate"},
					wOp{K: "set", S: k, T: "g0", A: "mode", B: "JRWP"}, wOp{K: "pub", S: k, T: "g0"})
			}
		case y >= 28 && y < 31 && !p.Cfg.Root && gPct(rt, 60):
			// the store takes milliseconds; while it is deleting the group for the owner, a member's publish arrives
			if k := gInt(rt, 1, len(p.Sess)-1, "late"); p.Sess[k] != 0 {
				p.Ops = append(p.Ops, wOp{K: "sub", S: 0, T: "g0"}, wOp{K: "sub", S: k, T: "g0"}, wOp{K: "lat", R: [][2]int{{5000, 0}}},
					wOp{K: "par", Par: []wOp{{K: "del", S: 0, T: "g0", A: "topic", F: gPct(rt, 50)}, {K: "pub", S: k, T: "g0", AtUs: gPick(rt, []int{1000, 2000, 4000}, "lateus")}}},
					wOp{K: "lat"})
				i = n // the group is gone
			}
		case y >= 25 && y < 28 && gPct(rt, 50):
			// the owner removes an attached member and the store fails at that deletion: the member stays
			if k := gInt(rt, 1, len(p.Sess)-1, "kept"); p.Sess[k] != 0 {
				p.Ops = append(p.Ops, wOp{K: "sub", S: 0, T: "g0"}, wOp{K: "sub", S: k, T: "g0"}, wOp{K: "fault", N: 1, A: "SubsDelete"},
					wOp{K: "del", S: 0, T: "g0", A: "sub", U: p.Sess[k]}, wOp{K: "pub", S: 0, T: "g0"})
			}
		case y >= 25 && y < 28:
			// the owner's {del topic} fails in the store: the topic lives on and takes messages
			p.Ops = append(p.Ops, wOp{K: "sub", S: 0, T: "g0"}, wOp{K: "fault", N: 1, A: "TopicDelete"}, wOp{K: "del", S: 0, T: "g0", A: "topic", F: gPct(rt, 50)},
				wOp{K: "pub", S: 0, T: "g0"})
		case y >= 28 && y < 31 && p.Cfg.Root:
			// an account is suspended and reinstated while its P2P topic stays loaded; then the peer writes
			p.Ops = append(p.Ops, wOp{K: "sub", S: 0, T: "p1"}, wOp{K: "acc", S: 0, U: 1, A: "susp"}, wOp{K: "acc", S: 0, U: 1, A: "ok"}, wOp{K: "pub", S: 0, T: "p1"})
		case y >= 31 && y < 35:
			// P2P: one side takes W away from the other, the topic is unloaded and loaded back, the other side writes
			for k := range p.Sess {
				if p.Sess[k] == 1 {
					p.Ops = append(p.Ops, wOp{K: "sub", S: 0, T: "p1"}, wOp{K: "sub", S: k, T: "p0"},
						wOp{K: "set", S: 0, T: "p1", A: "given", U: 1, B: gPick(rt, []string{"JRPA", "JRA", "JRWPA"}, "p2pgiven")}, wOp{K: "reload", T: "p1"},
						wOp{K: "pub", S: k, T: "p0"}, wOp{K: "pub", S: 0, T: "p1"})
					break
				}
			}
		case y >= 35 && y < 38:
			// the group is unloaded and loaded back, then its creator writes (with whatever mode the creator asked for)
			p.Ops = append(p.Ops, wOp{K: "reload", T: "g0"}, wOp{K: "sub", S: 0, T: "g0"}, wOp{K: "pub", S: 0, T: "g0"})
		case y < 8 && p.Cfg.Root:
			// P2P: one participant unsubscribes, the topic unloads, the other one is suspended, the first
			// comes back (the topic is loaded with one subscription missing) and publishes
			s1 := -1
			for k := range p.Sess {
				if p.Sess[k] == 1 {
					s1 = k
					break
				}
			}
			if s1 > 0 {
				p.Ops = append(p.Ops, wOp{K: "sub", S: 0, T: "p1"}, wOp{K: "sub", S: s1, T: "p0"}, wOp{K: "leave", S: s1, T: "p0", F: true})
				for k := range p.Sess {
					if p.Sess[k] == 0 {
						p.Ops = append(p.Ops, wOp{K: "leave", S: k, T: "p1"})
					}
				}
				p.Ops = append(p.Ops, wOp{K: "tick", N: 4600}, wOp{K: "acc", S: 0, U: 0, A: "susp"}, wOp{K: "sub", S: s1, T: "p0"}, wOp{K: "pub", S: s1, T: "p0"})
			}
		}
	}
	return p
}

// ---------------------------------------------------------------- shared observer base

type permObs struct {
	att      *wAttach
	pre      *mem.State // store before the step
	preLive  map[string]*wTopicSnap // loaded topics before the step (white-box, used only to detect cache/store disagreement)
	disagree int
	preAtt   map[int]map[string]wAtt
	accepted int
	refused  int
	features map[string]bool
	lastSeq  map[int]map[string]int // session -> topic name as seen -> last data seq received live
	// tainted: routes where a {set} was served for a session which is not attached while the topic
	// was loaded: the store is updated behind the cache's back (known C08 finding
	// offline-set-while-loaded). Only there a cache/store disagreement is excused.
	tainted map[string]bool
}

func newPermObs() *permObs {
	return &permObs{att: newWAttach(), features: map[string]bool{}, lastSeq: map[int]map[string]int{}, tainted: map[string]bool{}}
}

// noteTaint must be called by After for every step (before the attachment model is updated).
func (o *permObs) noteTaint(st *wStep) {
	steps := []*wStep{st}
	if st.Op.K == "par" {
		steps = st.Sub
	}
	for _, s := range steps {
		if s.Op.K == "set" && !s.Skipped && s.Route != "" {
			if _, attached := o.preAtt[s.Sess][s.Route]; !attached && o.preLive[s.Route] != nil {
				o.tainted[s.Route] = true
			}
			// {set sub user=X} where X is cached as a channel reader: the server edits the reader's
			// cached record and stores nothing (known C08 finding, chan-reader family)
			if lt := o.preLive[s.Route]; lt != nil && s.Op.A == "given" && s.Op.U >= 0 && s.Op.U < len(wCur.users) {
				if pud, ok := lt.PerUser[wCur.users[s.Op.U].uid]; ok && pud.isChan {
					o.tainted[s.Route] = true
				}
			}
		}
	}
	if st.Op.K == "restart" || st.Crashed {
		o.tainted = map[string]bool{}
	}
}

func (o *permObs) Before(w *wWorld, op *wOp) {
	o.pre = mem.A.Snapshot()
	o.preLive = w.liveTopics()
	for r := range o.tainted {
		if o.preLive[r] == nil {
			delete(o.tainted, r) // unloaded: the next load reads the store
		}
	}
	o.preAtt = map[int]map[string]wAtt{}
	for s, m := range o.att.att {
		o.preAtt[s] = map[string]wAtt{}
		for r, a := range m {
			o.preAtt[s][r] = a
		}
	}
}

func (o *permObs) Final(w *wWorld) *kit.Viol { return nil }

// effective returns want&given of user uid on the store row named rowTopic (ok=false: no live row).
func effective(st *mem.State, rowTopic string, uid types.Uid) (types.AccessMode, bool) {
	for _, r := range st.Subs {
		if r.Topic == rowTopic && r.User == uid {
			if r.DeletedAt != nil {
				return 0, false
			}
			return r.ModeWant & r.ModeGiven, true
		}
	}
	return 0, false
}

// agreed returns the effective mode of uid on route when the loaded topic's cache and the store
// rows say the same; ok=false when they disagree (that is C08's business, not judged here).
func (o *permObs) agreed(route string, uid types.Uid, chanReader bool) (mode types.AccessMode, subscribed bool, ok bool) {
	row := route
	if chanReader {
		row = types.GrpToChn(route)
	}
	sm, sok := effective(o.pre, row, uid)
	lt := o.preLive[route]
	if lt == nil {
		return sm, sok, true
	}
	pud, cok := lt.PerUser[uid]
	if cok && pud.deleted {
		cok = false
	}
	if chanReader && !cok {
		return sm, sok, true // channel readers are cached only while attached: the store row speaks
	}
	cm := pud.modeWant & pud.modeGiven
	if cok != sok || (cok && cm != sm) {
		if o.tainted[route] {
			o.disagree++
			return 0, false, false
		}
		// Not a known divergence: the acknowledged (stored) permissions are the truth. (A cached
		// channel-reader record of a user asked about as a full subscriber lands here too.)
		return sm, sok, true
	}
	return sm, sok, true
}

func topicState(st *mem.State, route string) (types.ObjState, bool) {
	for _, tr := range st.Topics {
		if tr.Name == route {
			return tr.State, true
		}
	}
	return 0, false
}

func userState(st *mem.State, uid types.Uid) types.ObjState {
	for _, u := range st.Users {
		if u.ID == uid {
			return u.State
		}
	}
	return types.StateUndefined
}

// ---------------------------------------------------------------- C03

type c03Obs struct {
	*permObs
}

// c03Predict: must the publish be accepted? (third value: the statement does not decide)
func (o *c03Obs) predict(w *wWorld, s *wStep) (accept bool, decided bool, why string) {
	if s.User < 0 {
		return false, true, "not logged in"
	}
	route := s.Route
	uid := w.users[s.User].uid
	cat := ""
	switch {
	case route == "sys":
		cat = "sys"
	case strings.HasPrefix(route, "usr"):
		cat = "me"
	case strings.HasPrefix(route, "fnd"):
		cat = "fnd"
	case strings.HasPrefix(route, "p2p"):
		cat = "p2p"
	case strings.HasPrefix(route, "grp"):
		cat = "grp"
	default:
		return false, true, "ill-formed topic"
	}
	if cat == "me" || cat == "fnd" {
		return false, true, "self/search topic"
	}
	if s.Op.Obo > 0 && (s.Login < 0 || w.users[s.Login].level != auth.LevelRoot) {
		return false, true, "on-behalf-of by a non-root session"
	}
	at, attached := o.preAtt[s.Sess][route]
	if o.tainted[route] {
		// the attachment model follows the store, the server its stale cache (listed C08 finding)
		return false, false, "cache and store disagree"
	}
	if cat == "sys" {
		// any logged-in author, no attachment needed; sys is never suspended
		return true, true, "sys"
	}
	if !attached {
		return false, true, "not attached"
	}
	// suspended topic: owner (group) or a participant (p2p) is suspended
	if st, ok := topicState(o.pre, route); ok && st != types.StateOK {
		return false, true, "topic suspended or deleted"
	}
	// The author's subscription: a full (grp) subscription wins over a channel reader's one.
	mode, subscribed, agree := o.agreed(route, uid, false)
	if !agree {
		return false, false, "cache and store disagree"
	}
	if !subscribed && at.Chan {
		// channel readers never hold W
		return false, true, "channel reader"
	}
	if !subscribed {
		return false, true, "author not subscribed"
	}
	if !mode.IsWriter() {
		return false, true, "no W in want&given"
	}
	return true, true, "writer"
}

func (o *c03Obs) After(w *wWorld, st *wStep) *kit.Viol {
	defer o.att.update(w, st)
	defer o.noteTaint(st)
	if st.Op.K == "tick" {
		// Time passes and nobody asks for anything: an attached session stays attached. (A topic which
		// is unloaded by its idle timer has no sessions; the one session which attaches at that very
		// moment is told in the step of its own request, not here.)
		for sess, frames := range st.Frames {
			for _, f := range frames {
				if _, was := o.preAtt[sess][w.routeOfName(f.topicOf(), w.sess[sess].user)]; f.Ctrl != nil && f.Ctrl.Code == 205 && was {
					return kit.V("attached-session-evicted-by-idle-timer", "while %d ms passed without any request session %d was detached from %s (%s): its publishes will be refused although it attached and never left", st.Op.N, sess, f.Ctrl.Topic, wJSON(f))
				}
			}
		}
	}
	if st.Op.K == "par" {
		// a publish which reached the server after the hub had started to delete the topic (the owner's
		// request was acknowledged with an earlier server time) met a topic which is being deleted
		for _, d := range st.Sub {
			dc := d.reply()
			if d.Op.K != "del" || d.Op.A != "topic" || d.Skipped || dc == nil || dc.Code != 200 {
				continue
			}
			for _, s := range st.Sub {
				if c := s.reply(); s.Op.K == "pub" && !s.Skipped && s.Route == d.Route && c != nil && c.Code == 202 && c.Timestamp.After(dc.Timestamp) {
					return kit.V("accepted-while-being-deleted", "publish %s on %s was accepted at %s; the topic's deletion (acknowledged) had begun at %s", s.Token, s.Route, c.Timestamp.Format("15:04:05.000"), dc.Timestamp.Format("15:04:05.000"))
				}
			}
		}
	}
	if st.Op.K != "pub" || st.Skipped {
		return nil
	}
	// a rejected publish has no effect: no message row, no consumed id
	if code := st.code(); code >= 400 && st.Route != "" {
		count := func(ms *mem.State) (n, seq int) {
			for _, m := range ms.Msgs {
				if m.Topic == st.Route {
					n++
				}
			}
			for _, tr := range ms.Topics {
				if tr.Name == st.Route {
					seq = tr.SeqId
				}
			}
			return
		}
		post := mem.A.Snapshot()
		n0, s0 := count(o.pre)
		n1, s1 := count(post)
		if n1 != n0 {
			return kit.V("refused-publish-stored", "publish %s by session %d on %s was refused with %d but the topic has %d stored messages now (%d before)", st.Token, st.Sess, st.Route, code, n1, n0)
		}
		if s1 != s0 && !st.Fired {
			return kit.V("refused-publish-consumed-id", "publish %s by session %d on %s was refused with %d but the stored message counter went from %d to %d", st.Token, st.Sess, st.Route, code, s0, s1)
		}
	}
	c := st.reply()
	if c == nil {
		// refused before the handler ran (on-behalf-of from a non-root session): the reply has no id
		for _, f := range st.Frames[st.Sess] {
			if f.Ctrl != nil && f.Ctrl.Id == "" && f.Ctrl.Code >= 400 {
				c = f.Ctrl
			}
		}
	}
	if c == nil {
		return kit.V("pub-unanswered", "publish got no reply: %s", st.Req)
	}
	accept, decided, why := o.predict(w, st)
	if !decided {
		return nil
	}
	got := c.Code == 202
	if got && !accept {
		return kit.V("accepted-without-right:"+why, "publish %s by user %d (session %d) on %s was accepted (202) although: %s", st.Token, st.User, st.Sess, st.Route, why)
	}
	if !got && accept && !st.Fired { // a store failure inside the request is a legitimate reason for a 5xx
		return kit.V("refused-with-right", "publish %s by user %d (session %d) on %s was refused with %d %s although the author is an attached writer (%s)", st.Token, st.User, st.Sess, st.Route, c.Code, c.Text, why)
	}
	if got {
		o.accepted++
		return nil
	}
	if why != "not logged in" && why != "ill-formed topic" {
		o.refused++
	}
	if c.Code < 400 {
		return kit.V("refusal-not-error", "refused publish answered with %d", c.Code)
	}
	// A refused publish has no effect at all.
	post := mem.A.Snapshot()
	if len(post.Msgs) != len(o.pre.Msgs) {
		return kit.V("refused-publish-stored", "refused publish %s (%d) changed the message table (%d -> %d rows)", st.Token, c.Code, len(o.pre.Msgs), len(post.Msgs))
	}
	if st.Fired {
		// Save makes up to three store writes; which of them a failing publish leaves behind is the
		// business of C01 (listed finding number-burnt-by-failed-save) and C08. The message itself
		// must not be stored (checked above).
		return nil
	}
	for i, tr := range post.Topics {
		if i < len(o.pre.Topics) && (tr.SeqId != o.pre.Topics[i].SeqId || !tr.TouchedAt.Equal(o.pre.Topics[i].TouchedAt)) {
			return kit.V("refused-publish-consumed-id", "refused publish %s (%d) changed topic %s seq/touched (%d -> %d)", st.Token, c.Code, tr.Name, o.pre.Topics[i].SeqId, tr.SeqId)
		}
	}
	for i, r := range post.Subs {
		if i < len(o.pre.Subs) && (r.ReadSeqId != o.pre.Subs[i].ReadSeqId || r.RecvSeqId != o.pre.Subs[i].RecvSeqId) {
			return kit.V("refused-publish-moved-marks", "refused publish %s (%d) moved read/recv marks of %s", st.Token, c.Code, r.Topic)
		}
	}
	for sess, frames := range st.Frames {
		for _, f := range frames {
			switch {
			case f.Data != nil && f.Data.Content == st.Token:
				return kit.V("refused-publish-delivered", "refused publish %s (%d) was delivered as {data} to session %d", st.Token, c.Code, sess)
			case f.Pres != nil && f.Pres.What == "msg":
				return kit.V("refused-publish-announced", "refused publish %s (%d) produced {pres what=msg} at session %d", st.Token, c.Code, sess)
			}
		}
	}
	for _, r := range st.Push {
		if r.Payload.Content == st.Token {
			return kit.V("refused-publish-pushed", "refused publish %s (%d) produced a push notification", st.Token, c.Code)
		}
	}
	return nil
}

func c03Exec(t *testing.T, r *kit.Run) func(wProg) kit.Outcome {
	return func(p wProg) kit.Outcome {
		r.WAL(p)
		obs := &c03Obs{newPermObs()}
		var res wRunResult
		fail := wInBubble(t, func() { res = wExec(&p, obs, nil) })
		o := kit.Outcome{NonTrivial: obs.accepted >= 1 && obs.refused >= 1}
		if obs.disagree > 0 {
			o.Classes = append(o.Classes, "cache-store-disagree(not judged)")
		}
		if p.Cfg.Root {
			o.Classes = append(o.Classes, "root")
		}
		if fail != "" && res.Viol == nil {
			o.Skip = true
			fmt.Println("C03 bubble failure (not judged here):", firstLine(fail))
			return o
		}
		o.Viol = res.Viol
		return o
	}
}

func TestC03WriteGate(t *testing.T) {
	r := kit.Begin("C03", "TestC03WriteGate")
	defer r.Flush()
	kit.CheckRun(t, r, c02Gen, c03Exec(t, r))
}

// ---------------------------------------------------------------- C02

type c02Obs struct {
	*permObs
	mixed int // accepted publishes with both an eligible and an ineligible attached session
}

func (o *c02Obs) After(w *wWorld, st *wStep) *kit.Viol {
	defer o.att.update(w, st)
	defer o.noteTaint(st)
	// per-session ordering of live copies (keyed by the routable topic: a root session attached on
	// behalf of several users may see two different P2P topics under one name)
	if st.Op.K == "pub" && !st.Skipped {
		created := ""
		for _, tr := range o.pre.Topics {
			if tr.Name == st.Route {
				created = tr.CreatedAt.String()
			}
		}
		key := st.Route + "|" + created
		for sess, frames := range st.Frames {
			for _, f := range frames {
				if f.Data == nil || f.Data.Content != st.Token {
					continue
				}
				if o.lastSeq[sess] == nil {
					o.lastSeq[sess] = map[string]int{}
				}
				if prev := o.lastSeq[sess][key]; f.Data.SeqId <= prev {
					return kit.V("copies-out-of-order", "session %d received #%d on %s after #%d", sess, f.Data.SeqId, st.Route, prev)
				}
				o.lastSeq[sess][key] = f.Data.SeqId
			}
		}
	}
	if st.Op.K == "disc" || st.Op.K == "reconn" || st.Op.K == "restart" {
		delete(o.lastSeq, st.Op.S)
	}
	if st.Op.K != "pub" || st.Skipped {
		return nil
	}
	c := st.reply()
	if c == nil || c.Code != 202 {
		return nil
	}
	o.accepted++
	seq := c01Seq(c)
	route := st.Route
	if o.tainted[route] {
		// who is attached as what can no longer be told from the acknowledged requests (listed C08 finding)
		o.disagree++
		return nil
	}
	author := w.users[st.User].uid
	// Eligible sessions from the harness attachment model and the stored permissions before the step.
	elig := map[int]wAtt{}
	skip := map[int]bool{}
	inelig := 0
	for sess, m := range o.preAtt {
		at, ok := m[route]
		if !ok || sess >= len(w.sess) || w.sess[sess].isClosed() {
			continue
		}
		reader := false
		if at.Chan {
			reader = true
		} else {
			mode, subscribed, agree := o.agreed(route, w.users[at.User].uid, false)
			if !agree {
				skip[sess] = true
				continue
			}
			reader = subscribed && mode.IsReader()
		}
		if reader && !(st.Op.F && sess == st.Sess) {
			elig[sess] = at
		} else {
			inelig++
		}
	}
	users := map[int]bool{}
	for _, at := range elig {
		users[at.User] = true
	}
	if (len(elig) > 0 && inelig > 0) || len(elig) > len(users) {
		o.mixed++
	}
	wantHead := map[string]any{}
	for k, v := range st.Op.H {
		if k != "sender" {
			wantHead[k] = v
		}
	}
	if st.Op.Obo > 0 {
		wantHead["sender"] = w.users[st.Login].uid.UserId()
	}
	for sess := range w.sess {
		var copies []*MsgServerData
		for _, f := range st.Frames[sess] {
			if f.Data != nil && f.Data.Content == st.Token {
				copies = append(copies, f.Data)
			}
		}
		at, isElig := elig[sess]
		if skip[sess] {
			continue
		}
		switch {
		case isElig && len(copies) == 0:
			return kit.V("copy-missing", "publish %s (#%d on %s) did not reach session %d attached as user %d (chan=%v) who can read", st.Token, seq, route, sess, at.User, at.Chan)
		case isElig && len(copies) > 1:
			return kit.V("copy-duplicated", "publish %s reached session %d %d times", st.Token, sess, len(copies))
		case !isElig && len(copies) > 0:
			why := "not attached (model)"
			if at2, ok := o.preAtt[sess][route]; ok {
				w0, g0, del0, has0 := wStoreSub(o.pre, route, w.users[at2.User].uid)
				why = fmt.Sprintf("attached as user %d chan=%v, stored want/given %v/%v deleted=%v present=%v", at2.User, at2.Chan, w0, g0, del0, has0)
			}
			return kit.V("copy-leaked", "publish %s (#%d on %s) reached session %d which is not an attached reader [%s] (noecho=%v own=%v): %s", st.Token, seq, route, sess, why, st.Op.F, sess == st.Sess, wJSON(copies[0]))
		}
		if !isElig {
			continue
		}
		d := copies[0]
		if d.SeqId != seq {
			return kit.V("copy-wrong-seq", "copy at session %d shows #%d, publisher was told #%d", sess, d.SeqId, seq)
		}
		// topic name as this recipient addresses the topic
		wantTopic := route
		switch {
		case at.Chan:
			wantTopic = types.GrpToChn(route)
		case strings.HasPrefix(route, "p2p"):
			u1, u2, _ := types.ParseP2P(route)
			me := w.users[at.User].uid
			if me == u1 {
				wantTopic = u2.UserId()
			} else {
				wantTopic = u1.UserId()
			}
		}
		if d.Topic != wantTopic {
			return kit.V("copy-wrong-topic", "copy at session %d (user %d, chan=%v) names topic %q, the recipient addresses it as %q", sess, at.User, at.Chan, d.Topic, wantTopic)
		}
		wantFrom := author.UserId()
		if at.Chan {
			wantFrom = ""
		}
		if d.From != wantFrom {
			return kit.V("copy-wrong-author", "copy at session %d (chan=%v) has from=%q, want %q", sess, at.Chan, d.From, wantFrom)
		}
		gotHead := map[string]any{}
		for k, v := range d.Head {
			gotHead[k] = v
		}
		if !reflect.DeepEqual(wNorm(gotHead), wNorm(wantHead)) {
			return kit.V("copy-head-altered", "copy at session %d has head %v, published %v (sender may only be the server's own)", sess, gotHead, wantHead)
		}
	}
	// push notification recipients
	if w.cfg.NoPush {
		return nil
	}
	var rcpt *struct {
		to   []string
		chn  string
		seen int
	}
	for _, r := range st.Push {
		if r.Payload.What == "msg" && r.Payload.SeqId == seq && r.Payload.Content == st.Token {
			if rcpt == nil {
				rcpt = &struct {
					to   []string
					chn  string
					seen int
				}{}
			}
			rcpt.seen++
			rcpt.chn = r.Channel
			for uid := range r.To {
				rcpt.to = append(rcpt.to, uid.UserId())
			}
		}
	}
	var wantTo []string
	isChanTopic := false
	for _, tr := range o.pre.Topics {
		if tr.Name == route && tr.UseBt {
			isChanTopic = true
		}
	}
	pushUndecided := false
	for _, r := range o.pre.Subs {
		if r.Topic == route {
			m, subscribed, agree := o.agreed(route, r.User, false)
			if !agree {
				pushUndecided = true
				continue
			}
			if subscribed && m.IsReader() && m.IsPresencer() {
				wantTo = append(wantTo, r.User.UserId())
			}
		}
	}
	if lt := o.preLive[route]; lt != nil {
		for uid, pud := range lt.PerUser {
			if _, _, agree := o.agreed(route, uid, pud.isChan); !agree {
				pushUndecided = true
			}
		}
	}
	if pushUndecided {
		return nil
	}
	sort.Strings(wantTo)
	if rcpt == nil {
		if len(wantTo) > 0 || isChanTopic {
			return kit.V("push-missing", "publish %s on %s produced no push although %v hold R and P", st.Token, route, wantTo)
		}
		return nil
	}
	sort.Strings(rcpt.to)
	if rcpt.seen > 1 {
		return kit.V("push-duplicated", "publish %s produced %d push receipts", st.Token, rcpt.seen)
	}
	if !reflect.DeepEqual(rcpt.to, wantTo) && !(len(rcpt.to) == 0 && len(wantTo) == 0) {
		return kit.V("push-wrong-recipients", "push for %s on %s addressed to %v, subscribers holding R and P are %v", st.Token, route, rcpt.to, wantTo)
	}
	wantChn := ""
	if isChanTopic {
		wantChn = types.GrpToChn(route)
	}
	if rcpt.chn != wantChn {
		return kit.V("push-wrong-channel", "push for %s has channel %q, want %q", st.Token, rcpt.chn, wantChn)
	}
	return nil
}

// wNorm renders a JSON-ish value in a canonical comparable form.
func wNorm(v any) string { return wJSON(v) }

func c02Exec(t *testing.T, r *kit.Run) func(wProg) kit.Outcome {
	return func(p wProg) kit.Outcome {
		r.WAL(p)
		obs := &c02Obs{permObs: newPermObs()}
		var res wRunResult
		fail := wInBubble(t, func() { res = wExec(&p, obs, nil) })
		o := kit.Outcome{NonTrivial: obs.mixed >= 1}
		if obs.disagree > 0 {
			o.Classes = append(o.Classes, "cache-store-disagree(not judged)")
		}
		if p.Cfg.Root {
			o.Classes = append(o.Classes, "root")
		}
		if obs.accepted > 0 {
			o.Classes = append(o.Classes, "accepted-pub")
		}
		if fail != "" && res.Viol == nil {
			o.Skip = true
			fmt.Println("C02 bubble failure (not judged here):", firstLine(fail))
			return o
		}
		o.Viol = res.Viol
		return o
	}
}

func TestC02Delivery(t *testing.T) {
	r := kit.Begin("C02", "TestC02Delivery")
	defer r.Flush()
	kit.CheckRun(t, r, c02Gen, c02Exec(t, r))
}

// topicOf: the topic a {ctrl} is about.
func (m *ServerComMessage) topicOf() string {
	if m != nil && m.Ctrl != nil {
		return m.Ctrl.Topic
	}
	return ""
}
