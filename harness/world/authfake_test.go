package main

// "vrest": an authentication scheme for the world engine which behaves like the REST authenticator
// (server/auth/rest) talking to a scripted remote service: it reports the state of the account
// itself (auth.Rec.State) instead of leaving it to the store, and it can run a two-stage login (a
// challenge first, the record when the challenge is answered). The built-in schemes (basic, token,
// anonymous, code) never do either, so Session.login's handling of both is otherwise unreachable.
//
// Secret: "<user index>:<ok|susp|del>:<0|1 challenge first>[:resp]".

import (
	"encoding/json"
	"strings"
	"sync"
	"time"

	"github.com/tinode/chat/server/auth"
	"github.com/tinode/chat/server/store"
	"github.com/tinode/chat/server/store/types"
)

const wRestName = "vrest"

type wRestAuth struct{}

var wRestOnce sync.Once

func wUseRestAuth() { wRestOnce.Do(func() { store.RegisterAuthScheme(wRestName, &wRestAuth{}) }) }

func (*wRestAuth) Init(json.RawMessage, string) error { return nil }
func (*wRestAuth) IsInitialized() bool                { return true }
func (*wRestAuth) AddRecord(rec *auth.Rec, _ []byte, _ string) (*auth.Rec, error) {
	return rec, nil
}
func (*wRestAuth) UpdateRecord(rec *auth.Rec, _ []byte, _ string) (*auth.Rec, error) {
	return rec, nil
}

func (*wRestAuth) Authenticate(secret []byte, _ string) (*auth.Rec, []byte, error) {
	p := strings.Split(string(secret), ":")
	w := wCur
	if len(p) < 3 || w == nil {
		return nil, nil, types.ErrMalformed
	}
	idx := wAtoi(p[0])
	if idx < 0 || idx >= len(w.users) {
		return nil, nil, types.ErrFailed
	}
	rec := &auth.Rec{Uid: w.users[idx].uid, AuthLevel: w.users[idx].level, Lifetime: auth.Duration(time.Hour), Features: auth.FeatureValidated, State: types.StateOK}
	switch p[1] {
	case "susp":
		rec.State = types.StateSuspended
	case "del":
		rec.State = types.StateDeleted
	}
	if p[2] == "1" && len(p) < 4 {
		// first stage: the remote service wants its challenge answered (the REST authenticator hands
		// over the record it was given together with the challenge)
		return rec, []byte("challenge-for-" + p[0]), nil
	}
	return rec, nil, nil
}

func (*wRestAuth) AsTag(string) string                      { return "" }
func (*wRestAuth) IsUnique([]byte, string) (bool, error)    { return true, nil }
func (*wRestAuth) GenSecret(*auth.Rec) ([]byte, time.Time, error) {
	return nil, time.Time{}, types.ErrUnsupported
}
func (*wRestAuth) DelRecords(types.Uid) error             { return nil }
func (*wRestAuth) RestrictedTags() ([]string, error)      { return nil, nil }
func (*wRestAuth) GetResetParams(types.Uid) (map[string]interface{}, error) {
	return nil, nil
}
func (*wRestAuth) GetRealName() string { return wRestName }
