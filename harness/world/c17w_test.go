package main

// C17 (running hub) — after the ring changes, no topic is served by two nodes.
//
// The node under test ("a") runs the real hub, topics and sessions with globals.cluster set to a
// real Cluster value of 2..4 configured nodes whose peers are not connected (every call to them
// fails at once, as it does while a peer is down). The generated history changes the list of live
// nodes the way Cluster.run does it when the leader's health check announces another list
// (Cluster.rehash, invalidateProxySubs, gcProxySessions, then the hub's rehash notice) and mixes
// these changes with subscriptions, publishes and detachments: topics are loaded as masters while
// their name hashes here, requested as proxies while it hashes elsewhere, and asked for again
// after every change.
//
// Oracle (after every ring change, at quiescence), with owner(name) = the ring's node for the name:
//   - no master instance of a topic keeps running here when owner(name) is another node
//     ("nodes ... instead of both serving a topic": that node loads its own master on first use);
//   - no proxy instance keeps running here when owner(name) is this node;
//   - a master whose name hashed here before and still does is not disturbed: it stays loaded
//     with the same sessions attached ("removing a node moves only the names it owned and adding
//     one moves names only to it").

import (
	"fmt"
	"sort"
	"strings"
	"testing"

	kit "github.com/tinode/chat/server/zzverifkit"
	"pgregory.net/rapid"
)

const c17wRing = "c17w-ring" // marker (tick op): X = the new list of live nodes

var c17wNodes = []string{"a", "b", "c", "d"}

type c17wProg struct {
	wProg
	Nodes int `json:"nodes"` // configured nodes: a plus Nodes-1 peers
}

func c17wGen(rt *rapid.T) c17wProg {
	p := c17wProg{Nodes: gInt(rt, 2, 4, "nodes")}
	p.Cfg = wConfig{Users: 4, NoPush: true}
	p.Sess = []int{0, 1, 2, 3}
	for s := range p.Sess {
		if gPct(rt, 75) {
			p.Ops = append(p.Ops, wOp{K: "sub", S: s, T: "me"})
		}
	}
	ngrp := gInt(rt, 2, 5, "ngrp")
	for k := 0; k < ngrp; k++ {
		owner := gInt(rt, 0, 3, "owner")
		p.Ops = append(p.Ops, wOp{K: "sub", S: owner, T: gPick(rt, []string{"new", "new", "nch"}, "kind")})
		for s := range p.Sess {
			if s != owner && gPct(rt, 45) {
				p.Ops = append(p.Ops, wOp{K: "sub", S: s, T: fmt.Sprintf("g%d", k)})
			}
		}
	}
	if gPct(rt, 70) {
		p.Ops = append(p.Ops, wOp{K: "sub", S: 0, T: "p1"}, wOp{K: "sub", S: 1, T: "p0"})
	}
	live := func() []string {
		out := []string{"a"}
		for _, n := range c17wNodes[1:p.Nodes] {
			if gPct(rt, 55) {
				out = append(out, n)
			}
		}
		if gPct(rt, 30) { // the order of the list must not matter
			sort.Sort(sort.Reverse(sort.StringSlice(out)))
		}
		return out
	}
	ref := func() string {
		switch x := gInt(rt, 0, 9, "ref"); {
		case x < 6:
			return fmt.Sprintf("g%d", gInt(rt, 0, ngrp-1, "g"))
		case x < 8:
			return "me"
		}
		return "p"
	}
	n := gInt(rt, 4, 16, "nops")
	for i := 0; i < n; i++ {
		s := gInt(rt, 0, 3, "s")
		t := ref()
		if t == "p" {
			s = gInt(rt, 0, 1, "ps")
			t = fmt.Sprintf("p%d", 1-s)
		}
		switch x := gInt(rt, 0, 99, "opk"); {
		case x < 35:
			p.Ops = append(p.Ops, wOp{K: "tick", N: 1, A: c17wRing, X: live()})
		case x < 70:
			p.Ops = append(p.Ops, wOp{K: "sub", S: s, T: t})
		case x < 85:
			p.Ops = append(p.Ops, wOp{K: "pub", S: s, T: t})
		case x < 93:
			p.Ops = append(p.Ops, wOp{K: "leave", S: s, T: t})
		default:
			p.Ops = append(p.Ops, wOp{K: "tick", N: gPick(rt, []int{1, 3, 6}, "idle")})
		}
	}
	return p
}

type c17wTopic struct {
	proxy bool
	sess  []string
}

type c17wObs struct {
	wNopObs
	p       *c17wProg
	setup   bool
	pre     map[string]c17wTopic
	preRing map[string]string
	changes int
	movedOut, movedIn, kept int
}

func (o *c17wObs) snapshot() map[string]c17wTopic {
	out := map[string]c17wTopic{}
	globals.hub.topics.Range(func(k, v any) bool {
		t := v.(*Topic)
		if !t.isLoaded() || t.isInactive() {
			return true
		}
		ct := c17wTopic{proxy: t.isProxy}
		for s := range t.sessions {
			ct.sess = append(ct.sess, s.sid)
		}
		sort.Strings(ct.sess)
		out[k.(string)] = ct
		return true
	})
	return out
}

func (o *c17wObs) Before(w *wWorld, op *wOp) {
	if !o.setup {
		o.setup = true
		c := &Cluster{thisNodeName: "a", nodes: map[string]*ClusterNode{}}
		for _, n := range c17wNodes[1:o.p.Nodes] {
			c.nodes[n] = &ClusterNode{name: n, msess: map[string]struct{}{}}
		}
		// the peers are down: the ring holds this node only
		c.rehash([]string{"a"})
		globals.cluster = c
	}
	if op.K == "tick" && op.A == c17wRing {
		o.pre = o.snapshot()
		o.preRing = map[string]string{}
		for name := range o.pre {
			o.preRing[name] = globals.cluster.ring.Get(name)
		}
		// what Cluster.run does when the leader announces another list of live nodes
		globals.cluster.rehash(append([]string(nil), op.X...))
		globals.cluster.invalidateProxySubs("")
		globals.cluster.gcProxySessions(op.X)
		globals.hub.rehash <- true
	}
}

func (o *c17wObs) After(w *wWorld, st *wStep) *kit.Viol {
	if !(st.Op.K == "tick" && st.Op.A == c17wRing) {
		return nil
	}
	o.changes++
	post := o.snapshot()
	var names []string
	for n := range post {
		names = append(names, n)
	}
	sort.Strings(names)
	live := strings.Join(st.Op.X, ",")
	for _, n := range names {
		owner := globals.cluster.ring.Get(n)
		t := post[n]
		if !t.proxy && owner != "a" {
			return kit.V("master-topic-kept-after-rehash", "after the live nodes changed to [%s] topic %s belongs to node %s but its master instance is still running on node a (sessions %v): two nodes serve the topic", live, n, owner, t.sess)
		}
		if t.proxy && owner == "a" {
			return kit.V("proxy-topic-kept-after-rehash", "after the live nodes changed to [%s] topic %s belongs to this node but a proxy instance for it is still running here", live, n)
		}
	}
	var pre []string
	for n := range o.pre {
		pre = append(pre, n)
	}
	sort.Strings(pre)
	for _, n := range pre {
		was, now := o.preRing[n], globals.cluster.ring.Get(n)
		switch {
		case was == "a" && now != "a":
			o.movedOut++
		case was != "a" && now == "a":
			o.movedIn++
		case was == "a" && now == "a" && !o.pre[n].proxy && len(o.pre[n].sess) > 0:
			o.kept++
			t, ok := post[n]
			if !ok {
				return kit.V("unmoved-topic-shut-down", "topic %s hashed to this node before and after the live nodes changed to [%s], yet it was shut down (sessions %v were attached)", n, live, o.pre[n].sess)
			}
			if strings.Join(t.sess, ",") != strings.Join(o.pre[n].sess, ",") {
				return kit.V("unmoved-topic-lost-sessions", "topic %s hashed to this node before and after the live nodes changed to [%s]: attached sessions were %v, now %v", n, live, o.pre[n].sess, t.sess)
			}
		}
	}
	return nil
}

func c17wExec(t *testing.T, r *kit.Run) func(c17wProg) kit.Outcome {
	return func(p c17wProg) kit.Outcome {
		r.WAL(p)
		obs := &c17wObs{p: &p}
		var res wRunResult
		fail := wInBubble(t, func() {
			defer func() { globals.cluster = nil }()
			res = wExec(&p.wProg, obs, nil)
		})
		globals.cluster = nil
		o := kit.Outcome{NonTrivial: obs.movedOut >= 1 && obs.kept >= 1 && obs.changes >= 2}
		if obs.movedOut > 0 {
			o.Classes = append(o.Classes, "master-moved-away")
		}
		if obs.movedIn > 0 {
			o.Classes = append(o.Classes, "name-moved-here")
		}
		if obs.kept > 0 {
			o.Classes = append(o.Classes, "master-stayed")
		}
		if fail != "" && res.Viol == nil {
			o.Skip = true
			fmt.Println("C17 bubble failure (not judged here):", firstLine(fail))
			return o
		}
		o.Viol = res.Viol
		return o
	}
}

func TestC17Rehash(t *testing.T) {
	r := kit.Begin("C17", "TestC17Rehash")
	defer r.Flush()
	kit.CheckRun(t, r, c17wGen, c17wExec(t, r))
}
