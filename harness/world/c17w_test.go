package main

// C17 (running hub) — after the ring changes, no topic is served by two nodes.
//
// The node under test ("a") runs the real hub, topics and sessions with globals.cluster set to a
// real Cluster value of 2..4 configured nodes whose peers are not connected (every call to them
// fails at once, as it does while a peer is down). The generated history changes the list of live
// nodes the way Cluster.run does it when the leader's health check announces another list
// (Cluster.rehash, invalidateProxySubs, gcProxySessions, then the hub's rehash notice) and mixes
// these changes with subscriptions, publishes and detachments: topics are loaded as masters while
// their name hashes here, requested as proxies while it hashes elsewhere, and asked for again
// after every change.
//
// A second kind of event changes the list WHILE A TOPIC IS BEING LOADED: a group is first unloaded
// (its sessions leave, the idle timer fires), the store is made slow on the virtual clock (every
// adapter call takes 3 virtual microseconds), a {sub} to the group is sent and, a generated number
// of microseconds later - the topic is registered with the hub, paused, inside topicInit - the live
// list changes to one which gives the name to the other side (searched among the lists of the
// configured nodes, starting from a generated one). Then everything settles and the same oracle is
// applied; for the topic which was being loaded every running instance counts, attached or not.
//
// Oracle (after every ring change, at quiescence), with owner(name) = the ring's node for the name:
//   - no master instance of a topic keeps running here when owner(name) is another node
//     ("nodes ... instead of both serving a topic": that node loads its own master on first use);
//   - no proxy instance keeps running here when owner(name) is this node;
//   - a master whose name hashed here before and still does is not disturbed: it stays loaded
//     with the same sessions attached ("removing a node moves only the names it owned and adding
//     one moves names only to it").

import (
	"fmt"
	"sort"
	"strings"
	"testing"
	"time"

	rh "github.com/tinode/chat/server/ringhash"
	kit "github.com/tinode/chat/server/zzverifkit"
	mem "github.com/tinode/chat/server/zzverifmem"
	"pgregory.net/rapid"
)

const c17wRing = "c17w-ring" // marker (tick op): X = the new list of live nodes

// c17wLoad: marker (tick op): session S subscribes to the unloaded group T and M virtual microseconds
// later, while the topic is being loaded from a slow store, the list of live nodes changes: to X if
// that moves the name to the other side, else to the first list (enumeration of the configured
// nodes' subsets, starting at L) which does.
const c17wLoad = "c17w-load"

// c17wLat: virtual microseconds per adapter call while a topic is loaded under a ring change.
const c17wLat = 3

var c17wNodes = []string{"a", "b", "c", "d"}

type c17wProg struct {
	wProg
	Nodes int `json:"nodes"` // configured nodes: a plus Nodes-1 peers
}

func c17wGen(rt *rapid.T) c17wProg {
	p := c17wProg{Nodes: gInt(rt, 2, 4, "nodes")}
	p.Cfg = wConfig{Users: 4, NoPush: true}
	p.Sess = []int{0, 1, 2, 3}
	for s := range p.Sess {
		if gPct(rt, 75) {
			p.Ops = append(p.Ops, wOp{K: "sub", S: s, T: "me"})
		}
	}
	ngrp := gInt(rt, 2, 5, "ngrp")
	for k := 0; k < ngrp; k++ {
		owner := gInt(rt, 0, 3, "owner")
		p.Ops = append(p.Ops, wOp{K: "sub", S: owner, T: gPick(rt, []string{"new", "new", "nch"}, "kind")})
		for s := range p.Sess {
			if s != owner && gPct(rt, 45) {
				p.Ops = append(p.Ops, wOp{K: "sub", S: s, T: fmt.Sprintf("g%d", k)})
			}
		}
	}
	if gPct(rt, 70) {
		p.Ops = append(p.Ops, wOp{K: "sub", S: 0, T: "p1"}, wOp{K: "sub", S: 1, T: "p0"})
	}
	live := func() []string {
		out := []string{"a"}
		for _, n := range c17wNodes[1:p.Nodes] {
			if gPct(rt, 55) {
				out = append(out, n)
			}
		}
		if gPct(rt, 30) { // the order of the list must not matter
			sort.Sort(sort.Reverse(sort.StringSlice(out)))
		}
		return out
	}
	ref := func() string {
		switch x := gInt(rt, 0, 9, "ref"); {
		case x < 6:
			return fmt.Sprintf("g%d", gInt(rt, 0, ngrp-1, "g"))
		case x < 8:
			return "me"
		}
		return "p"
	}
	n := gInt(rt, 4, 16, "nops")
	for i := 0; i < n; i++ {
		s := gInt(rt, 0, 3, "s")
		t := ref()
		if t == "p" {
			s = gInt(rt, 0, 1, "ps")
			t = fmt.Sprintf("p%d", 1-s)
		}
		switch x := gInt(rt, 0, 99, "opk"); {
		case x < 30:
			p.Ops = append(p.Ops, wOp{K: "tick", N: 1, A: c17wRing, X: live()})
		case x < 45:
			// the list changes while a group is being loaded: 1, 2, 4, 5, ... microseconds after the {sub},
			// never at the instant a store call (3 microseconds each) returns
			p.Ops = append(p.Ops, wOp{K: "tick", N: 1, A: c17wLoad, S: gInt(rt, 0, 3, "s"), T: fmt.Sprintf("g%d", gInt(rt, 0, ngrp-1, "g")), X: live(),
				M: c17wLat*gInt(rt, 0, 3, "calls") + gInt(rt, 1, c17wLat-1, "us"), L: gInt(rt, 0, 7, "rot")})
		case x < 70:
			p.Ops = append(p.Ops, wOp{K: "sub", S: s, T: t})
		case x < 85:
			p.Ops = append(p.Ops, wOp{K: "pub", S: s, T: t})
		case x < 93:
			p.Ops = append(p.Ops, wOp{K: "leave", S: s, T: t})
		default:
			p.Ops = append(p.Ops, wOp{K: "tick", N: gPick(rt, []int{1, 3, 6}, "idle")})
		}
	}
	return p
}

type c17wTopic struct {
	proxy bool
	sess  []string
}

type c17wObs struct {
	wNopObs
	p       *c17wProg
	setup   bool
	pre     map[string]c17wTopic
	preRing map[string]string
	changes int
	movedOut, movedIn, kept int
	applied []string // the list of live nodes installed by the current step
	ev      *c17wLoadEv
	cls     map[string]bool
}

// c17wLoadEv is what a c17wLoad event did and saw.
type c17wLoadEv struct {
	name    string // the group
	sent    bool   // the {sub} was sent to an unloaded topic
	loading bool   // at the moment of the change the topic was registered with the hub and inactive (being loaded)
	wasHere bool   // owner before the change was this node
	moved   bool   // the change gave the name to the other side
	code    int    // code of the {ctrl} which answered the {sub}; 0 = none
}

// ringChange does what Cluster.run does when the leader announces another list of live nodes.
func (o *c17wObs) ringChange(list []string) {
	o.applied = append([]string(nil), list...)
	globals.cluster.rehash(append([]string(nil), list...))
	globals.cluster.invalidateProxySubs("")
	globals.cluster.gcProxySessions(list)
	globals.hub.rehash <- true
}

func (o *c17wObs) takePre() {
	o.pre = o.snapshot()
	o.preRing = map[string]string{}
	for name := range o.pre {
		o.preRing[name] = globals.cluster.ring.Get(name)
	}
}

// c17wOwner: the owner of name under the given list of live nodes (the ring Cluster.rehash builds).
func c17wOwner(list []string, name string) string {
	ring := rh.New(clusterHashReplicas, nil)
	ring.Add(list...)
	return ring.Get(name)
}

// loadEvent: see c17wLoad.
func (o *c17wObs) loadEvent(w *wWorld, op *wOp) {
	ev := &c17wLoadEv{}
	o.ev = ev
	plain := func(why string) {
		o.cls["load-event:"+why+"(plain change instead)"] = true
		o.takePre()
		o.ringChange(op.X)
	}
	if !w.sessOK(op.S) {
		plain("no-session")
		return
	}
	ss := w.sess[op.S]
	name := w.resolve(op.T, ss.user)
	if !strings.HasPrefix(name, "grp") {
		plain("no-such-group")
		return
	}
	ev.name = name
	// 1. unload the topic: everybody leaves, the idle timer fires
	if t := globals.hub.topicGet(name); t != nil {
		type att struct {
			slot int
			chn  bool
		}
		var atts []att
		for s, psd := range t.sessions {
			for k, x := range w.sess {
				if x != nil && x.s == s {
					atts = append(atts, att{k, psd.isChanSub})
				}
			}
		}
		sort.Slice(atts, func(i, j int) bool { return atts[i].slot < atts[j].slot })
		for _, a := range atts {
			as := name
			if a.chn {
				as = "chn" + strings.TrimPrefix(name, "grp")
			}
			w.do(w.sess[a.slot], `{"leave":{"id":"`+w.nextID()+`","topic":"`+as+`"}}`)
		}
		w.tick(idleMasterTopicTimeout + time.Second)
	}
	if globals.hub.topicGet(name) != nil {
		plain("group-stays-loaded")
		return
	}
	// 2. the list which moves the name to the other side
	ev.wasHere = globals.cluster.ring.Get(name) == "a"
	cands := [][]string{op.X}
	peers := c17wNodes[1:o.p.Nodes]
	for k := 0; k < 1<<len(peers); k++ {
		bits := (k + op.L) % (1 << len(peers))
		l := []string{"a"}
		for j, n := range peers {
			if bits&(1<<j) != 0 {
				l = append(l, n)
			}
		}
		cands = append(cands, l)
	}
	list := op.X
	for _, l := range cands {
		if (c17wOwner(l, name) == "a") != ev.wasHere {
			list, ev.moved = l, true
			break
		}
	}
	o.takePre()
	// 3. the {sub}, and the change while the topic is being loaded
	mem.SetLatency([]int{c17wLat})
	ss.fresh()
	id := w.nextID()
	ss.sendRaw([]byte(`{"sub":{"id":"` + id + `","topic":"` + name + `"}}`))
	ev.sent = true
	d := op.M
	if d < 1 {
		d = 1
	}
	time.Sleep(time.Duration(d) * time.Microsecond)
	if t := globals.hub.topicGet(name); t != nil && t.isInactive() {
		ev.loading = true
	}
	o.ringChange(list)
	w.settle()
	mem.SetLatency(nil)
	w.settle()
	ev.code = wCtrlCode(ss.fresh(), id)
}

func (o *c17wObs) snapshot() map[string]c17wTopic {
	out := map[string]c17wTopic{}
	globals.hub.topics.Range(func(k, v any) bool {
		t := v.(*Topic)
		if !t.isLoaded() || t.isInactive() {
			return true
		}
		ct := c17wTopic{proxy: t.isProxy}
		for s := range t.sessions {
			ct.sess = append(ct.sess, s.sid)
		}
		sort.Strings(ct.sess)
		out[k.(string)] = ct
		return true
	})
	return out
}

func (o *c17wObs) Before(w *wWorld, op *wOp) {
	if !o.setup {
		o.setup = true
		c := &Cluster{thisNodeName: "a", nodes: map[string]*ClusterNode{}}
		for _, n := range c17wNodes[1:o.p.Nodes] {
			c.nodes[n] = &ClusterNode{name: n, msess: map[string]struct{}{}}
		}
		// the peers are down: the ring holds this node only
		c.rehash([]string{"a"})
		globals.cluster = c
	}
	o.ev = nil
	if op.K == "tick" && op.A == c17wRing {
		o.takePre()
		o.ringChange(op.X)
	}
	if op.K == "tick" && op.A == c17wLoad {
		o.loadEvent(w, op)
	}
}

func (o *c17wObs) After(w *wWorld, st *wStep) *kit.Viol {
	if !(st.Op.K == "tick" && (st.Op.A == c17wRing || st.Op.A == c17wLoad)) {
		return nil
	}
	o.changes++
	post := o.snapshot()
	var names []string
	for n := range post {
		names = append(names, n)
	}
	sort.Strings(names)
	live := strings.Join(o.applied, ",")
	if ev := o.ev; ev != nil && ev.sent {
		// the topic which was being loaded when the list changed: any instance which runs here now
		// (registered with the hub, neither paused nor being deleted) counts, attached or not
		how := fmt.Sprintf("the list changed %d us after a {sub} to the unloaded topic (store call = %d us; topic registered and being loaded at that moment: %v; the {sub} was answered %d)",
			st.Op.M, c17wLat, ev.loading, ev.code)
		owner := globals.cluster.ring.Get(ev.name)
		if t := globals.hub.topicGet(ev.name); t != nil && !t.isInactive() {
			if !t.isProxy && owner != "a" {
				return kit.V("master-topic-kept-after-rehash", "after the live nodes changed to [%s] topic %s belongs to node %s but a master instance of it is running on node a: two nodes serve the topic; %s", live, ev.name, owner, how)
			}
			if t.isProxy && owner == "a" {
				return kit.V("proxy-topic-kept-after-rehash", "after the live nodes changed to [%s] topic %s belongs to this node but a proxy instance for it is running here; %s", live, ev.name, how)
			}
		}
		side := map[bool]string{true: "here", false: "elsewhere"}
		switch {
		case ev.loading && ev.moved:
			k := "load-cut-by-rehash:name-was-" + side[ev.wasHere]
			o.cls[k] = true
			if ev.code == 0 {
				o.cls[k+":subscriber-not-answered"] = true
			} else {
				o.cls[fmt.Sprintf("%s:subscriber-answered-%dxx", k, ev.code/100)] = true
			}
		case ev.loading:
			o.cls["rehash-while-loading:name-not-moved"] = true
		case ev.moved:
			o.cls["rehash-after-load-completed:name-moved"] = true
		default:
			o.cls["rehash-after-load-completed:name-not-moved"] = true
		}
		if !ev.moved && ev.code == 0 {
			o.cls["rehash-near-load:name-not-moved:subscriber-not-answered"] = true
		}
	}
	for _, n := range names {
		owner := globals.cluster.ring.Get(n)
		t := post[n]
		if !t.proxy && owner != "a" {
			return kit.V("master-topic-kept-after-rehash", "after the live nodes changed to [%s] topic %s belongs to node %s but its master instance is still running on node a (sessions %v): two nodes serve the topic", live, n, owner, t.sess)
		}
		if t.proxy && owner == "a" {
			return kit.V("proxy-topic-kept-after-rehash", "after the live nodes changed to [%s] topic %s belongs to this node but a proxy instance for it is still running here", live, n)
		}
	}
	var pre []string
	for n := range o.pre {
		pre = append(pre, n)
	}
	sort.Strings(pre)
	for _, n := range pre {
		was, now := o.preRing[n], globals.cluster.ring.Get(n)
		switch {
		case was == "a" && now != "a":
			o.movedOut++
		case was != "a" && now == "a":
			o.movedIn++
		case was == "a" && now == "a" && !o.pre[n].proxy && len(o.pre[n].sess) > 0:
			o.kept++
			t, ok := post[n]
			if !ok {
				return kit.V("unmoved-topic-shut-down", "topic %s hashed to this node before and after the live nodes changed to [%s], yet it was shut down (sessions %v were attached)", n, live, o.pre[n].sess)
			}
			if strings.Join(t.sess, ",") != strings.Join(o.pre[n].sess, ",") {
				return kit.V("unmoved-topic-lost-sessions", "topic %s hashed to this node before and after the live nodes changed to [%s]: attached sessions were %v, now %v", n, live, o.pre[n].sess, t.sess)
			}
		}
	}
	return nil
}

func c17wExec(t *testing.T, r *kit.Run) func(c17wProg) kit.Outcome {
	return func(p c17wProg) kit.Outcome {
		r.WAL(p)
		obs := &c17wObs{p: &p, cls: map[string]bool{}}
		var res wRunResult
		fail := wInBubble(t, func() {
			defer func() { globals.cluster = nil }()
			res = wExec(&p.wProg, obs, nil)
		})
		globals.cluster = nil
		o := kit.Outcome{NonTrivial: obs.movedOut >= 1 && obs.kept >= 1 && obs.changes >= 2}
		if obs.movedOut > 0 {
			o.Classes = append(o.Classes, "master-moved-away")
		}
		if obs.movedIn > 0 {
			o.Classes = append(o.Classes, "name-moved-here")
		}
		if obs.kept > 0 {
			o.Classes = append(o.Classes, "master-stayed")
		}
		var extra []string
		for k := range obs.cls {
			extra = append(extra, k)
		}
		sort.Strings(extra)
		o.Classes = append(o.Classes, extra...)
		if fail != "" && res.Viol == nil {
			o.Skip = true
			fmt.Println("C17 bubble failure (not judged here):", firstLine(fail))
			return o
		}
		o.Viol = res.Viol
		return o
	}
}

func TestC17Rehash(t *testing.T) {
	r := kit.Begin("C17", "TestC17Rehash")
	defer r.Flush()
	kit.CheckRun(t, r, c17wGen, c17wExec(t, r))
}
