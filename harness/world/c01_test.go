package main

// C01 — per-topic message ids are unique, gapless and follow acceptance order; numbering
// survives reload, restart, a crash between store writes, and a failed save consumes no number.

import (
	"time"
	"encoding/json"
	"fmt"
	"sort"
	"strings"
	"testing"

	"github.com/tinode/chat/server/store/types"
	kit "github.com/tinode/chat/server/zzverifkit"
	mem "github.com/tinode/chat/server/zzverifmem"
	"pgregory.net/rapid"
)

// ---------------------------------------------------------------- shared generator helpers

// rapid's integer generators favour small values and the bounds on purpose (IntRange(0,99) is
// below 10 in about 42% of the draws): fine for sizes, wrong for "take this branch in 4% of the
// cases". Choices between alternatives are therefore drawn from fair bits.
func gBits(rt *rapid.T, n int, label string) int {
	v := 0
	for _, b := range rapid.SliceOfN(rapid.Bool(), n, n).Draw(rt, label) {
		v <<= 1
		if b {
			v |= 1
		}
	}
	return v
}

// gInt draws lo..hi uniformly.
func gInt(rt *rapid.T, lo, hi int, label string) int {
	if hi <= lo {
		return lo
	}
	return lo + gBits(rt, 12, label)*(hi-lo+1)/4096
}

// gRoll draws 0..99 uniformly.
func gRoll(rt *rapid.T, label string) int { return gInt(rt, 0, 99, label) }

func gPick[T any](rt *rapid.T, pool []T, label string) T { return pool[gInt(rt, 0, len(pool)-1, label)] }
func gPct(rt *rapid.T, p int) bool                      { return gRoll(rt, "pct") < p }

// gGrpc lets each connection talk protobuf with probability pct (the gRPC endpoint's conversion in
// both directions, wConfig.Grpc): every oracle applies to such a connection unchanged.
func gGrpc(rt *rapid.T, p *wProg, pct int) {
	for k := range p.Sess {
		if gPct(rt, pct) {
			p.Cfg.Grpc = append(p.Cfg.Grpc, k)
		}
	}
}

// gLat gives the store a (virtual) latency with probability pct, so that requests issued together
// interleave at store-call boundaries (wConfig.Lat).
func gLat(rt *rapid.T, p *wProg, pct int) {
	if !gPct(rt, pct) {
		return
	}
	n := gInt(rt, 1, 4, "latn")
	for i := 0; i < n; i++ {
		p.Cfg.Lat = append(p.Cfg.Lat, gPick(rt, []int{0, 1, 1, 2, 3, 7}, "lat"))
	}
	if n == 1 && p.Cfg.Lat[0] == 0 {
		p.Cfg.Lat[0] = 1
	}
}

var gLayouts = [][]int{{0, 1}, {0, 0, 1}, {0, 1, 2}, {0, 0, 1, 2}, {0, 1, 1, 2}, {0, 1, 2, 2}}

// gPrologue creates group g0 (owner: session 0 / user 0), subscribes the others with some
// probability, and opens the p2p topic between users 0 and 1.
func gPrologue(rt *rapid.T, p *wProg, chanPct, joinPct, p2pPct int) {
	kind := "new"
	if gPct(rt, chanPct) {
		kind = "nch"
	}
	p.Ops = append(p.Ops, wOp{K: "sub", S: 0, T: kind})
	for s := 1; s < len(p.Sess); s++ {
		if gPct(rt, joinPct) {
			ref := "g0"
			if kind == "nch" && gPct(rt, 60) {
				ref = "c0" // a channel reader
			}
			p.Ops = append(p.Ops, wOp{K: "sub", S: s, T: ref})
		}
	}
	if gPct(rt, p2pPct) {
		p.Ops = append(p.Ops, wOp{K: "sub", S: 0, T: "p1"})
		for s := 1; s < len(p.Sess); s++ {
			if p.Sess[s] == 1 {
				p.Ops = append(p.Ops, wOp{K: "sub", S: s, T: "p0"})
				break
			}
		}
	}
}

// gTopicFor gives a topic reference a session of user u can use.
func gTopicFor(rt *rapid.T, u int, withSys bool) string {
	pool := []string{"g0", "g0", "g0"}
	switch u {
	case 0:
		pool = append(pool, "p1")
	case 1:
		pool = append(pool, "p0")
	}
	if withSys {
		pool = append(pool, "sys")
	}
	return gPick(rt, pool, "topic")
}

// ---------------------------------------------------------------- C01 generator

func c01Gen(rt *rapid.T) wProg {
	p := wProg{}
	p.Cfg = wConfig{Users: 3, Root: gPct(rt, 30), Media: true}
	p.Sess = append([]int(nil), gPick(rt, gLayouts, "layout")...)
	gGrpc(rt, &p, 20)
	gLat(rt, &p, 35)
	if len(p.Cfg.Lat) > 0 && gPct(rt, 25) {
		// a store slow enough for a request to wait a visible time (a fraction of a millisecond) behind another one
		p.Cfg.Lat[0] = gPick(rt, []int{300, 600, 900}, "latms")
	}
	gPrologue(rt, &p, 20, 85, 60)
	p.Ops = append(p.Ops, wOp{K: "upload", S: 0}, wOp{K: "upload", S: 0})
	n := gInt(rt, 2, 14, "nops")
	pub := func() wOp {
		s := gInt(rt, 0, len(p.Sess)-1, "s")
		op := wOp{K: "pub", S: s, T: gTopicFor(rt, p.Sess[s], p.Cfg.Root && p.Sess[s] == 0 && gPct(rt, 30))}
		if gPct(rt, 12) {
			op.F = true
		}
		if gPct(rt, 14) {
			// attachments: an upload made earlier in the program, a file that was never uploaded, an unparsable url
			op.X = []string{gPick(rt, []string{"$file0", "$file0", "$file1", "/v0/file/s/AAAAAAAAAAE", "/v0/file/s/AAAAAAAAAAE.png", "http://example.com/x", "/other/AAAAAAAAAAE"}, "att")}
			if gPct(rt, 30) {
				op.X = append(op.X, gPick(rt, []string{"$file1", "/v0/file/s/AAAAAAAAAAE"}, "att2"))
			}
		}
		if p.Cfg.Root && p.Sess[s] == 0 && gPct(rt, 25) {
			op.Obo = 2 // on behalf of user 1
		}
		return op
	}
	if gPct(rt, 30) {
		p.Cfg.Calls = true
	}
	// sessions of the two P2P participants (every layout has both)
	sa, sb := -1, -1
	for s, u := range p.Sess {
		if u == 0 && sa < 0 {
			sa = s
		}
		if u == 1 && sb < 0 {
			sb = s
		}
	}
	for i := 0; i < n; i++ {
		switch x := gInt(rt, 0, 99, "opk"); {
		case p.Cfg.Calls && x < 10:
			// a video call in the P2P topic: the server itself writes messages (the call's outcome) into the
			// same numbering - when the ring timer runs out, when a party hangs up, when a party's connection
			// is dropped for not reading - while the participants go on publishing
			a, b, ta, tb := sa, sb, "p1", "p0"
			if gPct(rt, 40) {
				a, b, ta, tb = sb, sa, "p0", "p1"
			}
			p.Ops = append(p.Ops, wOp{K: "sub", S: a, T: ta}, wOp{K: "sub", S: b, T: tb},
				wOp{K: "pub", S: a, T: ta, A: "call", H: map[string]any{"webrtc": "started", "mime": c15Mime}})
			w, tw := a, ta // who publishes next to the call
			if gPct(rt, 50) {
				w, tw = b, tb
			}
			switch v := gInt(rt, 0, 9, "callv"); {
			case v < 3:
				// nobody answers; a publish arrives at the moment the ring timer fires
				p.Ops = append(p.Ops, wOp{K: "pub", S: w, T: tw, At: "call", AtUs: gPick(rt, []int{-3, -2, -1, 0, 0, 0, 1, 2, 4}, "callus")}, wOp{K: "tick", N: 100}, wOp{K: "pub", S: w, T: tw})
			case v < 4:
				p.Ops = append(p.Ops, wOp{K: "tick", N: 31000}, wOp{K: "pub", S: w, T: tw})
			case v < 6:
				// the caller gives up / the callee declines, somebody publishes
				p.Ops = append(p.Ops, wOp{K: "note", S: gPick(rt, []int{a, b}, "hup"), T: gPick(rt, []string{ta}, "hupt"), A: "call", B: "hang-up", M: 1}, wOp{K: "pub", S: w, T: tw})
				if last := &p.Ops[len(p.Ops)-2]; last.S == b {
					last.T = tb
				}
			default:
				// the call is answered; then the callee's (or caller's) connection stops reading while the other
				// side keeps writing, until the server drops it in the middle of delivering a message
				p.Ops = append(p.Ops, wOp{K: "note", S: b, T: tb, A: "call", B: "accept", M: 1}, pub())
				stuck, writer, twr := b, a, ta
				if gPct(rt, 30) {
					stuck, writer, twr = a, b, tb
				}
				p.Ops = append(p.Ops, wOp{K: "pause", S: stuck}, wOp{K: "flood", S: writer, T: twr, N: gPick(rt, []int{150, 155, 157, 158}, "nflood")})
				for k, m := 0, gInt(rt, 3, 8, "npost"); k < m; k++ {
					p.Ops = append(p.Ops, wOp{K: "pub", S: writer, T: twr})
				}
				p.Ops = append(p.Ops, wOp{K: "resume", S: stuck}, wOp{K: "sub", S: stuck, T: map[int]string{a: ta, b: tb}[stuck]}, wOp{K: "pub", S: stuck, T: map[int]string{a: ta, b: tb}[stuck]})
			}
		case x < 42:
			p.Ops = append(p.Ops, pub())
		case x < 56:
			k := gInt(rt, 2, 4, "npar")
			var par []wOp
			used := map[int]bool{}
			for j := 0; j < k; j++ {
				o := pub()
				if used[o.S] {
					continue // one in-flight request per session, as a real client connection
				}
				used[o.S] = true
				par = append(par, o)
			}
			if len(par) >= 2 {
				p.Ops = append(p.Ops, wOp{K: "par", Par: par})
			} else {
				p.Ops = append(p.Ops, par...)
			}
		case x < 59:
			s := gInt(rt, 0, len(p.Sess)-1, "s")
			p.Ops = append(p.Ops, wOp{K: "leave", S: s, T: gTopicFor(rt, p.Sess[s], false)})
		case x < 60:
			// an edit ({pub head.replace}) is the last message before the topic is unloaded or the server restarts
			s := gInt(rt, 0, len(p.Sess)-1, "s")
			p.Ops = append(p.Ops, wOp{K: "pub", S: s, T: "g0"}, wOp{K: "pub", S: s, T: "g0", H: map[string]any{"replace": ":1"}},
				wOp{K: gPick(rt, []string{"reload", "restart"}, "how"), T: "g0"}, wOp{K: "sub", S: s, T: "g0"}, wOp{K: "pub", S: s, T: "g0"})
		case x < 61:
			// one participant deletes the P2P subscription, the topic is unloaded, loaded back by a
			// new {sub} and numbering goes on (the topic row exists, one subscription is missing)
			s := gInt(rt, 0, len(p.Sess)-1, "s")
			if u := p.Sess[s]; u <= 1 {
				pt := fmt.Sprintf("p%d", 1-u)
				p.Ops = append(p.Ops, wOp{K: "leave", S: s, T: pt, F: true}, wOp{K: "reload", T: "p1"})
				if gPct(rt, 50) {
					p.Ops = append(p.Ops, wOp{K: "restart"})
				}
				p.Ops = append(p.Ops, wOp{K: "sub", S: s, T: pt}, wOp{K: "pub", S: s, T: pt})
			}
		case x < 63:
			// everybody leaves, the topic is unloaded (or the server restarts), then several sessions
			// attach at the same moment - the topic is being loaded when the second request arrives -
			// and each of them publishes
			var leave, join, pubs []wOp
			for s := range p.Sess {
				leave = append(leave, wOp{K: "leave", S: s, T: "g0"})
				join = append(join, wOp{K: "sub", S: s, T: "g0"})
				pubs = append(pubs, wOp{K: "pub", S: s, T: "g0"})
			}
			p.Ops = append(p.Ops, leave...)
			p.Ops = append(p.Ops, wOp{K: gPick(rt, []string{"tick", "tick", "restart"}, "how"), N: 5000})
			p.Ops = append(p.Ops, wOp{K: "par", Par: join})
			if gPct(rt, 50) {
				p.Ops = append(p.Ops, wOp{K: "par", Par: pubs})
			} else {
				p.Ops = append(p.Ops, pubs...)
			}
		case x < 65:
			// everybody leaves; at the very moment the idle timer fires one session attaches again and
			// publishes while another one attaches (a slow store from there on): the instance which is
			// on its way out and the one which is being loaded must not both hand out numbers
			var leave []wOp
			for s := range p.Sess {
				leave = append(leave, wOp{K: "leave", S: s, T: "g0"})
			}
			a := gInt(rt, 0, len(p.Sess)-1, "a")
			b := (a + 1 + gInt(rt, 0, len(p.Sess)-2, "b")) % len(p.Sess)
			p.Ops = append(p.Ops, wOp{K: "lat"})
			p.Ops = append(p.Ops, leave...)
			p.Ops = append(p.Ops, wOp{K: "sub", S: a, T: "g0", At: "g0", AtUs: gPick(rt, []int{0, 0, 0, 1, -1}, "atus")},
				wOp{K: "lat", R: [][2]int{{gPick(rt, []int{1, 2, 3}, "l1"), 0}, {gPick(rt, []int{0, 1, 5}, "l2"), 0}}},
				wOp{K: "par", Par: []wOp{{K: "pub", S: a, T: "g0"}, {K: "sub", S: b, T: "g0"}}},
				wOp{K: "pub", S: b, T: "g0"}, wOp{K: "pub", S: a, T: "g0"}, wOp{K: "sub", S: a, T: "g0"}, wOp{K: "pub", S: a, T: "g0"})
		case x < 68:
			s := gInt(rt, 0, len(p.Sess)-1, "s")
			op := wOp{K: "sub", S: s, T: gTopicFor(rt, p.Sess[s], false)}
			if p.Cfg.Root && p.Sess[s] == 0 && gPct(rt, 30) {
				op.Obo = 2
			}
			p.Ops = append(p.Ops, op)
		case x < 74:
			p.Ops = append(p.Ops, wOp{K: "reload", T: gPick(rt, []string{"g0", "g0", "p1"}, "rt")})
		case x < 78:
			p.Ops = append(p.Ops, wOp{K: "restart"})
		case x < 86:
			p.Ops = append(p.Ops, wOp{K: "fault", N: gInt(rt, 1, 5, "k"), B: gPick(rt, []string{"", "", "deadline", "deadline", "notfound", "dup"}, "ferr"),
				A: gPick(rt, []string{"", "", "TopicUpdateOnMessage", "MessageSave", "SubsUpdate", "FileLinkAttachments"}, "m")}, pub())
		case x < 92:
			p.Ops = append(p.Ops, wOp{K: "crash", N: gInt(rt, 1, 4, "k")}, pub())
		case x < 96:
			s := gInt(rt, 0, len(p.Sess)-1, "s")
			gop := wOp{K: "get", S: s, T: gTopicFor(rt, p.Sess[s], false), A: gPick(rt, []string{"data", "desc", "data desc"}, "what")}
			if strings.Contains(gop.A, "desc") && gPct(rt, 45) {
				gop.H = map[string]any{"ims": gPick(rt, []string{"now", "now", "old"}, "ims")}
			}
			p.Ops = append(p.Ops, gop)
		default:
			p.Ops = append(p.Ops, wOp{K: "tick", N: gPick(rt, []int{50, 1000, 5000}, "ms")})
		}
	}
	return p
}

// ---------------------------------------------------------------- C01 observer

type c01Topic struct {
	last    int            // highest number known to be consumed
	slack   int            // numbers that may have been consumed invisibly by a crash point
	tokens  map[string]int // token -> acknowledged / shown number
	bySeq   map[int]string
	failed  map[string]string // token of a publish that was answered with an error -> code
	crashed map[string]bool   // tokens whose publish was cut by a crash point
}

type c01Obs struct {
	known      func(*kit.Viol) bool // reports a violation; true if it is a listed known finding
	preSeq     map[string]int       // stored topic counter before the current step
	topics     map[string]*c01Topic
	accepted   int
	pubSess    map[int]bool
	features   map[string]bool
	afterCrash map[string]bool // routes that must accept the next valid publish
	anyFault   bool            // a store failure or a crash point was delivered earlier in the history
	judgeTs    bool                 // only the timestamp clause of C04 is judged (TestC04PublishedTimestamps)
	ackTs      map[string]time.Time // token -> the time the acknowledgement names (the message's timestamp)
	callSeq    map[string]int  // route -> number of the latest call invitation (what call events refer to)
	server     int             // messages the server wrote itself (call outcomes) and which were accounted for
}

func newC01Obs() *c01Obs {
	return &c01Obs{topics: map[string]*c01Topic{}, pubSess: map[int]bool{}, features: map[string]bool{}, afterCrash: map[string]bool{}, callSeq: map[string]int{}, ackTs: map[string]time.Time{}}
}

func (o *c01Obs) topic(route string) *c01Topic {
	t := o.topics[route]
	if t == nil {
		t = &c01Topic{tokens: map[string]int{}, bySeq: map[int]string{}, failed: map[string]string{}, crashed: map[string]bool{}}
		o.topics[route] = t
	}
	return t
}

func (o *c01Obs) Before(w *wWorld, op *wOp) {
	if w.noteSeq == nil {
		w.noteSeq = func(route string, sel int) int { return o.callSeq[route] }
	}
	o.preSeq = map[string]int{}
	for route := range o.topics {
		if seq, _, ok := mem.A.TopicCounters(route); ok {
			o.preSeq[route] = seq
		}
	}
}

func c01Seq(c *MsgServerCtrl) int {
	if c == nil {
		return 0
	}
	if m, ok := c.Params.(map[string]any); ok {
		if f, ok := m["seq"].(float64); ok {
			return int(f)
		}
	}
	return 0
}

// routeOfToken finds the topic a token was published to.
func (o *c01Obs) routeOfToken(tok string, pubs map[string]string) string { return pubs[tok] }

func (o *c01Obs) After(w *wWorld, st *wStep) *kit.Viol {
	steps := []*wStep{st}
	if st.Op.K == "par" {
		steps = st.Sub
		o.features["parallel"] = true
	}
	switch st.Op.K {
	case "reload":
		if st.Reloaded {
			o.features["reload"] = true
		}
	case "restart":
		o.features["restart"] = true
	}
	defer func() {
		if st.Fired || st.Crashed {
			o.anyFault = true
		}
	}()
	// 1. acknowledgements
	type ack struct {
		route string
		seq   int
		tok   string
	}
	var acks []ack
	for _, s := range steps {
		if s.Op.K != "pub" || s.Skipped {
			continue
		}
		t := o.topic(s.Route)
		c := wCtrl(st.Frames[s.Sess], s.ReqID)
		if st.Crashed {
			// The process died at a store-call boundary inside this publish: nothing sent after
			// that point reached anybody. The number may or may not have been consumed.
			t.crashed[s.Token] = true
			t.slack++ // every publish cut short by a crash may have consumed one number
			o.features["crash"] = true
			o.afterCrash[s.Route] = true
			continue
		}
		if st.Fired {
			o.features["fault"] = true
		}
		switch {
		case c == nil:
			return kit.V("pub-unanswered", "publish %s got no reply", s.Req)
		case c.Code == 202:
			seq := c01Seq(c)
			if seq <= 0 {
				return kit.V("ack-without-seq", "publish accepted without a message id: %s", wJSON(c))
			}
			acks = append(acks, ack{s.Route, seq, s.Token})
			if !c.Timestamp.IsZero() {
				o.ackTs[s.Token] = c.Timestamp
			}
			o.accepted++
			o.pubSess[s.Sess] = true
		default:
			t.failed[s.Token] = fmt.Sprint(c.Code)
			if c.Code >= 500 && !o.anyFault && !st.Fired && len(s.Op.X) == 0 {
				return kit.V("publish-failed-without-cause", "topic %s answers a valid publish with %d %s although no store failure or crash was injected in this history (a number the topic hands out is already taken in the store)", s.Route, c.Code, c.Text)
			}
			if o.afterCrash[s.Route] && c.Code >= 500 && !st.Fired {
				return kit.V("wedged-after-crash", "after a crash inside a publish, topic %s answers a valid publish with %d %s (store writes in the wrong order leave a stored number the topic re-issues)", s.Route, c.Code, c.Text)
			}
		}
	}
	for _, s := range steps {
		if s.Op.K == "pub" && !s.Skipped && s.Op.H != nil && s.Op.H["webrtc"] == "started" {
			if c := wCtrl(st.Frames[s.Sess], s.ReqID); c != nil && c.Code == 202 {
				o.callSeq[s.Route] = c01Seq(c)
			}
		}
	}
	// acknowledged numbers: exactly the next ones, per topic
	byRoute := map[string][]ack{}
	for _, a := range acks {
		byRoute[a.route] = append(byRoute[a.route], a)
	}
	// messages the server wrote itself (the outcome of a call: they refer to the invitation and carry its
	// state) take their numbers from the same sequence: each number is one publish or one such message
	if w.cfg.Calls {
		snap := mem.A.Snapshot()
		if st.Op.K == "flood" && !st.Skipped {
			// (the publishes of a flood carry no id and are not acknowledged: the count is taken from the store)
			t := o.topic(st.Route)
			for _, m := range snap.Msgs {
				if m.Topic == st.Route && m.SeqId > t.last {
					t.last = m.SeqId
				}
			}
			o.features["flood"] = true
		}
		for _, m := range snap.Msgs {
			t := o.topics[m.Topic]
			if t == nil || m.SeqId <= t.last || len(m.Head) == 0 {
				continue
			}
			var head map[string]any
			if json.Unmarshal(m.Head, &head) != nil {
				continue
			}
			ws, _ := head["webrtc"].(string)
			rp, _ := head["replace"].(string)
			if ws == "" || rp == "" {
				continue
			}
			byRoute[m.Topic] = append(byRoute[m.Topic], ack{m.Topic, m.SeqId, fmt.Sprintf("server:%s:%s#%d", ws, rp, m.SeqId)})
			o.server++
			o.features["server-written:"+ws] = true
		}
	}
	for route, as := range byRoute {
		t := o.topic(route)
		sort.Slice(as, func(i, j int) bool { return as[i].seq < as[j].seq })
		for i, a := range as {
			want := t.last + 1 + i
			if i == 0 && a.seq != want && len(t.failed) > 0 && a.seq <= o.preSeq[route]+1 && a.seq > want {
				// The stored counter ran ahead of the topic's because a publish failed after the
				// topic row had been bumped, and the topic was reloaded from the store since.
				v := kit.V("number-burnt-by-failed-save", "topic %s: publish %s acknowledged as #%d, expected #%d: a publish whose message insert failed had already bumped the stored counter to %d and the topic was reloaded from the store afterwards, so the failed save consumed a number", route, a.tok, a.seq, want, o.preSeq[route])
				if o.known != nil && o.known(v) {
					t.last = a.seq - 1
					want = a.seq
				} else {
					return v
				}
			}
			if a.seq != want && !(i == 0 && t.slack > 0 && a.seq > want && a.seq <= want+t.slack) {
				return kit.V("ack-not-next", "topic %s: publish %s acknowledged as #%d, expected #%d (last issued %d, %d concurrent acks %v)", route, a.tok, a.seq, want, t.last, len(as), as)
			}
			if i == 0 && a.seq != want {
				t.last = a.seq - 1
			}
			if prev, dup := t.bySeq[a.seq]; dup && prev != a.tok {
				return kit.V("number-issued-twice", "topic %s: #%d acknowledged for %s was already used by %s", route, a.seq, a.tok, prev)
			}
			if !strings.HasPrefix(a.tok, "server:") {
				t.tokens[a.tok] = a.seq
			}
			t.bySeq[a.seq] = a.tok
		}
		t.last = as[len(as)-1].seq
		t.slack = 0
		delete(o.afterCrash, route)
	}
	// 2. every {data} frame anywhere shows the acknowledged number of its token
	if !st.Crashed {
		for sess, frames := range st.Frames {
			for _, f := range frames {
				if f.Data == nil {
					continue
				}
				tok, _ := f.Data.Content.(string)
				if tok == "" {
					continue
				}
				if ws, _ := f.Data.Head["webrtc"].(string); ws != "" && f.Data.Head["replace"] != nil {
					continue // the outcome of a call, written by the server: it repeats the invitation's content
				}
				var t *c01Topic
				for _, ct := range o.topics {
					if _, ok := ct.tokens[tok]; ok {
						t = ct
					} else if _, ok := ct.failed[tok]; ok {
						t = ct
					} else if ct.crashed[tok] {
						t = ct
					}
				}
				if t == nil {
					continue
				}
				if code, bad := t.failed[tok]; bad {
					return kit.V("failed-publish-visible", "session %d was shown message %s as #%d although its publish was answered with error %s (a failed save must consume no number and leave no message)", sess, tok, f.Data.SeqId, code)
				}
				if t.crashed[tok] {
					// first sighting of a message stored by a publish that was cut by the crash
					if prev, seen := t.tokens[tok]; seen && prev != f.Data.SeqId {
						return kit.V("data-seq-mismatch", "message %s shown as #%d and as #%d", tok, prev, f.Data.SeqId)
					}
					if other, used := t.bySeq[f.Data.SeqId]; used && other != tok {
						return kit.V("number-issued-twice", "#%d shown for %s was already used by %s", f.Data.SeqId, tok, other)
					}
					t.tokens[tok] = f.Data.SeqId
					t.bySeq[f.Data.SeqId] = tok
					if f.Data.SeqId > t.last {
						t.last = f.Data.SeqId
						t.slack = 0
					}
					continue
				}
				if want := t.tokens[tok]; want != f.Data.SeqId {
					return kit.V("data-seq-mismatch", "session %d was shown message %s as #%d but the publisher was told #%d", sess, tok, f.Data.SeqId, want)
				}
			}
		}
	}
	// 3. description shows the counter
	for _, s := range steps {
		if s.Op.K != "get" || s.Skipped || st.Crashed {
			continue
		}
		t := o.topics[s.Route]
		if t == nil || w.sess[s.Sess].s.getSub(s.Route) == nil {
			// A description served to a session that is not attached comes from the store path and
			// carries no message counter at all.
			continue
		}
		for _, f := range st.Frames[s.Sess] {
			if f.Meta != nil && f.Meta.Id == s.ReqID && f.Meta.Desc != nil && f.Meta.Desc.Acs != nil && strings.Contains(wEffMode(f.Meta.Desc.Acs), "R") {
				got := f.Meta.Desc.SeqId
				if stored, _, _ := mem.A.TopicCounters(s.Route); got != t.last && len(t.failed) > 0 && got <= stored && got > t.last { // (<=: a second failed save after the reload bumps the stored counter once more)
					v := kit.V("number-burnt-by-failed-save", "{get desc} on %s shows seq %d, last issued number is %d: a failed save bumped the stored counter and the topic was reloaded from the store", s.Route, got, t.last)
					if o.known != nil && o.known(v) {
						t.last = got
						continue
					}
					return v
				}
				if got != t.last && !(t.slack > 0 && got > t.last && got <= t.last+t.slack) {
					return kit.V("desc-seq-mismatch", "{get desc} on %s shows seq %d, last issued number is %d", s.Route, got, t.last)
				}
			}
		}
	}
	// 4. the store never holds two messages on one number, nor a message above the topic counter
	return c01StoreCheck(o)
}

func c01StoreCheck(o *c01Obs) *kit.Viol {
	snap := mem.A.Snapshot()
	seen := map[string]bool{}
	for _, m := range snap.Msgs {
		k := fmt.Sprintf("%s#%d", m.Topic, m.SeqId)
		if seen[k] {
			return kit.V("store-duplicate-number", "store holds two messages %s", k)
		}
		seen[k] = true
		for _, tr := range snap.Topics {
			if tr.Name == m.Topic && m.SeqId > tr.SeqId {
				return kit.V("store-message-above-counter", "store holds message %s but the topic's counter is %d: after a restart the number would be issued again", k, tr.SeqId)
			}
		}
	}
	return nil
}

func (o *c01Obs) Final(w *wWorld) *kit.Viol {
	// Later history shows every acknowledged message at its number (no deletions in C01 programs).
	snap := mem.A.Snapshot()
	for route, t := range o.topics {
		have := map[int]string{}
		for _, m := range snap.Msgs {
			if m.Topic == route {
				var tok string
				if len(m.Content) > 2 {
					tok = strings.Trim(string(m.Content), `"`)
				}
				have[m.SeqId] = tok
			}
		}
		for _, m := range snap.Msgs {
			// (C04, TestC04PublishedTimestamps) the stored message carries the time its acknowledgement (and every live copy) named
			if !o.judgeTs {
				break
			}
			tok := strings.Trim(string(m.Content), `"`)
			if ts, ok := o.ackTs[tok]; ok && m.Topic == route && t.tokens[tok] == m.SeqId && !m.CreatedAt.Equal(ts) {
				return kit.V("stored-timestamp-differs", "topic %s: message %s (#%d) was acknowledged with ts %s and is stored with ts %s", route, tok, m.SeqId, ts.Format("15:04:05.000"), m.CreatedAt.Format("15:04:05.000"))
			}
		}
		for tok, seq := range t.tokens {
			if have[seq] != tok {
				return kit.V("history-mismatch", "topic %s: message %s was acknowledged as #%d but the store holds %q at that number", route, tok, seq, have[seq])
			}
		}
		for tok, code := range t.failed {
			for seq, h := range have {
				if h == tok {
					return kit.V("failed-publish-stored", "topic %s: publish %s was answered with error %s but is stored as #%d", route, tok, code, seq)
				}
			}
		}
	}
	return nil
}

func c01Exec(t *testing.T, r *kit.Run) func(wProg) kit.Outcome {
	return func(p wProg) kit.Outcome {
		r.WAL(p)
		obs := newC01Obs()
		obs.known = func(v *kit.Viol) bool { return r.IsKnown(v.Sig) && r.Violation(v, p) }
		var res wRunResult
		fail := wInBubble(t, func() { res = wExec(&p, obs, nil) })
		o := kit.Outcome{}
		for f := range obs.features {
			o.Classes = append(o.Classes, f)
		}
		sort.Strings(o.Classes)
		o.NonTrivial = obs.accepted >= 2 && len(obs.pubSess) >= 2 && len(obs.features) > 0
		if fail != "" && res.Viol == nil {
			o.Skip = true
			o.Classes = append(o.Classes, "bubble-failure")
			fmt.Println("C01 bubble failure (not judged here):", firstLine(fail))
			return o
		}
		o.Viol = res.Viol
		return o
	}
}

// wEffMode is the effective mode an {acs} block reports: the 'mode' member, or - over gRPC, whose
// schema has no such member - the intersection of want and given.
func wEffMode(a *MsgAccessMode) string {
	if a == nil {
		return ""
	}
	if a.Mode != "" || (a.Want == "" && a.Given == "") {
		return a.Mode
	}
	return (wModeOf(a.Want) & wModeOf(a.Given)).String()
}

func firstLine(s string) string {
	// the first line names the panic; keep the head of the stack too, on one line
	if len(s) > 1400 {
		s = s[:1400]
	}
	return strings.ReplaceAll(s, "\n", " | ")
}

// TestC04PublishedTimestamps: C04's clause "each with the ... timestamp it was published with", on the
// programs of C01 (parallel publishes against a store slow enough for a request to wait a visible time
// behind another one): the time the acknowledgement names is the time the message is stored with.
// Numbering is C01's subject and is not judged here.
func TestC04PublishedTimestamps(t *testing.T) {
	r := kit.Begin("C04", "TestC04PublishedTimestamps")
	defer r.Flush()
	kit.CheckRun(t, r, c01Gen, func(p wProg) kit.Outcome {
		r.WAL(p)
		obs := newC01Obs()
		obs.judgeTs = true
		obs.known = func(v *kit.Viol) bool { return true } // (listed C01 findings: the model follows them silently)
		var res wRunResult
		fail := wInBubble(t, func() { res = wExec(&p, obs, nil) })
		o := kit.Outcome{NonTrivial: len(obs.ackTs) >= 2 && obs.features["parallel"] && len(p.Cfg.Lat) > 0 && p.Cfg.Lat[0] >= 300}
		if o.NonTrivial {
			o.Classes = append(o.Classes, "parallel-publishes-behind-a-slow-store")
		}
		if fail != "" || (res.Viol != nil && res.Viol.Sig != "stored-timestamp-differs") {
			o.Skip = true // numbering trouble or a bubble failure: C01's business
			return o
		}
		o.Viol = res.Viol
		return o
	})
}

func TestC01Numbering(t *testing.T) {
	r := kit.Begin("C01", "TestC01Numbering")
	defer r.Flush()
	kit.CheckRun(t, r, c01Gen, c01Exec(t, r))
}

var _ = types.ZeroUid
