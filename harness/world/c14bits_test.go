package main

// C14 (status flags) - "the data that sessions, topics, the hub and the session registry share under
// a lock or an atomic operation (... termination and topic-status flags) is never touched without that
// protection": the flags of one topic (paused, read-only, marked deleted, loaded) live in one word
// which the hub, the topic's own goroutine and the account-state code change concurrently, each its own
// flag. A case gives every flag its own goroutine and a generated sequence of set/clear calls through
// the topic's own methods (markPaused, markReadOnly, markDeleted, markLoaded); all goroutines start at
// a barrier and run on real cores. Oracle: when they are done every flag holds the value its own
// goroutine wrote last, and a reader goroutine never saw a flag which nobody had set yet - an update
// of one flag never undoes an update of another. The race detector cannot see a lost update made of
// individually atomic loads and stores; this unit can. The interleaving is whatever the scheduler
// produces on this machine (sampled, not enumerated): each case makes several thousand overlapping
// read-modify-write pairs.

import (
	"fmt"
	"runtime"
	"sync"
	"sync/atomic"
	"testing"

	kit "github.com/tinode/chat/server/zzverifkit"
	"pgregory.net/rapid"
)

type c14BitsCase struct {
	Init   int      `json:"init"`   // flags set before the goroutines start (bit k = flag k)
	Seqs   [][]bool `json:"seqs"`   // per flag: the values its goroutine writes, in order (deleted and loaded can only be set)
	Rounds int      `json:"rounds"` // how many times the whole sequence is repeated
}

var c14BitsFlags = []struct {
	name string
	bit  int32
	set  func(t *Topic, v bool)
	oneWay bool
}{
	{"paused", topicStatusPaused, func(t *Topic, v bool) { t.markPaused(v) }, false},
	{"read-only", topicStatusReadOnly, func(t *Topic, v bool) { t.markReadOnly(v) }, false},
	{"deleted", topicStatusMarkedDeleted, func(t *Topic, v bool) {
		if v {
			t.markDeleted()
		}
	}, true},
	{"loaded", topicStatusLoaded, func(t *Topic, v bool) {
		if v {
			t.markLoaded()
		}
	}, true},
}

func c14BitsGen(rt *rapid.T) c14BitsCase {
	c := c14BitsCase{Init: gBits(rt, 4, "init"), Rounds: gPick(rt, []int{20, 50, 100, 200}, "rounds")}
	for k := range c14BitsFlags {
		n := gInt(rt, 1, 24, "len")
		seq := make([]bool, n)
		for i := range seq {
			seq[i] = gPct(rt, 50)
		}
		if c14BitsFlags[k].oneWay {
			// set once, somewhere in the middle of the others' traffic
			for i := range seq {
				seq[i] = i >= n/2
			}
		}
		c.Seqs = append(c.Seqs, seq)
	}
	return c
}

func c14BitsExec(r *kit.Run) func(c14BitsCase) kit.Outcome {
	return func(c c14BitsCase) kit.Outcome {
		r.WAL(c)
		o := kit.Outcome{NonTrivial: true}
		t := &Topic{name: "grpStatusBits"}
		want := make([]bool, len(c14BitsFlags))
		ever := make([]atomic.Bool, len(c14BitsFlags)) // somebody has (or is about to have) set the flag
		for k, f := range c14BitsFlags {
			if c.Init&(1<<k) != 0 {
				f.set(t, true)
				want[k] = true
				ever[k].Store(true)
			}
		}
		var start, done sync.WaitGroup
		start.Add(1)
		writes := 0
		for k := range c14BitsFlags {
			if k >= len(c.Seqs) || len(c.Seqs[k]) == 0 {
				continue
			}
			k, f, seq := k, c14BitsFlags[k], c.Seqs[k]
			last := want[k]
			for _, v := range seq {
				if f.oneWay {
					last = last || v
				} else {
					last = v
				}
			}
			writes += c.Rounds * len(seq)
			want[k] = last
			done.Add(1)
			go func() {
				defer done.Done()
				start.Wait()
				for rnd := 0; rnd < c.Rounds; rnd++ {
					for _, v := range seq {
						if v {
							ever[k].Store(true)
						}
						f.set(t, v)
					}
					if rnd%8 == 7 {
						runtime.Gosched()
					}
				}
			}()
		}
		// a reader: a flag nobody has set must never be seen set
		var phantom atomic.Int32
		phantom.Store(-1)
		stop := make(chan struct{})
		var readerDone sync.WaitGroup
		readerDone.Add(1)
		go func() {
			defer readerDone.Done()
			start.Wait()
			for {
				select {
				case <-stop:
					return
				default:
				}
				st := atomic.LoadInt32(&t.status)
				for k, f := range c14BitsFlags {
					if st&f.bit != 0 && !ever[k].Load() {
						phantom.CompareAndSwap(-1, int32(k))
					}
				}
			}
		}()
		start.Done()
		done.Wait()
		close(stop)
		readerDone.Wait()
		o.Classes = append(o.Classes, fmt.Sprintf("writes:%s", map[bool]string{true: ">=5000", false: "<5000"}[writes >= 5000]))
		got := atomic.LoadInt32(&t.status)
		for k, f := range c14BitsFlags {
			if (got&f.bit != 0) != want[k] {
				o.Viol = kit.V("status-flag-update-lost:"+f.name, "after %d concurrent set/clear calls (one goroutine per flag) the topic's '%s' flag is %v; the goroutine which owns that flag wrote %v last (status word %#x): an update of another flag undid it", writes, f.name, got&f.bit != 0, want[k], got)
				return o
			}
		}
		if k := phantom.Load(); k >= 0 {
			o.Viol = kit.V("status-flag-phantom:"+c14BitsFlags[k].name, "a reader saw the '%s' flag set before any goroutine had set it", c14BitsFlags[k].name)
		}
		// the predicates read the same word
		if t.isInactive() != (want[0] || want[2]) || t.isReadOnly() != want[1] || t.isLoaded() != want[3] || t.isDeleted() != want[2] {
			o.Viol = kit.V("status-predicates-disagree", "isInactive=%v isReadOnly=%v isLoaded=%v isDeleted=%v for flags %v", t.isInactive(), t.isReadOnly(), t.isLoaded(), t.isDeleted(), want)
		}
		return o
	}
}

func TestC14StatusBits(t *testing.T) {
	r := kit.Begin("C14", "TestC14StatusBits")
	defer r.Flush()
	kit.CheckRun(t, r, c14BitsGen, c14BitsExec(r))
}
