package main

// C05 (cluster proxy) - "every party that tracks permissions from change notifications - ... a
// cluster proxy of the topic - ends up with exactly the permissions the authoritative topic holds".
// The master side is the real Topic.notifySubChange (it chooses between a full mode and a +/-
// difference and hands the {pres what=acs} to the hub); the proxy side is the real
// Topic.updateAcsFromPresMsg applied to a proxy's per-user table which holds the old permissions.
// Oracle: after the replay the proxy holds the new permissions, for every pair (old, new).

import (
	"fmt"
	"testing"

	"github.com/tinode/chat/server/store/types"
	kit "github.com/tinode/chat/server/zzverifkit"
	"pgregory.net/rapid"
)

type c05pCase struct {
	OldWant  int  `json:"ow"`
	OldGiven int  `json:"og"`
	NewWant  int  `json:"nw"`
	NewGiven int  `json:"ng"`
	Known    bool `json:"known"` // the proxy has a record of the user already (else: first notice about the user)
}

func c05pGen(rt *rapid.T) c05pCase {
	mode := func(label string) int {
		switch rapid.IntRange(0, 9).Draw(rt, label+"k") {
		case 0, 1:
			return 0 // N
		case 2:
			return int(types.ModeCFull)
		case 3:
			return int(types.ModeCPublic)
		}
		return rapid.IntRange(0, 255).Draw(rt, label)
	}
	c := c05pCase{OldWant: mode("ow"), OldGiven: mode("og"), NewWant: mode("nw"), NewGiven: mode("ng"), Known: rapid.IntRange(0, 4).Draw(rt, "known") != 0}
	switch rapid.IntRange(0, 5).Draw(rt, "same") {
	case 0:
		c.NewGiven = c.OldGiven // only want changes
	case 1:
		c.NewWant = c.OldWant // only given changes
	}
	if !c.Known {
		c.OldWant, c.OldGiven = 0, 0 // nothing is known about the user yet: a new subscription
	}
	return c
}

func c05pExec(c c05pCase) kit.Outcome {
	o := kit.Outcome{NonTrivial: c.OldWant != c.NewWant || c.OldGiven != c.NewGiven}
	uid, actor := types.Uid(0x1001), types.Uid(0x2002)
	saved := globals.hub
	defer func() { globals.hub = saved }()
	h := &Hub{routeSrv: make(chan *ServerComMessage, 256)}
	globals.hub = h
	master := &Topic{name: "grpC05proxyReplay", xoriginal: "grpC05proxyReplay", cat: types.TopicCatGrp,
		perUser: map[types.Uid]perUserData{
			uid:   {modeWant: types.AccessMode(c.NewWant), modeGiven: types.AccessMode(c.NewGiven)},
			actor: {modeWant: types.ModeCFull, modeGiven: types.ModeCFull},
		}}
	master.notifySubChange(uid, actor, false, types.AccessMode(c.OldWant), types.AccessMode(c.OldGiven), types.AccessMode(c.NewWant), types.AccessMode(c.NewGiven), "")
	var acs *MsgServerPres
drain:
	for {
		select {
		case m := <-h.routeSrv:
			if acs == nil && m.Pres != nil && m.Pres.What == "acs" && m.Pres.Src == uid.UserId() && m.Pres.Acs != nil && m.RcptTo == master.name {
				acs = m.Pres
			}
		default:
			break drain
		}
	}
	if acs == nil && !o.NonTrivial {
		return o // nothing changed, nothing to announce
	}
	if acs == nil {
		o.Viol = kit.V("no-acs-notice", "notifySubChange(%v/%v -> %v/%v) sent no {pres what=acs} to the topic", types.AccessMode(c.OldWant), types.AccessMode(c.OldGiven), types.AccessMode(c.NewWant), types.AccessMode(c.NewGiven))
		return o
	}
	if c.OldWant == 0 || c.OldGiven == 0 {
		o.Classes = append(o.Classes, "full-mode-sent")
	} else {
		o.Classes = append(o.Classes, "difference-sent")
	}
	proxy := &Topic{name: master.name, xoriginal: master.name, cat: types.TopicCatGrp, isProxy: true, perUser: map[types.Uid]perUserData{}}
	if c.Known {
		proxy.perUser[uid] = perUserData{modeWant: types.AccessMode(c.OldWant), modeGiven: types.AccessMode(c.OldGiven)}
	}
	proxy.updateAcsFromPresMsg(acs)
	got := proxy.perUser[uid]
	if int(got.modeWant) != c.NewWant || int(got.modeGiven) != c.NewGiven {
		o.Viol = kit.V("proxy-permissions-diverged", "master: %v/%v -> %v/%v announced as want=%q given=%q; the proxy (held %s) now holds %v/%v",
			types.AccessMode(c.OldWant), types.AccessMode(c.OldGiven), types.AccessMode(c.NewWant), types.AccessMode(c.NewGiven), acs.Acs.Want, acs.Acs.Given,
			map[bool]string{true: fmt.Sprintf("%v/%v", types.AccessMode(c.OldWant), types.AccessMode(c.OldGiven)), false: "no record"}[c.Known], got.modeWant, got.modeGiven)
	}
	return o
}

func TestC05ProxyReplay(t *testing.T) { kit.Check(t, "C05", "TestC05ProxyReplay", c05pGen, c05pExec) }
