package main

// "vmail": a credential validator for the world engine. It is the e-mail validator
// (server/validate/email) without the SMTP client: the same store calls in the same order
// (Request upserts the credential with the expected response, Check confirms it or counts a
// failure, Remove/Delete drop it), and what would have been mailed - the confirmation code and
// the temporary (restricted) token, the password-reset code - is put into wMailbox instead, so
// that generated clients can use it. The real validator cannot run here: it needs an SMTP server.

import (
	"strings"
	"sync"

	"github.com/tinode/chat/server/store"
	t "github.com/tinode/chat/server/store/types"
)

const wValidatorName = "vmail"
const wValidatorDomain = "vmail.test"
const wValidatorCode = "123456"
const wValidatorMaxRetries = 3

type wMail struct {
	User  t.Uid
	Cred  string
	Token []byte // the temporary token which the validation link carries
	Code  string
	Reset bool
}

type wValidator struct {
	mu   sync.Mutex
	mail []wMail
}

var wVld = &wValidator{}
var wVldOnce sync.Once

// wUseValidator registers the validator (once per process) and configures it for this case:
// required at auth level when 'required', indexing confirmed addresses when 'addToTags'.
func wUseValidator(required, addToTags bool) {
	wVldOnce.Do(func() { store.RegisterValidator(wValidatorName, wVld) })
	wVld.mu.Lock()
	wVld.mail = nil
	wVld.mu.Unlock()
	if globals.validators == nil {
		globals.validators = map[string]credValidator{}
	}
	globals.validators[wValidatorName] = credValidator{addToTags: addToTags}
}

func (v *wValidator) mailbox() []wMail {
	v.mu.Lock()
	defer v.mu.Unlock()
	return append([]wMail(nil), v.mail...)
}

func (v *wValidator) Init(string) error   { return nil }
func (v *wValidator) IsInitialized() bool { return true }

func (v *wValidator) PreCheck(cred string, _ map[string]interface{}) (string, error) {
	// (addresses of one made-up domain only, so that search terms which look like other validators'
	// credentials are never claimed by this one: rewriteTag asks the validators in map order)
	if len(cred) > 254 || !strings.HasSuffix(strings.ToLower(cred), "@"+wValidatorDomain) || strings.ContainsAny(cred, " <>") {
		return "", t.ErrMalformed
	}
	return wValidatorName + ":" + strings.ToLower(cred), nil
}

func (v *wValidator) Request(user t.Uid, cred, lang, resp string, tmpToken []byte) (bool, error) {
	if resp != "" {
		return false, t.ErrFailed
	}
	cred = strings.ToLower(cred)
	isNew, err := store.Users.UpsertCred(&t.Credential{User: user.String(), Method: wValidatorName, Value: cred, Resp: wValidatorCode})
	if err != nil {
		return false, err
	}
	v.mu.Lock()
	v.mail = append(v.mail, wMail{User: user, Cred: cred, Token: append([]byte(nil), tmpToken...), Code: wValidatorCode})
	v.mu.Unlock()
	return isNew, nil
}

func (v *wValidator) ResetSecret(cred, scheme, lang string, tmpToken []byte, params map[string]interface{}) error {
	v.mu.Lock()
	v.mail = append(v.mail, wMail{Cred: strings.ToLower(cred), Token: append([]byte(nil), tmpToken...), Reset: true})
	v.mu.Unlock()
	return nil
}

func (v *wValidator) Check(user t.Uid, resp string) (string, error) {
	cred, err := store.Users.GetActiveCred(user, wValidatorName)
	if err != nil {
		return "", err
	}
	if cred == nil {
		return "", t.ErrNotFound
	}
	if cred.Retries > wValidatorMaxRetries {
		return "", t.ErrPolicy
	}
	if resp == "" {
		return "", t.ErrCredentials
	}
	if cred.Resp == resp {
		return cred.Value, store.Users.ConfirmCred(user, wValidatorName)
	}
	store.Users.FailCred(user, wValidatorName)
	return "", t.ErrCredentials
}

func (v *wValidator) Delete(user t.Uid) error { return store.Users.DelCred(user, wValidatorName, "") }
func (v *wValidator) Remove(user t.Uid, value string) error {
	return store.Users.DelCred(user, wValidatorName, value)
}
func (v *wValidator) TempAuthScheme() (string, error) { return "code", nil }
