package main

// C13 — no client input can crash the server or leave a request unanswered.
// Generator: sequences of structurally valid client messages whose every field ranges over
// boundary and hostile values (plus raw byte strings), from sessions in every state.
// Oracle: process survives (driver + bubble), every request with an id is answered at the
// requesting session, definitely-invalid requests are not accepted or ignored, a bystander
// session still gets served afterwards.

import (
	"encoding/json"
	"fmt"
	"strings"
	"testing"

	"github.com/tinode/chat/server/store"
	"github.com/tinode/chat/server/store/types"
	kit "github.com/tinode/chat/server/zzverifkit"
	"pgregory.net/rapid"
)

// ---- hostile value pools. "$..." placeholders are replaced with run-time names.
var c13Topics = []string{"", "me", "fnd", "sys", "new", "nch", "newabc", "nchabc", "usr", "grp", "chn", "p2p", "zz", "abc", "a",
	"$u0", "$u1", "$u2", "$g0", "$g1", "$c0", "$c1", "$P01", "$P12", "$self",
	"usrAAAAAAAAAAA", "usr!!!!!!!!!!!", "usrAAAAAAAAAA", "grpAAAAAAAAAAA", "grp", "grp!!", "chnAAAAAAAAAAA", "chn$$", "p2pAAAA",
	"p2pAAAAAAAAAAAAAAAAAAAAAA", "p2p!!!!!!!!!!!!!!!!!!!!!!", "fndAAAAAAAAAAA", "sysx", "me ", "ME", "\u0000", "␡", "ünï", "$long"}
var c13Strings = []string{"", "a", "ab", "␡", "\u0000", "x y", "ünï", "$long", "0", "null", "tel:+1", "email:a@b.c", "basic:x", "$u1", "$g0"}
var c13Modes = []string{"", "N", "J", "JR", "JRWP", "JRWPS", "JRWPAS", "JRWPASDO", "O", "RW", "X", "JN", "+J", "-R", "+O", "jrwp", "$long"}
var c13Whats = []string{"", "desc", "sub", "data", "del", "tags", "cred", "desc sub", "desc sub data del tags cred", "nonsense", "topic", "msg", "user", "DESC"}
var c13Ints = []int{-2147483648, -1, 0, 1, 2, 3, 5, 1000, 2147483647, 9007199254740992}
var c13Vers = []string{"", "0.22", "0.19", "0.18", "1", "0", "abc", "99.99", "0.22.1-rc1", "$long"}
var c13Schemes = []string{"", "token", "basic", "anon", "code", "reset", "nosuch", "rest", "$long"}
var c13NoteWhat = []string{"", "kp", "kpa", "kpv", "read", "recv", "data", "call", "nonsense"}
var c13Events = []string{"", "invite", "ringing", "accept", "offer", "answer", "ice-candidate", "hang-up", "nonsense"}

type c13Prog struct {
	wProg
}

func c13Pick[T any](rt *rapid.T, pool []T, label string) T {
	return pool[gInt(rt, 0, len(pool)-1, label)]
}

// secrets of every length around the sizes the token authenticator slices at (18 bytes of fields, 32 of signature)
var c13OddSecrets = func() []string {
	var out []string
	for _, n := range []int{1, 17, 18, 19, 31, 32, 33, 49, 50, 51, 64} {
		out = append(out, "$b64:"+strings.Repeat("t", n))
	}
	return out
}()

func c13Maybe(rt *rapid.T, p int) bool { return gInt(rt, 0, 99, "maybe") < p }

func c13Any(rt *rapid.T, depth int) any {
	switch gInt(rt, 0, 9, "anyk") {
	case 0:
		return nil
	case 1:
		return c13Pick(rt, c13Ints, "i")
	case 2:
		return c13Pick(rt, c13Strings, "s")
	case 3:
		return c13Maybe(rt, 50)
	case 4:
		if depth > 2 {
			return []any{}
		}
		n := gInt(rt, 0, 3, "n")
		arr := make([]any, n)
		for i := range arr {
			arr[i] = c13Any(rt, depth+1)
		}
		return arr
	case 5:
		return 1.5
	default:
		if depth > 2 {
			return map[string]any{}
		}
		m := map[string]any{}
		for _, k := range []string{"txt", "fmt", "ent", "tp", "data", "at", "len", "key", "mime", "val", "ref", "fn", "x"} {
			if c13Maybe(rt, 25) {
				m[k] = c13Any(rt, depth+1)
			}
		}
		return m
	}
}

func c13Opts(rt *rapid.T) any {
	if c13Maybe(rt, 5) {
		return c13Any(rt, 1)
	}
	m := map[string]any{}
	if c13Maybe(rt, 30) {
		m["user"] = c13Pick(rt, c13Topics, "user")
	}
	if c13Maybe(rt, 20) {
		m["topic"] = c13Pick(rt, c13Topics, "topic")
	}
	if c13Maybe(rt, 20) {
		m["ims"] = c13Pick(rt, []any{"2020-01-01T00:00:00Z", "", 5, "garbage"}, "ims")
	}
	for _, k := range []string{"since", "before", "limit"} {
		if c13Maybe(rt, 40) {
			m[k] = c13Pick(rt, c13Ints, k)
		}
	}
	return m
}

func c13Desc(rt *rapid.T) any {
	if c13Maybe(rt, 5) {
		return c13Any(rt, 1)
	}
	m := map[string]any{}
	if c13Maybe(rt, 40) {
		m["defacs"] = map[string]any{"auth": c13Pick(rt, c13Modes, "auth"), "anon": c13Pick(rt, c13Modes, "anon")}
	}
	for _, k := range []string{"public", "trusted", "private"} {
		if c13Maybe(rt, 40) {
			m[k] = c13Any(rt, 1)
		}
	}
	return m
}

func c13Cred(rt *rapid.T) any {
	m := map[string]any{}
	if c13Maybe(rt, 80) {
		m["meth"] = c13Pick(rt, []string{"", "email", "tel", "nosuch", "$long"}, "meth")
	}
	if c13Maybe(rt, 70) {
		m["val"] = c13Pick(rt, c13Strings, "val")
	}
	if c13Maybe(rt, 40) {
		m["resp"] = c13Pick(rt, c13Strings, "resp")
	}
	if c13Maybe(rt, 20) {
		m["params"] = c13Any(rt, 1)
	}
	return m
}

// c13Msg draws one client message; returns JSON text and whether it carries boundary values
// in a request kind that reaches the hub or a topic.
func c13Msg(rt *rapid.T) (string, string) {
	kind := c13Pick(rt, []string{"hi", "acc", "login", "sub", "sub", "leave", "pub", "pub", "get", "get", "set", "set", "del", "del", "note", "note"}, "kind")
	b := map[string]any{}
	if kind != "note" && c13Maybe(rt, 92) {
		b["id"] = "$id"
	}
	topic := func() {
		if c13Maybe(rt, 95) {
			b["topic"] = c13Pick(rt, c13Topics, "topic")
		}
	}
	switch kind {
	case "hi":
		b["ver"] = c13Pick(rt, c13Vers, "ver")
		for _, k := range []string{"ua", "dev", "lang", "platf"} {
			if c13Maybe(rt, 40) {
				b[k] = c13Pick(rt, c13Strings, k)
			}
		}
		if c13Maybe(rt, 20) {
			b["bkg"] = true
		}
	case "acc":
		b["user"] = c13Pick(rt, []string{"", "new", "newabc", "$u0", "$u1", "$self", "usrAAAAAAAAAAA", "usr", "zz", "me"}, "user")
		if c13Maybe(rt, 40) {
			b["tmpscheme"] = c13Pick(rt, c13Schemes, "tmpscheme")
			b["tmpsecret"] = c13Pick(rt, append([]string{"", "AAAA", "$tok0", "$tok1", "!!"}, c13OddSecrets...), "tmpsecret")
		}
		if c13Maybe(rt, 50) {
			b["scheme"] = c13Pick(rt, c13Schemes, "scheme")
		}
		if c13Maybe(rt, 50) {
			b["secret"] = c13Pick(rt, append([]string{"", "AAAA", "$tok0", "$b64:alice:pw", "$b64:a:b", "$b64::", "$b64:" + strings.Repeat("x", 40) + ":p", "!!"}, c13OddSecrets...), "secret")
		}
		if c13Maybe(rt, 20) {
			b["status"] = c13Pick(rt, []string{"", "ok", "susp", "del", "undef", "zz"}, "status")
		}
		if c13Maybe(rt, 20) {
			b["authlevel"] = c13Pick(rt, []string{"", "anon", "auth", "root", "zz"}, "authlevel")
		}
		if c13Maybe(rt, 30) {
			b["login"] = c13Maybe(rt, 50)
		}
		if c13Maybe(rt, 30) {
			b["tags"] = []any{c13Pick(rt, c13Strings, "tag"), c13Pick(rt, c13Strings, "tag")}
		}
		if c13Maybe(rt, 30) {
			b["desc"] = c13Desc(rt)
		}
		if c13Maybe(rt, 30) {
			b["cred"] = []any{c13Cred(rt)}
		}
	case "login":
		b["scheme"] = c13Pick(rt, c13Schemes, "scheme")
		b["secret"] = c13Pick(rt, append([]string{"", "AAAA", "$tok0", "$tok1", "$b64:alice:pw", "$b64:basic:email:a@b.c", "$b64:a", "!!"}, c13OddSecrets...), "secret")
		if c13Maybe(rt, 20) {
			b["cred"] = []any{c13Cred(rt)}
		}
	case "sub":
		topic()
		if c13Maybe(rt, 50) {
			set := map[string]any{}
			if c13Maybe(rt, 60) {
				sub := map[string]any{}
				if c13Maybe(rt, 50) {
					sub["user"] = c13Pick(rt, c13Topics, "user")
				}
				if c13Maybe(rt, 80) {
					sub["mode"] = c13Pick(rt, c13Modes, "mode")
				}
				set["sub"] = sub
			}
			if c13Maybe(rt, 50) {
				set["desc"] = c13Desc(rt)
			}
			if c13Maybe(rt, 30) {
				set["tags"] = []any{c13Pick(rt, c13Strings, "tag")}
			}
			if c13Maybe(rt, 10) {
				set["cred"] = c13Cred(rt)
			}
			b["set"] = set
		}
		if c13Maybe(rt, 50) {
			get := map[string]any{"what": c13Pick(rt, c13Whats, "what")}
			for _, k := range []string{"desc", "sub", "data", "del"} {
				if c13Maybe(rt, 30) {
					get[k] = c13Opts(rt)
				}
			}
			b["get"] = get
		}
	case "leave":
		topic()
		if c13Maybe(rt, 50) {
			b["unsub"] = true
		}
	case "pub":
		topic()
		if c13Maybe(rt, 20) {
			b["noecho"] = true
		}
		if c13Maybe(rt, 50) {
			h := map[string]any{}
			for _, k := range []string{"mime", "replace", "webrtc", "sender", "forwarded", "reply", "thread", "priority", "aonly", "webrtc-duration"} {
				if c13Maybe(rt, 30) {
					h[k] = c13Pick(rt, []any{"", "text/x-drafty", ":1", ":0", ":-1", ":x", "started", "accepted", "finished", "zz", 1, true, nil, "$u1", "grpAAA:1"}, k)
				}
			}
			b["head"] = h
		}
		if c13Maybe(rt, 95) {
			b["content"] = c13Any(rt, 0)
		}
	case "get":
		topic()
		b["what"] = c13Pick(rt, c13Whats, "what")
		for _, k := range []string{"desc", "sub", "data", "del"} {
			if c13Maybe(rt, 30) {
				b[k] = c13Opts(rt)
			}
		}
	case "set":
		topic()
		if c13Maybe(rt, 50) {
			b["desc"] = c13Desc(rt)
		}
		if c13Maybe(rt, 50) {
			sub := map[string]any{}
			if c13Maybe(rt, 60) {
				sub["user"] = c13Pick(rt, c13Topics, "user")
			}
			if c13Maybe(rt, 80) {
				sub["mode"] = c13Pick(rt, c13Modes, "mode")
			}
			b["sub"] = sub
		}
		if c13Maybe(rt, 30) {
			n := gInt(rt, 0, 3, "ntags")
			tags := make([]any, n)
			for i := range tags {
				tags[i] = c13Pick(rt, c13Strings, "tag")
			}
			b["tags"] = tags
		}
		if c13Maybe(rt, 20) {
			b["cred"] = c13Cred(rt)
		}
	case "del":
		if c13Maybe(rt, 90) {
			b["topic"] = c13Pick(rt, c13Topics, "topic")
		}
		b["what"] = c13Pick(rt, []string{"", "msg", "topic", "sub", "user", "cred", "nonsense", "MSG"}, "what")
		if c13Maybe(rt, 60) {
			n := gInt(rt, 0, 3, "nr")
			rs := make([]any, n)
			for i := range rs {
				r := map[string]any{}
				if c13Maybe(rt, 90) {
					r["low"] = c13Pick(rt, c13Ints, "low")
				}
				if c13Maybe(rt, 60) {
					r["hi"] = c13Pick(rt, c13Ints, "hi")
				}
				rs[i] = r
			}
			b["delseq"] = rs
		}
		if c13Maybe(rt, 40) {
			b["user"] = c13Pick(rt, c13Topics, "user")
		}
		if c13Maybe(rt, 20) {
			b["cred"] = c13Cred(rt)
		}
		if c13Maybe(rt, 40) {
			b["hard"] = true
		}
	case "note":
		topic()
		b["what"] = c13Pick(rt, c13NoteWhat, "what")
		if c13Maybe(rt, 70) {
			b["seq"] = c13Pick(rt, c13Ints, "seq")
		}
		if c13Maybe(rt, 30) {
			b["event"] = c13Pick(rt, c13Events, "event")
		}
		if c13Maybe(rt, 30) {
			b["payload"] = c13Any(rt, 1)
		}
		if c13Maybe(rt, 10) {
			b["unread"] = c13Pick(rt, c13Ints, "unread")
		}
	}
	msg := map[string]any{kind: b}
	if c13Maybe(rt, 4) {
		// occasionally a wrong JSON type for the whole body
		msg[kind] = c13Any(rt, 1)
	}
	if c13Maybe(rt, 12) {
		ex := map[string]any{}
		if c13Maybe(rt, 60) {
			ex["obo"] = c13Pick(rt, c13Topics, "obo")
		}
		if c13Maybe(rt, 40) {
			ex["authlevel"] = c13Pick(rt, []string{"", "anon", "auth", "root", "zz"}, "lvl")
		}
		if c13Maybe(rt, 40) {
			ex["attachments"] = []any{c13Pick(rt, []string{"", "/v0/file/s/AAAAAAAAAAA", "http://x/y", "../..", "$long"}, "att")}
		}
		msg["extra"] = ex
	}
	if c13Maybe(rt, 3) {
		// two message kinds at once
		msg["leave"] = map[string]any{"id": "$id", "topic": "me"}
	}
	return wJSON(msg), kind
}

var c13RawPool = []string{"", "1", "0", "{", "}", "[]", "null", "true", "\"x\"", "{}", "{\"hi\":null}", "{\"pub\":{}}", "{\"sub\":[]}", "{\"x\":1}",
	"{\"hi\":{\"ver\":\"0.22\"},\"login\":{}}", "\x00\x01\x02", "{\"note\":{\"topic\":1}}", "{\"get\":{\"id\":5}}", "{\"del\":{\"what\":\"topic\"}}",
	"{\"leave\":{\"topic\":\"\"}}", "{\"extra\":{\"obo\":\"usrx\"}}", "[{\"hi\":{}}]", "{\"hi\":{\"id\":\"$id\",\"ver\":\"0.22\"}}{\"x\"", "\xff\xfe"}

func c13Gen(rt *rapid.T) c13Prog {
	p := c13Prog{}
	p.Cfg = wConfig{Users: 4, Root: c13Maybe(rt, 40), Calls: c13Maybe(rt, 50), NoPush: c13Maybe(rt, 20)}
	if c13Maybe(rt, 30) {
		p.Cfg.Anon = []int{2}
	}
	// slot 0 is the bystander: user 3, whom no generated message can name.
	p.Sess = []int{3}
	ns := gInt(rt, 1, 3, "nsess")
	for i := 0; i < ns; i++ {
		p.Sess = append(p.Sess, c13Pick(rt, []int{0, 0, 1, 1, 2, -1, -2}, "sessuser"))
	}
	// some connections (never the bystander's) talk protobuf
	for k := 1; k < len(p.Sess); k++ {
		if c13Maybe(rt, 20) {
			p.Cfg.Grpc = append(p.Cfg.Grpc, k)
		}
	}
	// a prologue of ordinary ops so that hostile messages meet live topics
	if c13Maybe(rt, 75) {
		p.Ops = append(p.Ops, wOp{K: "sub", S: 1, T: "me"})
		p.Ops = append(p.Ops, wOp{K: "sub", S: 1, T: c13Pick(rt, []string{"new", "nch"}, "grpkind")})
		if c13Maybe(rt, 60) {
			p.Ops = append(p.Ops, wOp{K: "sub", S: 2, T: "g0"})
		}
		if c13Maybe(rt, 50) {
			p.Ops = append(p.Ops, wOp{K: "sub", S: 1, T: "p1"}, wOp{K: "sub", S: 1, T: "p0"})
		}
		if c13Maybe(rt, 50) {
			p.Ops = append(p.Ops, wOp{K: "pub", S: 1, T: "g0"}, wOp{K: "pub", S: 1, T: "g0"})
		}
		// well-formed requests in combinations a client rarely sends
		if c13Maybe(rt, 20) && len(p.Sess) > 2 {
			// both participants of the P2P topic unsubscribe while it stays loaded
			p.Ops = append(p.Ops, wOp{K: "sub", S: 1, T: "p1"}, wOp{K: "sub", S: 2, T: "p0"}, wOp{K: "sub", S: 1, T: "p0"}, wOp{K: "sub", S: 2, T: "p1"},
				wOp{K: "leave", S: 1, T: "p1", F: true}, wOp{K: "leave", S: 1, T: "p0", F: true}, wOp{K: "leave", S: 2, T: "p0", F: true}, wOp{K: "leave", S: 2, T: "p1", F: true})
		}
		if c13Maybe(rt, 12) && len(p.Sess) > 2 {
			// a client which keeps a cache asks what has changed since it last looked: a subscription it
			// gave up long before that, in a group which has been busy since
			p.Ops = append(p.Ops, wOp{K: "sub", S: 2, T: "g0"}, wOp{K: "sub", S: 2, T: "me"}, wOp{K: "leave", S: 2, T: "g0", F: true}, wOp{K: "tick", N: 200000},
				wOp{K: "pub", S: 1, T: "g0"}, wOp{K: "get", S: 2, T: "me", A: c13Pick(rt, []string{"sub", "sub", "desc sub"}, "cachewhat"), H: map[string]any{"ims": "recent"}})
		}
		if c13Maybe(rt, 15) && len(p.Sess) > 2 {
			// two connections ask for a topic which is not loaded, one request arriving while the topic is
			// being read from a store which takes its time
			if len(p.Cfg.Lat) == 0 {
				p.Cfg.Lat = []int{c13Pick(rt, []int{1, 3, 7}, "lat13")}
			}
			p.Ops = append(p.Ops, wOp{K: "sub", S: 2, T: "g0"}, wOp{K: "leave", S: 1, T: "g0"}, wOp{K: "leave", S: 2, T: "g0"}, wOp{K: "tick", N: 5500},
				wOp{K: "par", Par: []wOp{{K: "sub", S: 1, T: "g0", L: gInt(rt, 0, 3, "y1")}, {K: "sub", S: 2, T: "g0", L: gInt(rt, 0, 3, "y2")}}}, wOp{K: "pub", S: 1, T: "g0"})
		}
		if c13Maybe(rt, 20) {
			p.Ops = append(p.Ops, wOp{K: "leave", S: 1, T: "me"}, wOp{K: "sub", S: 1, T: "me", B: c13Pick(rt, []string{"cred", "desc sub cred tags", "data del"}, "getwhat")})
		}
		if c13Maybe(rt, 20) {
			p.Ops = append(p.Ops, wOp{K: "leave", S: 1, T: "me", F: true}, wOp{K: "leave", S: 1, T: "g0"}, wOp{K: "sub", S: 1, T: "g0"}, wOp{K: "get", S: 1, T: "g0", A: "desc"})
		}
	}
	n := gInt(rt, 1, 12, "nops")
	for i := 0; i < n; i++ {
		s := gInt(rt, 1, len(p.Sess)-1, "s")
		switch {
		case c13Maybe(rt, 3) && p.Cfg.Calls && len(p.Sess) > 2 && p.Sess[1] == 0 && p.Sess[2] == 1:
			// a party of a video call stops reading while the other side keeps writing: the server drops
			// the connection in the middle of delivering a message, which ends the call
			p.Ops = append(p.Ops, wOp{K: "sub", S: 1, T: "p1"}, wOp{K: "sub", S: 2, T: "p0"},
				wOp{K: "pub", S: 1, T: "p1", A: "call", H: map[string]any{"webrtc": "started", "mime": c15Mime}},
				wOp{K: "raw", S: 2, A: `{"note":{"topic":"$u0","what":"call","event":"accept","seq":` + fmt.Sprint(c13Pick(rt, []int{1, 1, 2, 3}, "callseq")) + `}}`},
				wOp{K: "pause", S: 2}, wOp{K: "flood", S: 1, T: "p1", N: 200}, wOp{K: "resume", S: 2}, wOp{K: "sub", S: 2, T: "p0"}, wOp{K: "pub", S: 2, T: "p0"})
			if c13Maybe(rt, 50) {
				// ... or the caller stops reading before the call is answered: its queue is full at the moment
				// the acceptance is delivered
				p.Ops = append(p.Ops[:len(p.Ops)-6], wOp{K: "pause", S: 1}, wOp{K: "flood", S: 2, T: "p0", N: c13Pick(rt, []int{157, 158, 159, 160, 161}, "prefill")},
					wOp{K: "raw", S: 2, A: `{"note":{"topic":"$u0","what":"call","event":"accept","seq":` + fmt.Sprint(c13Pick(rt, []int{1, 1, 2, 3}, "callseq2")) + `}}`},
					wOp{K: "resume", S: 1}, wOp{K: "sub", S: 1, T: "p1"}, wOp{K: "pub", S: 1, T: "p1"})
			}
		case c13Maybe(rt, 3) && p.Sess[1] >= 0:
			// a client stops reading while the topic it is attached to is busy: the server drops it
			p.Ops = append(p.Ops, wOp{K: "sub", S: 1, T: "g0"}, wOp{K: "sub", S: s, T: "g0"}, wOp{K: "pause", S: s}, wOp{K: "flood", S: 1, T: "g0", N: 200}, wOp{K: "resume", S: s})
		case c13Maybe(rt, 3) && p.Sess[s] >= 0 && p.Sess[s] <= 1:
			// an account is deleted; somebody presents the token it was issued earlier
			u := p.Sess[s]
			p.Ops = append(p.Ops, wOp{K: "del", S: s, A: "user", U: u, F: c13Maybe(rt, 50)})
			for k := 1; k < len(p.Sess); k++ {
				if k != s {
					p.Ops = append(p.Ops, wOp{K: "raw", S: k, A: `{"hi":{"id":"$id","ver":"0.22"}}`, B: "hi"},
						wOp{K: "raw", S: k, A: fmt.Sprintf(`{"login":{"id":"$id","scheme":"token","secret":"$tok%d"}}`, u), B: "login"})
					break
				}
			}
		case c13Maybe(rt, 3) && p.Sess[s] == -2:
			// a handshake which is refused, then the client carries on as if it had succeeded
			p.Ops = append(p.Ops, wOp{K: "raw", S: s, A: fmt.Sprintf(`{"hi":{"id":"$id","ver":%q}}`, c13Pick(rt, []string{"0.15", "0.1", "abc", ""}, "badver")), B: "hi"},
				wOp{K: "raw", S: s, A: c13Pick(rt, []string{`{"login":{"id":"$id","scheme":"token","secret":"$tok0"}}`, `{"acc":{"id":"$id","user":"new","scheme":"basic","secret":"$b64:newbie:secret12","login":true}}`, `{"login":{"id":"$id","scheme":"basic","secret":"$b64:alice:pw"}}`}, "afterbad"), B: "login"})
		case c13Maybe(rt, 8):
			p.Ops = append(p.Ops, wOp{K: "raw", S: s, A: c13Pick(rt, c13RawPool, "raw"), B: "raw"})
		case c13Maybe(rt, 4):
			p.Ops = append(p.Ops, wOp{K: "tick", N: c13Pick(rt, []int{10, 600, 4500, 6000, 31000}, "tick")})
		case c13Maybe(rt, 3):
			p.Ops = append(p.Ops, wOp{K: "disc", S: s})
		default:
			js, kind := c13Msg(rt)
			p.Ops = append(p.Ops, wOp{K: "raw", S: s, A: js, B: kind})
		}
	}
	return p
}

// c13Expand replaces placeholders in a raw message.
func (w *wWorld) c13Expand(raw string, ss *wSess, id string) string {
	if !strings.Contains(raw, "$") {
		return raw
	}
	rep := []string{"$id", id, "$long", strings.Repeat("L", 300)}
	for i, u := range w.users {
		rep = append(rep, fmt.Sprintf("$u%d", i), u.uid.UserId())
		tok, _ := json.Marshal(u.token)
		rep = append(rep, fmt.Sprintf("\"$tok%d\"", i), string(tok))
	}
	for i := 0; i < 2; i++ {
		g, c := "grpAAAAAAAAAAB", "chnAAAAAAAAAAB"
		if i < len(w.groups) {
			g, c = w.groups[i], types.GrpToChn(w.groups[i])
		}
		rep = append(rep, fmt.Sprintf("$g%d", i), g, fmt.Sprintf("$c%d", i), c)
	}
	rep = append(rep, "$P01", w.users[0].uid.P2PName(w.users[1].uid), "$P12", w.users[1].uid.P2PName(w.users[2].uid))
	self := "usrAAAAAAAAAAB"
	if ss.user >= 0 {
		self = w.users[ss.user].uid.UserId()
	}
	rep = append(rep, "$self", self)
	out := strings.NewReplacer(rep...).Replace(raw)
	// "$b64:text" -> base64 of text (JSON []byte fields)
	for {
		i := strings.Index(out, "\"$b64:")
		if i < 0 {
			break
		}
		j := strings.Index(out[i+1:], "\"")
		if j < 0 {
			break
		}
		txt := out[i+6 : i+1+j]
		enc, _ := json.Marshal([]byte(txt))
		out = out[:i] + string(enc) + out[i+2+j:]
	}
	return out
}

type c13Obs struct {
	deep     int
	requests int
	authed   map[int]bool // session slot -> was authenticated (server side) before the step
	// hs: session slot -> the session has completed a handshake (a {hi} answered 2xx); modelled from the
	// replies, initialised from the engine's own set-up of the connections
	hs      map[int]bool
	outOfSeq int
}

func (o *c13Obs) Before(w *wWorld, op *wOp) {
	// Hostile {login}/{acc login=true} messages may authenticate a session at any time.
	o.authed = map[int]bool{}
	for slot, ss := range w.sess {
		if ss != nil && !ss.isClosed() {
			o.authed[slot] = !ss.s.uid.IsZero()
		}
	}
	if o.hs == nil {
		o.hs = map[int]bool{}
		for slot, ss := range w.sess {
			o.hs[slot] = ss != nil && ss.s.ver != 0
		}
	}
	if op.K == "reconn" {
		o.hs[op.S] = true // the engine's new connection says {hi} itself
	}
}

func (o *c13Obs) After(w *wWorld, st *wStep) *kit.Viol {
	if st.Op.K == "par" {
		// requests of several connections in flight at once: each one answered, a {sub} exactly once
		for _, sub := range st.Sub {
			sub.Died = st.Died
			if v := o.After(w, sub); v != nil {
				return v
			}
		}
		return nil
	}
	if !st.Skipped && st.ReqID != "" && (st.Op.K == "sub" || st.Op.K == "leave" || st.Op.K == "pub" || st.Op.K == "get" || st.Op.K == "set" || st.Op.K == "del") {
		// the well-formed requests of the prologue: answered like any other
		answered := false
		ctrls := 0
		for _, f := range st.Frames[st.Sess] {
			if (f.Ctrl != nil && f.Ctrl.Id == st.ReqID) || (f.Meta != nil && f.Meta.Id == st.ReqID) {
				answered = true
			}
			if f.Ctrl != nil && f.Ctrl.Id == st.ReqID {
				ctrls++
			}
		}
		for _, d := range st.Died {
			if d == st.Sess {
				answered = true
			}
		}
		if !answered {
			return kit.V("unanswered:"+st.Op.K+":"+st.Op.A, "request got no reply echoing its id %q at quiescence: %s frames=%s", st.ReqID, st.Req, wFramesStr(st.Frames[st.Sess]))
		}
		if st.Op.K == "sub" && st.Op.B == "" && st.Op.G == nil && st.Op.H == nil && ctrls > 1 {
			return kit.V("answered-twice:sub", "request %s was answered %d times: %s", st.Req, ctrls, wFramesStr(st.Frames[st.Sess]))
		}
	}
	if st.Op.K != "raw" || st.Skipped {
		return nil
	}
	o.requests++
	ss := w.sess[st.Sess]
	frames := st.Frames[st.Sess]
	if len(st.Req) == 1 && st.Req[0] == '1' {
		return nil // network probe, answered with a bare '0'
	}
	terminated := false
	for _, d := range st.Died {
		if d == st.Sess {
			terminated = true
		}
	}
	var anyCtrl bool
	var allCodes []int
	for _, f := range frames {
		if f.Ctrl != nil {
			anyCtrl = true
			allCodes = append(allCodes, f.Ctrl.Code)
		}
	}
	// Decode the way the server does (standard library decoder into the protocol struct).
	var msg ClientComMessage
	if err := json.Unmarshal([]byte(st.Req), &msg); err != nil {
		if !anyCtrl && !terminated {
			return kit.V("unanswered:undecodable", "undecodable input %q got no reply", st.Req)
		}
		for _, c := range allCodes {
			if c < 400 {
				return kit.V("garbage-accepted", "undecodable input %q was answered with %d", st.Req, c)
			}
		}
		return nil
	}
	// The kind the dispatcher handles and the id it must echo.
	kind, id := "", ""
	switch {
	case msg.Pub != nil:
		kind, id = "pub", msg.Pub.Id
	case msg.Sub != nil:
		kind, id = "sub", msg.Sub.Id
	case msg.Leave != nil:
		kind, id = "leave", msg.Leave.Id
	case msg.Hi != nil:
		kind, id = "hi", msg.Hi.Id
	case msg.Login != nil:
		kind, id = "login", msg.Login.Id
	case msg.Get != nil:
		kind, id = "get", msg.Get.Id
	case msg.Set != nil:
		kind, id = "set", msg.Set.Id
	case msg.Del != nil:
		kind, id = "del", msg.Del.Id
	case msg.Acc != nil:
		kind, id = "acc", msg.Acc.Id
	case msg.Note != nil:
		kind = "note"
	}
	if kind == "note" {
		return nil // notes are never answered; survival is checked elsewhere
	}
	if kind == "" {
		if !anyCtrl && !terminated {
			return kit.V("unanswered:empty-message", "message without a known kind %q got no reply", st.Req)
		}
		for _, c := range allCodes {
			if c < 400 {
				return kit.V("garbage-accepted", "message without a known kind %q was answered with %d", st.Req, c)
			}
		}
		return nil
	}
	// Replies sent before the handler runs (bad on-behalf-of) carry no id.
	preHandler := msg.Extra != nil && msg.Extra.AsUser != ""
	answered := false
	var codes []int
	for _, f := range frames {
		switch {
		case f.Ctrl != nil && (f.Ctrl.Id == id || (preHandler && f.Ctrl.Id == "")):
			answered = true
			codes = append(codes, f.Ctrl.Code)
		case f.Meta != nil && f.Meta.Id == id:
			answered = true
		}
	}
	if id == "" {
		// docs/API.md: the id is optional and is the client's means to receive an acknowledgement;
		// a request without one need not be acknowledged. Only replies that did arrive are judged.
		answered = true
		codes = allCodes
	}
	if !answered && !terminated {
		return kit.V("unanswered:"+c13Shape(kind, st.Req), "request got no reply echoing its id %q at quiescence: %s (session user %d) frames=%s", id, st.Req, ss.user, wFramesStr(frames))
	}
	if kind == "hi" {
		for _, c := range codes {
			if c >= 200 && c < 300 {
				o.hs[st.Sess] = true
			}
		}
	} else if !o.hs[st.Sess] {
		// out of sequence: nothing but {hi} is served before a handshake has succeeded (also after a refused one)
		o.outOfSeq++
		for _, c := range codes {
			if c < 400 {
				return kit.V("request-before-handshake-accepted:"+kind, "the session has not completed a handshake, yet %s was answered %d", st.Req, c)
			}
		}
	}
	if !o.authed[st.Sess] && kind != "hi" && kind != "acc" && kind != "login" {
		for _, c := range codes {
			if c < 400 {
				return kit.V("unauthenticated-accepted:"+kind, "request from a session that is not logged in was answered %d: %s", c, st.Req)
			}
		}
	}
	if o.authed[st.Sess] && kind != "hi" && kind != "acc" && kind != "login" {
		o.deep++
	}
	return nil
}

// c13Shape gives a coarse, stable shape of a request for violation signatures.
func c13Shape(kind, req string) string {
	var m map[string]map[string]any
	if json.Unmarshal([]byte(req), &m) != nil {
		return kind
	}
	what := ""
	for _, b := range m {
		if w, ok := b["what"].(string); ok {
			what = ":" + w
		}
	}
	return kind + what
}

func wFramesStr(fr []*ServerComMessage) string {
	var sb strings.Builder
	for _, f := range fr {
		sb.WriteString(wJSON(f))
		sb.WriteString(" ")
	}
	s := sb.String()
	if len(s) > 600 {
		s = s[:600] + "..."
	}
	return s
}

func (o *c13Obs) Final(w *wWorld) *kit.Viol {
	// The bystander (slot 0) must still be served.
	by := w.sess[0]
	if by.isClosed() {
		return kit.V("bystander-dropped", "the bystander session was terminated by the server")
	}
	id := w.nextID()
	fr := w.do(by, `{"get":{"id":"`+id+`","topic":"me","what":"desc"}}`)
	ok := false
	for _, f := range fr {
		if f.Meta != nil && f.Meta.Id == id && f.Meta.Desc != nil {
			ok = true
		}
	}
	if !ok {
		return kit.V("bystander-not-served", "bystander {get me desc} was not answered with a description: %s", wFramesStr(fr))
	}
	return nil
}

func c13Exec(t *testing.T, r *kit.Run) func(c13Prog) kit.Outcome {
	return func(p c13Prog) kit.Outcome {
		r.WAL(p)
		o := kit.Outcome{}
		obs := &c13Obs{}
		var res wRunResult
		fail := wInBubble(t, func() {
			res = wExec(&p.wProg, obs, nil)
		})
		o.NonTrivial = obs.deep > 0
		if obs.deep > 0 {
			o.Classes = append(o.Classes, "deep")
		}
		if len(p.Cfg.Anon) > 0 {
			o.Classes = append(o.Classes, "anon-user")
		}
		if p.Cfg.Root {
			o.Classes = append(o.Classes, "root")
		}
		if fail != "" {
			o.Viol = kit.V("panic:"+wPanicSite(fail), "%s", fail)
			return o
		}
		o.Viol = res.Viol
		return o
	}
}

// wPanicSite extracts the first tinode frame of a panic trace for the signature.
func wPanicSite(fail string) string {
	for _, ln := range strings.Split(fail, "\n") {
		ln = strings.TrimSpace(ln)
		if strings.HasPrefix(ln, "github.com/tinode/chat/server") && !strings.Contains(ln, "zz_verif") && !strings.Contains(ln, ".w") {
			if i := strings.LastIndex(ln, "("); i > 0 {
				ln = ln[:i]
			}
			return ln[strings.LastIndex(ln, "/")+1:]
		}
	}
	if i := strings.Index(fail, "\n"); i > 0 {
		fail = fail[:i]
	}
	if len(fail) > 80 {
		fail = fail[:80]
	}
	return fail
}

func TestC13Structured(t *testing.T) {
	r := kit.Begin("C13", "TestC13Structured")
	defer r.Flush()
	_ = store.Store
	kit.CheckRun(t, r, c13Gen, c13Exec(t, r))
}
