package main

import (
	"fmt"
	"testing"
)

func TestWorldSmoke(t *testing.T) {
	for round := 0; round < 3; round++ {
		fail := wInBubble(t, func() {
			w := wBoot(wConfig{Users: 2})
			a, b := w.addSess(), w.addSess()
			fmt.Println("login", w.login(a, 0), w.login(b, 1))
			fr := w.do(a, `{"sub":{"id":"s1","topic":"me"}}`)
			fmt.Println("sub me", wCtrlCode(fr, "s1"))
			fr = w.do(a, `{"sub":{"id":"s2","topic":"new1"}}`)
			c := wCtrl(fr, "s2")
			fmt.Println("new grp", c.Code, c.Topic)
			grp := c.Topic
			fr = w.do(b, `{"sub":{"id":"s3","topic":"`+grp+`"}}`)
			fmt.Println("b sub", wCtrlCode(fr, "s3"))
			fr = w.do(a, `{"pub":{"id":"p1","topic":"`+grp+`","content":"hello"}}`)
			fmt.Println("pub", wCtrlCode(fr, "p1"), len(b.fresh()))
			fr = w.do(b, `{"get":{"id":"g1","topic":"`+grp+`","what":"data desc sub"}}`)
			for _, f := range fr {
				fmt.Println("  b got", wJSON(f))
			}
			fmt.Println("topics", len(w.liveTopics()), "push", len(wTap.drain()))
			w.tick(10e9)
			fmt.Println("after idle", len(w.liveTopics()))
			w.restart()
			a = w.addSess()
			w.login(a, 0)
			fr = w.do(a, `{"sub":{"id":"s9","topic":"`+grp+`","get":{"what":"data"}}}`)
			fmt.Println("after restart frames", len(fr))
			w.shutdown()
		})
		fmt.Println("round", round, "failure:", fail)
	}
}
