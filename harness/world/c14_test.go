package main

// C14 — attach, detach, disconnect and delete race without leaks, hangs or lost replies.
// Programs are mostly parallel batches issued by concurrent goroutines; the binary is built
// with the race detector (GORACE=halt_on_error: a report kills the worker, the driver recovers
// the case from the write-ahead log). Deadlocks and leaked goroutines surface through the
// synctest bubble, hangs through the virtual-clock watchdog.

import (
	"os"
	"fmt"
	"sort"
	"strings"
	"testing"
	"time"

	"github.com/tinode/chat/server/store/types"
	kit "github.com/tinode/chat/server/zzverifkit"
	mem "github.com/tinode/chat/server/zzverifmem"
	"pgregory.net/rapid"
)

func c14Gen(rt *rapid.T) wProg {
	p := wProg{}
	p.Cfg = wConfig{Users: 3, NoPush: gPct(rt, 50), Root: gPct(rt, 35)}
	gLat(rt, &p, 40)
	p.Sess = append([]int(nil), gPick(rt, [][]int{{0, 0, 1, 1, 2}, {0, 1, 1, 2, 2}, {0, 0, 1, 2}, {0, 1, 2, 0, 1, 2}}, "layout")...)
	kind := "new"
	if gPct(rt, 25) {
		kind = "nch"
	}
	p.Ops = append(p.Ops, wOp{K: "sub", S: 0, T: kind})
	for s := 1; s < len(p.Sess); s++ {
		if gPct(rt, 60) {
			p.Ops = append(p.Ops, wOp{K: "sub", S: s, T: "g0"})
		}
		if gPct(rt, 35) {
			p.Ops = append(p.Ops, wOp{K: "sub", S: s, T: "me"})
		}
	}
	if gPct(rt, 50) {
		p.Ops = append(p.Ops, wOp{K: "sub", S: 0, T: "p1"})
	}
	topicFor := func(s int) string {
		u := p.Sess[s]
		pool := []string{"g0", "g0", "g0", "me"}
		if u == 0 {
			pool = append(pool, "p1")
		}
		if u == 1 {
			pool = append(pool, "p0")
		}
		return gPick(rt, pool, "topic")
	}
	one := func(s int) wOp {
		var op wOp
		switch x := gInt(rt, 0, 99, "k"); {
		case x < 5:
			// {sub} and the connection drops before the hub and the topic have finished with it
			op = wOp{K: "sub", S: s, T: topicFor(s), M: 77}
		case x < 26:
			op = wOp{K: "sub", S: s, T: topicFor(s)}
		case x < 44:
			op = wOp{K: "leave", S: s, T: topicFor(s), F: gPct(rt, 35)}
		case x < 66:
			op = wOp{K: "pub", S: s, T: topicFor(s)}
		case x < 74:
			op = wOp{K: "get", S: s, T: topicFor(s), A: gPick(rt, []string{"desc", "sub", "data"}, "what")}
		case x < 80:
			op = wOp{K: "del", S: s, T: "g0", A: "topic", F: true}
		case x < 84:
			op = wOp{K: "del", S: s, T: "g0", A: "sub", U: gInt(rt, 1, 2, "tgt")}
		case x < 88:
			op = wOp{K: "set", S: s, T: topicFor(s), A: "mode", B: gPick(rt, []string{"JRWPS", "N", "JRWP"}, "want")}
		case x < 89:
			// the connection is replaced: the old one drops and a new one is accepted while the rest of the batch runs
			op = wOp{K: "conn", S: s}
		case x < 91:
			op = wOp{K: "disc", S: s}
		case x < 94:
			// account deletion (own account, or anybody's when the session is root), soft or hard
			op = wOp{K: "del", S: s, A: "user", U: gInt(rt, 0, 2, "victim"), F: gPct(rt, 50)}
		case x < 96:
			// account suspension / reinstatement (acted on when the session is user 0 at root level)
			op = wOp{K: "acc", S: s, U: gInt(rt, 1, 2, "tgt"), A: gPick(rt, []string{"susp", "ok"}, "status")}
		default:
			op = wOp{K: "note", S: s, T: topicFor(s), A: "kp"}
		}
		if p.Cfg.Root && p.Sess[s] == 0 && (op.K == "sub" || op.K == "leave") && op.T == "g0" && gPct(rt, 30) {
			op.Obo = gInt(rt, 2, 3, "obo") // the root session acts for user 1 or 2
		}
		op.L = gInt(rt, 0, 3, "yield")
		return op
	}
	n := gInt(rt, 2, 8, "nbatches")
	for i := 0; i < n; i++ {
		switch x := gInt(rt, 0, 99, "ctl"); {
		case x < 70:
			k := gInt(rt, 2, len(p.Sess), "npar")
			perm := rapid.Permutation(seqInts(len(p.Sess))).Draw(rt, "perm")
			var par []wOp
			for j := 0; j < k; j++ {
				par = append(par, one(perm[j]))
			}
			p.Ops = append(p.Ops, wOp{K: "par", Par: par})
		case x < 78:
			s := gInt(rt, 0, len(p.Sess)-1, "s")
			p.Ops = append(p.Ops, wOp{K: "reconn", S: s})
		case x < 86:
			p.Ops = append(p.Ops, wOp{K: "tick", N: gPick(rt, []int{100, 3990, 4100, 5500}, "ms")})
		case x < 89:
			// the store fails while the owner deletes the loaded topic; then sessions go away
			s := gInt(rt, 1, len(p.Sess)-1, "goes")
			p.Ops = append(p.Ops, wOp{K: "fault", N: gInt(rt, 1, 2, "k"), A: gPick(rt, []string{"TopicDelete", ""}, "m")}, wOp{K: "del", S: 0, T: "g0", A: "topic", F: gPct(rt, 50)},
				wOp{K: "sub", S: s, T: "g0"}, wOp{K: "disc", S: s}, wOp{K: "tick", N: 5500})
		case x >= 92 && x < 95:
			// a participant of a loaded P2P topic deletes the own account while the peer is attached
			victim := gInt(rt, 0, 1, "p2pvictim")
			sv, sp := -1, -1
			for k, u := range p.Sess {
				if u == victim && sv < 0 {
					sv = k
				}
				if u == 1-victim && sp < 0 {
					sp = k
				}
			}
			if sv >= 0 && sp >= 0 {
				p.Ops = append(p.Ops, wOp{K: "sub", S: sv, T: fmt.Sprintf("p%d", 1-victim)}, wOp{K: "sub", S: sp, T: fmt.Sprintf("p%d", victim)},
					wOp{K: "del", S: sv, A: "user", U: victim, F: gPct(rt, 50)}, wOp{K: "pub", S: sp, T: fmt.Sprintf("p%d", victim)})
			}
		case x >= 95 && x < 98:
			// an account is deleted while somebody's {sub} is loading one of its topics from the store
			victim := gInt(rt, 0, 1, "racevictim")
			sv, sp := -1, -1
			for k, u := range p.Sess {
				if u == victim && sv < 0 {
					sv = k
				}
				if u != victim && sp < 0 {
					sp = k
				}
			}
			if sv >= 0 && sp >= 0 {
				ref := "g0"
				if p.Sess[sp] <= 1 && gPct(rt, 50) {
					ref = fmt.Sprintf("p%d", victim)
				}
				for k := range p.Sess {
					p.Ops = append(p.Ops, wOp{K: "leave", S: k, T: "g0"}, wOp{K: "leave", S: k, T: fmt.Sprintf("p%d", 1-min(p.Sess[k], 1))})
				}
				p.Ops = append(p.Ops, wOp{K: "tick", N: 5500}, wOp{K: "par", Par: []wOp{
					{K: "sub", S: sp, T: ref, L: gInt(rt, 0, 3, "y1")}, {K: "del", S: sv, A: "user", U: victim, F: gPct(rt, 50), L: gInt(rt, 0, 3, "y2")}}})
			}
		case x >= 98:
			// one participant leaves a P2P topic for good, the topic is unloaded, the other one deletes it without attaching
			s0, s1 := -1, -1
			for k, u := range p.Sess {
				if u == 0 && s0 < 0 {
					s0 = k
				}
				if u == 1 && s1 < 0 {
					s1 = k
				}
			}
			if s0 >= 0 && s1 >= 0 {
				a, b, ta, tb := s0, s1, "p1", "p0"
				if gPct(rt, 50) {
					a, b, ta, tb = s1, s0, "p0", "p1"
				}
				p.Ops = append(p.Ops, wOp{K: "sub", S: a, T: ta}, wOp{K: "sub", S: b, T: tb}, wOp{K: "leave", S: b, T: tb, F: true})
				if gPct(rt, 50) {
					// ... or the other one leaves for good as well, while attached: the topic removes itself
					p.Ops = append(p.Ops, wOp{K: "leave", S: a, T: ta, F: true}, wOp{K: "tick", N: 100}, wOp{K: "sub", S: b, T: tb}, wOp{K: "pub", S: b, T: tb})
					break
				}
				for k := range p.Sess {
					p.Ops = append(p.Ops, wOp{K: "leave", S: k, T: fmt.Sprintf("p%d", 1-min(p.Sess[k], 1))})
				}
				p.Ops = append(p.Ops, wOp{K: "tick", N: 5500}, wOp{K: "del", S: a, T: ta, A: "topic", F: gPct(rt, 50)})
			}
		case x == 90:
			// a long-polling client goes away without a word while attached; its session's idle time runs
			// out and the next connection which is accepted expires it: it ends up detached from every topic
			s := gInt(rt, 1, len(p.Sess)-1, "abandoned")
			other := (s + 1 + gInt(rt, 0, len(p.Sess)-2, "newconn")) % len(p.Sess)
			p.Ops = append(p.Ops, wOp{K: "sub", S: s, T: "g0"}, wOp{K: "sub", S: s, T: "me"}, wOp{K: "abandon", S: s}, wOp{K: "tick", N: 75000})
			if gPct(rt, 50) {
				p.Ops = append(p.Ops, wOp{K: "par", Par: []wOp{{K: "conn", S: other}, {K: "pub", S: 0, T: "g0"}}})
			} else {
				p.Ops = append(p.Ops, wOp{K: "reconn", S: other})
			}
			p.Ops = append(p.Ops, wOp{K: "pub", S: 0, T: "g0"}, wOp{K: "get", S: 0, T: "g0", A: "sub"})
		case x == 89:
			// everybody leaves the group; at the very moment its idle timer fires several sessions come back
			for k := range p.Sess {
				p.Ops = append(p.Ops, wOp{K: "leave", S: k, T: "g0"})
			}
			p.Ops = append([]wOp{{K: "lat"}}, p.Ops...)
			p.Cfg.Lat = nil
			k := gInt(rt, 1, len(p.Sess), "natpar")
			perm := rapid.Permutation(seqInts(len(p.Sess))).Draw(rt, "atperm")
			var par []wOp
			for j := 0; j < k; j++ {
				par = append(par, wOp{K: gPick(rt, []string{"sub", "sub", "sub", "pub", "get"}, "atk"), S: perm[j], T: "g0", A: "desc", L: gInt(rt, 0, 3, "aty")})
			}
			p.Ops = append(p.Ops, wOp{K: "par", Par: par, At: "g0", AtUs: gPick(rt, []int{0, 0, 1}, "atus")}, wOp{K: "tick", N: 100})
		case x < 92:
			// slow consumer: pause one attached session, flood the topic from another one
			s := gInt(rt, 1, len(p.Sess)-1, "slow")
			p.Ops = append(p.Ops, wOp{K: "pause", S: s}, wOp{K: "flood", S: 0, T: "g0", N: 200}, wOp{K: "resume", S: s})
		default:
			s := gInt(rt, 0, len(p.Sess)-1, "s")
			p.Ops = append(p.Ops, one(s))
		}
	}
	return p
}

func seqInts(n int) []int {
	out := make([]int, n)
	for i := range out {
		out[i] = i
	}
	return out
}

type c14Obs struct {
	racy     int
	deleted  map[string]bool
	preLive  map[string]*wTopicSnap
	preNames map[int][]string
	// racingSub: P2P topics for which a {sub} was in flight in the same batch as an account deletion
	racingSub   map[string]bool
	servedKnown map[string]bool
	known       func(*kit.Viol) bool
	faults      bool
}

func (o *c14Obs) Before(w *wWorld, op *wOp) {
	o.preLive = w.liveTopics()
	o.preNames = map[int][]string{}
	for slot, ss := range w.sess {
		if ss != nil && !ss.isClosed() {
			o.preNames[slot] = ss.subNames()
		}
	}
}

func (o *c14Obs) Final(w *wWorld) *kit.Viol {
	if v := o.consistency(w, "end of program"); v != nil {
		return v
	}
	// nothing may stay locked: after the idle period a loaded topic is neither paused nor half-deleted
	w.tick(6 * time.Second)
	for name, lt := range w.liveTopics() {
		if lt.Status&(topicStatusPaused|topicStatusMarkedDeleted) != 0 {
			return kit.V("topic-locked-forever", "topic %s is still loaded and paused/marked deleted (status %#x) 6 s after the end of the program: every request to it is answered 503", name, lt.Status)
		}
	}
	return o.consistency(w, "end of program + idle period")
}

func (o *c14Obs) After(w *wWorld, st *wStep) *kit.Viol {
	if st.Op.K == "fault" {
		o.faults = true
	}
	// a request which finds, with nothing else going on, a topic that has locked itself: the topic is blocked
	if c := st.reply(); st.Op.K == "sub" && !st.Skipped && !o.faults && c != nil && c.Code == 503 && c.Text == "locked" {
		if lt := o.preLive[st.Route]; lt != nil && lt.Status&(topicStatusPaused|topicStatusMarkedDeleted) != 0 && len(lt.Sessions) == 0 {
			return kit.V("topic-locked-at-rest", "topic %s sat in the hub paused/marked deleted (status %#x) with no request in flight; %s was answered 503 locked", st.Route, lt.Status, st.Req)
		}
	}
	steps := []*wStep{st}
	if st.Op.K == "par" {
		steps = st.Sub
		touching := map[string]int{}
		detach := map[string]bool{}
		for _, s := range steps {
			touching[s.Route]++
			if s.Op.K == "leave" || s.Op.K == "disc" || s.Op.K == "conn" || (s.Op.K == "del" && s.Op.A != "msg") {
				detach[s.Route] = true
			}
			if s.Op.K == "disc" || s.Op.K == "conn" {
				for _, n := range o.preNames[s.Sess] {
					touching[n]++
					detach[n] = true
				}
			}
		}
		for r, n := range touching {
			if n >= 3 && detach[r] {
				o.racy++
			}
		}
	}
	if st.Op.K == "par" {
		delUser := false
		for _, s := range steps {
			delUser = delUser || (s.Op.K == "del" && s.Op.A == "user")
		}
		for _, s := range steps {
			if delUser && s.Op.K == "sub" && strings.HasPrefix(s.Route, "p2p") {
				o.racingSub[s.Route] = true
			}
		}
	}
	discInBatch := map[int]bool{}
	for _, s := range steps {
		if s.Op.K == "disc" || s.Op.K == "conn" {
			discInBatch[s.Sess] = true
		}
	}
	// 1. every sub / leave / del is answered
	for _, s := range steps {
		if s.Skipped || s.ReqID == "" || discInBatch[s.Sess] {
			continue
		}
		if s.Op.K != "sub" && s.Op.K != "leave" && s.Op.K != "del" {
			continue
		}
		answered := false
		for _, f := range st.Frames[s.Sess] {
			if f.Ctrl != nil && f.Ctrl.Id == s.ReqID {
				answered = true
			}
			if f.Ctrl != nil && f.Ctrl.Id == "" && f.Ctrl.Code >= 400 && s.Op.Obo > 0 {
				// a request on behalf of another user from a session which is not (or no longer) root is
				// refused by the dispatcher before the request is looked at: that reply carries no id
				answered = true
			}
			if f.Ctrl != nil && f.Ctrl.Code == 205 && s.Op.K == "leave" {
				// a leave that crosses with the session's eviction may be answered by the notice alone
				answered = true
			}
		}
		died := false
		for _, d := range st.Died {
			if d == s.Sess {
				died = true
			}
		}
		if !answered && !died {
			return kit.V("unanswered:"+s.Op.K, "%s from session %d got no reply at quiescence (batch: %s)", s.Req, s.Sess, batchStr(steps))
		}
	}
	// 5. deleted topics
	for _, s := range steps {
		if s.Op.K == "del" && s.Op.A == "topic" && !s.Skipped && strings.HasPrefix(s.Route, "grp") {
			if c := wCtrl(st.Frames[s.Sess], s.ReqID); c != nil && c.Code >= 200 && c.Code < 300 {
				if lt := o.preLive[s.Route]; lt != nil && w.sess[s.Sess].user >= 0 && lt.Owner == w.users[w.sess[s.Sess].user].uid {
					o.deleted[s.Route] = true
				}
			}
		}
	}
	for route := range o.deleted {
		if _, still := w.liveTopics()[route]; still {
			return kit.V("deleted-topic-still-loaded", "topic %s was deleted by its owner but is still in the hub", route)
		}
	}
	for _, s := range steps {
		if o.deleted[s.Route] && !s.Skipped && (s.Op.K == "pub" || s.Op.K == "sub" || s.Op.K == "get") && !(s.Op.K == "del") {
			delStep := false
			for _, s2 := range steps {
				if s2.Op.K == "del" && s2.Op.A == "topic" && s2.Route == s.Route {
					delStep = true
				}
			}
			if delStep {
				continue // raced with the deletion itself: either outcome is fine
			}
			for _, f := range st.Frames[s.Sess] {
				if f.Ctrl != nil && f.Ctrl.Id == s.ReqID && f.Ctrl.Code < 300 {
					return kit.V("request-on-deleted-topic-served", "%s on deleted topic %s was answered %d", s.Req, s.Route, f.Ctrl.Code)
				}
			}
		}
	}
	return o.consistency(w, fmt.Sprintf("step %d (%s)", st.I, batchStr(steps)))
}

func batchStr(steps []*wStep) string {
	var parts []string
	for _, s := range steps {
		parts = append(parts, fmt.Sprintf("s%d:%s %s", s.Sess, s.Op.K, s.Name))
	}
	return strings.Join(parts, " | ")
}

// consistency: session.subs <=> topic.sessions, dead sessions nowhere, online counters exact.
func (o *c14Obs) consistency(w *wWorld, when string) *kit.Viol {
	live := w.liveTopics()
	bySid := map[string]int{}
	for slot, ss := range w.sess {
		if ss != nil {
			bySid[ss.s.sid] = slot
		}
	}
	for slot, ss := range w.sess {
		if ss == nil {
			continue
		}
		names := ss.subNames()
		if ss.isClosed() {
			for name, lt := range live {
				if _, in := lt.Sessions[ss.s.sid]; in {
					return kit.V("dead-session-in-topic", "terminated session %d is still listed by topic %s after %s", slot, name, when)
				}
			}
			continue
		}
		for _, name := range names {
			lt := live[name]
			if lt == nil {
				return kit.V("session-lists-unloaded-topic", "session %d lists topic %s which is not loaded, after %s", slot, name, when)
			}
			if lt.Status&(topicStatusPaused|topicStatusMarkedDeleted) != 0 {
				continue
			}
			if _, in := lt.Sessions[ss.s.sid]; !in {
				return kit.V("session-lists-topic-not-vice-versa", "session %d lists topic %s but the topic does not list the session, after %s", slot, name, when)
			}
		}
		for name, lt := range live {
			if _, in := lt.Sessions[ss.s.sid]; in {
				found := false
				for _, n := range names {
					if n == name {
						found = true
					}
				}
				if !found {
					return kit.V("topic-lists-session-not-vice-versa", "topic %s lists session %d but the session does not list the topic, after %s", name, slot, when)
				}
			}
		}
	}
	// a topic which the store no longer holds (its owner's / a participant's account was deleted) is not served
	snap := mem.A.Snapshot()
	for name, lt := range live {
		if os.Getenv("VERIF_TRACE") != "" {
			fmt.Printf("  C14 live %s loaded=%v status=%#x sessions=%d\n", name, lt.Loaded, lt.Status, len(lt.Sessions))
		}
		if !(strings.HasPrefix(name, "p2p") || strings.HasPrefix(name, "grp")) || lt.Status&(topicStatusPaused|topicStatusMarkedDeleted) != 0 {
			continue
		}
		var gone []int
		if strings.HasPrefix(name, "p2p") {
			u1, u2, _ := types.ParseP2P(name)
			for _, u := range []types.Uid{u1, u2} {
				alive := false
				for _, ur := range snap.Users {
					if ur.ID == u && ur.State != types.StateDeleted {
						alive = true
					}
				}
				if !alive {
					gone = append(gone, w.userIdx(u))
				}
			}
		}
		if os.Getenv("VERIF_TRACE") != "" {
			fmt.Printf("  C14 topic %s loaded=%v status=%#x sessions=%d gone=%v users=%d\n", name, lt.Loaded, lt.Status, len(lt.Sessions), gone, len(snap.Users))
		}
		if len(gone) > 0 && len(lt.Sessions) > 0 {
			if o.servedKnown[name] {
				continue // reported (as a listed finding) when it arose
			}
			sig := "topic-of-deleted-account-served"
			if o.racingSub[name] {
				// the account deletion crossed with a {sub} which was loading the topic at that moment
				sig += ":raced-with-subscribe"
			}
			v := kit.V(sig, "P2P topic %s is loaded with %d sessions attached although the account of user %v was deleted, after %s", name, len(lt.Sessions), gone, when)
			if o.known != nil && o.known(v) {
				o.servedKnown[name] = true
				continue
			}
			return v
		}
	}
	// online counters
	names := make([]string, 0, len(live))
	for n := range live {
		names = append(names, n)
	}
	sort.Strings(names)
	for _, name := range names {
		lt := live[name]
		if lt.Status&(topicStatusPaused|topicStatusMarkedDeleted) != 0 || lt.Cat == types.TopicCatFnd || lt.Cat == types.TopicCatSys {
			continue
		}
		count := map[types.Uid]int{}
		for sid, psd := range lt.Sessions {
			if psd.isChanSub {
				continue
			}
			if slot, ok := bySid[sid]; ok && !w.sess[slot].s.background {
				count[psd.uid]++
			}
		}
		for uid, pud := range lt.PerUser {
			if pud.isChan {
				continue
			}
			if pud.online < 0 {
				return kit.V("online-count-negative", "topic %s: online count of user %d is %d after %s", name, w.userIdx(uid), pud.online, when)
			}
			if pud.online != count[uid] {
				return kit.V("online-count-wrong:"+catName(lt.Cat), "topic %s: online count of user %d is %d but %d of the user's sessions are attached, after %s", name, w.userIdx(uid), pud.online, count[uid], when)
			}
		}
	}
	return nil
}

func c14Exec(t *testing.T, r *kit.Run) func(wProg) kit.Outcome {
	return func(p wProg) kit.Outcome {
		r.WAL(p)
		obs := &c14Obs{deleted: map[string]bool{}, racingSub: map[string]bool{}, servedKnown: map[string]bool{}}
		obs.known = func(v *kit.Viol) bool { return r.IsKnown(v.Sig) && r.Violation(v, p) }
		var res wRunResult
		fail := wInBubble(t, func() { res = wExec(&p, obs, nil) })
		o := kit.Outcome{NonTrivial: obs.racy >= 1}
		if fail != "" {
			sig := "bubble:" + wPanicSite(fail)
			if strings.Contains(fail, "deadlock") || strings.Contains(fail, "blocked goroutines") {
				sig = "goroutines-left-or-deadlock"
			}
			o.Viol = kit.V(sig, "%s", fail)
			return o
		}
		o.Viol = res.Viol
		return o
	}
}

func TestC14Races(t *testing.T) {
	r := kit.Begin("C14", "TestC14Races")
	defer r.Flush()
	kit.CheckRun(t, r, c14Gen, c14Exec(t, r))
}

// c14StopGen: several parties stop the same topics at the same moment - two connections delete one
// account (each request makes the hub start a goroutine which stops that user's topics), the account's
// owner groups are deleted by the owner, the peer deletes the P2P topic - while the account has many
// topics loaded, so that the goroutines meet on the same topic.
func c14StopGen(rt *rapid.T) wProg {
	p := wProg{}
	p.Cfg = wConfig{Users: 3, NoPush: true, Root: gPct(rt, 30)}
	gLat(rt, &p, 30)
	// user 1 is the account which goes; it has two or three connections
	p.Sess = append([]int(nil), gPick(rt, [][]int{{0, 1, 1, 2}, {0, 1, 1, 1, 2}, {0, 1, 1, 2, 2}}, "layout")...)
	var mine []int
	for s, u := range p.Sess {
		if u == 1 {
			mine = append(mine, s)
		}
	}
	p.Ops = append(p.Ops, wOp{K: "sub", S: 0, T: "new"})
	// topics of user 1: 'me', 'fnd', both P2P topics, a few groups of its own
	for _, s := range mine {
		for _, t := range []string{"me", "fnd", "p0", "p2"} {
			if gPct(rt, 70) {
				p.Ops = append(p.Ops, wOp{K: "sub", S: s, T: t})
			}
		}
	}
	for k, n := 0, gInt(rt, 0, 3, "owned"); k < n; k++ {
		p.Ops = append(p.Ops, wOp{K: "sub", S: mine[0], T: "new"})
	}
	for s, u := range p.Sess {
		if u != 1 && gPct(rt, 60) {
			p.Ops = append(p.Ops, wOp{K: "sub", S: s, T: "p1"})
		}
	}
	var par []wOp
	used := map[int]bool{}
	for _, s := range mine {
		if gPct(rt, 85) {
			par = append(par, wOp{K: "del", S: s, A: "user", U: 1, F: gPct(rt, 70), L: gInt(rt, 0, 3, "y")})
			used[s] = true
		}
	}
	if p.Cfg.Root && gPct(rt, 50) {
		par = append(par, wOp{K: "del", S: 0, A: "user", U: 1, F: true, L: gInt(rt, 0, 3, "yr")})
		used[0] = true
	}
	for s, u := range p.Sess {
		if used[s] || !gPct(rt, 50) {
			continue
		}
		switch {
		case u != 1:
			par = append(par, gPick(rt, []wOp{{K: "del", S: s, T: "p1", A: "topic", F: true}, {K: "pub", S: s, T: "p1"}, {K: "leave", S: s, T: "p1", F: true}, {K: "sub", S: s, T: "p1"}}, "peer"))
		default:
			par = append(par, gPick(rt, []wOp{{K: "del", S: s, T: "g1", A: "topic", F: true}, {K: "leave", S: s, T: "me"}, {K: "pub", S: s, T: "p0"}}, "own"))
		}
		par[len(par)-1].L = gInt(rt, 0, 3, "yo")
	}
	if len(par) >= 2 {
		p.Ops = append(p.Ops, wOp{K: "par", Par: par})
	} else {
		p.Ops = append(p.Ops, par...)
	}
	p.Ops = append(p.Ops, wOp{K: "tick", N: 100}, wOp{K: "sub", S: 0, T: "g0"}, wOp{K: "pub", S: 0, T: "g0"})
	return p
}

func TestC14Stops(t *testing.T) {
	r := kit.Begin("C14", "TestC14Stops")
	defer r.Flush()
	kit.CheckRun(t, r, c14StopGen, c14Exec(t, r))
}
