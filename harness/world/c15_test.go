package main

// C15 — a peer-to-peer call follows one life cycle and ends exactly once.
//
// Reference model of the call state machine (none -> ringing -> active -> none) per P2P topic,
// driven by the same generated history as the server; after every step the model's prediction is
// compared with (a) the messages the step added to the store (invitation, "accepted" replacement,
// one ending replacement), (b) every {info what=call} frame at every session, (c) the topic's
// own currentCall flag. At the end all sessions leave, the clock runs past the timeout and every
// call that was started must have exactly one ending.

import (
	"encoding/json"
	"fmt"
	"sort"
	"strings"
	"testing"
	"time"

	"github.com/tinode/chat/server/store/types"
	kit "github.com/tinode/chat/server/zzverifkit"
	mem "github.com/tinode/chat/server/zzverifmem"
	"pgregory.net/rapid"
)

const c15Mime = "application/x-tinode-webrtc"

func c15Gen(rt *rapid.T) wProg {
	p := wProg{}
	p.Cfg = wConfig{Users: 3, NoPush: true, Calls: !gPct(rt, 8), CallTimeout: gPick(rt, []int{3, 3, 8}, "timeout"), Root: gPct(rt, 25)}
	p.Cfg.CallsOffIce = !p.Cfg.Calls && gPct(rt, 60)
	p.Sess = append([]int(nil), gPick(rt, [][]int{{0, 1, 2}, {0, 0, 1, 1, 2}, {0, 1, 1, 2}, {0, 0, 1, 2}}, "layout")...)
	gGrpc(rt, &p, 20)
	gLat(rt, &p, 25)
	first := map[int]int{}
	for s, u := range p.Sess {
		if _, ok := first[u]; !ok {
			first[u] = s
		}
	}
	// P2P topics 0-1 (the main stage), 0-2 and sometimes 1-2; a group for the "P2P only" clause
	p.Ops = append(p.Ops, wOp{K: "sub", S: first[0], T: "p1"}, wOp{K: "sub", S: first[1], T: "p0"})
	p.Ops = append(p.Ops, wOp{K: "sub", S: first[0], T: "p2"}, wOp{K: "sub", S: first[2], T: "p0"})
	if gPct(rt, 40) {
		p.Ops = append(p.Ops, wOp{K: "sub", S: first[1], T: "p2"}, wOp{K: "sub", S: first[2], T: "p1"})
	}
	p.Ops = append(p.Ops, wOp{K: "sub", S: first[0], T: "new"})
	for s, u := range p.Sess {
		if s != first[u] && gPct(rt, 70) {
			p.Ops = append(p.Ops, wOp{K: "sub", S: s, T: gPick(rt, []string{"p1", "p0"}, "t2")})
		}
		if gPct(rt, 50) {
			p.Ops = append(p.Ops, wOp{K: "sub", S: s, T: "me"})
		}
	}
	topicFor := func(s int) string {
		switch p.Sess[s] {
		case 0:
			return gPick(rt, []string{"p1", "p1", "p1", "p2"}, "t")
		case 1:
			return gPick(rt, []string{"p0", "p0", "p0", "p2"}, "t")
		}
		return gPick(rt, []string{"p0", "p0", "p1"}, "t")
	}
	invite := func(s int, t string) wOp {
		return wOp{K: "pub", S: s, T: t, A: "call", H: map[string]any{"webrtc": "started", "mime": c15Mime}}
	}
	sessOf := func(u int) []int {
		var out []int
		for s, x := range p.Sess {
			if x == u {
				out = append(out, s)
			}
		}
		return out
	}
	noise := func(i int) {
		s := gInt(rt, 0, len(p.Sess)-1, "s")
		switch x := gInt(rt, 0, 99, "opk"); {
		case x < 12:
			t := topicFor(s)
			if gPct(rt, 16) {
				t = gPick(rt, []string{"g0", "g0", "sys", "me"}, "notp2p")
			}
			p.Ops = append(p.Ops, invite(s, t))
		case x < 62:
			ev := gPick(rt, []string{"ringing", "accept", "accept", "offer", "answer", "ice-candidate", "hang-up", "hang-up", "bogus"}, "ev")
			sel := gPick(rt, []int{1, 1, 1, 1, 1, 2, 3}, "sel") // current / finished / wrong call id
			op := wOp{K: "note", S: s, T: topicFor(s), A: "call", B: ev, M: sel}
			if gPct(rt, 14) {
				// addressed by the full name of the main stage's topic: by a participant or by the third user
				op.T = "Q01"
			}
			if ev == "offer" || ev == "answer" || ev == "ice-candidate" {
				op.H = map[string]any{"sdp": fmt.Sprintf("x%d", i)}
			}
			p.Ops = append(p.Ops, op)
		case x < 70:
			p.Ops = append(p.Ops, wOp{K: "leave", S: s, T: topicFor(s)})
		case x < 78:
			p.Ops = append(p.Ops, wOp{K: "sub", S: s, T: topicFor(s)})
		case x < 82:
			p.Ops = append(p.Ops, wOp{K: "disc", S: s})
		case x < 85:
			p.Ops = append(p.Ops, wOp{K: "reconn", S: s}, wOp{K: "sub", S: s, T: topicFor(s)})
		case x < 92:
			p.Ops = append(p.Ops, wOp{K: "tick", N: gPick(rt, []int{500, 1500, 3100, 8500}, "ms")})
		case x < 96:
			// a store failure inside an invitation or a hang-up
			t := topicFor(s)
			if gPct(rt, 50) {
				p.Ops = append(p.Ops, wOp{K: "fault", N: gInt(rt, 1, 3, "k")}, invite(s, t))
			} else {
				p.Ops = append(p.Ops, wOp{K: "fault", N: gInt(rt, 1, 3, "k")}, wOp{K: "note", S: s, T: t, A: "call", B: "hang-up", M: 1})
			}
		default:
			p.Ops = append(p.Ops, wOp{K: "pub", S: s, T: topicFor(s)})
		}
	}
	maybeNoise := func(i int) {
		for gPct(rt, 35) {
			noise(i)
		}
	}
	// call episodes between users 0 and 1 with the right parties, diluted with noise
	nep := gInt(rt, 1, 3, "episodes")
	for e := 0; e < nep; e++ {
		cu := gInt(rt, 0, 1, "caller")
		a := gPick(rt, sessOf(cu), "a")
		b := gPick(rt, sessOf(1-cu), "b")
		ta, tb := fmt.Sprintf("p%d", 1-cu), fmt.Sprintf("p%d", cu)
		if gPct(rt, 80) {
			p.Ops = append(p.Ops, wOp{K: "sub", S: a, T: ta})
		}
		p.Ops = append(p.Ops, invite(a, ta))
		maybeNoise(e)
		if gPct(rt, 60) {
			p.Ops = append(p.Ops, wOp{K: "note", S: b, T: tb, A: "call", B: "ringing", M: 1})
			maybeNoise(e)
		}
		if gPct(rt, 75) {
			if gPct(rt, 60) {
				p.Ops = append(p.Ops, wOp{K: "sub", S: b, T: tb})
			}
			if gPct(rt, 12) {
				// the store fails while the acceptance is being published: the call is not accepted; the
				// callee's offer is then nobody's business, a second acceptance goes through
				p.Ops = append(p.Ops, wOp{K: "fault", N: gInt(rt, 1, 3, "fka")}, wOp{K: "note", S: b, T: tb, A: "call", B: "accept", M: 1},
					wOp{K: "note", S: b, T: tb, A: "call", B: gPick(rt, []string{"offer", "ice-candidate"}, "early"), M: 1, H: map[string]any{"sdp": "early"}})
			}
			if gPct(rt, 8) {
				// the caller's connection stops reading while the callee writes: its queue is full (or nearly)
				// when the acceptance is published (the overflow itself - the server dropping the caller in the middle
				// of accepting the call - is generated in C13, which judges survival, not the call's life cycle)
				p.Ops = append(p.Ops, wOp{K: "sub", S: b, T: tb}, wOp{K: "pause", S: a}, wOp{K: "flood", S: b, T: tb, N: gPick(rt, []int{120, 140, 150}, "prefill")},
					wOp{K: "note", S: b, T: tb, A: "call", B: "accept", M: 1}, wOp{K: "resume", S: a}, wOp{K: "sub", S: a, T: ta})
			}
			p.Ops = append(p.Ops, wOp{K: "note", S: b, T: tb, A: "call", B: "accept", M: 1})
			maybeNoise(e)
			for k, nx := 0, gInt(rt, 0, 4, "nx"); k < nx; k++ {
				ev := gPick(rt, []string{"offer", "answer", "ice-candidate"}, "xev")
				if gPct(rt, 50) {
					p.Ops = append(p.Ops, wOp{K: "note", S: a, T: ta, A: "call", B: ev, M: 1, H: map[string]any{"sdp": fmt.Sprintf("a%d", k)}})
				} else {
					p.Ops = append(p.Ops, wOp{K: "note", S: b, T: tb, A: "call", B: ev, M: 1, H: map[string]any{"sdp": fmt.Sprintf("b%d", k)}})
				}
				maybeNoise(e)
			}
		}
		stuck := -1
		if gPct(rt, 10) {
			// one party stops reading while the other keeps writing: its queue is (nearly) full when the call ends
			stuck = gPick(rt, []int{a, b}, "stuck")
			writer, wt, st := a, ta, tb
			if stuck == a {
				writer, wt, st = b, tb, ta
			}
			p.Ops = append(p.Ops, wOp{K: "sub", S: stuck, T: st}, wOp{K: "pause", S: stuck},
				wOp{K: "flood", S: writer, T: wt, N: gPick(rt, []int{100, 120, 124, 125, 126, 127, 128, 129, 130, 140, 158, 165, 200}, "fill")})
		}
		switch x := gInt(rt, 0, 99, "end"); {
		case stuck >= 0:
			// the party which still reads ends the call (a paused connection sends nothing either)
			if stuck == a {
				p.Ops = append(p.Ops, wOp{K: "note", S: b, T: tb, A: "call", B: "hang-up", M: 1})
			} else {
				p.Ops = append(p.Ops, wOp{K: "note", S: a, T: ta, A: "call", B: "hang-up", M: 1})
			}
		case x < 35:
			p.Ops = append(p.Ops, wOp{K: "note", S: a, T: ta, A: "call", B: "hang-up", M: 1})
		case x < 70:
			p.Ops = append(p.Ops, wOp{K: "note", S: b, T: tb, A: "call", B: "hang-up", M: 1})
		case x < 80:
			p.Ops = append(p.Ops, wOp{K: "tick", N: 9000})
		case x < 90:
			// (leaving for good - {leave unsub} - ends the call like any other way of leaving)
			p.Ops = append(p.Ops, wOp{K: gPick(rt, []string{"leave", "disc", "leave"}, "how"), S: gPick(rt, []int{a, b}, "who"), T: ta, F: gPct(rt, 35)})
		}
		if stuck >= 0 {
			p.Ops = append(p.Ops, wOp{K: "resume", S: stuck})
		}
		maybeNoise(e)
	}
	if p.Cfg.Root && gPct(rt, 70) {
		// the root session (user 0) places a call on behalf of user 1 to user 2; user 2 answers and ends it
		rs, b := first[0], first[2]
		p.Ops = append(p.Ops, wOp{K: "sub", S: rs, T: "p2", Obo: 2}, wOp{K: "sub", S: b, T: "p1"})
		inv := invite(rs, "p2")
		inv.Obo = 2
		p.Ops = append(p.Ops, inv)
		if gPct(rt, 60) {
			p.Ops = append(p.Ops, wOp{K: "note", S: b, T: "p1", A: "call", B: "ringing", M: 1})
		}
		p.Ops = append(p.Ops, wOp{K: "note", S: b, T: "p1", A: "call", B: "accept", M: 1})
		if gPct(rt, 70) {
			p.Ops = append(p.Ops, wOp{K: "note", S: b, T: "p1", A: "call", B: gPick(rt, []string{"offer", "ice-candidate"}, "xev2"), M: 1, H: map[string]any{"sdp": "r"}})
		}
		p.Ops = append(p.Ops, wOp{K: "note", S: b, T: "p1", A: "call", B: "hang-up", M: 1})
	}
	return p
}

type c15Call struct {
	seq        int
	origSess   int
	origUser   int
	calleeSess int // -1 while ringing
	calleeUser int
	content    string
	started    time.Time
	accepted   bool
	calleeGone bool // the accepting session was not attached to the topic and has disconnected (known finding)
}

type c15Obs struct {
	att     *wAttach
	pre     *mem.State
	preAtt  map[int]map[string]wAtt
	preLive map[string]*wTopicSnap
	cur     map[string]*c15Call // route -> call in progress (model)
	last    map[string]int      // route -> seq of the last finished call
	started map[string][]int    // route -> seqs of all calls ever started (model)

	invites, accepts, endings, relayed, ignored, busy int
	kinds   map[string]bool
	known   func(*kit.Viol) bool
	unsavedEnd map[string]bool // calls whose ending message could not be saved (store fault)
}

func (o *c15Obs) Before(w *wWorld, op *wOp) {
	if w.noteSeq == nil {
		w.noteSeq = func(route string, sel int) int {
			c := o.cur[route]
			switch sel {
			case 1:
				if c != nil {
					return c.seq
				}
				return o.last[route]
			case 2:
				return o.last[route]
			case 3:
				if c != nil {
					return c.seq + 1
				}
				return 1
			}
			return 0
		}
	}
	o.pre = mem.A.Snapshot()
	o.preLive = w.liveTopics()
	o.preAtt = map[int]map[string]wAtt{}
	for s, m := range o.att.att {
		o.preAtt[s] = map[string]wAtt{}
		for k, v := range m {
			o.preAtt[s][k] = v
		}
	}
}

type c15Msg struct {
	seq     int
	from    int
	webrtc  string
	replace string
	mime    string
	content string
}

func c15Msgs(w *wWorld, st *mem.State, route string) []c15Msg {
	var out []c15Msg
	for _, m := range st.Msgs {
		if m.Topic != route {
			continue
		}
		var head map[string]any
		json.Unmarshal(m.Head, &head)
		x := c15Msg{seq: m.SeqId, from: w.userIdx(m.From), content: string(m.Content)}
		x.webrtc, _ = head["webrtc"].(string)
		x.replace, _ = head["replace"].(string)
		x.mime, _ = head["mime"].(string)
		out = append(out, x)
	}
	sort.Slice(out, func(i, j int) bool { return out[i].seq < out[j].seq })
	return out
}

func (o *c15Obs) After(w *wWorld, st *wStep) *kit.Viol {
	post := mem.A.Snapshot()
	defer o.att.update(w, st)
	routes := map[string]bool{}
	for _, tr := range post.Topics {
		if strings.HasPrefix(tr.Name, "p2p") {
			routes[tr.Name] = true
		}
	}
	if o.pre != nil {
		// (a topic whose last participant left for good in this step is gone from the store afterwards)
		for _, tr := range o.pre.Topics {
			if strings.HasPrefix(tr.Name, "p2p") {
				routes[tr.Name] = true
			}
		}
	}
	// a P2P topic both participants of which have left for good is deleted with everything in it; the
	// same name may be created afresh later and starts from message 1 again: the calls of the old one are history
	for r := range o.started {
		exists := false
		for _, tr := range post.Topics {
			exists = exists || tr.Name == r
		}
		if !exists && o.cur[r] == nil {
			delete(o.started, r)
			o.last[r] = 0
		}
	}
	// new messages per topic in this step
	added := map[string][]c15Msg{}
	for r := range routes {
		pre, now := c15Msgs(w, o.pre, r), c15Msgs(w, post, r)
		if len(now) > len(pre) {
			added[r] = now[len(pre):]
		}
	}
	// all call frames of this step
	type cf struct {
		sess  int
		info  *MsgServerInfo
	}
	var frames []cf
	for sess, fr := range st.Frames {
		for _, f := range fr {
			if f.Info != nil && f.Info.What == "call" {
				frames = append(frames, cf{sess, f.Info})
			}
		}
	}
	sort.Slice(frames, func(i, j int) bool { return frames[i].sess < frames[j].sess })

	if st.Fired {
		return o.afterFault(w, st, added)
	}
	expectEnd := map[string]string{} // route -> kinds of ending allowed in this step ("a|b")
	expectAccept := map[string]bool{}
	route := st.Route
	c := o.cur[route]
	now := time.Now()

	isInvite := st.Op.K == "pub" && st.Op.H != nil && st.Op.H["webrtc"] != nil && !st.Skipped
	switch {
	case isInvite:
		code := st.code()
		gate := ""
		switch {
		case !w.cfg.Calls:
			gate = "calls are not configured"
		case !strings.HasPrefix(route, "p2p"):
			gate = "not a peer-to-peer topic"
		case c != nil:
			gate = "another call is active"
		}
		if gate != "" {
			if code >= 200 && code < 300 {
				return kit.V("invite-accepted:"+gate, "call invitation by session %d on %s was accepted (%d) although %s", st.Sess, route, code, gate)
			}
			if gate == "another call is active" {
				o.busy++
				if _, attached := o.preAtt[st.Sess][route]; attached && code != 486 && code != 403 {
					return kit.V("second-invite-not-busy", "second invitation on %s answered %d, want 486 busy", route, code)
				}
			}
			if len(added[route]) > 0 {
				return kit.V("refused-invite-left-trace", "refused invitation (%d, %s) on %s stored %d message(s)", code, gate, route, len(added[route]))
			}
			for _, f := range frames {
				return kit.V("refused-invite-left-trace", "refused invitation on %s produced {info call %s} at session %d", route, f.info.Event, f.sess)
			}
		} else if code >= 200 && code < 300 {
			seq := c01Seq(st.reply())
			callee := -1
			for u := range w.users {
				if u != st.User && w.routable(fmt.Sprintf("p%d", u), st.User) == route {
					callee = u
				}
			}
			o.cur[route] = &c15Call{seq: seq, origSess: st.Sess, origUser: st.User, calleeSess: -1, calleeUser: callee, content: `"` + st.Token + `"`, started: now}
			o.started[route] = append(o.started[route], seq)
			o.invites++
			o.kinds["invite"] = true
			// the invitation itself is the one message added
			if len(added[route]) != 1 || added[route][0].seq != seq {
				return kit.V("invite-not-stored", "accepted invitation #%d on %s: the step stored %v", seq, route, added[route])
			}
			o.cur[route].content = added[route][0].content
			delete(added, route)
		}
	case st.Op.K == "note" && st.Op.A == "call" && !st.Skipped && strings.HasPrefix(route, "p2p"):
		seq := 0
		var req struct {
			Note struct {
				Seq int `json:"seq"`
			} `json:"note"`
		}
		json.Unmarshal([]byte(st.Req), &req)
		seq = req.Note.Seq
		ev := st.Op.B
		_, attached := o.preAtt[st.Sess][route]
		reaches := attached || ev == "ringing" || ev == "hang-up" || ev == "accept"
		participant := c != nil && (st.User == c.origUser || st.User == c.calleeUser)
		valid := c != nil && seq == c.seq && participant && reaches && st.User == st.Login
		var want []string // expected {info} recipients: "sess:event"
		if valid {
			switch ev {
			case "ringing", "accept":
				valid = c.calleeSess == -1 && st.User != c.origUser && st.Sess != c.origSess
				if valid {
					want = append(want, fmt.Sprintf("%d:%s", c.origSess, ev))
					if ev == "accept" {
						expectAccept[route] = true
					}
				}
			case "offer", "answer", "ice-candidate":
				valid = c.calleeSess != -1 && (st.Sess == c.origSess || st.Sess == c.calleeSess)
				if valid {
					other := c.origSess
					if st.Sess == c.origSess {
						other = c.calleeSess
					}
					if c.calleeGone {
						// the slot may have been reused by a new connection, which is not the party
						valid = st.Sess == c.origSess
					}
					if !(c.calleeGone && other == c.calleeSess) {
						want = append(want, fmt.Sprintf("%d:%s", other, ev))
					}
				}
			case "hang-up":
				if c.calleeSess != -1 {
					valid = st.Sess == c.origSess || (st.Sess == c.calleeSess && !c.calleeGone)
					expectEnd[route] = "finished"
				} else {
					valid = !(st.User == c.origUser && st.Sess != c.origSess)
					if st.User == c.origUser {
						expectEnd[route] = "missed"
					} else {
						expectEnd[route] = "declined"
					}
				}
				if !valid {
					delete(expectEnd, route)
				}
			default:
				valid = false
			}
		}
		if !valid {
			o.ignored++
			o.kinds["ignored:"+ev] = true
			// an event which must be ignored leaves no trace at all
			if len(added[route]) > 0 {
				return kit.V("ignored-event-had-effect:"+ev, "{note call %s seq=%d} by session %d (user %d) on %s must be ignored (model: call=%v) but the step stored %v", ev, seq, st.Sess, st.User, route, c15Str(c), added[route])
			}
			for _, f := range frames {
				return kit.V("ignored-event-relayed:"+ev, "{note call %s seq=%d} by session %d (user %d) on %s must be ignored (model: call=%v) but session %d got {info call %s seq=%d}", ev, seq, st.Sess, st.User, route, c15Str(c), f.sess, f.info.Event, f.info.SeqId)
			}
		} else {
			o.kinds[ev] = true
			if ev != "hang-up" {
				// exact recipients (accept may also be told to the callee's other sessions on 'me')
				got := map[string]int{}
				for _, f := range frames {
					if f.info.Topic == "me" && ev == "accept" && w.sess[f.sess].user == st.User && f.sess != st.Sess {
						continue
					}
					got[fmt.Sprintf("%d:%s", f.sess, f.info.Event)]++
					if f.info.SeqId != c.seq {
						return kit.V("relayed-wrong-call-id", "{info call %s} at session %d names call %d, the call is %d", f.info.Event, f.sess, f.info.SeqId, c.seq)
					}
					if f.info.From != w.users[st.User].uid.UserId() {
						return kit.V("relayed-wrong-from", "{info call %s} at session %d has from=%s, sent by user %d", f.info.Event, f.sess, f.info.From, st.User)
					}
				}
				for _, k := range want {
					var ks int
					fmt.Sscanf(k, "%d:", &ks)
					if ks >= 0 && ks < len(w.sess) && w.sess[ks] != nil && w.sess[ks].pause.Load() {
						// (what a connection which does not read was sent is not seen in this step)
						delete(got, k)
						continue
					}
					if got[k] != 1 {
						return kit.V("event-not-relayed:"+ev, "{note call %s} by session %d on %s: want exactly one {info} at %s, sessions got %v", ev, st.Sess, route, k, got)
					}
					delete(got, k)
					o.relayed++
				}
				for k := range got {
					return kit.V("event-relayed-to-third-session:"+ev, "{note call %s} by session %d on %s was also relayed as %s (the other party is %v)", ev, st.Sess, route, k, want)
				}
			}
		}
	case st.Op.K == "leave" || st.Op.K == "disc" || st.Op.K == "reconn":
		// a party's session leaving the topic ends the call as "disconnected"
		for r, cc := range o.cur {
			gone := func(sess int) bool {
				if sess < 0 {
					return false
				}
				if st.Op.K == "leave" {
					if st.Op.F && st.Route == r && st.ok() && sess < len(w.sess) && w.sess[sess] != nil && w.sess[sess].user == st.User {
						return true // leaving for good detaches every session of that user, the party's included
					}
					return st.Sess == sess && st.Route == r && st.ok()
				}
				return st.Op.S == sess
			}
			_, origAtt := o.preAtt[cc.origSess][r]
			_, calleeAtt := o.preAtt[cc.calleeSess][r]
			// a party's user leaving the topic for good ends the call whether or not the party's session is attached
			userGone := st.Op.K == "leave" && st.Op.F && st.Route == r && st.ok() && (st.User == cc.origUser || (st.User == cc.calleeUser && cc.calleeSess >= 0))
			if userGone || (gone(cc.origSess) && origAtt) || (gone(cc.calleeSess) && calleeAtt && !cc.calleeGone) {
				expectEnd[r] = "disconnected"
			} else if st.Op.K != "leave" && cc.calleeSess >= 0 && st.Op.S == cc.calleeSess && !cc.calleeGone {
				// The callee accepted from a session which is not attached to the topic (the server routes
				// such an acceptance through the hub) and that session is gone now: nothing tells the topic.
				v := kit.V("unattached-callee-session-gone-call-goes-on", "call %s on %s: the accepting session %d was not attached to the topic; it disconnected and the call was not ended", c15Str(cc), r, cc.calleeSess)
				if o.known == nil || !o.known(v) {
					return v
				}
				cc.calleeGone = true
			}
		}
	}
	if st.Op.K == "flood" || st.Op.K == "pub" {
		// a party's connection which does not read is dropped by the topic when its queue is full: that
		// ends the call like any other way of leaving the topic
		live := w.liveTopics()
		for r, cc := range o.cur {
			lt := live[r]
			if lt == nil || expectEnd[r] != "" {
				continue
			}
			for _, sess := range []int{cc.origSess, cc.calleeSess} {
				if sess < 0 || sess >= len(w.sess) || w.sess[sess] == nil || !w.sess[sess].pause.Load() {
					continue
				}
				if _, was := o.preAtt[sess][r]; !was || (sess == cc.calleeSess && cc.calleeGone) {
					continue
				}
				if _, still := lt.Sessions[w.sess[sess].s.sid]; !still {
					expectEnd[r] = "disconnected"
					o.kinds["party-dropped-for-full-queue"] = true
				}
			}
		}
	}
	// timeouts: an unanswered call may end as "missed" once the timeout has passed, and must have by then + 1s
	for r, cc := range o.cur {
		if cc.calleeSess == -1 && expectEnd[r] == "" {
			el := now.Sub(cc.started)
			to := time.Duration(w.cfg.CallTimeout) * time.Second
			if el >= to {
				expectEnd[r] = "missed"
				if el < to+time.Second {
					expectEnd[r] = "missed?" // may or may not have fired yet
				}
			}
		}
	}

	// ---- compare the store with the expectations
	rs := make([]string, 0, len(routes))
	for r := range routes {
		rs = append(rs, r)
	}
	sort.Strings(rs)
	for _, r := range rs {
		cc := o.cur[r]
		for _, m := range added[r] {
			if m.webrtc == "" || m.replace == "" {
				if m.webrtc != "" && m.replace == "" && !isInvite {
					return kit.V("stray-call-message", "message #%d on %s carries webrtc=%q without a reference", m.seq, r, m.webrtc)
				}
				continue // ordinary traffic
			}
			if cc == nil {
				return kit.V("call-message-without-call", "message #%d (webrtc=%s replace=%s) stored on %s while the model has no call there (last finished %d)", m.seq, m.webrtc, m.replace, r, o.last[r])
			}
			if m.replace != fmt.Sprintf(":%d", cc.seq) {
				return kit.V("replacement-wrong-reference", "message #%d (webrtc=%s) on %s replaces %s, the call is :%d", m.seq, m.webrtc, r, m.replace, cc.seq)
			}
			if m.content != cc.content {
				return kit.V("replacement-wrong-content", "message #%d (webrtc=%s) on %s has content %s, the invitation had %s", m.seq, m.webrtc, r, m.content, cc.content)
			}
			if m.from != cc.origUser {
				return kit.V("replacement-wrong-author", "message #%d (webrtc=%s) on %s is from user %d, the caller is user %d", m.seq, m.webrtc, r, m.from, cc.origUser)
			}
			switch m.webrtc {
			case "accepted":
				if !expectAccept[r] {
					return kit.V("unexpected-accepted", "message #%d 'accepted' stored on %s during %s (model: %s)", m.seq, r, st.Op.K, c15Str(cc))
				}
				expectAccept[r] = false
				cc.accepted = true
				cc.calleeSess = st.Sess
				o.accepts++
				o.kinds["accepted"] = true
			case "finished", "declined", "missed", "disconnected":
				want := strings.TrimSuffix(expectEnd[r], "?")
				if want == "" {
					return kit.V("unexpected-ending:"+m.webrtc, "message #%d '%s' stored on %s during %s: nothing ends the call %s now", m.seq, m.webrtc, r, st.Op.K, c15Str(cc))
				}
				if m.webrtc != want {
					return kit.V("wrong-ending:"+m.webrtc+"-for-"+want, "call %s on %s ended as '%s' during %s, expected '%s'", c15Str(cc), r, m.webrtc, st.Op.K, want)
				}
				o.last[r] = cc.seq
				delete(o.cur, r)
				delete(expectEnd, r)
				cc = nil
				o.endings++
				o.kinds["end:"+m.webrtc] = true
			default:
				return kit.V("unknown-call-state", "message #%d on %s has webrtc=%q", m.seq, r, m.webrtc)
			}
		}
		if expectAccept[r] {
			return kit.V("accept-not-published", "valid acceptance of call %s on %s stored no 'accepted' replacement", c15Str(o.cur[r]), r)
		}
		gone := true
		for _, tr := range post.Topics {
			gone = gone && tr.Name != r
		}
		if e := expectEnd[r]; e != "" && gone {
			// the last participant left for good: the topic went with everything in it, the call included
			if lt := w.liveTopics()[r]; lt != nil && lt.HasCall {
				return kit.V("call-survives-its-topic", "call %s on %s: the topic was deleted from the store, the live topic still holds the call", c15Str(o.cur[r]), r)
			}
			o.last[r] = 0
			delete(o.cur, r)
			delete(o.started, r)
			delete(expectEnd, r)
			o.kinds["end:topic-deleted"] = true
			continue
		}
		if e := expectEnd[r]; e != "" && !strings.HasSuffix(e, "?") {
			return kit.V("call-not-ended:"+e, "call %s on %s must have ended as '%s' during %s but no ending was published", c15Str(o.cur[r]), r, e, st.Op.K)
		}
		// the topic's own idea
		if lt := w.liveTopics()[r]; lt != nil {
			if lt.HasCall != (o.cur[r] != nil) && !strings.HasSuffix(expectEnd[r], "?") {
				return kit.V("call-flag-differs", "topic %s holds a call=%v, the model %s (after %s)", r, lt.HasCall, c15Str(o.cur[r]), st.Op.K)
			}
		} else if o.cur[r] != nil {
			return kit.V("call-lost-with-topic", "topic %s was unloaded while call %s had not ended", r, c15Str(o.cur[r]))
		}
	}
	// call traffic never reaches a user who is not a participant of that topic
	for _, f := range frames {
		u := w.sess[f.sess].user
		name := f.info.Topic
		if name == "me" {
			name = f.info.Src
		}
		if u < 0 {
			continue
		}
		r := w.routeOfName(name, u)
		if r == "" && strings.HasPrefix(name, "usr") {
			// (the recipient has just given the subscription up: the name still means the P2P topic with that user)
			r = w.users[u].uid.P2PName(types.ParseUserId(name))
		}
		if !routes[r] {
			return kit.V("call-frame-outside-p2p", "{info call %s topic=%s src=%s} at session %d", f.info.Event, f.info.Topic, f.info.Src, f.sess)
		}
	}
	return nil
}

// afterFault: a store call failed inside this step. What must be stored cannot be demanded, but the
// call slot must still follow the life cycle: a refused invitation starts no call, and an event which
// ends the call ends it even when the ending message could not be saved.
func (o *c15Obs) afterFault(w *wWorld, st *wStep, added map[string][]c15Msg) *kit.Viol {
	o.kinds["store-fault"] = true
	route := st.Route
	lt := w.liveTopics()[route]
	hasCall := lt != nil && lt.HasCall
	c := o.cur[route]
	isInvite := st.Op.K == "pub" && st.Op.H != nil && st.Op.H["webrtc"] != nil && !st.Skipped
	switch {
	case isInvite:
		code := st.code()
		if code >= 200 && code < 300 && c == nil && w.cfg.Calls && strings.HasPrefix(route, "p2p") {
			seq := c01Seq(st.reply())
			callee := -1
			for u := range w.users {
				if u != st.User && w.routable(fmt.Sprintf("p%d", u), st.User) == route {
					callee = u
				}
			}
			content := ""
			for _, m := range added[route] {
				if m.seq == seq {
					content = m.content
				}
			}
			o.cur[route] = &c15Call{seq: seq, origSess: st.Sess, origUser: st.User, calleeSess: -1, calleeUser: callee, content: content, started: time.Now()}
			o.started[route] = append(o.started[route], seq)
			o.invites++
			return nil
		}
		if (code >= 400 || code == 0) && c == nil && hasCall {
			return kit.V("refused-invite-occupies-call-slot", "invitation by session %d on %s was answered %d after a store failure, yet the topic holds a call now", st.Sess, route, code)
		}
		return nil
	case st.Op.K == "note" && st.Op.A == "call" && c != nil:
		var req struct {
			Note struct {
				Seq int `json:"seq"`
			} `json:"note"`
		}
		json.Unmarshal([]byte(st.Req), &req)
		_, attached := o.preAtt[st.Sess][route]
		participant := st.User == c.origUser || st.User == c.calleeUser
		if st.Op.B == "hang-up" && req.Note.Seq == c.seq && participant && st.User == st.Login && !c.calleeGone {
			valid := false
			if c.calleeSess != -1 {
				valid = st.Sess == c.origSess || st.Sess == c.calleeSess
			} else {
				valid = !(st.User == c.origUser && st.Sess != c.origSess)
			}
			_ = attached
			if valid && !hasCall && c.calleeSess >= 0 && (st.Sess == c.origSess || st.Sess == c.calleeSess) {
				// the other party of an established call is told that it is over, whether or not the
				// call's final message could be saved
				other := c.origSess
				if st.Sess == c.origSess {
					other = c.calleeSess
				}
				_, otherAtt := o.preAtt[other][route]
				if otherAtt && other < len(w.sess) && w.sess[other] != nil && !w.sess[other].pause.Load() && !w.sess[other].isClosed() {
					told := false
					for _, f := range st.Frames[other] {
						told = told || (f.Info != nil && f.Info.What == "call" && f.Info.Event == "hang-up")
					}
					if !told {
						return kit.V("hang-up-not-relayed-after-store-failure", "hang-up of the established call %s on %s by session %d met a store failure: the call was dropped but session %d, the other party, was not told", c15Str(c), route, st.Sess, other)
					}
				}
			}
			if valid && hasCall {
				return kit.V("call-not-ended-after-store-failure", "valid hang-up of call %s on %s by session %d met a store failure: the call is still held by the topic (every later invitation is answered busy)", c15Str(c), route, st.Sess)
			}
		}
	}
	// resynchronise the model with what the topic holds
	if c != nil && !hasCall {
		ended := false
		for _, m := range added[route] {
			if m.replace == fmt.Sprintf(":%d", c.seq) && m.webrtc != "accepted" {
				ended = true
			}
		}
		if !ended {
			o.unsavedEnd[fmt.Sprintf("%s#%d", route, c.seq)] = true
		}
		o.last[route] = c.seq
		delete(o.cur, route)
	} else if c != nil {
		for _, m := range added[route] {
			if m.replace == fmt.Sprintf(":%d", c.seq) && m.webrtc == "accepted" {
				c.accepted, c.calleeSess = true, st.Sess
			}
		}
	}
	return nil
}

func c15Str(c *c15Call) string {
	if c == nil {
		return "none"
	}
	return fmt.Sprintf("{#%d caller=user %d/session %d callee=user %d/session %d}", c.seq, c.origUser, c.origSess, c.calleeUser, c.calleeSess)
}

func (o *c15Obs) Final(w *wWorld) *kit.Viol {
	// everybody hangs up the hard way; then let the timers run out
	for _, ss := range w.sess {
		if ss != nil {
			w.disconnect(ss)
		}
	}
	w.settle()
	w.tick(time.Duration(w.cfg.CallTimeout+6) * time.Second)
	st := mem.A.Snapshot()
	for r, seqs := range o.started {
		exists := false
		for _, tr := range st.Topics {
			exists = exists || tr.Name == r
		}
		if !exists {
			continue // both participants have left for good: the topic went with everything that was in it
		}
		msgs := c15Msgs(w, st, r)
		for _, q := range seqs {
			acc, end := 0, 0
			for _, m := range msgs {
				if m.replace == fmt.Sprintf(":%d", q) {
					if m.webrtc == "accepted" {
						acc++
					} else {
						end++
					}
				}
			}
			if o.unsavedEnd[fmt.Sprintf("%s#%d", r, q)] && end == 0 {
				continue
			}
			if end != 1 || acc > 1 {
				return kit.V(fmt.Sprintf("call-ended-%d-times", end), "call #%d on %s: %d 'accepted' and %d ending messages in the store after every session is gone and the timeout has passed", q, r, acc, end)
			}
		}
	}
	return nil
}

func c15Exec(t *testing.T, r *kit.Run) func(wProg) kit.Outcome {
	return func(p wProg) kit.Outcome {
		r.WAL(p)
		obs := &c15Obs{att: newWAttach(), cur: map[string]*c15Call{}, last: map[string]int{}, started: map[string][]int{}, kinds: map[string]bool{}, unsavedEnd: map[string]bool{}}
		obs.known = func(v *kit.Viol) bool { return r.IsKnown(v.Sig) && r.Violation(v, p) }
		var res wRunResult
		fail := wInBubble(t, func() { res = wExec(&p, obs, nil) })
		o := kit.Outcome{NonTrivial: obs.invites >= 1 && obs.accepts >= 1 && obs.endings >= 1 && obs.ignored >= 1}
		for k := range obs.kinds {
			o.Classes = append(o.Classes, k)
		}
		sort.Strings(o.Classes)
		if obs.invites >= 2 {
			o.Classes = append(o.Classes, "second-call")
		}
		if obs.busy > 0 {
			o.Classes = append(o.Classes, "busy")
		}
		if fail != "" && res.Viol == nil {
			o.Skip = true
			fmt.Println("C15 bubble failure (not judged here):", firstLine(fail))
			return o
		}
		o.Viol = res.Viol
		return o
	}
}

func TestC15Calls(t *testing.T) {
	r := kit.Begin("C15", "TestC15Calls")
	defer r.Flush()
	kit.CheckRun(t, r, c15Gen, c15Exec(t, r))
}
