package code

// C12 (reset-code part) — a password-reset code is accepted at most once and no
// longer after the configured number of wrong guesses; a wrong code never
// authenticates.
//
// The real `code` authenticator runs over the real store.PCache on a tiny fake
// adapter (key/value rows with a creation time, semantics written from the MySQL
// adapter: INSERT fails on a duplicate key, REPLACE refreshes createdat,
// expire = DELETE WHERE key LIKE prefix% AND createdat < t).
//
// Oracle: reference counter model written from the statement. Per credential the
// model keeps the last issued code, the number of wrong guesses since the issue and
// whether the code was already accepted. Every guess is classified by comparing
// strings with the issued code, so any generated guess is judged soundly.
//
// Time is virtual (testing/synctest); GenSecret garbage-collects by time.Now.

import (
	"encoding/json"
	"fmt"
	"sort"
	"strings"
	"sync"
	"testing"
	"testing/synctest"
	"time"

	"github.com/tinode/chat/server/auth"
	adapter "github.com/tinode/chat/server/db"
	"github.com/tinode/chat/server/store"
	"github.com/tinode/chat/server/store/types"
	kit "github.com/tinode/chat/server/zzverifkit"
	"pgregory.net/rapid"
)

// ---- fake adapter: only the persistent cache ----

type c12kv struct {
	value   string
	created time.Time
}

type c12CodeAdp struct {
	adapter.Adapter
	mu   sync.Mutex
	open bool
	kv   map[string]c12kv
}

func (a *c12CodeAdp) Open(json.RawMessage) error { a.open = true; return nil }
func (a *c12CodeAdp) Close() error               { a.open = false; return nil }
func (a *c12CodeAdp) IsOpen() bool               { return a.open }
func (a *c12CodeAdp) GetDbVersion() (int, error) { return 113, nil }
func (a *c12CodeAdp) CheckDbVersion() error      { return nil }
func (a *c12CodeAdp) GetName() string            { return "c12codemem" }
func (a *c12CodeAdp) SetMaxResults(int) error    { return nil }
func (a *c12CodeAdp) Version() int               { return 113 }
func (a *c12CodeAdp) Stats() any                 { return nil }

func (a *c12CodeAdp) PCacheGet(key string) (string, error) {
	a.mu.Lock()
	defer a.mu.Unlock()
	if e, ok := a.kv[key]; ok {
		return e.value, nil
	}
	return "", types.ErrNotFound
}

func (a *c12CodeAdp) PCacheUpsert(key string, value string, failOnDuplicate bool) error {
	if strings.Contains(key, "%") {
		return types.ErrMalformed
	}
	a.mu.Lock()
	defer a.mu.Unlock()
	if _, ok := a.kv[key]; ok && failOnDuplicate {
		return types.ErrDuplicate
	}
	a.kv[key] = c12kv{value: value, created: types.TimeNow()}
	return nil
}

func (a *c12CodeAdp) PCacheDelete(key string) error {
	a.mu.Lock()
	defer a.mu.Unlock()
	delete(a.kv, key)
	return nil
}

func (a *c12CodeAdp) PCacheExpire(keyPrefix string, olderThan time.Time) error {
	if keyPrefix == "" {
		return types.ErrMalformed
	}
	a.mu.Lock()
	defer a.mu.Unlock()
	for k, e := range a.kv {
		if strings.HasPrefix(k, keyPrefix) && e.created.Before(olderThan) {
			delete(a.kv, k)
		}
	}
	return nil
}

var (
	c12CodeStore = &c12CodeAdp{kv: map[string]c12kv{}}
	c12CodeOnce  sync.Once
	c12CodeErr   error
)

func c12CodeBoot() error {
	c12CodeOnce.Do(func() {
		store.RegisterAdapter(c12CodeStore)
		c12CodeErr = store.Store.Open(1, json.RawMessage(`{"uid_key":"la6YsO+bNX/+XIkOqc5Svw==","use_adapter":"c12codemem"}`))
	})
	return c12CodeErr
}

// ---- case ----

type c12CodeOp struct {
	Op   string `json:"op"`   // req | right | wrong | other | sleep | raw
	U    int    `json:"u"`    // user index
	Kind int    `json:"kind"` // wrong-guess flavour
	Pos  int    `json:"pos"`
	D    int    `json:"d"`
	Ms   int64  `json:"ms"`  // sleep
	Raw  string `json:"raw"` // raw secret / random digits
}

type c12CodeCase struct {
	CodeLength int         `json:"code_length"`
	ExpireIn   int         `json:"expire_in"`
	MaxRetries int         `json:"max_retries"`
	Users      []uint64    `json:"users"`
	Ops        []c12CodeOp `json:"ops"`
}

var c12CodeCreds = []string{"email:alice@example.com", "tel:+17025550001", "email:b:ob@example.com", "email:carol%sales@example.com", "tel:+1%2070255_50002"}

func c12CodeGen(rt *rapid.T) c12CodeCase {
	var c c12CodeCase
	c.CodeLength = rapid.IntRange(4, 8).Draw(rt, "code_length")
	c.ExpireIn = rapid.OneOf(rapid.IntRange(1, 5), rapid.IntRange(30, 3600)).Draw(rt, "expire_in")
	c.MaxRetries = rapid.IntRange(1, 4).Draw(rt, "max_retries")
	nu := rapid.IntRange(1, 5).Draw(rt, "n_users")
	for i := 0; i < nu; i++ {
		c.Users = append(c.Users, rapid.Uint64Range(1, 1<<63).Draw(rt, "uid")+uint64(i))
	}
	n := rapid.IntRange(2, 24).Draw(rt, "n_ops")
	kinds := []string{"req", "req", "right", "right", "right", "wrong", "wrong", "wrong", "wrong", "other", "sleep", "raw"}
	for i := 0; i < n; i++ {
		op := c12CodeOp{Op: rapid.SampledFrom(kinds).Draw(rt, "op"), U: rapid.IntRange(0, nu-1).Draw(rt, "u")}
		if i == 0 {
			op.Op = "req"
		}
		switch op.Op {
		case "wrong":
			op.Kind = rapid.IntRange(0, 7).Draw(rt, "kind")
			op.Pos = rapid.IntRange(0, 7).Draw(rt, "pos")
			op.D = rapid.IntRange(1, 9).Draw(rt, "d")
			if op.Kind == 7 {
				op.Raw = rapid.StringOfN(rapid.RuneFrom([]rune("0123456789")), c.CodeLength, c.CodeLength, -1).Draw(rt, "digits")
			}
		case "sleep":
			op.Ms = rapid.OneOf(rapid.Int64Range(1, 2000), rapid.Int64Range(1, int64(c.ExpireIn)*2000)).Draw(rt, "ms")
		case "raw":
			op.Raw = rapid.SampledFrom([]string{"", ":", "123456", "::", "123456:", ":email:alice@example.com", "0000:nobody:nowhere", "%:%"}).Draw(rt, "raw")
		}
		c.Ops = append(c.Ops, op)
	}
	return c
}

// model entry for one credential
type c12CodeEntry struct {
	code     string
	uid      uint64
	issuedAt time.Time
	wrong    int
	used     bool
}

func c12CodeExec(t *testing.T, c c12CodeCase) (out kit.Outcome) {
	if err := c12CodeBoot(); err != nil {
		t.Fatalf("cannot open the store on the fake adapter: %v", err)
	}
	done := false
	synctest.Test(t, func(t *testing.T) {
		defer func() {
			if r := recover(); r != nil {
				out.Viol = kit.V("panic", "panic in the code authenticator: %v", r)
			}
			done = true
		}()
		out = c12CodeRun(c)
	})
	if !done && out.Viol == nil {
		out.Skip = true
	}
	return out
}

func c12CodeRun(c c12CodeCase) (o kit.Outcome) {
	cls := map[string]bool{}
	defer func() {
		ks := make([]string, 0, len(cls))
		for k := range cls {
			ks = append(ks, k)
		}
		sort.Strings(ks)
		o.Classes = ks
	}()
	if len(c.Users) == 0 || len(c.Users) > len(c12CodeCreds) {
		o.Skip = true
		return o
	}
	c12CodeStore.mu.Lock()
	c12CodeStore.kv = map[string]c12kv{}
	c12CodeStore.mu.Unlock()

	conf, _ := json.Marshal(map[string]int{"code_length": c.CodeLength, "expire_in": c.ExpireIn, "max_retries": c.MaxRetries})
	ca := &authenticator{}
	if err := ca.Init(conf, "code"); err != nil {
		o.Skip = true
		cls["init-refused"] = true
		return o
	}
	lifetime := time.Duration(c.ExpireIn) * time.Second
	model := map[string]*c12CodeEntry{} // by credential
	accepted, refusedDerived := 0, 0

	// guess presents code:cred and judges the answer with the model.
	guess := func(step int, code, cred string) *kit.Viol {
		rec, chal, err := ca.Authenticate([]byte(code+":"+cred), "")
		ok := err == nil
		if ok && (rec == nil || chal != nil) {
			return kit.V("accepted-without-record", "step %d: Authenticate(%q) returned no error but rec=%v challenge=%q", step, code+":"+cred, rec, chal)
		}
		e := model[cred]
		if e == nil {
			if ok {
				return kit.V("accepted:never-issued", "step %d: code %q accepted for credential %q which never had a code issued (uid %d)", step, code, cred, uint64(rec.Uid))
			}
			cls["guess:no-code-issued:refused"] = true
			return nil
		}
		if code != e.code {
			if ok {
				return kit.V("accepted:wrong-code", "step %d: wrong code %q accepted for %q (issued %q)", step, code, cred, e.code)
			}
			e.wrong++
			cls["guess:wrong:refused"] = true
			refusedDerived++
			return nil
		}
		// the right code
		expired := time.Since(e.issuedAt) > lifetime
		switch {
		case e.used:
			if ok {
				return kit.V("accepted:twice", "step %d: code %q for %q accepted a second time", step, code, cred)
			}
			cls["guess:right-again:refused"] = true
			refusedDerived++
		case e.wrong >= c.MaxRetries:
			if ok {
				return kit.V("accepted:after-max-retries", "step %d: code %q for %q accepted after %d wrong guesses, max_retries=%d", step, code, cred, e.wrong, c.MaxRetries)
			}
			cls["guess:right-after-max-retries:refused"] = true
			refusedDerived++
		case expired:
			// expire_in is not part of the statement: both answers are allowed.
			if ok {
				cls["guess:right-after-expire_in:accepted(unspecified)"] = true
				e.used = true
			} else {
				cls["guess:right-after-expire_in:refused(unspecified)"] = true
			}
		default:
			if !ok {
				return kit.V("refused:right-code", "step %d: right code %q for %q refused after %d wrong guesses (max_retries=%d), %v after the request (expire_in=%v): %v",
					step, code, cred, e.wrong, c.MaxRetries, time.Since(e.issuedAt), lifetime, err)
			}
			e.used = true
			accepted++
			cls["guess:right:accepted"] = true
			if e.wrong > 0 {
				cls["guess:right-after-some-wrong:accepted"] = true
			}
		}
		if ok {
			if uint64(rec.Uid) != e.uid {
				return kit.V("accepted:wrong-user", "step %d: code for %q authenticated uid %d, issued for uid %d", step, cred, uint64(rec.Uid), e.uid)
			}
			if rec.Credential != cred {
				return kit.V("accepted:wrong-credential", "step %d: code for %q authenticated credential %q", step, cred, rec.Credential)
			}
		}
		return nil
	}

	for step, op := range c.Ops {
		u := ((op.U % len(c.Users)) + len(c.Users)) % len(c.Users)
		cred := c12CodeCreds[u]
		e := model[cred]
		switch op.Op {
		case "req":
			now := time.Now()
			secret, _, err := ca.GenSecret(&auth.Rec{Uid: types.Uid(c.Users[u]), AuthLevel: auth.LevelAuth, Features: auth.FeatureNoLogin, Credential: cred})
			if err != nil {
				if e == nil {
					o.Viol = kit.V("request-refused", "step %d: first reset request for %q failed: %v", step, cred, err)
					return o
				}
				cls["req:refused-while-pending"] = true
				continue
			}
			code := string(secret)
			if len(code) != c.CodeLength || strings.Trim(code, "0123456789") != "" {
				o.Viol = kit.V("code-format", "step %d: issued code %q is not %d digits", step, code, c.CodeLength)
				return o
			}
			if e != nil {
				cls["req:reissued"] = true
			}
			model[cred] = &c12CodeEntry{code: code, uid: c.Users[u], issuedAt: now}
			cls["req:issued"] = true
		case "right":
			code := "000000"
			if e != nil {
				code = e.code
			}
			if o.Viol = guess(step, code, cred); o.Viol != nil {
				return o
			}
		case "wrong":
			base := "1234"
			if e != nil {
				base = e.code
			}
			var g string
			p := ((op.Pos % len(base)) + len(base)) % len(base)
			switch ((op.Kind % 8) + 8) % 8 {
			case 0, 1: // one digit changed
				d := (int(base[p]-'0') + 1 + ((op.D-1)%9+9)%9) % 10
				g = base[:p] + string(rune('0'+d)) + base[p+1:]
			case 2:
				g = base + string(rune('0'+((op.D%10)+10)%10))
			case 3:
				g = base[:len(base)-1]
			case 4:
				g = ""
			case 5:
				g = base + " "
			case 6:
				g = strings.TrimLeft(base, "0")
				if g == base {
					g = "0" + base
				}
			default:
				g = op.Raw
			}
			if o.Viol = guess(step, g, cred); o.Viol != nil {
				return o
			}
		case "other": // another user's code for this credential
			ou := (u + 1) % len(c.Users)
			if oe := model[c12CodeCreds[ou]]; oe != nil {
				if o.Viol = guess(step, oe.code, cred); o.Viol != nil {
					return o
				}
				cls["guess:other-users-code"] = true
			}
		case "sleep":
			if op.Ms > 0 {
				time.Sleep(time.Duration(op.Ms) * time.Millisecond)
			}
		case "raw":
			// arbitrary secret text; when it has the form <code>:<credential> it is a guess
			// like any other (and counts as one), otherwise it must simply be refused
			if i := strings.IndexByte(op.Raw, ':'); i >= 0 {
				if o.Viol = guess(step, op.Raw[:i], op.Raw[i+1:]); o.Viol != nil {
					return o
				}
			} else if rec, _, err := ca.Authenticate([]byte(op.Raw), ""); err == nil {
				o.Viol = kit.V("accepted:malformed-secret", "step %d: Authenticate(%q) succeeded: uid %d", step, op.Raw, uint64(rec.Uid))
				return o
			}
			cls["raw:refused"] = true
		default:
			o.Skip = true
			cls["unknown-op:"+fmt.Sprint(op.Op)] = true
			return o
		}
	}
	o.NonTrivial = accepted > 0 && refusedDerived > 0
	return o
}

func TestC12Code(t *testing.T) {
	kit.Check(t, "C12", "TestC12Code", c12CodeGen, func(c c12CodeCase) kit.Outcome { return c12CodeExec(t, c) })
}
