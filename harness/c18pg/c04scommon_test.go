//go:build mysql || postgres
// +build mysql postgres

package postgres

// C04 — history and deletion ranges, judged on the SQL the MySQL / PostgreSQL adapters emit.
//
// THIS FILE IS SHARED: harness/c18mysql/c04scommon_test.go is the source of truth,
// harness/c18pg/c04scommon_test.go is the same text with the package clause changed
// (sed 's/^package mysql$/package postgres/'), like c18common_test.go.
//
// No DBMS is available, so the adapters run against the fake wire servers of the C18 harness
// (c18StartServer: every statement the adapter sends is recorded with its text). One case =
// one adapter call (MessageDeleteList hard/soft, MessageGetAll, MessageGetDeleted) on a fresh
// fake server without any fault. The oracle then EVALUATES the statements: a small evaluator
// (c04sSelects) decides for every message id of a small domain whether the WHERE clause of a
// statement selects it (seqid BETWEEN a AND b / IN (...) / = >= > < <= with integer literals,
// joined by AND), and the selected set is compared with the set the statement of C04 demands:
//
//	hard delete   UPDATE messages SET deletedat..,delid..  selects exactly the union of [low,hi)
//	              (hi=0: {low}); the DELETE on filemsglinks likewise when it names seqid
//	any delete    the INSERT INTO dellog rows (low,hi), read as half-open [low,hi), cover exactly
//	              that union
//	history       SELECT .. FROM messages selects exactly since <= id < before (0 = absent);
//	              LIMIT = min(opt, adapter maximum)
//	deletion log  SELECT .. FROM dellog selects exactly since <= delid < before
//
// A seqid predicate the evaluator does not understand is reported as class
// "predicate-not-understood" (never a violation, never non-trivial).
//
// The two queries are in addition judged ROW BY ROW (row evaluator, c04sSelectRows: comparisons,
// BETWEEN, IN, IS [NOT] NULL, AND / OR / NOT with SQL's precedence and three-valued logic,
// parentheses, aliases resolved through the FROM clause): the whole WHERE clause is evaluated on a
// synthetic table and the selected rows are compared with the rows C04 demands.
//
//	deletion log  dellog rows {queried topic, another topic} x {deletedfor 0, the querying user's
//	              number (store.DecodeUid), another user's} x delid (c04sDomain); demanded: queried
//	              topic AND deletedfor in {0, user} AND since <= delid < before
//	              sql-dellog-query-other-topic / -other-user / -extra / -missing
//	history       messages rows, as joined with the user's soft deletions (the ON clause itself is not
//	              evaluated): {queried topic, another} x {live: delid=0, deletedat NULL; hard-deleted:
//	              delid=3, deletedat set} x {d.* NULL; d.* = a soft deletion of the user covering the
//	              message} x seqid; demanded: queried topic AND live AND d.* NULL AND since <= seqid < before
//	              sql-history-other-topic / -shows-hard-deleted / -shows-soft-deleted / -extra-ids / -missing-ids
//
// A WHERE clause the row evaluator cannot parse or that names a column the rows do not model is
// class "<op>-rows-not-understood"; the one-column evaluator then still judges it if it can.
//
// Failing statements (c04sFaultSweep): "a delete request ... hides exactly the union" and "the
// deletion log covers exactly the IDs deleted" also speak about a delete that is reported as done
// although one of its statements failed. Every delete case whose fault-free run was judged clean is
// therefore run again once per statement position k of its fault-free trace (BEGIN, PREPARE, every
// dellog INSERT, the DELETE on filemsglinks, the UPDATE on messages, COMMIT), on a fresh server that
// answers statement k with a generic statement error (c18Core.arm(script, k, "err")). Demanded:
//
//	sql-delete-failure-swallowed         MessageDeleteList returns a non-nil error
//	sql-delete-committed-after-failure   no successful COMMIT follows the failed statement on its connection
//
// The sweep of a trace shape (operation + statement classes) that was already swept clean by this
// process with the same number of ranges is not repeated for single-range cases; multi-range cases
// are always swept.
//
// Adapter specific parts (c04s_test.go of each directory): c04sOpenCfg (MySQL: a recording
// proxy in front of the fake server that decodes the binary parameters of COM_STMT_EXECUTE,
// because the dellog INSERT goes through tx.Prepare), c04sDellogTexts.
//
// Development aid: C04S_SHOW=1 prints the statements of every executed case.

import (
	"encoding/json"
	"fmt"
	"os"
	"sort"
	"strconv"
	"strings"
	"sync"
	"testing"
	"time"

	dbi "github.com/tinode/chat/server/db"
	"github.com/tinode/chat/server/store"
	t "github.com/tinode/chat/server/store/types"
	kit "github.com/tinode/chat/server/zzverifkit"
	"pgregory.net/rapid"
)

// ------------------------------------------------------------------ case format

type c04sCase struct {
	Op     string   `json:"op"` // hard | soft | getall | getdel
	Topic  string   `json:"topic"`
	U      uint64   `json:"u"`
	DelId  int      `json:"delId,omitempty"`
	Ranges [][2]int `json:"ranges,omitempty"` // as drawn; sorted + normalised before the call, as the server does
	Since  int      `json:"since,omitempty"`
	Before int      `json:"before,omitempty"`
	Limit  int      `json:"limit,omitempty"`
}

var c04sOptVals = []int{0, 1, 2, 3, 5, 11, 12, 13, 100, 1000}

func c04sGen(rt *rapid.T) c04sCase {
	c := c04sCase{
		Op:    rapid.SampledFrom([]string{"hard", "soft", "getall", "getdel"}).Draw(rt, "op"),
		Topic: rapid.SampledFrom([]string{"grpAbc", "p2pAbcDefGh", "grpZz09"}).Draw(rt, "topic"),
		U:     uint64(rapid.IntRange(1, 9).Draw(rt, "u")),
	}
	switch c.Op {
	case "hard", "soft":
		c.DelId = rapid.IntRange(1, 40).Draw(rt, "delId")
		n := rapid.IntRange(1, 4).Draw(rt, "nranges")
		for i := 0; i < n; i++ {
			lo := rapid.IntRange(1, 12).Draw(rt, "low")
			if rapid.IntRange(0, 2).Draw(rt, "single") == 0 {
				c.Ranges = append(c.Ranges, [2]int{lo, 0})
			} else {
				c.Ranges = append(c.Ranges, [2]int{lo, rapid.IntRange(lo+1, 13).Draw(rt, "hi")})
			}
		}
	default:
		c.Since = rapid.SampledFrom(c04sOptVals).Draw(rt, "since")
		c.Before = rapid.SampledFrom(c04sOptVals).Draw(rt, "before")
		c.Limit = rapid.SampledFrom(c04sOptVals).Draw(rt, "limit")
	}
	return c
}

// c04sNormalized: what the server hands to the adapter (topic.go: sort with RangeSorter, Normalize).
func c04sNormalized(raw [][2]int) []t.Range {
	var rs []t.Range
	for _, r := range raw {
		if r[0] < 1 || (r[1] != 0 && r[1] <= r[0]) {
			continue // replay files only: not a range the server would pass on
		}
		rs = append(rs, t.Range{Low: r[0], Hi: r[1]})
	}
	sort.Sort(t.RangeSorter(rs))
	return []t.Range(t.RangeSorter(rs).Normalize())
}

// ------------------------------------------------------------------ SQL predicate evaluator

type c04sTok struct {
	K byte // w word, n number, o comparison operator, ( ) , s string literal, x anything else
	S string
	Q bool // w only: a quoted identifier (`from`, "from"): never a keyword
}

func c04sLex(sql string) []c04sTok {
	var out []c04sTok
	isW := func(c byte) bool {
		return c == '_' || c == '.' || (c >= '0' && c <= '9') || (c >= 'a' && c <= 'z') || (c >= 'A' && c <= 'Z')
	}
	for i := 0; i < len(sql); {
		c := sql[i]
		switch {
		case c == ' ' || c == '\t' || c == '\n' || c == '\r':
			i++
		case c == '\'':
			// string literal; '' and \' are escapes (PostgreSQL / go-sql-driver interpolation)
			j := i + 1
			for j < len(sql) {
				if sql[j] == '\\' && j+1 < len(sql) {
					j += 2
					continue
				}
				if sql[j] == '\'' {
					if j+1 < len(sql) && sql[j+1] == '\'' {
						j += 2
						continue
					}
					break
				}
				j++
			}
			if j >= len(sql) {
				j = len(sql) - 1
			}
			out = append(out, c04sTok{K: 's', S: sql[i : j+1]})
			i = j + 1
		case c == '`' || c == '"':
			// quoted identifier
			j := strings.IndexByte(sql[i+1:], c)
			if j < 0 {
				out = append(out, c04sTok{K: 'x', S: sql[i:]})
				return out
			}
			out = append(out, c04sTok{K: 'w', S: sql[i+1 : i+1+j], Q: true})
			i += j + 2
		case c >= '0' && c <= '9':
			j := i
			for j < len(sql) && sql[j] >= '0' && sql[j] <= '9' {
				j++
			}
			if j < len(sql) && isW(sql[j]) {
				// 12abc, 1.5, 1e3: not an integer literal
				for j < len(sql) && isW(sql[j]) {
					j++
				}
				out = append(out, c04sTok{K: 'x', S: sql[i:j]})
			} else {
				out = append(out, c04sTok{K: 'n', S: sql[i:j]})
			}
			i = j
		case isW(c):
			j := i
			for j < len(sql) && isW(sql[j]) {
				j++
			}
			out = append(out, c04sTok{K: 'w', S: sql[i:j]})
			i = j
		case c == '(' || c == ')' || c == ',':
			out = append(out, c04sTok{K: c, S: string(c)})
			i++
		case c == '<' || c == '>' || c == '=' || c == '!':
			j := i + 1
			for j < len(sql) && (sql[j] == '<' || sql[j] == '>' || sql[j] == '=') {
				j++
			}
			out = append(out, c04sTok{K: 'o', S: sql[i:j]})
			i = j
		default:
			out = append(out, c04sTok{K: 'x', S: string(c)})
			i++
		}
	}
	return out
}

func (k c04sTok) word(w string) bool { return k.K == 'w' && !k.Q && strings.EqualFold(k.S, w) }

// c04sWhereToks returns the tokens of the (first top-level) WHERE clause, cut at ORDER BY /
// GROUP BY / LIMIT / RETURNING / FOR.
func c04sWhereToks(sql string) ([]c04sTok, bool) {
	toks := c04sLex(sql)
	depth, start := 0, -1
	for i, k := range toks {
		switch {
		case k.K == '(':
			depth++
		case k.K == ')':
			depth--
		case depth == 0 && start < 0 && k.word("WHERE"):
			start = i + 1
		case depth == 0 && start >= 0 && (k.word("ORDER") || k.word("GROUP") || k.word("LIMIT") || k.word("RETURNING") || k.word("FOR") || k.word("HAVING")):
			return toks[start:i], true
		}
	}
	if start < 0 {
		return nil, false
	}
	return toks[start:], true
}

// c04sInt reads an integer literal operand (optionally signed) at toks[i:]; n = tokens used.
func c04sInt(toks []c04sTok, i int) (v, n int, ok bool) {
	neg := false
	j := i
	if j < len(toks) && toks[j].K == 'x' && (toks[j].S == "-" || toks[j].S == "+") {
		neg = toks[j].S == "-"
		j++
	}
	if j >= len(toks) || toks[j].K != 'n' {
		return 0, 0, false
	}
	x, err := strconv.Atoi(toks[j].S)
	if err != nil {
		return 0, 0, false
	}
	if neg {
		x = -x
	}
	return x, j + 1 - i, true
}

type c04sPred struct {
	Kind   string // between | in | cmp
	Op     string
	A, B   int
	List   []int
	Source string
}

func (p c04sPred) sel(id int) bool {
	switch p.Kind {
	case "between": // SQL BETWEEN: both ends inclusive
		return id >= p.A && id <= p.B
	case "in":
		for _, v := range p.List {
			if v == id {
				return true
			}
		}
		return false
	}
	switch p.Op {
	case "=":
		return id == p.A
	case ">=":
		return id >= p.A
	case ">":
		return id > p.A
	case "<":
		return id < p.A
	case "<=":
		return id <= p.A
	}
	return false
}

// c04sPreds extracts the predicates on column col (bare or with a table alias: m.seqid) from the
// WHERE clause of sqlText. known=false: the clause restricts col in a way this evaluator does not
// understand (non-literal operand, OR, NOT, <>, nesting, arithmetic, ...).
func c04sPreds(sqlText, col string) (preds []c04sPred, known bool) {
	toks, ok := c04sWhereToks(sqlText)
	if !ok {
		return nil, true // no WHERE clause at all: nothing restricts the column
	}
	isCol := func(k c04sTok) bool {
		if k.K != 'w' {
			return false
		}
		s := strings.ToLower(k.S)
		return s == col || strings.HasSuffix(s, "."+col)
	}
	// split into conjuncts at depth-0 AND (the AND that belongs to a BETWEEN is not a separator)
	var conj [][]c04sTok
	depth, from, betweens := 0, 0, 0
	for i, k := range toks {
		switch {
		case k.K == '(':
			depth++
		case k.K == ')':
			depth--
		case depth == 0 && k.word("OR"):
			return nil, false
		case depth == 0 && k.word("BETWEEN"):
			betweens++
		case depth == 0 && k.word("AND"):
			if betweens > 0 {
				betweens--
				continue
			}
			conj = append(conj, toks[from:i])
			from = i + 1
		}
	}
	conj = append(conj, toks[from:])
	known = true
	for _, cj := range conj {
		mentions := false
		for _, k := range cj {
			if isCol(k) {
				mentions = true
			}
		}
		if !mentions {
			continue
		}
		var src []string
		for _, k := range cj {
			src = append(src, k.S)
		}
		p := c04sPred{Source: strings.Join(src, " ")}
		good := false
		if isCol(cj[0]) && len(cj) >= 3 {
			switch {
			case cj[1].K == 'o':
				if v, n, ok := c04sInt(cj, 2); ok && 2+n == len(cj) {
					switch cj[1].S {
					case "=", ">=", ">", "<", "<=":
						p.Kind, p.Op, p.A, good = "cmp", cj[1].S, v, true
					}
				}
			case cj[1].word("BETWEEN"):
				if a, n, ok := c04sInt(cj, 2); ok && 2+n < len(cj) && cj[2+n].word("AND") {
					if b, m, ok := c04sInt(cj, 3+n); ok && 3+n+m == len(cj) {
						p.Kind, p.A, p.B, good = "between", a, b, true
					}
				}
			case cj[1].word("IN") && cj[2].K == '(' && cj[len(cj)-1].K == ')':
				i := 3
				good = true
				for i < len(cj)-1 {
					v, n, ok := c04sInt(cj, i)
					if !ok {
						good = false
						break
					}
					p.List = append(p.List, v)
					i += n
					if i < len(cj)-1 {
						if cj[i].K != ',' {
							good = false
							break
						}
						i++
						if i == len(cj)-1 {
							good = false // trailing comma
						}
					}
				}
				if len(p.List) == 0 {
					good = false
				}
				p.Kind = "in"
			}
		}
		if !good {
			return nil, false
		}
		preds = append(preds, p)
	}
	return preds, known
}

// c04sSelectsCol: does the WHERE clause of sqlText select a row whose column col has value id
// (as far as col is concerned)?
func c04sSelectsCol(sqlText, col string, id int) (known bool, selected bool) {
	preds, known := c04sPreds(sqlText, col)
	if !known {
		return false, false
	}
	for _, p := range preds {
		if !p.sel(id) {
			return true, false
		}
	}
	return true, true
}

// c04sSelects evaluates the seqid predicate of a statement for one message id.
func c04sSelects(sqlText string, id int) (known bool, selected bool) {
	return c04sSelectsCol(sqlText, "seqid", id)
}

// c04sLimit reads the literal of a trailing LIMIT clause.
func c04sLimit(sqlText string) (int, bool) {
	toks := c04sLex(sqlText)
	for i := len(toks) - 1; i >= 0; i-- {
		if toks[i].word("LIMIT") {
			if v, n, ok := c04sInt(toks, i+1); ok && i+1+n == len(toks) {
				return v, true
			}
			return 0, false
		}
	}
	return 0, false
}

// c04sInsertRow reads `INSERT INTO tbl(c1,c2,..) VALUES(v1,v2,..)` into a column -> literal map.
func c04sInsertRow(sqlText string) (table string, row map[string]c04sTok, ok bool) {
	toks := c04sLex(sqlText)
	i := 0
	for i < len(toks) && !toks[i].word("INSERT") {
		i++ // "EXECUTE" prefix of the MySQL trace
	}
	if i+3 >= len(toks) || !toks[i+1].word("INTO") || toks[i+2].K != 'w' || toks[i+3].K != '(' {
		return "", nil, false
	}
	table = strings.ToLower(toks[i+2].S)
	i += 4
	var cols []string
	for i < len(toks) && toks[i].K != ')' {
		if toks[i].K == 'w' {
			cols = append(cols, strings.ToLower(toks[i].S))
		} else if toks[i].K != ',' {
			return "", nil, false
		}
		i++
	}
	if i+2 >= len(toks) || !toks[i+1].word("VALUES") || toks[i+2].K != '(' {
		return "", nil, false
	}
	i += 3
	var vals []c04sTok
	for i < len(toks) && toks[i].K != ')' {
		if toks[i].K == ',' {
			i++
			continue
		}
		if v, n, isInt := c04sInt(toks, i); isInt {
			vals = append(vals, c04sTok{K: 'n', S: strconv.Itoa(v)})
			i += n
			continue
		}
		vals = append(vals, toks[i])
		i++
	}
	if i != len(toks)-1 || len(vals) != len(cols) {
		return "", nil, false
	}
	row = map[string]c04sTok{}
	for j, c := range cols {
		row[c] = vals[j]
	}
	return table, row, true
}

// ------------------------------------------------------------------ SQL row evaluator
//
// The evaluator above answers "which values of ONE column pass" and only for a conjunction. The
// row evaluator decides whether the WHERE clause of a SELECT selects a given ROW (column -> value):
// a recursive-descent parser for
//
//	expr    := and { OR and }            and := not { AND not }        not := NOT not | pred
//	pred    := '(' expr ')' | operand cmp operand | operand [NOT] BETWEEN operand AND operand
//	           | operand [NOT] IN '(' operand {',' operand} ')' | operand IS [NOT] NULL
//	operand := column | [+-]integer | 'string' | NULL        cmp := = <> != < <= > >=
//
// with SQL's precedence (NOT > AND > OR) and SQL's three-valued logic (a comparison with NULL is
// UNKNOWN; a row is selected only when the clause is TRUE). Columns may carry an alias prefix and
// quotes (m.seqid, m.`from`, "m"."from"); the prefix is resolved through the FROM clause (table
// [AS alias], joins; the ON conditions are skipped, not evaluated). Numbers compare numerically, also
// when one or both sides are written as strings ('123', PostgreSQL); strings compare for (in)equality
// only. Everything else — arithmetic, functions, casts, subqueries, placeholders, LIKE, a column
// the row does not have, a number against a non-numeric string, strings that differ only in case
// or trailing blanks (collation) — is an error: the statement is "not understood" and not judged.

type c04sVal struct {
	Null bool
	Num  bool
	N    int64
	S    string
}

func c04sNumV(n int64) c04sVal  { return c04sVal{Num: true, N: n} }
func c04sStrV(s string) c04sVal { return c04sVal{S: s} }

var c04sNullV = c04sVal{Null: true}

func (v c04sVal) num() (int64, bool) {
	if v.Null {
		return 0, false
	}
	if v.Num {
		return v.N, true
	}
	n, err := strconv.ParseInt(strings.TrimSpace(v.S), 10, 64)
	return n, err == nil
}

func (v c04sVal) String() string {
	switch {
	case v.Null:
		return "NULL"
	case v.Num:
		return strconv.FormatInt(v.N, 10)
	}
	return "'" + v.S + "'"
}

// c04sRow: "table.column" (lower case; the table's name, not its alias) -> value
type c04sRow map[string]c04sVal

// SQL truth values, ordered so that AND = min, OR = max, NOT x = 2 - x
const (
	c04sFalse int8 = iota
	c04sUnknown
	c04sTrue
)

type c04sExpr func(r c04sRow) (int8, error)
type c04sOpnd func(r c04sRow) (c04sVal, error)

func c04sBool(b bool) int8 {
	if b {
		return c04sTrue
	}
	return c04sFalse
}

func c04sCompare(op string, a, b c04sVal) (int8, error) {
	switch op {
	case "=", "<>", "!=", "<", "<=", ">", ">=":
	default:
		return 0, fmt.Errorf("operator %q", op)
	}
	if a.Null || b.Null {
		return c04sUnknown, nil
	}
	an, aok := a.num()
	bn, bok := b.num()
	c := 0
	switch {
	case aok && bok:
		switch {
		case an < bn:
			c = -1
		case an > bn:
			c = 1
		}
	case a.Num || b.Num:
		return 0, fmt.Errorf("number compared with the non-numeric string %s %s %s (implicit conversion)", a, op, b)
	default:
		if op != "=" && op != "<>" && op != "!=" {
			return 0, fmt.Errorf("strings ordered with %s (collation)", op)
		}
		if a.S != b.S {
			if strings.EqualFold(strings.TrimRight(a.S, " "), strings.TrimRight(b.S, " ")) {
				return 0, fmt.Errorf("strings %s and %s differ in case or trailing blanks only (collation)", a, b)
			}
			c = 1
		}
	}
	switch op {
	case "=":
		return c04sBool(c == 0), nil
	case "<>", "!=":
		return c04sBool(c != 0), nil
	case "<":
		return c04sBool(c < 0), nil
	case "<=":
		return c04sBool(c <= 0), nil
	case ">":
		return c04sBool(c > 0), nil
	}
	return c04sBool(c >= 0), nil
}

type c04sParser struct {
	toks []c04sTok
	i    int
	tabs map[string]string // alias (the table's name when it has none) -> table, lower case
}

func (p *c04sParser) peek() c04sTok {
	if p.i < len(p.toks) {
		return p.toks[p.i]
	}
	return c04sTok{}
}

func (p *c04sParser) kw(w string) bool {
	if p.peek().word(w) {
		p.i++
		return true
	}
	return false
}

func (p *c04sParser) here() string {
	if p.i >= len(p.toks) {
		return "the end of the clause"
	}
	return fmt.Sprintf("%q (token %d)", p.toks[p.i].S, p.i+1)
}

func (p *c04sParser) parseOr() (c04sExpr, error) {
	l, err := p.parseAnd()
	if err != nil {
		return nil, err
	}
	for p.kw("OR") {
		r, err := p.parseAnd()
		if err != nil {
			return nil, err
		}
		a, b := l, r
		l = func(row c04sRow) (int8, error) { // both sides always evaluated: an error never depends on the row
			x, err := a(row)
			if err != nil {
				return 0, err
			}
			y, err := b(row)
			if err != nil {
				return 0, err
			}
			return max(x, y), nil
		}
	}
	return l, nil
}

func (p *c04sParser) parseAnd() (c04sExpr, error) {
	l, err := p.parseNot()
	if err != nil {
		return nil, err
	}
	for p.kw("AND") {
		r, err := p.parseNot()
		if err != nil {
			return nil, err
		}
		a, b := l, r
		l = func(row c04sRow) (int8, error) {
			x, err := a(row)
			if err != nil {
				return 0, err
			}
			y, err := b(row)
			if err != nil {
				return 0, err
			}
			return min(x, y), nil
		}
	}
	return l, nil
}

func (p *c04sParser) parseNot() (c04sExpr, error) {
	if p.kw("NOT") {
		e, err := p.parseNot()
		if err != nil {
			return nil, err
		}
		return func(row c04sRow) (int8, error) {
			x, err := e(row)
			return 2 - x, err
		}, nil
	}
	return p.parsePred()
}

func c04sNegate(e c04sExpr, neg bool) c04sExpr {
	if !neg {
		return e
	}
	return func(row c04sRow) (int8, error) {
		x, err := e(row)
		return 2 - x, err
	}
}

func (p *c04sParser) parsePred() (c04sExpr, error) {
	if p.peek().K == '(' {
		p.i++
		e, err := p.parseOr()
		if err != nil {
			return nil, err
		}
		if p.peek().K != ')' {
			return nil, fmt.Errorf("')' expected at %s", p.here())
		}
		p.i++
		if nx := p.peek(); nx.K == 'o' || nx.K == 'x' || nx.word("BETWEEN") || nx.word("IN") || nx.word("IS") || nx.word("LIKE") {
			return nil, fmt.Errorf("a parenthesised operand before %s", p.here())
		}
		return e, nil
	}
	a, err := p.parseOperand()
	if err != nil {
		return nil, err
	}
	nx := p.peek()
	switch {
	case nx.K == 'o':
		op := nx.S
		p.i++
		b, err := p.parseOperand()
		if err != nil {
			return nil, err
		}
		if _, err := c04sCompare(op, c04sNullV, c04sNullV); err != nil {
			return nil, err
		}
		return func(row c04sRow) (int8, error) {
			x, err := a(row)
			if err != nil {
				return 0, err
			}
			y, err := b(row)
			if err != nil {
				return 0, err
			}
			return c04sCompare(op, x, y)
		}, nil
	case nx.word("IS"):
		p.i++
		neg := p.kw("NOT")
		if !p.kw("NULL") {
			return nil, fmt.Errorf("IS [NOT] NULL expected at %s", p.here())
		}
		return func(row c04sRow) (int8, error) { // never UNKNOWN
			x, err := a(row)
			if err != nil {
				return 0, err
			}
			return c04sBool(x.Null != neg), nil
		}, nil
	}
	neg := p.kw("NOT")
	switch {
	case p.kw("BETWEEN"):
		lo, err := p.parseOperand()
		if err != nil {
			return nil, err
		}
		if !p.kw("AND") {
			return nil, fmt.Errorf("the AND of BETWEEN expected at %s", p.here())
		}
		hi, err := p.parseOperand()
		if err != nil {
			return nil, err
		}
		return c04sNegate(func(row c04sRow) (int8, error) { // both ends inclusive
			x, err := a(row)
			if err != nil {
				return 0, err
			}
			l, err := lo(row)
			if err != nil {
				return 0, err
			}
			h, err := hi(row)
			if err != nil {
				return 0, err
			}
			ge, err := c04sCompare(">=", x, l)
			if err != nil {
				return 0, err
			}
			le, err := c04sCompare("<=", x, h)
			if err != nil {
				return 0, err
			}
			return min(ge, le), nil
		}, neg), nil
	case p.kw("IN"):
		if p.peek().K != '(' {
			return nil, fmt.Errorf("'(' expected at %s", p.here())
		}
		p.i++
		var list []c04sOpnd
		for {
			v, err := p.parseOperand()
			if err != nil {
				return nil, err
			}
			list = append(list, v)
			if p.peek().K == ',' {
				p.i++
				continue
			}
			break
		}
		if p.peek().K != ')' {
			return nil, fmt.Errorf("')' of the IN list expected at %s", p.here())
		}
		p.i++
		return c04sNegate(func(row c04sRow) (int8, error) {
			x, err := a(row)
			if err != nil {
				return 0, err
			}
			res := c04sFalse
			for _, it := range list {
				y, err := it(row)
				if err != nil {
					return 0, err
				}
				eq, err := c04sCompare("=", x, y)
				if err != nil {
					return 0, err
				}
				res = max(res, eq)
			}
			return res, nil
		}, neg), nil
	}
	return nil, fmt.Errorf("a comparison, BETWEEN, IN or IS NULL expected at %s", p.here())
}

var c04sReserved = map[string]bool{"and": true, "or": true, "not": true, "between": true, "in": true, "is": true, "like": true,
	"select": true, "from": true, "where": true, "exists": true, "case": true, "when": true, "then": true, "else": true, "end": true,
	"true": true, "false": true, "any": true, "all": true, "some": true, "interval": true, "as": true, "on": true, "join": true,
	"left": true, "right": true, "inner": true, "outer": true, "cross": true, "full": true, "natural": true, "using": true,
	"order": true, "group": true, "limit": true, "having": true, "for": true, "returning": true, "union": true, "set": true}

func (p *c04sParser) parseOperand() (c04sOpnd, error) {
	k := p.peek()
	constant := func(v c04sVal) c04sOpnd { return func(c04sRow) (c04sVal, error) { return v, nil } }
	switch {
	case k.K == 's':
		if len(k.S) < 2 || k.S[len(k.S)-1] != '\'' {
			return nil, fmt.Errorf("unterminated string %s", k.S)
		}
		body := k.S[1 : len(k.S)-1]
		if strings.Contains(body, `\`) {
			return nil, fmt.Errorf("backslash in the string literal %s (an escape for MySQL, a character for PostgreSQL)", k.S)
		}
		p.i++
		return constant(c04sStrV(strings.ReplaceAll(body, "''", "'"))), nil
	case k.K == 'n' || (k.K == 'x' && (k.S == "-" || k.S == "+") && p.i+1 < len(p.toks) && p.toks[p.i+1].K == 'n'):
		txt := k.S
		p.i++
		if k.K == 'x' {
			txt = strings.TrimPrefix(k.S, "+") + p.toks[p.i].S
			p.i++
		}
		n, err := strconv.ParseInt(txt, 10, 64)
		if err != nil {
			return nil, fmt.Errorf("integer literal %s: %v", txt, err)
		}
		return constant(c04sNumV(n)), nil
	case k.word("NULL"):
		p.i++
		return constant(c04sNullV), nil
	case k.K == 'w':
		if !k.Q && c04sReserved[strings.ToLower(k.S)] {
			return nil, fmt.Errorf("an operand expected at %s", p.here())
		}
		name := k.S
		p.i++
		for p.peek().K == 'w' && (strings.HasSuffix(name, ".") || strings.HasPrefix(p.peek().S, ".")) { // m.`from`, "m"."from"
			name += p.peek().S
			p.i++
		}
		return p.column(name)
	}
	return nil, fmt.Errorf("an operand expected at %s", p.here())
}

func (p *c04sParser) column(name string) (c04sOpnd, error) {
	parts := strings.Split(strings.ToLower(name), ".")
	switch len(parts) {
	case 1:
		col := parts[0]
		var tables []string
		seen := map[string]bool{}
		for _, tb := range p.tabs {
			if !seen[tb] {
				seen[tb] = true
				tables = append(tables, tb)
			}
		}
		return func(r c04sRow) (c04sVal, error) {
			n := 0
			var val c04sVal
			for _, tb := range tables {
				if v, ok := r[tb+"."+col]; ok {
					val = v
					n++
				}
			}
			if n != 1 {
				return val, fmt.Errorf("column %s: found in %d of the tables of the FROM clause", name, n)
			}
			return val, nil
		}, nil
	case 2:
		tb, ok := p.tabs[parts[0]]
		if !ok {
			return nil, fmt.Errorf("column %s: no table or alias %s in the FROM clause", name, parts[0])
		}
		key := tb + "." + parts[1]
		return func(r c04sRow) (c04sVal, error) {
			v, ok := r[key]
			if !ok {
				return v, fmt.Errorf("column %s (%s) is not modelled", name, key)
			}
			return v, nil
		}, nil
	}
	return nil, fmt.Errorf("column reference %s", name)
}

// c04sFromTables reads the FROM clause of a SELECT: alias -> table. The ON conditions of joins are
// skipped. A subquery, NATURAL / USING joins, or a table used twice are errors.
func c04sFromTables(toks []c04sTok) (map[string]string, error) {
	depth, i := 0, -1
	for j, k := range toks {
		if k.K == '(' {
			depth++
		} else if k.K == ')' {
			depth--
		} else if depth == 0 && k.word("FROM") {
			i = j + 1
			break
		}
	}
	if i < 0 {
		return nil, fmt.Errorf("no FROM clause")
	}
	stop := func(k c04sTok) bool {
		return k.word("WHERE") || k.word("ORDER") || k.word("GROUP") || k.word("LIMIT") || k.word("HAVING") || k.word("FOR") || k.word("RETURNING") || k.word("UNION")
	}
	joinWord := func(k c04sTok) bool {
		return k.word("JOIN") || k.word("LEFT") || k.word("RIGHT") || k.word("INNER") || k.word("OUTER") || k.word("CROSS") || k.word("FULL")
	}
	tabs, used := map[string]string{}, map[string]bool{}
	for {
		if i >= len(toks) || toks[i].K != 'w' || (!toks[i].Q && c04sReserved[strings.ToLower(toks[i].S)]) {
			return nil, fmt.Errorf("FROM clause: a table name expected at token %d", i+1)
		}
		tb := strings.ToLower(toks[i].S)
		i++
		alias := tb
		if i < len(toks) && toks[i].word("AS") {
			i++
			if i >= len(toks) || toks[i].K != 'w' {
				return nil, fmt.Errorf("FROM clause: an alias expected after AS")
			}
			alias = strings.ToLower(toks[i].S)
			i++
		} else if i < len(toks) && toks[i].K == 'w' && (toks[i].Q || !c04sReserved[strings.ToLower(toks[i].S)]) {
			alias = strings.ToLower(toks[i].S)
			i++
		}
		if _, dup := tabs[alias]; dup || used[tb] || strings.Contains(tb, ".") || strings.Contains(alias, ".") {
			return nil, fmt.Errorf("FROM clause: table %s / alias %s used twice or qualified", tb, alias)
		}
		tabs[alias], used[tb] = tb, true
		if i < len(toks) && toks[i].word("ON") {
			d := 0
			for i++; i < len(toks); i++ {
				k := toks[i]
				if k.K == '(' {
					d++
				} else if k.K == ')' {
					d--
				} else if d == 0 && (stop(k) || joinWord(k) || k.K == ',') {
					break
				}
			}
		}
		if i >= len(toks) || stop(toks[i]) {
			return tabs, nil
		}
		if toks[i].K == ',' {
			i++
			continue
		}
		join := false
		for i < len(toks) && joinWord(toks[i]) && !join {
			join = toks[i].word("JOIN")
			i++
		}
		if !join {
			return nil, fmt.Errorf("FROM clause: unexpected %q", toks[min(i, len(toks)-1)].S)
		}
	}
}

// c04sSelectRows evaluates the WHERE clause of the SELECT sqlText on every row. An error means
// "not understood": nothing may be concluded from the statement.
func c04sSelectRows(sqlText string, rows []c04sRow) ([]bool, error) {
	toks := c04sLex(sqlText)
	if len(toks) == 0 || !toks[0].word("SELECT") {
		return nil, fmt.Errorf("not a SELECT")
	}
	tabs, err := c04sFromTables(toks)
	if err != nil {
		return nil, err
	}
	sel := make([]bool, len(rows))
	wt, has := c04sWhereToks(sqlText)
	if !has {
		for i := range sel {
			sel[i] = true
		}
		return sel, nil
	}
	p := &c04sParser{toks: wt, tabs: tabs}
	e, err := p.parseOr()
	if err != nil {
		return nil, err
	}
	if p.i != len(wt) {
		return nil, fmt.Errorf("unexpected %s", p.here())
	}
	for i, r := range rows {
		v, err := e(r)
		if err != nil {
			return nil, err
		}
		sel[i] = v == c04sTrue
	}
	return sel, nil
}

// c04sSynRow: one row of a synthetic table together with the verdict the statement of C04 demands.
type c04sSynRow struct {
	Row    c04sRow
	Label  string
	Why    []string // why the row must NOT be selected (empty: it must be), most telling reason first
	Window bool     // the id of the row lies in since <= id < before
}

// c04sOtherTopic: a second topic name that no collation can confuse with topic.
func c04sOtherTopic(topic string) string {
	if strings.EqualFold(strings.TrimSpace(topic), "grpOther7x") {
		return "grpOther8y"
	}
	return "grpOther7x"
}

// c04sDellogRows: the synthetic deletion log for a query of `topic` by the user whose number is uid:
// {queried topic, another topic} x {deleted for all (0), for the user, for another user} x delete ids.
func c04sDellogRows(topic string, uid, otherUid int64, want func(int) bool) []c04sSynRow {
	var out []c04sSynRow
	for ti, tp := range []string{topic, c04sOtherTopic(topic)} {
		for di, df := range []int64{0, uid, otherUid} {
			for _, id := range c04sDomain {
				sr := c04sSynRow{Row: c04sRow{
					"dellog.topic": c04sStrV(tp), "dellog.deletedfor": c04sNumV(df), "dellog.delid": c04sNumV(int64(id)),
					"dellog.low": c04sNumV(3), "dellog.hi": c04sNumV(5),
				}, Window: want(id)}
				sr.Label = fmt.Sprintf("{topic='%s' (%s), deletedfor=%d (%s), delid=%d}", tp, []string{"the queried topic", "another topic"}[ti],
					df, []string{"all users", "the querying user", "another user"}[di], id)
				if ti == 1 {
					sr.Why = append(sr.Why, "other-topic")
				}
				if di == 2 {
					sr.Why = append(sr.Why, "other-user")
				}
				if !sr.Window {
					sr.Why = append(sr.Why, "window")
				}
				out = append(out, sr)
			}
		}
	}
	return out
}

// c04sHistoryRows: the synthetic messages table, already joined (LEFT JOIN dellog AS d ON <the user's
// soft deletion covering the message>): {queried topic, another topic} x {live, hard-deleted} x
// {no soft deletion of the user (d.* NULL), one} x message ids. The ON clause itself is not evaluated.
func c04sHistoryRows(topic string, uid int64, want func(int) bool) []c04sSynRow {
	var out []c04sSynRow
	for ti, tp := range []string{topic, c04sOtherTopic(topic)} {
		for hard := 0; hard < 2; hard++ {
			for soft := 0; soft < 2; soft++ {
				for _, id := range c04sDomain {
					r := c04sRow{"messages.topic": c04sStrV(tp), "messages.seqid": c04sNumV(int64(id)),
						"messages.delid": c04sNumV(0), "messages.deletedat": c04sNullV,
						"dellog.topic": c04sNullV, "dellog.deletedfor": c04sNullV, "dellog.delid": c04sNullV, "dellog.low": c04sNullV, "dellog.hi": c04sNullV}
					state := "live"
					if hard == 1 {
						r["messages.delid"], r["messages.deletedat"] = c04sNumV(3), c04sStrV("2020-01-02 03:04:05.000")
						state = "hard-deleted, delid=3"
					}
					if soft == 1 {
						r["dellog.topic"], r["dellog.deletedfor"], r["dellog.delid"] = c04sStrV(tp), c04sNumV(uid), c04sNumV(2)
						r["dellog.low"], r["dellog.hi"] = c04sNumV(int64(id)), c04sNumV(int64(id)+1)
						state += ", soft-deleted for the querying user"
					}
					sr := c04sSynRow{Row: r, Window: want(id)}
					sr.Label = fmt.Sprintf("{topic='%s' (%s), seqid=%d, %s}", tp, []string{"the queried topic", "another topic"}[ti], id, state)
					if ti == 1 {
						sr.Why = append(sr.Why, "other-topic")
					}
					if hard == 1 {
						sr.Why = append(sr.Why, "shows-hard-deleted")
					}
					if soft == 1 {
						sr.Why = append(sr.Why, "shows-soft-deleted")
					}
					if !sr.Window {
						sr.Why = append(sr.Why, "window")
					}
					out = append(out, sr)
				}
			}
		}
	}
	return out
}

// c04sJudgeRows compares the selection of a statement with the demanded one. extraWhy: the reason of
// the most telling wrongly selected row (fewest reasons against it; then the order of Why);
// examples: up to 4 labels of each kind.
func c04sJudgeRows(rows []c04sSynRow, sel []bool) (extraWhy string, extra, missing []string, nExtra, nMissing int) {
	rank := map[string]int{"other-topic": 0, "other-user": 1, "shows-hard-deleted": 2, "shows-soft-deleted": 3, "window": 4}
	best := -1
	for i, sr := range rows {
		switch {
		case sel[i] && len(sr.Why) > 0:
			nExtra++
			if best < 0 || len(sr.Why) < len(rows[best].Why) || (len(sr.Why) == len(rows[best].Why) && rank[sr.Why[0]] < rank[rows[best].Why[0]]) {
				best = i
			}
		case !sel[i] && len(sr.Why) == 0:
			nMissing++
			if len(missing) < 4 {
				missing = append(missing, sr.Label)
			}
		}
	}
	if best >= 0 {
		extraWhy = rows[best].Why[0]
		for i, sr := range rows {
			if sel[i] && len(sr.Why) == len(rows[best].Why) && sr.Why[0] == extraWhy && len(extra) < 4 {
				extra = append(extra, sr.Label)
			}
		}
	}
	return
}

// ------------------------------------------------------------------ one run

type c04sRun struct {
	Evs     []c18Ev
	Dellog  []string // literal text of every INSERT INTO dellog the server received
	DlNote  string   // why Dellog cannot be judged ("" = can)
	Err     error
	Panic   string
	Harness string
	MaxMsgs int
}

// c04sDo runs the adapter call of c on a fresh fake server; k > 0: statement k is answered with a
// failure of the given kind (c18Core fault kinds).
func c04sDo(c *c04sCase, ranges []t.Range, k int, kind string) c04sRun {
	c18Boot()
	srv, err := c18StartServer()
	if err != nil {
		return c04sRun{Harness: "server: " + err.Error()}
	}
	defer srv.stop()
	cfg, tap, err := c04sOpenCfg(srv)
	if err != nil {
		return c04sRun{Harness: "tap: " + err.Error()}
	}
	if tap != nil {
		defer tap.stop()
	}
	adp := c18NewAdapter()
	if err := adp.Open(json.RawMessage(cfg)); err != nil {
		return c04sRun{Harness: "open: " + err.Error()}
	}
	res := c04sRun{MaxMsgs: 100}
	if ad, ok := adp.(*adapter); ok && ad.maxMessageResults > 0 {
		res.MaxMsgs = ad.maxMessageResults
	}
	srv.core.arm(c18Script{}, k, kind)
	done := make(chan struct{})
	go func() {
		defer close(done)
		defer func() {
			if p := recover(); p != nil {
				res.Panic = fmt.Sprint(p)
			}
		}()
		res.Err = c04sCall(adp, c, ranges)
	}()
	select {
	case <-done:
	case <-time.After(30 * time.Second): // safety net against a bug in the fake server, not an oracle
		return c04sRun{Harness: "the adapter call did not return within 30 s"}
	}
	res.Evs = srv.core.snapshot()
	res.Dellog, res.DlNote = c04sDellogTexts(res.Evs, tap)
	leaked := false
	for _, tx := range c18Brackets(res.Evs) {
		if tx.end == "" || tx.end == "connclosed" {
			leaked = true
		}
	}
	c18CloseAdapter(adp, leaked)
	return res
}

func c04sCall(adp dbi.Adapter, c *c04sCase, ranges []t.Range) error {
	uid := t.Uid(c.U)
	switch c.Op {
	case "hard", "soft":
		d := &t.DelMessage{Topic: c.Topic, DelId: c.DelId, SeqIdRanges: append([]t.Range(nil), ranges...)}
		if c.Op == "soft" {
			d.DeletedFor = uid.String()
		}
		d.CreatedAt, d.UpdatedAt = c18T0, c18T0
		return adp.MessageDeleteList(c.Topic, d)
	case "getall":
		_, err := adp.MessageGetAll(c.Topic, uid, &t.QueryOpt{Since: c.Since, Before: c.Before, Limit: c.Limit})
		return err
	case "getdel":
		_, err := adp.MessageGetDeleted(c.Topic, uid, &t.QueryOpt{Since: c.Since, Before: c.Before, Limit: c.Limit})
		return err
	}
	return nil
}

// ------------------------------------------------------------------ oracle

// ids 1..20 (deletes draw ids 1..12) plus the neighbourhood of the larger option values
var c04sDomain = func() []int {
	var d []int
	for i := 1; i <= 20; i++ {
		d = append(d, i)
	}
	for _, v := range []int{100, 1000} {
		d = append(d, v-2, v-1, v, v+1, v+2)
	}
	return d
}()

func c04sDiff(got, want func(int) bool, dom []int) (extra, missing []int) {
	for _, id := range dom {
		g, w := got(id), want(id)
		if g && !w {
			extra = append(extra, id)
		}
		if w && !g {
			missing = append(missing, id)
		}
	}
	return
}

func c04sFind(evs []c18Ev, pred func(up string, e c18Ev) bool) []c18Ev {
	var out []c18Ev
	for _, e := range evs {
		if pred(strings.ToUpper(e.Text), e) {
			out = append(out, e)
		}
	}
	return out
}

func c04sRangesStr(rs []t.Range) string {
	var s []string
	for _, r := range rs {
		if r.Hi == 0 {
			s = append(s, strconv.Itoa(r.Low))
		} else {
			s = append(s, fmt.Sprintf("[%d,%d)", r.Low, r.Hi))
		}
	}
	return strings.Join(s, " ")
}

func c04sPredClass(sqlText, col string) string {
	preds, known := c04sPreds(sqlText, col)
	if !known {
		return "?"
	}
	var k []string
	for _, p := range preds {
		if p.Kind == "cmp" {
			k = append(k, p.Op)
		} else {
			k = append(k, p.Kind)
		}
	}
	if len(k) == 0 {
		return "none"
	}
	return strings.Join(k, "+")
}

func c04sExec(c c04sCase) kit.Outcome {
	o := kit.Outcome{Classes: []string{"op:" + c.Op}}
	switch c.Op {
	case "hard", "soft", "getall", "getdel":
	default:
		o.Skip = true
		return o
	}
	ranges := c04sNormalized(c.Ranges)
	if (c.Op == "hard" || c.Op == "soft") && (len(ranges) == 0 || c.DelId < 1) {
		o.Skip = true
		return o
	}
	r := c04sDo(&c, ranges, 0, "")
	if os.Getenv("C04S_SHOW") != "" {
		b, _ := json.Marshal(c)
		fmt.Printf("%s ranges=%s err=%v panic=%q harness=%q\n", b, c04sRangesStr(ranges), r.Err, r.Panic, r.Harness)
		for _, e := range r.Evs {
			fmt.Printf("    c%d %s -> %s\n", e.Conn, e.Text, e.Res)
		}
		for _, d := range r.Dellog {
			fmt.Printf("    dellog row: %s\n", d)
		}
	}
	if r.Harness != "" {
		o.Viol = kit.V("harness:"+c18AdapterName, "harness problem: %s", r.Harness)
		return o
	}
	if r.Panic != "" {
		o.Classes = append(o.Classes, "call-panicked")
		return o
	}
	if r.Err != nil {
		// nothing failed at the server: not expected, but not what C04 is about either
		o.Classes = append(o.Classes, "call-returned-error")
		return o
	}
	what := fmt.Sprintf("%s %s topic=%s user=%d", c18AdapterName, c.Op, c.Topic, c.U)
	understood := true
	notUnderstood := func(stmt string) {
		understood = false
		o.Classes = append(o.Classes, "predicate-not-understood")
		if os.Getenv("C04S_SHOW") != "" {
			fmt.Printf("    NOT UNDERSTOOD: %s\n", stmt)
		}
	}

	switch c.Op {
	case "hard", "soft":
		want := func(id int) bool {
			for _, rg := range ranges {
				if (rg.Hi == 0 && id == rg.Low) || (rg.Hi != 0 && id >= rg.Low && id < rg.Hi) {
					return true
				}
			}
			return false
		}
		var wantIds []int
		for _, id := range c04sDomain {
			if want(id) {
				wantIds = append(wantIds, id)
			}
		}
		o.Classes = append(o.Classes, "ranges:"+strconv.Itoa(len(ranges)))
		what += fmt.Sprintf(" delId=%d ranges=%s (ids %v)", c.DelId, c04sRangesStr(ranges), wantIds)
		upd := c04sFind(r.Evs, func(up string, e c18Ev) bool {
			return e.Cls == "write" && !e.Ins && strings.HasPrefix(up, "UPDATE MESSAGES") && strings.Contains(up, "DELETEDAT")
		})
		del := c04sFind(r.Evs, func(up string, e c18Ev) bool {
			return e.Cls == "write" && !e.Ins && strings.HasPrefix(up, "DELETE") && strings.Contains(up, "FILEMSGLINKS")
		})
		msgDel := c04sFind(r.Evs, func(up string, e c18Ev) bool {
			return e.Cls == "write" && !e.Ins && strings.HasPrefix(up, "DELETE") && strings.Contains(up, "FROM MESSAGES")
		})
		if c.Op == "soft" {
			// a deletion for one user must not touch the message rows themselves
			if len(upd)+len(msgDel) > 0 {
				e := append(upd, msgDel...)[0]
				o.Viol = kit.V("sql-soft-delete-touches-messages", "%s: a soft delete (DeletedFor set) changed the messages table: %s", what, e.Text)
				return o
			}
		} else {
			if len(upd) == 0 {
				o.Viol = kit.V("sql-hard-delete-missing-ids", "%s: the call returned nil but no UPDATE of messages setting deletedat/delid was sent: ids %v are not marked deleted", what, wantIds)
				return o
			}
			for _, e := range upd {
				known, _ := c04sSelects(e.Text, 1)
				if !known {
					notUnderstood(e.Text)
					continue
				}
				o.Classes = append(o.Classes, "hard-update-where:"+c04sPredClass(e.Text, "seqid"))
				extra, missing := c04sDiff(func(id int) bool { _, s := c04sSelects(e.Text, id); return s }, want, c04sDomain)
				if len(extra) > 0 {
					o.Viol = kit.V("sql-hard-delete-extra-ids", "%s: the UPDATE marking messages deleted also selects ids %v, outside the listed ranges: %s", what, extra, e.Text)
					return o
				}
				if len(missing) > 0 {
					o.Viol = kit.V("sql-hard-delete-missing-ids", "%s: the UPDATE marking messages deleted does not select ids %v of the listed ranges: %s", what, missing, e.Text)
					return o
				}
			}
			for _, e := range del {
				preds, known := c04sPreds(e.Text, "seqid")
				if !known {
					notUnderstood(e.Text)
					continue
				}
				if len(preds) == 0 {
					continue // no seqid predicate: not a per-id statement
				}
				extra, missing := c04sDiff(func(id int) bool { _, s := c04sSelects(e.Text, id); return s }, want, c04sDomain)
				if len(extra) > 0 {
					o.Viol = kit.V("sql-hard-delete-extra-ids", "%s: the DELETE of attachment links also selects message ids %v, outside the listed ranges: %s", what, extra, e.Text)
					return o
				}
				if len(missing) > 0 {
					o.Viol = kit.V("sql-hard-delete-missing-ids", "%s: the DELETE of attachment links does not select message ids %v of the listed ranges: %s", what, missing, e.Text)
					return o
				}
			}
		}
		// deletion log rows, both kinds of delete
		if r.DlNote != "" {
			o.Classes = append(o.Classes, "dellog-not-judged:"+r.DlNote)
		} else {
			type row struct{ lo, hi int }
			var rows []row
			rowsOK := true
			for _, txt := range r.Dellog {
				tbl, m, ok := c04sInsertRow(txt)
				lo, hi := m["low"], m["hi"]
				if !ok || tbl != "dellog" || lo.K != 'n' || hi.K != 'n' {
					rowsOK = false
					notUnderstood(txt)
					break
				}
				l, _ := strconv.Atoi(lo.S)
				h, _ := strconv.Atoi(hi.S)
				rows = append(rows, row{l, h})
			}
			if rowsOK {
				o.Classes = append(o.Classes, "dellog-rows-judged")
				covered := func(id int) bool {
					for _, rw := range rows {
						if id >= rw.lo && id < rw.hi {
							return true
						}
					}
					return false
				}
				extra, missing := c04sDiff(covered, want, c04sDomain)
				if len(extra) > 0 {
					o.Viol = kit.V("sql-dellog-extra-ids", "%s: the deletion log rows, read as [low,hi), cover ids %v outside the listed ranges: %s", what, extra, strings.Join(r.Dellog, " ; "))
					return o
				}
				if len(missing) > 0 {
					o.Viol = kit.V("sql-dellog-missing-ids", "%s: the deletion log rows, read as [low,hi), do not cover ids %v of the listed ranges: %s", what, missing, strings.Join(r.Dellog, " ; "))
					return o
				}
			}
		}
		multi := len(ranges) >= 2 || (len(ranges) == 1 && ranges[0].Hi > ranges[0].Low+1)
		o.NonTrivial = understood && multi
		if v := c04sFaultSweep(&c, ranges, r, what, len(ranges) >= 2, &o); v != nil {
			o.Viol = v
			return o
		}

	case "getall", "getdel":
		col, table := "seqid", "MESSAGES"
		sigExtra, sigMissing := "sql-history-extra-ids", "sql-history-missing-ids"
		if c.Op == "getdel" {
			col, table = "delid", "DELLOG"
			sigExtra, sigMissing = "sql-dellog-query-extra", "sql-dellog-query-missing"
		}
		what += fmt.Sprintf(" since=%d before=%d limit=%d", c.Since, c.Before, c.Limit)
		before := c.Before
		if c.Op == "getdel" && before == 1 {
			// Carve-out shared with the world oracle of C04 (harness/world/c04_test.go, `before > 1`):
			// both SQL adapters treat before=1 in a deletion-log query as "no upper bound" (opts.Before > 1),
			// where the half-open reading [since, 1) selects no transaction at all (numbers start at 1).
			// Not judged here; made visible in the class histogram.
			o.Classes = append(o.Classes, "getdel-before=1-read-as-absent")
			before = 0
		}
		want := func(id int) bool { return (c.Since == 0 || id >= c.Since) && (before == 0 || id < before) }
		sel := c04sFind(r.Evs, func(up string, e c18Ev) bool {
			return e.Cls == "read" && strings.Contains(up, "FROM "+table)
		})
		if len(sel) != 1 {
			o.Classes = append(o.Classes, fmt.Sprintf("selects-on-%s:%d", strings.ToLower(table), len(sel)))
			understood = false
		}
		// the synthetic table the WHERE clause is evaluated on (row evaluator)
		uidNum, otherNum := store.DecodeUid(t.Uid(c.U)), store.DecodeUid(t.Uid(c.U+100))
		var syn []c04sSynRow
		if uidNum == 0 || otherNum == 0 || uidNum == otherNum {
			o.Classes = append(o.Classes, c.Op+"-rows-not-judged:user-number") // replay files only (u = 0)
		} else if c.Op == "getdel" {
			syn = c04sDellogRows(c.Topic, uidNum, otherNum, want)
		} else {
			syn = c04sHistoryRows(c.Topic, uidNum, want)
		}
		for _, e := range sel {
			rowsJudged := false
			if syn != nil {
				rows := make([]c04sRow, len(syn))
				for i := range syn {
					rows[i] = syn[i].Row
				}
				picked, err := c04sSelectRows(e.Text, rows)
				if err != nil {
					o.Classes = append(o.Classes, c.Op+"-rows-not-understood")
					if os.Getenv("C04S_SHOW") != "" {
						fmt.Printf("    ROWS NOT UNDERSTOOD (%v): %s\n", err, e.Text)
					}
				} else {
					rowsJudged = true
					o.Classes = append(o.Classes, c.Op+"-rows-judged")
					why, extra, missing, nExtra, nMissing := c04sJudgeRows(syn, picked)
					tbl, demanded, prefix := "dellog", fmt.Sprintf("topic = the queried one, deletedfor = 0 or the querying user (%d), since <= delid < before", uidNum), "sql-dellog-query-"
					if c.Op == "getall" {
						tbl, demanded, prefix = "messages (joined with the user's soft deletions)", "topic = the queried one, not hard-deleted (delid=0), not soft-deleted for the querying user, since <= seqid < before", "sql-history-"
					}
					if nExtra > 0 {
						sig := prefix + why
						if why == "window" {
							sig = sigExtra
						}
						o.Viol = kit.V(sig, "%s: evaluated on a synthetic table %s, the WHERE clause selects %d row(s) that must not be in the answer, e.g. %s; demanded: %s: %s",
							what, tbl, nExtra, strings.Join(extra, " "), demanded, e.Text)
						return o
					}
					if nMissing > 0 {
						o.Viol = kit.V(sigMissing, "%s: evaluated on a synthetic table %s, the WHERE clause does not select %d row(s) that belong to the answer, e.g. %s; demanded: %s: %s",
							what, tbl, nMissing, strings.Join(missing, " "), demanded, e.Text)
						return o
					}
				}
			}
			// the one-column evaluator (what was judged before the row evaluator existed; it still judges
			// a statement whose WHERE clause names a column the synthetic rows do not model)
			if known, _ := c04sSelectsCol(e.Text, col, 1); known {
				o.Classes = append(o.Classes, c.Op+"-where:"+c04sPredClass(e.Text, col))
				extra, missing := c04sDiff(func(id int) bool { _, s := c04sSelectsCol(e.Text, col, id); return s }, want, c04sDomain)
				if len(extra) > 0 {
					o.Viol = kit.V(sigExtra, "%s: the query selects %s values %v outside since <= id < before: %s", what, col, extra, e.Text)
					return o
				}
				if len(missing) > 0 {
					o.Viol = kit.V(sigMissing, "%s: the query does not select %s values %v although since <= id < before: %s", what, col, missing, e.Text)
					return o
				}
			} else if !rowsJudged {
				notUnderstood(e.Text)
				continue
			}
			if c.Op == "getall" {
				lim, ok := c04sLimit(e.Text)
				if !ok {
					o.Classes = append(o.Classes, "limit-not-understood")
					understood = false
					continue
				}
				bad := lim < 1 || lim > r.MaxMsgs
				if c.Limit > 0 {
					w := c.Limit
					if r.MaxMsgs < w {
						w = r.MaxMsgs
					}
					bad = lim != w
				}
				if bad {
					o.Viol = kit.V("sql-history-limit", "%s: LIMIT %d; demanded: min(requested limit, adapter maximum %d) (at most the maximum when none is requested): %s", what, lim, r.MaxMsgs, e.Text)
					return o
				}
			}
		}
		o.NonTrivial = understood && c.Since > 0 && c.Before > 0
		if c.Since > 0 && c.Before > 0 && c.Since >= c.Before {
			o.Classes = append(o.Classes, "window-empty")
		}
	}
	return o
}

// c04sSwept: trace shapes whose fault sweep came out clean in this process (see c04sFaultSweep).
var c04sSwept = struct {
	sync.Mutex
	m map[string]bool
}{m: map[string]bool{}}

func c04sShape(c *c04sCase, evs []c18Ev) string {
	var sb strings.Builder
	sb.WriteString(c.Op)
	for _, e := range evs {
		w := strings.Fields(e.Text)
		if len(w) > 2 {
			w = w[:2]
		}
		sb.WriteString(";" + e.Cls + ":" + strings.ToUpper(strings.Join(w, " ")))
	}
	return sb.String()
}

// c04sFaultSweep runs the delete of c once per statement position of its fault-free trace dry.Evs
// with that statement failing, and judges every run: the failure must come back to the caller and
// must not be followed by a COMMIT.
func c04sFaultSweep(c *c04sCase, ranges []t.Range, dry c04sRun, what string, always bool, o *kit.Outcome) *kit.Viol {
	pos := c18Positions(dry.Evs)
	shape := c04sShape(c, dry.Evs)
	if !always {
		c04sSwept.Lock()
		done := c04sSwept.m[shape]
		c04sSwept.Unlock()
		if done {
			o.Classes = append(o.Classes, "fault-sweep:same-shape-swept-before")
			return nil
		}
	}
	for k := 1; k <= len(pos); k++ {
		fr := c04sDo(c, ranges, k, "err")
		if fr.Harness != "" {
			return kit.V("harness:"+c18AdapterName, "harness problem in the run with statement %d failing: %s", k, fr.Harness)
		}
		fi := -1
		for i, e := range fr.Evs {
			if e.Fault {
				fi = i
				break
			}
		}
		if fi < 0 {
			// cannot happen: up to statement k the run is identical to the fault-free one
			o.Classes = append(o.Classes, "fault-sweep:position-not-reached")
			continue
		}
		failed := fr.Evs[fi]
		if os.Getenv("C04S_SHOW") != "" {
			fmt.Printf("    k=%d err=%v panic=%q: %s\n", k, fr.Err, fr.Panic, strings.Join(c18TraceStrings(fr.Evs), " | "))
		}
		if fr.Panic != "" {
			o.Classes = append(o.Classes, "fault-sweep:call-panicked")
			continue
		}
		committed := false
		for _, e := range fr.Evs[fi+1:] {
			if e.Conn == failed.Conn && e.Cls == "commit" && e.Res == "ok" {
				committed = true
			}
		}
		tr := strings.Join(c18TraceStrings(fr.Evs), "\n    ")
		if fr.Err == nil {
			after := "no COMMIT followed"
			if committed {
				after = "the transaction was then COMMITTED: the delete is reported as done and is durable although it is incomplete"
			}
			return kit.V("sql-delete-failure-swallowed", "%s: statement %d of the delete failed (%s) but MessageDeleteList returned nil; %s; statement trace:\n    %s", what, k, failed, after, tr)
		}
		if committed {
			return kit.V("sql-delete-committed-after-failure", "%s: statement %d of the delete failed (%s), MessageDeleteList returned %q, and a COMMIT followed the failed statement: a part of the delete is durable; statement trace:\n    %s", what, k, failed, fr.Err, tr)
		}
	}
	o.Classes = append(o.Classes, "fault-sweep:judged")
	c04sSwept.Lock()
	c04sSwept.m[shape] = true
	c04sSwept.Unlock()
	return nil
}

// c04sSelfCheck pins the evaluator on hand-written statements before it is trusted as an oracle
// (a failure makes the unit inconclusive, not a violation).
func c04sSelfCheck() error {
	type row struct {
		sql   string
		col   string
		known bool
		want  []int // selected ids among 1..8
	}
	rows := []row{
		{"UPDATE messages AS m SET m.deletedAt='x',m.delId=3 WHERE m.topic='grp' AND m.seqid BETWEEN 3 AND 5 AND m.deletedAt IS NULL", "seqid", true, []int{3, 4, 5}},
		{"UPDATE messages AS m SET deletedat= 'x' ,delid= 2  WHERE m.topic= 'g'  AND m.seqid IN ( 1 ,  7 ) AND m.deletedAt IS NULL", "seqid", true, []int{1, 7}},
		{"SELECT a FROM messages AS m LEFT JOIN dellog AS d ON d.topic=m.topic AND m.seqid BETWEEN d.low AND d.hi-1 AND d.deletedfor=5 WHERE m.delid=0 AND m.topic='seqid=1' AND m.seqid BETWEEN 2 AND 2147483647 AND d.deletedfor IS NULL ORDER BY m.seqid DESC LIMIT 24", "seqid", true, []int{2, 3, 4, 5, 6, 7, 8}},
		{"SELECT a FROM messages WHERE topic='t' AND seqid>=2 AND seqid<5", "seqid", true, []int{2, 3, 4}},
		{"SELECT a FROM messages WHERE topic='t' AND seqid>2 AND seqid<=5 LIMIT 3", "seqid", true, []int{3, 4, 5}},
		{"SELECT a FROM messages WHERE seqid=4", "seqid", true, []int{4}},
		{"SELECT a FROM messages WHERE topic='it''s AND seqid=1' AND m.seqid = 6", "seqid", true, []int{6}},
		{"SELECT a FROM messages WHERE topic='t'", "seqid", true, []int{1, 2, 3, 4, 5, 6, 7, 8}},
		{"SELECT a FROM messages", "seqid", true, []int{1, 2, 3, 4, 5, 6, 7, 8}},
		{"SELECT a FROM messages WHERE m.seqid BETWEEN 5 AND 3", "seqid", true, nil},
		{"SELECT a FROM dellog WHERE topic='t' AND delid BETWEEN 2 AND 3 AND (deletedFor=0 OR deletedFor=7) ORDER BY delid LIMIT 5", "delid", true, []int{2, 3}},
		{"SELECT a FROM messages WHERE m.seqid BETWEEN d.low AND d.hi-1", "seqid", false, nil},
		{"SELECT a FROM messages WHERE m.seqid BETWEEN 1 AND 5-1", "seqid", false, nil},
		{"SELECT a FROM messages WHERE m.seqid<>3", "seqid", false, nil},
		{"SELECT a FROM messages WHERE NOT m.seqid=3", "seqid", false, nil},
		{"SELECT a FROM messages WHERE m.seqid NOT IN (3)", "seqid", false, nil},
		{"SELECT a FROM messages WHERE m.seqid=3 OR m.topic='t'", "seqid", false, nil},
		{"SELECT a FROM messages WHERE (m.seqid=3 OR m.seqid=4)", "seqid", false, nil},
		{"SELECT a FROM messages WHERE 3<=m.seqid", "seqid", false, nil},
		{"SELECT a FROM messages WHERE m.seqid IN (SELECT x FROM y)", "seqid", false, nil},
		{"SELECT a FROM messages WHERE m.seqid>=$1", "seqid", false, nil},
		{"SELECT a FROM messages WHERE m.seqid IN (?,?)", "seqid", false, nil},
	}
	for _, rw := range rows {
		var got []int
		known := true
		for id := 1; id <= 8; id++ {
			k, s := c04sSelectsCol(rw.sql, rw.col, id)
			known = known && k
			if k && s {
				got = append(got, id)
			}
		}
		if known != rw.known || (known && fmt.Sprint(got) != fmt.Sprint(rw.want)) {
			return fmt.Errorf("evaluator self-check: %q on %s: known=%v selected=%v, expected known=%v selected=%v", rw.sql, rw.col, known, got, rw.known, rw.want)
		}
	}
	if err := c04sRowSelfCheck(); err != nil {
		return err
	}
	if v, ok := c04sLimit("SELECT a FROM t WHERE x=1 ORDER BY y DESC LIMIT  24 "); !ok || v != 24 {
		return fmt.Errorf("evaluator self-check: LIMIT literal read as %d, %v", v, ok)
	}
	if _, ok := c04sLimit("SELECT a FROM t WHERE x=1 ORDER BY y DESC LIMIT ?"); ok {
		return fmt.Errorf("evaluator self-check: LIMIT ? accepted as a literal")
	}
	tbl, m, ok := c04sInsertRow("EXECUTE INSERT INTO dellog(topic,deletedfor,delid,low,hi) VALUES( 'a,b)' , 0 , 2 , 7 , 11 )")
	if !ok || tbl != "dellog" || m["low"].S != "7" || m["hi"].S != "11" || m["low"].K != 'n' {
		return fmt.Errorf("evaluator self-check: INSERT row read as %v %v %v", tbl, m, ok)
	}
	return nil
}

// c04sRowSelfCheck pins the row evaluator: 18 dellog rows (topic t|o, deletedfor 0|7|-9, delid 1..3;
// low=3, hi=5), written "t/7/2", and 4 joined history rows.
func c04sRowSelfCheck() error {
	var rows []c04sRow
	var labels []string
	for _, tp := range []string{"t", "o"} {
		for _, df := range []int64{0, 7, -9} {
			for id := int64(1); id <= 3; id++ {
				rows = append(rows, c04sRow{"dellog.topic": c04sStrV(tp), "dellog.deletedfor": c04sNumV(df), "dellog.delid": c04sNumV(id),
					"dellog.low": c04sNumV(3), "dellog.hi": c04sNumV(5), "dellog.note": c04sNullV})
				labels = append(labels, fmt.Sprintf("%s/%d/%d", tp, df, id))
			}
		}
	}
	const all = "t/0/1 t/0/2 t/0/3 t/7/1 t/7/2 t/7/3 t/-9/1 t/-9/2 t/-9/3 o/0/1 o/0/2 o/0/3 o/7/1 o/7/2 o/7/3 o/-9/1 o/-9/2 o/-9/3"
	type check struct {
		sql  string
		want string // selected labels; "?" = must not be understood
	}
	const pre = "SELECT topic,deletedfor,delid,low,hi FROM dellog "
	checks := []check{
		{pre + "WHERE topic='t' AND delid BETWEEN 2 AND 3 AND (deletedFor=0 OR deletedFor=7) ORDER BY delid LIMIT 5", "t/0/2 t/0/3 t/7/2 t/7/3"},
		// the lost parentheses: AND binds tighter than OR
		{pre + "WHERE topic='t' AND delid BETWEEN 2 AND 3 AND deletedfor=0 OR deletedfor=7 ORDER BY delid LIMIT 5", "t/0/2 t/0/3 t/7/1 t/7/2 t/7/3 o/7/1 o/7/2 o/7/3"},
		{pre + "WHERE deletedfor=7 OR topic='t' AND delid BETWEEN 2 AND 3 AND deletedfor=0", "t/0/2 t/0/3 t/7/1 t/7/2 t/7/3 o/7/1 o/7/2 o/7/3"},
		{pre + "WHERE topic= 't'  AND delid BETWEEN  '2'  AND  '3'  AND (deletedFor=0 OR deletedFor= '7' ) ORDER BY delid LIMIT  5 ", "t/0/2 t/0/3 t/7/2 t/7/3"},
		{pre + "AS d WHERE d.`topic`='t' AND \"d\".\"delid\">=2 AND D.DelId<3 AND d.deletedfor IN (0, 7)", "t/0/2 t/7/2"},
		{pre + "d WHERE d.topic='t' AND NOT d.delid<2 AND d.deletedfor NOT IN (-9)", "t/0/2 t/0/3 t/7/2 t/7/3"},
		{pre + "WHERE NOT (topic='t' OR deletedfor=0) AND delid NOT BETWEEN 2 AND 3", "o/7/1 o/-9/1"},
		{pre + "WHERE topic<>'t' AND deletedfor!=-9 AND 2<=delid", "o/0/2 o/0/3 o/7/2 o/7/3"},
		{pre + "WHERE NOT topic='t' AND deletedfor=- 9 AND delid=+1", "o/-9/1"},
		{pre + "WHERE topic='o' AND deletedfor=0 AND delid<=low-2", "?"},
		{pre + "WHERE topic='it''s'", ""},
		{pre + "WHERE note IS NULL AND delid=1 AND topic='t'", "t/0/1 t/7/1 t/-9/1"},
		{pre + "WHERE note IS NOT NULL", ""},
		{pre + "WHERE note=1 OR delid=3 AND topic='o'", "o/0/3 o/7/3 o/-9/3"}, // UNKNOWN OR TRUE
		{pre + "WHERE NOT note=1", ""},                                        // NOT UNKNOWN
		{pre + "WHERE NOT (note=1 AND delid=3)", "t/0/1 t/0/2 t/7/1 t/7/2 t/-9/1 t/-9/2 o/0/1 o/0/2 o/7/1 o/7/2 o/-9/1 o/-9/2"}, // NOT (UNKNOWN AND FALSE)
		{pre + "WHERE delid IN (1, NULL) AND topic='t' AND deletedfor=0", "t/0/1"},
		{pre + "WHERE delid NOT IN (1, NULL)", ""},
		{pre + "WHERE low<hi AND hi BETWEEN low AND 5 AND delid=low", "t/0/3 t/7/3 t/-9/3 o/0/3 o/7/3 o/-9/3"},
		{pre, all},
		{pre + "ORDER BY delid", all},
		{pre + "WHERE ((topic='t'))AND(delid=1)AND(deletedfor=7)", "t/7/1"},
		{pre + "WHERE topic='t' AND delid=1 AND deletedfor=7 FOR UPDATE", "t/7/1"},
		{pre + "WHERE topic=?", "?"},
		{pre + "WHERE topic=$1", "?"},
		{pre + "WHERE topic='t' AND delid BETWEEN 1 AND 5-3", "?"},
		{pre + "WHERE topic='t' AND delid+0=1", "?"},
		{pre + "WHERE topic='T'", "?"},
		{pre + "WHERE topic='t '", "?"},
		{pre + "WHERE topic>'a'", "?"},
		{pre + "WHERE topic=0", "?"},
		{pre + "WHERE topic LIKE 't%'", "?"},
		{pre + "WHERE topic NOT LIKE 't%'", "?"},
		{pre + `WHERE topic='t\'' OR delid=1`, "?"},
		{pre + "WHERE delid=1::int", "?"},
		{pre + "WHERE delid<=>1", "?"},
		{pre + "WHERE delid=1.5", "?"},
		{pre + "WHERE delid=99999999999999999999", "?"},
		{pre + "WHERE id=1", "?"},
		{pre + "WHERE x.delid=1", "?"},
		{pre + "WHERE delid", "?"},
		{pre + "WHERE (delid)=1", "?"},
		{pre + "WHERE delid=1 AND", "?"},
		{pre + "WHERE delid=1 OR OR delid=2", "?"},
		{pre + "WHERE delid=1)", "?"},
		{pre + "WHERE (delid=1", "?"},
		{pre + "WHERE delid IN ()", "?"},
		{pre + "WHERE delid IN (1,)", "?"},
		{pre + "WHERE delid IN (SELECT 1)", "?"},
		{pre + "WHERE EXISTS (SELECT 1)", "?"},
		{pre + "WHERE delid=abs(1)", "?"},
		{pre + "WHERE delid=1 UNION SELECT topic,deletedfor,delid,low,hi FROM dellog", "?"},
		{pre + "NATURAL JOIN topics WHERE delid=1", "?"},
		{pre + "JOIN topics USING (topic) WHERE delid=1", "?"},
		{pre + "AS a, dellog AS b WHERE a.delid=1", "?"},
		{"SELECT * FROM (SELECT * FROM dellog) AS d WHERE delid=1", "?"},
		{"DELETE FROM dellog WHERE delid=1", "?"},
	}
	for _, ck := range checks {
		sel, err := c04sSelectRows(ck.sql, rows)
		if err != nil {
			if ck.want != "?" {
				return fmt.Errorf("row evaluator self-check: %q not understood (%v)", ck.sql, err)
			}
			continue
		}
		var got []string
		for i, s := range sel {
			if s {
				got = append(got, labels[i])
			}
		}
		if g := strings.Join(got, " "); g != ck.want {
			return fmt.Errorf("row evaluator self-check: %q selects [%s], expected [%s]", ck.sql, g, ck.want)
		}
	}
	// the history query: aliases, a quoted column named like a keyword in the select list, the join's ON clause skipped
	const hist = "SELECT m.createdat,m.delid,m.seqid,m.topic,m.`from`,m.\"from\",m.content FROM messages AS m LEFT JOIN dellog AS d" +
		" ON d.topic=m.topic AND m.seqid BETWEEN d.low AND d.hi-1 AND d.deletedfor=7 WHERE "
	mk := func(topic string, delid int64, soft bool) c04sRow {
		r := c04sRow{"messages.topic": c04sStrV(topic), "messages.seqid": c04sNumV(4), "messages.delid": c04sNumV(delid), "messages.deletedat": c04sNullV,
			"dellog.topic": c04sNullV, "dellog.deletedfor": c04sNullV, "dellog.delid": c04sNullV}
		if delid > 0 {
			r["messages.deletedat"] = c04sStrV("2020-01-02 03:04:05.000")
		}
		if soft {
			r["dellog.topic"], r["dellog.deletedfor"], r["dellog.delid"] = c04sStrV(topic), c04sNumV(7), c04sNumV(2)
		}
		return r
	}
	hrows := []c04sRow{mk("t", 0, false), mk("t", 3, false), mk("t", 0, true), mk("o", 0, false)}
	for _, ck := range []check{
		{hist + "m.delid=0 AND m.topic='t' AND m.seqid BETWEEN 2 AND 2147483647 AND d.deletedfor IS NULL ORDER BY m.seqid DESC LIMIT 24", "0"},
		{hist + "m.delid=0 AND m.seqid BETWEEN 2 AND 2147483647 AND d.deletedfor IS NULL ORDER BY m.seqid DESC LIMIT 24", "0 3"},
		{hist + "m.topic='t' AND m.seqid BETWEEN 2 AND 2147483647 AND d.deletedfor IS NULL", "0 1"},
		{hist + "m.topic='t' AND m.seqid BETWEEN 2 AND 2147483647 AND m.delid=0", "0 2"},
		{hist + "m.topic='t' AND m.seqid BETWEEN 2 AND 2147483647 AND m.delid=0 AND d.deletedfor<>7", ""}, // NULL<>7 is UNKNOWN
		{hist + "m.topic='t' AND m.seqid BETWEEN 5 AND 2147483647 AND m.delid=0", ""},
		{hist + "seqid=4 AND m.deletedat IS NULL AND d.topic IS NULL", "0 3"},
		{hist + "topic='t'", "?"},        // ambiguous: messages.topic or dellog.topic
		{hist + "delid=0", "?"},          // likewise
		{hist + "m.`from`=7", "?"},       // not modelled
		{hist + "messages.seqid=4", "?"}, // hidden by the alias
	} {
		sel, err := c04sSelectRows(ck.sql, hrows)
		if err != nil {
			if ck.want != "?" {
				return fmt.Errorf("row evaluator self-check: %q not understood (%v)", ck.sql, err)
			}
			continue
		}
		var got []string
		for i, s := range sel {
			if s {
				got = append(got, strconv.Itoa(i))
			}
		}
		if g := strings.Join(got, " "); g != ck.want {
			return fmt.Errorf("row evaluator self-check: %q selects rows [%s], expected [%s]", ck.sql, g, ck.want)
		}
	}
	// the verdicts on the synthetic tables
	want := func(id int) bool { return id >= 2 && id < 4 }
	syn := c04sDellogRows("t", 7, 9, want)
	for _, ck := range []struct {
		where, why     string
		extra, missing bool
	}{
		{"topic='t' AND delid BETWEEN 2 AND 3 AND (deletedfor=0 OR deletedfor=7)", "", false, false},
		{"topic='t' AND delid BETWEEN 2 AND 3 AND deletedfor=0 OR deletedfor=7", "other-topic", true, false},
		{"delid BETWEEN 2 AND 3 AND (deletedfor=0 OR deletedfor=7)", "other-topic", true, false},
		{"topic='t' AND delid BETWEEN 2 AND 3", "other-user", true, false},
		{"topic='t' AND delid BETWEEN 2 AND 4 AND (deletedfor=0 OR deletedfor=7)", "window", true, false},
		{"topic='t' AND delid BETWEEN 2 AND 3 AND deletedfor=7", "", false, true},
		{"topic='t' AND delid BETWEEN 2 AND 3 AND (deletedfor=0 OR deletedfor=9)", "other-user", true, true},
	} {
		rws := make([]c04sRow, len(syn))
		for i := range syn {
			rws[i] = syn[i].Row
		}
		sel, err := c04sSelectRows(pre+"WHERE "+ck.where, rws)
		if err != nil {
			return fmt.Errorf("row evaluator self-check: %q not understood (%v)", ck.where, err)
		}
		why, _, _, nx, nm := c04sJudgeRows(syn, sel)
		if why != ck.why || (nx > 0) != ck.extra || (nm > 0) != ck.missing {
			return fmt.Errorf("row evaluator self-check: %q judged why=%q extra=%d missing=%d, expected why=%q extra=%v missing=%v", ck.where, why, nx, nm, ck.why, ck.extra, ck.missing)
		}
	}
	hsyn := c04sHistoryRows("t", 7, want)
	for _, ck := range []struct {
		where, why     string
		extra, missing bool
	}{
		{"m.delid=0 AND m.topic='t' AND m.seqid BETWEEN 2 AND 3 AND d.deletedfor IS NULL", "", false, false},
		{"m.deletedat IS NULL AND m.topic='t' AND m.seqid>=2 AND m.seqid<4 AND d.topic IS NULL", "", false, false},
		{"m.delid=0 AND m.seqid BETWEEN 2 AND 3 AND d.deletedfor IS NULL", "other-topic", true, false},
		{"m.topic='t' AND m.seqid BETWEEN 2 AND 3 AND d.deletedfor IS NULL", "shows-hard-deleted", true, false},
		{"m.delid>0 AND m.topic='t' AND m.seqid BETWEEN 2 AND 3 AND d.deletedfor IS NULL", "shows-hard-deleted", true, true},
		{"m.delid=0 AND m.topic='t' AND m.seqid BETWEEN 2 AND 3", "shows-soft-deleted", true, false},
		{"m.delid=0 AND m.topic='t' AND m.seqid BETWEEN 1 AND 3 AND d.deletedfor IS NULL", "window", true, false},
		{"m.delid=0 AND m.topic='t' AND m.seqid BETWEEN 2 AND 2 AND d.deletedfor IS NULL", "", false, true},
	} {
		rws := make([]c04sRow, len(hsyn))
		for i := range hsyn {
			rws[i] = hsyn[i].Row
		}
		sel, err := c04sSelectRows(hist+ck.where, rws)
		if err != nil {
			return fmt.Errorf("row evaluator self-check: %q not understood (%v)", ck.where, err)
		}
		why, _, _, nx, nm := c04sJudgeRows(hsyn, sel)
		if why != ck.why || (nx > 0) != ck.extra || (nm > 0) != ck.missing {
			return fmt.Errorf("row evaluator self-check: %q judged why=%q extra=%d missing=%d, expected why=%q extra=%v missing=%v", ck.where, why, nx, nm, ck.why, ck.extra, ck.missing)
		}
	}
	return nil
}

func c04sUnit(tt *testing.T, unit string) {
	if err := c04sSelfCheck(); err != nil {
		tt.Fatal(err)
	}
	defer c18Cleanup()
	kit.Check(tt, "C04", unit, c04sGen, c04sExec)
}
