//go:build postgres
// +build postgres

package postgres

// C04 on the SQL of the PostgreSQL adapter (see c04scommon_test.go). PostgreSQL specific part:
// nothing to decode — the adapter is opened with prefer_simple_protocol=true, so pgx sends every
// statement as one Query message with the values written into the text as literals (the dellog
// INSERT included), and the C18 fake server records that text.

import (
	"strings"
	"testing"
)

// c04sTap exists for the MySQL twin (a recording proxy); never instantiated here.
type c04sTap struct{}

func (tp *c04sTap) stop() {}

func c04sOpenCfg(srv *c18Srv) (string, *c04sTap, error) { return srv.config(false), nil, nil }

// c04sDellogTexts returns the literal text of every INSERT INTO dellog the server executed, in order.
func c04sDellogTexts(evs []c18Ev, tp *c04sTap) (rows []string, note string) {
	for _, e := range evs {
		if e.Cls == "write" && e.Ins && strings.Contains(strings.ToUpper(e.Text), "INTO DELLOG") {
			if e.Res != "ok" {
				return nil, "dellog-insert-failed"
			}
			rows = append(rows, e.Text)
		}
	}
	return rows, ""
}

func TestC04SqlPG(tt *testing.T) { c04sUnit(tt, "TestC04SqlPG") }
